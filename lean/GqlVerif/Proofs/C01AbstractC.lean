import GqlVerif.Proofs.C01AbstractB
/-!
# C01 end to end for abstract positions, part C: losslessness of the emitted types

Scope: the class `VariantOp` of part A.  `canonSelV s skip sels j` / `canonAbsV s skip sub j` are the explicit
functions describing the differences C01 allows between a conforming response and `to_value (from_value j)`:
as `canonSel` on object-level selection sets; at an abstract position the interface-level entries in
selection order, then **`__typename` (kept)**, then the entries of the inline fragment on the type
`__typename` names, in its selection order.

* `rtStructV` / `rtTagged` / `rtAbsV` — round trip of a struct, of the `__typename`-tagged enum (the known tag
  selects its own variant), of the type(s) emitted at an abstract position;
* `structV_lossless` — by mutual induction over the selection tree (`rtSelV` / `rtSelsV`).

Additional side condition (decidable): `rustOkSelsV` — within each selection set the Rust field names are
pairwise distinct and, at an abstract position, none of them is `on` (the flattened member's name).
-/
set_option linter.unusedSimpArgs false
set_option linter.unusedVariables false
namespace GqlVerif
namespace C01
namespace E2E
open Serde Spec C13 C03 Codegen

/-! ## the allowed differences, as an explicit function on the JSON value -/

/-- the string under `__typename` (`""` if there is none) -/
def tagName (kvs : List (String × Json)) : String :=
  match Json.lookup "__typename" kvs with
  | some (.str n) => n
  | _ => ""

mutual
  def canonFieldV (s : Schema) (skip : Bool) : Sel → Json → Json
    | .field _ fid sub, v =>
      match s.fields[fid]? with
      | none => v
      | some sf =>
        match sf.ty.id with
        | .scalar k => (match s.scalars[k]? with
          | some n => if n = "ID" then canon idCanon (gtyOf sf.ty.quals) v else v
          | none => v)
        | .enum _ => v
        | .input _ => v
        | .object _ => canon (fun j => match j with
            | .obj kvs => .obj (canonEntriesV s skip sub kvs)
            | j => j) (gtyOf sf.ty.quals) v
        | _ =>
          -- abstract position: the interface-level entries in selection order, then `__typename` (kept),
          -- then the entries of the inline fragment on the type `__typename` names
          canon (fun j => match j with
            | .obj kvs => .obj (canonEntriesV s skip sub kvs ++
                (("__typename", Json.str (tagName kvs)) :: canonInlV s skip (tagName kvs) sub kvs))
            | j => j) (gtyOf sf.ty.quals) v
    | _, v => v
  /-- one entry per selected field, in selection order (see `canonEntries`) -/
  def canonEntriesV (s : Schema) (skip : Bool) : List Sel → List (String × Json) → List (String × Json)
    | [], _ => []
    | .field a fid sub :: xs, kvs =>
      (match s.fields[fid]? with
       | none => []
       | some sf =>
         match Json.lookup (a.getD sf.name) kvs with
         | some v =>
           if skip && skipQ sf.ty.quals && v.isNull then []
           else [(a.getD sf.name, canonFieldV s skip (.field a fid sub) v)]
         | none => if skip && skipQ sf.ty.quals then [] else [(a.getD sf.name, Json.null)]) ++
        canonEntriesV s skip xs kvs
    | _ :: xs, kvs => canonEntriesV s skip xs kvs
  /-- the entries of the inline fragments on the type named `n` -/
  def canonInlV (s : Schema) (skip : Bool) (n : String) : List Sel → List (String × Json) → List (String × Json)
    | [], _ => []
    | .inline t isub :: xs, kvs =>
      (if objName s t == n then canonEntriesV s skip isub kvs else []) ++ canonInlV s skip n xs kvs
    | _ :: xs, kvs => canonInlV s skip n xs kvs
end

/-- **`canonSelV`**: the differences C01 allows between a conforming response `j` and
    `to_value (from_value j)`, for an object-level selection set: as `canonSel` (selection order, integer
    ID → decimal string, `__typename` dropped on *object* selections, `null` → absent where
    `skip_serializing_none` applies); at an abstract position `__typename` **is kept** -/
def canonSelV (s : Schema) (skip : Bool) (sels : List Sel) : Json → Json
  | .obj kvs => .obj (canonEntriesV s skip sels kvs)
  | j => j

/-- … and at an abstract position -/
def canonAbsV (s : Schema) (skip : Bool) (sub : List Sel) : Json → Json
  | .obj kvs => .obj (canonEntriesV s skip sub kvs ++
      (("__typename", Json.str (tagName kvs)) :: canonInlV s skip (tagName kvs) sub kvs))
  | j => j

theorem canonLambdaV (s : Schema) (skip : Bool) (sub : List Sel) :
    (fun j => match j with
      | Json.obj kvs => Json.obj (canonEntriesV s skip sub kvs)
      | j => j) = canonSelV s skip sub := by
  funext j; cases j <;> rfl

theorem canonLambdaAbs (s : Schema) (skip : Bool) (sub : List Sel) :
    (fun j => match j with
      | Json.obj kvs => Json.obj (canonEntriesV s skip sub kvs ++
          (("__typename", Json.str (tagName kvs)) :: canonInlV s skip (tagName kvs) sub kvs))
      | j => j) = canonAbsV s skip sub := by
  funext j; cases j <;> rfl

/-- the canonical form of the value of the field whose wire name is `f.wire` -/
def fcanonOfV (s : Schema) (skip : Bool) (sels : List Sel) (f : RField) (v : Json) : Json :=
  match sels.find? (fun x => respKey s x == some f.wire) with
  | some x => canonFieldV s skip x v
  | none => v

theorem expectOut_canonV (c : Ctx) (pfx : String) (abs : Bool) (fc : RField → Json → Json) (kvs : List (String × Json)) :
    ∀ (sels : List Sel), vSels c.s c.o abs sels = true →
      (∀ a fid sub, Sel.field a fid sub ∈ sels → ∀ f, fieldOfSelV c pfx (.field a fid sub) = some f →
        ∀ v, fc f v = canonFieldV c.s c.o.skipNone (.field a fid sub) v) →
      expectOut fc (fieldsOfV c pfx sels) kvs = canonEntriesV c.s c.o.skipNone sels kvs
  | [], _, _ => by simp [fieldsOfV, expectOut, canonEntriesV]
  | x :: xs, ht, hfc => by
    obtain ⟨hx, hxs⟩ := vSels_cons ht
    have ih := expectOut_canonV c pfx abs fc kvs xs hxs (fun a fid sub hm => hfc a fid sub (List.mem_cons_of_mem _ hm))
    cases x with
    | field a fid sub =>
      obtain ⟨sf, ft, hsf, _, hf, _⟩ := fieldOfSelV_v c pfx abs a fid sub hx
      rw [fieldsOfV_cons_field c pfx _ xs _ hf, expectOut_cons, ih, canonEntriesV.eq_2]
      simp only [hsf, fieldOf_wire, fieldOf_skipNone, hfc a fid sub (by simp) _ hf, Bool.and_assoc]
      cases Json.lookup (a.getD sf.name) kvs <;> rfl
    | spread g => simp [vSel] at hx
    | inline t sub => rw [fieldsOfV_cons_none c pfx _ xs rfl, ih]; simp [canonEntriesV]
    | typename => rw [fieldsOfV_cons_none c pfx _ xs rfl, ih]; simp [canonEntriesV]

/-! ## Rust field names -/

def isAbsField (c : Ctx) (fid : Nat) : Bool :=
  match c.s.fields[fid]? with
  | some sf => sf.ty.id.isAbstract
  | none => false

mutual
  /-- within every selection set the Rust field names are pairwise distinct, and at an abstract position
      none of them is `on` (the name of the flattened member) — otherwise the struct does not compile -/
  def rustOkSelV (c : Ctx) : Sel → Bool
    | .field _ fid sub =>
      EnumSpec.nodup (rustNames c sub ++ (if isAbsField c fid then ["on"] else [])) && rustOkSelsV c sub
    | .inline _ isub => EnumSpec.nodup (rustNames c isub) && rustOkSelsV c isub
    | _ => true
  def rustOkSelsV (c : Ctx) : List Sel → Bool
    | [] => true
    | x :: xs => rustOkSelV c x && rustOkSelsV c xs
end

theorem rust_fieldsOfV (c : Ctx) (pfx : String) (abs : Bool) : ∀ (sels : List Sel), vSels c.s c.o abs sels = true →
    (fieldsOfV c pfx sels).map (·.rust) = rustNames c sels
  | [], _ => rfl
  | x :: xs, ht => by
    obtain ⟨hx, hxs⟩ := vSels_cons ht
    have ih := rust_fieldsOfV c pfx abs xs hxs
    cases x with
    | field a fid sub =>
      obtain ⟨sf, ft, hsf, _, hf, _⟩ := fieldOfSelV_v c pfx abs a fid sub hx
      rw [fieldsOfV_cons_field c pfx _ xs _ hf, List.map_cons, ih]
      simp [rustNames, List.filterMap_cons, rustName, hsf, fieldOf]
    | spread g => simp [vSel] at hx
    | inline t sub =>
      rw [fieldsOfV_cons_none c pfx _ xs rfl, ih]; simp [rustNames, List.filterMap_cons, rustName]
    | typename =>
      rw [fieldsOfV_cons_none c pfx _ xs rfl, ih]; simp [rustNames, List.filterMap_cons, rustName]

theorem envSelsV_mem {e : Env} {c : Ctx} {pfx : String} : ∀ {sels : List Sel}, envSelsV e c pfx sels →
    ∀ x ∈ sels, envSelV e c pfx x
  | [], _, _, hx => by simp at hx
  | y :: ys, h, x, hx => by
    rw [envSelsV] at h
    rcases List.mem_cons.mp hx with rfl | hx'
    · exact h.1
    · exact envSelsV_mem h.2 x hx'

theorem rustOkSelsV_mem {c : Ctx} : ∀ {sels : List Sel}, rustOkSelsV c sels = true →
    ∀ x ∈ sels, rustOkSelV c x = true
  | [], _, _, hx => by simp at hx
  | y :: ys, h, x, hx => by
    rw [rustOkSelsV, Bool.and_eq_true] at h
    rcases List.mem_cons.mp hx with rfl | hx'
    · exact h.1
    · exact rustOkSelsV_mem h.2 x hx'

theorem mem_fieldsOfV {c : Ctx} {pfx : String} {abs : Bool} {sels : List Sel} {f : RField}
    (hf : f ∈ fieldsOfV c pfx sels) (ht : vSels c.s c.o abs sels = true) :
    ∃ a fid sub sf ft, Sel.field a fid sub ∈ sels ∧ c.s.fields[fid]? = some sf ∧
      fieldOfSelV c pfx (.field a fid sub) = some f ∧
      f = fieldOf c (a.getD sf.name) ft sf.ty.quals sf.deprecation ∧ wfQuals sf.ty.quals = true := by
  obtain ⟨x, hx, hfx⟩ := List.mem_filterMap.mp hf
  cases x with
  | field a fid sub =>
    obtain ⟨sf, ft, hsf, _, hf', hw⟩ := fieldOfSelV_v c pfx abs a fid sub (vSels_mem ht _ hx)
    rw [hf'] at hfx
    exact ⟨a, fid, sub, sf, ft, hx, hsf, by rw [hf', hfx], (Option.some.inj hfx).symm, hw⟩
  | spread g => cases hfx
  | inline t sub => cases hfx
  | typename => cases hfx


theorem variantsV_wire (c : Ctx) (pfx : String) (ty : TypeId) (sub : List Sel) :
    (variantsV c pfx ty sub).map (·.wire) = variantNames c.s c.o ty ∧
    (variantsV c pfx ty sub).map (·.name) = variantNames c.s c.o ty := by
  unfold variantsV variantNames otherVariants
  simp only [List.map_append, List.map_map]
  constructor
  · congr 1
    · apply List.map_congr_left; intro vt _; exact (variantOf_wire c pfx sub vt).1
    · cases c.o.otherVariant <;> rfl
  · congr 1
    · apply List.map_congr_left; intro vt _; exact (variantOf_wire c pfx sub vt).2.1
    · cases c.o.otherVariant <;> rfl

theorem canonEntriesV_filter (s : Schema) (skip : Bool) (q : String × Json → Bool) (kvs : List (String × Json)) :
    ∀ (sels : List Sel), (∀ k ∈ fieldKeys s sels, ∀ v, q (k, v) = true) →
      canonEntriesV s skip sels (kvs.filter q) = canonEntriesV s skip sels kvs
  | [], _ => by simp [canonEntriesV]
  | x :: xs, h => by
    cases x with
    | field a fid sub =>
      rw [canonEntriesV.eq_2, canonEntriesV.eq_2]
      cases hsf : s.fields[fid]? with
      | none =>
        have ih := canonEntriesV_filter s skip q kvs xs (fun k hk' => h k (by
          simpa [fieldKeys, List.filterMap_cons, fieldKey, hsf] using hk'))
        simp only [ih]
      | some sf =>
        have hk : ∀ v, q (a.getD sf.name, v) = true := h _ (by simp [fieldKeys, fieldKey, hsf, List.filterMap_cons])
        have ih := canonEntriesV_filter s skip q kvs xs (fun k hk' => h k (by
          simp only [fieldKeys, List.filterMap_cons, fieldKey, hsf, Option.map_some] at hk' ⊢
          exact List.mem_cons_of_mem _ hk'))
        simp only [lookup_filter q _ hk, ih]
    | spread g =>
      have ih := canonEntriesV_filter s skip q kvs xs (fun k hk' => h k (by simpa [fieldKeys, List.filterMap_cons, fieldKey] using hk'))
      simpa [canonEntriesV] using ih
    | inline t sub =>
      have ih := canonEntriesV_filter s skip q kvs xs (fun k hk' => h k (by simpa [fieldKeys, List.filterMap_cons, fieldKey] using hk'))
      simpa [canonEntriesV] using ih
    | typename =>
      have ih := canonEntriesV_filter s skip q kvs xs (fun k hk' => h k (by simpa [fieldKeys, List.filterMap_cons, fieldKey] using hk'))
      simpa [canonEntriesV] using ih

/-- with at most one inline fragment per type and pairwise distinct type names: the entries of the inline
    fragments on the type named like `vt` are those of the inline fragment on `vt` (none if there is none) -/
theorem canonInlV_unique (s : Schema) (skip : Bool) (vt : TypeId) (kvs : List (String × Json))
    (names : List TypeId) (hnames : (names.map (objName s)).Nodup) (hvt : vt ∈ names) : ∀ (sub : List Sel),
    (sub.filterMap inlineTy).Nodup → (∀ t ∈ sub.filterMap inlineTy, t ∈ names) →
    (vt ∉ sub.filterMap inlineTy → canonInlV s skip (objName s vt) sub kvs = []) ∧
    (∀ isub, Sel.inline vt isub ∈ sub → canonInlV s skip (objName s vt) sub kvs = canonEntriesV s skip isub kvs)
  | [], _, _ => by simp [canonInlV]
  | x :: xs, hnd, hin => by
    cases x with
    | inline t isub' =>
      simp only [List.filterMap_cons, inlineTy, List.nodup_cons] at hnd
      have hin' : ∀ t ∈ xs.filterMap inlineTy, t ∈ names := fun t' h' => hin t' (by simp [List.filterMap_cons, inlineTy, h'])
      obtain ⟨ih1, ih2⟩ := canonInlV_unique s skip vt kvs names hnames hvt xs hnd.2 hin'
      have ht : t ∈ names := hin t (by simp [List.filterMap_cons, inlineTy])
      rw [canonInlV.eq_2]
      by_cases htv : t = vt
      · subst htv
        refine ⟨fun hn => absurd (by simp [List.filterMap_cons, inlineTy]) hn, ?_⟩
        intro isub hm
        simp only [List.mem_cons, Sel.inline.injEq, true_and] at hm
        rcases hm with rfl | hm
        · simp [ih1 hnd.1]
        · exact absurd (List.mem_filterMap.mpr ⟨Sel.inline t isub, hm, rfl⟩ : t ∈ xs.filterMap inlineTy) hnd.1
      · have hne : (objName s t == objName s vt) = false := by
          have : objName s t ≠ objName s vt := by
            intro heq
            have h1 := find_by_name s names hnames t ht
            have h2 := find_by_name s names hnames vt hvt
            rw [heq, h2] at h1
            exact htv (Option.some.inj h1).symm
          simpa using this
        simp only [hne, Bool.false_eq_true, ↓reduceIte, List.nil_append]
        refine ⟨fun hn => ih1 (fun hm => hn (by simp [List.filterMap_cons, inlineTy, hm])), ?_⟩
        intro isub hm
        simp only [List.mem_cons, Sel.inline.injEq] at hm
        rcases hm with ⟨h1, _⟩ | hm
        · exact absurd h1.symm htv
        · exact ih2 isub hm
    | field a fid sub' =>
      have e1 : (Sel.field a fid sub' :: xs).filterMap inlineTy = xs.filterMap inlineTy := by simp [List.filterMap_cons, inlineTy]
      rw [e1] at hnd hin ⊢
      obtain ⟨ih1, ih2⟩ := canonInlV_unique s skip vt kvs names hnames hvt xs hnd hin
      simp only [canonInlV, List.mem_cons, reduceCtorEq, false_or]
      exact ⟨ih1, ih2⟩
    | spread g =>
      have e1 : (Sel.spread g :: xs).filterMap inlineTy = xs.filterMap inlineTy := by simp [List.filterMap_cons, inlineTy]
      rw [e1] at hnd hin ⊢
      obtain ⟨ih1, ih2⟩ := canonInlV_unique s skip vt kvs names hnames hvt xs hnd hin
      simp only [canonInlV, List.mem_cons, reduceCtorEq, false_or]
      exact ⟨ih1, ih2⟩
    | typename =>
      have e1 : (Sel.typename :: xs).filterMap inlineTy = xs.filterMap inlineTy := by simp [List.filterMap_cons, inlineTy]
      rw [e1] at hnd hin ⊢
      obtain ⟨ih1, ih2⟩ := canonInlV_unique s skip vt kvs names hnames hvt xs hnd hin
      simp only [canonInlV, List.mem_cons, reduceCtorEq, false_or]
      exact ⟨ih1, ih2⟩

theorem canonEntriesV_nofield (s : Schema) (skip : Bool) (kvs : List (String × Json)) :
    ∀ (sels : List Sel), sels.any isFieldSel = false → canonEntriesV s skip sels kvs = []
  | [], _ => by simp [canonEntriesV]
  | x :: xs, h => by
    simp only [List.any_cons, Bool.or_eq_false_iff] at h
    have ih := canonEntriesV_nofield s skip kvs xs h.2
    cases x with
    | field a fid sub => simp [isFieldSel] at h
    | spread g => simpa [canonEntriesV] using ih
    | inline t sub => simpa [canonEntriesV] using ih
    | typename => simpa [canonEntriesV] using ih

/-- the record `deStructMapWith` assembles for `pre ++ [on]` -/
theorem assemble_on (pre : List RField) (g : RField) (a : List (String × Val)) (x : Val)
    (ha : All2 (fun f p => p.1 = f.rust) pre a) (hr : ((pre ++ [g]).map (·.rust)).Nodup) :
    (pre ++ [g]).filterMap (fun f => (a ++ [(g.rust, x)]).find? (·.1 == f.rust)) = a ++ [(g.rust, x)] := by
  have := assemble pre [] g a [] x ha .nil hr
  simpa using this

section RTV
variable (e : Env) (c : Ctx)

def RTSelV (pfx : String) (x : Sel) : Prop :=
  ∀ abs, vSel c.s c.o abs x = true → envSelV e c pfx x → rustOkSelV c x = true → ∀ f, fieldOfSelV c pfx x = some f →
    ∀ b fd fs, 2 * selDepth x + 1 ≤ fd → 2 * selDepth x ≤ fs → ∀ v y, strictFieldV c.s x v = true →
      deFieldWith (dePath e b fd) f v = .ok y →
      serTyWith (serPath e fs) f.ty y = .ok (canonFieldV c.s c.o.skipNone x v)

/-- what the round trip of a struct needs of the object it reads: pairwise distinct keys, and under every
    selected field's key a value conforming to the field -/
def FieldsOk (s : Schema) (sels : List Sel) (kvs : List (String × Json)) : Prop :=
  (kvs.map (·.1)).Nodup ∧
  ∀ a fid sub, Sel.field a fid sub ∈ sels → ∀ sf, s.fields[fid]? = some sf →
    ∀ v, Json.lookup (a.getD sf.name) kvs = some v → strictFieldV s (.field a fid sub) v = true

/-- round trip of the variant struct of an inline fragment -/
def RTInlV (pfx : String) : Sel → Prop
  | .inline t isub =>
    vSel c.s c.o true (.inline t isub) = true → envSelV e c pfx (.inline t isub) → rustOkSelV c (.inline t isub) = true →
      ∀ fd fs, 2 * selsDepth isub + 2 ≤ fd → 2 * selsDepth isub + 1 ≤ fs →
        ∀ kvs, FieldsOk c.s isub kvs → ∀ v, dePath e true fd (pfx ++ "On" ++ objName c.s t) (.obj kvs) = .ok v →
          serPath e fs (pfx ++ "On" ++ objName c.s t) v = .ok (.obj (canonEntriesV c.s c.o.skipNone isub kvs))
  | _ => True

/-- round trip of the struct of an object-level selection set, from the round trips of its fields -/
theorem rtStructV (pfx name : String) (sels : List Sel) (H : ∀ x ∈ sels, RTSelV e c pfx x) (abs : Bool)
    (ht : vSels c.s c.o abs sels = true) (henv : envSelsV e c pfx sels)
    (hro : rustOkSelsV c sels = true) (hrn : EnumSpec.nodup (rustNames c sels) = true)
    (hkeys : EnumSpec.nodup (respKeys c.s sels) = true)
    (hs : StructEnv e name (fieldsOfV c pfx sels)) (b : Bool) (fd fs : Nat)
    (hfd : 2 * selsDepth sels + 2 ≤ fd) (hfs : 2 * selsDepth sels + 1 ≤ fs) (kvs : List (String × Json))
    (hok : FieldsOk c.s sels kvs) (v : Val) (hd : dePath e b fd name (.obj kvs) = .ok v) :
    serPath e fs name v = .ok (.obj (canonEntriesV c.s c.o.skipNone sels kvs)) := by
  obtain ⟨hp, _, n, d, cr, hfind⟩ := hs
  obtain ⟨hnd, hst⟩ := hok
  obtain ⟨fd', rfl⟩ : ∃ k, fd = k + 1 := ⟨fd - 1, by omega⟩
  obtain ⟨fs', rfl⟩ : ∃ k, fs = k + 1 := ⟨fs - 1, by omega⟩
  have hkn := nodup_iff'.mp hkeys
  have key : ∀ f ∈ fieldsOfV c pfx sels, ∀ j, Json.lookup f.wire kvs = some j →
      ∃ a fid sub, Sel.field a fid sub ∈ sels ∧ fieldOfSelV c pfx (.field a fid sub) = some f ∧
        strictFieldV c.s (.field a fid sub) j = true ∧
        fcanonOfV c.s c.o.skipNone sels f j = canonFieldV c.s c.o.skipNone (.field a fid sub) j := by
    intro f hf j hl
    obtain ⟨a, fid, sub, sf, ft, hx, hsf, hfx, rfl, _⟩ := mem_fieldsOfV hf ht
    rw [fieldOf_wire] at hl
    refine ⟨a, fid, sub, hx, hfx, hst a fid sub hx sf hsf j hl, ?_⟩
    unfold fcanonOfV
    rw [fieldOf_wire, find_respKey c.s _ sels hkn _ hx (by simp [respKey, hsf])]
  have hrt := struct_roundtrip_path e b fd' fs' name n d cr (fieldsOfV c pfx sels)
    (fcanonOfV c.s c.o.skipNone sels) kvs hp hfind (plain_fieldsOfV c pfx sels)
    (by rw [rust_fieldsOfV c pfx abs sels ht]; exact nodup_iff'.mp hrn) hnd
    (by
      intro f hf j x hl hdx
      obtain ⟨a, fid, sub, hx, hfx, hst', hfc⟩ := key f hf j hl
      rw [hfc]
      have hdep := C02.selDepth_le_of_mem hx
      exact H _ hx abs (vSels_mem ht _ hx) (envSelsV_mem henv _ hx) (rustOkSelsV_mem hro _ hx) f hfx b fd' fs'
        (by omega) (by omega) j x hst' hdx)
    (by
      intro f hf hskip j x _ hdx
      obtain ⟨a, fid, sub, sf, ft, _, _, _, rfl, _⟩ := mem_fieldsOfV hf ht
      refine field_unit_iff _ _ (.inr ?_) j x hdx
      rw [fieldOf_skipNone, Bool.and_eq_true] at hskip
      exact (isOption_rustOf ft sf.ty.quals).trans (skipQ_nullable hskip.2))
    (by
      intro f hf hdef
      obtain ⟨a, fid, sub, sf, ft, _, _, _, rfl, _⟩ := mem_fieldsOfV hf ht
      have : (decide (ft = "ID") && nullableQ sf.ty.quals) = true := hdef
      rw [Bool.and_eq_true] at this
      exact (isOption_rustOf ft sf.ty.quals).trans this.2)
    v hd
  rw [hrt]
  congr 2
  apply expectOut_canonV c pfx abs _ kvs sels ht
  intro a fid sub hx f hfx v
  obtain ⟨sf, ft, hsf, _, hf', _⟩ := fieldOfSelV_v c pfx abs a fid sub (vSels_mem ht _ hx)
  rw [hf'] at hfx
  cases hfx
  unfold fcanonOfV
  rw [fieldOf_wire, find_respKey c.s _ sels hkn _ hx (by simp [respKey, hsf])]

/-- what a response object conforming at an abstract position looks like -/
theorem abs_conf_facts {s : Schema} {o : Options} {ty : TypeId} {sub : List Sel} {j : Json}
    (hty : absHyp s ty) (hok : absOk s o ty sub = true) (h : conformsAt s ty sub j = true) :
    ∃ rt kvs, j = .obj kvs ∧ (kvs.map (·.1)).Nodup ∧ confSelsV s rt sub kvs = true ∧
      Json.lookup "__typename" kvs = some (.str (rtName s rt)) ∧ TypeId.object rt ∈ vtsOfTy s ty := by
  obtain ⟨htn, _, _, _, _, _, _, _⟩ := absOk_parts hok
  simp only [conformsAt, List.any_eq_true, List.mem_range, Bool.and_eq_true] at h
  obtain ⟨rt, hrt, happ, hc⟩ := h
  cases j with
  | obj kvs =>
    simp only [conformsV, Bool.and_eq_true] at hc
    obtain ⟨⟨hnd, _⟩, hconf⟩ := hc
    refine ⟨rt, kvs, rfl, nodup_iff'.mp hnd, hconf, ?_, mem_vtsOfTy happ hrt hty⟩
    have := confSelsV_mem hconf _ (typename_mem htn)
    simp only [confSelV] at this
    split at this
    · rename_i n hl; rw [hl]; simp only [beq_iff_eq] at this; rw [this]
    · cases this
  | null => simp [conformsV] at hc
  | bool _ => simp [conformsV] at hc
  | int _ => simp [conformsV] at hc
  | num _ => simp [conformsV] at hc
  | str _ => simp [conformsV] at hc
  | arr _ => simp [conformsV] at hc

/-- **round trip of the `__typename`-tagged enum** of an abstract position, read from the entries
    `kvs.filter q` of a conforming response object (`q` keeps the tag and the keys of the inline fragments):
    the known tag selects its own variant, and the value is written back as the tag entry followed by the
    entries of the inline fragment on that type -/
theorem rtTagged (pfx p : String) (ty : TypeId) (sub : List Sel) (HI : ∀ x ∈ sub, RTInlV e c pfx x)
    (ht : vSels c.s c.o true sub = true) (hok : absOk c.s c.o ty sub = true) (henv : envSelsV e c pfx sub)
    (hro : rustOkSelsV c sub = true) (hs : TaggedEnv e p (variantsV c pfx ty sub))
    (rt : Nat) (kvs : List (String × Json)) (hnd : (kvs.map (·.1)).Nodup) (hconf : confSelsV c.s rt sub kvs = true)
    (htag : Json.lookup "__typename" kvs = some (.str (rtName c.s rt))) (hmem : TypeId.object rt ∈ vtsOfTy c.s ty)
    (q : String × Json → Bool) (hqt : ∀ v, q ("__typename", v) = true)
    (hqi : ∀ t isub, Sel.inline t isub ∈ sub → ∀ k ∈ fieldKeys c.s isub, ∀ v, q (k, v) = true)
    (buffered : Bool) (fd fs : Nat) (hfd : 2 * selsDepth sub ≤ fd) (hfs : 2 * selsDepth sub ≤ fs) (r : Val)
    (hd : deTaggedWith (dePath e true fd) buffered "__typename" (variantsV c pfx ty sub) (kvs.filter q) = .ok r) :
    (∃ payload, r = .variant (rtName c.s rt) payload) ∧
    serPath e (fs + 1) p r = .ok (.obj (("__typename", .str (rtName c.s rt)) ::
      canonInlV c.s c.o.skipNone (rtName c.s rt) sub kvs)) := by
  obtain ⟨htn, hrk, hobj, _, hvn, hin, hind, hexcl⟩ := absOk_parts hok
  obtain ⟨hp, _, n, d, cr, hfind⟩ := hs
  have hcnt := countKey_le_one_of_nodup hnd
  have hl2 : Json.lookup "__typename" (kvs.filter q) = some (.str (rtName c.s rt)) := by
    rw [lookup_filter q _ hqt]; exact htag
  have hc2 : countKey "__typename" (kvs.filter q) = 1 := by
    rw [countKey_filter q _ hqt]
    have := countKey_pos_of_lookup htag
    have := hcnt "__typename"
    omega
  obtain ⟨hw1, hw2, hw3⟩ := variantOf_wire c pfx sub (.object rt)
  have hvmem : variantOf c pfx sub (.object rt) ∈ variantsV c pfx ty sub := by
    unfold variantsV
    exact List.mem_append_left _ (List.mem_map_of_mem hmem)
  have hnames : ((vtsOfTy c.s ty).map (objName c.s)).Nodup := by
    unfold variantNames at hvn
    exact (List.nodup_append.mp hvn).1
  obtain ⟨hu1, hu2⟩ := canonInlV_unique c.s c.o.skipNone (.object rt) kvs _ hnames hmem sub hind hin
  have hrest_q : ∀ t isub, Sel.inline t isub ∈ sub → ∀ k ∈ fieldKeys c.s isub, ∀ v,
      ((fun kv : String × Json => kv.1 != "__typename") (k, v) && q (k, v)) = true := by
    intro t isub hm k hk v
    have h2 : k ≠ "__typename" := by
      intro heq
      have := hexcl t isub hm k hk
      rw [heq] at this
      exact this (List.mem_filterMap.mpr ⟨_, typename_mem htn, rfl⟩)
    simp [hqi t isub hm k hk v, h2]
  have hrt := tagged_roundtrip e fd fs buffered p n d cr "__typename" (variantsV c pfx ty sub) (kvs.filter q)
    (variantOf c pfx sub (.object rt)) (fun _ => canonInlV c.s c.o.skipNone (rtName c.s rt) sub kvs) hfind
    (by rw [(variantsV_wire c pfx ty sub).1]; exact hvn) (by rw [(variantsV_wire c pfx ty sub).2]; exact hvn)
    hvmem hw3 hc2 (by rw [hw1]; exact hl2)
    (by
      intro t hpl x hx
      -- the payload: the variant struct of the inline fragment on `rt`
      unfold variantOf at hpl
      split at hpl
      · rename_i hcont
        simp only [Option.some.injEq] at hpl
        subst hpl
        have hm : TypeId.object rt ∈ sub.filterMap inlineTy := by simpa using hcont
        obtain ⟨y, hy, hyt⟩ := List.mem_filterMap.mp hm
        cases y with
        | inline t' isub =>
          simp only [inlineTy, Option.some.injEq] at hyt
          subst hyt
          have hvy := vSels_mem ht _ hy
          have hey := envSelsV_mem henv _ hy
          have hry := rustOkSelsV_mem hro _ hy
          have hdep := C02.selDepth_le_of_mem hy
          rw [selDepth] at hdep
          have hconf_i : confSelsV c.s rt isub kvs = true := by
            have := confSelsV_mem hconf _ hy
            simpa [confSelV, fragApplies] using this
          rw [List.filter_filter] at hx
          have hI := HI _ hy hvy hey hry fd fs (by omega) (by omega)
            (kvs.filter (fun kv => (kv.1 != "__typename") && q kv))
            ⟨(List.filter_sublist.map _).nodup hnd, by
              intro a fid sub' hmf sf hsf v hl
              have hk : ∀ v, (fun kv : String × Json => (kv.1 != "__typename") && q kv) (a.getD sf.name, v) = true :=
                fun v => hrest_q _ isub hy _ (by
                  exact List.mem_filterMap.mpr ⟨_, hmf, by simp [fieldKey, hsf]⟩) v
              rw [lookup_filter _ _ hk] at hl
              have := confSelsV_mem hconf_i _ hmf
              rw [confSelV_field] at this
              simpa [hsf, hl] using this⟩
            x hx
          rw [show serTyWith (serPath e fs) (.path (pfx ++ "On" ++ objName c.s (.object rt))) x =
            serPath e fs (pfx ++ "On" ++ objName c.s (.object rt)) x from rfl, hI]
          rw [canonEntriesV_filter c.s c.o.skipNone _ kvs isub (fun k hk v => hrest_q _ isub hy k hk v)]
          rw [show rtName c.s rt = objName c.s (.object rt) from rfl, hu2 isub hy]
        | field a fid sub' => cases hyt
        | spread g => cases hyt
        | typename => cases hyt
      · cases hpl)
  obtain ⟨_, hval⟩ := hrt
  obtain ⟨⟨payload, hpv⟩, out, hser, hout, _⟩ := hval r hd
  rw [hw2] at hpv
  refine ⟨⟨payload, hpv⟩, ?_⟩
  rw [hser, hout, hw1]
  congr 3
  -- unit variant: no inline fragment on `rt`
  unfold variantOf
  split
  · rfl
  · rename_i hcont
    have : TypeId.object rt ∉ sub.filterMap inlineTy := by simpa using hcont
    simp only [Option.isSome_none, Bool.false_eq_true, ↓reduceIte]
    exact (hu1 this).symm

theorem find_append_not_left {L : List (String × Val)} {n : String} {x : Val} (h : n ∉ L.map (·.1)) :
    (L ++ [(n, x)]).find? (·.1 == n) = some (n, x) := by
  rw [List.find?_append]
  have : L.find? (·.1 == n) = none := by
    rw [List.find?_eq_none]
    intro p hp
    have : p.1 ≠ n := fun heq => h (heq ▸ List.mem_map_of_mem hp)
    simpa using this
  simp [this]

/-- **round trip of the type(s) emitted at an abstract position** -/
theorem rtAbsV (pfx name : String) (ty : TypeId) (sub : List Sel) (H : ∀ x ∈ sub, RTSelV e c pfx x)
    (HI : ∀ x ∈ sub, RTInlV e c pfx x) (hty : absHyp c.s ty)
    (ht : vSels c.s c.o true sub = true) (hok : absOk c.s c.o ty sub = true) (henv : envSelsV e c pfx sub)
    (hro : rustOkSelsV c sub = true) (hrn : EnumSpec.nodup (rustNames c sub ++ ["on"]) = true)
    (hs : AbsEnv e name (fieldsOfV c pfx sub) (variantsV c pfx ty sub)) (b : Bool) (fd fs : Nat)
    (hfd : 2 * selsDepth sub + 3 ≤ fd) (hfs : 2 * selsDepth sub + 2 ≤ fs) (j : Json) (w : Val)
    (hc : conformsAt c.s ty sub j = true) (hd : dePath e b fd name j = .ok w) :
    serPath e fs name w = .ok (canonAbsV c.s c.o.skipNone sub j) := by
  obtain ⟨rt, kvs, rfl, hnd, hconf, htag, hmem⟩ := abs_conf_facts hty hok hc
  obtain ⟨htn, hrk, _, _, _, _, _, hexcl⟩ := absOk_parts hok
  have hemp := isEmpty_fieldsOfV c pfx true sub ht
  have htagName : tagName kvs = rtName c.s rt := by simp [tagName, htag]
  unfold AbsEnv at hs
  simp only [canonAbsV, htagName]
  cases hF : sub.any isFieldSel
  · -- the tagged enum alone
    rw [hF] at hemp
    simp only [hemp, Bool.not_false, ↓reduceIte] at hs
    obtain ⟨fd', rfl⟩ : ∃ k, fd = k + 1 := ⟨fd - 1, by omega⟩
    obtain ⟨fs', rfl⟩ : ∃ k, fs = k + 1 := ⟨fs - 1, by omega⟩
    rw [dePath_tagged e b fd' name _ _ _ _ _ hs.1 hs.2.2.choose_spec.choose_spec.choose_spec] at hd
    have hkf : kvs = kvs.filter (fun _ => true) := (List.filter_eq_self.mpr (fun _ _ => rfl)).symm
    rw [hkf] at hd
    have := (rtTagged e c pfx name ty sub HI ht hok henv hro hs rt kvs hnd hconf htag hmem (fun _ => true)
      (fun _ => rfl) (fun _ _ _ _ _ _ => rfl) b fd' fs' (by omega) (by omega) w hd).2
    rw [this, canonEntriesV_nofield c.s _ kvs sub hF]; rfl
  · -- the struct with the interface-level fields and the flattened `on`
    rw [hF] at hemp
    simp only [hemp, Bool.not_true, Bool.false_eq_true, ↓reduceIte] at hs
    obtain ⟨⟨hp, _, n, d, cr, hfind⟩, hsT⟩ := hs
    have hsT' := hsT
    obtain ⟨_, _, n', d', cr', hfind'⟩ := hsT'
    obtain ⟨fd', rfl⟩ : ∃ k, fd = k + 2 := ⟨fd - 2, by omega⟩
    obtain ⟨fs', rfl⟩ : ∃ k, fs = k + 2 := ⟨fs - 2, by omega⟩
    have hpl := plain_fieldsOfV c pfx sub
    have hcnt := countKey_le_one_of_nodup hnd
    rw [dePath_struct e b (fd' + 1) name n d cr _ hp hfind, deStruct_obj,
      deStructMap_on e fd' _ _ (onField name) (name ++ "On") n' d' cr' "__typename" _ kvs hpl rfl rfl hfind'] at hd
    obtain ⟨own, hown, hd⟩ := C02.bind_ok hd
    obtain ⟨r, hr, hd⟩ := C02.bind_ok hd
    simp only [pure, Except.pure, Except.ok.injEq] at hd
    have hall := (deOwn_ok_iff _ kvs hcnt _ own hpl).mp hown
    have hrust : ((fieldsOfV c pfx sub ++ [onField name]).map (·.rust)).Nodup := by
      rw [List.map_append, rust_fieldsOfV c pfx true sub ht]
      exact nodup_iff'.mp hrn
    rw [assemble_on _ (onField name) own r (hall.imp (fun _ _ hh => hh.1)) hrust] at hd
    subst hd
    have hkn := nodup_iff'.mp hrk
    -- own fields
    have hfindown := find_of_all2 (R := fun f x => readField (dePath e b (fd' + 1)) f kvs = .ok x) hall (by
      rw [rust_fieldsOfV c pfx true sub ht]
      exact (List.nodup_append.mp (nodup_iff'.mp hrn)).1)
    have hon_not : "on" ∉ own.map (·.1) := by
      have e1 : own.map (·.1) = (fieldsOfV c pfx sub).map (·.rust) := All2.map_fst (fun _ _ hh => hh.1) hall
      rw [e1, rust_fieldsOfV c pfx true sub ht]
      have := (List.nodup_append.mp (nodup_iff'.mp hrn)).2.2
      intro hm
      exact this _ hm _ (by simp) rfl
    have hs1 : serFieldsWith (serPath e (fs' + 1)) (fieldsOfV c pfx sub) (own ++ [("on", r)]) =
        .ok (expectOut (fcanonOfV c.s c.o.skipNone sub) (fieldsOfV c pfx sub) kvs) := by
      refine ser_of_read (dePath e b (fd' + 1)) _ _ kvs _ _ hpl ?_ ?_ ?_ ?_
      · intro f hf
        obtain ⟨x, hx, hR⟩ := hfindown f hf
        exact ⟨x, by rw [List.find?_append, hx]; rfl, hR⟩
      · intro f hf jv x hl hdx
        obtain ⟨a, fid, sub', sf, ft, hx, hsf, hfx, rfl, _⟩ := mem_fieldsOfV hf ht
        rw [fieldOf_wire] at hl
        have hst : strictFieldV c.s (.field a fid sub') jv = true := by
          have := confSelsV_mem hconf _ hx
          rw [confSelV_field] at this
          simpa [hsf, hl] using this
        have hfc : fcanonOfV c.s c.o.skipNone sub (fieldOf c (a.getD sf.name) ft sf.ty.quals sf.deprecation) jv =
            canonFieldV c.s c.o.skipNone (.field a fid sub') jv := by
          unfold fcanonOfV
          rw [fieldOf_wire, find_respKey c.s _ sub hkn _ hx (by simp [respKey, hsf])]
        rw [hfc]
        have hdep := C02.selDepth_le_of_mem hx
        exact H _ hx true (vSels_mem ht _ hx) (envSelsV_mem henv _ hx) (rustOkSelsV_mem hro _ hx) _ hfx b (fd' + 1)
          (fs' + 1) (by omega) (by omega) jv x hst hdx
      · intro f hf hskip jv x _ hdx
        obtain ⟨a, fid, sub', sf, ft, _, _, _, rfl, _⟩ := mem_fieldsOfV hf ht
        refine field_unit_iff _ _ (.inr ?_) jv x hdx
        rw [fieldOf_skipNone, Bool.and_eq_true] at hskip
        exact (isOption_rustOf ft sf.ty.quals).trans (skipQ_nullable hskip.2)
      · intro f hf hdef
        obtain ⟨a, fid, sub', sf, ft, _, _, _, rfl, _⟩ := mem_fieldsOfV hf ht
        have : (decide (ft = "ID") && nullableQ sf.ty.quals) = true := hdef
        rw [Bool.and_eq_true] at this
        exact (isOption_rustOf ft sf.ty.quals).trans this.2
    -- the flattened tagged enum
    rw [wire_fieldsOfV c pfx true sub ht] at hr
    have hnf := typename_not_fieldKey c.s sub htn hrk
    have hs2 := (rtTagged e c pfx (name ++ "On") ty sub HI ht hok henv hro hsT rt kvs hnd hconf htag hmem
      (fun kv => !(fieldKeys c.s sub).contains kv.1) (by intro v; simpa using hnf)
      (by
        intro t isub hm k hk v
        have := hexcl t isub hm k hk
        have : k ∉ fieldKeys c.s sub := fun h' => this (fieldKeys_sub_respKeys c.s sub k h')
        simpa using this)
      true fd' fs' (by omega) (by omega) r hr).2
    rw [serPath_struct e (fs' + 1) name n d cr _ hfind,
      flatten_ser_concat _ _ (fieldsOfV c pfx sub) [] (onField name) "on" r _ _ [] hpl rfl
        (find_append_not_left hon_not) hs1 hs2 rfl]
    rw [expectOut_canonV c pfx true _ kvs sub ht (by
      intro a fid sub' hx f hfx v
      obtain ⟨sf, ft, hsf, _, hf', _⟩ := fieldOfSelV_v c pfx true a fid sub' (vSels_mem ht _ hx)
      rw [hf'] at hfx
      cases hfx
      unfold fcanonOfV
      rw [fieldOf_wire, find_respKey c.s _ sub hkn _ hx (by simp [respKey, hsf])])]
    simp only [List.append_nil]
    rfl

end RTV


theorem isAbsField_of {c : Ctx} {fid : Nat} {sf : StoredField} (hsf : c.s.fields[fid]? = some sf) :
    isAbsField c fid = sf.ty.id.isAbstract := by
  simp [isAbsField, hsf]

section RTV2
variable (e : Env) (c : Ctx)

mutual
  theorem rtSelV : ∀ (x : Sel) (pfx : String), RTSelV e c pfx x ∧ RTInlV e c pfx x
    | .field a fid sub, pfx => by
      refine ⟨?_, trivial⟩
      intro abs ht henv hro f hf b fd fs hfd hfs v y hst hd
      have IH := rtSelsV sub
      rw [selDepth] at hfd hfs
      obtain ⟨fd', rfl⟩ : ∃ k, fd = k + 3 := ⟨fd - 3, by omega⟩
      obtain ⟨fs', rfl⟩ : ∃ k, fs = k + 1 := ⟨fs - 1, by omega⟩
      rw [vSel] at ht
      rw [envSelV] at henv
      rw [rustOkSelV, Bool.and_eq_true] at hro
      simp only [strictFieldV] at hst
      rw [canonFieldV]
      cases hsf : c.s.fields[fid]? with
      | none => simp [hsf] at ht
      | some sf =>
        simp only [hsf, Bool.and_eq_true] at ht henv hst ⊢
        obtain ⟨⟨hw, _⟩, hty⟩ := ht
        have hwf : wf (gtyOf sf.ty.quals) = true := by rw [wf_gtyOf]; exact hw
        rw [isAbsField_of hsf] at hro
        cases hid : sf.ty.id with
        | scalar k =>
          simp only [hid, Bool.and_eq_true] at hty henv hst ⊢
          cases hk : c.s.scalars[k]? with
          | none => simp [hk] at hty
          | some sn =>
            simp only [hk] at henv hst ⊢
            simp only [fieldOfSelV, hsf, leafNameV, hid, hk, Option.some.injEq] at hf
            subst hf
            by_cases hID : sn = "ID"
            · subst hID
              simp only [↓reduceIte]
              exact field_roundtrip_id _ _ (fun s => serPath_prim e fs' "ID" (.str s) (.str s) rfl) _
                (gtyOf sf.ty.quals) (by simp [fieldOf]) rfl hwf v y hd
            · simp only [hID, ↓reduceIte]
              have := field_roundtrip_plain (dePath e b (fd' + 3)) (serPath e (fs' + 1)) _ sn (gtyOf sf.ty.quals) id
                (by simp [fieldOf, hID]) rfl hwf (leaf_scalar_rt e sn henv hID b fd' fs') v y hd
              rwa [(canon_id _).2 v] at this
        | «enum» k =>
          simp only [hid, Bool.and_eq_true] at hty henv hst ⊢
          cases hk : c.s.enums[k]? with
          | none => simp [hk] at hty
          | some en =>
            simp only [hk] at henv hst
            simp only [fieldOfSelV, hsf, leafNameV, hid, hk, Option.some.injEq, Option.map_some] at hf
            subst hf
            obtain ⟨hp, hID, n', d, sp, vs, ser, de, hfind, hwft⟩ := henv
            have := field_roundtrip_plain (dePath e b (fd' + 3)) (serPath e (fs' + 1)) _ en.name (gtyOf sf.ty.quals) id
              (by simp [fieldOf, hID]) rfl hwf
              (leaf_enum_rt e b (fd' + 2) fs' en.name n' d sp vs ser de hp hfind hwft) v y hd
            rwa [(canon_id _).2 v] at this
        | object i =>
          simp only [hid, Bool.and_eq_true] at hty henv hst ⊢
          simp only [fieldOfSelV, hsf, leafNameV, hid, Option.some.injEq] at hf
          subst hf
          obtain ⟨hs, hesub⟩ := henv
          rw [deField_plain _ _ _ _ hs.2.1] at hd
          rw [canonLambdaV]
          simp only [hid, TypeId.isAbstract, Bool.false_eq_true, ↓reduceIte, List.append_nil] at hro
          refine (leaf_roundtrip_on (dePath e b (fd' + 3)) (serPath e (fs' + 1)) _
            (conformsAt c.s (.object i) sub) (canonSelV c.s c.o.skipNone sub) ?_ _ hwf).2 v y hst hd
          intro j w hc hdw
          simp only [conformsAt, List.any_eq_true, List.mem_range, Bool.and_eq_true] at hc
          obtain ⟨rt, _, _, hcv⟩ := hc
          cases j with
          | obj kvs =>
            simp only [conformsV, Bool.and_eq_true] at hcv
            refine rtStructV e c _ _ sub (fun x hx => (IH _ x hx).1) false hty.1.2 hesub hro.2 hro.1 hty.2 hs b _ _
              (by omega) (by omega) kvs ⟨nodup_iff'.mp hcv.1.1, ?_⟩ w hdw
            intro a' fid' sub' hm sf' hsf' v' hl
            have := confSelsV_mem hcv.2 _ hm
            rw [confSelV_field] at this
            simpa [hsf', hl] using this
          | null => simp [conformsV] at hcv
          | bool _ => simp [conformsV] at hcv
          | int _ => simp [conformsV] at hcv
          | num _ => simp [conformsV] at hcv
          | str _ => simp [conformsV] at hcv
          | arr _ => simp [conformsV] at hcv
        | interface k =>
          simp only [hid, Bool.and_eq_true] at hty henv hst ⊢
          simp only [fieldOfSelV, hsf, leafNameV, hid, Option.some.injEq] at hf
          subst hf
          obtain ⟨hs, hesub⟩ := henv
          have hID : pfx ++ c.cs.camel (a.getD sf.name) ≠ "ID" := by
            unfold AbsEnv at hs; split at hs
            · exact hs.2.1
            · exact hs.1.2.1
          rw [deField_plain _ _ _ _ hID] at hd
          rw [canonLambdaAbs]
          simp only [hid, TypeId.isAbstract, ↓reduceIte] at hro
          refine (leaf_roundtrip_on (dePath e b (fd' + 3)) (serPath e (fs' + 1)) _
            (conformsAt c.s (.interface k) sub) (canonAbsV c.s c.o.skipNone sub) ?_ _ hwf).2 v y hst hd
          intro j w hc hdw
          exact rtAbsV e c _ _ (.interface k) sub (fun x hx => (IH _ x hx).1) (fun x hx => (IH _ x hx).2) hty.1.1
            hty.1.2 hty.2 hesub hro.2 hro.1 hs b _ _ (by omega) (by omega) j w hc hdw
        | union k =>
          simp only [hid, Bool.and_eq_true] at hty henv hst ⊢
          simp only [fieldOfSelV, hsf, leafNameV, hid, Option.some.injEq] at hf
          subst hf
          obtain ⟨hs, hesub⟩ := henv
          have hID : pfx ++ c.cs.camel (a.getD sf.name) ≠ "ID" := by
            unfold AbsEnv at hs; split at hs
            · exact hs.2.1
            · exact hs.1.2.1
          rw [deField_plain _ _ _ _ hID] at hd
          rw [canonLambdaAbs]
          simp only [hid, TypeId.isAbstract, ↓reduceIte] at hro
          refine (leaf_roundtrip_on (dePath e b (fd' + 3)) (serPath e (fs' + 1)) _
            (conformsAt c.s (.union k) sub) (canonAbsV c.s c.o.skipNone sub) ?_ _ hwf).2 v y hst hd
          intro j w hc hdw
          exact rtAbsV e c _ _ (.union k) sub (fun x hx => (IH _ x hx).1) (fun x hx => (IH _ x hx).2) hty.1.1
            hty.1.2 hty.2 hesub hro.2 hro.1 hs b _ _ (by omega) (by omega) j w hc hdw
        | input k => simp [hid] at hty
    | .spread g, pfx => ⟨(by intro abs ht; simp [vSel] at ht), trivial⟩
    | .inline t isub, pfx => by
      refine ⟨(by intro _ _ _ _ f hf; cases hf), ?_⟩
      intro ht henv hro fd fs hfd hfs kvs hok v hd
      have IH := rtSelsV isub
      simp only [vSel, Bool.and_eq_true] at ht
      rw [envSelV] at henv
      rw [rustOkSelV, Bool.and_eq_true] at hro
      exact rtStructV e c _ _ isub (fun x hx => (IH _ x hx).1) false ht.1.2 henv.2 hro.2 hro.1 ht.2 henv.1 true fd fs
        hfd hfs kvs hok v hd
    | .typename, pfx => ⟨(by intro _ _ _ _ f hf; cases hf), trivial⟩
  theorem rtSelsV : ∀ (sels : List Sel) (pfx : String), ∀ x ∈ sels, RTSelV e c pfx x ∧ RTInlV e c pfx x
    | [], _, x, hx => by simp at hx
    | y :: ys, pfx, x, hx => by
      rcases List.mem_cons.mp hx with h | hx'
      · rw [h]; exact rtSelV y pfx
      · exact rtSelsV ys pfx x hx'
end

/-- **round trip of the struct emitted for an object-level selection set** of the class `VariantOp` -/
theorem structV_lossless (pfx name : String) (sels : List Sel)
    (ht : vSels c.s c.o false sels = true) (henv : envSelsV e c pfx sels)
    (hro : rustOkSelsV c sels = true) (hrn : EnumSpec.nodup (rustNames c sels) = true)
    (hkeys : EnumSpec.nodup (respKeys c.s sels) = true)
    (hs : StructEnv e name (fieldsOfV c pfx sels)) (b : Bool) (fd fs : Nat)
    (hfd : 2 * selsDepth sels + 2 ≤ fd) (hfs : 2 * selsDepth sels + 1 ≤ fs) (rt : Nat) (j : Json) (v : Val)
    (hc : conformsV c.s rt sels j = true) (hd : dePath e b fd name j = .ok v) :
    serPath e fs name v = .ok (canonSelV c.s c.o.skipNone sels j) := by
  cases j with
  | obj kvs =>
    simp only [conformsV, Bool.and_eq_true] at hc
    refine rtStructV e c pfx name sels (fun x hx => (rtSelsV e c sels pfx x hx).1) false ht henv hro hrn hkeys hs b fd fs
      hfd hfs kvs ⟨nodup_iff'.mp hc.1.1, ?_⟩ v hd
    intro a' fid' sub' hm sf' hsf' v' hl
    have := confSelsV_mem hc.2 _ hm
    rw [confSelV_field] at this
    simpa [hsf', hl] using this
  | null => simp [conformsV] at hc
  | bool _ => simp [conformsV] at hc
  | int _ => simp [conformsV] at hc
  | num _ => simp [conformsV] at hc
  | str _ => simp [conformsV] at hc
  | arr _ => simp [conformsV] at hc

end RTV2

end E2E
end C01
end GqlVerif
