import GqlVerif.Proofs.C07PermCodegenE
import GqlVerif.Proofs.C07PermCodegenSerde
/-!
# C07 / P31 — type-order permutations: the generated code, and its wire behaviour (summary)

Parts: `C07PermCodegenA` (`Ren`, `TypeIso`, `resolve_tiso`), `…B` (`ItemsPerm`, `ResF`, used types, emitted
scalars / enums / inputs / variables), `…C` (the `calc*` block: `calc_rel`), `…D` (`codegen_tiso`), `…E`
(`typeIso_mapTypes`, `closed_toSchema`, **`codegen_iso_perm : C07.CodegenIsoPermStatement`**), `…Serde`
(**`itemsPerm_de_eq`**, `itemsPerm_ser_eq`, `moduleEqv_serde`, the counterexample `de_every_json_false`).

`codegen_iso_perm_wire` puts the two halves together: the modules generated from two abstract schemas that list the
definitions of each kind in different orders are pairwise `ModuleEqv`, and — for every choice of the externally
defined types, provided the module passes the decidable check `EnvOK` (distinct item names, distinguishable variants) —
they serialize every value identically and deserialize identically every JSON document that carries no integer
under a `__typename`-like tag key.
-/
namespace GqlVerif
namespace C07P
open Codegen C07

theorem allRel_imp {α β : Type} {Rel S : α → β → Prop} (hi : ∀ a b, Rel a b → S a b) {l : List α} {l' : List β}
    (h : AllRel Rel l l') : AllRel S l l' := by
  induction h with
  | nil => exact .nil
  | cons hx _ ih => exact .cons (hi _ _ hx) ih

/-- what `ModuleEqv` means on the wire -/
def SameWire (m m' : Module) : Prop :=
  ∀ externs : List (String × RTy), EnvOK { items := m.items, externs := externs } = true →
    (∀ t v, Serde.ser { items := m'.items, externs := externs } t v =
      Serde.ser { items := m.items, externs := externs } t v) ∧
    (∀ t j, good (tagsOf { items := m.items, externs := externs }) j = true →
      Serde.de { items := m'.items, externs := externs } t j =
        Serde.de { items := m.items, externs := externs } t j)

/-- **C07 for type-order permutations, code and wire** -/
theorem codegen_iso_perm_wire (a a' : AS) (hw : WfAS a) (hp : PermOf a a') (cs : CaseFns) (o : Options)
    (queryText : String) (doc : QDoc) (ms : List Module)
    (hms : Codegen.generate a.toSchema cs o queryText doc = .ok ms) :
    ∃ ms', Codegen.generate a'.toSchema cs o queryText doc = .ok ms' ∧
      AllRel (fun m m' => ModuleEqv m m' ∧ SameWire m m') ms ms' := by
  obtain ⟨ms', h1, h2⟩ := codegen_iso_perm a a' hw hp cs o queryText doc ms hms
  exact ⟨ms', h1, allRel_imp (fun m m' h => ⟨h, fun externs hok => moduleEqv_serde h externs hok⟩) h2⟩

end C07P
end GqlVerif
