import GqlVerif.Proofs.C01VariantSpread
/-!
# C01 end to end: fragment spreads at abstract positions (`VariantSpreadOp`), part D: losslessness for the whole class

Part C proves losslessness for operations without spreads of fragments on the abstract type itself (`noBSels`).  This part
and part E drop that restriction.

* canonical form `canonSelD` / `canonAbsD`: as `canonSelS` / `canonAbsS`; at an abstract position the entries are, **in
  selection order**, the interface-level fields' entries and — at the position of every spread of a fragment on the abstract
  type itself — the entries that fragment's own type(s) write (`canonAbsV` of its body on the entries the own fields left:
  its fields, `__typename`, the entries of its inline fragment on the runtime type), then `__typename` and the entries of
  the selections on the runtime type (`canonVarD`).  With such spreads `__typename` (and possibly keys of the runtime type)
  occur several times in what the serializer writes; `serde_json::to_value` keeps one (`normJson`, part E).
* serde: `deStruct_borrow_finds` — what a struct all of whose flattened members borrow read, found again by Rust field name;
* `rtAbsV_w` — `rtAbsV` of `C01AbstractC` from what its proof uses (the object may carry other keys than the selected ones);
* copies of the round-trip lemmas of part C for the new canonical form, without `noBSels`: `rtStructD`, `rtVarStructD`,
  `rtVariantD`, `rtTaggedD`.

Side condition (decidable): `rustOkSelsD` — as `rustOkSelsS`, and: the Rust names of the members for fragments on the abstract
type itself (`keyword_replace(snake(F))`) are distinct from the own fields' and from `on`; inside such a fragment the Rust field
names and `on` are pairwise distinct.
-/
set_option linter.unusedSimpArgs false
set_option linter.unusedVariables false
set_option linter.unusedSectionVars false

namespace GqlVerif
namespace C01
namespace E2E
open Serde Spec C13 C03 Codegen

/-! ## the canonical form -/

def absEntries : Json → List (String × Json)
  | .obj l => l
  | _ => []

/-- the type is the object type named `n` -/
def onNamed (s : Schema) (t : TypeId) (n : String) : Bool :=
  match t with
  | .object _ => objName s t == n
  | _ => false

mutual
  def canonFieldD (s : Schema) (q : Query) (skip : Bool) : Sel → Json → Json
    | .field _ fid sub, v =>
      match s.fields[fid]? with
      | none => v
      | some sf =>
        match sf.ty.id with
        | .scalar k => (match s.scalars[k]? with
          | some n => if n = "ID" then canon idCanon (gtyOf sf.ty.quals) v else v
          | none => v)
        | .enum _ => v
        | .input _ => v
        | .object _ => canon (fun j => match j with
            | .obj kvs => .obj (canonEntriesD s q skip sub kvs)
            | j => j) (gtyOf sf.ty.quals) v
        | ty =>
          match loneG sub with
          | some g =>
            -- a lone spread of a fragment on the abstract type itself: what the fragment's own type(s) write
            (match q.fragments[g]? with
             | some f => canon (canonAbsV s skip f.sels) (gtyOf sf.ty.quals) v
             | none => v)
          | none =>
          canon (fun j => match j with
            | .obj kvs => .obj (canonEntriesBD s q skip ty (absRest s q ty sub kvs) sub kvs ++
                (("__typename", Json.str (tagName kvs)) :: canonVarD s q skip (tagName kvs) sub kvs))
            | j => j) (gtyOf sf.ty.quals) v
    | _, v => v
  def canonEntriesD (s : Schema) (q : Query) (skip : Bool) : List Sel → List (String × Json) → List (String × Json)
    | [], _ => []
    | .field a fid sub :: xs, kvs =>
      (match s.fields[fid]? with
       | none => []
       | some sf =>
         match Json.lookup (a.getD sf.name) kvs with
         | some v =>
           if skip && skipQ sf.ty.quals && v.isNull then []
           else [(a.getD sf.name, canonFieldD s q skip (.field a fid sub) v)]
         | none => if skip && skipQ sf.ty.quals then [] else [(a.getD sf.name, Json.null)]) ++
        canonEntriesD s q skip xs kvs
    | _ :: xs, kvs => canonEntriesD s q skip xs kvs
  /-- the interface-level entries at a position of type `ty`: own fields and, at the position of each spread of a fragment
      on `ty` itself, what that fragment's type(s) write of `rest` (the entries the own fields left) -/
  def canonEntriesBD (s : Schema) (q : Query) (skip : Bool) (ty : TypeId) (rest : List (String × Json)) :
      List Sel → List (String × Json) → List (String × Json)
    | [], _ => []
    | .field a fid sub :: xs, kvs =>
      (match s.fields[fid]? with
       | none => []
       | some sf =>
         match Json.lookup (a.getD sf.name) kvs with
         | some v =>
           if skip && skipQ sf.ty.quals && v.isNull then []
           else [(a.getD sf.name, canonFieldD s q skip (.field a fid sub) v)]
         | none => if skip && skipQ sf.ty.quals then [] else [(a.getD sf.name, Json.null)]) ++
        canonEntriesBD s q skip ty rest xs kvs
    | .spread g :: xs, kvs =>
      (match q.fragments[g]? with
       | some f => if f.on == ty then absEntries (canonAbsV s skip f.sels (.obj rest)) else []
       | none => []) ++ canonEntriesBD s q skip ty rest xs kvs
    | _ :: xs, kvs => canonEntriesBD s q skip ty rest xs kvs
  /-- the entries of the selections on the object type named `n` -/
  def canonVarD (s : Schema) (q : Query) (skip : Bool) (n : String) : List Sel → List (String × Json) → List (String × Json)
    | [], _ => []
    | .inline t isub :: xs, kvs =>
      (if objName s t == n then canonEntriesD s q skip isub kvs else []) ++ canonVarD s q skip n xs kvs
    | .spread g :: xs, kvs =>
      (match q.fragments[g]? with
       | some f => if onNamed s f.on n then canonEntriesV s skip f.sels kvs else []
       | none => []) ++ canonVarD s q skip n xs kvs
    | _ :: xs, kvs => canonVarD s q skip n xs kvs
end

/-- **`canonSelD`**: what the serializer writes for a conforming response `j` (before `serde_json::to_value` merges
    repeated keys) -/
def canonSelD (s : Schema) (q : Query) (skip : Bool) (sels : List Sel) : Json → Json
  | .obj kvs => .obj (canonEntriesD s q skip sels kvs)
  | j => j

/-- … and at an abstract position of type `ty` -/
def canonAbsD (s : Schema) (q : Query) (skip : Bool) (ty : TypeId) (sub : List Sel) : Json → Json
  | .obj kvs => .obj (canonEntriesBD s q skip ty (absRest s q ty sub kvs) sub kvs ++
      (("__typename", Json.str (tagName kvs)) :: canonVarD s q skip (tagName kvs) sub kvs))
  | j => j

theorem canonLambdaD (s : Schema) (q : Query) (skip : Bool) (sub : List Sel) :
    (fun j => match j with
      | Json.obj kvs => Json.obj (canonEntriesD s q skip sub kvs)
      | j => j) = canonSelD s q skip sub := by
  funext j; cases j <;> rfl

theorem canonLambdaAbsD (s : Schema) (q : Query) (skip : Bool) (ty : TypeId) (sub : List Sel) :
    (fun j => match j with
      | Json.obj kvs => Json.obj (canonEntriesBD s q skip ty (absRest s q ty sub kvs) sub kvs ++
          (("__typename", Json.str (tagName kvs)) :: canonVarD s q skip (tagName kvs) sub kvs))
      | j => j) = canonAbsD s q skip ty sub := by
  funext j; cases j <;> rfl


/-- the same, by type instead of by type name -/
def canonVarTD (s : Schema) (q : Query) (skip : Bool) (vt : TypeId) : List Sel → List (String × Json) → List (String × Json)
  | [], _ => []
  | .inline t isub :: xs, kvs =>
    (if t == vt then canonEntriesD s q skip isub kvs else []) ++ canonVarTD s q skip vt xs kvs
  | .spread g :: xs, kvs =>
    (match q.fragments[g]? with
     | some f => if f.on == vt then canonEntriesV s skip f.sels kvs else []
     | none => []) ++ canonVarTD s q skip vt xs kvs
  | _ :: xs, kvs => canonVarTD s q skip vt xs kvs


/-- with pairwise distinct type names, selecting by name is selecting by type -/
theorem canonVarD_eq (s : Schema) (q : Query) (skip : Bool) (vt : TypeId) (kvs : List (String × Json))
    (names : List TypeId) (hnames : (names.map (objName s)).Nodup) (hvt : vt ∈ names) (hvo : ∃ i, vt = .object i) :
    ∀ (sub : List Sel), (∀ t isub, Sel.inline t isub ∈ sub → t ∈ names) →
    (∀ g f i, Sel.spread g ∈ sub → q.fragments[g]? = some f → f.on = .object i → f.on ∈ names) →
    canonVarD s q skip (objName s vt) sub kvs = canonVarTD s q skip vt sub kvs
  | [], _, _ => rfl
  | x :: xs, hin, hsp => by
    have ih := canonVarD_eq s q skip vt kvs names hnames hvt hvo xs
      (fun t isub hm => hin t isub (List.mem_cons_of_mem _ hm))
      (fun g f i hm => hsp g f i (List.mem_cons_of_mem _ hm))
    cases x with
    | inline t isub =>
      have ht : t ∈ names := hin t isub (by simp)
      rw [canonVarD, canonVarTD, ih, objName_eq_iff s names hnames ht hvt]
    | spread g =>
      rw [canonVarD, canonVarTD, ih]
      cases hf : q.fragments[g]? with
      | none => rfl
      | some f =>
        simp only []
        cases hon : f.on with
        | object i =>
          have ht : f.on ∈ names := hsp g f i (by simp) hf hon
          rw [hon] at ht
          simp only [onNamed, objName_eq_iff s names hnames ht hvt]
        | _ =>
          obtain ⟨i, rfl⟩ := hvo
          simp [onNamed]
    | field a fid sub => simpa [canonVarD, canonVarTD] using ih
    | typename => simpa [canonVarD, canonVarTD] using ih


theorem canonVarTD_mineOf (s : Schema) (q : Query) (skip : Bool) (vt : TypeId) (kvs : List (String × Json)) :
    ∀ (sub : List Sel), canonVarTD s q skip vt (mineOf q vt sub) kvs = canonVarTD s q skip vt sub kvs
  | [] => rfl
  | x :: xs => by
    have ih := canonVarTD_mineOf s q skip vt kvs xs
    unfold mineOf at ih ⊢
    rw [List.filter_cons]
    cases x with
    | inline t isub =>
      by_cases htv : t = vt
      · subst htv; simp [onVt, selOn, canonVarTD, ih]
      · have hne : (t == vt) = false := by simpa using htv
        simp [onVt, selOn, canonVarTD, ih, htv, hne]
    | spread g =>
      cases hf : q.fragments[g]? with
      | none => simp [onVt, selOn, canonVarTD, ih, hf]
      | some f =>
        by_cases htv : f.on = vt
        · simp [onVt, selOn, canonVarTD, ih, hf, htv]
        · have hne : (f.on == vt) = false := by simpa using htv
          simp [onVt, selOn, canonVarTD, ih, hf, htv, hne]
    | field a fid sub => simp [onVt, selOn, canonVarTD, ih]
    | typename => simp [onVt, selOn, canonVarTD, ih]


theorem canonEntriesD_filter (s : Schema) (q : Query) (skip : Bool) (p : String × Json → Bool)
    (kvs : List (String × Json)) : ∀ (sels : List Sel), (∀ k ∈ fieldKeys s sels, ∀ v, p (k, v) = true) →
      canonEntriesD s q skip sels (kvs.filter p) = canonEntriesD s q skip sels kvs
  | [], _ => by simp [canonEntriesD]
  | x :: xs, h => by
    cases x with
    | field a fid sub =>
      rw [canonEntriesD.eq_2, canonEntriesD.eq_2]
      cases hsf : s.fields[fid]? with
      | none =>
        have ih := canonEntriesD_filter s q skip p kvs xs (fun k hk' => h k (by
          simpa [fieldKeys, List.filterMap_cons, fieldKey, hsf] using hk'))
        simp only [ih]
      | some sf =>
        have hk : ∀ v, p (a.getD sf.name, v) = true := h _ (by simp [fieldKeys, fieldKey, hsf, List.filterMap_cons])
        have ih := canonEntriesD_filter s q skip p kvs xs (fun k hk' => h k (by
          simp only [fieldKeys, List.filterMap_cons, fieldKey, hsf, Option.map_some] at hk' ⊢
          exact List.mem_cons_of_mem _ hk'))
        simp only [lookup_filter p _ hk, ih]
    | spread g =>
      have ih := canonEntriesD_filter s q skip p kvs xs (fun k hk' => h k (by simpa [fieldKeys, List.filterMap_cons, fieldKey] using hk'))
      simpa [canonEntriesD] using ih
    | inline t sub =>
      have ih := canonEntriesD_filter s q skip p kvs xs (fun k hk' => h k (by simpa [fieldKeys, List.filterMap_cons, fieldKey] using hk'))
      simpa [canonEntriesD] using ih
    | typename =>
      have ih := canonEntriesD_filter s q skip p kvs xs (fun k hk' => h k (by simpa [fieldKeys, List.filterMap_cons, fieldKey] using hk'))
      simpa [canonEntriesD] using ih


/-- the entries of the variant only depend on the entries under its field keys -/
theorem canonVarTD_filter (s : Schema) (q : Query) (skip : Bool) (vt : TypeId) (p : String × Json → Bool)
    (kvs : List (String × Json)) : ∀ (sub : List Sel), (∀ k ∈ varKeys s q vt sub, ∀ v, p (k, v) = true) →
      canonVarTD s q skip vt sub (kvs.filter p) = canonVarTD s q skip vt sub kvs
  | [], _ => rfl
  | x :: xs, h => by
    cases x with
    | inline t isub =>
      rw [varKeys] at h
      have ih := canonVarTD_filter s q skip vt p kvs xs (fun k hk => h k (List.mem_append_right _ hk))
      rw [canonVarTD, canonVarTD, ih]
      by_cases htv : t = vt
      · subst htv
        simp only [beq_self_eq_true, ↓reduceIte] at h ⊢
        rw [canonEntriesD_filter s q skip p kvs isub (fun k hk => h k (List.mem_append_left _ hk))]
      · have hne : (t == vt) = false := by simpa using htv
        simp [hne]
    | spread g =>
      rw [varKeys] at h
      have ih := canonVarTD_filter s q skip vt p kvs xs (fun k hk => h k (List.mem_append_right _ hk))
      rw [canonVarTD, canonVarTD, ih]
      cases hf : q.fragments[g]? with
      | none => rfl
      | some f =>
        simp only [hf] at h ⊢
        by_cases htv : f.on = vt
        · simp only [htv, beq_self_eq_true, ↓reduceIte] at h ⊢
          rw [canonEntriesV_filter s skip p kvs f.sels (fun k hk => h k (List.mem_append_left _ hk))]
        · have hne : (f.on == vt) = false := by simpa using htv
          simp [hne]
    | field a fid sub =>
      have e1 : varKeys s q vt (Sel.field a fid sub :: xs) = varKeys s q vt xs := by simp [varKeys]
      rw [e1] at h
      have ih := canonVarTD_filter s q skip vt p kvs xs h
      simpa [canonVarTD] using ih
    | typename =>
      have e1 : varKeys s q vt (Sel.typename :: xs) = varKeys s q vt xs := by simp [varKeys]
      rw [e1] at h
      have ih := canonVarTD_filter s q skip vt p kvs xs h
      simpa [canonVarTD] using ih


/-- the canonical form of the value of the field whose wire name is `f.wire` -/
def fcanonOfD (s : Schema) (q : Query) (skip : Bool) (sels : List Sel) (f : RField) (v : Json) : Json :=
  match sels.find? (fun x => respKey s x == some f.wire) with
  | some x => canonFieldD s q skip x v
  | none => v

theorem expectOut_canonD (c : Ctx) (pfx : String) (abs : Bool) (fc : RField → Json → Json) (kvs : List (String × Json)) :
    ∀ (sels : List Sel), sSels c.s c.q c.o abs sels = true →
      (∀ a fid sub, Sel.field a fid sub ∈ sels → ∀ f, fieldOfSelV c pfx (.field a fid sub) = some f →
        ∀ v, fc f v = canonFieldD c.s c.q c.o.skipNone (.field a fid sub) v) →
      expectOut fc (fieldsOfV c pfx sels) kvs = canonEntriesD c.s c.q c.o.skipNone sels kvs
  | [], _, _ => by simp [fieldsOfV, expectOut, canonEntriesD]
  | x :: xs, ht, hfc => by
    obtain ⟨hx, hxs⟩ := sSels_cons ht
    have ih := expectOut_canonD c pfx abs fc kvs xs hxs (fun a fid sub hm => hfc a fid sub (List.mem_cons_of_mem _ hm))
    cases x with
    | field a fid sub =>
      obtain ⟨sf, ft, hsf, _, hf, _⟩ := fieldOfSelV_s c pfx abs a fid sub hx
      rw [fieldsOfV_cons_field c pfx _ xs _ hf, expectOut_cons, ih, canonEntriesD.eq_2]
      simp only [hsf, fieldOf_wire, fieldOf_skipNone, hfc a fid sub (by simp) _ hf, Bool.and_assoc]
      cases Json.lookup (a.getD sf.name) kvs <;> rfl
    | spread g => rw [fieldsOfV_cons_none c pfx _ xs rfl, ih]; simp [canonEntriesD]
    | inline t sub => rw [fieldsOfV_cons_none c pfx _ xs rfl, ih]; simp [canonEntriesD]
    | typename => rw [fieldsOfV_cons_none c pfx _ xs rfl, ih]; simp [canonEntriesD]


/-! ## Rust field names -/

def fieldTy (c : Ctx) (fid : Nat) : TypeId :=
  match c.s.fields[fid]? with
  | some sf => sf.ty.id
  | none => .scalar 0

/-- Rust field names at a position of type `ty`: own fields and the members for fragments on `ty` itself -/
def rustNameB (c : Ctx) (ty : TypeId) : Sel → Option String
  | .spread g => (match c.q.fragments[g]? with
    | some f => if f.on == ty then some (keywordReplace (c.cs.snake f.name)) else none
    | none => none)
  | x => rustName c x

def rustNamesB (c : Ctx) (ty : TypeId) (sels : List Sel) : List String := sels.filterMap (rustNameB c ty)

/-- the body of a fragment on an abstract type: Rust field names and `on` pairwise distinct, at every level -/
def rustOkFragB (c : Ctx) (g : Nat) : Bool :=
  EnumSpec.nodup (rustNames c (fragSels c.q g) ++ ["on"]) && rustOkSelsV c (fragSels c.q g)

mutual
  /-- as `rustOkSelS`; at an abstract position the members for fragments on the abstract type itself count among the
      fields; a fragment on an abstract type: `rustOkFragB` -/
  def rustOkSelD (c : Ctx) : Sel → Bool
    | .field _ fid sub =>
      EnumSpec.nodup (rustNamesB c (fieldTy c fid) sub ++ (if isAbsField c fid then ["on"] else [])) &&
      rustOkSelsD c sub && (vtsOfField c fid).all (fun vt => EnumSpec.nodup (varRust c vt sub))
    | .inline _ isub => rustOkSelsD c isub
    | .spread g => (match c.q.fragments[g]? with
      | some f => if f.on.isAbstract then rustOkFragB c g else rustOkFrag c g
      | none => true)
    | .typename => true
  def rustOkSelsD (c : Ctx) : List Sel → Bool
    | [] => true
    | x :: xs => rustOkSelD c x && rustOkSelsD c xs
end

theorem rustOkSelsD_mem {c : Ctx} : ∀ {sels : List Sel}, rustOkSelsD c sels = true →
    ∀ x ∈ sels, rustOkSelD c x = true
  | [], _, _, hx => by simp at hx
  | y :: ys, h, x, hx => by
    rw [rustOkSelsD, Bool.and_eq_true] at h
    rcases List.mem_cons.mp hx with rfl | hx'
    · exact h.1
    · exact rustOkSelsD_mem h.2 x hx'

theorem rustOkSelsD_append {c : Ctx} : ∀ {xs ys : List Sel},
    rustOkSelsD c xs = true → rustOkSelsD c ys = true → rustOkSelsD c (xs ++ ys) = true
  | [], _, _, h => h
  | x :: xs, ys, h1, h2 => by
    rw [rustOkSelsD, Bool.and_eq_true] at h1
    rw [List.cons_append, rustOkSelsD, h1.1, rustOkSelsD_append h1.2 h2]; rfl

def fcanonOfKD (s : Schema) (q : Query) (skip : Bool) (sels : List Sel) (f : RField) (v : Json) : Json :=
  match sels.find? (fun x => fieldKey s x == some f.wire) with
  | some x => canonFieldD s q skip x v
  | none => v

theorem rustOkFrag_of_D {c : Ctx} {g : Nat} {f : RFragment} {i : Nat} (h : rustOkSelD c (.spread g) = true)
    (hf : c.q.fragments[g]? = some f) (hon : f.on = .object i) : rustOkFrag c g = true := by
  simpa [rustOkSelD, hf, hon, TypeId.isAbstract] using h

/-! ## round trips -/

section RTD
variable (e : Env) (c : Ctx)


def RTSelD (pfx : String) (x : Sel) : Prop :=
  ∀ abs, sSel c.s c.q c.o abs x = true → envSelS e c pfx x → rustOkSelD c x = true →
    ∀ f, fieldOfSelV c pfx x = some f →
    ∀ b fd fs, 2 * depthF c.q x + 1 ≤ fd → 2 * depthF c.q x ≤ fs → ∀ v y,
      strictFieldV c.s (expandSel c.q x) v = true → deFieldWith (dePath e b fd) f v = .ok y →
      serTyWith (serPath e fs) f.ty y = .ok (canonFieldD c.s c.q c.o.skipNone x v)


/-- round trip of the struct of an object-level selection set, from the round trips of its fields -/
theorem rtStructD (pfx name : String) (sels : List Sel) (H : ∀ x ∈ sels, RTSelD e c pfx x) (abs : Bool)
    (ht : sSels c.s c.q c.o abs sels = true) (henv : envSelsS e c pfx sels)
    (hro : rustOkSelsD c sels = true)
    (hrn : EnumSpec.nodup (rustNames c sels) = true)
    (hkeys : EnumSpec.nodup (respKeys c.s sels) = true)
    (hs : StructEnv e name (fieldsOfV c pfx sels)) (b : Bool) (fd fs : Nat)
    (hfd : 2 * depthsF c.q sels + 2 ≤ fd) (hfs : 2 * depthsF c.q sels + 1 ≤ fs) (kvs : List (String × Json))
    (hok : FieldsOkS c.s c.q sels kvs) (v : Val) (hd : dePath e b fd name (.obj kvs) = .ok v) :
    serPath e fs name v = .ok (.obj (canonEntriesD c.s c.q c.o.skipNone sels kvs)) := by
  obtain ⟨hp, _, n, d, cr, hfind⟩ := hs
  obtain ⟨hnd, hst⟩ := hok
  obtain ⟨fd', rfl⟩ : ∃ k, fd = k + 1 := ⟨fd - 1, by omega⟩
  obtain ⟨fs', rfl⟩ : ∃ k, fs = k + 1 := ⟨fs - 1, by omega⟩
  have hkn := nodup_iff'.mp hkeys
  have key : ∀ f ∈ fieldsOfV c pfx sels, ∀ j, Json.lookup f.wire kvs = some j →
      ∃ a fid sub, Sel.field a fid sub ∈ sels ∧ fieldOfSelV c pfx (.field a fid sub) = some f ∧
        strictFieldV c.s (expandSel c.q (.field a fid sub)) j = true ∧
        fcanonOfD c.s c.q c.o.skipNone sels f j = canonFieldD c.s c.q c.o.skipNone (.field a fid sub) j := by
    intro f hf j hl
    obtain ⟨a, fid, sub, sf, ft, hx, hsf, hfx, rfl, _⟩ := mem_fieldsOfS hf ht
    rw [fieldOf_wire] at hl
    refine ⟨a, fid, sub, hx, hfx, hst a fid sub hx sf hsf j hl, ?_⟩
    unfold fcanonOfD
    rw [fieldOf_wire, find_respKey c.s _ sels hkn _ hx (by simp [respKey, hsf])]
  have hrt := struct_roundtrip_path e b fd' fs' name n d cr (fieldsOfV c pfx sels)
    (fcanonOfD c.s c.q c.o.skipNone sels) kvs hp hfind (plain_fieldsOfV c pfx sels)
    (by rw [rust_fieldsOfS c pfx abs sels ht]; exact nodup_iff'.mp hrn) hnd
    (by
      intro f hf j x hl hdx
      obtain ⟨a, fid, sub, hx, hfx, hst', hfc⟩ := key f hf j hl
      rw [hfc]
      have hdep := depthsF_mem c.q hx
      exact H _ hx abs (sSels_mem ht _ hx) (envSelsS_mem henv _ hx) (rustOkSelsD_mem hro _ hx) f hfx b fd' fs'
        (by omega) (by omega) j x hst' hdx)
    (by
      intro f hf hskip j x _ hdx
      obtain ⟨a, fid, sub, sf, ft, _, _, _, rfl, _⟩ := mem_fieldsOfS hf ht
      refine field_unit_iff _ _ (.inr ?_) j x hdx
      rw [fieldOf_skipNone, Bool.and_eq_true] at hskip
      exact (isOption_rustOf ft sf.ty.quals).trans (skipQ_nullable hskip.2))
    (by
      intro f hf hdef
      obtain ⟨a, fid, sub, sf, ft, _, _, _, rfl, _⟩ := mem_fieldsOfS hf ht
      have : (decide (ft = "ID") && nullableQ sf.ty.quals) = true := hdef
      rw [Bool.and_eq_true] at this
      exact (isOption_rustOf ft sf.ty.quals).trans this.2)
    v hd
  rw [hrt]
  congr 2
  apply expectOut_canonD c pfx abs _ kvs sels ht
  intro a fid sub hx f hfx v
  obtain ⟨sf, ft, hsf, _, hf', _⟩ := fieldOfSelV_s c pfx abs a fid sub (sSels_mem ht _ hx)
  rw [hf'] at hfx
  cases hfx
  unfold fcanonOfD
  rw [fieldOf_wire, find_respKey c.s _ sels hkn _ hx (by simp [respKey, hsf])]


end RTD


/-- the entries the variant struct writes are `canonVarTD` -/
theorem flatMap_entriesF_varD (c : Ctx) (pfx : String) (vt : TypeId) (fc : RField → Json → Json)
    (mc : RField → List (String × Json)) (kvs : List (String × Json)) : ∀ (sub : List Sel),
    sSels c.s c.q c.o true sub = true →
    (∀ t isub, Sel.inline t isub ∈ sub → t = vt → ∀ a fid sub', Sel.field a fid sub' ∈ isub → ∀ f,
      fieldOfSelV c (pfx ++ "On" ++ c.cs.camel (objName c.s vt)) (.field a fid sub') = some f →
      ∀ v, fc f v = canonFieldD c.s c.q c.o.skipNone (.field a fid sub') v) →
    (∀ g fr, Sel.spread g ∈ sub → c.q.fragments[g]? = some fr → fr.on = vt →
      mc (memberField c fr) = canonEntriesV c.s c.o.skipNone fr.sels kvs) →
    (varFields c pfx vt sub).flatMap (entriesF fc mc kvs) = canonVarTD c.s c.q c.o.skipNone vt sub kvs
  | [], _, _, _ => rfl
  | x :: xs, ht, hfc, hmc => by
    obtain ⟨hx, hxs⟩ := sSels_cons ht
    have ih := flatMap_entriesF_varD c pfx vt fc mc kvs xs hxs
      (fun t isub hm => hfc t isub (List.mem_cons_of_mem _ hm))
      (fun g fr hm => hmc g fr (List.mem_cons_of_mem _ hm))
    cases x with
    | inline t isub =>
      rw [varFields, canonVarTD, List.flatMap_append, ih]
      by_cases htv : t = vt
      · subst htv
        simp only [sSel, Bool.and_eq_true] at hx
        simp only [beq_self_eq_true, ↓reduceIte]
        rw [flatMap_entriesF_plain fc mc kvs _ (plain_fieldsOfV c _ isub),
          expectOut_canonD c _ false fc kvs isub hx.1.2 (fun a fid sub' hm f hf v => hfc t isub (by simp) rfl a fid sub' hm f hf v)]
      · have hne : (t == vt) = false := by simpa using htv
        simp [hne]
    | spread g =>
      rw [varFields, canonVarTD, List.flatMap_append, ih]
      cases hf : c.q.fragments[g]? with
      | none => rfl
      | some fr =>
        simp only []
        by_cases htv : fr.on = vt
        · simp only [htv, beq_self_eq_true, ↓reduceIte, List.flatMap_cons, List.flatMap_nil, List.append_nil]
          simp only [entriesF, memberField, ↓reduceIte]
          have := hmc g fr (by simp) hf htv
          simp only [memberField] at this
          rw [this]
        · have hne : (fr.on == vt) = false := by simpa using htv
          simp [hne]
    | field a fid sub => simpa [varFields, canonVarTD] using ih
    | typename => simpa [varFields, canonVarTD] using ih


section RTD2
variable (e : Env) (c : Ctx)


/-- **round trip of the variant struct** (own fields of the inline fragment and flattened fragment members) -/
theorem rtVarStructD (pfx : String) (ty : TypeId) (rt : Nat) (sub : List Sel)
    (HI : ∀ x ∈ ownSels (.object rt) sub, RTSelD e c (pfx ++ "On" ++ c.cs.camel (objName c.s (.object rt))) x)
    (hty : absHyp c.s ty) (ht : sSels c.s c.q c.o true sub = true) (hok : absOkS c.s c.q c.o ty sub = true)
    (henv : envSelsS e c pfx sub) (hro : rustOkSelsD c sub = true)
    (hvt : TypeId.object rt ∈ vtsOfTy c.s ty)
    (hrn : (varRust c (.object rt) sub).Nodup)
    (hs : StructEnv e (pfx ++ "On" ++ objName c.s (.object rt)) (varFields c pfx (.object rt) sub))
    (fd fs : Nat) (hfd : 2 * depthsF c.q sub + 1 ≤ fd) (hfs : 2 * depthsF c.q sub ≤ fs) (hpos : 1 ≤ depthsF c.q sub)
    (kvs : List (String × Json)) (hownok : FieldsOkS c.s c.q (ownSels (.object rt) sub) kvs)
    (hmemok : ∀ g fr, Sel.spread g ∈ sub → c.q.fragments[g]? = some fr → fr.on = .object rt →
      StrictAt c.s fr.sels kvs)
    (x : Val) (hd : dePath e true fd (pfx ++ "On" ++ objName c.s (.object rt)) (.obj kvs) = .ok x) :
    serPath e fs (pfx ++ "On" ++ objName c.s (.object rt)) x =
      .ok (.obj (canonVarTD c.s c.q c.o.skipNone (.object rt) sub kvs)) := by
  obtain ⟨hp, _, n, d, cr, hfind⟩ := hs
  obtain ⟨hnd, hst⟩ := hownok
  have hsp := spreadsA_abs hty hok
  obtain ⟨hok1, _, hvk⟩ := absOkS_parts hok
  obtain ⟨fuel, rfl⟩ : ∃ k, fd = k + 2 := ⟨fd - 2, by omega⟩
  obtain ⟨fs', rfl⟩ : ∃ k, fs = k + 2 := ⟨fs - 2, by omega⟩
  have hcnt := countKey_le_one_of_nodup hnd
  have hvne : TypeId.object rt ≠ ty := obj_ne_abs hty rt
  obtain ⟨h1, _, h3, h4⟩ := var_flat_hyps e c pfx ty (.object rt) hvne ⟨rt, rfl⟩ sub ht hsp henv (hvk _ hvt)
  have hrust : ((varFields c pfx (.object rt) sub).map (·.rust)).Nodup := by
    rw [rust_varFields c pfx _ sub ht]; exact hrn
  rw [dePath_struct e true (fuel + 1) _ n d cr _ hp hfind, deStruct_obj] at hd
  obtain ⟨vals, rfl, hownf, hmemf⟩ := deStruct_flat_finds e fuel _ _ kvs hcnt hrust (fun g hg hf => (h1 g hg hf).1) h3 h4 x hd
  -- the own fields: those of the inline fragment on the type
  have hown_eq : (varFields c pfx (.object rt) sub).filter (fun f => !f.flatten) =
      fieldsOfV c (pfx ++ "On" ++ c.cs.camel (objName c.s (.object rt))) (ownSels (.object rt) sub) := by
    rw [varFields_own, varOwn_ownSels]
  have hinl : ∀ isub, Sel.inline (.object rt) isub ∈ sub →
      sSels c.s c.q c.o false isub = true ∧
      envSelsS e c (pfx ++ "On" ++ c.cs.camel (objName c.s (.object rt))) isub ∧
      rustOkSelsD c isub = true ∧
      depthsF c.q isub + 1 ≤ depthsF c.q sub := by
    intro isub hy
    have hvy := sSels_mem ht _ hy
    simp only [sSel, Bool.and_eq_true] at hvy
    have hey := envSelsS_mem henv _ hy
    rw [envSelS] at hey
    have hry := rustOkSelsD_mem hro _ hy
    rw [rustOkSelD] at hry
    have hdep := depthsF_mem c.q hy
    rw [depthF] at hdep
    exact ⟨hvy.1.2, hey, hry, by omega⟩
  have hownS := ownSels_ind (P := fun l => sSels c.s c.q c.o false l = true ∧
      envSelsS e c (pfx ++ "On" ++ c.cs.camel (objName c.s (.object rt))) l ∧
      rustOkSelsD c l = true ∧
      depthsF c.q l + 1 ≤ depthsF c.q sub) (.object rt)
    ⟨rfl, trivial, rfl, by simp only [depthsF]; omega⟩
    (fun xs ys hx hy => ⟨sSels_append hx.1 hy.1, envSelsS_append hx.2.1 hy.2.1, rustOkSelsD_append hx.2.2.1 hy.2.2.1,
      by rw [depthsF_append]; omega⟩) sub hinl
  obtain ⟨hoS, hoE, hoR, hoD⟩ := hownS
  have hkn : (fieldKeys c.s (ownSels (.object rt) sub)).Nodup :=
    (fieldKeys_ownSels_sublist c.s c.q (.object rt) sub).nodup (hvk _ hvt)
  -- the members
  have hmemrt : ∀ gid fr, Sel.spread gid ∈ sub → c.q.fragments[gid]? = some fr → fr.on = .object rt →
      ∃ y, vals.find? (·.1 == (memberField c fr).rust) = some ((memberField c fr).rust, y) ∧
        serTyWith (serPath e (fs' + 1)) (memberField c fr).ty y =
          .ok (.obj (canonEntriesV c.s c.o.skipNone fr.sels kvs)) := by
    intro gid fr hm hfr hon
    obtain ⟨fr', hokg, hfr', _⟩ := hsp.onVt hvne hm (by simp [selOn, hfr, hon])
    rw [hfr] at hfr'; cases hfr'
    have henvg : FragEnv e c gid := fragEnv_of_S (envSelsS_mem henv _ hm) hfr hon
    have hrog : rustOkFrag c gid = true := rustOkFrag_of_D (rustOkSelsD_mem hro _ hm) hfr hon
    have hgmem : memberField c fr ∈ varFields c pfx (.object rt) sub := mem_varFields_of_spread hfr hon hm
    obtain ⟨own, hown, hfindg⟩ := hmemf _ hgmem rfl
    rw [(memberFields_member e c gid fr hfr henvg).1] at hown
    refine ⟨_, hfindg, ?_⟩
    have hdep := depthsF_mem c.q hm
    rw [depthF] at hdep
    have hsels : fragSels c.q gid = fr.sels := by simp [fragSels, hfr]
    rw [hsels] at hdep
    exact rtMemberS e c rt gid fr hfr hokg henvg hrog fuel fs' (by omega) (by omega) kvs hnd
      (hmemok gid fr hm hfr hon) own hown
  let mc : RField → List (String × Json) := fun g =>
    match vals.find? (·.1 == g.rust) with
    | some (_, y) => (match serTyWith (serPath e (fs' + 1)) g.ty y with | .ok (.obj o) => o | _ => [])
    | none => []
  have hmc : ∀ gid fr, Sel.spread gid ∈ sub → c.q.fragments[gid]? = some fr → fr.on = .object rt →
      mc (memberField c fr) = canonEntriesV c.s c.o.skipNone fr.sels kvs := by
    intro gid fr hm hfr hon
    obtain ⟨y, hf, hser⟩ := hmemrt gid fr hm hfr hon
    simp only [mc, hf, hser]
  have hfcanon : ∀ a fid sub', Sel.field a fid sub' ∈ ownSels (.object rt) sub → ∀ f,
      fieldOfSelV c (pfx ++ "On" ++ c.cs.camel (objName c.s (.object rt))) (.field a fid sub') = some f →
      ∀ v, fcanonOfKD c.s c.q c.o.skipNone (ownSels (.object rt) sub) f v =
        canonFieldD c.s c.q c.o.skipNone (.field a fid sub') v := by
    intro a fid sub' hx f hfx v
    obtain ⟨sf, ft, hsf, _, hf', _⟩ := fieldOfSelV_s c _ false a fid sub' (sSels_mem hoS _ hx)
    rw [hf'] at hfx
    cases hfx
    unfold fcanonOfKD
    rw [fieldOf_wire, find_fieldKey c.s _ _ hkn _ hx (by simp [fieldKey, hsf])]
  have hnonfl : ∀ f ∈ varFields c pfx (.object rt) sub, f.flatten = false →
      f ∈ fieldsOfV c (pfx ++ "On" ++ c.cs.camel (objName c.s (.object rt))) (ownSels (.object rt) sub) := by
    intro f hf hfl
    rw [← hown_eq]; exact List.mem_filter.mpr ⟨hf, by simp [hfl]⟩
  rw [serPath_struct e (fs' + 1) _ n d cr _ hfind,
    ser_flat (dePath e true (fuel + 1)) (serPath e (fs' + 1)) (fcanonOfKD c.s c.q c.o.skipNone (ownSels (.object rt) sub))
      mc kvs vals (varFields c pfx (.object rt) sub) hownf ?_ ?_ ?_ ?_]
  · rw [flatMap_entriesF_varD c pfx (.object rt) _ mc kvs sub ht ?_ hmc]
    · rfl
    · intro t isub hm htv a fid sub' hx f hfx v
      subst htv
      exact hfcanon a fid sub' (mem_ownSels_of hm hx) f hfx v
  · intro f hf hfl j y hl hdx
    obtain ⟨a, fid, sub', sf, ft, hx, hsf, hfx, rfl, _⟩ := mem_fieldsOfS (hnonfl f hf hfl) hoS
    rw [fieldOf_wire] at hl
    rw [hfcanon a fid sub' hx _ hfx j]
    have hdep := depthsF_mem c.q hx
    exact HI _ hx false (sSels_mem hoS _ hx) (envSelsS_mem hoE _ hx) (rustOkSelsD_mem hoR _ hx) _ hfx
      true (fuel + 1) (fs' + 1) (by omega) (by omega) j y (hst a fid sub' hx sf hsf j hl) hdx
  · intro f hf hfl hskip j y _ hdx
    obtain ⟨a, fid, sub', sf, ft, _, _, _, rfl, _⟩ := mem_fieldsOfS (hnonfl f hf hfl) hoS
    refine field_unit_iff _ _ (.inr ?_) j y hdx
    rw [fieldOf_skipNone, Bool.and_eq_true] at hskip
    exact (isOption_rustOf ft sf.ty.quals).trans (skipQ_nullable hskip.2)
  · intro f hf hfl hdef
    obtain ⟨a, fid, sub', sf, ft, _, _, _, rfl, _⟩ := mem_fieldsOfS (hnonfl f hf hfl) hoS
    have : (decide (ft = "ID") && nullableQ sf.ty.quals) = true := hdef
    rw [Bool.and_eq_true] at this
    exact (isOption_rustOf ft sf.ty.quals).trans this.2
  · intro g hg hfl
    obtain ⟨gid, fr, hm, hfr, hon, rfl⟩ := mem_varFields_flatten hg hfl
    obtain ⟨y, hf, hser⟩ := hmemrt gid fr hm hfr hon
    exact ⟨y, hf, by rw [hser, hmc gid fr hm hfr hon]⟩


/-- **round trip of the payload of the variant of the runtime type**: the alias of a fragment struct, or the variant
    struct — written back as `canonVarTD` of the entries it read -/
theorem rtVariantD (pfx : String) (ty : TypeId) (rt : Nat) (sub : List Sel)
    (HI : ∀ x ∈ ownSels (.object rt) sub, RTSelD e c (pfx ++ "On" ++ c.cs.camel (objName c.s (.object rt))) x)
    (hty : absHyp c.s ty) (ht : sSels c.s c.q c.o true sub = true) (hok : absOkS c.s c.q c.o ty sub = true)
    (henv : envSelsS e c pfx sub) (hve : VarEnv e c pfx (.object rt) sub) (hro : rustOkSelsD c sub = true)
    (hvt : TypeId.object rt ∈ vtsOfTy c.s ty) (hrn : (varRust c (.object rt) sub).Nodup)
    (fd fs : Nat) (hfd : 2 * depthsF c.q sub + 1 ≤ fd) (hfs : 2 * depthsF c.q sub ≤ fs)
    (kvs : List (String × Json)) (hownok : FieldsOkS c.s c.q (ownSels (.object rt) sub) kvs)
    (hmemok : ∀ g fr, Sel.spread g ∈ sub → c.q.fragments[g]? = some fr → fr.on = .object rt →
      StrictAt c.s fr.sels kvs)
    (hne : mineOf c.q (.object rt) sub ≠ [])
    (x : Val) (hd : dePath e true fd (pfx ++ "On" ++ objName c.s (.object rt)) (.obj kvs) = .ok x) :
    serPath e fs (pfx ++ "On" ++ objName c.s (.object rt)) x =
      .ok (.obj (canonVarTD c.s c.q c.o.skipNone (.object rt) sub kvs)) := by
  have hsp := spreadsA_abs hty hok
  have hmem : ∀ y ∈ mineOf c.q (.object rt) sub, y ∈ sub ∧ selOn c.q y = some (.object rt) := fun y hy => mem_mineOf hy
  have hpos : 1 ≤ depthsF c.q sub := by
    cases hmm : mineOf c.q (.object rt) sub with
    | nil => exact absurd hmm hne
    | cons y ys => exact depthsF_pos_of_mem c.q (hmem y (by rw [hmm]; simp)).1
  unfold VarEnv at hve
  by_cases hs : ∃ g, mineOf c.q (.object rt) sub = [Sel.spread g]
  · -- the alias of the fragment struct
    obtain ⟨g, hg⟩ := hs
    have hgm := hmem (.spread g) (by rw [hg]; simp)
    obtain ⟨fr, hfok, hfr, hon⟩ := hsp.onVt (obj_ne_abs hty rt) hgm.1 hgm.2
    rw [hg] at hve
    simp only at hve
    obtain ⟨hp, _, n, pub, hfinda⟩ := hve
    have hname : fragName c g = fr.name := by simp [fragName, hfr]
    rw [hname] at hfinda
    obtain ⟨fr', hfr', _, _, hv, hkeys⟩ := fragOk_parts hfok
    rw [hfr] at hfr'; cases hfr'
    have hfe : FragEnv e c g := fragEnv_of_S (envSelsS_mem henv _ hgm.1) hfr hon
    unfold FragEnv at hfe
    rw [hfr] at hfe
    have hrog : rustOkFrag c g = true := rustOkFrag_of_D (rustOkSelsD_mem hro _ hgm.1) hfr hon
    have hsels : fragSels c.q g = fr.sels := by simp [fragSels, hfr]
    simp only [rustOkFrag, hsels, Bool.and_eq_true] at hrog
    have hdep := depthsF_mem c.q hgm.1
    rw [depthF, hsels] at hdep
    obtain ⟨fd', rfl⟩ : ∃ k, fd = k + 1 := ⟨fd - 1, by omega⟩
    obtain ⟨fs', rfl⟩ : ∃ k, fs = k + 2 := ⟨fs - 2, by omega⟩
    have hda : dePath e true (fd' + 1) (pfx ++ "On" ++ objName c.s (.object rt)) (.obj kvs) =
        dePath e true fd' fr.name (.obj kvs) := by
      rw [dePath]; simp only [dePrim_none hp, hfinda, deTyWith]
    rw [hda] at hd
    rw [serPath_alias e _ _ n pub hfinda fs' x]
    rw [rtStructV e c _ _ fr.sels (fun y hy => (rtSelsV e c fr.sels _ y hy).1) false hv hfe.2 hrog.2 hrog.1 hkeys hfe.1
      true fd' (fs' + 1) (by omega) (by omega) kvs ⟨hownok.1, hmemok g fr hgm.1 hfr hon⟩ x hd]
    rw [← canonVarTD_mineOf, hg]
    simp [canonVarTD, hfr, hon]
  · -- the variant struct
    have hs' : ∀ g, mineOf c.q (.object rt) sub ≠ [Sel.spread g] := fun g hg => hs ⟨g, hg⟩
    have hstruct : StructEnv e (pfx ++ "On" ++ objName c.s (.object rt)) (varFields c pfx (.object rt) sub) := by
      revert hve
      split
      · rename_i h; exact absurd h hne
      · rename_i g h; exact absurd h (hs' g)
      · exact id
    exact rtVarStructD e c pfx ty rt sub HI hty ht hok henv hro hvt hrn hstruct fd fs hfd hfs hpos kvs hownok hmemok x hd


/-- **round trip of the `__typename`-tagged enum** of an abstract position, read from the entries `kvs.filter q'` of a
    conforming response object (`q'` keeps the tag and every key that is no interface-level response key) -/
theorem rtTaggedD (pfx p : String) (ty : TypeId) (sub : List Sel)
    (HI : ∀ t isub, Sel.inline t isub ∈ sub → ∀ x ∈ isub, RTSelD e c (pfx ++ "On" ++ c.cs.camel (objName c.s t)) x)
    (hty : absHyp c.s ty) (ht : sSels c.s c.q c.o true sub = true) (hok : absOkS c.s c.q c.o ty sub = true)
    (henv : envSelsS e c pfx sub) (hve : ∀ vt ∈ vtsOfTy c.s ty, VarEnv e c pfx vt sub)
    (hro : rustOkSelsD c sub = true) (hrn : ∀ vt ∈ vtsOfTy c.s ty, (varRust c vt sub).Nodup)
    (hs : TaggedEnv e p (variantsV c pfx ty (marks c.q sub)))
    (rt : Nat) (kvs : List (String × Json)) (hnd : (kvs.map (·.1)).Nodup)
    (hconf : confSelsV c.s rt (expandSels c.q sub) kvs = true)
    (htag : Json.lookup "__typename" kvs = some (.str (rtName c.s rt))) (hmem : TypeId.object rt ∈ vtsOfTy c.s ty)
    (q' : String × Json → Bool) (hqt : ∀ v, q' ("__typename", v) = true)
    (hqi : ∀ k, k ∉ respKeys c.s sub → ∀ v, q' (k, v) = true)
    (buffered : Bool) (fd fs : Nat) (hfd : 2 * depthsF c.q sub + 1 ≤ fd) (hfs : 2 * depthsF c.q sub ≤ fs) (r : Val)
    (hd : deTaggedWith (dePath e true fd) buffered "__typename" (variantsV c pfx ty (marks c.q sub)) (kvs.filter q') = .ok r) :
    (∃ payload, r = .variant (rtName c.s rt) payload) ∧
    serPath e (fs + 1) p r = .ok (.obj (("__typename", .str (rtName c.s rt)) ::
      canonVarD c.s c.q c.o.skipNone (rtName c.s rt) sub kvs)) := by
  obtain ⟨hok1, hsp, _⟩ := absOkS_parts hok
  obtain ⟨htn, hrk, hobj, _, hvn, hin, hind, hexcl⟩ := absOk2_parts hok1
  obtain ⟨hp, _, n, d, cr, hfind⟩ := hs
  have hcnt := countKey_le_one_of_nodup hnd
  have hl2 : Json.lookup "__typename" (kvs.filter q') = some (.str (rtName c.s rt)) := by
    rw [lookup_filter q' _ hqt]; exact htag
  have hc2 : countKey "__typename" (kvs.filter q') = 1 := by
    rw [countKey_filter q' _ hqt]
    have := countKey_pos_of_lookup htag
    have := hcnt "__typename"
    omega
  obtain ⟨hw1, hw2, hw3⟩ := variantOf_wire c pfx (marks c.q sub) (.object rt)
  have hvmem : variantOf c pfx (marks c.q sub) (.object rt) ∈ variantsV c pfx ty (marks c.q sub) := by
    unfold variantsV
    exact List.mem_append_left _ (List.mem_map_of_mem hmem)
  have hnames : ((vtsOfTy c.s ty).map (objName c.s)).Nodup := by
    unfold variantNames at hvn
    exact (List.nodup_append.mp hvn).1
  have htyn : "__typename" ∈ respKeys c.s sub := List.mem_filterMap.mpr ⟨_, typename_mem htn, rfl⟩
  -- the filter of the payload keeps every key that is no interface-level response key
  have hrest_q : ∀ k, k ∉ respKeys c.s sub → ∀ v,
      ((fun kv : String × Json => kv.1 != "__typename") (k, v) && q' (k, v)) = true := by
    intro k hk v
    have h2 : k ≠ "__typename" := fun heq => hk (heq ▸ htyn)
    simp [hqi k hk v, h2]
  have hcv : canonVarD c.s c.q c.o.skipNone (rtName c.s rt) sub kvs =
      canonVarTD c.s c.q c.o.skipNone (.object rt) sub kvs :=
    canonVarD_eq c.s c.q c.o.skipNone (.object rt) kvs _ hnames hmem ⟨rt, rfl⟩ sub
      (fun t isub hm => hin t (List.mem_filterMap.mpr ⟨_, hm, rfl⟩))
      (fun g f i hg hf hon => by
        rcases hsp g hg with ⟨vt, f', hvt, _, hf', hon', _⟩ | ⟨f', _, hf', hon', _⟩
        · rw [hf] at hf'; cases hf'; rw [hon']; exact hvt
        · rw [hf] at hf'; cases hf'; exact absurd (hon.symm.trans hon') (obj_ne_abs hty i))
  have hrt := tagged_roundtrip e fd fs buffered p n d cr "__typename" (variantsV c pfx ty (marks c.q sub)) (kvs.filter q')
    (variantOf c pfx (marks c.q sub) (.object rt)) (fun _ => canonVarD c.s c.q c.o.skipNone (rtName c.s rt) sub kvs) hfind
    (by rw [(variantsV_wire c pfx ty _).1]; exact hvn) (by rw [(variantsV_wire c pfx ty _).2]; exact hvn)
    hvmem hw3 hc2 (by rw [hw1]; exact hl2)
    (by
      intro t hpl x hx
      unfold variantOf at hpl
      rw [marks_contains] at hpl
      split at hpl
      · rename_i hcont
        simp only [Option.some.injEq] at hpl
        subst hpl
        have hne : mineOf c.q (.object rt) sub ≠ [] := by
          intro h; rw [h] at hcont; simp at hcont
        rw [List.filter_filter] at hx
        have hkeep : ∀ k ∈ varKeys c.s c.q (.object rt) sub, ∀ v,
            ((fun kv : String × Json => kv.1 != "__typename") (k, v) && q' (k, v)) = true :=
          fun k hk v => hrest_q k (varKeys_excl hok (obj_ne_abs hty rt) k hk) v
        have hI := rtVariantD e c pfx ty rt sub
          (fun y hy => by obtain ⟨isub, h1, h2⟩ := mem_ownSels hy; exact HI _ isub h1 y h2)
          hty ht hok henv (hve _ hmem) hro hmem (hrn _ hmem) fd fs hfd hfs
          (kvs.filter (fun kv => (kv.1 != "__typename") && q' kv))
          ⟨(List.filter_sublist.map _).nodup hnd, by
            intro a fid sub' hmf sf hsf v hl
            obtain ⟨isub, hi1, hi2⟩ := mem_ownSels hmf
            have hk : ∀ v, (fun kv : String × Json => (kv.1 != "__typename") && q' kv) (a.getD sf.name, v) = true :=
              fun v => hrest_q _ (hexcl _ isub hi1 _ (List.mem_filterMap.mpr ⟨_, hi2, by simp [fieldKey, hsf]⟩)) v
            rw [lookup_filter _ _ hk] at hl
            have hconf_i : confSelsV c.s rt (expandSels c.q isub) kvs = true := by
              have := confSelsV_mem hconf _ (expandSels_mem c.q hi1)
              simpa [expandSel, confSelV, fragApplies] using this
            exact (fieldsOkS_of_conf hnd hconf_i).2 a fid sub' hi2 sf hsf v hl⟩
          (by
            intro g fr hg hfr hon a fid sub' hmf sf hsf v hl
            have hkeys : ∀ k ∈ fieldKeys c.s fr.sels, k ∉ respKeys c.s sub := by
              rcases hsp g hg with ⟨_, fr', _, _, hfr', _, hkeys⟩ | ⟨fr', _, hfr', hon', _⟩
              · rw [hfr] at hfr'; cases hfr'; exact hkeys
              · rw [hfr] at hfr'; cases hfr'; exact absurd (hon.symm.trans hon') (obj_ne_abs hty rt)
            have hk : ∀ v, (fun kv : String × Json => (kv.1 != "__typename") && q' kv) (a.getD sf.name, v) = true :=
              fun v => hrest_q _ (hkeys _ (List.mem_filterMap.mpr ⟨_, hmf, by simp [fieldKey, hsf]⟩)) v
            rw [lookup_filter _ _ hk] at hl
            have hconf_g : confSelsV c.s rt fr.sels kvs = true := by
              have := confSelsV_mem hconf _ (expandSels_mem c.q hg)
              simpa [expandSel, hfr, confSelV, hon, fragApplies] using this
            exact strictAt_of_conf hconf_g a fid sub' hmf sf hsf v hl)
          hne x hx
        rw [show serTyWith (serPath e fs) (.path (pfx ++ "On" ++ objName c.s (.object rt))) x =
          serPath e fs (pfx ++ "On" ++ objName c.s (.object rt)) x from rfl, hI,
          canonVarTD_filter c.s c.q c.o.skipNone _ _ kvs sub hkeep, hcv]
      · cases hpl)
  obtain ⟨_, hval⟩ := hrt
  obtain ⟨⟨payload, hpv⟩, out, hser, hout, _⟩ := hval r hd
  rw [hw2] at hpv
  refine ⟨⟨payload, hpv⟩, ?_⟩
  rw [hser, hout, hw1]
  congr 3
  -- unit variant: nothing selected on `rt`
  unfold variantOf
  rw [marks_contains]
  split
  · rfl
  · rename_i hcont
    have hm : mineOf c.q (.object rt) sub = [] := by
      cases hmm : mineOf c.q (.object rt) sub with
      | nil => rfl
      | cons y ys => rw [hmm] at hcont; simp at hcont
    simp only [Option.isSome_none, Bool.false_eq_true, ↓reduceIte]
    rw [hcv, ← canonVarTD_mineOf, hm]; rfl


end RTD2

/-! ## serde: what a struct with borrowing members read, found again by name -/

theorem borrowVals_find (e : Env) (fuel : Nat) (rest : List (String × Json)) : ∀ (fs : List RField) (fl : List (String × Val)),
    borrowVals e fuel rest fs = .ok fl → (fs.map (·.rust)).Nodup →
    (∀ n, n ∉ fs.map (·.rust) → fl.find? (·.1 == n) = none) ∧
    ∀ g ∈ fs, g.flatten = true → ∃ x, readB e fuel g rest = .ok x ∧ fl.find? (·.1 == g.rust) = some (g.rust, x)
  | [], fl, h, _ => by
    simp only [borrowVals, pure, Except.pure, Except.ok.injEq] at h
    subst h; simp
  | g :: gs, fl, h, hnd => by
    simp only [List.map_cons, List.nodup_cons] at hnd
    cases hg : g.flatten
    · simp only [borrowVals, hg, Bool.not_false, ↓reduceIte] at h
      obtain ⟨ih1, ih2⟩ := borrowVals_find e fuel rest gs fl h hnd.2
      refine ⟨fun n hn => ih1 n (fun hm => hn (List.mem_cons_of_mem _ hm)), ?_⟩
      intro g' hg' hfl
      rcases List.mem_cons.mp hg' with rfl | hg''
      · rw [hg] at hfl; cases hfl
      · exact ih2 g' hg'' hfl
    · simp only [borrowVals, hg, Bool.not_true, Bool.false_eq_true, ↓reduceIte] at h
      obtain ⟨x, hx, h⟩ := C02.bind_ok h
      obtain ⟨r, hr, h⟩ := C02.bind_ok h
      simp only [pure, Except.pure, Except.ok.injEq] at h
      subst h
      obtain ⟨ih1, ih2⟩ := borrowVals_find e fuel rest gs r hr hnd.2
      constructor
      · intro n hn
        simp only [List.map_cons, List.mem_cons, not_or] at hn
        have : (g.rust == n) = false := by simpa using fun h => hn.1 h.symm
        simp only [List.find?_cons, this]
        exact ih1 n hn.2
      · intro g' hg' hfl
        rcases List.mem_cons.mp hg' with rfl | hg''
        · exact ⟨x, hx, by simp⟩
        · obtain ⟨x', h1, h2⟩ := ih2 g' hg'' hfl
          have hne : g.rust ≠ g'.rust := fun heq => hnd.1 (heq ▸ List.mem_map_of_mem hg'')
          have : (g.rust == g'.rust) = false := by simpa using hne
          exact ⟨x', h1, by simp only [List.find?_cons, this]; exact h2⟩

/-- **what a struct all of whose flattened members borrow read, found again by name**: the own fields from the object,
    every member what its type reads of the entries the own fields left -/
theorem deStruct_borrow_finds (e : Env) (fuel : Nat) (pathD : String → Json → D Val) (fields : List RField)
    (kvs : List (String × Json)) (hcnt : ∀ k, countKey k kvs ≤ 1) (hrust : (fields.map (·.rust)).Nodup)
    (hany : fields.any (·.flatten) = true) (hb : ∀ g ∈ fields, g.flatten = true → Borrows e g)
    (v : Val) (hd : deStructMapWith pathD (deFlat e (fuel + 1)) fields kvs = .ok v) :
    ∃ vals, v = .record vals ∧
      (∀ f ∈ fields, f.flatten = false → ∃ x, vals.find? (·.1 == f.rust) = some (f.rust, x) ∧
        readField pathD f kvs = .ok x) ∧
      (∀ g ∈ fields, g.flatten = true → ∃ x,
        readB e fuel g (kvs.filter (fun kv => !((fields.filter (fun f => !f.flatten)).map (·.wire)).contains kv.1)) = .ok x ∧
        vals.find? (·.1 == g.rust) = some (g.rust, x)) := by
  have hownpl : plain (fields.filter (fun f => !f.flatten)) = true := by
    simp only [plain, List.all_eq_true, List.mem_filter]
    intro f hf; exact hf.2
  have hsub : (fields.filter (fun f => !f.flatten)).Sublist fields := List.filter_sublist
  have hownnd : ((fields.filter (fun f => !f.flatten)).map (·.rust)).Nodup := (hsub.map _).nodup hrust
  rw [deStructMap_borrow e fuel pathD fields kvs hany hb] at hd
  obtain ⟨own, hown', hd⟩ := C02.bind_ok hd
  obtain ⟨fl, hfl, hd⟩ := C02.bind_ok hd
  simp only [pure, Except.pure, Except.ok.injEq] at hd
  have hall := (deOwn_ok_iff pathD kvs hcnt _ own hownpl).mp hown'
  have hownnames : own.map (·.1) = (fields.filter (fun f => !f.flatten)).map (·.rust) :=
    All2.map_fst (fun _ _ hh => hh.1) hall
  obtain ⟨hfl1, hfl2⟩ := borrowVals_find e fuel _ fields fl hfl hrust
  refine ⟨_, hd.symm, ?_, ?_⟩
  · intro f hf hfl'
    rw [find_filterMap_rust _ fields hrust f hf]
    obtain ⟨x, hx, hR⟩ := find_of_all2 (R := fun f x => readField pathD f kvs = .ok x) hall hownnd f
      (List.mem_filter.mpr ⟨hf, by simp [hfl']⟩)
    exact ⟨x, by rw [List.find?_append, hx]; rfl, hR⟩
  · intro g hg hfl'
    rw [find_filterMap_rust _ fields hrust g hg]
    obtain ⟨x, h1, h2⟩ := hfl2 g hg hfl'
    refine ⟨x, h1, ?_⟩
    have hnone : own.find? (·.1 == g.rust) = none := by
      apply find_none_of_not_mem
      rw [hownnames]
      intro hm
      obtain ⟨f, hf, hfr⟩ := List.mem_map.mp hm
      have hf' := List.mem_filter.mp hf
      have : f = g := eq_of_nodup_rust hrust hf'.1 hg hfr
      subst this
      simp [hfl'] at hf'
    rw [List.find?_append, hnone]
    simpa using h2

/-! ## `rtAbsV` from what its proof uses -/

section RTVW
variable (e : Env) (c : Ctx)

/-- **round trip of the type(s) emitted at an abstract position of `VariantOp`**, read from an object that may carry other
    keys than the selected ones (the proof of `rtAbsV` of `C01AbstractC`, from the facts it extracts from `conformsAt`) -/

theorem rtAbsV_w (pfx name : String) (ty : TypeId) (sub : List Sel) (H : ∀ x ∈ sub, RTSelV e c pfx x)
    (HI : ∀ x ∈ sub, RTInlV e c pfx x) (hty : absHyp c.s ty)
    (ht : vSels c.s c.o true sub = true) (hok : absOk c.s c.o ty sub = true) (henv : envSelsV e c pfx sub)
    (hro : rustOkSelsV c sub = true) (hrn : EnumSpec.nodup (rustNames c sub ++ ["on"]) = true)
    (hs : AbsEnv e name (fieldsOfV c pfx sub) (variantsV c pfx ty sub)) (b : Bool) (fd fs : Nat)
    (hfd : 2 * selsDepth sub + 3 ≤ fd) (hfs : 2 * selsDepth sub + 2 ≤ fs) (rt : Nat) (kvs : List (String × Json))
    (hnd : (kvs.map (·.1)).Nodup) (hconf : confSelsV c.s rt sub kvs = true)
    (htag : Json.lookup "__typename" kvs = some (.str (rtName c.s rt))) (hmem : TypeId.object rt ∈ vtsOfTy c.s ty)
    (w : Val) (hd : dePath e b fd name (.obj kvs) = .ok w) :
    serPath e fs name w = .ok (canonAbsV c.s c.o.skipNone sub (.obj kvs)) := by
  obtain ⟨htn, hrk, _, _, _, _, _, hexcl⟩ := absOk_parts hok
  have hemp := isEmpty_fieldsOfV c pfx true sub ht
  have htagName : tagName kvs = rtName c.s rt := by simp [tagName, htag]
  unfold AbsEnv at hs
  simp only [canonAbsV, htagName]
  cases hF : sub.any isFieldSel
  · -- the tagged enum alone
    rw [hF] at hemp
    simp only [hemp, Bool.not_false, ↓reduceIte] at hs
    obtain ⟨fd', rfl⟩ : ∃ k, fd = k + 1 := ⟨fd - 1, by omega⟩
    obtain ⟨fs', rfl⟩ : ∃ k, fs = k + 1 := ⟨fs - 1, by omega⟩
    rw [dePath_tagged e b fd' name _ _ _ _ _ hs.1 hs.2.2.choose_spec.choose_spec.choose_spec] at hd
    have hkf : kvs = kvs.filter (fun _ => true) := (List.filter_eq_self.mpr (fun _ _ => rfl)).symm
    rw [hkf] at hd
    have := (rtTagged e c pfx name ty sub HI ht hok henv hro hs rt kvs hnd hconf htag hmem (fun _ => true)
      (fun _ => rfl) (fun _ _ _ _ _ _ => rfl) b fd' fs' (by omega) (by omega) w hd).2
    rw [this, canonEntriesV_nofield c.s _ kvs sub hF]; rfl
  · -- the struct with the interface-level fields and the flattened `on`
    rw [hF] at hemp
    simp only [hemp, Bool.not_true, Bool.false_eq_true, ↓reduceIte] at hs
    obtain ⟨⟨hp, _, n, d, cr, hfind⟩, hsT⟩ := hs
    have hsT' := hsT
    obtain ⟨_, _, n', d', cr', hfind'⟩ := hsT'
    obtain ⟨fd', rfl⟩ : ∃ k, fd = k + 2 := ⟨fd - 2, by omega⟩
    obtain ⟨fs', rfl⟩ : ∃ k, fs = k + 2 := ⟨fs - 2, by omega⟩
    have hpl := plain_fieldsOfV c pfx sub
    have hcnt := countKey_le_one_of_nodup hnd
    rw [dePath_struct e b (fd' + 1) name n d cr _ hp hfind, deStruct_obj,
      deStructMap_on e fd' _ _ (onField name) (name ++ "On") n' d' cr' "__typename" _ kvs hpl rfl rfl hfind'] at hd
    obtain ⟨own, hown, hd⟩ := C02.bind_ok hd
    obtain ⟨r, hr, hd⟩ := C02.bind_ok hd
    simp only [pure, Except.pure, Except.ok.injEq] at hd
    have hall := (deOwn_ok_iff _ kvs hcnt _ own hpl).mp hown
    have hrust : ((fieldsOfV c pfx sub ++ [onField name]).map (·.rust)).Nodup := by
      rw [List.map_append, rust_fieldsOfV c pfx true sub ht]
      exact nodup_iff'.mp hrn
    rw [assemble_on _ (onField name) own r (hall.imp (fun _ _ hh => hh.1)) hrust] at hd
    subst hd
    have hkn := nodup_iff'.mp hrk
    -- own fields
    have hfindown := find_of_all2 (R := fun f x => readField (dePath e b (fd' + 1)) f kvs = .ok x) hall (by
      rw [rust_fieldsOfV c pfx true sub ht]
      exact (List.nodup_append.mp (nodup_iff'.mp hrn)).1)
    have hon_not : "on" ∉ own.map (·.1) := by
      have e1 : own.map (·.1) = (fieldsOfV c pfx sub).map (·.rust) := All2.map_fst (fun _ _ hh => hh.1) hall
      rw [e1, rust_fieldsOfV c pfx true sub ht]
      have := (List.nodup_append.mp (nodup_iff'.mp hrn)).2.2
      intro hm
      exact this _ hm _ (by simp) rfl
    have hs1 : serFieldsWith (serPath e (fs' + 1)) (fieldsOfV c pfx sub) (own ++ [("on", r)]) =
        .ok (expectOut (fcanonOfV c.s c.o.skipNone sub) (fieldsOfV c pfx sub) kvs) := by
      refine ser_of_read (dePath e b (fd' + 1)) _ _ kvs _ _ hpl ?_ ?_ ?_ ?_
      · intro f hf
        obtain ⟨x, hx, hR⟩ := hfindown f hf
        exact ⟨x, by rw [List.find?_append, hx]; rfl, hR⟩
      · intro f hf jv x hl hdx
        obtain ⟨a, fid, sub', sf, ft, hx, hsf, hfx, rfl, _⟩ := mem_fieldsOfV hf ht
        rw [fieldOf_wire] at hl
        have hst : strictFieldV c.s (.field a fid sub') jv = true := by
          have := confSelsV_mem hconf _ hx
          rw [confSelV_field] at this
          simpa [hsf, hl] using this
        have hfc : fcanonOfV c.s c.o.skipNone sub (fieldOf c (a.getD sf.name) ft sf.ty.quals sf.deprecation) jv =
            canonFieldV c.s c.o.skipNone (.field a fid sub') jv := by
          unfold fcanonOfV
          rw [fieldOf_wire, find_respKey c.s _ sub hkn _ hx (by simp [respKey, hsf])]
        rw [hfc]
        have hdep := C02.selDepth_le_of_mem hx
        exact H _ hx true (vSels_mem ht _ hx) (envSelsV_mem henv _ hx) (rustOkSelsV_mem hro _ hx) _ hfx b (fd' + 1)
          (fs' + 1) (by omega) (by omega) jv x hst hdx
      · intro f hf hskip jv x _ hdx
        obtain ⟨a, fid, sub', sf, ft, _, _, _, rfl, _⟩ := mem_fieldsOfV hf ht
        refine field_unit_iff _ _ (.inr ?_) jv x hdx
        rw [fieldOf_skipNone, Bool.and_eq_true] at hskip
        exact (isOption_rustOf ft sf.ty.quals).trans (skipQ_nullable hskip.2)
      · intro f hf hdef
        obtain ⟨a, fid, sub', sf, ft, _, _, _, rfl, _⟩ := mem_fieldsOfV hf ht
        have : (decide (ft = "ID") && nullableQ sf.ty.quals) = true := hdef
        rw [Bool.and_eq_true] at this
        exact (isOption_rustOf ft sf.ty.quals).trans this.2
    -- the flattened tagged enum
    rw [wire_fieldsOfV c pfx true sub ht] at hr
    have hnf := typename_not_fieldKey c.s sub htn hrk
    have hs2 := (rtTagged e c pfx (name ++ "On") ty sub HI ht hok henv hro hsT rt kvs hnd hconf htag hmem
      (fun kv => !(fieldKeys c.s sub).contains kv.1) (by intro v; simpa using hnf)
      (by
        intro t isub hm k hk v
        have := hexcl t isub hm k hk
        have : k ∉ fieldKeys c.s sub := fun h' => this (fieldKeys_sub_respKeys c.s sub k h')
        simpa using this)
      true fd' fs' (by omega) (by omega) r hr).2
    rw [serPath_struct e (fs' + 1) name n d cr _ hfind,
      flatten_ser_concat _ _ (fieldsOfV c pfx sub) [] (onField name) "on" r _ _ [] hpl rfl
        (find_append_not_left hon_not) hs1 hs2 rfl]
    rw [expectOut_canonV c pfx true _ kvs sub ht (by
      intro a fid sub' hx f hfx v
      obtain ⟨sf, ft, hsf, _, hf', _⟩ := fieldOfSelV_v c pfx true a fid sub' (vSels_mem ht _ hx)
      rw [hf'] at hfx
      cases hfx
      unfold fcanonOfV
      rw [fieldOf_wire, find_respKey c.s _ sub hkn _ hx (by simp [respKey, hsf])])]
    simp only [List.append_nil]
    rfl

end RTVW

/-! ## the struct at an abstract position: fields, Rust names, entries -/

theorem mem_fieldsB_flatten {c : Ctx} {pfx : String} {ty : TypeId} : ∀ {sub : List Sel} {g : RField},
    g ∈ fieldsB c pfx ty sub → g.flatten = true →
    ∃ gid fr, Sel.spread gid ∈ sub ∧ c.q.fragments[gid]? = some fr ∧ fr.on = ty ∧ g = spreadField c fr
  | [], g, hg, _ => by simp [fieldsB] at hg
  | x :: xs, g, hg, hfl => by
    rw [fieldsB_cons, List.mem_append] at hg
    rcases hg with hg | hg
    · cases x with
      | field a fid sub =>
        simp only [fieldOfSelB, fieldOfSelV] at hg
        split at hg
        · simp at hg
        · split at hg
          · simp at hg
          · simp only [Option.toList, List.mem_singleton] at hg; subst hg; simp [fieldOf] at hfl
      | spread gid =>
        cases hf : c.q.fragments[gid]? with
        | none => simp [fieldOfSelB, hf] at hg
        | some fr =>
          simp only [fieldOfSelB, hf] at hg
          by_cases hon : fr.on = ty
          · simp only [hon, beq_self_eq_true, ↓reduceIte, Option.toList, List.mem_singleton] at hg
            exact ⟨gid, fr, by simp, hf, hon, hg⟩
          · have hne : (fr.on == ty) = false := by simpa using hon
            simp [hne] at hg
      | inline t sub => simp [fieldOfSelB, fieldOfSelV] at hg
      | typename => simp [fieldOfSelB, fieldOfSelV] at hg
    · obtain ⟨gid, fr, h1, h2⟩ := mem_fieldsB_flatten hg hfl
      exact ⟨gid, fr, List.mem_cons_of_mem _ h1, h2⟩

theorem rust_fieldsB (c : Ctx) (pfx : String) (ty : TypeId) : ∀ (sub : List Sel), sSels c.s c.q c.o true sub = true →
    (fieldsB c pfx ty sub).map (·.rust) = rustNamesB c ty sub
  | [], _ => rfl
  | x :: xs, ht => by
    obtain ⟨hx, hxs⟩ := sSels_cons ht
    have ih := rust_fieldsB c pfx ty xs hxs
    rw [fieldsB_cons, List.map_append, ih]
    cases x with
    | field a fid sub =>
      obtain ⟨sf, ft, hsf, _, hf, _⟩ := fieldOfSelV_s c pfx true a fid sub hx
      simp [fieldOfSelB, hf, rustNamesB, List.filterMap_cons, rustNameB, rustName, hsf, fieldOf]
    | spread g =>
      cases hf : c.q.fragments[g]? with
      | none => simp [fieldOfSelB, hf, rustNamesB, List.filterMap_cons, rustNameB]
      | some f =>
        by_cases hon : f.on = ty
        · simp [fieldOfSelB, hf, hon, rustNamesB, List.filterMap_cons, rustNameB, spreadField]
        · have hne : (f.on == ty) = false := by simpa using hon
          simp [fieldOfSelB, hf, hne, rustNamesB, List.filterMap_cons, rustNameB]
    | inline t sub => simp [fieldOfSelB, fieldOfSelV, rustNamesB, List.filterMap_cons, rustNameB, rustName]
    | typename => simp [fieldOfSelB, fieldOfSelV, rustNamesB, List.filterMap_cons, rustNameB, rustName]

theorem rustNamesB_noSpread (c : Ctx) (ty : TypeId) : ∀ (sels : List Sel), (∀ g, Sel.spread g ∉ sels) →
    rustNamesB c ty sels = rustNames c sels
  | [], _ => rfl
  | x :: xs, h => by
    have ih := rustNamesB_noSpread c ty xs (fun g hg => h g (List.mem_cons_of_mem _ hg))
    unfold rustNamesB rustNames at ih ⊢
    rw [List.filterMap_cons, List.filterMap_cons, ih]
    cases x with
    | spread g => exact absurd (List.mem_cons_self) (h g)
    | field a fid sub => rfl
    | inline t sub => rfl
    | typename => rfl

/-- the entries the struct at an abstract position writes for its own fields and the members for fragments on the abstract
    type itself are `canonEntriesBD` -/
theorem flatMap_entriesF_B (c : Ctx) (pfx : String) (ty : TypeId) (rest : List (String × Json))
    (fc : RField → Json → Json) (mc : RField → List (String × Json)) (kvs : List (String × Json)) : ∀ (sub : List Sel),
    sSels c.s c.q c.o true sub = true →
    (∀ a fid sub', Sel.field a fid sub' ∈ sub → ∀ f, fieldOfSelV c pfx (.field a fid sub') = some f →
      ∀ v, fc f v = canonFieldD c.s c.q c.o.skipNone (.field a fid sub') v) →
    (∀ g fr, Sel.spread g ∈ sub → c.q.fragments[g]? = some fr → fr.on = ty →
      mc (spreadField c fr) = absEntries (canonAbsV c.s c.o.skipNone fr.sels (.obj rest))) →
    (fieldsB c pfx ty sub).flatMap (entriesF fc mc kvs) = canonEntriesBD c.s c.q c.o.skipNone ty rest sub kvs
  | [], _, _, _ => by simp [fieldsB, canonEntriesBD]
  | x :: xs, ht, hfc, hmc => by
    obtain ⟨hx, hxs⟩ := sSels_cons ht
    have ih := flatMap_entriesF_B c pfx ty rest fc mc kvs xs hxs
      (fun a fid sub hm => hfc a fid sub (List.mem_cons_of_mem _ hm))
      (fun g fr hm => hmc g fr (List.mem_cons_of_mem _ hm))
    rw [fieldsB_cons, List.flatMap_append, ih]
    cases x with
    | field a fid sub =>
      obtain ⟨sf, ft, hsf, _, hf, _⟩ := fieldOfSelV_s c pfx true a fid sub hx
      rw [canonEntriesBD.eq_2]
      simp only [fieldOfSelB, hf, Option.toList, List.flatMap_cons, List.flatMap_nil, List.append_nil, entriesF, fieldOf,
        Bool.false_eq_true, ↓reduceIte]
      have := expectOut_cons fc (fieldOf c (a.getD sf.name) ft sf.ty.quals sf.deprecation) [] kvs
      simp only [fieldOf] at this
      rw [this]
      simp only [hsf, expectOut, List.filterMap_nil, List.append_nil]
      have hw := fieldOf_wire c (a.getD sf.name) ft sf.ty.quals sf.deprecation
      simp only [fieldOf] at hw
      simp only [hw, Bool.and_assoc]
      have hfc' := hfc a fid sub (by simp) _ hf
      simp only [fieldOf] at hfc'
      cases Json.lookup (a.getD sf.name) kvs with
      | none => rfl
      | some v => simp only [hfc' v]
    | spread g =>
      rw [canonEntriesBD.eq_3]
      cases hf : c.q.fragments[g]? with
      | none => simp [fieldOfSelB, hf]
      | some fr =>
        by_cases hon : fr.on = ty
        · have := hmc g fr (by simp) hf hon
          simp only [spreadField] at this
          simp [fieldOfSelB, hf, hon, entriesF, spreadField, this]
        · have hne : (fr.on == ty) = false := by simpa using hon
          simp [fieldOfSelB, hf, hne]
    | inline t sub => simp [fieldOfSelB, fieldOfSelV, canonEntriesBD]
    | typename => simp [fieldOfSelB, fieldOfSelV, canonEntriesBD]

theorem canonEntriesBD_nostruct (s : Schema) (q : Query) (skip : Bool) (ty : TypeId) (rest kvs : List (String × Json)) :
    ∀ (sub : List Sel), hasStruct q ty sub = false → canonEntriesBD s q skip ty rest sub kvs = []
  | [], _ => by simp [canonEntriesBD]
  | x :: xs, h => by
    simp only [hasStruct, List.any_cons, Bool.or_eq_false_iff] at h
    have ih := canonEntriesBD_nostruct s q skip ty rest kvs xs (by simp [hasStruct, h.1.2, h.2.2])
    cases x with
    | field a fid sub => simp [isFieldSel] at h
    | spread g =>
      have h1 := h.2.1
      rw [canonEntriesBD.eq_3, ih]
      cases hf : q.fragments[g]? with
      | none => rfl
      | some f =>
        simp only [isBSpread, hf] at h1
        simp [h1]
    | inline t sub => simpa [canonEntriesBD] using ih
    | typename => simpa [canonEntriesBD] using ih

/-- what a response object conforming at an abstract position (spreads expanded) looks like -/
theorem abs_conf_factsD {s : Schema} {q : Query} {o : Options} {ty : TypeId} {sub : List Sel} {j : Json}
    (hty : absHyp s ty) (hok : absOk2 s o ty sub = true) (h : conformsAt s ty (expandSels q sub) j = true) :
    ∃ rt kvs, j = .obj kvs ∧ (kvs.map (·.1)).Nodup ∧ confSelsV s rt (expandSels q sub) kvs = true ∧
      Json.lookup "__typename" kvs = some (.str (rtName s rt)) ∧ TypeId.object rt ∈ vtsOfTy s ty ∧
      fragApplies s rt ty = true := by
  obtain ⟨htn, _, _, _, _, _, _, _⟩ := absOk2_parts hok
  simp only [conformsAt, List.any_eq_true, List.mem_range, Bool.and_eq_true] at h
  obtain ⟨rt, hrt, happ, hc⟩ := h
  cases j with
  | obj kvs =>
    simp only [conformsV, Bool.and_eq_true] at hc
    obtain ⟨⟨hnd, _⟩, hconf⟩ := hc
    refine ⟨rt, kvs, rfl, nodup_iff'.mp hnd, hconf, ?_, mem_vtsOfTy happ hrt hty, happ⟩
    have := confSelsV_mem hconf _ (expandSels_typename q htn)
    simp only [confSelV] at this
    split at this
    · rename_i n hl; rw [hl]; simp only [beq_iff_eq] at this; rw [this]
    · cases this
  | null => simp [conformsV] at hc
  | bool _ => simp [conformsV] at hc
  | int _ => simp [conformsV] at hc
  | num _ => simp [conformsV] at hc
  | str _ => simp [conformsV] at hc
  | arr _ => simp [conformsV] at hc

end E2E
end C01
end GqlVerif
