import GqlVerif.Props.C07
/-!
# C07 — whole-schema agreement of the two schema front-ends

`Props/C07.lean` proves the per-construct facts.  This file proves the assembly: for every
well-formed *abstract schema* `a : AS`, the SDL front-end applied to an SDL rendering of `a` and the
introspection front-end applied to an introspection rendering of `a` return **literally the same**
`Outcome Schema`, namely `.ok a.toSchema` (a closed form given below).  Everything after the
front-ends is a function of that `Schema` value, hence identical generated code.

Scope: abstract schemas have no `extend type` (SDL pass 5 is the identity on the renderings).
The renderings are taken in two generalities:

* `IsSdlOf a doc` / `IsIntroOf a ts`: *any* SDL document / introspection type list whose per-kind
  projections are the renderings of `a`'s scalars, enums, … in `a`'s order.  Definitions of different
  kinds may be interleaved arbitrarily, the `schema { … }` block may be anywhere (or absent if the roots
  are the default ones), the introspection list may contain built-in scalars, `null` entries and
  entries of unknown kinds anywhere.
* `sdlOf ex a` / `introOf bs a`: one concrete rendering each (definitions grouped by kind), with the
  parameters `ex` (explicit `schema` block or not) and `bs` (which built-in scalars are listed).

Main results (all about the model's own `Sdl.fromSdl`, `Intro.fromIntro`, `Intro.fromJson`):

* `sdl_spec`, `intro_spec` — each front-end returns `.ok a.toSchema` on every rendering;
* `frontends_equal_of_renderings` — hence equality, for arbitrary interleavings;
* `frontends_equal` (`frontends_equal'`, `frontends_value`) — the concrete renderings;
* `parseIntro_json` — the serde decoder is the identity on the JSON text of an introspection value
  (any value, not only renderings), up to the `ofType` recursion limit; `frontends_equal_json` — equality
  at the level of `fromJson`;
* `example`s: a non-trivial instance evaluated by the kernel on both sides, a shuffled rendering of it,
  and witnesses that no hypothesis of `WfAS` (nor `DefaultRoots`, nor the depth bound) can be dropped.

Proof structure: (1) the name table — `namesInsert` commutes for distinct keys (`namesInsert_comm`), so a
fold of insertions only depends on the entries up to permutation (`insAll_perm`); both pipelines insert a
permutation of `a.pairs` (`sdl_names`, `intro_names`), and every lookup happens after the table is complete;
(2) each pass has a closed form (`sdl_*`, `intro_*`), ids being positions within the kind and field ids
being assigned interfaces-first in both pipelines; (3) assembly.
-/
namespace GqlVerif
namespace C07

/-! ## abstract schemas -/

structure AField where
  name : String
  ty : GTy
  /-- `none` = not deprecated, `some none` = deprecated without reason -/
  dep : Option (Option String)
  deriving Repr, DecidableEq, Inhabited

structure AEnum where
  name : String
  values : List String
  deriving Repr, DecidableEq, Inhabited

structure AIface where
  name : String
  fields : List AField
  deriving Repr, DecidableEq, Inhabited

structure AObj where
  name : String
  implements : List String
  fields : List AField
  deriving Repr, DecidableEq, Inhabited

structure AUnion where
  name : String
  members : List String
  deriving Repr, DecidableEq, Inhabited

structure AInput where
  name : String
  isOneOf : Bool
  fields : List (String × GTy)
  deriving Repr, DecidableEq, Inhabited

/-- abstract schema (no type extensions) -/
structure AS where
  scalars : List String := []
  enums : List AEnum := []
  interfaces : List AIface := []
  objects : List AObj := []
  unions : List AUnion := []
  inputs : List AInput := []
  query : Option String := none
  mutation : Option String := none
  subscription : Option String := none
  deriving Repr, DecidableEq, Inhabited

namespace AS
def enumNames (a : AS) : List String := a.enums.map (·.name)
def ifaceNames (a : AS) : List String := a.interfaces.map (·.name)
def objNames (a : AS) : List String := a.objects.map (·.name)
def unionNames (a : AS) : List String := a.unions.map (·.name)
def inputNames (a : AS) : List String := a.inputs.map (·.name)

/-- every type name that can be referred to: the five built-in scalars, then the defined types -/
def known (a : AS) : List String :=
  Schema.defaultScalars ++ a.scalars ++ a.enumNames ++ a.ifaceNames ++ a.objNames ++ a.unionNames ++ a.inputNames

/-- the `__TypeKind` of a named type, as an introspection response reports it -/
def kindOf (a : AS) (n : String) : String :=
  if n ∈ a.enumNames then "ENUM" else if n ∈ a.ifaceNames then "INTERFACE"
  else if n ∈ a.objNames then "OBJECT" else if n ∈ a.unionNames then "UNION"
  else if n ∈ a.inputNames then "INPUT_OBJECT" else "SCALAR"

theorem kindOf_ne (a : AS) (n : String) : a.kindOf n ≠ "NON_NULL" ∧ a.kindOf n ≠ "LIST" := by
  unfold kindOf; repeat' split
  all_goals decide
end AS

/-- well-formedness: exactly what the equality needs.
* type names pairwise distinct and distinct from the built-in scalars (the two front-ends insert the
  kinds into the name table in different orders, and the JSON path drops `SCALAR`s with built-in names);
* every named type of a field / input field / union member is defined (the two paths fail with
  *different* panic messages on an unknown name);
* `implements` lists name interfaces (same reason). -/
def WfAS (a : AS) : Prop :=
  a.known.Nodup ∧
  (∀ i ∈ a.interfaces, ∀ f ∈ i.fields, f.ty.base ∈ a.known) ∧
  (∀ o ∈ a.objects, ∀ f ∈ o.fields, f.ty.base ∈ a.known) ∧
  (∀ o ∈ a.objects, ∀ n ∈ o.implements, n ∈ a.ifaceNames) ∧
  (∀ u ∈ a.unions, ∀ m ∈ u.members, m ∈ a.known) ∧
  (∀ i ∈ a.inputs, ∀ f ∈ i.fields, f.2.base ∈ a.known)

instance (a : AS) : Decidable (WfAS a) := by unfold WfAS; infer_instance

/-! ## the name table -/

/-- `(name, mk position)` for the names of one kind, positions starting at `k` -/
def pairsFrom (mk : Nat → TypeId) (ns : List String) (k : Nat) : List (String × TypeId) :=
  (ns.zipIdx k).map fun p => (p.1, mk p.2)

/-- successive `BTreeMap::insert`s -/
def insAll (ps : List (String × TypeId)) (names : List (String × TypeId)) : List (String × TypeId) :=
  ps.foldl (fun acc p => namesInsert p.1 p.2 acc) names

namespace AS
/-- all `(name, id)` entries of the name table, in a reference order -/
def pairs (a : AS) : List (String × TypeId) :=
  pairsFrom .scalar Schema.defaultScalars 0 ++ pairsFrom .scalar a.scalars 5 ++
  pairsFrom .enum a.enumNames 0 ++ pairsFrom .interface a.ifaceNames 0 ++ pairsFrom .object a.objNames 0 ++
  pairsFrom .union a.unionNames 0 ++ pairsFrom .input a.inputNames 0

/-- the name table of the abstract schema -/
def names (a : AS) : List (String × TypeId) := insAll a.pairs []
end AS

@[simp] theorem pairsFrom_nil (mk : Nat → TypeId) (k : Nat) : pairsFrom mk [] k = [] := rfl
@[simp] theorem pairsFrom_cons (mk : Nat → TypeId) (n : String) (ns : List String) (k : Nat) :
    pairsFrom mk (n :: ns) k = (n, mk k) :: pairsFrom mk ns (k + 1) := by
  simp [pairsFrom, List.zipIdx_cons]

theorem pairsFrom_keys (mk : Nat → TypeId) (ns : List String) (k : Nat) :
    (pairsFrom mk ns k).map Prod.fst = ns := by
  induction ns generalizing k with
  | nil => rfl
  | cons n ns ih => simp [ih]

theorem pairsFrom_map {α} (mk : Nat → TypeId) (f : α → String) (l : List α) (k : Nat) :
    pairsFrom mk (l.map f) k = (l.zipIdx k).map fun p => (f p.1, mk p.2) := by
  induction l generalizing k with
  | nil => rfl
  | cons x l ih => simp [ih, List.zipIdx_cons]

theorem mem_pairsFrom_of_mem (mk : Nat → TypeId) (ns : List String) (k : Nat) (n : String) (h : n ∈ ns) :
    ∃ i, (n, mk i) ∈ pairsFrom mk ns k := by
  induction ns generalizing k with
  | nil => cases h
  | cons m ns ih =>
    rcases List.mem_cons.1 h with rfl | h
    · exact ⟨k, by simp⟩
    · obtain ⟨i, hi⟩ := ih (k + 1) h
      exact ⟨i, by simp [hi]⟩

@[simp] theorem insAll_nil (l : List (String × TypeId)) : insAll [] l = l := rfl
@[simp] theorem insAll_cons (p : String × TypeId) (ps l : List (String × TypeId)) :
    insAll (p :: ps) l = insAll ps (namesInsert p.1 p.2 l) := rfl
theorem insAll_append (ps qs l : List (String × TypeId)) : insAll (ps ++ qs) l = insAll qs (insAll ps l) := by
  simp [insAll, List.foldl_append]

/-- the loop of `populateNames` / `buildNames` -/
theorem zipIdx_foldl_eq (mk : Nat → TypeId) (ns : List String) (l : List (String × TypeId)) :
    ns.zipIdx.foldl (fun acc (x : String × Nat) => namesInsert x.1 (mk x.2) acc) l = insAll (pairsFrom mk ns 0) l := by
  simp [insAll, pairsFrom, List.foldl_map]

/-- sorted insertion commutes for distinct keys (on every list: no sortedness hypothesis needed) -/
theorem namesInsert_comm (a b : String) (va vb : TypeId) (h : a ≠ b) (l : List (String × TypeId)) :
    namesInsert a va (namesInsert b vb l) = namesInsert b vb (namesInsert a va l) := by
  induction l with
  | nil => simp [namesInsert]; grind
  | cons p rest ih =>
    obtain ⟨k, v⟩ := p
    simp only [namesInsert]
    grind [namesInsert]

theorem namesGet_insert (k k' : String) (v : TypeId) (l : List (String × TypeId)) :
    namesGet k (namesInsert k' v l) = if k = k' then some v else namesGet k l := by
  induction l with
  | nil => simp [namesInsert, namesGet]
  | cons p rest ih =>
    obtain ⟨k'', v''⟩ := p
    simp only [namesInsert]
    grind [namesGet]

theorem nodup_map_inj {α β} (f : α → β) (l : List α) (h : (l.map f).Nodup) :
    ∀ x ∈ l, ∀ y ∈ l, f x = f y → x = y := by
  induction l with
  | nil => intro x hx; cases hx
  | cons a l ih =>
    simp only [List.map_cons, List.nodup_cons, List.mem_map, not_exists, not_and] at h
    intro x hx y hy hxy
    rcases List.mem_cons.1 hx with hx' | hx' <;> rcases List.mem_cons.1 hy with hy' | hy'
    · rw [hx', hy']
    · rw [hx'] at hxy; exact absurd hxy.symm (h.1 y hy')
    · rw [hy'] at hxy; exact absurd hxy (h.1 x hx')
    · exact ih h.2 x hx' y hy' hxy

/-- the table does not depend on the order in which entries with distinct keys are inserted -/
theorem insAll_perm (ps qs : List (String × TypeId)) (hp : ps.Perm qs) (hk : (ps.map Prod.fst).Nodup)
    (l : List (String × TypeId)) : insAll ps l = insAll qs l := by
  unfold insAll
  refine hp.foldl_eq' ?_ l
  intro x hx y hy z
  by_cases hxy : x = y
  · subst hxy; rfl
  · have : x.1 ≠ y.1 := fun h => hxy (nodup_map_inj Prod.fst ps hk x hx y hy h)
    exact namesInsert_comm _ _ _ _ (Ne.symm this) _

theorem namesGet_insAll_not_mem (k : String) (ps l : List (String × TypeId)) (h : k ∉ ps.map Prod.fst) :
    namesGet k (insAll ps l) = namesGet k l := by
  induction ps generalizing l with
  | nil => rfl
  | cons p ps ih =>
    simp only [List.map_cons, List.mem_cons, not_or] at h
    rw [insAll_cons, ih _ h.2, namesGet_insert, if_neg h.1]

theorem namesGet_insAll_mem (k : String) (v : TypeId) (ps l : List (String × TypeId))
    (hk : (ps.map Prod.fst).Nodup) (h : (k, v) ∈ ps) : namesGet k (insAll ps l) = some v := by
  induction ps generalizing l with
  | nil => cases h
  | cons p ps ih =>
    simp only [List.map_cons, List.nodup_cons] at hk
    rcases List.mem_cons.1 h with rfl | h
    · rw [insAll_cons, namesGet_insAll_not_mem _ _ _ hk.1, namesGet_insert, if_pos rfl]
    · exact ih _ hk.2 h

theorem namesGet_insAll_inv (k : String) (v : TypeId) (ps l : List (String × TypeId))
    (h : namesGet k (insAll ps l) = some v) : (k, v) ∈ ps ∨ namesGet k l = some v := by
  induction ps generalizing l with
  | nil => exact .inr h
  | cons p ps ih =>
    rcases ih _ h with h | h
    · exact .inl (List.mem_cons_of_mem _ h)
    · rw [namesGet_insert] at h
      split at h
      · next hk => cases h; subst hk; exact .inl (by simp)
      · exact .inr h

namespace AS
theorem pairs_keys (a : AS) : a.pairs.map Prod.fst = a.known := by
  simp [pairs, known, pairsFrom_keys]

theorem get_of_mem_pairs (a : AS) (hn : a.known.Nodup) {n : String} {id : TypeId} (h : (n, id) ∈ a.pairs) :
    namesGet n a.names = some id :=
  namesGet_insAll_mem n id a.pairs [] (by rw [pairs_keys]; exact hn) h

theorem get_of_known (a : AS) (hn : a.known.Nodup) {n : String} (h : n ∈ a.known) :
    ∃ id, namesGet n a.names = some id := by
  rw [← pairs_keys, List.mem_map] at h
  obtain ⟨⟨n', id⟩, hm, rfl⟩ := h
  exact ⟨id, get_of_mem_pairs a hn hm⟩

theorem mem_pairs_of_get (a : AS) {n : String} {id : TypeId} (h : namesGet n a.names = some id) :
    (n, id) ∈ a.pairs := by
  rcases namesGet_insAll_inv n id a.pairs [] h with h | h
  · exact h
  · cases h
end AS

/-! ## the closed form of the result -/

/-- id of a defined type name -/
def tyId (N : List (String × TypeId)) (n : String) : TypeId := (namesGet n N).getD (.scalar 0)
/-- `resolve_field_type` / `from_json_type` on a defined name -/
def ftOf (N : List (String × TypeId)) (t : GTy) : FieldType := { id := tyId N t.base, quals := t.quals }
def ifaceId (N : List (String × TypeId)) (n : String) : Nat := ((namesGet n N).bind TypeId.asInterface?).getD 0

def storedField (N : List (String × TypeId)) (parent : FieldParent) (f : AField) : StoredField :=
  { name := f.name, ty := ftOf N f.ty, parent := parent, deprecation := f.dep }

/-- fields of the interfaces number `k, k+1, …` -/
def ifaceFields (N : List (String × TypeId)) : Nat → List AIface → List StoredField
  | _, [] => []
  | k, i :: is => i.fields.map (storedField N (.interface k)) ++ ifaceFields N (k + 1) is

/-- stored interfaces, the first field id being `start` -/
def ifaceStored : Nat → List AIface → List StoredInterface
  | _, [] => []
  | start, i :: is =>
    { name := i.name, fields := List.range' start i.fields.length } :: ifaceStored (start + i.fields.length) is

def objFields (N : List (String × TypeId)) : Nat → List AObj → List StoredField
  | _, [] => []
  | k, o :: os => o.fields.map (storedField N (.object k)) ++ objFields N (k + 1) os

def objStored (N : List (String × TypeId)) : Nat → List AObj → List StoredObject
  | _, [] => []
  | start, o :: os =>
    { name := o.name, fields := List.range' start o.fields.length, implements := o.implements.map (ifaceId N) } ::
      objStored N (start + o.fields.length) os

def storedEnum (e : AEnum) : StoredEnum := { name := e.name, variants := e.values }
def storedUnion (N : List (String × TypeId)) (u : AUnion) : StoredUnion :=
  { name := u.name, variants := u.members.map (tyId N) }
def storedInput (N : List (String × TypeId)) (i : AInput) : StoredInput :=
  { name := i.name, fields := i.fields.map fun p => (p.1, ftOf N p.2), isOneOf := i.isOneOf }

def rootId (N : List (String × TypeId)) (r : Option String) : Option Nat :=
  (r.bind fun n => namesGet n N).bind TypeId.asObject?

/-- **the `Schema` both front-ends build for `a`** (ids are positions within the kind; field ids
number the interface fields first, then the object fields, in definition order) -/
def AS.toSchema (a : AS) : Schema :=
  { objects := objStored a.names (ifaceFields a.names 0 a.interfaces).length a.objects
    fields := ifaceFields a.names 0 a.interfaces ++ objFields a.names 0 a.objects
    interfaces := ifaceStored 0 a.interfaces
    unions := a.unions.map (storedUnion a.names)
    scalars := Schema.defaultScalars ++ a.scalars
    enums := a.enums.map storedEnum
    inputs := a.inputs.map (storedInput a.names)
    names := a.names
    queryType := rootId a.names a.query
    mutationType := rootId a.names a.mutation
    subscriptionType := rootId a.names a.subscription }

@[simp] theorem ifaceFields_length (N : List (String × TypeId)) (k : Nat) (is : List AIface) :
    (ifaceFields N k is).length = (is.map (·.fields.length)).sum := by
  induction is generalizing k with
  | nil => rfl
  | cons i is ih => simp [ifaceFields, ih]

/-! ## renderings -/

def sdlField (f : AField) : SdlField := { name := f.name, ty := f.ty, directives := depDirectives f.dep }
def sdlEnum (e : AEnum) : SdlDef := .enum e.name e.values
def sdlUnion (u : AUnion) : SdlDef := .union u.name u.members
def sdlIface (i : AIface) : SdlDef := .interface i.name (i.fields.map sdlField)
def sdlObj (o : AObj) : SdlDef := .object o.name o.implements (o.fields.map sdlField)
def sdlInput (i : AInput) : SdlDef := .input i.name (if i.isOneOf then ["oneOf"] else []) i.fields

/-- the pass of `build_schema` that looks at a definition -/
def passOf : SdlDef → Option Nat
  | .scalar _ => some 0
  | .enum _ _ => some 1
  | .union _ _ => some 2
  | .interface _ _ => some 3
  | .object _ _ _ => some 4
  | .extObject _ _ _ => some 5
  | .input _ _ _ => some 6
  | _ => none

/-- definitions of one pass, in document order -/
def ofPass (doc : SdlDoc) (p : Nat) : SdlDoc := doc.filter fun d => passOf d == some p

/-- the first `schema { … }` block -/
def schemaBlock (doc : SdlDoc) : Option (Option String × Option String × Option String) :=
  doc.findSome? (fun | .schemaDef q m sub => some (q, m, sub) | _ => none)

/-- the root a schema without `schema { … }` block has under the default name `n` -/
def AS.defaultRoot (a : AS) (n : String) : Option String := if n ∈ a.objNames then some n else none

/-- the roots are the default ones (so that the `schema` block may be omitted) -/
def AS.DefaultRoots (a : AS) : Prop :=
  a.query = a.defaultRoot "Query" ∧ a.mutation = a.defaultRoot "Mutation" ∧
  a.subscription = a.defaultRoot "Subscription"

instance (a : AS) : Decidable a.DefaultRoots := by unfold AS.DefaultRoots; infer_instance

/-- `doc` is an SDL rendering of `a`: per kind, the definitions are the renderings of `a`'s, in `a`'s
order (kinds may be interleaved in any way); no `extend type`; the first `schema` block names `a`'s roots,
or there is none and the roots are the default ones. -/
structure IsSdlOf (a : AS) (doc : SdlDoc) : Prop where
  scalars : ofPass doc 0 = a.scalars.map .scalar
  enums : ofPass doc 1 = a.enums.map sdlEnum
  unions : ofPass doc 2 = a.unions.map sdlUnion
  ifaces : ofPass doc 3 = a.interfaces.map sdlIface
  objects : ofPass doc 4 = a.objects.map sdlObj
  noExt : ofPass doc 5 = []
  inputs : ofPass doc 6 = a.inputs.map sdlInput
  roots : schemaBlock doc = some (a.query, a.mutation, a.subscription) ∨ (schemaBlock doc = none ∧ a.DefaultRoots)

/-- a reference to a named type, with its kind -/
def namedRef (a : AS) (n : String) : TypeRef := .mk (some (a.kindOf n)) (some n) none
/-- a type expression as an `ofType` chain ending in `namedRef` -/
def typeRefOf (a : AS) (t : GTy) : TypeRef := C13.toTypeRef (a.kindOf t.base) t

def introField (a : AS) (f : AField) : IntroField :=
  { name := some f.name, ty := some (typeRefOf a f.ty),
    isDeprecated := (depJson f.dep).1, deprecationReason := (depJson f.dep).2 }

def introScalar (n : String) : FullType :=
  { kind := some "SCALAR", name := some n, fields := none, inputFields := none, interfaces := none,
    enumValues := none, possibleTypes := none, isOneOf := none }
def introEnum (e : AEnum) : FullType :=
  { kind := some "ENUM", name := some e.name, fields := none, inputFields := none, interfaces := none,
    enumValues := some (e.values.map fun v => { name := some v }), possibleTypes := none, isOneOf := none }
def introIface (a : AS) (i : AIface) : FullType :=
  { kind := some "INTERFACE", name := some i.name, fields := some (i.fields.map (introField a)),
    inputFields := none, interfaces := some [], enumValues := none,
    possibleTypes := some ((a.objects.filter fun o => i.name ∈ o.implements).map fun o => namedRef a o.name),
    isOneOf := none }
def introObj (a : AS) (o : AObj) : FullType :=
  { kind := some "OBJECT", name := some o.name, fields := some (o.fields.map (introField a)),
    inputFields := none, interfaces := some (o.implements.map (namedRef a)), enumValues := none,
    possibleTypes := none, isOneOf := none }
def introUnion (a : AS) (u : AUnion) : FullType :=
  { kind := some "UNION", name := some u.name, fields := none, inputFields := none, interfaces := none,
    enumValues := none, possibleTypes := some (u.members.map (namedRef a)), isOneOf := none }
def introInput (a : AS) (i : AInput) : FullType :=
  { kind := some "INPUT_OBJECT", name := some i.name, fields := none,
    inputFields := some (i.fields.map fun p => { name := p.1, ty := typeRefOf a p.2 }),
    interfaces := none, enumValues := none, possibleTypes := none, isOneOf := some i.isOneOf }

/-- `ts` (the non-null entries of `__schema.types`) is an introspection rendering of `a`: per kind, the
entries are the renderings of `a`'s definitions in `a`'s order; the `SCALAR` entries whose name is not
built-in are `a`'s custom scalars (built-in ones may be listed or not, anywhere). -/
structure IsIntroOf (a : AS) (ts : List FullType) : Prop where
  scalars : ts.filterM Intro.isCustomScalar = .ok (a.scalars.map introScalar)
  enums : Intro.ofKind ts "ENUM" = a.enums.map introEnum
  ifaces : Intro.ofKind ts "INTERFACE" = a.interfaces.map (introIface a)
  objects : Intro.ofKind ts "OBJECT" = a.objects.map (introObj a)
  unions : Intro.ofKind ts "UNION" = a.unions.map (introUnion a)
  inputs : Intro.ofKind ts "INPUT_OBJECT" = a.inputs.map (introInput a)

/-! ## generic monadic lemmas -/

theorem mapM_ok {α β γ} (l : List α) (h : α → β) (f : β → Outcome γ) (g : α → γ)
    (hf : ∀ x ∈ l, f (h x) = .ok (g x)) : (l.map h).mapM f = .ok (l.map g) := by
  induction l with
  | nil => rfl
  | cons x l ih =>
    have hx := hf x (by simp)
    have hl := ih fun y hy => hf y (by simp [hy])
    simp [List.mapM_cons, hx, hl, bind, Except.bind, pure, Except.pure]

theorem foldlM_filter {α σ} (f : σ → α → Outcome σ) (p : α → Bool) (l : List α) (s : σ)
    (h : ∀ s x, p x = false → f s x = pure s) : l.foldlM f s = (l.filter p).foldlM f s := by
  induction l generalizing s with
  | nil => rfl
  | cons x l ih =>
    cases hp : p x
    · simp [hp, h s x hp, ih]
    · simp only [List.filter_cons, hp, if_true, List.foldlM_cons]
      cases f s x with
      | error e => rfl
      | ok s' => exact ih s'

theorem filterAuxM_ok {α} (f : α → Outcome Bool) (g : α → Bool) (l acc : List α)
    (h : ∀ x ∈ l, f x = .ok (g x)) : List.filterAuxM f l acc = .ok ((l.filter g).reverse ++ acc) := by
  induction l generalizing acc with
  | nil => rfl
  | cons x l ih =>
    have hx := h x (by simp)
    have hl := fun acc => ih acc fun y hy => h y (by simp [hy])
    simp only [List.filterAuxM, hx, bind, Except.bind, hl]
    cases hg : g x <;> simp [hg]

theorem filterM_ok {α} (f : α → Outcome Bool) (g : α → Bool) (l : List α)
    (h : ∀ x ∈ l, f x = .ok (g x)) : l.filterM f = .ok (l.filter g) := by
  simp [List.filterM, filterAuxM_ok f g l [] h, bind, Except.bind, pure, Except.pure]

theorem mapM_ok' {α γ} (l : List α) (f : α → Outcome γ) (g : α → γ)
    (hf : ∀ x ∈ l, f x = .ok (g x)) : l.mapM f = .ok (l.map g) := by
  simpa using mapM_ok l id f g hf

/-! ## lookups in a complete name table -/

theorem findTypeId_ok (s : Schema) (n : String) (h : ∃ id, namesGet n s.names = some id) :
    s.findTypeId n = .ok (tyId s.names n) := by
  obtain ⟨id, h⟩ := h
  simp [Schema.findTypeId, Schema.findType, tyId, h, pure, Except.pure]

theorem resolve_ok (s : Schema) (t : GTy) (h : ∃ id, namesGet t.base s.names = some id) :
    resolveFieldType s t = .ok (ftOf s.names t) := by
  simp [resolveFieldType, findTypeId_ok s _ h, ftOf, bind, Except.bind, pure, Except.pure]

theorem fromJsonType_ok (a : AS) (s : Schema) (t : GTy) (h : ∃ id, namesGet t.base s.names = some id) :
    Intro.fromJsonType s (typeRefOf a t) = .ok (ftOf s.names t) := by
  obtain ⟨id, h⟩ := h
  rw [typeRefOf, (C13.quals_json_eq_sdl s _ t id (a.kindOf_ne _) h).1]
  simp [ftOf, tyId, h]

/-! ## the SDL front-end, pass by pass -/

theorem sdl_noop (p : Nat) (s : Schema) (d : SdlDef) (h : (passOf d == some p) = false) :
    Sdl.ingestDef p s d = pure s := by
  unfold Sdl.ingestDef
  split <;> simp_all [passOf]

theorem sdl_pass (p : Nat) (s : Schema) (doc : SdlDoc) :
    Sdl.ingestPass p s doc = (ofPass doc p).foldlM (Sdl.ingestDef p) s :=
  foldlM_filter _ _ doc s (fun s x h => sdl_noop p s x h)

theorem sdl_scalars (ns : List String) (s : Schema) :
    (ns.map SdlDef.scalar).foldlM (Sdl.ingestDef 0) s =
      .ok { s with scalars := s.scalars ++ ns,
                   names := insAll (pairsFrom .scalar ns s.scalars.length) s.names } := by
  induction ns generalizing s with
  | nil => simp [pure, Except.pure]
  | cons n ns ih =>
    simp only [List.map_cons, List.foldlM_cons, Sdl.ingestDef, Sdl.ingestScalar, Schema.pushScalar,
      bind, Except.bind, pure, Except.pure]
    rw [ih]
    simp

theorem sdl_enums (es : List AEnum) (s : Schema) :
    (es.map sdlEnum).foldlM (Sdl.ingestDef 1) s = .ok { s with enums := s.enums ++ es.map storedEnum } := by
  induction es generalizing s with
  | nil => simp [pure, Except.pure]
  | cons e es ih =>
    simp only [List.map_cons, List.foldlM_cons, sdlEnum, Sdl.ingestDef, bind, Except.bind, pure, Except.pure]
    rw [ih]
    simp [storedEnum]

theorem sdl_unions (us : List AUnion) (s : Schema)
    (h : ∀ u ∈ us, ∀ m ∈ u.members, ∃ id, namesGet m s.names = some id) :
    (us.map sdlUnion).foldlM (Sdl.ingestDef 2) s =
      .ok { s with unions := s.unions ++ us.map (storedUnion s.names) } := by
  induction us generalizing s with
  | nil => simp [pure, Except.pure]
  | cons u us ih =>
    have hu := mapM_ok' u.members s.findTypeId (tyId s.names) fun m hm => findTypeId_ok s m (h u (by simp) m hm)
    simp only [List.map_cons, List.foldlM_cons, sdlUnion, Sdl.ingestDef, hu, bind, Except.bind, pure, Except.pure]
    rw [ih]
    · simp [storedUnion]
    · exact fun u' hu' => h u' (by simp [hu'])

theorem sdl_fields (fs : List AField) (s : Schema) (parent : FieldParent)
    (h : ∀ f ∈ fs, ∃ id, namesGet f.ty.base s.names = some id) :
    Sdl.ingestFields s parent (fs.map sdlField) =
      .ok ({ s with fields := s.fields ++ fs.map (storedField s.names parent) },
           List.range' s.fields.length fs.length) := by
  induction fs generalizing s with
  | nil => simp [Sdl.ingestFields, pure, Except.pure]
  | cons f fs ih =>
    have hf := resolve_ok s f.ty (h f (by simp))
    simp only [List.map_cons, Sdl.ingestFields, sdlField, hf, Schema.pushField, bind, Except.bind, pure, Except.pure]
    rw [ih]
    · simp [storedField, (deprecation_agree f.dep).1, List.range'_succ]
    · exact fun f' hf' => h f' (by simp [hf'])

theorem sdl_ifaces (is : List AIface) (k : Nat) (s : Schema)
    (hid : ∀ p ∈ is.zipIdx k, namesGet p.1.name s.names = some (.interface p.2))
    (hf : ∀ i ∈ is, ∀ f ∈ i.fields, ∃ id, namesGet f.ty.base s.names = some id) :
    (is.map sdlIface).foldlM (Sdl.ingestDef 3) s =
      .ok { s with fields := s.fields ++ ifaceFields s.names k is,
                   interfaces := s.interfaces ++ ifaceStored s.fields.length is } := by
  induction is generalizing s k with
  | nil => simp [ifaceFields, ifaceStored, pure, Except.pure]
  | cons i is ih =>
    have hi : namesGet i.name s.names = some (.interface k) := hid (i, k) (by simp [List.zipIdx_cons])
    have hfs := sdl_fields i.fields s (.interface k) (hf i (by simp))
    simp only [List.map_cons, List.foldlM_cons, sdlIface, Sdl.ingestDef, Schema.findTypeId, Schema.findType, hi,
      TypeId.asInterface?, hfs, bind, Except.bind, pure, Except.pure]
    rw [ih (k + 1)]
    · simp [ifaceFields, ifaceStored]
    · intro p hp; exact hid p (by simp [List.zipIdx_cons, hp])
    · exact fun i' hi' => hf i' (by simp [hi'])

theorem findInterface_ok (s : Schema) (n : String) (h : ∃ i, namesGet n s.names = some (.interface i)) :
    s.findInterface n = .ok (ifaceId s.names n) := by
  obtain ⟨i, h⟩ := h
  simp [Schema.findInterface, Schema.findTypeId, Schema.findType, ifaceId, h, TypeId.asInterface?,
    bind, Except.bind, pure, Except.pure]

theorem sdl_objs (os : List AObj) (k : Nat) (s : Schema)
    (hid : ∀ p ∈ os.zipIdx k, namesGet p.1.name s.names = some (.object p.2))
    (hf : ∀ o ∈ os, ∀ f ∈ o.fields, ∃ id, namesGet f.ty.base s.names = some id)
    (him : ∀ o ∈ os, ∀ n ∈ o.implements, ∃ i, namesGet n s.names = some (.interface i)) :
    (os.map sdlObj).foldlM (Sdl.ingestDef 4) s =
      .ok { s with fields := s.fields ++ objFields s.names k os,
                   objects := s.objects ++ objStored s.names s.fields.length os } := by
  induction os generalizing s k with
  | nil => simp [objFields, objStored, pure, Except.pure]
  | cons o os ih =>
    have ho : namesGet o.name s.names = some (.object k) := hid (o, k) (by simp [List.zipIdx_cons])
    have hfs := sdl_fields o.fields s (.object k) (hf o (by simp))
    have him' := mapM_ok' o.implements
      (Schema.findInterface { s with fields := s.fields ++ o.fields.map (storedField s.names (.object k)) })
      (ifaceId s.names) fun n hn => findInterface_ok _ n (him o (by simp) n hn)
    simp only [List.map_cons, List.foldlM_cons, sdlObj, Sdl.ingestDef, Schema.findTypeId, Schema.findType, ho,
      TypeId.asObject?, hfs, him', bind, Except.bind, pure, Except.pure]
    rw [ih (k + 1)]
    · simp [objFields, objStored]
    · intro p hp; exact hid p (by simp [List.zipIdx_cons, hp])
    · exact fun o' ho' => hf o' (by simp [ho'])
    · exact fun o' ho' => him o' (by simp [ho'])

theorem sdl_inputs (is : List AInput) (s : Schema)
    (hf : ∀ i ∈ is, ∀ f ∈ i.fields, ∃ id, namesGet f.2.base s.names = some id) :
    (is.map sdlInput).foldlM (Sdl.ingestDef 6) s =
      .ok { s with inputs := s.inputs ++ is.map (storedInput s.names) } := by
  induction is generalizing s with
  | nil => simp [pure, Except.pure]
  | cons i is ih =>
    have hfs := mapM_ok' i.fields
      (fun (x : String × GTy) => do let ty ← resolveFieldType s x.2; pure (x.1, ty))
      (fun p => (p.1, ftOf s.names p.2))
      fun p hp => by simp [resolve_ok s p.2 (hf i (by simp) p hp), bind, Except.bind, pure, Except.pure]
    have hone : (if i.isOneOf then ["oneOf"] else []).any (· == "oneOf") = i.isOneOf := by
      cases i.isOneOf <;> simp
    simp only [List.map_cons, List.foldlM_cons, sdlInput, Sdl.ingestDef, hone]
    simp only [bind, Except.bind, pure, Except.pure] at hfs ⊢
    rw [hfs]
    simp only []
    rw [ih]
    · simp [storedInput]
    · exact fun i' hi' => hf i' (by simp [hi'])

theorem filterMap_filter_of {α β} (l : List α) (p : α → Bool) (pick : α → Option β)
    (h : ∀ x, p x = false → pick x = none) : l.filterMap pick = (l.filter p).filterMap pick := by
  induction l with
  | nil => rfl
  | cons x l ih =>
    cases hp : p x
    · simp [h x hp, hp, ih]
    · simp [List.filterMap_cons, hp, ih]

theorem filterMap_pick {β} (doc : SdlDoc) (pick : SdlDef → Option String) (p : Nat) (l : List β)
    (r : β → SdlDef) (nm : β → String)
    (hp : ∀ d, (passOf d == some p) = false → pick d = none)
    (hf : ofPass doc p = l.map r) (hr : ∀ x, pick (r x) = some (nm x)) :
    Sdl.namesOfKind doc pick = l.map nm := by
  unfold Sdl.namesOfKind
  rw [filterMap_filter_of doc _ pick hp]
  unfold ofPass at hf
  rw [hf, List.filterMap_map]
  clear hf
  induction l with
  | nil => rfl
  | cons x l ih => simp [hr x]; simpa using ih

theorem zipIdx_foldl_eq' (mk : Nat → TypeId) (ns : List String) (l : List (String × TypeId)) :
    ns.zipIdx.foldl (fun acc (x : String × Nat) => match x with | (n, i) => namesInsert n (mk i) acc) l =
      insAll (pairsFrom mk ns 0) l := zipIdx_foldl_eq mk ns l

theorem sdl_populate (a : AS) (doc : SdlDoc) (h : IsSdlOf a doc) (s : Schema) :
    Sdl.populateNames s doc =
      { s with names := insAll (pairsFrom .enum a.enumNames 0 ++ pairsFrom .object a.objNames 0 ++
          pairsFrom .interface a.ifaceNames 0 ++ pairsFrom .union a.unionNames 0 ++
          pairsFrom .input a.inputNames 0) s.names } := by
  have e1 : Sdl.namesOfKind doc (fun | .enum n _ => some n | _ => none) = a.enumNames :=
    filterMap_pick doc _ 1 a.enums sdlEnum (·.name) (by intro d; cases d <;> simp [passOf]) h.enums (fun _ => rfl)
  have e2 : Sdl.namesOfKind doc (fun | .object n _ _ => some n | _ => none) = a.objNames :=
    filterMap_pick doc _ 4 a.objects sdlObj (·.name) (by intro d; cases d <;> simp [passOf]) h.objects (fun _ => rfl)
  have e3 : Sdl.namesOfKind doc (fun | .interface n _ => some n | _ => none) = a.ifaceNames :=
    filterMap_pick doc _ 3 a.interfaces sdlIface (·.name) (by intro d; cases d <;> simp [passOf]) h.ifaces (fun _ => rfl)
  have e4 : Sdl.namesOfKind doc (fun | .union n _ => some n | _ => none) = a.unionNames :=
    filterMap_pick doc _ 2 a.unions sdlUnion (·.name) (by intro d; cases d <;> simp [passOf]) h.unions (fun _ => rfl)
  have e5 : Sdl.namesOfKind doc (fun | .input n _ _ => some n | _ => none) = a.inputNames :=
    filterMap_pick doc _ 6 a.inputs sdlInput (·.name) (by intro d; cases d <;> simp [passOf]) h.inputs (fun _ => rfl)
  unfold Sdl.populateNames
  simp only [zipIdx_foldl_eq', insAll_append]
  rw [← e1, ← e2, ← e3, ← e4, ← e5]
  rfl

/-! ## the name tables of the two front-ends are `a.names` -/

theorem schema_new :
    Schema.new = { scalars := Schema.defaultScalars, names := insAll (pairsFrom .scalar Schema.defaultScalars 0) [] } := by
  decide

/-- SDL order: built-ins, enums, objects, interfaces, unions, inputs, custom scalars -/
theorem sdl_names (a : AS) (hn : a.known.Nodup) :
    insAll (pairsFrom .scalar a.scalars 5)
      (insAll (pairsFrom .enum a.enumNames 0 ++ pairsFrom .object a.objNames 0 ++ pairsFrom .interface a.ifaceNames 0 ++
          pairsFrom .union a.unionNames 0 ++ pairsFrom .input a.inputNames 0)
        (insAll (pairsFrom .scalar Schema.defaultScalars 0) [])) = a.names := by
  rw [← insAll_append, ← insAll_append, AS.names]
  symm
  apply insAll_perm _ _ _ (by rw [AS.pairs_keys]; exact hn)
  rw [List.perm_iff_count]
  intro x
  simp only [AS.pairs, List.count_append]
  omega

/-- introspection order: built-ins, unions, interfaces, objects, inputs, custom scalars, enums -/
theorem intro_names (a : AS) (hn : a.known.Nodup) :
    insAll (pairsFrom .enum a.enumNames 0) (insAll (pairsFrom .scalar a.scalars 5)
      (insAll (pairsFrom .input a.inputNames 0) (insAll (pairsFrom .object a.objNames 0)
        (insAll (pairsFrom .interface a.ifaceNames 0) (insAll (pairsFrom .union a.unionNames 0)
          (insAll (pairsFrom .scalar Schema.defaultScalars 0) [])))))) = a.names := by
  simp only [← insAll_append, AS.names]
  symm
  apply insAll_perm _ _ _ (by rw [AS.pairs_keys]; exact hn)
  rw [List.perm_iff_count]
  intro x
  simp only [AS.pairs, List.count_append]
  omega

theorem mem_pairsFrom (mk : Nat → TypeId) (ns : List String) (k : Nat) (n : String) (id : TypeId)
    (h : (n, id) ∈ pairsFrom mk ns k) : n ∈ ns ∧ ∃ i, id = mk i := by
  induction ns generalizing k with
  | nil => cases h
  | cons m ns ih =>
    rw [pairsFrom_cons, List.mem_cons] at h
    rcases h with h | h
    · cases h; exact ⟨by simp, k, rfl⟩
    · obtain ⟨h1, h2⟩ := ih _ h
      exact ⟨by simp [h1], h2⟩

/-- what the passes look up in the complete name table -/
structure Lookups (a : AS) (N : List (String × TypeId)) : Prop where
  known : ∀ n ∈ a.known, ∃ id, namesGet n N = some id
  iface : ∀ p ∈ a.interfaces.zipIdx 0, namesGet p.1.name N = some (.interface p.2)
  obj : ∀ p ∈ a.objects.zipIdx 0, namesGet p.1.name N = some (.object p.2)
  impl : ∀ n ∈ a.ifaceNames, ∃ i, namesGet n N = some (.interface i)
  objOnly : ∀ n i, namesGet n N = some (.object i) → n ∈ a.objNames

theorem lookups (a : AS) (hn : a.known.Nodup) : Lookups a a.names where
  known := fun _ h => a.get_of_known hn h
  iface := by
    intro p hp
    apply a.get_of_mem_pairs hn
    have : (p.1.name, TypeId.interface p.2) ∈ pairsFrom .interface a.ifaceNames 0 := by
      rw [AS.ifaceNames, pairsFrom_map]; exact List.mem_map.2 ⟨p, hp, rfl⟩
    simp [AS.pairs, this]
  obj := by
    intro p hp
    apply a.get_of_mem_pairs hn
    have : (p.1.name, TypeId.object p.2) ∈ pairsFrom .object a.objNames 0 := by
      rw [AS.objNames, pairsFrom_map]; exact List.mem_map.2 ⟨p, hp, rfl⟩
    simp [AS.pairs, this]
  impl := by
    intro n h
    obtain ⟨i, hi⟩ := mem_pairsFrom_of_mem .interface _ 0 n h
    exact ⟨i, a.get_of_mem_pairs hn (by simp [AS.pairs, hi])⟩
  objOnly := by
    intro n i h
    have := a.mem_pairs_of_get h
    simp only [AS.pairs, List.mem_append] at this
    rcases this with (((((h | h) | h) | h) | h) | h) | h <;> have h' := mem_pairsFrom _ _ _ _ _ h
    all_goals first
      | exact h'.1
      | (obtain ⟨_, j, hj⟩ := h'; cases hj)

theorem default_root (a : AS) (N : List (String × TypeId)) (L : Lookups a N) (n : String) :
    rootId N (some n) = rootId N (a.defaultRoot n) := by
  unfold AS.defaultRoot
  split
  · rfl
  · next hno =>
    simp only [rootId, Option.bind]
    cases hg : namesGet n N with
    | none => rfl
    | some id =>
      cases id <;> simp [TypeId.asObject?]
      exact absurd (L.objOnly _ _ hg) hno

/-! ## assembly, SDL side -/

theorem sdl_rootOf (s : Schema) (r : Option String) : Sdl.rootOf s r = rootId s.names r := rfl

/-- **the SDL front-end computes `a.toSchema`** on every SDL rendering of a well-formed `a` -/
theorem sdl_spec (a : AS) (doc : SdlDoc) (hw : WfAS a) (hd : IsSdlOf a doc) :
    Sdl.fromSdl doc = .ok a.toSchema := by
  obtain ⟨hn, hif, hof, him, hun, hinp⟩ := hw
  have L := lookups a hn
  unfold Sdl.fromSdl
  generalize hblk : List.findSome? _ doc = blk
  replace hblk : blk = schemaBlock doc := hblk.symm.trans rfl
  simp only [sdl_pass, hd.scalars, hd.enums, hd.unions, hd.ifaces, hd.objects, hd.noExt, hd.inputs,
    sdl_populate a doc hd, List.foldlM_nil, bind, Except.bind, pure, Except.pure]
  -- names + custom scalars
  rw [sdl_scalars, schema_new]
  simp only [List.length_cons, List.length_nil, Schema.defaultScalars, Nat.zero_add, Nat.reduceAdd]
  rw [← Schema.defaultScalars.eq_def, sdl_names a hn]
  have hfld : ∀ t : GTy, t.base ∈ a.known → ∃ id, namesGet t.base a.names = some id := fun t h => L.known _ h
  rw [sdl_enums]; simp only []
  rw [sdl_unions _ _ ?hu]; simp only []
  rw [sdl_ifaces _ 0 _ ?hi1 ?hi2]; simp only []
  rw [sdl_objs _ 0 _ ?ho1 ?ho2 ?ho3]; simp only []
  rw [sdl_inputs _ _ ?hin]; simp only []
  case hu => exact fun u hu m hm => L.known m (hun u hu m hm)
  case hi1 => exact L.iface
  case hi2 => exact fun i hi f hf => hfld _ (hif i hi f hf)
  case ho1 => exact L.obj
  case ho2 => exact fun o ho f hf => hfld _ (hof o ho f hf)
  case ho3 => exact fun o ho n hn' => L.impl n (him o ho n hn')
  case hin => exact fun i hi f hf => hfld _ (hinp i hi f hf)
  simp only [sdl_rootOf, List.nil_append, List.length_nil]
  rcases hd.roots with hr | ⟨hr, hq, hm, hs⟩
  · rw [hblk, hr]; rfl
  · rw [hblk, hr]
    simp only [default_root a a.names L, ← hq, ← hm, ← hs]
    rfl

/-! ## the introspection front-end, step by step -/

theorem intro_expectNames {α} (l : List α) (r : α → FullType) (nm : α → String) (what : String)
    (h : ∀ x, (r x).name = some (nm x)) : (l.map r).mapM (Intro.expectName what) = .ok (l.map nm) :=
  mapM_ok l r _ nm fun x _ => by simp [Intro.expectName, h x, pure, Except.pure]

theorem intro_buildNames (a : AS) (ts : List FullType) (h : IsIntroOf a ts) (s : Schema) :
    Intro.buildNames s ts =
      .ok { s with names := insAll (pairsFrom .input a.inputNames 0) (insAll (pairsFrom .object a.objNames 0)
        (insAll (pairsFrom .interface a.ifaceNames 0) (insAll (pairsFrom .union a.unionNames 0) s.names))) } := by
  unfold Intro.buildNames
  simp only [h.unions, h.ifaces, h.objects, h.inputs,
    intro_expectNames a.unions (introUnion a) (·.name) _ (fun _ => rfl),
    intro_expectNames a.interfaces (introIface a) (·.name) _ (fun _ => rfl),
    intro_expectNames a.objects (introObj a) (·.name) _ (fun _ => rfl),
    intro_expectNames a.inputs (introInput a) (·.name) _ (fun _ => rfl),
    zipIdx_foldl_eq', bind, Except.bind, pure, Except.pure]
  rfl

theorem intro_scalars (ns : List String) (s : Schema) :
    (ns.map introScalar).foldlM Intro.ingestScalar s =
      .ok { s with scalars := s.scalars ++ ns,
                   names := insAll (pairsFrom .scalar ns s.scalars.length) s.names } := by
  induction ns generalizing s with
  | nil => simp [pure, Except.pure]
  | cons n ns ih =>
    simp only [List.map_cons, List.foldlM_cons, Intro.ingestScalar, Intro.expectName, introScalar,
      Schema.pushScalar, bind, Except.bind, pure, Except.pure]
    rw [ih]
    simp

theorem intro_enums (es : List AEnum) (s : Schema) :
    (es.map introEnum).foldlM Intro.ingestEnum s =
      .ok { s with enums := s.enums ++ es.map storedEnum,
                   names := insAll (pairsFrom .enum (es.map (·.name)) s.enums.length) s.names } := by
  induction es generalizing s with
  | nil => simp [pure, Except.pure]
  | cons e es ih =>
    simp only [List.map_cons, List.foldlM_cons, Intro.ingestEnum, Intro.expectName, introEnum,
      bind, Except.bind, pure, Except.pure]
    rw [mapM_ok e.values _ _ id ?hv]
    case hv => exact fun _ _ => rfl
    simp only [List.map_id]
    rw [ih]
    simp [storedEnum]

theorem intro_fields (a : AS) (fs : List AField) (s : Schema) (parent : FieldParent)
    (h : ∀ f ∈ fs, ∃ id, namesGet f.ty.base s.names = some id) :
    Intro.ingestFields s parent (fs.map (introField a)) =
      .ok ({ s with fields := s.fields ++ fs.map (storedField s.names parent) },
           List.range' s.fields.length fs.length) := by
  induction fs generalizing s with
  | nil => simp [Intro.ingestFields, pure, Except.pure]
  | cons f fs ih =>
    have hf := fromJsonType_ok a s f.ty (h f (by simp))
    simp only [List.map_cons, Intro.ingestFields, introField, hf, Schema.pushField, bind, Except.bind, pure,
      Except.pure, (deprecation_agree f.dep).2]
    rw [ih]
    · simp [storedField, List.range'_succ]
    · exact fun f' hf' => h f' (by simp [hf'])

theorem intro_ifaces (a : AS) (is : List AIface) (k : Nat) (s : Schema)
    (hid : ∀ p ∈ is.zipIdx k, namesGet p.1.name s.names = some (.interface p.2))
    (hf : ∀ i ∈ is, ∀ f ∈ i.fields, ∃ id, namesGet f.ty.base s.names = some id) :
    (is.map (introIface a)).foldlM Intro.ingestInterface s =
      .ok { s with fields := s.fields ++ ifaceFields s.names k is,
                   interfaces := s.interfaces ++ ifaceStored s.fields.length is } := by
  induction is generalizing s k with
  | nil => simp [ifaceFields, ifaceStored, pure, Except.pure]
  | cons i is ih =>
    have hi : namesGet i.name s.names = some (.interface k) := hid (i, k) (by simp [List.zipIdx_cons])
    have hfs := intro_fields a i.fields s (.interface k) (hf i (by simp))
    simp only [List.map_cons, List.foldlM_cons, introIface, Intro.ingestInterface, Intro.expectName,
      Schema.findTypeId, Schema.findType, hi, TypeId.asInterface?, hfs, bind, Except.bind, pure, Except.pure]
    rw [ih (k + 1)]
    · simp [ifaceFields, ifaceStored]
    · intro p hp; exact hid p (by simp [List.zipIdx_cons, hp])
    · exact fun i' hi' => hf i' (by simp [hi'])

theorem intro_objs (a : AS) (os : List AObj) (k : Nat) (s : Schema)
    (hid : ∀ p ∈ os.zipIdx k, namesGet p.1.name s.names = some (.object p.2))
    (hf : ∀ o ∈ os, ∀ f ∈ o.fields, ∃ id, namesGet f.ty.base s.names = some id)
    (him : ∀ o ∈ os, ∀ n ∈ o.implements, ∃ i, namesGet n s.names = some (.interface i)) :
    (os.map (introObj a)).foldlM Intro.ingestObject s =
      .ok { s with fields := s.fields ++ objFields s.names k os,
                   objects := s.objects ++ objStored s.names s.fields.length os } := by
  induction os generalizing s k with
  | nil => simp [objFields, objStored, pure, Except.pure]
  | cons o os ih =>
    have ho : namesGet o.name s.names = some (.object k) := hid (o, k) (by simp [List.zipIdx_cons])
    have hfs := intro_fields a o.fields s (.object k) (hf o (by simp))
    simp only [List.map_cons, List.foldlM_cons, introObj, Intro.ingestObject, Intro.expectName,
      Schema.findTypeId, Schema.findType, ho, TypeId.asObject?, hfs, bind, Except.bind, pure, Except.pure]
    rw [mapM_ok o.implements _ _ (ifaceId s.names) ?him']
    case him' =>
      intro n hn
      obtain ⟨i, hi⟩ := him o (by simp) n hn
      simp [namedRef, TypeRef.name, ifaceId, hi, TypeId.asInterface?]
    simp only []
    rw [ih (k + 1)]
    · simp [objFields, objStored]
    · intro p hp; exact hid p (by simp [List.zipIdx_cons, hp])
    · exact fun o' ho' => hf o' (by simp [ho'])
    · exact fun o' ho' => him o' (by simp [ho'])

theorem intro_unions (a : AS) (us : List AUnion) (s : Schema)
    (h : ∀ u ∈ us, ∀ m ∈ u.members, ∃ id, namesGet m s.names = some id) :
    (us.map (introUnion a)).foldlM Intro.ingestUnion s =
      .ok { s with unions := s.unions ++ us.map (storedUnion s.names) } := by
  induction us generalizing s with
  | nil => simp [pure, Except.pure]
  | cons u us ih =>
    simp only [List.map_cons, List.foldlM_cons, introUnion, Intro.ingestUnion, Intro.expectName,
      bind, Except.bind, pure, Except.pure]
    rw [mapM_ok u.members _ _ (tyId s.names) ?hu]
    case hu =>
      intro m hm
      simp [namedRef, TypeRef.name, findTypeId_ok s m (h u (by simp) m hm)]
    simp only []
    rw [ih]
    · simp [storedUnion]
    · exact fun u' hu' => h u' (by simp [hu'])

theorem intro_inputs (a : AS) (is : List AInput) (s : Schema)
    (hf : ∀ i ∈ is, ∀ f ∈ i.fields, ∃ id, namesGet f.2.base s.names = some id) :
    (is.map (introInput a)).foldlM (Intro.ingestInput true) s =
      .ok { s with inputs := s.inputs ++ is.map (storedInput s.names) } := by
  induction is generalizing s with
  | nil => simp [pure, Except.pure]
  | cons i is ih =>
    have hfs := mapM_ok i.fields (fun p => ({ name := p.1, ty := typeRefOf a p.2 } : IntroInputValue))
      (fun (f : IntroInputValue) => do let ty ← Intro.fromJsonType s f.ty; pure (f.name, ty))
      (fun p => (p.1, ftOf s.names p.2))
      fun p hp => by simp [fromJsonType_ok a s p.2 (hf i (by simp) p hp), bind, Except.bind, pure, Except.pure]
    simp only [List.map_cons, List.foldlM_cons, introInput, Intro.ingestInput, Intro.expectName]
    simp only [bind, Except.bind, pure, Except.pure] at hfs ⊢
    rw [hfs]
    simp only []
    rw [ih]
    · cases hone : i.isOneOf <;> simp [storedInput, hone]
    · exact fun i' hi' => hf i' (by simp [hi'])

/-! ## assembly, introspection side -/

theorem intro_rootOf (s : Schema) (r : Option String) : Intro.rootOf s (r.map some) = rootId s.names r := by
  cases r <;> rfl

/-- the `__schema` value with the given `types` array and `a`'s roots -/
def introSchemaOf (a : AS) (l : List (Option FullType)) : IntroSchema :=
  { queryType := a.query.map some, mutationType := a.mutation.map some,
    subscriptionType := a.subscription.map some, types := some l }

/-- **the introspection front-end computes `a.toSchema`** on every introspection rendering of a
well-formed `a` (`l` may contain `null` entries) -/
theorem intro_spec (a : AS) (l : List (Option FullType)) (hw : WfAS a) (hi : IsIntroOf a (l.filterMap id)) :
    Intro.fromIntro true (some (introSchemaOf a l)) = .ok a.toSchema := by
  obtain ⟨hn, hif, hof, him, hun, hinp⟩ := hw
  have L := lookups a hn
  have hfld : ∀ t : GTy, t.base ∈ a.known → ∃ id, namesGet t.base a.names = some id := fun t h => L.known _ h
  unfold Intro.fromIntro
  simp only [introSchemaOf, Intro.typesOf, intro_buildNames a _ hi, hi.scalars, hi.enums, hi.ifaces, hi.objects,
    hi.unions, hi.inputs, bind, Except.bind, pure, Except.pure]
  rw [intro_scalars, schema_new]
  simp only [List.length_cons, List.length_nil, Schema.defaultScalars, Nat.zero_add, Nat.reduceAdd]
  rw [← Schema.defaultScalars.eq_def, intro_enums]
  simp only [List.length_nil]
  rw [← AS.enumNames.eq_def, intro_names a hn]
  rw [intro_ifaces a _ 0 _ ?hi1 ?hi2]; simp only []
  rw [intro_objs a _ 0 _ ?ho1 ?ho2 ?ho3]; simp only []
  rw [intro_unions a _ _ ?hu]; simp only []
  rw [intro_inputs a _ _ ?hin]; simp only []
  case hu => exact fun u hu m hm => L.known m (hun u hu m hm)
  case hi1 => exact L.iface
  case hi2 => exact fun i hi f hf => hfld _ (hif i hi f hf)
  case ho1 => exact L.obj
  case ho2 => exact fun o ho f hf => hfld _ (hof o ho f hf)
  case ho3 => exact fun o ho n hn' => L.impl n (him o ho n hn')
  case hin => exact fun i hi f hf => hfld _ (hinp i hi f hf)
  simp only [intro_rootOf, List.nil_append, List.length_nil]
  rfl

/-! ## whole-schema agreement -/

/-- **C07, general form.**  For every well-formed abstract schema, *every* SDL rendering and *every*
introspection rendering (kinds interleaved in any way) are converted to literally the same value. -/
theorem frontends_equal_of_renderings (a : AS) (doc : SdlDoc) (l : List (Option FullType))
    (hw : WfAS a) (hd : IsSdlOf a doc) (hi : IsIntroOf a (l.filterMap id)) :
    Sdl.fromSdl doc = Intro.fromIntro true (some (introSchemaOf a l)) :=
  (sdl_spec a doc hw hd).trans (intro_spec a l hw hi).symm

/-! ### one concrete rendering each -/

/-- SDL rendering: optional `schema` block, then scalars, enums, unions, interfaces, objects, inputs -/
def sdlOf (explicitRoots : Bool) (a : AS) : SdlDoc :=
  (if explicitRoots then [SdlDef.schemaDef a.query a.mutation a.subscription] else []) ++
  a.scalars.map .scalar ++ a.enums.map sdlEnum ++ a.unions.map sdlUnion ++ a.interfaces.map sdlIface ++
  a.objects.map sdlObj ++ a.inputs.map sdlInput

/-- `__schema.types`: the listed built-in scalars `bs`, then custom scalars, enums, interfaces, objects,
unions, inputs -/
def introTypes (bs : List String) (a : AS) : List FullType :=
  bs.map introScalar ++ a.scalars.map introScalar ++ a.enums.map introEnum ++ a.interfaces.map (introIface a) ++
  a.objects.map (introObj a) ++ a.unions.map (introUnion a) ++ a.inputs.map (introInput a)

/-- introspection rendering (`bs` = the built-in scalars the server lists) -/
def introOf (bs : List String) (a : AS) : IntroSchema := introSchemaOf a ((introTypes bs a).map some)

theorem filter_map_const {α β} (l : List α) (r : α → β) (P : β → Bool) (b : Bool) (h : ∀ x ∈ l, P (r x) = b) :
    (l.map r).filter P = if b then l.map r else [] := by
  cases b
  · simp only [Bool.false_eq_true, if_false, List.filter_eq_nil_iff, List.mem_map]
    rintro _ ⟨x, hx, rfl⟩; simp [h x hx]
  · simp only [if_true, List.filter_eq_self, List.mem_map]
    rintro _ ⟨x, hx, rfl⟩; exact h x hx

theorem isSdlOf_sdlOf (a : AS) (ex : Bool) (hex : ex = true ∨ a.DefaultRoots) : IsSdlOf a (sdlOf ex a) := by
  have hpass : ∀ p, ofPass (sdlOf ex a) p =
      (if (0 == p) = true then a.scalars.map .scalar else []) ++ (if (1 == p) = true then a.enums.map sdlEnum else []) ++
      (if (2 == p) = true then a.unions.map sdlUnion else []) ++ (if (3 == p) = true then a.interfaces.map sdlIface else []) ++
      (if (4 == p) = true then a.objects.map sdlObj else []) ++ (if (6 == p) = true then a.inputs.map sdlInput else []) := by
    intro p
    have h0 : ofPass (if ex then [SdlDef.schemaDef a.query a.mutation a.subscription] else []) p = [] := by
      cases ex <;> simp [ofPass, passOf]
    simp only [ofPass, sdlOf, List.filter_append] at h0 ⊢
    rw [h0, filter_map_const _ _ _ (0 == p) (fun _ _ => by simp [passOf]),
      filter_map_const _ sdlEnum _ (1 == p) (fun _ _ => by simp [passOf, sdlEnum]),
      filter_map_const _ sdlUnion _ (2 == p) (fun _ _ => by simp [passOf, sdlUnion]),
      filter_map_const _ sdlIface _ (3 == p) (fun _ _ => by simp [passOf, sdlIface]),
      filter_map_const _ sdlObj _ (4 == p) (fun _ _ => by simp [passOf, sdlObj]),
      filter_map_const _ sdlInput _ (6 == p) (fun _ _ => by simp [passOf, sdlInput])]
    simp
  refine ⟨by simp [hpass], by simp [hpass], by simp [hpass], by simp [hpass], by simp [hpass], by simp [hpass],
    by simp [hpass], ?_⟩
  cases ex
  · right
    refine ⟨?_, by simpa using hex⟩
    simp only [schemaBlock, List.findSome?_eq_none_iff, sdlOf, Bool.false_eq_true, if_false, List.nil_append,
      List.mem_append, List.mem_map]
    rintro d (((((⟨x, _, rfl⟩ | ⟨x, _, rfl⟩) | ⟨x, _, rfl⟩) | ⟨x, _, rfl⟩) | ⟨x, _, rfl⟩) | ⟨x, _, rfl⟩) <;> rfl
  · left; simp [schemaBlock, sdlOf]

/-- the pure form of `isCustomScalar` on entries that have a name -/
def customScalar (t : FullType) : Bool :=
  t.kind == some "SCALAR" && match t.name with
    | some n => !Schema.defaultScalars.contains n
    | none => false

theorem isCustomScalar_ok (t : FullType) (n : String) (h : t.name = some n) :
    Intro.isCustomScalar t = .ok (customScalar t) := by
  unfold Intro.isCustomScalar customScalar
  split <;> simp_all [pure, Except.pure]

theorem filterMap_id_map_some {α} (l : List α) : (l.map some).filterMap id = l := by
  induction l with
  | nil => rfl
  | cons x l ih => simp

theorem isIntroOf_introTypes (a : AS) (bs : List String) (hn : a.known.Nodup)
    (hbs : ∀ b ∈ bs, b ∈ Schema.defaultScalars) : IsIntroOf a (introTypes bs a) := by
  have hcustom : ∀ n ∈ a.scalars, n ∉ Schema.defaultScalars := by
    intro n hn' hd
    simp only [AS.known, List.append_assoc] at hn
    exact (List.nodup_append.1 hn).2.2 n hd n (by simp [hn']) rfl
  have hkind : ∀ k, Intro.ofKind (introTypes bs a) k =
      (if ("SCALAR" == k) = true then bs.map introScalar ++ a.scalars.map introScalar else []) ++
      (if ("ENUM" == k) = true then a.enums.map introEnum else []) ++
      (if ("INTERFACE" == k) = true then a.interfaces.map (introIface a) else []) ++
      (if ("OBJECT" == k) = true then a.objects.map (introObj a) else []) ++
      (if ("UNION" == k) = true then a.unions.map (introUnion a) else []) ++
      (if ("INPUT_OBJECT" == k) = true then a.inputs.map (introInput a) else []) := by
    intro k
    simp only [Intro.ofKind, introTypes, List.filter_append]
    rw [filter_map_const bs introScalar _ ("SCALAR" == k) (fun _ _ => by simp [introScalar]),
      filter_map_const a.scalars introScalar _ ("SCALAR" == k) (fun _ _ => by simp [introScalar]),
      filter_map_const _ introEnum _ ("ENUM" == k) (fun _ _ => by simp [introEnum]),
      filter_map_const _ (introIface a) _ ("INTERFACE" == k) (fun _ _ => by simp [introIface]),
      filter_map_const _ (introObj a) _ ("OBJECT" == k) (fun _ _ => by simp [introObj]),
      filter_map_const _ (introUnion a) _ ("UNION" == k) (fun _ _ => by simp [introUnion]),
      filter_map_const _ (introInput a) _ ("INPUT_OBJECT" == k) (fun _ _ => by simp [introInput])]
    cases "SCALAR" == k <;> simp
  refine ⟨?_, by simp [hkind], by simp [hkind], by simp [hkind], by simp [hkind], by simp [hkind]⟩
  have hname : ∀ t ∈ introTypes bs a, Intro.isCustomScalar t = .ok (customScalar t) := by
    intro t ht
    simp only [introTypes, List.mem_append, List.mem_map] at ht
    rcases ht with (((((⟨x, _, rfl⟩ | ⟨x, _, rfl⟩) | ⟨x, _, rfl⟩) | ⟨x, _, rfl⟩) | ⟨x, _, rfl⟩) | ⟨x, _, rfl⟩) |
      ⟨x, _, rfl⟩ <;> exact isCustomScalar_ok _ _ rfl
  rw [filterM_ok _ _ _ hname]
  simp only [introTypes, List.filter_append]
  rw [filter_map_const bs introScalar _ false (fun b hb => by
        have := hbs b hb
        simp [customScalar, introScalar, this]),
    filter_map_const a.scalars introScalar _ true (fun n hn' => by
        have := hcustom n hn'
        simp [customScalar, introScalar, this]),
    filter_map_const _ introEnum _ false (fun _ _ => by simp [customScalar, introEnum]),
    filter_map_const _ (introIface a) _ false (fun _ _ => by simp [customScalar, introIface]),
    filter_map_const _ (introObj a) _ false (fun _ _ => by simp [customScalar, introObj]),
    filter_map_const _ (introUnion a) _ false (fun _ _ => by simp [customScalar, introUnion]),
    filter_map_const _ (introInput a) _ false (fun _ _ => by simp [customScalar, introInput])]
  simp

/-- **C07, whole-schema agreement** (`frontends_equal`).  For every well-formed abstract schema `a`
(without `extend type`), the SDL front-end on the SDL rendering and the introspection front-end on the
introspection rendering return literally the same `Outcome Schema`.
Parameters of the renderings: `ex` — the SDL has an explicit `schema { … }` block (it may be omitted when the
roots are the default ones); `bs` — the built-in scalars listed among `__schema.types`. -/
theorem frontends_equal (a : AS) (ex : Bool) (bs : List String) (hw : WfAS a)
    (hex : ex = true ∨ a.DefaultRoots) (hbs : ∀ b ∈ bs, b ∈ Schema.defaultScalars) :
    Sdl.fromSdl (sdlOf ex a) = Intro.fromIntro true (some (introOf bs a)) :=
  frontends_equal_of_renderings a _ _ hw (isSdlOf_sdlOf a ex hex)
    (by rw [filterMap_id_map_some]; exact isIntroOf_introTypes a bs hw.1 hbs)

/-- the closed form of that common value -/
theorem frontends_value (a : AS) (ex : Bool) (bs : List String) (hw : WfAS a)
    (hex : ex = true ∨ a.DefaultRoots) (hbs : ∀ b ∈ bs, b ∈ Schema.defaultScalars) :
    Sdl.fromSdl (sdlOf ex a) = .ok a.toSchema ∧ Intro.fromIntro true (some (introOf bs a)) = .ok a.toSchema :=
  ⟨sdl_spec a _ hw (isSdlOf_sdlOf a ex hex),
   intro_spec a _ hw (by rw [filterMap_id_map_some]; exact isIntroOf_introTypes a bs hw.1 hbs)⟩

/-- the statement in its plainest form: explicit `schema` block, all five built-in scalars listed -/
theorem frontends_equal' (a : AS) (hw : WfAS a) :
    Sdl.fromSdl (sdlOf true a) = Intro.fromIntro true (some (introOf Schema.defaultScalars a)) :=
  frontends_equal a true _ hw (.inl rfl) (fun _ h => h)

/-! ## a concrete instance

An interface with two implementors, a union, an enum, a custom scalar, a `@oneOf` input, a recursive
input, deprecated fields (with and without reason), explicit non-default roots. -/

def exCharacterFields : List AField :=
  [⟨"id", .nonNull (.named "ID"), none⟩, ⟨"name", .named "String", none⟩,
   ⟨"friends", .list (.named "Character"), some (some "use friendsConnection")⟩]

def exAS : AS :=
  { scalars := ["DateTime"]
    enums := [⟨"Episode", ["NEWHOPE", "EMPIRE", "JEDI"]⟩]
    interfaces := [⟨"Character", exCharacterFields⟩]
    objects :=
      [⟨"Human", ["Character"],
          exCharacterFields ++ [⟨"height", .named "Float", some none⟩, ⟨"born", .named "DateTime", none⟩]⟩,
       ⟨"Droid", ["Character"],
          exCharacterFields ++ [⟨"appearsIn", .nonNull (.list (.nonNull (.named "Episode"))), none⟩]⟩,
       ⟨"QueryRoot", [], [⟨"hero", .named "Character", none⟩,
                          ⟨"search", .nonNull (.list (.nonNull (.named "SearchResult"))), none⟩]⟩,
       ⟨"MutationRoot", [], [⟨"rate", .named "Episode", none⟩]⟩]
    unions := [⟨"SearchResult", ["Human", "Droid"]⟩]
    inputs := [⟨"ById", true, [("id", .named "ID"), ("name", .named "String")]⟩,
               ⟨"ReviewInput", false, [("stars", .nonNull (.named "Int")), ("episode", .named "Episode"),
                                       ("by", .named "ById"), ("more", .list (.nonNull (.named "ReviewInput")))]⟩]
    query := some "QueryRoot", mutation := some "MutationRoot", subscription := none }

/-- the value both front-ends must produce for `exAS`, written out -/
def exSchema : Schema :=
  { objects := [{ name := "Human", fields := [3, 4, 5, 6, 7], implements := [0] },
                { name := "Droid", fields := [8, 9, 10, 11], implements := [0] },
                { name := "QueryRoot", fields := [12, 13], implements := [] },
                { name := "MutationRoot", fields := [14], implements := [] }],
    fields := [{ name := "id", ty := { id := .scalar 0, quals := [.required] }, parent := .interface 0, deprecation := none },
               { name := "name", ty := { id := .scalar 1, quals := [] }, parent := .interface 0, deprecation := none },
               { name := "friends", ty := { id := .interface 0, quals := [.list] }, parent := .interface 0,
                 deprecation := some (some "use friendsConnection") },
               { name := "id", ty := { id := .scalar 0, quals := [.required] }, parent := .object 0, deprecation := none },
               { name := "name", ty := { id := .scalar 1, quals := [] }, parent := .object 0, deprecation := none },
               { name := "friends", ty := { id := .interface 0, quals := [.list] }, parent := .object 0,
                 deprecation := some (some "use friendsConnection") },
               { name := "height", ty := { id := .scalar 3, quals := [] }, parent := .object 0, deprecation := some none },
               { name := "born", ty := { id := .scalar 5, quals := [] }, parent := .object 0, deprecation := none },
               { name := "id", ty := { id := .scalar 0, quals := [.required] }, parent := .object 1, deprecation := none },
               { name := "name", ty := { id := .scalar 1, quals := [] }, parent := .object 1, deprecation := none },
               { name := "friends", ty := { id := .interface 0, quals := [.list] }, parent := .object 1,
                 deprecation := some (some "use friendsConnection") },
               { name := "appearsIn", ty := { id := .enum 0, quals := [.required, .list, .required] },
                 parent := .object 1, deprecation := none },
               { name := "hero", ty := { id := .interface 0, quals := [] }, parent := .object 2, deprecation := none },
               { name := "search", ty := { id := .union 0, quals := [.required, .list, .required] },
                 parent := .object 2, deprecation := none },
               { name := "rate", ty := { id := .enum 0, quals := [] }, parent := .object 3, deprecation := none }],
    interfaces := [{ name := "Character", fields := [0, 1, 2] }],
    unions := [{ name := "SearchResult", variants := [.object 0, .object 1] }],
    scalars := ["ID", "String", "Int", "Float", "Boolean", "DateTime"],
    enums := [{ name := "Episode", variants := ["NEWHOPE", "EMPIRE", "JEDI"] }],
    inputs := [{ name := "ById",
                 fields := [("id", { id := .scalar 0, quals := [] }), ("name", { id := .scalar 1, quals := [] })],
                 isOneOf := true },
               { name := "ReviewInput",
                 fields := [("stars", { id := .scalar 2, quals := [.required] }),
                            ("episode", { id := .enum 0, quals := [] }), ("by", { id := .input 0, quals := [] }),
                            ("more", { id := .input 1, quals := [.list, .required] })],
                 isOneOf := false }],
    names := [("Boolean", .scalar 4), ("ById", .input 0), ("Character", .interface 0), ("DateTime", .scalar 5),
              ("Droid", .object 1), ("Episode", .enum 0), ("Float", .scalar 3), ("Human", .object 0),
              ("ID", .scalar 0), ("Int", .scalar 2), ("MutationRoot", .object 3), ("QueryRoot", .object 2),
              ("ReviewInput", .input 1), ("SearchResult", .union 0), ("String", .scalar 1)],
    queryType := some 2, mutationType := some 3, subscriptionType := none }

example : WfAS exAS := by decide
/-- both sides *evaluate* (kernel computation, independent of the theorems) to the same value … -/
example : (Sdl.fromSdl (sdlOf true exAS)).toOption = some exSchema := by decide
example : (Intro.fromIntro true (some (introOf ["ID", "Int"] exAS))).toOption = some exSchema := by decide
/-- … which is the closed form, and the theorem applies -/
example : exAS.toSchema = exSchema := by decide
example : Sdl.fromSdl (sdlOf true exAS) = Intro.fromIntro true (some (introOf ["ID", "Int"] exAS)) :=
  frontends_equal exAS true _ (by decide) (.inl rfl) (by decide)

/-- the same abstract schema rendered with the kinds interleaved: the objects first, the `schema` block in
the middle, a directive definition (`other`) in between; and an introspection list in yet another order,
with built-in scalars, a `null` entry and an entry of unknown kind in between -/
def exDocShuffled : SdlDoc :=
  (exAS.objects.map sdlObj).take 2 ++ [.other] ++ exAS.inputs.map sdlInput ++
  [SdlDef.schemaDef (some "QueryRoot") (some "MutationRoot") none] ++ exAS.interfaces.map sdlIface ++
  (exAS.objects.map sdlObj).drop 2 ++ exAS.unions.map sdlUnion ++ exAS.scalars.map .scalar ++
  exAS.enums.map sdlEnum

def exTypesShuffled : List (Option FullType) :=
  (exAS.inputs.map (fun i => some (introInput exAS i))) ++ [some (introScalar "Boolean"), none] ++
  (exAS.objects.map (fun o => some (introObj exAS o))).take 3 ++ exAS.enums.map (fun e => some (introEnum e)) ++
  [some { introScalar "__Directive" with kind := some "FUTURE_KIND" }] ++
  exAS.unions.map (fun u => some (introUnion exAS u)) ++ exAS.scalars.map (fun n => some (introScalar n)) ++
  (exAS.objects.map (fun o => some (introObj exAS o))).drop 3 ++
  exAS.interfaces.map (fun i => some (introIface exAS i)) ++ [some (introScalar "String")]

example : IsSdlOf exAS exDocShuffled :=
  ⟨by decide, by decide, by decide, by decide, by decide, by decide, by decide, .inl (by decide)⟩
example : IsIntroOf exAS (exTypesShuffled.filterMap id) := ⟨by rfl, by rfl, by rfl, by rfl, by rfl, by rfl⟩
example : (Sdl.fromSdl exDocShuffled).toOption = some exSchema := by decide
example : (Intro.fromIntro true (some (introSchemaOf exAS exTypesShuffled))).toOption = some exSchema := by decide

/-! ## the hypotheses cannot be dropped

None of these is a defect of the code: each abstract schema below is ill-formed GraphQL (or, for the third,
the two renderings do not describe the same schema).  They show that `WfAS` is not stronger than needed. -/

/-- a custom scalar with a built-in name: the SDL path pushes a sixth scalar and re-binds the name, the
JSON path drops every `SCALAR` entry with a built-in name -/
example : ¬ WfAS { scalars := ["Int"] } ∧
    (Sdl.fromSdl (sdlOf true { scalars := ["Int"] })).toOption.map (·.scalars.length) = some 6 ∧
    (Intro.fromIntro true (some (introOf [] { scalars := ["Int"] }))).toOption.map (·.scalars.length) = some 5 := by
  decide

/-- the same name for an enum and an object: the SDL path inserts enum names *before* object names, the
JSON path *after*; the last insertion wins, and the JSON path then panics in `ingest_object` -/
example : ¬ WfAS { enums := [⟨"E", ["A"]⟩], objects := [⟨"E", [], []⟩] } ∧
    (Sdl.fromSdl (sdlOf true { enums := [⟨"E", ["A"]⟩], objects := [⟨"E", [], []⟩] })).toOption.isSome = true ∧
    (Intro.fromIntro true (some (introOf [] { enums := [⟨"E", ["A"]⟩], objects := [⟨"E", [], []⟩] }))).toOption =
      none := by
  decide

/-- no `schema` block but roots that are not the default ones: SDL falls back to the name `Query` -/
example : WfAS { objects := [⟨"Query", [], []⟩] } ∧ ¬ AS.DefaultRoots { objects := [⟨"Query", [], []⟩] } ∧
    (Sdl.fromSdl (sdlOf false { objects := [⟨"Query", [], []⟩] })).toOption.map (·.queryType) = some (some 0) ∧
    (Intro.fromIntro true (some (introOf [] { objects := [⟨"Query", [], []⟩] }))).toOption.map (·.queryType) =
      some none := by
  decide

/-- a field of an undefined type: both paths panic, with different messages -/
example :
    Sdl.fromSdl (sdlOf true { objects := [⟨"O", [], [⟨"f", .named "Nope", none⟩]⟩] }) =
      .error (.panic "failed to resolve TypeId for `Nope`") ∧
    Intro.fromIntro true (some (introOf [] { objects := [⟨"O", [], [⟨"f", .named "Nope", none⟩]⟩] })) =
      .error (.panic "schema.names.get(name)") := ⟨by rfl, by rfl⟩

/-! ## from the JSON text

`Intro.fromJson` = serde decoding (`parseIntro`) followed by `fromIntro`.  The decoder is the identity on the
JSON text of an introspection value, up to the recursion limit on `ofType` chains. -/

section JsonText
open Intro


def jOptStr : Option String → Json | none => .null | some s => .str s
def jOptBool : Option Bool → Json | none => .null | some b => .bool b
def jOpt {α} (r : α → Json) : Option α → Json | none => .null | some v => r v
def jArr {α} (r : α → Json) (l : List α) : Json := .arr (l.map r)

def jsonTypeRef : TypeRef → Json
  | .mk k n none => .obj [("kind", jOptStr k), ("name", jOptStr n), ("ofType", .null)]
  | .mk k n (some t) => .obj [("kind", jOptStr k), ("name", jOptStr n), ("ofType", jsonTypeRef t)]

def jsonField (f : IntroField) : Json :=
  .obj [("name", jOptStr f.name), ("type", jOpt jsonTypeRef f.ty), ("isDeprecated", jOptBool f.isDeprecated),
        ("deprecationReason", jOptStr f.deprecationReason)]
def jsonInputValue (v : IntroInputValue) : Json := .obj [("name", .str v.name), ("type", jsonTypeRef v.ty)]
def jsonEnumValue (v : IntroEnumValue) : Json := .obj [("name", jOptStr v.name)]
def jsonFullType (t : FullType) : Json :=
  .obj [("kind", jOptStr t.kind), ("name", jOptStr t.name), ("fields", jOpt (jArr jsonField) t.fields),
        ("inputFields", jOpt (jArr jsonInputValue) t.inputFields),
        ("interfaces", jOpt (jArr jsonTypeRef) t.interfaces),
        ("enumValues", jOpt (jArr jsonEnumValue) t.enumValues),
        ("possibleTypes", jOpt (jArr jsonTypeRef) t.possibleTypes), ("isOneOf", jOptBool t.isOneOf)]
def jsonRoot (n : Option String) : Json := .obj [("name", jOptStr n)]
def jsonSchema (x : IntroSchema) : Json :=
  .obj [("queryType", jOpt jsonRoot x.queryType), ("mutationType", jOpt jsonRoot x.mutationType),
        ("subscriptionType", jOpt jsonRoot x.subscriptionType),
        ("types", jOpt (jArr (jOpt jsonFullType)) x.types)]
/-- the response text: bare `{"__schema": …}` or wrapped in `{"data": …}` -/
def jsonResponse (wrapped : Bool) (x : IntroSchema) : Json :=
  if wrapped then .obj [("data", .obj [("__schema", jsonSchema x)])] else .obj [("__schema", jsonSchema x)]

def refDepth : TypeRef → Nat
  | .mk _ _ none => 1
  | .mk _ _ (some t) => refDepth t + 1

def fullTypeRefs (t : FullType) : List TypeRef :=
  (t.fields.getD []).filterMap (·.ty) ++ (t.inputFields.getD []).map (·.ty) ++ t.interfaces.getD [] ++
  t.possibleTypes.getD []
def schemaRefs (x : IntroSchema) : List TypeRef := ((x.types.getD []).filterMap id).flatMap fullTypeRefs
/-- no `ofType` chain is longer than the decoder's recursion limit -/
def DepthOk (x : IntroSchema) : Prop := ∀ r ∈ schemaRefs x, refDepth r ≤ typeRefFuel
instance (x : IntroSchema) : Decidable (DepthOk x) := by unfold DepthOk; infer_instance

theorem optMember_str (kvs : List (String × Json)) (k : String) (x : Option String)
    (h : Json.lookup k kvs = some (jOptStr x)) : optMember kvs k decStr = some x := by
  cases x <;> simp [optMember, h, jOptStr, decStr]

theorem optMember_bool (kvs : List (String × Json)) (k : String) (x : Option Bool)
    (h : Json.lookup k kvs = some (jOptBool x)) : optMember kvs k decBool = some x := by
  cases x <;> simp [optMember, h, jOptBool, decBool]

theorem optMember_absent {α} (kvs : List (String × Json)) (k : String) (dec : Json → Dec α)
    (h : Json.lookup k kvs = none) : optMember kvs k dec = some none := by
  simp [optMember, h]

theorem optMember_jOpt {α} (kvs : List (String × Json)) (k : String) (dec : Json → Dec α) (r : α → Json)
    (x : Option α) (h : Json.lookup k kvs = some (jOpt r x)) (hr : ∀ v, (r v).isNull = false)
    (hd : ∀ v, x = some v → dec (r v) = some v) : optMember kvs k dec = some x := by
  cases x with
  | none => simp [optMember, h, jOpt]
  | some v =>
    have h1 := hr v
    have h2 := hd v rfl
    simp only [optMember, h, jOpt]
    cases hj : r v <;> simp_all [Json.isNull]

theorem decList_jArr {α} (dec : Json → Dec α) (r : α → Json) (l : List α) (h : ∀ x ∈ l, dec (r x) = some x) :
    decList dec (jArr r l) = some l := by
  simp only [decList, jArr]
  induction l with
  | nil => rfl
  | cons x l ih =>
    have hx := h x (by simp)
    have hl := ih fun y hy => h y (by simp [hy])
    simp [List.mapM_cons, hx, hl]

theorem decOpt_jOpt {α} (dec : Json → Dec α) (r : α → Json) (x : Option α) (hr : ∀ v, (r v).isNull = false)
    (hd : ∀ v, x = some v → dec (r v) = some v) : decOpt dec (jOpt r x) = some x := by
  cases x with
  | none => rfl
  | some v =>
    have h1 := hr v
    have h2 := hd v rfl
    simp only [jOpt]
    cases hj : r v <;> simp_all [Json.isNull, decOpt]

theorem jsonTypeRef_notNull (r : TypeRef) : (jsonTypeRef r).isNull = false := by
  cases r with
  | mk k n o => cases o <;> rfl

theorem decTypeRef_json (r : TypeRef) (fuel : Nat) (h : refDepth r ≤ fuel) :
    decTypeRef fuel (jsonTypeRef r) = some r := by
  fun_induction jsonTypeRef r generalizing fuel with
  | case1 k n =>
    cases fuel with
    | zero => simp [refDepth] at h
    | succ fuel =>
      simp only [decTypeRef, asObj, bind, Option.bind]
      rw [optMember_str _ "kind" k rfl, optMember_str _ "name" n rfl]
      rfl
  | case2 k n t ih =>
    cases fuel with
    | zero => simp [refDepth] at h
    | succ fuel =>
      have := ih fuel (by simp [refDepth] at h; omega)
      simp only [decTypeRef, asObj, bind, Option.bind]
      rw [optMember_str _ "kind" k rfl, optMember_str _ "name" n rfl,
        optMember_jOpt _ "ofType" _ jsonTypeRef (some t) rfl jsonTypeRef_notNull
          (fun v hv => by cases hv; exact this)]
      rfl

theorem decField_json (f : IntroField) (h : ∀ r, f.ty = some r → refDepth r ≤ typeRefFuel) :
    decField (jsonField f) = some f := by
  obtain ⟨name, ty, isDep, reason⟩ := f
  simp only [decField, jsonField, asObj, bind, Option.bind]
  rw [optMember_str _ "name" name rfl, optMember_absent _ "description" _ rfl, optMember_absent _ "args" _ rfl,
    optMember_jOpt _ "type" _ jsonTypeRef ty rfl jsonTypeRef_notNull (fun v hv => decTypeRef_json v _ (h v hv)),
    optMember_bool _ "isDeprecated" isDep rfl, optMember_str _ "deprecationReason" reason rfl]
  rfl

theorem decInputValue_json (v : IntroInputValue) (h : refDepth v.ty ≤ typeRefFuel) :
    decInputValue (jsonInputValue v) = some v := by
  obtain ⟨name, ty⟩ := v
  simp only [decInputValue, jsonInputValue, asObj, bind, Option.bind, reqMember, Json.lookup]
  rw [optMember_absent _ "description" _ rfl, optMember_absent _ "defaultValue" _ rfl]
  simp [decStr, decTypeRef_json ty _ h]

theorem decEnumValue_json (v : IntroEnumValue) : decEnumValue (jsonEnumValue v) = some v := by
  obtain ⟨name⟩ := v
  simp only [decEnumValue, jsonEnumValue, asObj, bind, Option.bind]
  rw [optMember_str _ "name" name rfl, optMember_absent _ "description" _ rfl,
    optMember_absent _ "isDeprecated" _ rfl, optMember_absent _ "deprecationReason" _ rfl]
  rfl

theorem jArr_notNull {α} (r : α → Json) (l : List α) : (jArr r l).isNull = false := rfl

theorem decFullType_json (t : FullType) (h : ∀ r ∈ fullTypeRefs t, refDepth r ≤ typeRefFuel) :
    decFullType true (jsonFullType t) = some t := by
  obtain ⟨kind, name, fields, inputFields, interfaces, enumValues, possibleTypes, isOneOf⟩ := t
  simp only [fullTypeRefs, List.mem_append, List.mem_filterMap, List.mem_map] at h
  simp only [decFullType, jsonFullType, asObj, bind, Option.bind, if_true]
  rw [optMember_str _ "kind" kind rfl, optMember_str _ "name" name rfl, optMember_absent _ "description" _ rfl,
    optMember_jOpt _ "fields" _ (jArr jsonField) fields rfl (jArr_notNull _)
      (fun l hl => decList_jArr _ _ l fun f hf => decField_json f fun r hr =>
        h r (.inl (.inl (.inl ⟨f, by simp [hl, hf], hr⟩)))),
    optMember_jOpt _ "inputFields" _ (jArr jsonInputValue) inputFields rfl (jArr_notNull _)
      (fun l hl => decList_jArr _ _ l fun v hv => decInputValue_json v
        (h _ (.inl (.inl (.inr ⟨v, by simp [hl, hv], rfl⟩))))),
    optMember_jOpt _ "interfaces" _ (jArr jsonTypeRef) interfaces rfl (jArr_notNull _)
      (fun l hl => decList_jArr _ _ l fun r hr => decTypeRef_json r _ (h r (.inl (.inr (by simp [hl, hr]))))),
    optMember_jOpt _ "enumValues" _ (jArr jsonEnumValue) enumValues rfl (jArr_notNull _)
      (fun l _ => decList_jArr _ _ l fun v _ => decEnumValue_json v),
    optMember_jOpt _ "possibleTypes" _ (jArr jsonTypeRef) possibleTypes rfl (jArr_notNull _)
      (fun l hl => decList_jArr _ _ l fun r hr => decTypeRef_json r _ (h r (.inr (by simp [hl, hr])))),
    optMember_bool _ "isOneOf" isOneOf rfl]
  rfl

theorem decNameOnly_json (n : Option String) : decNameOnly (jsonRoot n) = some n := by
  simp only [decNameOnly, jsonRoot, asObj, bind, Option.bind]
  exact optMember_str _ "name" n rfl

theorem jsonFullType_notNull (t : FullType) : (jsonFullType t).isNull = false := rfl

theorem decSchema_json (x : IntroSchema) (h : DepthOk x) : decSchema true (jsonSchema x) = some x := by
  obtain ⟨q, m, s, types⟩ := x
  simp only [DepthOk, schemaRefs, List.mem_flatMap, List.mem_filterMap] at h
  simp only [decSchema, jsonSchema, asObj, bind, Option.bind]
  rw [optMember_jOpt _ "queryType" _ jsonRoot q rfl (fun _ => rfl) (fun v _ => decNameOnly_json v),
    optMember_jOpt _ "mutationType" _ jsonRoot m rfl (fun _ => rfl) (fun v _ => decNameOnly_json v),
    optMember_jOpt _ "subscriptionType" _ jsonRoot s rfl (fun _ => rfl) (fun v _ => decNameOnly_json v),
    optMember_jOpt _ "types" _ (jArr (jOpt jsonFullType)) types rfl (jArr_notNull _)
      (fun l hl => decList_jArr _ _ l fun t ht => decOpt_jOpt _ _ t jsonFullType_notNull fun t' ht' =>
        decFullType_json t' fun r hr => h r ⟨t', ⟨some t', by simp [hl, ← ht', ht], rfl⟩, hr⟩),
    optMember_absent _ "directives" _ rfl]
  rfl

/-- **serde round trip of the introspection shape**: the JSON text of an introspection value (bare or
wrapped in `data`, absent members written as `null`) is decoded back to that value -/
theorem parseIntro_json (wrapped : Bool) (x : IntroSchema) (h : DepthOk x) :
    parseIntro true (jsonResponse wrapped x) = some (some x) := by
  have hc : decContainer true (.obj [("__schema", jsonSchema x)]) = some (some x) := by
    simp only [decContainer, asObj, bind, Option.bind]
    exact optMember_jOpt _ "__schema" _ jsonSchema (some x) rfl (fun _ => rfl)
      (fun v hv => by cases hv; exact decSchema_json x h)
  cases wrapped
  · simp only [parseIntro, jsonResponse, Bool.false_eq_true, if_false, asObj, bind, Option.bind, reqMember]
    simp [Json.lookup, hc]
  · simp only [parseIntro, jsonResponse, if_true, asObj, bind, Option.bind, reqMember]
    simp [Json.lookup, hc]

/-- nesting depth of a type expression (= length of its `ofType` chain) -/
def gDepth : GTy → Nat
  | .named _ => 1
  | .list t => gDepth t + 1
  | .nonNull t => gDepth t + 1

theorem refDepth_toTypeRef (k : String) (t : GTy) : refDepth (C13.toTypeRef k t) = gDepth t := by
  induction t <;> simp_all [C13.toTypeRef, refDepth, gDepth]

/-- every type expression of the schema is at most 128 levels deep (list / non-null wrappers + 1) -/
def AS.DepthOk (a : AS) : Prop :=
  (∀ i ∈ a.interfaces, ∀ f ∈ i.fields, gDepth f.ty ≤ 128) ∧
  (∀ o ∈ a.objects, ∀ f ∈ o.fields, gDepth f.ty ≤ 128) ∧
  (∀ i ∈ a.inputs, ∀ f ∈ i.fields, gDepth f.2 ≤ 128)
instance (a : AS) : Decidable a.DepthOk := by unfold AS.DepthOk; infer_instance

theorem depthOk_introOf (a : AS) (bs : List String) (h : a.DepthOk) : DepthOk (introOf bs a) := by
  obtain ⟨h1, h2, h3⟩ := h
  intro r hr
  simp only [schemaRefs, introOf, introSchemaOf, Option.getD_some, filterMap_id_map_some, introTypes,
    List.flatMap_append, List.mem_append, List.mem_flatMap, List.mem_map] at hr
  have hnamed : ∀ n, refDepth (namedRef a n) ≤ typeRefFuel := fun n => by simp [namedRef, refDepth, typeRefFuel]
  have hfield : ∀ fs : List AField, (∀ f ∈ fs, gDepth f.ty ≤ 128) →
      r ∈ (fs.map (introField a)).filterMap (·.ty) → refDepth r ≤ typeRefFuel := by
    intro fs hfs hm
    simp only [List.mem_filterMap, List.mem_map] at hm
    obtain ⟨_, ⟨f, hf, rfl⟩, hty⟩ := hm
    simp only [introField, Option.some.injEq] at hty
    subst hty
    rw [typeRefOf, refDepth_toTypeRef]; exact hfs f hf
  rcases hr with (((((⟨_, ⟨x, _, rfl⟩, hr⟩ | ⟨_, ⟨x, _, rfl⟩, hr⟩) | ⟨_, ⟨x, _, rfl⟩, hr⟩) |
    ⟨_, ⟨x, hx, rfl⟩, hr⟩) | ⟨_, ⟨x, hx, rfl⟩, hr⟩) | ⟨_, ⟨x, _, rfl⟩, hr⟩) | ⟨_, ⟨x, hx, rfl⟩, hr⟩
  · simp [fullTypeRefs, introScalar] at hr
  · simp [fullTypeRefs, introScalar] at hr
  · simp [fullTypeRefs, introEnum] at hr
  · simp only [fullTypeRefs, introIface, Option.getD_some, Option.getD_none, List.map_nil, List.append_nil,
      List.mem_append, List.mem_map] at hr
    rcases hr with hr | ⟨o, _, rfl⟩
    · exact hfield _ (h1 x hx) hr
    · exact hnamed _
  · simp only [fullTypeRefs, introObj, Option.getD_some, Option.getD_none, List.map_nil, List.append_nil,
      List.mem_append, List.mem_map] at hr
    rcases hr with hr | ⟨n, _, rfl⟩
    · exact hfield _ (h2 x hx) hr
    · exact hnamed _
  · simp only [fullTypeRefs, introUnion, Option.getD_some, Option.getD_none, List.map_nil, List.filterMap_nil,
      List.nil_append, List.mem_map] at hr
    obtain ⟨n, _, rfl⟩ := hr
    exact hnamed _
  · simp only [fullTypeRefs, introInput, Option.getD_some, Option.getD_none, List.filterMap_nil,
      List.nil_append, List.append_nil, List.map_map, List.mem_map] at hr
    obtain ⟨f, hf, rfl⟩ := hr
    simp only [Function.comp]
    rw [typeRefOf, refDepth_toTypeRef]; exact h3 x hx f hf

/-- **C07 at the level of the schema files** (`.graphql` text after parsing vs `.json` text after
`serde_json::from_str`): same `Outcome Schema`, bare or `data`-wrapped response. -/
theorem frontends_equal_json (a : AS) (ex wrapped : Bool) (bs : List String) (hw : WfAS a)
    (hex : ex = true ∨ a.DefaultRoots) (hbs : ∀ b ∈ bs, b ∈ Schema.defaultScalars) (hd : a.DepthOk) :
    Sdl.fromSdl (sdlOf ex a) = Intro.fromJson true (jsonResponse wrapped (introOf bs a)) := by
  rw [Intro.fromJson, parseIntro_json wrapped _ (depthOk_introOf a bs hd)]
  exact frontends_equal a ex bs hw hex hbs

example : exAS.DepthOk := by decide

/-- the depth bound is needed *in the model* (`typeRefFuel` mirrors serde_json's recursion limit): a field of
type `[[…[Int]…]]` with 128 list wrappers is accepted from SDL and rejected from JSON.  (The SDL side of the
model starts from the parsed document; any limit of `graphql_parser` itself is outside it.) -/
def deepList : Nat → GTy
  | 0 => .named "Int"
  | n + 1 => .list (deepList n)

set_option maxRecDepth 10000 in
example :
    let a : AS := { objects := [⟨"O", [], [⟨"f", deepList 128, none⟩]⟩] }
    WfAS a ∧ ¬ a.DepthOk ∧ (Sdl.fromSdl (sdlOf true a)).toOption.isSome = true ∧
    Intro.fromJson true (jsonResponse false (introOf [] a)) = .error (.panic "serde_json::from_str(..).unwrap()") :=
  ⟨by decide, by decide, by decide, by rfl⟩
example : (Intro.fromJson true (jsonResponse true (introOf Schema.defaultScalars exAS))).toOption = some exSchema := by
  decide

end JsonText

end C07
end GqlVerif
