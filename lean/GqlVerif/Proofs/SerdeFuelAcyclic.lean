import GqlVerif.Proofs.SerdeFuel
/-!
# P25 — acyclic environments: the allowance of `deFuel` is enough when at most one `Box` sits in flatten position

`Acyclic e d`: some `d : String → Nat` (no bound) strictly decreases along every jump that does not consume input —
alias → target, extern alias → target, struct → flattened member (through `Option` / `Box`).  For `Box`-free positions
this is what rustc guarantees of a module (`type A = B; type B = A` is E0391, a struct containing itself by value is
E0072); a cycle of flattened members through `Box` compiles, and serde recurses on it forever (the model: the fuel
error at every fuel).
`BoxBound e B`: alias targets and flattened members carry at most `B` `Box`es (the generator: `B = 1`,
`SerdeFuelCodegen.responseForQuery_boxBound`).

* `ranked_of_acyclic` — compressing `d` to the positions of the `#items + #externs` names gives a certificate
  `Ranked e _ _ ((B+1) * (#items + #externs + 1) + 1)`;
* **`envOK_of_acyclic`** — `B = 1`: every acyclic environment with at most one `Box` around a flattened member / alias
  target satisfies `EnvOK`: all theorems of `SerdeFuel.lean` apply, the fuel `de` passes never matters
  (`envOK_of_acyclic_boxfree`: `B = 0`, within the single width);
* `envOKS_of_acyclic` — serialization: every acyclic environment satisfies `EnvOKS` (whatever the `Box`es);
* `deTy_nf_of_acyclic` — any `B`: the fuel `(jsonSize j + 1) * ((B+1) * (#items + #externs + 1) + 1)` is never
  exhausted.
-/
namespace GqlVerif
namespace SerdeFuel
open Serde

/-- number of `Box`es in a type expression -/
def boxCount : RTy → Nat
  | .path _ => 0
  | .box t => boxCount t + 1
  | .opt t => boxCount t
  | .vec t => boxCount t

theorem tyCost_eq (c : String → Nat) : ∀ t : RTy, tyCost c t = c (Scope.leaf t) + boxCount t
  | .path _ => rfl
  | .box t => by simp only [tyCost, Scope.leaf, boxCount, tyCost_eq c t]; omega
  | .opt t => by simp only [tyCost, Scope.leaf, boxCount, tyCost_eq c t]
  | .vec t => by simp only [tyCost, Scope.leaf, boxCount, tyCost_eq c t]

/-- **acyclicity**: a rank (unbounded) that decreases along every input-free jump -/
structure Acyclic (e : Env) (d : String → Nat) : Prop where
  alias : ∀ p n pub t, e.find p = some (.alias n pub t) → d (Scope.leaf t) < d p
  extern : ∀ p x, e.find p = none → e.externs.find? (·.1 == p) = some x → d (Scope.leaf x.2) < d p
  flat : ∀ p n dv sc fields, e.find p = some (.struct n dv sc fields) → ∀ f ∈ fields, f.flatten = true →
    d (Scope.leaf f.ty) < d p

/-- alias targets and flattened members carry at most `B` `Box`es -/
structure BoxBound (e : Env) (B : Nat) : Prop where
  alias : ∀ p n pub t, e.find p = some (.alias n pub t) → boxCount t ≤ B
  flat : ∀ p n dv sc fields, e.find p = some (.struct n dv sc fields) → ∀ f ∈ fields, f.flatten = true →
    boxCount f.ty ≤ B

/-- a flattened member carries at most `B` `Box`es -/
def fieldBox (B : Nat) (f : RField) : Bool := !f.flatten || decide (boxCount f.ty ≤ B)

/-- an alias target / the flattened members of a struct carry at most `B` `Box`es -/
def itemBox (B : Nat) : Item → Bool
  | .alias _ _ t => decide (boxCount t ≤ B)
  | .struct _ _ _ fs => fs.all (fieldBox B)
  | _ => true

/-- decidable sufficient check for `BoxBound` -/
def boxBoundCheck (e : Env) (B : Nat) : Bool := e.items.all (itemBox B)

theorem boxBound_of_check {e : Env} {B : Nat} (h : boxBoundCheck e B = true) : BoxBound e B := by
  simp only [boxBoundCheck, List.all_eq_true] at h
  refine ⟨fun p n pub t hf => ?_, fun p n dv sc fields hf f hmem hfl => ?_⟩
  · have := h _ (find_spec hf).1
    simpa [itemBox] using this
  · have := h _ (find_spec hf).1
    simp only [itemBox, List.all_eq_true, fieldBox, Bool.or_eq_true, Bool.not_eq_true', decide_eq_true_eq] at this
    rcases this f hmem with h3 | h3
    · rw [hfl] at h3; cases h3
    · exact h3

/-! ## compressing the rank -/

/-- the names the environment defines (with repetitions): exactly `#items + #externs` of them -/
def names (e : Env) : List String := e.items.map (·.name) ++ e.externs.map (·.1)

theorem names_length (e : Env) : (names e).length = e.items.length + e.externs.length := by
  simp [names]

theorem mem_names_of_known {e : Env} {p : String} (h : known e p = true) : p ∈ names e := by
  unfold known at h
  unfold names
  cases hf : e.find p with
  | some it =>
    obtain ⟨hm, hn⟩ := find_spec hf
    exact List.mem_append_left _ (hn ▸ List.mem_map_of_mem hm)
  | none =>
    rw [hf] at h
    cases hx : e.externs.find? (·.1 == p) with
    | none => rw [hx] at h; cases h
    | some x =>
      have hm := List.mem_of_find?_eq_some hx
      have hn : x.1 = p := by simpa using List.find?_some hx
      exact List.mem_append_right _ (hn ▸ List.mem_map_of_mem hm)

/-- how many names rank strictly below `x` -/
def below (e : Env) (d : String → Nat) (x : Nat) : Nat := (names e).countP (fun q => decide (d q < x))

theorem countP_lt_of {α : Type} {p q : α → Bool} : ∀ {l : List α}, (∀ x ∈ l, p x = true → q x = true) →
    ∀ a ∈ l, p a = false → q a = true → l.countP p < l.countP q
  | b :: l, hpq, a, ha, hpa, hqa => by
    have hmono : l.countP p ≤ l.countP q :=
      List.countP_mono_left (fun x hx => hpq x (List.mem_cons_of_mem _ hx))
    rcases List.mem_cons.mp ha with rfl | ha'
    · rw [List.countP_cons, List.countP_cons]
      simp only [hpa, hqa, Bool.false_eq_true, ↓reduceIte]
      omega
    · have ih := countP_lt_of (fun x hx => hpq x (List.mem_cons_of_mem _ hx)) a ha' hpa hqa
      rw [List.countP_cons, List.countP_cons]
      by_cases hb : p b = true
      · simp only [hb, hpq b List.mem_cons_self hb, ↓reduceIte]; omega
      · simp only [hb, Bool.false_eq_true, ↓reduceIte]
        split <;> omega

theorem below_le (e : Env) (d : String → Nat) (x : Nat) : below e d x ≤ e.items.length + e.externs.length := by
  rw [← names_length]
  exact List.countP_le_length

theorem below_mono (e : Env) (d : String → Nat) {x y : Nat} (h : x ≤ y) : below e d x ≤ below e d y := by
  unfold below
  refine List.countP_mono_left (fun q _ hq => ?_)
  simp only [decide_eq_true_eq] at hq ⊢
  omega

theorem below_lt (e : Env) (d : String → Nat) {q : String} (hq : q ∈ names e) {y : Nat} (h : d q < y) :
    below e d (d q) < below e d y := by
  unfold below
  refine countP_lt_of (fun z _ hz => ?_) q hq (by simp) (by simpa using h)
  simp only [decide_eq_true_eq] at hz ⊢
  omega

/-- the compressed rank: position of `d p` among the ranks of the names (plus one for a name of the environment),
    stretched by `B + 1` to make room for the `Box`es -/
def comp (e : Env) (d : String → Nat) (B : Nat) (p : String) : Nat :=
  (B + 1) * ((if known e p then 1 else 0) + below e d (d p))

theorem comp_bound (e : Env) (d : String → Nat) (B : Nat) (p : String) :
    comp e d B p < (B + 1) * (e.items.length + e.externs.length + 1) + 1 := by
  unfold comp
  have h1 := below_le e d (d p)
  have h2 : (if known e p then 1 else 0) + below e d (d p) ≤ e.items.length + e.externs.length + 1 := by
    split <;> omega
  have := Nat.mul_le_mul_left (B + 1) h2
  omega

/-- along an edge from a name of the environment the compressed rank drops by at least `B + 1` -/
theorem comp_edge (e : Env) (d : String → Nat) (B : Nat) {p q : String} (hp : known e p = true) (h : d q < d p) :
    comp e d B q + (B + 1) ≤ comp e d B p := by
  unfold comp
  rw [hp]
  simp only [↓reduceIte]
  have key : (if known e q then 1 else 0) + below e d (d q) + 1 ≤ 1 + below e d (d p) := by
    cases hq : known e q with
    | true =>
      have := below_lt e d (mem_names_of_known hq) h
      simp only [↓reduceIte]; omega
    | false =>
      have := below_mono e d (Nat.le_of_lt h)
      simp only [Bool.false_eq_true, ↓reduceIte]; omega
  have := Nat.mul_le_mul_left (B + 1) key
  rw [Nat.mul_add, Nat.mul_one] at this
  exact this

theorem known_of_find {e : Env} {p : String} {it : Item} (h : e.find p = some it) : known e p = true := by
  simp [known, h]

theorem known_of_extern {e : Env} {p : String} {x : String × RTy} (h : e.externs.find? (·.1 == p) = some x) :
    known e p = true := by
  simp [known, h]

/-- **an acyclic environment is ranked**, with width `(B+1) * (#items + #externs + 1) + 1` -/
theorem ranked_of_acyclic {e : Env} {d : String → Nat} {B : Nat} (ha : Acyclic e d) (hb : BoxBound e B) :
    Ranked e (comp e d B) (comp e d B) ((B + 1) * (e.items.length + e.externs.length + 1) + 1) := by
  have hty : ∀ {p : String} {t : RTy}, known e p = true → d (Scope.leaf t) < d p → boxCount t ≤ B →
      tyCost (comp e d B) t < comp e d B p := by
    intro p t hp hd hbx
    have := comp_edge e d B hp hd
    rw [tyCost_eq]; omega
  have hleaf : ∀ {p q : String}, known e p = true → d q < d p → comp e d B q < comp e d B p := by
    intro p q hp hd
    have := comp_edge e d B hp hd
    omega
  refine ⟨comp_bound e d B, fun p n pub t hf => hleaf (known_of_find hf) (ha.alias p n pub t hf),
    fun p x hf hx => hleaf (known_of_extern hx) (ha.extern p x hf hx),
    fun p n dv sc fields hf f hm hfl => hty (known_of_find hf) (ha.flat p n dv sc fields hf f hm hfl)
      (hb.flat p n dv sc fields hf f hm hfl),
    fun p n pub t hf => hty (known_of_find hf) (ha.alias p n pub t hf) (hb.alias p n pub t hf),
    fun p n dv sc fields hf f hm hfl => hty (known_of_find hf) (ha.flat p n dv sc fields hf f hm hfl)
      (hb.flat p n dv sc fields hf f hm hfl)⟩

theorem BoxBound.mono {e : Env} {B B' : Nat} (h : BoxBound e B) (hle : B ≤ B') : BoxBound e B' :=
  ⟨fun p n pub t hf => Nat.le_trans (h.alias p n pub t hf) hle,
   fun p n dv sc fields hf f hm hfl => Nat.le_trans (h.flat p n dv sc fields hf f hm hfl) hle⟩

/-- **acyclic, at most one `Box` in flatten / alias-target position ⇒ `EnvOK`**: the allowance of `deFuel` is enough -/
theorem envOK_of_acyclic {e : Env} {d : String → Nat} (ha : Acyclic e d) (hb : BoxBound e 1) : EnvOK e := by
  refine ⟨_, _, _, ranked_of_acyclic ha hb, ?_⟩
  unfold deWidth envWidth
  omega

/-- `Box`-free: the certificate fits the single width (that of `ser`, and of `deFuel` before P25) -/
theorem envOK_of_acyclic_boxfree {e : Env} {d : String → Nat} (ha : Acyclic e d) (hb : BoxBound e 0) :
    EnvOK e ∧ EnvOKS e :=
  envOK_of_ranked (ranked_of_acyclic ha hb) (by unfold envWidth; omega)

/-- **serialization: every acyclic environment** (`Box`es are free in `serPath`) satisfies `EnvOKS` — the fuel `ser`
    passes is never exhausted and never matters -/
theorem envOKS_of_acyclic {e : Env} {d : String → Nat} (ha : Acyclic e d) : EnvOKS e := by
  refine ⟨comp e d 0, envWidth e, ⟨fun p => ?_, fun p n pub t hf => ?_, fun p x hf hx => ?_⟩, Nat.le_refl _⟩
  · have := comp_bound e d 0 p
    unfold envWidth; omega
  · have := comp_edge e d 0 (known_of_find hf) (ha.alias p n pub t hf); omega
  · have := comp_edge e d 0 (known_of_extern hx) (ha.extern p x hf hx); omega

/-- any acyclic environment: `(jsonSize j + 1) * ((B+1) * (#items + #externs + 1) + 1)` is never exhausted -/
theorem deTy_nf_of_acyclic {e : Env} {d : String → Nat} {B : Nat} (ha : Acyclic e d) (hb : BoxBound e B) (b : Bool)
    (t : RTy) (j : Json) (fuel : Nat)
    (hf : (jsonSize j + 1) * ((B + 1) * (e.items.length + e.externs.length + 1) + 1) ≤ fuel) :
    deTy e b fuel t j ≠ .error (.unmodelled "fuel") := by
  have hr := ranked_of_acyclic ha hb
  have h1 := hr.bound (Scope.leaf t)
  have h2 : (jsonSize j + 1) * ((B + 1) * (e.items.length + e.externs.length + 1) + 1) =
      jsonSize j * ((B + 1) * (e.items.length + e.externs.length + 1) + 1) +
        ((B + 1) * (e.items.length + e.externs.length + 1) + 1) := Nat.succ_mul _ _
  exact deTy_nf hr b fuel t j (by omega)

/-- … and above it the fuel does not matter -/
theorem deTy_fuel_eq_of_acyclic {e : Env} {d : String → Nat} {B : Nat} (ha : Acyclic e d) (hb : BoxBound e B) (b : Bool)
    (t : RTy) (j : Json) (fuel fuel' : Nat)
    (hf : (jsonSize j + 1) * ((B + 1) * (e.items.length + e.externs.length + 1) + 1) ≤ fuel)
    (hf' : (jsonSize j + 1) * ((B + 1) * (e.items.length + e.externs.length + 1) + 1) ≤ fuel') :
    deTy e b fuel t j = deTy e b fuel' t j := by
  have hr := ranked_of_acyclic ha hb
  have h1 := hr.bound (Scope.leaf t)
  have h2 : (jsonSize j + 1) * ((B + 1) * (e.items.length + e.externs.length + 1) + 1) =
      jsonSize j * ((B + 1) * (e.items.length + e.externs.length + 1) + 1) +
        ((B + 1) * (e.items.length + e.externs.length + 1) + 1) := Nat.succ_mul _ _
  exact deTy_fuel_eq hr b fuel fuel' t j (by omega) (by omega)

/-! ## non-vacuity -/

/-- a module with aliases, an extern scalar, nested flattened structs and a flattened tagged enum; no `Box` -/
def acEnv : Env :=
  { items := [.alias "Date" false (.path "super::Date"),
              .struct "A" [] none [{ rust := "x", ty := .path "Date" }, { rust := "frag", ty := .path "F", flatten := true },
                                   { rust := "on", ty := .path "AOn", flatten := true }],
              .struct "F" [] none [{ rust := "w", ty := .opt (.path "String") }, { rust := "g", ty := .path "G", flatten := true }],
              .alias "G" true (.path "H"),
              .struct "H" [] none [{ rust := "h", ty := .opt (.vec (.path "A")) }],
              .tagged "AOn" [] none "__typename" [{ name := "Dog" }, { name := "Cat", payload := some (.path "F") }]],
    externs := [("super::Date", .path "String")] }

/-- the rank: `A ↦ 4, F ↦ 3, G ↦ 2, H ↦ 1, Date ↦ 2, super::Date ↦ 1` -/
def acRank (p : String) : Nat :=
  if p == "A" then 4 else if p == "F" then 3 else if p == "G" then 2 else if p == "H" then 1
  else if p == "Date" then 2 else if p == "super::Date" then 1 else 0

theorem acEnv_acyclic : Acyclic acEnv acRank := by
  refine ⟨fun p n pub t hf => ?_, fun p x hf hx => ?_, fun p n dv sc fields hf f hm hfl => ?_⟩
  · obtain ⟨hm, hn⟩ := find_spec hf
    subst hn
    simp only [acEnv, List.mem_cons, List.not_mem_nil, or_false] at hm
    rcases hm with h | h | h | h | h | h <;> cases h <;> decide
  · have hm := List.mem_of_find?_eq_some hx
    have hn : x.1 = p := by simpa using List.find?_some hx
    subst hn
    simp only [acEnv, List.mem_cons, List.not_mem_nil, or_false] at hm
    cases hm; decide
  · obtain ⟨hm', hn⟩ := find_spec hf
    subst hn
    simp only [acEnv, List.mem_cons, List.not_mem_nil, or_false] at hm'
    rcases hm' with h | h | h | h | h | h <;> cases h
    · simp only [List.mem_cons, List.not_mem_nil, or_false] at hm
      rcases hm with h | h | h <;> subst h
      · cases hfl
      · decide
      · decide
    · simp only [List.mem_cons, List.not_mem_nil, or_false] at hm
      rcases hm with h | h <;> subst h
      · cases hfl
      · decide
    · simp only [List.mem_cons, List.not_mem_nil, or_false] at hm
      subst hm
      cases hfl

theorem acEnv_ok : EnvOK acEnv := envOK_of_acyclic acEnv_acyclic (boxBound_of_check (by decide))

example (t : RTy) (j : Json) : roundtrip acEnv t j ≠ .error (.unmodelled "fuel") :=
  roundtrip_never_out_of_fuel acEnv_ok (envOKS_of_acyclic acEnv_acyclic) t j

example (t : RTy) (j : Json) : de acEnv t j ≠ .error (.unmodelled "fuel") := de_never_out_of_fuel acEnv_ok t j

example (t : RTy) (v : Val) : ser acEnv t v ≠ .error (.unmodelled "fuel") :=
  ser_never_out_of_fuel (envOKS_of_acyclic acEnv_acyclic) t v

end SerdeFuel
end GqlVerif
