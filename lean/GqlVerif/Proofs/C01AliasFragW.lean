import GqlVerif.Proofs.C01AliasFragI
import GqlVerif.Proofs.C01NestedW
/-!
# C01 end to end (`AliasFragOp`): generated modules with a type-alias fragment that is itself spread

`fragment Inner on Dog { barks }  fragment Mid on Dog { ...Inner }  fragment Outer on Dog { name ...Mid }`
`query Q { dog { __typename ...Outer } }` (`af`): the module has `type Mid = Inner;` and
`struct Outer { name, #[serde(flatten)] Mid: Mid }` — a flattened member whose type is an alias of a struct.  In
`AliasFragOp`, not in `NestedOp`.  Also: two alias hops (`af2`: `Mid2 = Mid = Inner`, `Outer { name ...Mid2 }`), and an alias
chain at a non-flattened position (`af3`: `query Q { dog { ...Mid } }`, `Qdog = Mid = Inner`).
-/
set_option linter.unusedSimpArgs false
set_option linter.unusedVariables false
set_option linter.unusedTactic false

namespace GqlVerif
namespace C01AF
open Serde Spec C13 C03 Codegen C01 C01.E2E C01M C01N

def afOp (dog : List Sel) : ROperation :=
  { name := "Q", kind := .query, objectId := 0, sels := [.field none 0 dog] }

/-- `Inner { barks }`, `Mid { ...Inner }`, `Outer { name ...Mid }`, `Mid2 { ...Mid }`, `Outer2 { name ...Mid2 }` -/
def afQuery (dog : List Sel) : Query :=
  { operations := [afOp dog]
    fragments := [{ name := "Inner", on := .object 1, sels := [.field none 3 []] },
                  { name := "Mid", on := .object 1, sels := [.spread 0] },
                  { name := "Outer", on := .object 1, sels := [.field none 2 [], .spread 1] },
                  { name := "Mid2", on := .object 1, sels := [.spread 1] },
                  { name := "Outer2", on := .object 1, sels := [.field none 2 [], .spread 3] }] }

def afCtx (dog : List Sel) : Ctx := { s := mxSchema, q := afQuery dog, o := {}, cs := ⟨id, id⟩ }

/-- `dog { __typename ...Outer }` -/
def afDog : List Sel := [.typename, .spread 2]
/-- `dog { __typename ...Outer2 }` (two alias hops) -/
def af2Dog : List Sel := [.typename, .spread 4]
/-- `dog { ...Mid }` (`Qdog = Mid = Inner`) -/
def af3Dog : List Sel := [.spread 1]

def afItems : List Item := okOr (responseForQuery (afCtx afDog) 0)
def af2Items : List Item := okOr (responseForQuery (afCtx af2Dog) 0)
def af3Items : List Item := okOr (responseForQuery (afCtx af3Dog) 0)

theorem af_gen : responseForQuery (afCtx afDog) 0 = .ok afItems := gen_of_isOk (by decide +kernel)
theorem af2_gen : responseForQuery (afCtx af2Dog) 0 = .ok af2Items := gen_of_isOk (by decide +kernel)
theorem af3_gen : responseForQuery (afCtx af3Dog) 0 = .ok af3Items := gen_of_isOk (by decide +kernel)

theorem af_class : AliasFragOp (afCtx afDog) (afOp afDog) = true := by decide +kernel
theorem af2_class : AliasFragOp (afCtx af2Dog) (afOp af2Dog) = true := by decide +kernel
theorem af3_class : AliasFragOp (afCtx af3Dog) (afOp af3Dog) = true := by decide +kernel
/-- the operations are not in `NestedOp` -/
theorem af_not_N : NestedOp (afCtx afDog) (afOp afDog) = false := by decide +kernel
theorem af2_not_N : NestedOp (afCtx af2Dog) (afOp af2Dog) = false := by decide +kernel
theorem af3_not_N : NestedOp (afCtx af3Dog) (afOp af3Dog) = false := by decide +kernel

theorem af_names : fragNamesOk (afCtx afDog) = true := by decide +kernel
theorem af2_names : fragNamesOk (afCtx af2Dog) = true := by decide +kernel
theorem af3_names : fragNamesOk (afCtx af3Dog) = true := by decide +kernel
theorem af_keys : aliasKeysOk (afCtx afDog) (afOp afDog) = true := by decide +kernel
theorem af2_keys : aliasKeysOk (afCtx af2Dog) (afOp af2Dog) = true := by decide +kernel
theorem af3_keys : aliasKeysOk (afCtx af3Dog) (afOp af3Dog) = true := by decide +kernel
theorem af_rust : aliasRustOk (afCtx afDog) (afOp afDog) = true := by decide +kernel
theorem af2_rust : aliasRustOk (afCtx af2Dog) (afOp af2Dog) = true := by decide +kernel
theorem af3_rust : aliasRustOk (afCtx af3Dog) (afOp af3Dog) = true := by decide +kernel
theorem af_ok : moduleOk (afCtx afDog) afItems = true := by decide +kernel
theorem af2_ok : moduleOk (afCtx af2Dog) af2Items = true := by decide +kernel
theorem af3_ok : moduleOk (afCtx af3Dog) af3Items = true := by decide +kernel

/-- the emitted types: `Mid` is the alias of `Inner`; `Outer` is a struct with the own field `name` and the flattened
    member `Mid` **of the alias type `Mid`**; `Qdog` is a struct with the flattened member `Outer` -/
theorem af_items_shape :
    ((moduleEnv (afCtx afDog) afItems).find "Mid" == some (.alias "Mid" true (.path "Inner"))) &&
    ((moduleEnv (afCtx afDog) afItems).find "Outer" ==
      some (.struct "Outer" ["Deserialize"] (some "::serde")
        [{ rust := "name", ty := .path "String" },
         { rust := "Mid", ty := .path "Mid", flatten := true }])) &&
    ((moduleEnv (afCtx afDog) afItems).find "Qdog" ==
      some (.struct "Qdog" ["Deserialize"] (some "::serde")
        [{ rust := "Outer", ty := .path "Outer", flatten := true }])) &&
    ((moduleEnv (afCtx af2Dog) af2Items).find "Mid2" == some (.alias "Mid2" true (.path "Mid"))) &&
    ((moduleEnv (afCtx af2Dog) af2Items).find "Outer2" ==
      some (.struct "Outer2" ["Deserialize"] (some "::serde")
        [{ rust := "name", ty := .path "String" },
         { rust := "Mid2", ty := .path "Mid2", flatten := true }])) &&
    ((moduleEnv (afCtx af3Dog) af3Items).find "Qdog" == some (.alias "Qdog" true (.path "Mid"))) = true := by
  decide +kernel

/-- C03 on the modules: what `ResponseData` accepts, exactly -/
theorem af_precise (j : Json) :
    okB (Serde.de (moduleEnv (afCtx afDog) afItems) (.path "ResponseData") j) =
      conformsLooseN (wholeA (afCtx afDog) 5) mxSchema (afQuery afDog) {} false (afOp afDog).sels j :=
  aliasfrag_precise_iff (afCtx afDog) 0 (afOp afDog) afItems rfl af_class af_names af_keys af_gen af_ok j

theorem af2_precise (j : Json) :
    okB (Serde.de (moduleEnv (afCtx af2Dog) af2Items) (.path "ResponseData") j) =
      conformsLooseN (wholeA (afCtx af2Dog) 5) mxSchema (afQuery af2Dog) {} false (afOp af2Dog).sels j :=
  aliasfrag_precise_iff (afCtx af2Dog) 0 (afOp af2Dog) af2Items rfl af2_class af2_names af2_keys af2_gen af2_ok j

def afJson : Json :=
  .obj [("dog", .obj [("__typename", .str "Dog"), ("name", .str "Rex"), ("barks", .bool true)])]
def af3Json : Json := .obj [("dog", .obj [("barks", .bool true)])]

macro "confA_eval" : tactic => `(tactic|
  simp [conformsOpN, afCtx, afOp, afQuery, expandSelsW, expandSelW, exN, expandSel, expandSels, conformsV, confSelsV,
    confSelV, keysSelsV, keysSelV,
    fragApplies, rtName, mxSchema, Json.lookup, accepts, acceptsNN, gtyOf, scalarOk, floatOk, stringOk, boolOk,
    Json.isNull, EnumSpec.nodup, List.range, List.range.loop, conformsAt, Schema.implementors, List.zipIdx])

set_option maxRecDepth 8000 in
theorem af_conforms : conformsOpN (afCtx afDog) (afOp afDog) afJson = true := by
  simp only [afDog, afJson]; confA_eval
set_option maxRecDepth 8000 in
theorem af2_conforms : conformsOpN (afCtx af2Dog) (afOp af2Dog) afJson = true := by
  simp only [af2Dog, afJson]; confA_eval
set_option maxRecDepth 8000 in
theorem af3_conforms : conformsOpN (afCtx af3Dog) (afOp af3Dog) af3Json = true := by
  simp only [af3Dog, af3Json]; confA_eval

theorem af_accepts :
    ∃ v, Serde.de (moduleEnv (afCtx afDog) afItems) (.path "ResponseData") afJson = .ok v :=
  aliasfrag_accepts (afCtx afDog) 0 (afOp afDog) afItems rfl af_class af_names af_keys af_gen af_ok afJson af_conforms

/-! ## concrete round trips -/

theorem centA_of_le (c : Ctx) {r0 g : Nat} (h : fragOkA c.s c.q c.o r0 (fragOn c.q g) g = true) :
    ∀ r, r0 ≤ r → ∀ kvs, centA c r g kvs = centA c r0 g kvs := by
  intro r hr
  induction hr with
  | refl => intro kvs; rfl
  | step hle ih =>
    intro kvs
    rw [centA, if_pos (fragOkA_le hle h)]
    exact ih kvs

abbrev A1 : Ctx := afCtx afDog
abbrev A2 : Ctx := afCtx af2Dog
abbrev A3 : Ctx := afCtx af3Dog

/-- `Mid` (fragment 1) is new at rank `1` (its body is the lone spread of the spread-free `Inner`), `Outer` (fragment 2)
    at rank `2`, `Mid2` (3) at rank `2`, `Outer2` (4) at rank `3` -/
abbrev afRanks (c : Ctx) : Prop :=
    fragOkA c.s c.q c.o 0 (fragOn c.q 1) 1 = false ∧ fragOkA c.s c.q c.o 1 (fragOn c.q 1) 1 = true ∧
    fragOkA c.s c.q c.o 1 (fragOn c.q 2) 2 = false ∧ fragOkA c.s c.q c.o 2 (fragOn c.q 2) 2 = true ∧
    fragOkA c.s c.q c.o 1 (fragOn c.q 3) 3 = false ∧ fragOkA c.s c.q c.o 2 (fragOn c.q 3) 3 = true ∧
    fragOkA c.s c.q c.o 2 (fragOn c.q 4) 4 = false ∧ fragOkA c.s c.q c.o 3 (fragOn c.q 4) 4 = true

theorem af_ranks : afRanks A1 := by decide +kernel
theorem af2_ranks : afRanks A2 := by decide +kernel
theorem af3_ranks : afRanks A3 := by decide +kernel

/-- the entries a fragment's type writes: `Outer` its own entry `name`, then the entries of the alias `Mid` — those of
    `Inner` -/
theorem af_cent (dog : List Sel) (hr : afRanks (afCtx dog)) (kvs : List (String × Json)) :
    (centA (afCtx dog) 5 2 kvs = canonEntriesN (centA (afCtx dog) 1) mxSchema (afQuery dog) false
        (fragSels (afQuery dog) 2) kvs) ∧
    (centA (afCtx dog) 1 1 kvs = canonEntriesN (centA (afCtx dog) 0) mxSchema (afQuery dog) false
        (fragSels (afQuery dog) 1) kvs) ∧
    (centA (afCtx dog) 0 0 kvs = canonEntriesV mxSchema false (fragSels (afQuery dog) 0) kvs) ∧
    (centA (afCtx dog) 5 4 kvs = canonEntriesN (centA (afCtx dog) 2) mxSchema (afQuery dog) false
        (fragSels (afQuery dog) 4) kvs) ∧
    (centA (afCtx dog) 2 3 kvs = canonEntriesN (centA (afCtx dog) 1) mxSchema (afQuery dog) false
        (fragSels (afQuery dog) 3) kvs) ∧
    (centA (afCtx dog) 5 1 kvs = centA (afCtx dog) 1 1 kvs) := by
  obtain ⟨m0, m1, o1, o2, n1, n2, p2, p3⟩ := hr
  refine ⟨?_, ?_, ?_, ?_, ?_, ?_⟩
  · rw [centA_of_le (afCtx dog) (r0 := 2) (by exact o2) 5 (by omega), centA,
      if_neg (by rw [o1]; simp)]; rfl
  · rw [centA, if_neg (by rw [m0]; simp)]; rfl
  · rw [centA]; rfl
  · rw [centA_of_le (afCtx dog) (r0 := 3) (by exact p3) 5 (by omega), centA,
      if_neg (by rw [p2]; simp)]; rfl
  · rw [centA, if_neg (by rw [n1]; simp)]; rfl
  · exact centA_of_le (afCtx dog) (r0 := 1) (by exact m1) 5 (by omega) kvs

macro "canonA_eval" : tactic => `(tactic|
  simp [canonSelN, canonEntriesN, canonFieldN, cwhole, afCtx,
    canonSelM, canonEntriesM, canonFieldM, canonSelV, canonSelD, canonEntriesD, canonFieldD, loneG, canonEntriesBD,
    canonVarD, onNamed, absEntries, absRest, hasStruct, isBSpread, isFieldSel, canonAbsV, canonEntriesV, canonFieldV,
    canonInlV, tagName, fragSels, afOp, afQuery, mxSchema, objName, rtName, fieldKeys, fieldKey, Json.lookup, canon, canonNN,
    gtyOf, Json.isNull, skipQ, normJson, normKvs, normList, Json.normObj, Json.insert])

set_option maxRecDepth 8000 in
/-- the canonical form of the payload: the own entry `name` of `Outer`, then the entry `barks` that comes through the alias
    `Mid` from `Inner` (`__typename` is not read at an object position, and not written back) -/
theorem af_canon_abs (dog : List Sel) (g2 g1 : Nat) (cent cent1 cent0 : Nat → List (String × Json) → List (String × Json))
    (hdog : dog = [.typename, .spread g2])
    (h2 : ∀ kvs, cent g2 kvs = canonEntriesN cent1 mxSchema (afQuery dog) false [.field none 2 [], .spread g1] kvs)
    (h1 : ∀ kvs, cent1 g1 kvs = cent0 0 kvs)
    (h0 : ∀ kvs, cent0 0 kvs = canonEntriesV mxSchema false (fragSels (afQuery dog) 0) kvs) :
    normJson (canonSelN cent mxSchema (afQuery dog) false (afOp dog).sels afJson) =
      .obj [("dog", .obj [("name", .str "Rex"), ("barks", .bool true)])] := by
  subst hdog
  simp only [afJson] at h0 h1 h2 ⊢
  simp only [canonSelN, canonEntriesN, canonFieldN, cwhole, afOp, h2]
  simp [canonSelN, canonEntriesN, canonFieldN, cwhole, h1, h0, afCtx,
    canonSelM, canonEntriesM, canonFieldM, canonSelV, canonSelD, canonEntriesD, canonFieldD, loneG, canonEntriesBD,
    canonVarD, onNamed, absEntries, absRest, hasStruct, isBSpread, isFieldSel, canonAbsV, canonEntriesV, canonFieldV,
    canonInlV, tagName, fragSels, afOp, afQuery, mxSchema, objName, rtName, fieldKeys, fieldKey, Json.lookup, canon, canonNN,
    gtyOf, Json.isNull, skipQ, normJson, normKvs, normList, Json.normObj, Json.insert]

theorem af_canon : normJson (canonSelN (centA A1 5) mxSchema (afQuery afDog) false (afOp afDog).sels afJson) =
    .obj [("dog", .obj [("name", .str "Rex"), ("barks", .bool true)])] :=
  af_canon_abs afDog 2 1 (centA A1 5) (centA A1 1) (centA A1 0) rfl (fun kvs => (af_cent afDog af_ranks kvs).1)
    (fun kvs => by rw [(af_cent afDog af_ranks kvs).2.1]; simp [canonEntriesN, fragSels, afQuery])
    (fun kvs => (af_cent afDog af_ranks kvs).2.2.1)

theorem af2_canon : normJson (canonSelN (centA A2 5) mxSchema (afQuery af2Dog) false (afOp af2Dog).sels afJson) =
    .obj [("dog", .obj [("name", .str "Rex"), ("barks", .bool true)])] :=
  af_canon_abs af2Dog 4 3 (centA A2 5) (centA A2 2) (centA A2 0) rfl (fun kvs => (af_cent af2Dog af2_ranks kvs).2.2.2.1)
    (fun kvs => by
      rw [(af_cent af2Dog af2_ranks kvs).2.2.2.2.1]
      have : canonEntriesN (centA (afCtx af2Dog) 1) mxSchema (afQuery af2Dog) false (fragSels (afQuery af2Dog) 3) kvs =
          centA (afCtx af2Dog) 1 1 kvs := by simp [canonEntriesN, fragSels, afQuery]
      rw [this, (af_cent af2Dog af2_ranks kvs).2.1]; simp [canonEntriesN, fragSels, afQuery])
    (fun kvs => (af_cent af2Dog af2_ranks kvs).2.2.1)

set_option maxRecDepth 8000 in
theorem af3_canon_abs (cent : Nat → List (String × Json) → List (String × Json))
    (h : ∀ kvs, cent 1 kvs = canonEntriesV mxSchema false (fragSels (afQuery af3Dog) 0) kvs) :
    normJson (canonSelN cent mxSchema (afQuery af3Dog) false (afOp af3Dog).sels af3Json) =
      .obj [("dog", .obj [("barks", .bool true)])] := by
  simp only [af3Dog, af3Json] at h ⊢
  simp only [canonSelN, canonEntriesN, canonFieldN, cwhole, afOp]
  simp [canonSelN, canonEntriesN, canonFieldN, cwhole, h, afCtx,
    canonSelM, canonEntriesM, canonFieldM, canonSelV, canonSelD, canonEntriesD, canonFieldD, loneG, canonEntriesBD,
    canonVarD, onNamed, absEntries, absRest, hasStruct, isBSpread, isFieldSel, canonAbsV, canonEntriesV, canonFieldV,
    canonInlV, tagName, fragSels, afOp, afQuery, mxSchema, objName, rtName, fieldKeys, fieldKey, Json.lookup, canon, canonNN,
    gtyOf, Json.isNull, skipQ, normJson, normKvs, normList, Json.normObj, Json.insert]

theorem af3_canon : normJson (canonSelN (centA A3 5) mxSchema (afQuery af3Dog) false (afOp af3Dog).sels af3Json) =
    .obj [("dog", .obj [("barks", .bool true)])] :=
  af3_canon_abs (centA A3 5) (fun kvs => by
    rw [(af_cent af3Dog af3_ranks kvs).2.2.2.2.2, (af_cent af3Dog af3_ranks kvs).2.1]
    have : canonEntriesN (centA (afCtx af3Dog) 0) mxSchema (afQuery af3Dog) false (fragSels (afQuery af3Dog) 1) kvs =
        centA (afCtx af3Dog) 0 0 kvs := by simp [canonEntriesN, fragSels, afQuery]
    rw [this, (af_cent af3Dog af3_ranks kvs).2.2.1])

/-- **`aliasfrag_roundtrip` on the generated module** (`struct Outer { name, #[serde(flatten)] Mid: Mid }`,
    `type Mid = Inner;`): the payload is accepted and written back -/
theorem af_roundtrip :
    Serde.roundtrip (moduleEnv (afCtx afDog) afItems) (.path "ResponseData") afJson =
      .ok (.obj [("dog", .obj [("name", .str "Rex"), ("barks", .bool true)])]) := by
  rw [aliasfrag_roundtrip (afCtx afDog) 0 (afOp afDog) afItems rfl af_class af_names af_keys af_rust af_gen af_ok
    afJson af_conforms]
  exact congrArg Except.ok af_canon

/-- … with two alias hops (`type Mid2 = Mid; type Mid = Inner;`, the flattened member `Mid2: Mid2`) -/
theorem af2_roundtrip :
    Serde.roundtrip (moduleEnv (afCtx af2Dog) af2Items) (.path "ResponseData") afJson =
      .ok (.obj [("dog", .obj [("name", .str "Rex"), ("barks", .bool true)])]) := by
  rw [aliasfrag_roundtrip (afCtx af2Dog) 0 (afOp af2Dog) af2Items rfl af2_class af2_names af2_keys af2_rust af2_gen af2_ok
    afJson af2_conforms]
  exact congrArg Except.ok af2_canon

/-- … and an alias chain at a non-flattened position (`type Qdog = Mid; type Mid = Inner;`) -/
theorem af3_roundtrip :
    Serde.roundtrip (moduleEnv (afCtx af3Dog) af3Items) (.path "ResponseData") af3Json =
      .ok (.obj [("dog", .obj [("barks", .bool true)])]) := by
  rw [aliasfrag_roundtrip (afCtx af3Dog) 0 (afOp af3Dog) af3Items rfl af3_class af3_names af3_keys af3_rust af3_gen af3_ok
    af3Json af3_conforms]
  exact congrArg Except.ok af3_canon

/-! ## the side conditions are needed (witnesses through an alias hop) -/

def kOpA : ROperation := { name := "Q", kind := .query, objectId := 0, sels := [.field none 0 [.spread 2]] }
/-- `fragment Inner on Dog { name }  fragment Mid on Dog { ...Inner }  fragment Outer on Dog { name ...Mid }`
    `query Q { dog { ...Outer } }` -/
def kQueryA : Query :=
  { operations := [kOpA]
    fragments := [{ name := "Inner", on := .object 1, sels := [.field none 2 []] },
                  { name := "Mid", on := .object 1, sels := [.spread 0] },
                  { name := "Outer", on := .object 1, sels := [.field none 2 [], .spread 1] }] }
def kCtxA : Ctx := { s := mxSchema, q := kQueryA, o := {}, cs := ⟨id, id⟩ }
def kItemsA : List Item := okOr (responseForQuery kCtxA 0)
def kJsonA : Json := .obj [("dog", .obj [("name", .str "Rex")])]

set_option maxRecDepth 8000 in
theorem kA_conforms : conformsOpN kCtxA kOpA kJsonA = true := by
  simp [conformsOpN, kCtxA, kOpA, kQueryA, kJsonA, expandSelsW, expandSelW, exN, expandSel, expandSels, conformsV, confSelsV,
    confSelV, keysSelsV, keysSelV,
    fragApplies, rtName, mxSchema, Json.lookup, accepts, acceptsNN, gtyOf, scalarOk, floatOk, stringOk, boolOk,
    Json.isNull, EnumSpec.nodup, List.range, List.range.loop, conformsAt, Schema.implementors, List.zipIdx]

/-- **`aliasKeysOk` is needed**: the fragment `Outer` selects `name`, and so does `Inner`, which `Outer` reaches through the
    type alias `Mid`; the operation is in `AliasFragOp`, every other hypothesis of `aliasfrag_accepts` holds, the response
    conforms — and is rejected (`missing field name`: the struct `Outer` took the entry, its flattened member of the alias
    type `Mid` does not see it any more) -/
theorem aliasfrag_keys_needed :
    AliasFragOp kCtxA kOpA = true ∧ aliasKeysOk kCtxA kOpA = false ∧ fragNamesOk kCtxA = true ∧
    aliasRustOk kCtxA kOpA = true ∧ AcyclicM.spreadCheck kCtxA.q = true ∧
    responseForQuery kCtxA 0 = .ok kItemsA ∧ moduleOk kCtxA kItemsA = true ∧ conformsOpN kCtxA kOpA kJsonA = true ∧
    okB (Serde.de (moduleEnv kCtxA kItemsA) (.path "ResponseData") kJsonA) = false :=
  ⟨by decide +kernel, by decide +kernel, by decide +kernel, by decide +kernel, by decide +kernel,
   gen_of_isOk (by decide +kernel), by decide +kernel, kA_conforms, by decide +kernel⟩

def rOpA : ROperation := { name := "Q", kind := .query, objectId := 0, sels := [.field none 0 [.spread 2]] }
/-- `fragment Inner on Dog { barks }  fragment Mid on Dog { ...Inner }  fragment Outer on Dog { Mid: name ...Mid }`
    `query Q { dog { ...Outer } }` -/
def rQueryA : Query :=
  { operations := [rOpA]
    fragments := [{ name := "Inner", on := .object 1, sels := [.field none 3 []] },
                  { name := "Mid", on := .object 1, sels := [.spread 0] },
                  { name := "Outer", on := .object 1, sels := [.field (some "Mid") 2 [], .spread 1] }] }
def rCtxA : Ctx := { s := mxSchema, q := rQueryA, o := {}, cs := ⟨id, id⟩ }
def rItemsA : List Item := okOr (responseForQuery rCtxA 0)
def rJsonA : Json := .obj [("dog", .obj [("Mid", .str "Rex"), ("barks", .bool true)])]

set_option maxRecDepth 8000 in
theorem rA_conforms : conformsOpN rCtxA rOpA rJsonA = true := by
  simp [conformsOpN, rCtxA, rOpA, rQueryA, rJsonA, expandSelsW, expandSelW, exN, expandSel, expandSels, conformsV, confSelsV,
    confSelV, keysSelsV, keysSelV,
    fragApplies, rtName, mxSchema, Json.lookup, accepts, acceptsNN, gtyOf, scalarOk, floatOk, stringOk, boolOk,
    Json.isNull, EnumSpec.nodup, List.range, List.range.loop, conformsAt, Schema.implementors, List.zipIdx]

/-- **`aliasRustOk` is needed**: the own field of `Outer` with the alias `Mid` and the flattened member for `...Mid` (of the
    alias type `Mid`) get the same Rust name; every other hypothesis of `aliasfrag_roundtrip` holds, the response conforms —
    and the round trip fails (rustc would reject the struct) -/
theorem aliasfrag_rust_needed :
    AliasFragOp rCtxA rOpA = true ∧ aliasKeysOk rCtxA rOpA = true ∧ fragNamesOk rCtxA = true ∧
    aliasRustOk rCtxA rOpA = false ∧ AcyclicM.spreadCheck rCtxA.q = true ∧
    responseForQuery rCtxA 0 = .ok rItemsA ∧ moduleOk rCtxA rItemsA = true ∧ conformsOpN rCtxA rOpA rJsonA = true ∧
    okB (Serde.roundtrip (moduleEnv rCtxA rItemsA) (.path "ResponseData") rJsonA) = false :=
  ⟨by decide +kernel, by decide +kernel, by decide +kernel, by decide +kernel, by decide +kernel,
   gen_of_isOk (by decide +kernel), by decide +kernel, rA_conforms, by decide +kernel⟩

/-- an alias cycle is outside the class: `fragment A on Dog { ...B }  fragment B on Dog { ...A }  query Q { dog { ...A } }` -/
def cyOp : ROperation := { name := "Q", kind := .query, objectId := 0, sels := [.field none 0 [.spread 0]] }
def cyQuery : Query :=
  { operations := [cyOp]
    fragments := [{ name := "A", on := .object 1, sels := [.spread 1] },
                  { name := "B", on := .object 1, sels := [.spread 0] }] }
def cyCtx : Ctx := { s := mxSchema, q := cyQuery, o := {}, cs := ⟨id, id⟩ }
theorem alias_cycle_not_in_class : AliasFragOp cyCtx cyOp = false := by decide +kernel

end C01AF
end GqlVerif
