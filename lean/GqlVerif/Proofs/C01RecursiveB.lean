import GqlVerif.Proofs.C01RecursiveA
/-!
# C01 / C03 end to end, step 3 (`RecFragmentOp`), part B: what the emitted types accept, exactly

* serde: `deStructMap_flatR` — the reader of a struct with own fields and any number of flattened plain-struct
  members, **each possibly behind `Box`** (`deFlat_box`: `Box` costs the flattened reader one unit of fuel and
  nothing else), as one equation; generalises `deStructMap_flat` of `C01AbstractG`.
* `conformsLooseR s q o n b sels j` — the exact acceptance predicate.  Fragment bodies are followed, so it cannot
  recurse on the selection tree; it recurses on the **payload**: `n` bounds the size of the JSON value and is
  decremented at every step from an object to the value of one of its fields (`looseBodyP` is one level).
* `accR` — by induction on `n`: for every payload `j` with `jsonSize j ≤ n`, every object-level selection set of the
  class, and fuel `≥ 4 n + 2 D + 4` (`D`: static depth of the selection sets), the emitted type accepts `j` **iff**
  `conformsLooseR … n … j`.  The hypotheses on the fragments are collected in `RWorld e c G D` (a closed set `G`
  of fragments of the class whose structs are in the environment, keys disjoint, static depth `≤ D`).
* `depthR_sels` (static depth ≤ number of emitted items), `usedFrags_reach` (the closure `usedFrags` only contains
  reachable fragments), `envSelsR_of` (the environment hypotheses hold for an emitted module).
-/
set_option linter.unusedSimpArgs false
set_option linter.unusedVariables false
set_option linter.unusedSectionVars false
set_option linter.unnecessarySimpa false
namespace GqlVerif
namespace C01
namespace E2E
open Serde Spec C13 C03 Codegen

/-! ## the size of a payload -/

theorem jsonSize_mem : ∀ {xs : List Json} {x : Json}, x ∈ xs → jsonSize x ≤ jsonsSize xs
  | [], _, h => by simp at h
  | y :: ys, x, h => by
    rw [jsonsSize]
    rcases List.mem_cons.mp h with rfl | h'
    · omega
    · have := jsonSize_mem h'; omega

theorem jsonSize_lookup {k : String} {v : Json} : ∀ {kvs : List (String × Json)}, Json.lookup k kvs = some v →
    jsonSize v ≤ kvsSize kvs
  | [], h => by simp [Json.lookup] at h
  | (k', v') :: rest, h => by
    rw [kvsSize]
    rw [Json.lookup] at h
    split at h
    · cases h; omega
    · have := jsonSize_lookup h; omega

theorem jsonSize_arr (xs : List Json) : jsonSize (.arr xs) = 1 + jsonsSize xs := by rw [jsonSize]
theorem jsonSize_obj (kvs : List (String × Json)) : jsonSize (.obj kvs) = 1 + kvsSize kvs := by rw [jsonSize]

theorem all_congr_mem {α} {f g : α → Bool} : ∀ {l : List α}, (∀ x ∈ l, f x = g x) → l.all f = l.all g
  | [], _ => rfl
  | a :: l, h => by
    rw [List.all_cons, List.all_cons, h a (by simp), all_congr_mem (fun x hx => h x (by simp [hx]))]

/-- `accepts` only looks at the value and (recursively) at the elements of arrays: two leaf predicates that agree
    on all values of size ≤ `n` give the same verdict on a value of size ≤ `n` -/
theorem accepts_congr_size (f g : Json → Bool) (n : Nat) (h : ∀ j, jsonSize j ≤ n → f j = g j) :
    ∀ t : GTy, (∀ j, jsonSize j ≤ n → acceptsNN f t j = acceptsNN g t j) ∧
               (∀ j, jsonSize j ≤ n → accepts f t j = accepts g t j) := by
  intro t
  induction t with
  | named nm =>
    have hnn : ∀ j, jsonSize j ≤ n → acceptsNN f (.named nm) j = acceptsNN g (.named nm) j := by
      intro j hj; simp only [acceptsNN]; exact h j hj
    exact ⟨hnn, fun j hj => by simp only [accepts, hnn j hj]⟩
  | list t ih =>
    have hnn : ∀ j, jsonSize j ≤ n → acceptsNN f (.list t) j = acceptsNN g (.list t) j := by
      intro j hj
      cases j with
      | arr xs =>
        simp only [acceptsNN]
        apply all_congr_mem
        intro x hx
        have := jsonSize_mem hx
        rw [jsonSize_arr] at hj
        exact ih.2 x (by omega)
      | null => simp only [acceptsNN]
      | bool _ => simp only [acceptsNN]
      | int _ => simp only [acceptsNN]
      | num _ => simp only [acceptsNN]
      | str _ => simp only [acceptsNN]
      | obj _ => simp only [acceptsNN]
    exact ⟨hnn, fun j hj => by simp only [accepts, hnn j hj]⟩
  | nonNull t ih =>
    exact ⟨fun j hj => by simp only [acceptsNN]; exact ih.1 j hj, fun j hj => by simp only [accepts]; exact ih.1 j hj⟩

/-! ## serde: flattened plain-struct members, possibly behind `Box` -/

/-- the struct a flattened member points to, directly or behind one `Box` -/
def memberPath : RTy → Option String
  | .path q => some q
  | .box (.path q) => some q
  | _ => none

/-- `Box` costs the flattened reader one unit of fuel -/
def boxCost : RTy → Nat
  | .box _ => 1
  | _ => 0

def memberFieldsR (e : Env) (g : RField) : List RField :=
  match memberPath g.ty with
  | some q => (match e.find q with | some (.struct _ _ _ G) => G | _ => [])
  | none => []

def memberKeysR (e : Env) (g : RField) : List String := (memberFieldsR e g).map (·.wire)

/-- the member is a plain struct item of the environment, directly or behind one `Box` -/
def MemberOkR (e : Env) (g : RField) : Prop :=
  ∃ q n d c, (g.ty = .path q ∨ g.ty = .box (.path q)) ∧ e.find q = some (.struct n d c (memberFieldsR e g)) ∧
    plain (memberFieldsR e g) = true

/-- what the flattened members read, each from the **whole** object (a boxed member with one unit of fuel less) -/
def flatValsR (e : Env) (fuel : Nat) (kvs : List (String × Json)) : List RField → D (List (String × Val))
  | [] => pure []
  | g :: fs =>
    if !g.flatten then flatValsR e fuel kvs fs else do
      let own ← deOwnWith (dePath e true (fuel - boxCost g.ty)) (memberFieldsR e g) kvs
      let rest ← flatValsR e fuel kvs fs
      pure ((g.rust, .record own) :: rest)

theorem deFlat_box (e : Env) (fuel : Nat) (t : RTy) (buf : Buf) :
    deFlat e (fuel + 1) (.box t) buf = deFlat e fuel t buf := by
  rw [deFlat]

/-- one (possibly boxed) plain-struct member: takes its keys -/
theorem deFlat_memberR (e : Env) (fuel : Nat) (g : RField) (buf : Buf) (hok : MemberOkR e g) :
    deFlat e (fuel + 2) g.ty buf =
      (do let own ← deOwnWith (dePath e true (fuel + 1 - boxCost g.ty)) (memberFieldsR e g)
                      (takeKeys (memberKeysR e g) buf).1
          pure (.record own, (takeKeys (memberKeysR e g) buf).2)) := by
  obtain ⟨q, n, d, c, hty, hfind, hpl⟩ := hok
  rcases hty with hty | hty
  · rw [hty, deFlat_plain_struct e (fuel + 1) q n d c _ buf hfind hpl]
    simp [boxCost, memberKeysR]
  · rw [hty, deFlat_box, deFlat_plain_struct e fuel q n d c _ buf hfind hpl]
    simp [boxCost, memberKeysR]

/-- with pairwise disjoint key sets every flattened member reads exactly what it would read from the whole object -/
theorem deFlatsR_eq (e : Env) (fuel : Nat) (kvs : List (String × Json)) :
    ∀ (fs : List RField) (buf : Buf), (∀ g ∈ fs, g.flatten = true → MemberOkR e g) →
      (∀ g ∈ fs, g.flatten = true → (present buf).filter (fun kv => (memberKeysR e g).contains kv.1) =
        kvs.filter (fun kv => (memberKeysR e g).contains kv.1)) →
      fs.Pairwise (fun g g' => g.flatten = true → g'.flatten = true → ∀ k ∈ memberKeysR e g', k ∉ memberKeysR e g) →
      deFlatsWith (deFlat e (fuel + 2)) fs buf = flatValsR e (fuel + 1) kvs fs
  | [], _, _, _, _ => rfl
  | g :: fs, buf, hok, hbuf, hpw => by
    rw [List.pairwise_cons] at hpw
    cases hg : g.flatten
    · simp only [deFlatsWith, flatValsR, hg, Bool.not_false, ↓reduceIte]
      exact deFlatsR_eq e fuel kvs fs buf (fun g' h' => hok g' (List.mem_cons_of_mem _ h'))
        (fun g' h' => hbuf g' (List.mem_cons_of_mem _ h')) hpw.2
    · have hm := hok g (by simp) hg
      simp only [deFlatsWith, flatValsR, hg, Bool.not_true, Bool.false_eq_true, ↓reduceIte,
        deFlat_memberR e fuel g buf hm, takeKeys_fst]
      have h1 := hbuf g (by simp) hg
      rw [h1]
      have hfil : deOwnWith (dePath e true (fuel + 1 - boxCost g.ty)) (memberFieldsR e g)
          (kvs.filter (fun kv => (memberKeysR e g).contains kv.1)) =
          deOwnWith (dePath e true (fuel + 1 - boxCost g.ty)) (memberFieldsR e g) kvs :=
        deOwn_filter _ _ kvs _ (fun f hf _ => List.mem_map_of_mem hf)
      rw [hfil]
      have ih := deFlatsR_eq e fuel kvs fs (takeKeys (memberKeysR e g) buf).2
        (fun g' h' => hok g' (List.mem_cons_of_mem _ h'))
        (by
          intro g' h' hf'
          rw [takeKeys_snd]
          rw [filter_filter_disjoint (present buf) (memberKeysR e g) (memberKeysR e g') (hpw.1 g' h' hg hf')]
          exact hbuf g' (List.mem_cons_of_mem _ h') hf')
        hpw.2
      cases deOwnWith (dePath e true (fuel + 1 - boxCost g.ty)) (memberFieldsR e g) kvs with
      | error err => rfl
      | ok own =>
        simp only [bind, Except.bind, pure, Except.pure]
        rw [ih]

/-- **the reader of a struct with flattened (possibly boxed) plain-struct members, as one equation** -/
theorem deStructMap_flatR (e : Env) (fuel : Nat) (pathD : String → Json → D Val) (fields : List RField)
    (kvs : List (String × Json)) (hany : fields.any (·.flatten) = true)
    (hok : ∀ g ∈ fields, g.flatten = true → MemberOkR e g)
    (hown : ∀ g ∈ fields, g.flatten = true → ∀ k ∈ memberKeysR e g,
      k ∉ (fields.filter (fun f => !f.flatten)).map (·.wire))
    (hpw : fields.Pairwise (fun g g' => g.flatten = true → g'.flatten = true →
      ∀ k ∈ memberKeysR e g', k ∉ memberKeysR e g)) :
    deStructMapWith pathD (deFlat e (fuel + 2)) fields kvs =
      (do let own ← deOwnWith pathD (fields.filter (fun f => !f.flatten)) kvs
          let fl ← flatValsR e (fuel + 1) kvs fields
          pure (.record (fields.filterMap fun f => (own ++ fl).find? (·.1 == f.rust)))) := by
  unfold deStructMapWith
  simp only [hany, ↓reduceIte]
  rw [deOwn_filter_flatten pathD kvs fields,
    deFlatsR_eq e fuel kvs fields _ hok (by
      intro g hg hf
      rw [present_map_some]
      exact filter_filter_disjoint kvs _ _ (hown g hg hf)) hpw]

theorem okB_flatValsR (e : Env) (fuel : Nat) (kvs : List (String × Json)) : ∀ (fs : List RField),
    okB (flatValsR e fuel kvs fs) =
      (fs.filter (·.flatten)).all (fun g => okB (deOwnWith (dePath e true (fuel - boxCost g.ty)) (memberFieldsR e g) kvs))
  | [] => rfl
  | g :: fs => by
    have ih := okB_flatValsR e fuel kvs fs
    cases hg : g.flatten
    · simp only [flatValsR, hg, Bool.not_false, ↓reduceIte, List.filter_cons, Bool.false_eq_true]
      exact ih
    · simp only [flatValsR, hg, Bool.not_true, Bool.false_eq_true, ↓reduceIte, List.filter_cons, List.all_cons, ← ih]
      cases deOwnWith (dePath e true (fuel - boxCost g.ty)) (memberFieldsR e g) kvs <;>
        cases flatValsR e fuel kvs fs <;> rfl


/-! ## the exact acceptance predicate for `RecFragmentOp`

Fragment bodies are followed, so the predicate cannot recurse on the selection tree; it recurses on the
**payload**: `conformsLooseR s q o n b sels j` is defined by recursion on `n`, a bound on the nesting of the JSON
value (`jsonSize j ≤ n` is enough, `conformsLooseR_stable`): every step from an object to the value of one of its
fields decrements `n`. -/

section LooseDefs
variable (s : Schema) (q : Query) (o : Options)

/-- the value under a selected field's key; `rec b sub`: what the type emitted for the sub-selection `sub` of an
    object-typed field accepts -/
def looseFieldP (rec : Bool → List Sel → Json → Bool) (b : Bool) : Sel → Json → Bool
  | .field a fid sub, v =>
    match s.fields[fid]? with
    | none => false
    | some sf =>
      match sf.ty.id with
      | .object i => (match s.objects[i]? with
        | some _ => accepts (rec b sub) (gtyOf sf.ty.quals) v
        | none => false)
      | _ => looseFieldV s o b (.field a fid sub) v
  | _, _ => true

/-- the own fields of the struct (spreads contribute no own field) -/
def looseOwnP (rec : Bool → List Sel → Json → Bool) (b : Bool) : List Sel → List (String × Json) → Bool
  | [], _ => true
  | .field a fid sub :: xs, kvs =>
    (match s.fields[fid]? with
     | none => false
     | some sf =>
       decide (countKey (a.getD sf.name) kvs ≤ 1) &&
       (match Json.lookup (a.getD sf.name) kvs with
        | none => nullableQ sf.ty.quals
        | some v => looseFieldP s o rec b (.field a fid sub) v)) && looseOwnP rec b xs kvs
  | _ :: xs, kvs => looseOwnP rec b xs kvs

def looseArrP (rec : Bool → List Sel → Json → Bool) (b : Bool) : List Sel → List Json → Bool
  | [], _ => true
  | .field a fid sub :: xs, vs =>
    (match vs with
     | [] => false
     | v :: vs' => looseFieldP s o rec b (.field a fid sub) v && looseArrP rec b xs vs')
  | _ :: xs, vs => looseArrP rec b xs vs

/-- the flattened members: each fragment struct reads the fields of its body from the same object, as buffered
    content -/
def looseMemP (rec : Bool → List Sel → Json → Bool) : List Sel → List (String × Json) → Bool
  | [], _ => true
  | .spread g :: xs, kvs => looseOwnP s o rec true (fragSels q g) kvs && looseMemP rec xs kvs
  | _ :: xs, kvs => looseMemP rec xs kvs

/-- a struct with own fields and flattened members; a JSON array is read positionally only without members -/
def looseStructP (rec : Bool → List Sel → Json → Bool) (b : Bool) (sels : List Sel) : Json → Bool
  | .obj kvs => looseOwnP s o rec b sels kvs && looseMemP s q o rec sels kvs
  | .arr xs => !sels.any isSpread && looseArrP s o rec b sels xs
  | _ => false

/-- a lone spread is the fragment struct itself (type alias, possibly to `Box<F>`) -/
def looseBodyP (rec : Bool → List Sel → Json → Bool) (b : Bool) (sels : List Sel) (j : Json) : Bool :=
  match sels with
  | [.spread g] => looseStructP s q o rec b (fragSels q g) j
  | _ => looseStructP s q o rec b sels j

/-- **what the type emitted for an object-level selection set of `RecFragmentOp` accepts**, for payloads of size
    `≤ n` -/
def conformsLooseR : Nat → Bool → List Sel → Json → Bool
  | 0 => fun _ _ _ => false
  | n + 1 => looseBodyP s q o (conformsLooseR n)

end LooseDefs

/-! ## environment -/

/-- the alias of a lone spread: to the fragment struct or to `Box` of it -/
def AliasEnvR (e : Env) (name target : String) : Prop :=
  notPrim name ∧ name ≠ "ID" ∧
    ∃ n pub, ∃ bx : Bool, e.find name = some (.alias n pub (if bx then .box (.path target) else .path target))

mutual
  def envSelR (e : Env) (c : Ctx) (pfx : String) : Sel → Prop
    | .field a fid sub =>
      match c.s.fields[fid]? with
      | none => True
      | some sf =>
        match sf.ty.id with
        | .object _ =>
          (match sub with
           | [.spread g] => AliasEnvR e (pfx ++ c.cs.camel (a.getD sf.name)) (fragName c g)
           | _ => StructEnv e (pfx ++ c.cs.camel (a.getD sf.name)) (fieldsOfR c (pfx ++ c.cs.camel (a.getD sf.name)) sub) ∧
                  envSelsR e c (pfx ++ c.cs.camel (a.getD sf.name)) sub)
        | _ => envSelV e c pfx (.field a fid sub)
    | _ => True
  def envSelsR (e : Env) (c : Ctx) (pfx : String) : List Sel → Prop
    | [] => True
    | x :: xs => envSelR e c pfx x ∧ envSelsR e c pfx xs
end

/-- the struct of the fragment `g` (and its nested items) are what its name resolves to -/
def FragEnvR (e : Env) (c : Ctx) (g : Nat) : Prop :=
  match c.q.fragments[g]? with
  | some f => StructEnv e f.name (fieldsOfR c (c.cs.camel f.name) f.sels) ∧ envSelsR e c (c.cs.camel f.name) f.sels
  | none => True

/-- what the name of an object-level selection set resolves to -/
def BodyEnvR (e : Env) (c : Ctx) (name pfx : String) (sels : List Sel) : Prop :=
  match sels with
  | [.spread g] => AliasEnvR e name (fragName c g)
  | _ => StructEnv e name (fieldsOfR c pfx sels) ∧ envSelsR e c pfx sels

/-- **the fragments of the operation**: a set `G` of fragment numbers that is closed under "spread in the body
    of", all of the class, all with their struct in the environment, keys disjoint between a fragment and its
    siblings at every level inside their bodies, bodies of static depth `≤ D` -/
structure RWorld (e : Env) (c : Ctx) (G : List Nat) (D : Nat) : Prop where
  closed : ∀ g ∈ G, ∀ g' ∈ spreadIdss (fragSels c.q g), g' ∈ G
  ok : ∀ g ∈ G, fragBodyOk c.s c.q c.o g = true
  env : ∀ g ∈ G, FragEnvR e c g
  keys : ∀ g ∈ G, keysOksF c.s c.q (fragSels c.q g) = true ∧ EnumSpec.nodup (expKeys c.s c.q (fragSels c.q g)) = true
  depth : ∀ g ∈ G, selsDepth (fragSels c.q g) ≤ D

/-! ## facts about the emitted fields -/

theorem fieldOfSelR_field (c : Ctx) (pfx : String) (a : Option String) (fid : Nat) (sub : List Sel) :
    fieldOfSelR c pfx (.field a fid sub) = fieldOfSelV c pfx (.field a fid sub) := rfl

/-- every `.field` of the class yields a field; same data as for `VariantOp` -/
theorem fieldOfSelV_r (c : Ctx) (pfx : String) (p : TypeId) (a : Option String) (fid : Nat) (sub : List Sel)
    (ht : rSel c.s c.q c.o p (.field a fid sub) = true) :
    ∃ sf ft, c.s.fields[fid]? = some sf ∧ leafNameV c pfx (a.getD sf.name) sf.ty.id = some ft ∧
      fieldOfSelV c pfx (.field a fid sub) = some (fieldOf c (a.getD sf.name) ft sf.ty.quals sf.deprecation) ∧
      wfQuals sf.ty.quals = true := by
  rw [rSel] at ht
  cases hsf : c.s.fields[fid]? with
  | none => simp [hsf] at ht
  | some sf =>
    simp only [hsf, Bool.and_eq_true] at ht
    obtain ⟨⟨hw, _⟩, hty⟩ := ht
    cases hid : sf.ty.id with
    | scalar k =>
      simp only [hid, Bool.and_eq_true] at hty
      cases hk : c.s.scalars[k]? with
      | none => simp [hk] at hty
      | some sn => exact ⟨sf, sn, rfl, by simp [leafNameV, hid, hk], by simp [fieldOfSelV, hsf, leafNameV, hid, hk], hw⟩
    | «enum» k =>
      simp only [hid, Bool.and_eq_true] at hty
      cases hk : c.s.enums[k]? with
      | none => simp [hk] at hty
      | some en => exact ⟨sf, en.name, rfl, by simp [leafNameV, hid, hk], by simp [fieldOfSelV, hsf, leafNameV, hid, hk], hw⟩
    | object i => exact ⟨sf, pfx ++ c.cs.camel (a.getD sf.name), rfl, by simp [leafNameV, hid], by simp [fieldOfSelV, hsf, leafNameV, hid], hw⟩
    | interface k => exact ⟨sf, pfx ++ c.cs.camel (a.getD sf.name), rfl, by simp [leafNameV, hid], by simp [fieldOfSelV, hsf, leafNameV, hid], hw⟩
    | union k => exact ⟨sf, pfx ++ c.cs.camel (a.getD sf.name), rfl, by simp [leafNameV, hid], by simp [fieldOfSelV, hsf, leafNameV, hid], hw⟩
    | input k => simp [hid] at hty

/-- the own (non-flattened) fields of the struct are `fieldsOfV` of the selection set -/
theorem own_fieldsOfR (c : Ctx) (pfx : String) (p : TypeId) : ∀ (sels : List Sel), rSels c.s c.q c.o p sels = true →
    (fieldsOfR c pfx sels).filter (fun f => !f.flatten) = fieldsOfV c pfx sels
  | [], _ => rfl
  | x :: xs, ht => by
    obtain ⟨hx, hxs⟩ := rSels_cons ht
    have ih := own_fieldsOfR c pfx p xs hxs
    rw [fieldsOfR_cons, List.filter_append, ih]
    cases x with
    | field a fid sub =>
      obtain ⟨sf, ft, _, _, hf, _⟩ := fieldOfSelV_r c pfx p a fid sub hx
      rw [fieldOfSelR_field, hf, fieldsOfV_cons_field c pfx _ xs _ hf]
      simp [fieldOf]
    | spread g =>
      have hok : spreadOk c.q p g = true := by simpa [rSel] using hx
      obtain ⟨fr, hfr, _⟩ := spreadOk_parts hok
      rw [fieldsOfV_cons_none c pfx _ xs rfl]
      simp [fieldOfSelR, hfr, spreadFieldR]
    | inline t sub => simp [rSel] at hx
    | typename => rw [fieldsOfV_cons_none c pfx _ xs rfl]; simp [fieldOfSelR, fieldOfSelV]

theorem any_flatten_fieldsOfR (c : Ctx) (pfx : String) (p : TypeId) : ∀ (sels : List Sel), rSels c.s c.q c.o p sels = true →
    (fieldsOfR c pfx sels).any (·.flatten) = sels.any isSpread
  | [], _ => rfl
  | x :: xs, ht => by
    obtain ⟨hx, hxs⟩ := rSels_cons ht
    have ih := any_flatten_fieldsOfR c pfx p xs hxs
    rw [fieldsOfR_cons, List.any_append, ih, List.any_cons]
    cases x with
    | field a fid sub =>
      obtain ⟨sf, ft, _, _, hf, _⟩ := fieldOfSelV_r c pfx p a fid sub hx
      rw [fieldOfSelR_field, hf]; simp [fieldOf, isSpread]
    | spread g =>
      have hok : spreadOk c.q p g = true := by simpa [rSel] using hx
      obtain ⟨fr, hfr, _⟩ := spreadOk_parts hok
      simp [fieldOfSelR, hfr, spreadFieldR, isSpread]
    | inline t sub => simp [rSel] at hx
    | typename => simp [fieldOfSelR, fieldOfSelV, isSpread]

/-- without a spread at the top level the struct is plain: its fields are `fieldsOfV` -/
theorem fieldsOfR_noTop (c : Ctx) (pfx : String) : ∀ (sels : List Sel), sels.any isSpread = false →
    fieldsOfR c pfx sels = fieldsOfV c pfx sels
  | [], _ => rfl
  | x :: xs, h => by
    simp only [List.any_cons, Bool.or_eq_false_iff] at h
    have ih := fieldsOfR_noTop c pfx xs h.2
    cases x with
    | spread g => have := h.1; simp [isSpread] at this
    | field a fid sub => simp only [fieldsOfR, fieldsOfV, List.filterMap_cons, fieldOfSelR] at ih ⊢; rw [ih]
    | inline t sub => simp only [fieldsOfR, fieldsOfV, List.filterMap_cons, fieldOfSelR] at ih ⊢; rw [ih]
    | typename => simp only [fieldsOfR, fieldsOfV, List.filterMap_cons, fieldOfSelR] at ih ⊢; rw [ih]

theorem wire_fieldsOfV_r (c : Ctx) (pfx : String) (p : TypeId) : ∀ (sels : List Sel), rSels c.s c.q c.o p sels = true →
    (fieldsOfV c pfx sels).map (·.wire) = fieldKeys c.s sels
  | [], _ => rfl
  | x :: xs, ht => by
    obtain ⟨hx, hxs⟩ := rSels_cons ht
    have ih := wire_fieldsOfV_r c pfx p xs hxs
    cases x with
    | field a fid sub =>
      obtain ⟨sf, ft, hsf, _, hf, _⟩ := fieldOfSelV_r c pfx p a fid sub hx
      rw [fieldsOfV_cons_field c pfx _ xs _ hf, List.map_cons, ih, fieldOf_wire]
      simp [fieldKeys, List.filterMap_cons, fieldKey, hsf]
    | spread g =>
      rw [fieldsOfV_cons_none c pfx _ xs rfl, ih]; simp [fieldKeys, List.filterMap_cons, fieldKey]
    | inline t sub => simp [rSel] at hx
    | typename =>
      rw [fieldsOfV_cons_none c pfx _ xs rfl, ih]; simp [fieldKeys, List.filterMap_cons, fieldKey]

theorem envSelsR_mem {e : Env} {c : Ctx} {pfx : String} : ∀ {sels : List Sel}, envSelsR e c pfx sels →
    ∀ x ∈ sels, envSelR e c pfx x
  | [], _, _, hx => by simp at hx
  | y :: ys, h, x, hx => by
    rw [envSelsR] at h
    rcases List.mem_cons.mp hx with rfl | hx'
    · exact h.1
    · exact envSelsR_mem h.2 x hx'

/-- the data of a reachable fragment -/
theorem world_frag {e : Env} {c : Ctx} {G : List Nat} {D : Nat} (W : RWorld e c G D) {g : Nat} (hg : g ∈ G) :
    ∃ f i, c.q.fragments[g]? = some f ∧ f.on = .object i ∧ fragSels c.q g = f.sels ∧ fragName c g = f.name ∧
      f.sels.any isSpread = false ∧ rSels c.s c.q c.o (.object i) f.sels = true ∧
      StructEnv e f.name (fieldsOfV c (c.cs.camel f.name) f.sels) ∧ envSelsR e c (c.cs.camel f.name) f.sels ∧
      keysOksF c.s c.q f.sels = true ∧ EnumSpec.nodup (expKeys c.s c.q f.sels) = true ∧
      (∀ g' ∈ spreadIdss f.sels, g' ∈ G) ∧ selsDepth f.sels ≤ D := by
  obtain ⟨f, i, hf, hon, _, hnt, hr⟩ := fragBodyOk_parts (W.ok g hg)
  have hsels : fragSels c.q g = f.sels := by simp [fragSels, hf]
  have hname : fragName c g = f.name := by simp [fragName, hf]
  have henv := W.env g hg
  unfold FragEnvR at henv
  rw [hf] at henv
  have henv : StructEnv e f.name (fieldsOfR c (c.cs.camel f.name) f.sels) ∧ envSelsR e c (c.cs.camel f.name) f.sels := henv
  rw [fieldsOfR_noTop c _ f.sels hnt] at henv
  have hk := W.keys g hg
  have hc := W.closed g hg
  have hd := W.depth g hg
  rw [hsels] at hk hc hd
  exact ⟨f, i, hf, hon, hsels, hname, hnt, hr, henv.1, henv.2, hk.1, hk.2, hc, hd⟩

theorem memberFieldsR_spread (e : Env) (c : Ctx) (g : Nat) (f : RFragment)
    (hs : StructEnv e f.name (fieldsOfV c (c.cs.camel f.name) f.sels)) :
    memberFieldsR e (spreadFieldR c g f) = fieldsOfV c (c.cs.camel f.name) f.sels ∧ MemberOkR e (spreadFieldR c g f) := by
  obtain ⟨_, _, n, d, cr, hfind⟩ := hs
  have h1 : memberFieldsR e (spreadFieldR c g f) = fieldsOfV c (c.cs.camel f.name) f.sels := by
    unfold memberFieldsR spreadFieldR
    cases fragmentIsRecursive c.q g <;> simp [memberPath, hfind]
  refine ⟨h1, f.name, n, d, cr, ?_, by rw [h1]; exact hfind, by rw [h1]; exact plain_fieldsOfV _ _ _⟩
  unfold spreadFieldR
  cases fragmentIsRecursive c.q g <;> simp

theorem mem_spreadIdss_spread {g : Nat} : ∀ {sels : List Sel}, Sel.spread g ∈ sels → g ∈ spreadIdss sels
  | [], h => by simp at h
  | x :: xs, h => by
    rw [spreadIdss, List.mem_append]
    rcases List.mem_cons.mp h with rfl | h'
    · left; simp [spreadIds]
    · right; exact mem_spreadIdss_spread h'

theorem mem_spreadIdss_field {a : Option String} {fid : Nat} {sub : List Sel} {g : Nat} :
    ∀ {sels : List Sel}, Sel.field a fid sub ∈ sels → g ∈ spreadIdss sub → g ∈ spreadIdss sels
  | [], h, _ => by simp at h
  | x :: xs, h, hg => by
    rw [spreadIdss, List.mem_append]
    rcases List.mem_cons.mp h with rfl | h'
    · left; rw [spreadIds]; exact hg
    · right; exact mem_spreadIdss_field h' hg

section FlatHyps
variable {e : Env} {c : Ctx} {G : List Nat} {D : Nat} (W : RWorld e c G D)
include W

/-- from "the keys of the expanded selection set are pairwise distinct" to the hypotheses of `deStructMap_flatR` -/
theorem flat_hypsR (pfx : String) (p : TypeId) : ∀ (sels : List Sel),
    rSels c.s c.q c.o p sels = true → (∀ g, Sel.spread g ∈ sels → g ∈ G) → (expKeys c.s c.q sels).Nodup →
    (∀ g ∈ fieldsOfR c pfx sels, g.flatten = true → MemberOkR e g ∧ ∀ k ∈ memberKeysR e g, k ∈ expKeys c.s c.q sels) ∧
    (∀ f ∈ fieldsOfR c pfx sels, f.flatten = false → f.wire ∈ expKeys c.s c.q sels) ∧
    (∀ g ∈ fieldsOfR c pfx sels, g.flatten = true → ∀ k ∈ memberKeysR e g,
      k ∉ ((fieldsOfR c pfx sels).filter (fun f => !f.flatten)).map (·.wire)) ∧
    (fieldsOfR c pfx sels).Pairwise (fun g g' => g.flatten = true → g'.flatten = true →
      ∀ k ∈ memberKeysR e g', k ∉ memberKeysR e g)
  | [], _, _, _ => by simp [fieldsOfR]
  | x :: xs, ht, hG, hnd => by
    obtain ⟨hx, hxs⟩ := rSels_cons ht
    have hG' : ∀ g, Sel.spread g ∈ xs → g ∈ G := fun g hg => hG g (List.mem_cons_of_mem _ hg)
    cases x with
    | field a fid sub =>
      obtain ⟨sf, ft, hsf, _, hf, _⟩ := fieldOfSelV_r c pfx p a fid sub hx
      have hexp : expKeys c.s c.q (.field a fid sub :: xs) = a.getD sf.name :: expKeys c.s c.q xs := by
        simp [expKeys, hsf]
      rw [hexp, List.nodup_cons] at hnd
      obtain ⟨ih1, ih2, ih3, ih4⟩ := flat_hypsR pfx p xs hxs hG' hnd.2
      have hfs : fieldsOfR c pfx (.field a fid sub :: xs) =
          fieldOf c (a.getD sf.name) ft sf.ty.quals sf.deprecation :: fieldsOfR c pfx xs := by
        rw [fieldsOfR_cons, fieldOfSelR_field, hf]; rfl
      have hnf : (fieldOf c (a.getD sf.name) ft sf.ty.quals sf.deprecation).flatten = false := rfl
      rw [hfs, hexp]
      refine ⟨?_, ?_, ?_, ?_⟩
      · intro g hg hfl
        rcases List.mem_cons.mp hg with rfl | hg'
        · rw [hnf] at hfl; cases hfl
        · exact ⟨(ih1 g hg' hfl).1, fun k hk => List.mem_cons_of_mem _ ((ih1 g hg' hfl).2 k hk)⟩
      · intro f hf' hfl
        rcases List.mem_cons.mp hf' with rfl | hf''
        · rw [fieldOf_wire]; simp
        · exact List.mem_cons_of_mem _ (ih2 f hf'' hfl)
      · intro g hg hfl k hk
        rcases List.mem_cons.mp hg with rfl | hg'
        · rw [hnf] at hfl; cases hfl
        · simp only [List.filter_cons, hnf, Bool.not_false, ↓reduceIte, List.map_cons, List.mem_cons, not_or, fieldOf_wire]
          refine ⟨?_, ih3 g hg' hfl k hk⟩
          intro heq
          exact hnd.1 (heq ▸ (ih1 g hg' hfl).2 k hk)
      · rw [List.pairwise_cons]
        exact ⟨fun g' _ hfl => (by rw [hnf] at hfl; cases hfl), ih4⟩
    | spread g =>
      obtain ⟨fr, i, hfr, _, hsels, _, _, hr, hsenv, _, _, _, _, _⟩ := world_frag W (hG g (by simp))
      have hexp : expKeys c.s c.q (.spread g :: xs) = fieldKeys c.s fr.sels ++ expKeys c.s c.q xs := by
        simp [expKeys, hsels]
      rw [hexp, List.nodup_append] at hnd
      obtain ⟨hnd1, hnd2, hdisj⟩ := hnd
      obtain ⟨ih1, ih2, ih3, ih4⟩ := flat_hypsR pfx p xs hxs hG' hnd2
      have hfs : fieldsOfR c pfx (.spread g :: xs) = spreadFieldR c g fr :: fieldsOfR c pfx xs := by
        rw [fieldsOfR_cons]; simp [fieldOfSelR, hfr]
      have hfl' : (spreadFieldR c g fr).flatten = true := rfl
      obtain ⟨hmf, hmok⟩ := memberFieldsR_spread e c g fr hsenv
      have hmk : memberKeysR e (spreadFieldR c g fr) = fieldKeys c.s fr.sels := by
        unfold memberKeysR; rw [hmf, wire_fieldsOfV_r c _ _ fr.sels hr]
      rw [hfs, hexp]
      refine ⟨?_, ?_, ?_, ?_⟩
      · intro g' hg hfl
        rcases List.mem_cons.mp hg with rfl | hg'
        · exact ⟨hmok, fun k hk => List.mem_append_left _ (hmk ▸ hk)⟩
        · exact ⟨(ih1 g' hg' hfl).1, fun k hk => List.mem_append_right _ ((ih1 g' hg' hfl).2 k hk)⟩
      · intro f hf' hfl
        rcases List.mem_cons.mp hf' with rfl | hf''
        · rw [hfl'] at hfl; cases hfl
        · exact List.mem_append_right _ (ih2 f hf'' hfl)
      · intro g' hg hfl k hk
        simp only [List.filter_cons, hfl', Bool.not_true, Bool.false_eq_true, ↓reduceIte]
        rcases List.mem_cons.mp hg with rfl | hg'
        · rw [hmk] at hk
          intro hmem
          obtain ⟨f, hf', hfw⟩ := List.mem_map.mp hmem
          have hf'' := List.mem_filter.mp hf'
          have := ih2 f hf''.1 (by simpa using hf''.2)
          exact hdisj k hk k (hfw ▸ this) rfl
        · exact ih3 g' hg' hfl k hk
      · rw [List.pairwise_cons]
        refine ⟨?_, ih4⟩
        intro g' hg' _ hfl k hk
        rw [hmk]
        intro hmem
        exact hdisj k hmem k ((ih1 g' hg' hfl).2 k hk) rfl
    | inline t sub => simp [rSel] at hx
    | typename =>
      have hexp : expKeys c.s c.q (.typename :: xs) = expKeys c.s c.q xs := by simp [expKeys]
      have hfs : fieldsOfR c pfx (.typename :: xs) = fieldsOfR c pfx xs := by
        rw [fieldsOfR_cons]; simp [fieldOfSelR, fieldOfSelV]
      rw [hexp] at hnd ⊢
      rw [hfs]
      exact flat_hypsR pfx p xs hxs hG' hnd

end FlatHyps


/-! ## acceptance, exactly -/

theorem vSel_of_rSel_nonobj {s : Schema} {q : Query} {o : Options} {p : TypeId} {a : Option String} {fid : Nat}
    {sub : List Sel} {sf : StoredField} (h : rSel s q o p (.field a fid sub) = true) (hsf : s.fields[fid]? = some sf)
    (hno : ∀ i, sf.ty.id ≠ .object i) : vSel s o false (.field a fid sub) = true := by
  rw [rSel] at h
  rw [vSel]
  simp only [hsf] at h ⊢
  cases hid : sf.ty.id with
  | object i => exact absurd hid (hno i)
  | scalar k => simpa [hid] using h
  | «enum» k => simpa [hid] using h
  | interface k => simpa [hid] using h
  | union k => simpa [hid] using h
  | input k => simpa [hid] using h

theorem looseMemP_nospread (s : Schema) (q : Query) (o : Options) (rec : Bool → List Sel → Json → Bool)
    (kvs : List (String × Json)) :
    ∀ (sels : List Sel), sels.any isSpread = false → looseMemP s q o rec sels kvs = true
  | [], _ => by simp [looseMemP]
  | x :: xs, h => by
    simp only [List.any_cons, Bool.or_eq_false_iff] at h
    have ih := looseMemP_nospread s q o rec kvs xs h.2
    cases x with
    | spread g => have := h.1; simp [isSpread] at this
    | field a fid sub => simpa [looseMemP] using ih
    | inline t sub => simpa [looseMemP] using ih
    | typename => simpa [looseMemP] using ih

theorem boxCost_spreadFieldR (c : Ctx) (g : Nat) (f : RFragment) : boxCost (spreadFieldR c g f).ty ≤ 1 := by
  unfold spreadFieldR
  cases fragmentIsRecursive c.q g <;> simp [boxCost]

theorem bodyEnvR_ne_ID {e : Env} {c : Ctx} {name pfx : String} {sels : List Sel} (h : BodyEnvR e c name pfx sels) :
    name ≠ "ID" := by
  unfold BodyEnvR at h
  split at h
  · exact h.2.1
  · exact h.1.2.1

section AccR
variable {e : Env} {c : Ctx} {G : List Nat} {D : Nat} (W : RWorld e c G D)

/-- the induction hypothesis: the type emitted for an object-level selection set accepts exactly `conformsLooseR n`
    on payloads of size `≤ n` -/
def AccR (e : Env) (c : Ctx) (G : List Nat) (D : Nat) (n : Nat) : Prop :=
  ∀ (i : Nat) (sels : List Sel) (name pfx : String), rBody c.s c.q c.o (.object i) sels = true →
    (∀ g ∈ spreadIdss sels, g ∈ G) → BodyEnvR e c name pfx sels → keysOksF c.s c.q sels = true →
    EnumSpec.nodup (expKeys c.s c.q sels) = true → selsDepth sels ≤ D →
    ∀ b fd, 4 * n + 2 * D + 4 ≤ fd → ∀ j, jsonSize j ≤ n →
      okB (dePath e b fd name j) = conformsLooseR c.s c.q c.o n b sels j

variable {n : Nat} (IH : AccR e c G D n)
include IH

/-- one own field -/
theorem accFieldR (pfx : String) (p : TypeId) (a : Option String) (fid : Nat) (sub : List Sel)
    (ht : rSel c.s c.q c.o p (.field a fid sub) = true) (henv : envSelR e c pfx (.field a fid sub))
    (hko : keysOkF c.s c.q (.field a fid sub) = true) (hG : ∀ g ∈ spreadIdss sub, g ∈ G)
    (hD : selDepth (.field a fid sub) ≤ D) (f : RField) (hf : fieldOfSelV c pfx (.field a fid sub) = some f)
    (b : Bool) (fd : Nat) (hfd : 4 * n + 2 * D + 4 ≤ fd) (v : Json) (hv : jsonSize v ≤ n) :
    okB (deFieldWith (dePath e b fd) f v) =
      looseFieldP c.s c.o (conformsLooseR c.s c.q c.o n) b (.field a fid sub) v := by
  obtain ⟨sf, ft, hsf, _, hf', hw⟩ := fieldOfSelV_r c pfx p a fid sub ht
  rw [selDepth] at hD
  by_cases hobj : ∃ i, sf.ty.id = .object i
  · obtain ⟨i, hid⟩ := hobj
    have hwf : wf (gtyOf sf.ty.quals) = true := by rw [wf_gtyOf]; exact hw
    rw [rSel] at ht
    rw [envSelR] at henv
    rw [keysOkF, Bool.and_eq_true] at hko
    rw [looseFieldP]
    simp only [hsf, hid, Bool.and_eq_true] at ht henv ⊢
    obtain ⟨_, hty⟩ := ht
    cases hk : c.s.objects[i]? with
    | none => simp [hk] at hty
    | some ob =>
      simp only []
      simp only [fieldOfSelV, hsf, leafNameV, hid, Option.some.injEq] at hf
      subst hf
      have hbody : rBody c.s c.q c.o (.object i) sub = true := hty.2
      have henvB : BodyEnvR e c (pfx ++ c.cs.camel (a.getD sf.name)) (pfx ++ c.cs.camel (a.getD sf.name)) sub := henv
      rw [deField_plain _ _ _ _ (bodyEnvR_ne_ID henvB)]
      let L : Json → Bool := fun j =>
        if jsonSize j ≤ n then conformsLooseR c.s c.q c.o n b sub j
        else okB (dePath e b fd (pfx ++ c.cs.camel (a.getD sf.name)) j)
      have hleaf : ∀ j, okB (dePath e b fd (pfx ++ c.cs.camel (a.getD sf.name)) j) = L j := by
        intro j
        by_cases h : jsonSize j ≤ n
        · simp only [L, h, ↓reduceIte]
          exact IH i sub _ _ hbody hG henvB hko.2 hko.1 (by omega) b fd hfd j h
        · simp only [L, h, ↓reduceIte]
      rw [(ok_iff_accepts _ _ L hleaf _ hwf).2 v]
      exact (accepts_congr_size L (conformsLooseR c.s c.q c.o n b sub) n
        (by intro j hj; simp only [L, hj, ↓reduceIte]) _).2 v hv
  · -- scalar / enum / abstract: as in `VariantOp`
    have hno : ∀ i, sf.ty.id ≠ .object i := fun i h => hobj ⟨i, h⟩
    have hvs := vSel_of_rSel_nonobj ht hsf hno
    have henv' : envSelV e c pfx (.field a fid sub) := by
      rw [envSelR] at henv
      simp only [hsf] at henv
      cases hid : sf.ty.id with
      | object i => exact absurd hid (hno i)
      | scalar k => simpa [hid] using henv
      | «enum» k => simpa [hid] using henv
      | interface k => simpa [hid] using henv
      | union k => simpa [hid] using henv
      | input k => simpa [hid] using henv
    have hl : looseFieldP c.s c.o (conformsLooseR c.s c.q c.o n) b (.field a fid sub) v =
        looseFieldV c.s c.o b (.field a fid sub) v := by
      rw [looseFieldP]
      simp only [hsf]
    rw [hl]
    exact accSelV e c _ pfx false hvs henv' f hf b fd (by rw [selDepth]; omega) v

/-- the own fields of a struct -/
theorem accOwnR (pfx : String) (p : TypeId) : ∀ (sels : List Sel), rSels c.s c.q c.o p sels = true →
    envSelsR e c pfx sels → keysOksF c.s c.q sels = true → (∀ g ∈ spreadIdss sels, g ∈ G) → selsDepth sels ≤ D →
    ∀ b fd, 4 * n + 2 * D + 4 ≤ fd →
    (∀ kvs, kvsSize kvs ≤ n → (fieldsOfV c pfx sels).all (fun f => decide (countKey f.wire kvs ≤ 1) &&
        okB (readField (dePath e b fd) f kvs)) = looseOwnP c.s c.o (conformsLooseR c.s c.q c.o n) b sels kvs) ∧
    (∀ xs, jsonsSize xs ≤ n → (decide ((fieldsOfV c pfx sels).length ≤ xs.length) &&
        ((fieldsOfV c pfx sels).zip xs).all (fun p => okB (deFieldWith (dePath e b fd) p.1 p.2))) =
          looseArrP c.s c.o (conformsLooseR c.s c.q c.o n) b sels xs)
  | [], _, _, _, _, _, b, fd, _ =>
    ⟨fun kvs _ => by simp [fieldsOfV, looseOwnP], fun xs _ => by simp [fieldsOfV, looseArrP]⟩
  | x :: xs, ht, henv, hko, hG, hD, b, fd, hfd => by
    obtain ⟨hx, hxs⟩ := rSels_cons ht
    rw [envSelsR] at henv
    rw [keysOksF, Bool.and_eq_true] at hko
    rw [selsDepth] at hD
    rw [spreadIdss] at hG
    obtain ⟨I1, I2⟩ := accOwnR pfx p xs hxs henv.2 hko.2 (fun g hg => hG g (by simp [hg])) (by omega) b fd hfd
    cases x with
    | field a fid sub =>
      obtain ⟨sf, ft, hsf, _, hf, hw⟩ := fieldOfSelV_r c pfx p a fid sub hx
      have IXf := accFieldR IH pfx p a fid sub hx henv.1 hko.1
        (fun g hg => hG g (by rw [spreadIds]; simp [hg])) (by omega) _ hf b fd hfd
      have hfs := fieldsOfV_cons_field c pfx _ xs _ hf
      refine ⟨fun kvs hk => ?_, fun vs hvs => ?_⟩
      · rw [hfs, List.all_cons, I1 kvs hk, looseOwnP]
        simp only [hsf, fieldOf_wire, readField]
        cases hl : Json.lookup (a.getD sf.name) kvs with
        | none => simp only [missing_fieldOf]
        | some v =>
          have := jsonSize_lookup hl
          simp only [IXf v (by omega)]
      · rw [hfs]
        cases vs with
        | nil => rw [looseArrP]; simp
        | cons v vs' =>
          rw [jsonsSize] at hvs
          rw [looseArrP]
          simp only [List.length_cons, List.zip_cons_cons, List.all_cons, IXf v (by omega), ← I2 vs' (by omega),
            Nat.add_le_add_iff_right]
          cases looseFieldP c.s c.o (conformsLooseR c.s c.q c.o n) b (.field a fid sub) v <;> simp
    | spread g =>
      have hfs := fieldsOfV_cons_none c pfx (.spread g) xs rfl
      refine ⟨fun kvs hk => ?_, fun vs hvs => ?_⟩
      · rw [hfs, I1 kvs hk]; simp [looseOwnP]
      · rw [hfs, I2 vs hvs]; simp [looseArrP]
    | inline t sub => simp [rSel] at hx
    | typename =>
      have hfs := fieldsOfV_cons_none c pfx .typename xs rfl
      refine ⟨fun kvs hk => ?_, fun vs hvs => ?_⟩
      · rw [hfs, I1 kvs hk]; simp [looseOwnP]
      · rw [hfs, I2 vs hvs]; simp [looseArrP]

include W in
/-- the flattened members accept exactly `looseMemP` -/
theorem accMemR (pfx : String) (p : TypeId) : ∀ (sels : List Sel), rSels c.s c.q c.o p sels = true →
    (∀ g, Sel.spread g ∈ sels → g ∈ G) → ∀ fuel, 4 * n + 2 * D + 5 ≤ fuel → ∀ kvs, kvsSize kvs ≤ n →
    ((fieldsOfR c pfx sels).filter (·.flatten)).all
        (fun g => okB (deOwnWith (dePath e true (fuel - boxCost g.ty)) (memberFieldsR e g) kvs)) =
      looseMemP c.s c.q c.o (conformsLooseR c.s c.q c.o n) sels kvs
  | [], _, _, _, _, _, _ => rfl
  | x :: xs, ht, hG, fuel, hfuel, kvs, hk => by
    obtain ⟨hx, hxs⟩ := rSels_cons ht
    have ih := accMemR pfx p xs hxs (fun g hg => hG g (List.mem_cons_of_mem _ hg)) fuel hfuel kvs hk
    rw [fieldsOfR_cons, List.filter_append, List.all_append, ih]
    cases x with
    | field a fid sub =>
      obtain ⟨sf, ft, _, _, hf, _⟩ := fieldOfSelV_r c pfx p a fid sub hx
      rw [fieldOfSelR_field, hf]; simp [fieldOf, looseMemP]
    | spread g =>
      obtain ⟨fr, i, hfr, _, hsels, _, _, hr, hsenv, henvs, hko, _, hcl, hdep⟩ := world_frag W (hG g (by simp))
      obtain ⟨hmf, _⟩ := memberFieldsR_spread e c g fr hsenv
      have hbc := boxCost_spreadFieldR c g fr
      have hacc := (accOwnR IH (c.cs.camel fr.name) (.object i) fr.sels hr henvs hko hcl hdep true
        (fuel - boxCost (spreadFieldR c g fr).ty) (by omega)).1 kvs hk
      rw [looseMemP, hsels, ← hacc]
      have hflt : (fieldOfSelR c pfx (.spread g)).toList.filter (·.flatten) = [spreadFieldR c g fr] := by
        simp [fieldOfSelR, hfr, spreadFieldR]
      rw [hflt]
      simp only [List.all_cons, List.all_nil, Bool.and_true, hmf, okB_deOwn' _ _ _ (plain_fieldsOfV c _ fr.sels)]
    | inline t sub => simp [rSel] at hx
    | typename => simp [fieldOfSelR, fieldOfSelV, looseMemP]

include W in
/-- the struct of an object-level selection set accepts exactly `looseStructP` -/
theorem accStructR (pfx name : String) (p : TypeId) (sels : List Sel)
    (ht : rSels c.s c.q c.o p sels = true) (henv : envSelsR e c pfx sels) (hko : keysOksF c.s c.q sels = true)
    (hkeys : EnumSpec.nodup (expKeys c.s c.q sels) = true) (hG : ∀ g ∈ spreadIdss sels, g ∈ G)
    (hD : selsDepth sels ≤ D) (hs : StructEnv e name (fieldsOfR c pfx sels)) (b : Bool) (fd : Nat)
    (hfd : 4 * n + 2 * D + 7 ≤ fd) (j : Json) (hj : jsonSize j ≤ n + 1) :
    okB (dePath e b fd name j) = looseStructP c.s c.q c.o (conformsLooseR c.s c.q c.o n) b sels j := by
  obtain ⟨hp, _, nm, d, cr, hfind⟩ := hs
  have hown := own_fieldsOfR c pfx p sels ht
  have hany := any_flatten_fieldsOfR c pfx p sels ht
  have hpl := plain_fieldsOfV c pfx sels
  have hGs : ∀ g, Sel.spread g ∈ sels → g ∈ G := fun g hg => hG g (mem_spreadIdss_spread hg)
  cases hsp : sels.any isSpread
  · -- no spread: a plain struct
    obtain ⟨fd', rfl⟩ : ∃ k, fd = k + 1 := ⟨fd - 1, by omega⟩
    obtain ⟨H1, H2⟩ := accOwnR IH pfx p sels ht henv hko hG hD b fd' (by omega)
    have hplain : fieldsOfR c pfx sels = fieldsOfV c pfx sels := fieldsOfR_noTop c pfx sels hsp
    rw [dePath_struct e b fd' name nm d cr _ hp hfind, hplain]
    cases j with
    | obj kvs =>
      rw [jsonSize_obj] at hj
      rw [deStruct_obj, deStructMap_plain _ _ _ _ hpl, okB_map, okB_deOwn' _ _ _ hpl, H1 kvs (by omega)]
      simp [looseStructP, looseMemP_nospread c.s c.q c.o _ kvs sels hsp]
    | arr xs =>
      rw [jsonSize_arr] at hj
      simp only [deStructWith, any_flatten_of_plain hpl, Bool.false_eq_true, ↓reduceIte, looseStructP, hsp,
        Bool.not_false, Bool.true_and]
      rw [← H2 xs (by omega)]
      by_cases hlen : xs.length < (fieldsOfV c pfx sels).length
      · have : ¬ ((fieldsOfV c pfx sels).length ≤ xs.length) := by omega
        simp [hlen, this, okB, bad]
      · have : (fieldsOfV c pfx sels).length ≤ xs.length := by omega
        simp only [hlen, ↓reduceIte, okB_map, okB_mapM, this, decide_true, Bool.true_and]
        congr 1; funext p
        cases deFieldWith (dePath e b fd') p.1 p.2 <;> rfl
    | null => rfl
    | bool _ => rfl
    | int _ => rfl
    | num _ => rfl
    | str _ => rfl
  · -- flattened members
    obtain ⟨fd', rfl⟩ : ∃ k, fd = k + 3 := ⟨fd - 3, by omega⟩
    obtain ⟨H1, _⟩ := accOwnR IH pfx p sels ht henv hko hG hD b (fd' + 2) (by omega)
    rw [hsp] at hany
    obtain ⟨h1, _, h3, h4⟩ := flat_hypsR W pfx p sels ht hGs (nodup_iff'.mp hkeys)
    rw [dePath_struct e b (fd' + 2) name nm d cr _ hp hfind]
    cases j with
    | obj kvs =>
      rw [jsonSize_obj] at hj
      rw [deStruct_obj, deStructMap_flatR e fd' _ _ kvs hany (fun g hg hf => (h1 g hg hf).1) h3 h4, okB_bind2, hown,
        okB_deOwn' _ _ _ hpl, H1 kvs (by omega), okB_flatValsR,
        accMemR W IH pfx p sels ht hGs (fd' + 1) (by omega) kvs (by omega)]
      rfl
    | arr xs => simp only [deStructWith, hany, ↓reduceIte, looseStructP, hsp]; rfl
    | null => rfl
    | bool _ => rfl
    | int _ => rfl
    | num _ => rfl
    | str _ => rfl

end AccR

section AccR2
variable {e : Env} {c : Ctx} {G : List Nat} {D : Nat} (W : RWorld e c G D)
include W

theorem accR_succ {n : Nat} (IH : AccR e c G D n) : AccR e c G D (n + 1) := by
  intro i sels name pfx ht hG henv hko hkeys hD b fd hfd j hj
  by_cases hsp : ∃ g, sels = [Sel.spread g]
  · obtain ⟨g, rfl⟩ := hsp
    have hgG : g ∈ G := hG g (by simp [spreadIdss, spreadIds])
    obtain ⟨fr, i', hfr, _, hsels, hname, hnt, hr, hsenv, henvs, hko', hkeys', hcl, hdep⟩ := world_frag W hgG
    obtain ⟨hp, _, nm, pub, bx, hfind⟩ := (henv : AliasEnvR e name (fragName c g))
    rw [hname] at hfind
    obtain ⟨fd', rfl⟩ : ∃ k, fd = k + 1 := ⟨fd - 1, by omega⟩
    have hstep : dePath e b (fd' + 1) name j = dePath e b fd' fr.name j := by
      rw [dePath]; simp only [dePrim_none hp, hfind]
      cases bx <;> simp [deTyWith]
    rw [hstep]
    have hs' : StructEnv e fr.name (fieldsOfR c (c.cs.camel fr.name) fr.sels) := by
      rw [fieldsOfR_noTop c _ fr.sels hnt]; exact hsenv
    have := accStructR W IH (c.cs.camel fr.name) fr.name (.object i') fr.sels hr henvs hko' hkeys' hcl hdep hs' b fd'
      (by omega) j hj
    rw [this]
    simp only [conformsLooseR, looseBodyP, hsels]
  · have hnl : ∀ g, sels ≠ [Sel.spread g] := fun g hg => hsp ⟨g, hg⟩
    have henv' : StructEnv e name (fieldsOfR c pfx sels) ∧ envSelsR e c pfx sels := by
      unfold BodyEnvR at henv
      revert henv
      split
      · exact fun _ => absurd rfl (hnl _)
      · exact id
    rw [rBody_not_lone hnl] at ht
    have := accStructR W IH pfx name (.object i) sels ht henv'.2 hko hkeys hG hD henv'.1 b fd (by omega) j hj
    rw [this]
    simp only [conformsLooseR, looseBodyP]

/-- **the type emitted for an object-level selection set of `RecFragmentOp` accepts exactly `conformsLooseR n`** on
    payloads of size `≤ n` -/
theorem accR : ∀ n, AccR e c G D n
  | 0 => by
    intro _ _ _ _ _ _ _ _ _ _ _ _ _ j hj
    have := jsonSize_pos j; omega
  | n + 1 => accR_succ W (accR n)

end AccR2


/-! ## fuel: the static depth of a selection set of the class is below the number of emitted items -/

theorem itemsR_abs (c : Ctx) (pfx : String) (a : Option String) (fid : Nat) (sub : List Sel) (sf : StoredField)
    (hsf : c.s.fields[fid]? = some sf) (hno : ∀ i, sf.ty.id ≠ .object i) :
    itemsR c pfx (.field a fid sub) = itemsV c pfx (.field a fid sub) := by
  rw [itemsR, itemsV]
  simp only [hsf]
  cases hid : sf.ty.id <;> first | rfl | exact absurd hid (hno _)

mutual
  theorem depthR_sel (c : Ctx) : ∀ (x : Sel) (pfx : String) (p : TypeId), rSel c.s c.q c.o p x = true →
      selDepth x ≤ (itemsR c pfx x).length + 1
    | .field a fid sub, pfx, p => by
      intro ht
      have IH := depthR_sels c sub
      obtain ⟨sf, ft, hsf, _, _, _⟩ := fieldOfSelV_r c pfx p a fid sub ht
      by_cases hobj : ∃ i, sf.ty.id = .object i
      · obtain ⟨i, hid⟩ := hobj
        rw [rSel] at ht
        simp only [hsf, hid, Bool.and_eq_true] at ht
        rw [selDepth, itemsR]
        simp only [hsf, hid]
        by_cases hsp : ∃ g, sub = [Sel.spread g]
        · obtain ⟨g, rfl⟩ := hsp
          simp [selsDepth, selDepth]
        · have hnl : ∀ g, sub ≠ [Sel.spread g] := fun g hg => hsp ⟨g, hg⟩
          have hbody : rBody c.s c.q c.o (.object i) sub = true := ht.2.2
          rw [rBody_not_lone hnl] at hbody
          have := IH (pfx ++ c.cs.camel (a.getD sf.name)) (.object i) hbody
          split
          · exact absurd rfl (hnl _)
          · simp only [List.length_cons]; omega
      · have hno : ∀ i, sf.ty.id ≠ .object i := fun i h => hobj ⟨i, h⟩
        have hv := vSel_of_rSel_nonobj ht hsf hno
        rw [itemsR_abs c pfx a fid sub sf hsf hno]
        have := depthV_sel c _ pfx false hv
        simp only [allItems] at this
        omega
    | .spread g, pfx, p => by intro _; simp [selDepth]
    | .inline t sub, _, _ => by intro ht; simp [rSel] at ht
    | .typename, _, _ => by intro _; simp [selDepth]
  theorem depthR_sels (c : Ctx) : ∀ (sels : List Sel) (pfx : String) (p : TypeId),
      rSels c.s c.q c.o p sels = true → selsDepth sels ≤ (itemsRs c pfx sels).length + 1
    | [], _, _ => by intro _; simp [selsDepth]
    | x :: xs, pfx, p => by
      intro ht
      obtain ⟨hx, hxs⟩ := rSels_cons ht
      have h1 := depthR_sel c x pfx p hx
      have h2 := depthR_sels c xs pfx p hxs
      rw [selsDepth, itemsRs, List.length_append]
      omega
end

/-! ## the closure `usedFrags` only contains reachable fragments -/

theorem mem_addNew {x : Nat} : ∀ (new acc : List Nat), x ∈ addNew acc new → x ∈ acc ∨ x ∈ new
  | [], acc, h => .inl h
  | g :: new, acc, h => by
    unfold addNew at h
    rw [List.foldl_cons] at h
    have := mem_addNew new _ h
    rcases this with h' | h'
    · split at h'
      · exact .inl h'
      · rcases List.mem_append.mp h' with h'' | h''
        · exact .inl h''
        · simp only [List.mem_singleton] at h''; exact .inr (by simp [h''])
    · exact .inr (List.mem_cons_of_mem _ h')

theorem closeFrags_reach (q : Query) (root : List Sel) : ∀ (n : Nat) (acc : List Nat),
    (∀ g ∈ acc, C02.Reach q root (.spread g)) → ∀ g ∈ closeFrags q n acc, C02.Reach q root (.spread g)
  | 0, acc, h => h
  | n + 1, acc, h => by
    rw [closeFrags]
    apply closeFrags_reach q root n
    intro g hg
    rcases mem_addNew _ _ hg with hg | hg
    · exact h g hg
    · obtain ⟨g0, hg0, hgm⟩ := List.mem_flatMap.mp hg
      have hr0 := h g0 hg0
      cases hf : q.fragments[g0]? with
      | none => simp [fragSels, hf, spreadIdss] at hgm
      | some f =>
        have hs : fragSels q g0 = f.sels := by simp [fragSels, hf]
        rw [hs] at hgm
        exact reach_spreadIdss q f.sels root (fun y hy => reach_step_spread hr0 hf hy) g hgm

theorem usedFrags_reach (q : Query) (sels : List Sel) :
    ∀ g ∈ usedFrags q sels, C02.Reach q sels (.spread g) := by
  apply closeFrags_reach
  intro g hg
  rcases mem_addNew _ _ hg with hg | hg
  · simp at hg
  · exact reach_spreadIdss q sels sels (fun y hy => .here hy) g hg

theorem closedFrags_parts {q : Query} {G : List Nat} {sels : List Sel} (h : closedFrags q G sels = true) :
    (∀ g ∈ spreadIdss sels, g ∈ G) ∧ ∀ g ∈ G, ∀ g' ∈ spreadIdss (fragSels q g), g' ∈ G := by
  simp only [closedFrags, Bool.and_eq_true, List.all_eq_true, List.contains_iff_mem] at h
  exact h

/-! ## the environment of an emitted module -/

theorem mem_itemsRs {c : Ctx} {pfx : String} {it : Item} : ∀ {sels : List Sel} {x : Sel}, x ∈ sels →
    it ∈ itemsR c pfx x → it ∈ itemsRs c pfx sels
  | [], _, h, _ => by simp at h
  | y :: ys, x, h, hit => by
    rw [itemsRs, List.mem_append]
    rcases List.mem_cons.mp h with rfl | h'
    · exact .inl hit
    · exact .inr (mem_itemsRs h' hit)

section EnvOfR
variable {c : Ctx} {items : List Item} {u : UsedTypes} {root : List Sel} (M : ModFacts c items u root)
include M

theorem aliasEnvR_of (name target : String) (bx : Bool) (hmem : aliasItem name target bx ∈ items) :
    AliasEnvR (moduleEnv c items) name target := by
  have hn : (aliasItem name target bx).name = name := rfl
  have h1 := M.np _ hmem
  have h2 := find_of_mem (customExterns c) M.nodup hmem
  rw [hn] at h1 h2
  refine ⟨h1, ?_, name, true, bx, h2⟩
  have := name_ne_ID M hmem (by intro t h; simp [aliasItem] at h)
  rwa [hn] at this

mutual
  theorem envSelR_of : ∀ (x : Sel) (pfx : String) (p : Nat), rSel c.s c.q c.o (.object p) x = true →
      (∀ it ∈ itemsR c pfx x, it ∈ items) → C02.Reach c.q root x → envSelR (moduleEnv c items) c pfx x
    | .field a fid sub, pfx, p => by
      intro ht hit hr
      have IH := envSelsR_of sub
      obtain ⟨sf, ft, hsf, _, _, _⟩ := fieldOfSelV_r c pfx (.object p) a fid sub ht
      by_cases hobj : ∃ i, sf.ty.id = .object i
      · obtain ⟨i, hid⟩ := hobj
        rw [rSel] at ht
        simp only [hsf, hid, Bool.and_eq_true] at ht
        rw [itemsR] at hit
        rw [envSelR]
        simp only [hsf, hid] at hit ⊢
        by_cases hsp : ∃ g, sub = [Sel.spread g]
        · obtain ⟨g, rfl⟩ := hsp
          simp only at hit ⊢
          exact aliasEnvR_of M _ _ (fragmentIsRecursive c.q g) (hit _ (by simp))
        · have hnl : ∀ g, sub ≠ [Sel.spread g] := fun g hg => hsp ⟨g, hg⟩
          have hbody : rBody c.s c.q c.o (.object i) sub = true := ht.2.2
          rw [rBody_not_lone hnl] at hbody
          have hit' : ∀ it ∈ (Item.struct (pfx ++ c.cs.camel (a.getD sf.name)) c.respDerives c.serdeCrate
              (fieldsOfR c (pfx ++ c.cs.camel (a.getD sf.name)) sub) ::
              itemsRs c (pfx ++ c.cs.camel (a.getD sf.name)) sub), it ∈ items := by
            revert hit
            split
            · exact absurd rfl (hnl _)
            · exact id
          split
          · exact absurd rfl (hnl _)
          · exact ⟨structEnv_of M _ _ (hit' _ (by simp)),
              IH _ i hbody (fun x hx it h => hit' it (by simp [mem_itemsRs hx h]))
                (fun y hy => reach_step hr hy)⟩
      · have hno : ∀ i, sf.ty.id ≠ .object i := fun i h => hobj ⟨i, h⟩
        have hv := vSel_of_rSel_nonobj ht hsf hno
        rw [itemsR_abs c pfx a fid sub sf hsf hno] at hit
        have := envSelV_of M _ pfx false hv (by simpa [allItems] using hit) hr
        rw [envSelR]
        simp only [hsf]
        cases hid : sf.ty.id with
        | object i => exact absurd hid (hno i)
        | scalar k => simpa [hid] using this
        | «enum» k => simpa [hid] using this
        | interface k => simpa [hid] using this
        | union k => simpa [hid] using this
        | input k => simpa [hid] using this
    | .spread g, pfx, p => by intro _ _ _; simp [envSelR]
    | .inline _ _, _, _ => by intro ht; simp [rSel] at ht
    | .typename, _, _ => by intro _ _ _; simp [envSelR]
  theorem envSelsR_of : ∀ (sels : List Sel) (pfx : String) (p : Nat), rSels c.s c.q c.o (.object p) sels = true →
      (∀ x ∈ sels, ∀ it ∈ itemsR c pfx x, it ∈ items) → (∀ x ∈ sels, C02.Reach c.q root x) →
      envSelsR (moduleEnv c items) c pfx sels
    | [], _, _ => by intro _ _ _; simp [envSelsR]
    | x :: xs, pfx, p => by
      intro ht hit hr
      obtain ⟨hx, hxs⟩ := rSels_cons ht
      rw [envSelsR]
      exact ⟨envSelR_of x pfx p hx (hit x (by simp)) (hr x (by simp)),
        envSelsR_of xs pfx p hxs (fun y hy => hit y (by simp [hy])) (fun y hy => hr y (by simp [hy]))⟩
end

end EnvOfR

end E2E
end C01
end GqlVerif
