import GqlVerif.Proofs.C04DefaultsCore
/-!
# C04 — the `default_*` bodies of an emitted module: they type-check and denote the declared default

For the module `responseForQuery c op` emits (hypotheses of `C04S.variables_expressible`: normalization `none`, no
keyword clash in type names, input types only in input positions, the module compiles — no duplicate definition /
member — and shadows neither the four leaf names nor the consumer's paths), no extern enums (`hext`: an extern enum is
the consumer's type, of which the model knows nothing), closed enums (`L.enumOpen = false`: the specification), and
for a declared variable `v` whose default `d`
* is valid for the declared type under the specification's rule **with list input coercion** (`C04R.ValidC` of the
  JSON spelling `valueJson d`),
* satisfies `kindOk` (what JSON cannot say: no variable inside — the generator panics on it, see
  `null_default_panics` —, string literals not at enum positions and enum literals only at enum positions, float
  tokens are not integer tokens; `null` is allowed wherever `ValidC` allows it: at nullable positions, where the
  generator writes `None`),
* nests fewer than 64 levels (the fuel `variablesItems` gives `literalOk`; beyond it the model answers `unmodelled`):

* **`default_typechecks`**: `valueToLiteral` succeeds (it is the body `defaultBodies` lists under `default_<name>`:
  `default_body_mem`), contains no `compile_error!`, and `evalLit` gives a value `x` of the variable's Rust type
  (`variableType`, `C04S.HasTy`);
* **`default_value_correct`**: `serde_json::to_value(Variables::default_<name>())` is the canonical form of the
  coerced spelling of the declared default: `Serde.ser env t x = canon (coerce (valueJson d))`.
-/
namespace GqlVerif
namespace C04D
open Codegen Serde C04S C04R C13

/-- from the fuel-indexed statement to `serde_json::to_value` -/
theorem good_top {e : Env} {lit : LitExpr} {r : RTy} {out : Json} {x : Val} (h : Good e lit r out x) :
    Serde.ser e r x = .ok out := by
  unfold Serde.ser serTy
  rw [h.ser _ (Nat.le_trans (by omega : valSize x ≤ valSize x + 2) (Nat.le_mul_of_pos_right _ (by omega)))]
  show Except.ok (normJson out) = _
  rw [h.norm]

/-- an enum that is not extern is defined by the module -/
theorem find_enumItem (c : Ctx) (op : Nat) (items : List Item) (hnorm : c.o.normalization = .none)
    (hext : c.o.externEnums = []) (h : responseForQuery c op = .ok items) {u : UsedTypes}
    (hu : allUsedTypes c.s c.q op = .ok u) (e : Env) (he : e.items = items) (env : InputEnv c e (· ∈ u.types))
    (k : Nat) (en : StoredEnum) (hk : TypeId.enum k ∈ u.types) (hen : c.s.enums[k]? = some en) :
    e.find en.name = some (enumItem c en) := by
  rcases (env.enums k en hk hen).2 with ⟨h1, _⟩ | ⟨h1, _⟩
  · exact h1
  · exfalso
    obtain ⟨u', S, E, F, I, V, o, R', hu', hS, hE, hF, hI, hV, ho, hR, hitems⟩ := C02.responseForQuery_ok_full h
    rw [hu] at hu'
    cases hu'
    have hin : enumItem c en ∈ items := by
      rw [hitems]
      have := enumItem_mem hE hk hen (by simp [hext])
      simp [this]
    have hname : (enumItem c en).name = en.name := by rw [enumItem_eq, hnorm]; rfl
    unfold Env.find at h1
    rw [he, List.find?_eq_none] at h1
    exact h1 _ hin (by simp [hname])

/-- **the core, at module level**: the literal of a valid default is `Good` at the variable's Rust type -/
theorem default_good (L : Leaves) (c : Ctx) (op : Nat) (items : List Item)
    (hnorm : c.o.normalization = .none)
    (hkwI : ∀ i ∈ c.s.inputs, keywordReplace i.name = i.name)
    (hkwS : ∀ n ∈ c.s.scalars, keywordReplace n = n)
    (hkwE : ∀ e ∈ c.s.enums, keywordReplace e.name = e.name)
    (hwf : C02.OutputOnly c.s c.q = true) (hrel : C02.InputFieldsRelevant c.s = true)
    (hvars : ∀ v ∈ c.q.opVariables op, C02.Relevant v.ty.id)
    (hdef : (Scope.defines items).Nodup) (hmem : ∀ it ∈ items, (C02.memberIdents it).Nodup)
    (hprim : ∀ it ∈ items, C01.notPrim it.name) (hfree : ExternsFree c items)
    (hint : ∀ n, L.intOk n = true → inI64 n = true) (hclosed : L.enumOpen = false) (hext : c.o.externEnums = [])
    (h : responseForQuery c op = .ok items)
    (v : RVariable) (hv : v ∈ c.q.opVariables op) (d : Value)
    (hvalid : ValidC L c.s v.ty.id false (gty v.ty) (valueJson d))
    (hkind : kindOk c.s v.ty.id d = true) (hdepth : valueDepth d < 64) :
    ∃ lit t x, valueToLiteral c 64 d v.ty.id v.ty.quals = .ok lit ∧ variableType c v = .ok t ∧
      Good (moduleEnv c items) lit t
        (canon c.s c.o.skipNone v.ty.id (gty v.ty) (coerce c.s v.ty.id (gty v.ty) (valueJson d))) x := by
  obtain ⟨u, hu, env⟩ := inputEnv_of_module c op items hnorm hkwI hwf hrel hdef hmem hprim hfree h
  obtain ⟨_, _, _, _, _, V, _, _, _, _, _, _, _, hV, _, _, _⟩ := C02.responseForQuery_ok_full h
  have hne : c.q.opVariables op ≠ [] := fun hnil => by rw [hnil] at hv; cases hv
  obtain ⟨fs, _, hall⟩ := C04Keys.variables_struct c op V hV hne
  obtain ⟨f, t, ht, _⟩ := all2_left_mem hall v hv
  obtain ⟨hw, rfl⟩ := variableType_inv hnorm (fun tn htn => kw_typeName hkwI hkwS hkwE (hvars v hv) htn) ht
  have hU : v.ty.id ∈ u.types := C02.variable_types_used c.s c.q op u hu v hv (hvars v hv)
  obtain ⟨lit, x, hlit, hg⟩ := (literal_core L c (moduleEnv c items) (· ∈ u.types) env hnorm
    (fun k i _ hi => hkwI i (List.mem_of_getElem? hi))
    (fun k en hk hen => find_enumItem c op items hnorm hext h hu _ rfl env k en hk hen)
    hint hclosed hvalid hU hw d rfl hkind 64 hdepth).1 rfl
  refine ⟨lit, _, x, ?_, ht, hg⟩
  rw [gty, quals_ofQuals] at hlit
  exact hlit

/-- **`default_typechecks`** -/
theorem default_typechecks (L : Leaves) (c : Ctx) (op : Nat) (items : List Item)
    (hnorm : c.o.normalization = .none)
    (hkwI : ∀ i ∈ c.s.inputs, keywordReplace i.name = i.name)
    (hkwS : ∀ n ∈ c.s.scalars, keywordReplace n = n)
    (hkwE : ∀ e ∈ c.s.enums, keywordReplace e.name = e.name)
    (hwf : C02.OutputOnly c.s c.q = true) (hrel : C02.InputFieldsRelevant c.s = true)
    (hvars : ∀ v ∈ c.q.opVariables op, C02.Relevant v.ty.id)
    (hdef : (Scope.defines items).Nodup) (hmem : ∀ it ∈ items, (C02.memberIdents it).Nodup)
    (hprim : ∀ it ∈ items, C01.notPrim it.name) (hfree : ExternsFree c items)
    (hint : ∀ n, L.intOk n = true → inI64 n = true) (hclosed : L.enumOpen = false) (hext : c.o.externEnums = [])
    (h : responseForQuery c op = .ok items)
    (v : RVariable) (hv : v ∈ c.q.opVariables op) (d : Value)
    (hvalid : ValidC L c.s v.ty.id false (gty v.ty) (valueJson d))
    (hkind : kindOk c.s v.ty.id d = true) (hdepth : valueDepth d < 64) :
    ∃ lit t x, valueToLiteral c 64 d v.ty.id v.ty.quals = .ok lit ∧ lit.hasCompileError = false ∧
      variableType c v = .ok t ∧ evalLit (moduleEnv c items) lit t = some x ∧ HasTy (moduleEnv c items) t x := by
  obtain ⟨lit, t, x, hlit, ht, hg⟩ := default_good L c op items hnorm hkwI hkwS hkwE hwf hrel hvars hdef hmem hprim
    hfree hint hclosed hext h v hv d hvalid hkind hdepth
  exact ⟨lit, t, x, hlit, hg.noErr, ht, hg.eval, hg.ty⟩

/-- **`default_value_correct`** -/
theorem default_value_correct (L : Leaves) (c : Ctx) (op : Nat) (items : List Item)
    (hnorm : c.o.normalization = .none)
    (hkwI : ∀ i ∈ c.s.inputs, keywordReplace i.name = i.name)
    (hkwS : ∀ n ∈ c.s.scalars, keywordReplace n = n)
    (hkwE : ∀ e ∈ c.s.enums, keywordReplace e.name = e.name)
    (hwf : C02.OutputOnly c.s c.q = true) (hrel : C02.InputFieldsRelevant c.s = true)
    (hvars : ∀ v ∈ c.q.opVariables op, C02.Relevant v.ty.id)
    (hdef : (Scope.defines items).Nodup) (hmem : ∀ it ∈ items, (C02.memberIdents it).Nodup)
    (hprim : ∀ it ∈ items, C01.notPrim it.name) (hfree : ExternsFree c items)
    (hint : ∀ n, L.intOk n = true → inI64 n = true) (hclosed : L.enumOpen = false) (hext : c.o.externEnums = [])
    (h : responseForQuery c op = .ok items)
    (v : RVariable) (hv : v ∈ c.q.opVariables op) (d : Value)
    (hvalid : ValidC L c.s v.ty.id false (gty v.ty) (valueJson d))
    (hkind : kindOk c.s v.ty.id d = true) (hdepth : valueDepth d < 64)
    (lit : LitExpr) (t : RTy) (x : Val) (hlit : valueToLiteral c 64 d v.ty.id v.ty.quals = .ok lit)
    (ht : variableType c v = .ok t) (hx : evalLit (moduleEnv c items) lit t = some x) :
    Serde.ser (moduleEnv c items) t x =
      .ok (canon c.s c.o.skipNone v.ty.id (gty v.ty) (coerce c.s v.ty.id (gty v.ty) (valueJson d))) := by
  obtain ⟨lit', t', x', hlit', ht', hg⟩ := default_good L c op items hnorm hkwI hkwS hkwE hwf hrel hvars hdef hmem hprim
    hfree hint hclosed hext h v hv d hvalid hkind hdepth
  rw [hlit] at hlit'; cases hlit'
  rw [ht] at ht'; cases ht'
  have := hg.eval
  rw [hx] at this; cases this
  exact good_top hg

/-- the literal is the body `defaultBodies` lists under `default_<name>` -/
theorem default_body_mem (c : Ctx) (op : Nat) (bodies : List (String × LitExpr))
    (hb : defaultBodies c op = .ok bodies) (v : RVariable) (hv : v ∈ c.q.opVariables op) (d : Value)
    (hd : v.default = some d) :
    ∃ lit, valueToLiteral c 64 d v.ty.id v.ty.quals = .ok lit ∧ ("default_" ++ v.name, lit) ∈ bodies := by
  unfold defaultBodies at hb
  generalize c.q.opVariables op = vars at hb hv
  induction vars generalizing bodies with
  | nil => cases hv
  | cons a rest ih =>
    rw [List.filterMapM_cons] at hb
    obtain ⟨o, ho, hb⟩ := C02.bind_ok hb
    have hrest : ∃ r, rest.filterMapM (fun v =>
        match v.default with
        | none => pure none
        | some d => do
          let e ← valueToLiteral c 64 d v.ty.id v.ty.quals
          pure (some ("default_" ++ v.name, e))) = .ok r ∧ ∀ y ∈ r, y ∈ bodies := by
      cases o with
      | none => exact ⟨bodies, hb, fun _ h => h⟩
      | some b =>
        simp only [] at hb
        obtain ⟨bs, hbs, hb⟩ := C02.bind_ok hb
        simp only [pure, Except.pure, Except.ok.injEq] at hb
        subst hb
        exact ⟨bs, hbs, fun y hy => by simp [hy]⟩
    obtain ⟨r, hr, hsub⟩ := hrest
    rcases List.mem_cons.mp hv with rfl | hv'
    · rw [hd] at ho
      simp only [] at ho
      obtain ⟨lit, hlit, ho⟩ := C02.bind_ok ho
      simp only [pure, Except.pure, Except.ok.injEq] at ho
      subst ho
      simp only [] at hb
      obtain ⟨bs, _, hb⟩ := C02.bind_ok hb
      simp only [pure, Except.pure, Except.ok.injEq] at hb
      subst hb
      exact ⟨lit, hlit, by simp⟩
    · obtain ⟨lit, hlit, hm⟩ := ih r hr hv'
      exact ⟨lit, hlit, hsub _ hm⟩

end C04D
end GqlVerif
