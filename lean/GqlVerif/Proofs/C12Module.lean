import GqlVerif.Proofs.C12Items
/-!
# C12 — by-value acyclicity of the WHOLE emitted module (P44)

`C12Items.lean` proves the by-value acyclicity of the emitted items **per chunk** (the input items w.r.t.
themselves, the fragment + response items w.r.t. themselves).  Here the statement is for the module
`responseForQuery c op` emits as a whole, the `Variables` struct included:

`items = builtinAliases ++ S ++ E ++ I ++ V ++ F.flatten ++ R`
(built-in aliases, scalar aliases, enums | input items | `Variables` (+ `default_*`) | fragments, response).

* §1 `acyclic_append` — the layer lemma: if no item of `X` holds by value a name **defined** by `Y`, and `X`
  and `Y` are acyclic, so is `X ++ Y` (no disjointness of names needed).
* §2 the by-value references of each layer: the leaf layer (`leaf_items_acyclic`, unconditional: alias
  targets are `bool` / `f64` / `i64` / `String` / a path `m::T`), the input items (`inputRefs`), the
  `Variables` struct (`varRefs`).
* §3 `respNamesOk`, `fixedNamesFree` (decidable, on schema + query + options; no generator run) and
  **`module_items_acyclic`**; `respNamesOk_of_noClash`, `module_items_acyclic_of_noClash` (`C02.NoClash` gives the
  distinctness of the response names); `variables_self_loop` — for EVERY context, a non-list variable whose
  rendered type is `Variables` gives a by-value self-loop (the `Variables` part of the third conjunct of
  `fixedNamesFree` is necessary in general, not only on a witness).
* `C12ModuleWitness.lean` — necessity witnesses from documents (the reviewer's `input Variables { a: Int }` used as
  `$v: Variables!`; an `extern_enums` enum `Variables`, for which `NoClash` HOLDS; a cycle through an input item;
  `input bool { b: Boolean }`) and a positive instance (recursive input AND recursive fragment in one operation;
  the rich sample of `C02Response.lean`).
* `C12ModuleFrontEnds.lean` — `InputsWf` / `MentionsFaithful` discharged from the schema document (SDL,
  introspection, JSON), and `fixedNamesFree` from a check on type names only (`namesFree`).

`fixedNamesFree` is sufficient, not minimal: a by-value reference from an input item or from `Variables` to a
fragment / response item (second halves of its conjuncts 2 and 3) cannot close a cycle on its own — a response
item would have to point back down through a leaf name.  For scalar- and enum-typed fields / variables these
halves already follow from `respNamesOk` (the reference is in `LeafNames c`, which no fragment / response item
may be named like); they add something only for input-typed ones, where the module defines the name twice
(`NoClash` fails) unless keyword escaping separates the item name from its mention.
-/
namespace GqlVerif
namespace C12Mod
open Codegen C12Graph C12I
open Relation (TransGen ReflTransGen)

/-! ## 1. the layer lemma -/

/-- every item of `Y` named `n` holds nothing by value -/
def Sink (Y : List Item) (n : String) : Prop := ∀ it ∈ Y, it.name = n → byValueRefs it = []

/-- layer lemma on `mentionsByValue`: the by-value references of `X` only reach sinks of `Y` -/
theorem acyclic_append_mentions {X Y : List Item}
    (hX : ¬ ∃ a, TransGen (mentionsByValue X) a a) (hY : ¬ ∃ a, TransGen (mentionsByValue Y) a a)
    (hXY : ∀ it ∈ X, ∀ n ∈ byValueRefs it, Sink Y n) :
    ¬ ∃ a, TransGen (mentionsByValue (X ++ Y)) a a := by
  -- an edge out of a sink of `Y` is an edge of `X` into a sink of `Y`
  have stepA : ∀ a b, mentionsByValue (X ++ Y) a b → Sink Y a → mentionsByValue X a b ∧ Sink Y b := by
    rintro a b ⟨it, hit, hn, hr⟩ hs
    rcases List.mem_append.mp hit with hx | hy
    · exact ⟨⟨it, hx, hn, hr⟩, hXY it hx b hr⟩
    · rw [hs it hy hn] at hr; cases hr
  have A : ∀ a b, TransGen (mentionsByValue (X ++ Y)) a b → Sink Y a →
      TransGen (mentionsByValue X) a b ∧ Sink Y b := by
    intro a b h hs
    induction h with
    | single h => exact ⟨.single (stepA _ _ h hs).1, (stepA _ _ h hs).2⟩
    | tail _ h2 ih => exact ⟨.tail ih.1 (stepA _ _ h2 ih.2).1, (stepA _ _ h2 ih.2).2⟩
  have B : ∀ a b, TransGen (mentionsByValue (X ++ Y)) a b → TransGen (mentionsByValue Y) a b ∨ Sink Y b := by
    intro a b h
    induction h with
    | single h =>
      obtain ⟨it, hit, hn, hr⟩ := h
      rcases List.mem_append.mp hit with hx | hy
      · exact .inr (hXY it hx _ hr)
      · exact .inl (.single ⟨it, hy, hn, hr⟩)
    | tail _ h2 ih =>
      obtain ⟨it, hit, hn, hr⟩ := h2
      rcases List.mem_append.mp hit with hx | hy
      · exact .inr (hXY it hx _ hr)
      · rcases ih with ih | ih
        · exact .inl (.tail ih ⟨it, hy, hn, hr⟩)
        · rw [ih it hy hn] at hr; cases hr
  rintro ⟨a, ha⟩
  rcases B a a ha with h | h
  · exact hY ⟨a, h⟩
  · exact hX ⟨a, (A a a ha h).1⟩

/-- an item whose name is not among the defined names is the `default_*` block: it holds nothing -/
theorem sink_of_not_defines {Y : List Item} {n : String} (h : n ∉ Scope.defines Y) : Sink Y n := by
  intro it hit hn
  cases it with
  | defaults _ => rfl
  | _ =>
    exfalso; apply h
    simp only [Scope.defines, List.mem_filterMap]
    exact ⟨_, hit, by simp [Scope.itemDefines, ← hn]⟩

/-- **layer lemma**: if no item of `X` holds by value a name defined by `Y`, `X ++ Y` is acyclic as soon as
    `X` and `Y` are (the names of `X` and `Y` need not be disjoint) -/
theorem acyclic_append {X Y : List Item}
    (hX : ¬ ∃ a, TransGen (containsByValue X) a a) (hY : ¬ ∃ a, TransGen (containsByValue Y) a a)
    (hXY : ∀ it ∈ X, ∀ n ∈ byValueRefs it, n ∉ Scope.defines Y) :
    ¬ ∃ a, TransGen (containsByValue (X ++ Y)) a a := by
  rw [acyclic_iff] at hX hY ⊢
  exact acyclic_append_mentions hX hY (fun it hit n hn => sink_of_not_defines (hXY it hit n hn))

/-- a relation whose edges strictly increase a measure has no cycle -/
theorem acyclic_of_rank {α : Type} (R : α → α → Prop) (m : α → Nat) (h : ∀ a b, R a b → m a < m b) :
    ¬ ∃ a, TransGen R a a := by
  have key : ∀ a b, TransGen R a b → m a < m b := by
    intro a b hab
    induction hab with
    | single e => exact h _ _ e
    | tail _ e ih => exact Nat.lt_trans ih (h _ _ e)
  rintro ⟨a, ha⟩
  exact Nat.lt_irrefl _ (key a a ha)

/-! ## 2. the by-value references of each layer -/

/-! ### the leaf layer: built-in aliases, scalar aliases, enums -/

/-- the path a custom scalar alias points to -/
def scalarPath (c : Ctx) (ident : String) : String := (c.o.scalarsModule.getD "super") ++ "::" ++ ident

/-- what the aliases of the leaf layer point to: the Rust primitives and the scalar paths -/
def leafRefs (c : Ctx) (u : UsedTypes) : List String :=
  ["bool", "f64", "i64", "String"] ++ (C02.scalarNames c u).map (scalarPath c)

theorem builtin_refs : ∀ it ∈ builtinAliases, ∀ n ∈ byValueRefs it, n ∈ ["bool", "f64", "i64", "String"] := by
  decide

theorem builtin_names : ∀ it ∈ builtinAliases, it.name ∈ ["Boolean", "Float", "Int", "ID"] := by decide

theorem scalarItems_shape {c : Ctx} {u : UsedTypes} {S : List Item} (h : scalarItems c u = .ok S) :
    ∀ it ∈ S, ∃ ident ∈ C02.scalarNames c u, it = .alias ident false (.path (scalarPath c ident)) := by
  have hn := C02.scalarItems_names h
  unfold scalarItems at h
  obtain ⟨ns, hns, h⟩ := C02.bind_ok h
  simp only [pure, Except.pure, Except.ok.injEq] at h
  subst h
  intro it hit
  obtain ⟨n, hn', rfl⟩ := List.mem_map.mp hit
  refine ⟨c.o.normalization.scalarName c.cs n, ?_, rfl⟩
  rw [← hn]
  simp only [Scope.defines, List.mem_filterMap]
  exact ⟨_, hit, rfl⟩

theorem enumItems_refs {c : Ctx} {u : UsedTypes} {E : List Item} (h : enumItems c u = .ok E) :
    ∀ it ∈ E, byValueRefs it = [] := by
  unfold enumItems at h
  obtain ⟨es, _, h⟩ := C02.bind_ok h
  simp only [pure, Except.pure, Except.ok.injEq] at h
  subst h
  intro it hit
  obtain ⟨e, _, rfl⟩ := List.mem_map.mp hit
  rfl

theorem path_ne_builtin (m x : String) : m ++ "::" ++ x ∉ ["Boolean", "Float", "Int", "ID"] := by
  intro h
  have hc : ':' ∈ (m ++ "::" ++ x).toList := by simp [String.toList_append]
  revert hc
  simp only [List.mem_cons, List.not_mem_nil, or_false] at h
  rcases h with h | h | h | h <;> rw [h] <;> decide

/-- the by-value references of the leaf layer are `leafRefs` -/
theorem leaf_refs {c : Ctx} {u : UsedTypes} {S E : List Item} (hS : scalarItems c u = .ok S)
    (hE : enumItems c u = .ok E) :
    ∀ it ∈ builtinAliases ++ S ++ E, ∀ n ∈ byValueRefs it, n ∈ leafRefs c u := by
  intro it hit n hn
  simp only [List.mem_append] at hit
  rcases hit with (hb | hs) | he
  · exact List.mem_append_left _ (builtin_refs it hb n hn)
  · obtain ⟨ident, hid, rfl⟩ := scalarItems_shape hS it hs
    simp only [byValueRefs, byValueLeaf, Option.toList_some, List.mem_singleton] at hn
    subst hn
    exact List.mem_append_right _ (List.mem_map.mpr ⟨ident, hid, rfl⟩)
  · rw [enumItems_refs hE it he] at hn; cases hn

/-- **the leaf layer is acyclic, unconditionally**: a built-in alias points to a Rust primitive, a scalar
    alias `T` to the strictly longer path `m::T`, which is never one of `Boolean` / `Float` / `Int` / `ID` -/
theorem leaf_items_acyclic {c : Ctx} {u : UsedTypes} {S E : List Item} (hS : scalarItems c u = .ok S)
    (hE : enumItems c u = .ok E) :
    ¬ ∃ a, TransGen (containsByValue (builtinAliases ++ S ++ E)) a a := by
  rw [acyclic_iff]
  refine acyclic_of_rank _
    (fun n => if n ∈ ["Boolean", "Float", "Int", "ID"] then 0 else n.length + 1) ?_
  rintro a b ⟨it, hit, hn, hr⟩
  simp only [List.mem_append] at hit
  rcases hit with (hb | hs) | he
  · have hb' : b ∈ ["bool", "f64", "i64", "String"] := builtin_refs it hb b hr
    have ha : a ∈ ["Boolean", "Float", "Int", "ID"] := hn ▸ builtin_names it hb
    have hb2 : b ∉ ["Boolean", "Float", "Int", "ID"] := by
      revert hb'; simp only [List.mem_cons, List.not_mem_nil, or_false]
      rintro (h | h | h | h) <;> rw [h] <;> decide
    simp only [ha, hb2, if_true, if_false]
    omega
  · obtain ⟨ident, _, rfl⟩ := scalarItems_shape hS it hs
    simp only [byValueRefs, byValueLeaf, Option.toList_some, List.mem_singleton] at hr
    simp only [Item.name] at hn
    subst hr
    rw [← hn]
    have hb2 : scalarPath c ident ∉ ["Boolean", "Float", "Int", "ID"] := path_ne_builtin _ _
    simp only [hb2, if_false]
    have hl : (scalarPath c ident).length = (c.o.scalarsModule.getD "super").length + 2 + ident.length := by
      simp only [scalarPath, String.length_append]; rfl
    split <;> omega
  · rw [enumItems_refs hE it he] at hr; cases hr

/-! ### the input layer -/

/-- the type names the used input items hold **by value**: the rendered type of every field that is neither
    a list nor boxed (its target is not a recursive input) -/
def inputRefs (c : Ctx) (u : UsedTypes) : List String :=
  (c.s.inputs.zipIdx.filter (fun (x : StoredInput × Nat) => u.types.contains (.input x.2))).flatMap fun x =>
    x.1.fields.filterMap fun f =>
      if f.2.isIndirected || targetRecursive c.s f.2 then none
      else match c.s.typeName f.2.id with
        | .ok tn => some (mention c tn)
        | .error _ => none

theorem inputItems_refs {c : Ctx} {u : UsedTypes} {I : List Item} (h : inputItems c u = .ok I) :
    ∀ it ∈ I, ∀ n ∈ byValueRefs it, n ∈ inputRefs c u := by
  intro it hit n hn
  obtain ⟨k, i, hk, hi, hf⟩ := C02.inputItems_origin h it hit
  obtain ⟨p, hp, tn, htn, hm, hind, hrec⟩ := inputItem_byValueRefs hf n hn
  simp only [inputRefs, List.mem_flatMap, List.mem_filterMap]
  refine ⟨(i, k), ?_, p, hp, ?_⟩
  · rw [List.mem_filter, List.mem_zipIdx_iff_getElem?]
    exact ⟨by simpa using hi, by simpa using hk⟩
  · simp [hind, hrec, htn, hm]

/-! ### the `Variables` layer -/

/-- the type names the `Variables` struct holds by value: the (keyword-escaped) rendered type of every
    variable that is not a list -/
def varRefs (c : Ctx) (op : Nat) : List String :=
  (c.q.opVariables op).filterMap fun v =>
    if hasList v.ty.quals then none
    else match c.s.typeName v.ty.id with
      | .ok tn => some (keywordReplace (mention c tn))
      | .error _ => none

theorem variableType_byValue {c : Ctx} {v : RVariable} {t : RTy} {n : String} (h : variableType c v = .ok t)
    (hn : byValueLeaf t = some n) :
    ∃ tn, c.s.typeName v.ty.id = .ok tn ∧ n = keywordReplace (mention c tn) ∧ hasList v.ty.quals = false := by
  unfold variableType at h
  obtain ⟨tn, htn, h⟩ := C02.bind_ok h
  have hbv := decorateType_byValue h
  rw [hbv] at hn
  cases hl : hasList v.ty.quals with
  | true => simp [hl] at hn
  | false =>
    simp only [hl, Bool.false_eq_true, ↓reduceIte, Option.some.injEq] at hn
    exact ⟨tn, htn, hn.symm, rfl⟩

theorem variablesItems_refs {c : Ctx} {op : Nat} {V : List Item} (h : variablesItems c op = .ok V) :
    ∀ it ∈ V, ∀ n ∈ byValueRefs it, n ∈ varRefs c op := by
  unfold variablesItems at h
  simp only [] at h
  split at h
  · simp only [pure, Except.pure, Except.ok.injEq] at h
    subst h
    intro it hit n hn
    simp only [List.mem_singleton] at hit
    subst hit; cases hn
  · obtain ⟨fs, hfs, h⟩ := C02.bind_ok h
    obtain ⟨dfl, _, h⟩ := C02.bind_ok h
    simp only [pure, Except.pure, Except.ok.injEq] at h
    subst h
    intro it hit n hn
    simp only [List.mem_cons, List.not_mem_nil, or_false] at hit
    rcases hit with rfl | rfl
    · simp only [byValueRefs, List.mem_filterMap] at hn
      obtain ⟨f, hf, hfn⟩ := hn
      obtain ⟨v, hv, hfv⟩ := C02.mapM_ok_mem hfs f hf
      obtain ⟨t, ht, hfv⟩ := C02.bind_ok hfv
      simp only [pure, Except.pure, Except.ok.injEq] at hfv
      subst hfv
      obtain ⟨tn, htn, hm, hl⟩ := variableType_byValue ht hfn
      simp only [varRefs, List.mem_filterMap]
      exact ⟨v, hv, by simp [hl, htn, hm]⟩
    · cases hn

/-! ### the fragment / response layer: names -/

theorem calc_itemDefines {c : Ctx} {fuel : Nat} {name pfx : String} {ty : TypeId} {sels : List Sel}
    {items : List Item} (h : calcSelection c fuel name pfx ty sels = .ok items) :
    ∀ it ∈ items, Scope.itemDefines it = some it.name := by
  refine (C02.calc_shape (c := c) (P := fun it => Scope.itemDefines it = some it.name) ?_ ?_ fuel).1 _ _ _ _ _ h
  · intro n t b; cases b <;> rfl
  · intro n fs vs it hit
    unfold renderType at hit
    split at hit
    · simp only [List.mem_singleton] at hit; subst hit; rfl
    · split at hit
      · simp only [List.mem_singleton] at hit; subst hit; rfl
      · simp only [List.mem_cons, List.not_mem_nil, or_false] at hit
        rcases hit with rfl | rfl <;> rfl

/-- the names of the fragment and response items, computed from the selection trees (`C02.moduleNames`) -/
def frNames (c : Ctx) (u : UsedTypes) (o : ROperation) : List String :=
  (sortNat u.fragments).flatMap (C02.fragmentNames c) ++
  C02.selectionNames c "ResponseData" (c.cs.camel o.name) (.object o.objectId) o.sels

theorem fr_names {c : Ctx} {fids : List Nat} {F : List (List Item)} {o : ROperation} {R : List Item}
    (hF : fids.mapM (fragmentItems c) = .ok F) (hR : responseItems c o = .ok R) :
    Scope.defines (F.flatten ++ R) = (F.flatten ++ R).map Item.name ∧
    Scope.defines (F.flatten ++ R) = fids.flatMap (C02.fragmentNames c) ++
      C02.selectionNames c "ResponseData" (c.cs.camel o.name) (.object o.objectId) o.sels := by
  constructor
  · apply C02.defines_eq_map_name
    intro it hit
    rcases List.mem_append.mp hit with hit | hit
    · obtain ⟨its, hits, hit⟩ := List.mem_flatten.mp hit
      obtain ⟨g, _, hg⟩ := C02.mapM_ok_mem hF its hits
      obtain ⟨fr, _, hc⟩ := C02.fragmentItems_ok hg
      exact calc_itemDefines hc it hit
    · exact calc_itemDefines hR it hit
  · rw [C02.defines_append, C02.mapM_defines_flatten (fun a its ha => C02.fragmentItems_names ha) hF]
    unfold responseItems at hR
    rw [(C02.calc_names _).1 _ _ _ _ _ hR]

/-! ## 3. the module -/

/-- **the fragment / response names are fit** (the two naming hypotheses of `C12I.module_response_items_acyclic`,
    on the names computed from the selection trees): pairwise distinct, none is the rendered name of a
    scalar / enum of the schema (`C12I.fragment_named_String_cyclic`) -/
def respNamesOk (c : Ctx) (op : Nat) : Bool :=
  match allUsedTypes c.s c.q op, c.q.operations[op]? with
  | .ok u, some o => decide (frNames c u o).Nodup && (frNames c u o).all (fun n => !(LeafNames c).contains n)
  | _, _ => true

/-- **no by-value reference of a lower layer is a name defined by a higher layer** (decidable; schema, query,
    options and case functions only):
    * no used input item, nor `Variables`, nor a fragment / response item is named like the target of a
      leaf alias (`bool`, `f64`, `i64`, `String`, `m::T`);
    * no by-value field of a used input item has the rendered type `Variables` or that of a fragment /
      response item (e.g. an `extern_enums` enum or a scalar-filtered type called `Variables`, `ResponseData`,
      `Frag`, `QueryField`);
    * no non-list variable of the operation has such a rendered type (after keyword escaping) — in particular
      no `$v: Variables` for an input / extern enum called `Variables`. -/
def fixedNamesFree (c : Ctx) (op : Nat) : Bool :=
  match allUsedTypes c.s c.q op, c.q.operations[op]? with
  | .ok u, some o =>
    (leafRefs c u).all (fun n => !(C02.inputNames c u ++ "Variables" :: frNames c u o).contains n) &&
    (inputRefs c u).all (fun n => !("Variables" :: frNames c u o).contains n) &&
    (varRefs c op).all (fun n => !("Variables" :: frNames c u o).contains n)
  | _, _ => true

/-- **C12 for the whole module.**  The items `responseForQuery c op` emits — built-in aliases, scalar aliases,
    enums, input items, `Variables` (+ its `default_*` block), fragment items, response items — contain each other
    by value without cycle: every emitted Rust type has finite size.
    Hypotheses: `InputsWf`, `MentionsFaithful` (those of `C12I.input_items_acyclic`), `respNamesOk` (those of
    `C12I.module_response_items_acyclic`), `fixedNamesFree` (the layers are not short-circuited by a name). -/
theorem module_items_acyclic (c : Ctx) (op : Nat) (items : List Item)
    (hwf : InputsWf c.s) (hf : MentionsFaithful c)
    (hresp : respNamesOk c op = true) (hfix : fixedNamesFree c op = true)
    (h : responseForQuery c op = .ok items) :
    ¬ ∃ a, TransGen (containsByValue items) a a := by
  obtain ⟨u, S, E, F, I, V, o, R, hu, hS, hE, hF, hI, hV, ho, hR, rfl⟩ := C02.responseForQuery_ok_full h
  have ⟨hfr1, hfr2⟩ := fr_names hF hR
  have hfrn : Scope.defines (F.flatten ++ R) = frNames c u o := hfr2
  -- unpack the two checks
  unfold respNamesOk at hresp
  unfold fixedNamesFree at hfix
  simp only [hu, ho, Bool.and_eq_true, decide_eq_true_eq, List.all_eq_true, Bool.not_eq_true',
    List.contains_eq_mem, decide_eq_false_iff_not] at hresp hfix
  obtain ⟨hnd, hleaf⟩ := hresp
  obtain ⟨⟨hfl, hfi⟩, hfv⟩ := hfix
  -- the four layers
  have aL := leaf_items_acyclic hS hE
  have aI := input_items_acyclic c u I hwf hf hI
  have dV : Scope.defines V = ["Variables"] := C02.variablesItems_names hV
  have aFR : ¬ ∃ a, TransGen (containsByValue (F.flatten ++ R)) a a := by
    have ⟨hroot, hfrc⟩ := C02.used_covered hu ho
    refine module_response_items_acyclic c _ F o R hF hR (by rw [← hfr1, hfrn]; exact hnd) ?_ ?_ ?_
    · intro g hg f hf' k hk
      rw [C02.mem_sortNat] at hg ⊢
      obtain ⟨x, hx, hs⟩ := spreadsIn_sub hk
      exact hfrc g hg f hf' x hx _ hs
    · intro k hk
      rw [C02.mem_sortNat]
      obtain ⟨x, hx, hs⟩ := spreadsIn_sub hk
      exact hroot x hx _ hs
    · intro it hit
      refine hleaf it.name ?_
      rw [← hfrn, hfr1]
      exact List.mem_map.mpr ⟨it, hit, rfl⟩
  have dVFR : Scope.defines (V ++ (F.flatten ++ R)) = "Variables" :: frNames c u o := by
    rw [C02.defines_append, dV, hfrn]; rfl
  have aV : ¬ ∃ a, TransGen (containsByValue V) a a := by
    rw [acyclic_iff]
    rintro ⟨a, ha⟩
    obtain ⟨b, _, hba⟩ := TransGen.tail'_iff.mp ha
    obtain ⟨it, hit, hn, hr⟩ := hba
    have hmem := hfv a (variablesItems_refs hV it hit a hr)
    obtain ⟨b', hab', _⟩ := TransGen.head'_iff.mp ha
    obtain ⟨it', hit', hn', hr'⟩ := hab'
    -- `a` is the name of an item of `V` that holds something: it is `Variables`
    have : a ∈ Scope.defines V := by
      cases it' with
      | defaults _ => cases hr'
      | _ =>
        simp only [Scope.defines, List.mem_filterMap]
        exact ⟨_, hit', by simp [Scope.itemDefines, ← hn']⟩
    rw [dV, List.mem_singleton] at this
    exact hmem (this ▸ List.mem_cons_self)
  have aVFR : ¬ ∃ a, TransGen (containsByValue (V ++ (F.flatten ++ R))) a a :=
    acyclic_append aV aFR (fun it hit n hn hd => hfv n (variablesItems_refs hV it hit n hn)
      (by rw [hfrn] at hd; exact List.mem_cons_of_mem _ hd))
  have aIVFR : ¬ ∃ a, TransGen (containsByValue (I ++ (V ++ (F.flatten ++ R)))) a a :=
    acyclic_append aI aVFR (fun it hit n hn hd => hfi n (inputItems_refs hI it hit n hn)
      (by rw [dVFR] at hd; exact hd))
  have aAll : ¬ ∃ a, TransGen (containsByValue
      ((builtinAliases ++ S ++ E) ++ (I ++ (V ++ (F.flatten ++ R))))) a a :=
    acyclic_append aL aIVFR (fun it hit n hn hd => hfl n (leaf_refs hS hE it hit n hn)
      (by rw [C02.defines_append, dVFR, C02.inputItems_names hI] at hd; exact hd))
  simpa only [List.append_assoc] using aAll

/-! ### `respNamesOk` from `C02.NoClash` -/

/-- no fragment / response item is named like a scalar or an enum of the schema (hypothesis `hleaf` of
    `C12I.module_response_items_acyclic`, on the names computed from the selection trees) -/
def respLeafFree (c : Ctx) (op : Nat) : Bool :=
  match allUsedTypes c.s c.q op, c.q.operations[op]? with
  | .ok u, some o => (frNames c u o).all (fun n => !(LeafNames c).contains n)
  | _, _ => true

/-- `C02.NoClash` (no type name defined twice in the module: what compiling needs anyway) gives the
    distinctness half of `respNamesOk` -/
theorem respNamesOk_of_noClash {c : Ctx} {op : Nat} (hnc : C02.NoClash c op = true)
    (hlf : respLeafFree c op = true) : respNamesOk c op = true := by
  unfold respNamesOk
  unfold C02.NoClash at hnc
  unfold respLeafFree at hlf
  split
  · rename_i u o hu ho
    simp only [hu, ho, decide_eq_true_eq] at hnc hlf
    rw [Bool.and_eq_true, decide_eq_true_eq]
    refine ⟨?_, hlf⟩
    unfold C02.moduleNames at hnc
    rw [List.append_assoc] at hnc
    exact (List.nodup_append.mp hnc).2.1
  · rfl

/-- **C12 for the whole module, with `NoClash`** in place of the distinctness of the response names -/
theorem module_items_acyclic_of_noClash (c : Ctx) (op : Nat) (items : List Item)
    (hwf : InputsWf c.s) (hf : MentionsFaithful c) (hnc : C02.NoClash c op = true)
    (hlf : respLeafFree c op = true) (hfix : fixedNamesFree c op = true)
    (h : responseForQuery c op = .ok items) :
    ¬ ∃ a, TransGen (containsByValue items) a a :=
  module_items_acyclic c op items hwf hf (respNamesOk_of_noClash hnc hlf) hfix h

/-! ### the `Variables` conjunct is necessary in general -/

/-- **necessity, for every context**: if some non-list variable of the operation has the rendered type
    `Variables` (`"Variables" ∈ varRefs c op` — e.g. an input type, an `extern_enums` enum or a custom scalar of
    that name), the emitted `struct Variables` holds `Variables` by value: the module has a by-value self-loop -/
theorem variables_self_loop (c : Ctx) (op : Nat) (items : List Item) (h : responseForQuery c op = .ok items)
    (hv : "Variables" ∈ varRefs c op) : TransGen (containsByValue items) "Variables" "Variables" := by
  obtain ⟨u, S, E, F, I, V, o, R, hu, hS, hE, hF, hI, hV, ho, hR, rfl⟩ := C02.responseForQuery_ok_full h
  simp only [varRefs, List.mem_filterMap] at hv
  obtain ⟨v, hvm, hv⟩ := hv
  have key : ∃ it ∈ V, it.name = "Variables" ∧ "Variables" ∈ byValueRefs it := by
    unfold variablesItems at hV
    simp only [] at hV
    split at hV
    · rename_i he
      rw [List.isEmpty_iff] at he
      rw [he] at hvm; cases hvm
    · obtain ⟨fs, hfs, hV⟩ := C02.bind_ok hV
      obtain ⟨dfl, _, hV⟩ := C02.bind_ok hV
      simp only [pure, Except.pure, Except.ok.injEq] at hV
      subst hV
      refine ⟨_, List.mem_cons_self, rfl, ?_⟩
      obtain ⟨f, hf, hfv⟩ := C02.mapM_ok_of_mem hfs v hvm
      obtain ⟨t, ht, hfv⟩ := C02.bind_ok hfv
      simp only [pure, Except.pure, Except.ok.injEq] at hfv
      subst hfv
      simp only [byValueRefs, List.mem_filterMap]
      refine ⟨_, hf, ?_⟩
      simp only
      unfold variableType at ht
      obtain ⟨tn, htn, ht⟩ := C02.bind_ok ht
      rw [decorateType_byValue ht]
      cases hl : hasList v.ty.quals with
      | true => simp [hl] at hv
      | false =>
        simp only [hl, Bool.false_eq_true, ↓reduceIte, htn, Option.some.injEq] at hv ⊢
        exact hv
  obtain ⟨it, hit, hn, hr⟩ := key
  have hmem : it ∈ builtinAliases ++ S ++ E ++ I ++ V ++ F.flatten ++ R := by
    simp only [List.mem_append]; exact .inl (.inl (.inr hit))
  exact .single ⟨it, hmem, hn, hr, List.mem_map.mpr ⟨it, hmem, hn⟩⟩

end C12Mod
end GqlVerif
