import GqlVerif.Proofs.AcyclicModules
import GqlVerif.Proofs.SerdeFuelWitness
/-!
# P27 part A (3/3) — `SameLevelAcyclic` is decidable; corollaries; necessity

* `graphCheck_iff` — for a finite graph on `Nat` (`succ g = []` beyond `n`): the executable check "the height computed
  with fuel `n + 2` decreases along every edge" holds IFF some rank decreases along every edge (no cycle).
* `SameLevelAcyclic q := ∃ r, SameLevelRanked q r` with `instance : Decidable (SameLevelAcyclic q)`
  (`sameLevelCheck_iff`), likewise `SpreadAcyclic q` (the weaker relation `jumpSpreads`).
* **`module_acyclic`** `responseForQuery c op = .ok items → moduleOk c items = true → SameLevelAcyclic c.q →
  ∃ d, Acyclic (moduleEnv c items) d` — the statement of the brief, class-free.
* corollaries `module_envOK`, `module_de_never_out_of_fuel`, `module_de_fuel_indep`, `module_roundtrip_never_out_of_fuel`:
  no per-module check is left.
* necessity: `spread_cycle_not_sameLevelAcyclic` — the document of `SerdeFuel.spread_cycle_module_not_acyclic`
  violates `SameLevelAcyclic` (and `SpreadAcyclic`); its module is not `Acyclic`.
-/
namespace GqlVerif
namespace AcyclicM
open Codegen Serde SerdeFuel C01.E2E

/-! ## a finite graph on `Nat` is ranked iff its bounded height decreases along the edges -/

def lmax : List Nat → Nat
  | [] => 0
  | x :: xs => max x (lmax xs)

theorem le_lmax : ∀ {l : List Nat} {x : Nat}, x ∈ l → x ≤ lmax l
  | y :: l, x, h => by
    rcases List.mem_cons.mp h with rfl | h'
    · simp only [lmax]; omega
    · have := le_lmax h'
      simp only [lmax]; omega

/-- length of the longest path from `g`, cut at `fuel` -/
def height (succ : Nat → List Nat) : Nat → Nat → Nat
  | 0, _ => 0
  | fuel+1, g => lmax ((succ g).map (fun h => height succ fuel h + 1))

def GRanked (succ : Nat → List Nat) (r : Nat → Nat) : Prop := ∀ g, ∀ h ∈ succ g, r h < r g

/-- executable: the height with fuel `n + 2` decreases along every edge leaving a node below `n` -/
def graphCheck (succ : Nat → List Nat) (n : Nat) : Bool :=
  (List.range n).all (fun g => (succ g).all (fun h => decide (height succ (n + 2) h < height succ (n + 2) g)))

theorem granked_of_check {succ : Nat → List Nat} {n : Nat} (hs : ∀ g, n ≤ g → succ g = [])
    (h : graphCheck succ n = true) : GRanked succ (height succ (n + 2)) := by
  intro g x hx
  simp only [graphCheck, List.all_eq_true, List.mem_range, decide_eq_true_eq] at h
  by_cases hg : g < n
  · exact h g hg x hx
  · rw [hs g (by omega)] at hx; cases hx

/-- the compressed rank: position of `r g` among the ranks of the nodes below `n` -/
def gcomp (r : Nat → Nat) (n : Nat) (g : Nat) : Nat :=
  if g < n then 1 + (List.range n).countP (fun g' => decide (r g' < r g)) else 0

theorem gcomp_le (r : Nat → Nat) (n g : Nat) : gcomp r n g ≤ n + 1 := by
  unfold gcomp
  split
  · have := List.countP_le_length (p := fun g' => decide (r g' < r g)) (l := List.range n)
    simp only [List.length_range] at this
    omega
  · omega

theorem gcomp_edge {succ : Nat → List Nat} {r : Nat → Nat} {n : Nat} (hs : ∀ g, n ≤ g → succ g = [])
    (hr : GRanked succ r) : GRanked succ (gcomp r n) := by
  intro g x hx
  have hg : g < n := by
    by_cases hg : g < n
    · exact hg
    · rw [hs g (by omega)] at hx; cases hx
  have hlt := hr g x hx
  unfold gcomp
  rw [if_pos hg]
  split
  · rename_i hxn
    have := SerdeFuel.countP_lt_of (l := List.range n) (p := fun g' => decide (r g' < r x))
      (q := fun g' => decide (r g' < r g))
      (fun y _ hy => by simp only [decide_eq_true_eq] at hy ⊢; omega) x (List.mem_range.mpr hxn) (by simp)
      (by simpa using hlt)
    omega
  · omega

theorem height_stable {succ : Nat → List Nat} {ρ : Nat → Nat} (hρ : GRanked succ ρ) :
    ∀ (k g fuel fuel' : Nat), ρ g < k → k ≤ fuel → k ≤ fuel' → height succ fuel g = height succ fuel' g
  | 0, _, _, _, h, _, _ => by omega
  | k+1, g, fuel, fuel', h, h1, h2 => by
    obtain ⟨a, rfl⟩ : ∃ a, fuel = a + 1 := ⟨fuel - 1, by omega⟩
    obtain ⟨b, rfl⟩ : ∃ b, fuel' = b + 1 := ⟨fuel' - 1, by omega⟩
    simp only [height]
    congr 1
    refine List.map_congr_left (fun x hx => ?_)
    have := hρ g x hx
    rw [height_stable hρ k x a b (by omega) (by omega) (by omega)]

theorem check_of_granked {succ : Nat → List Nat} {r : Nat → Nat} {n : Nat} (hs : ∀ g, n ≤ g → succ g = [])
    (hr : GRanked succ r) : graphCheck succ n = true := by
  have hρ := gcomp_edge hs hr
  simp only [graphCheck, List.all_eq_true, List.mem_range, decide_eq_true_eq]
  intro g _ x hx
  have h1 := hρ g x hx
  have h2 := gcomp_le r n g
  have hst := height_stable hρ (n + 1) x (n + 1) (n + 2) (by omega) (by omega) (by omega)
  rw [← hst]
  have : height succ (n + 1) x + 1 ≤ height succ (n + 2) g := by
    rw [show height succ (n + 2) g = lmax ((succ g).map (fun h => height succ (n + 1) h + 1)) from rfl]
    exact le_lmax (List.mem_map_of_mem (f := fun h => height succ (n + 1) h + 1) hx)
  omega

/-- **the check decides whether the graph can be ranked** (has no cycle) -/
theorem graphCheck_iff {succ : Nat → List Nat} {n : Nat} (hs : ∀ g, n ≤ g → succ g = []) :
    graphCheck succ n = true ↔ ∃ r, GRanked succ r :=
  ⟨fun h => ⟨_, granked_of_check hs h⟩, fun ⟨_, hr⟩ => check_of_granked hs hr⟩

/-! ## `SameLevelAcyclic`, `SpreadAcyclic` -/

def succSL (q : Query) (g : Nat) : List Nat :=
  match q.fragments[g]? with
  | some f => sameLevel f.sels
  | none => []

def succJ (q : Query) (g : Nat) : List Nat :=
  match q.fragments[g]? with
  | some f => jumpSpreads q f
  | none => []

theorem succSL_out (q : Query) (g : Nat) (h : q.fragments.length ≤ g) : succSL q g = [] := by
  simp [succSL, List.getElem?_eq_none h]

theorem succJ_out (q : Query) (g : Nat) (h : q.fragments.length ≤ g) : succJ q g = [] := by
  simp [succJ, List.getElem?_eq_none h]

theorem sameLevelRanked_iff (q : Query) (r : Nat → Nat) : SameLevelRanked q r ↔ GRanked (succSL q) r := by
  constructor
  · intro h g x hx
    unfold succSL at hx
    cases hf : q.fragments[g]? with
    | none => rw [hf] at hx; cases hx
    | some f => rw [hf] at hx; exact h g f hf x hx
  · intro h g f hf x hx
    exact h g x (by simp only [succSL, hf]; exact hx)

theorem spreadRanked_iff (q : Query) (r : Nat → Nat) : SpreadRanked q r ↔ GRanked (succJ q) r := by
  constructor
  · intro h g x hx
    unfold succJ at hx
    cases hf : q.fragments[g]? with
    | none => rw [hf] at hx; cases hx
    | some f => rw [hf] at hx; exact h g f hf x hx
  · intro h g f hf x hx
    exact h g x (by simp only [succJ, hf]; exact hx)

/-- **the same-level spread graph of the document has no cycle**: some rank decreases along every same-level spread
    (`F` spreads `G` at the top level of its body, or at the top level of an inline fragment of its body) -/
def SameLevelAcyclic (q : Query) : Prop := ∃ r, SameLevelRanked q r

/-- the weaker condition the proof needs: no cycle along `jumpSpreads` (lone spread; top-level spreads of a fragment with
    the same type condition) -/
def SpreadAcyclic (q : Query) : Prop := ∃ r, SpreadRanked q r

def sameLevelCheck (q : Query) : Bool := graphCheck (succSL q) q.fragments.length
def spreadCheck (q : Query) : Bool := graphCheck (succJ q) q.fragments.length

theorem sameLevelCheck_iff (q : Query) : sameLevelCheck q = true ↔ SameLevelAcyclic q := by
  unfold sameLevelCheck SameLevelAcyclic
  rw [graphCheck_iff (succSL_out q)]
  exact exists_congr (fun r => (sameLevelRanked_iff q r).symm)

theorem spreadCheck_iff (q : Query) : spreadCheck q = true ↔ SpreadAcyclic q := by
  unfold spreadCheck SpreadAcyclic
  rw [graphCheck_iff (succJ_out q)]
  exact exists_congr (fun r => (spreadRanked_iff q r).symm)

instance (q : Query) : Decidable (SameLevelAcyclic q) := decidable_of_iff _ (sameLevelCheck_iff q)
instance (q : Query) : Decidable (SpreadAcyclic q) := decidable_of_iff _ (spreadCheck_iff q)

theorem SameLevelAcyclic.spreadAcyclic {q : Query} (h : SameLevelAcyclic q) : SpreadAcyclic q :=
  h.imp (fun _ hr => hr.spreadRanked)

/-! ## the theorem of the brief and its corollaries -/

/-- **Part A.1** — every emitted module (that passes `moduleOk`) of a document whose same-level spread graph is acyclic
    is `Acyclic`: class-free, any normalization, any case functions -/
theorem module_acyclic {c : Ctx} {op : Nat} {items : List Item}
    (h : responseForQuery c op = .ok items) (hok : moduleOk c items = true) (ha : SameLevelAcyclic c.q) :
    ∃ d, Acyclic (moduleEnv c items) d := by
  obtain ⟨r, hr⟩ := ha
  exact module_acyclic_of_sameLevelRanked h hok hr

/-- the same under the weaker `SpreadAcyclic` -/
theorem module_acyclic' {c : Ctx} {op : Nat} {items : List Item}
    (h : responseForQuery c op = .ok items) (hok : moduleOk c items = true) (ha : SpreadAcyclic c.q) :
    ∃ d, Acyclic (moduleEnv c items) d := by
  obtain ⟨r, hr⟩ := ha
  exact module_acyclic_of_spreadRanked h hok hr

/-- **Part A.2** — `EnvOK` and `EnvOKS` with no per-module check -/
theorem module_envOK {c : Ctx} {op : Nat} {items : List Item}
    (h : responseForQuery c op = .ok items) (hok : moduleOk c items = true) (ha : SpreadAcyclic c.q) :
    EnvOK (moduleEnv c items) ∧ EnvOKS (moduleEnv c items) := by
  obtain ⟨d, hd⟩ := module_acyclic' h hok ha
  exact module_envOK_of_acyclic h hd

/-- `de` on the emitted module is never the fuel error -/
theorem module_de_never_out_of_fuel {c : Ctx} {op : Nat} {items : List Item}
    (h : responseForQuery c op = .ok items) (hok : moduleOk c items = true) (ha : SpreadAcyclic c.q)
    (t : RTy) (j : Json) : de (moduleEnv c items) t j ≠ .error (.unmodelled "fuel") :=
  de_never_out_of_fuel (module_envOK h hok ha).1 t j

/-- … and is what every fuel at or above the one `de` passes computes -/
theorem module_de_fuel_indep {c : Ctx} {op : Nat} {items : List Item}
    (h : responseForQuery c op = .ok items) (hok : moduleOk c items = true) (ha : SpreadAcyclic c.q)
    (t : RTy) (j : Json) (fuel : Nat) (hf : deFuel (moduleEnv c items) j ≤ fuel) :
    deTy (moduleEnv c items) false fuel t j = de (moduleEnv c items) t j :=
  de_fuel_indep (module_envOK h hok ha).1 t j fuel hf

theorem module_ser_never_out_of_fuel {c : Ctx} {op : Nat} {items : List Item}
    (h : responseForQuery c op = .ok items) (hok : moduleOk c items = true) (ha : SpreadAcyclic c.q)
    (t : RTy) (v : Val) : ser (moduleEnv c items) t v ≠ .error (.unmodelled "fuel") :=
  ser_never_out_of_fuel (module_envOK h hok ha).2 t v

theorem module_roundtrip_never_out_of_fuel {c : Ctx} {op : Nat} {items : List Item}
    (h : responseForQuery c op = .ok items) (hok : moduleOk c items = true) (ha : SpreadAcyclic c.q)
    (t : RTy) (j : Json) : roundtrip (moduleEnv c items) t j ≠ .error (.unmodelled "fuel") :=
  roundtrip_never_out_of_fuel (module_envOK h hok ha).1 (module_envOK h hok ha).2 t j

/-- a key nobody names is ignored by `de` on the emitted module (`SerdeFuel.denied_key_ignored_de`, its `EnvOK`
    hypothesis discharged) -/
theorem module_denied_key_ignored {c : Ctx} {op : Nat} {items : List Item}
    (h : responseForQuery c op = .ok items) (hok : moduleOk c items = true) (ha : SpreadAcyclic c.q)
    (k p : String) (kvs : List (String × Json)) (hkf : Composed.KeyFree (moduleEnv c items) k p) :
    de (moduleEnv c items) (.path p) (.obj kvs) = de (moduleEnv c items) (.path p) (.obj (Composed.eraseKey k kvs)) :=
  denied_key_ignored_de (module_envOK h hok ha).1 k p kvs hkf

/-! ## necessity -/

/-- **the hypothesis is needed**: the document `fragment F on Human { height ...G } fragment G on Human { height ...F }`
    is not `SameLevelAcyclic` (nor `SpreadAcyclic`), its module is emitted, passes `moduleOk`, and is not `Acyclic` for
    any rank (with the externs of `moduleEnv`) -/
theorem spread_cycle_not_sameLevelAcyclic :
    ¬ SameLevelAcyclic spreadCycleCtx.q ∧ ¬ SpreadAcyclic spreadCycleCtx.q ∧
    (∃ items, responseForQuery spreadCycleCtx 0 = .ok items ∧ moduleOk spreadCycleCtx items = true ∧
      ∀ d, ¬ Acyclic (moduleEnv spreadCycleCtx items) d) := by
  have h2 : ¬ SpreadAcyclic spreadCycleCtx.q := by
    rintro ⟨r, hr⟩
    have h01 := hr 0 _ rfl 1 (by decide)
    have h10 := hr 1 _ rfl 0 (by decide)
    omega
  refine ⟨fun h => h2 h.spreadAcyclic, h2, ?_⟩
  cases hgen : responseForQuery spreadCycleCtx 0 with
  | error e =>
    have := spread_cycle_module_not_acyclic.1
    rw [hgen] at this
    cases this
  | ok items =>
    have hex : moduleEnv spreadCycleCtx items = spreadCycleEnv := by
      simp only [moduleEnv, spreadCycleEnv, hgen]
      rfl
    have hok : moduleOk spreadCycleCtx items = true := by
      have := spread_cycle_module_not_acyclic.2.1
      simp only [spreadCycleEnv, hgen] at this
      exact this
    exact ⟨items, rfl, hok, fun d hd => spread_cycle_module_not_acyclic.2.2.2.2.2.2 d (hex ▸ hd)⟩

end AcyclicM
end GqlVerif
