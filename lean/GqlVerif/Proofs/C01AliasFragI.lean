import GqlVerif.Proofs.C01AliasFragH
import GqlVerif.Proofs.C01NestedI
/-!
# C01 end to end (`AliasFragOp`), part I: the rank recursion for the round trip; `aliasfrag_lossless`, `aliasfrag_roundtrip`

* `centA c r g kvs` — the entries the type of the fragment `g` writes for the object `kvs`: rank `0` `canonEntriesV` of its
  (spread-free) body, a fragment new at rank `r + 1` `canonEntriesN (centA c r)` of its body — for a lone-spread body
  `...G` **the entries of `G`** (an alias writes what its target writes);
* `rustSideA c r g` — decidable side condition, the formula of `rustSideN`;
* **`fragRTA`** — by induction on the rank: `FragRT e c (exN c.q r') (centA c r) (KNa c r) g` for every `r' ≥ r`;
* `aliasRustOk`, **`top_losslessA`**, **`aliasfrag_lossless`**, **`aliasfrag_roundtrip`**.
-/
set_option linter.unusedSimpArgs false
set_option linter.unusedVariables false
set_option linter.unusedSectionVars false
set_option linter.unnecessarySimpa false

namespace GqlVerif
namespace C01AF
open Serde Spec C13 C03 Codegen C01 C01.E2E C01M C01N

/-- **the entries the type of the fragment `g` writes** -/
def centA (c : Ctx) : Nat → Nat → List (String × Json) → List (String × Json)
  | 0, g, kvs => canonEntriesV c.s c.o.skipNone (fragSels c.q g) kvs
  | r + 1, g, kvs =>
    if fragOkA c.s c.q c.o r (fragOn c.q g) g then centA c r g kvs
    else canonEntriesN (centA c r) c.s c.q c.o.skipNone (fragSels c.q g) kvs

/-- **Rust field names pairwise distinct in the struct of the fragment `g`** and in the structs below (decidable) -/
def rustSideA (c : Ctx) : Nat → Nat → Bool
  | 0, g => rustOkFrag c g
  | r + 1, g =>
    if fragOkA c.s c.q c.o r (fragOn c.q g) g then rustSideA c r g
    else rustOkSelsN c (fragSels c.q g) && EnumSpec.nodup (rustNamesF c (fragSels c.q g)) &&
      (objSpreadss c.s (fragSels c.q g)).all (rustSideA c r)

theorem centA_zero (c : Ctx) : centA c 0 = centN c 0 := by
  funext g kvs; rw [centA, centN]

/-- **round trip of the type of a fragment of rank `r`** (by induction on the rank) -/
theorem fragRTA (e : Env) (c : Ctx) (hnd : fragNamesOk c = true) : ∀ (r : Nat) (p : TypeId) (g : Nat),
    fragOkA c.s c.q c.o r p g = true → FragEnvA e c r g → fragSideA c r g = true → rustSideA c r g = true →
    ∀ r', r ≤ r' → FragRT e c (exN c.q r') (centA c r) (KNa c r) g
  | 0, p, g => by
    intro h henv _ hro r' hr'
    rw [fragOkA] at h
    rw [FragEnvA] at henv
    rw [rustSideA] at hro
    rw [centA_zero, KNa_zero]
    exact fragRTN e c hnd 0 p g (by rw [fragOkN]; exact h) (by rw [FragEnvN]; exact henv) (by rw [fragSideN])
      (by rw [rustSideN]; exact hro) r' hr'
  | r + 1, p, g => by
    intro h henv hside hro r' hr'
    have IH := fragRTA e c hnd r
    by_cases hold : fragOkA c.s c.q c.o r p g = true
    · obtain ⟨fr, hfr, hon, _, _⟩ := fragOkA_spec c.s c.q c.o r p g hold
      have hfon : fragOn c.q g = p := by simp [fragOn, hfr, hon]
      have hname : fragName c g = fr.name := by simp [fragName, hfr]
      have hid : idOf c.q fr.name = g := idOf_name hnd hfr
      rw [FragEnvA, hfon, if_pos hold] at henv
      rw [fragSideA, hfon, if_pos hold] at hside
      rw [rustSideA, hfon, if_pos hold] at hro
      refine (IH p g hold henv hside hro r' (by omega)).congr (fun kvs => ?_) ?_
      · rw [centA, hfon, if_pos hold]
      · rw [hname, KNa, hid, hfon, if_pos hold]
    · have holdf : fragOkA c.s c.q c.o r p g = false := by simpa using hold
      rw [fragOkA, holdf, Bool.false_or] at h
      obtain ⟨fr, hfr, hon, _, _, hb⟩ := fragNewA_parts h
      have hfon : fragOn c.q g = p := by simp [fragOn, hfr, hon]
      have hname : fragName c g = fr.name := by simp [fragName, hfr]
      have hsels : fragSels c.q g = fr.sels := by simp [fragSels, hfr]
      have hid : idOf c.q fr.name = g := idOf_name hnd hfr
      have hKN : KNa c (r + 1) fr.name = expKeysN (KNa c r) c fr.sels := by
        rw [KNa, hid, hfon, if_neg hold, hsels]
      have hce : ∀ kvs, centA c (r + 1) g kvs = canonEntriesN (centA c r) c.s c.q c.o.skipNone fr.sels kvs := by
        intro kvs; rw [centA, hfon, if_neg hold, hsels]
      by_cases hpo : ∃ i, p = .object i
      · obtain ⟨i, rfl⟩ := hpo
        obtain ⟨r'', rfl⟩ : ∃ k, r' = k + 1 := ⟨r' - 1, by omega⟩
        have hex : exN c.q (r'' + 1) g = .inline (.object i) (expandSelsW (exN c.q r'') fr.sels) := by
          simp [exN, hfr, hon]
        rw [FragEnvA, hfon, if_neg hold] at henv
        simp only [hfr] at henv
        rw [fragSideA, hfon] at hside
        simp only [holdf, Bool.false_eq_true, ↓reduceIte, hsels, Bool.and_eq_true, List.all_eq_true] at hside
        rw [rustSideA, hfon] at hro
        simp only [holdf, Bool.false_eq_true, ↓reduceIte, hsels, Bool.and_eq_true, List.all_eq_true] at hro
        obtain ⟨⟨hko, hkeys⟩, hsub⟩ := hside
        obtain ⟨⟨hros, hrn⟩, hrsub⟩ := hro
        have hok := fragOkA_spec c.s c.q c.o r
        have hfa : ∀ p' g', fragOkA c.s c.q c.o r p' g' = true →
            (FragEnvA e c r g' ∧ (fragSideA c r g' = true ∧ rustSideA c r g' = true)) →
            FragAccA e c (wholeA c r) (KNa c r) g' :=
          fun p' g' h1 h2 => fragAccA e c hnd r p' g' h1 h2.1 h2.2.1
        have hfrt : ∀ p' g', fragOkA c.s c.q c.o r p' g' = true →
            (FragEnvA e c r g' ∧ (fragSideA c r g' = true ∧ rustSideA c r g' = true)) →
            FragRT e c (exN c.q r'') (centA c r) (KNa c r) g' :=
          fun p' g' h1 h2 => IH p' g' h1 h2.1 h2.2.1 h2.2.2 r'' (by omega)
        have hexA : ∀ g', FragOkAny c.s c.q c.o g' → exN c.q r'' g' = expandSel c.q (.spread g') :=
          fun g' hg' => exN_fragOkAny hg' r''
        rw [hon] at hb
        by_cases hsp : ∃ g', fr.sels = [Sel.spread g']
        · -- **a lone spread: the alias reads and writes what its target reads and writes**
          obtain ⟨g', hg'⟩ := hsp
          rw [hg'] at hb henv hsub hrsub hKN hce hex
          have hokg' : fragOkA c.s c.q c.o r (.object i) g' = true := hb
          obtain ⟨fr', hfr', hon', _, _⟩ := hok _ _ hokg'
          have hfon' : fragOn c.q g' = .object i := by simp [fragOn, hfr', hon']
          unfold BodyEnvN at henv
          simp only at henv
          obtain ⟨⟨hp, _, n, pub, hfind⟩, henv'⟩ := henv
          have hmemg' : g' ∈ objSpreadss c.s [Sel.spread g'] := by simp [objSpreadss, objSpreads]
          obtain ⟨N, hN⟩ := (hfrt _ g' hokg' ⟨henv', hsub g' hmemg', hrsub g' hmemg'⟩).rt
          have hKN' : KNa c (r + 1) fr.name = KNa c r (fragName c g') := by rw [hKN]; simp [expKeysN]
          have hce' : ∀ kvs, centA c (r + 1) g kvs = centA c r g' kvs := by
            intro kvs; rw [hce]; simp [canonEntriesN]
          refine ⟨⟨N + 2, fun fd fs hfd hfs b i' kvs L v hfon'' hndk hL hcf hd => ?_⟩⟩
          have hi : i' = i := by
            rw [hfon] at hfon''; injection hfon'' with h; exact h.symm
          subst hi
          rw [hname] at hL hd ⊢
          rw [hKN'] at hL
          obtain ⟨fd', rfl⟩ : ∃ k, fd = k + 1 := ⟨fd - 1, by omega⟩
          obtain ⟨fs', rfl⟩ : ∃ k, fs = k + 2 := ⟨fs - 2, by omega⟩
          have hd' : dePath e b fd' (fragName c g') (.obj (kvs.filter (fun kv => !L.contains kv.1))) = .ok v := by
            rw [dePath] at hd; simpa only [dePrim_none hp, hfind, deTyWith] using hd
          rw [hex] at hcf
          simp only [expandSelsW, expandSelW, confSelV, fragApplies, beq_self_eq_true, Bool.not_true, Bool.false_or,
            confSelsV, Bool.and_true] at hcf
          rw [serPath_alias e fr.name (fragName c g') n pub hfind, hce']
          exact hN fd' (fs' + 1) (by omega) (by omega) b i' kvs L v hfon' hndk hL hcf hd'
        · have hnl : ∀ g', fr.sels ≠ [Sel.spread g'] := fun g' hg' => hsp ⟨g', hg'⟩
          rw [nBody_not_lone hnl] at hb
          obtain ⟨hs, henvs⟩ := bodyEnvN_not_lone hnl henv
          have henvs' := envSelsN_and (P := fun g' => fragSideA c r g' = true ∧ rustSideA c r g' = true) fr.sels _ henvs
            (fun g' hg' => ⟨hsub g' hg', hrsub g' hg'⟩)
          obtain ⟨N, hN⟩ := rtStructA e c _ (wholeA c r) (KNa c r) _ (exN c.q r'') (centA c r) hok hfa hfrt
            (c.cs.camel fr.name) fr.name i fr.sels
            (rtSelsA e c _ (wholeA c r) (KNa c r) _ (exN c.q r'') (centA c r) fr.sels _ hok hfa hfrt hexA) hb henvs' hko
            hkeys hros hrn hs
          refine ⟨⟨N, fun fd fs hfd hfs b i' kvs L v hfon' hndk hL hcf hd => ?_⟩⟩
          have hi : i' = i := by
            rw [hfon] at hfon'; injection hfon' with h; exact h.symm
          subst hi
          rw [hname] at hL hd ⊢
          rw [hKN] at hL
          rw [hex] at hcf
          simp only [confSelV, fragApplies, beq_self_eq_true, Bool.not_true, Bool.false_or] at hcf
          rw [hce]
          exact hN b fd fs hfd hfs kvs L v hndk hL hcf hd
      · refine ⟨⟨0, fun fd fs _ _ b i kvs L v hfon' => ?_⟩⟩
        exact absurd ⟨i, hfon.symm.trans hfon'⟩ hpo

/-! ## top level -/

/-- Rust field names pairwise distinct in every struct at an object position of the operation and in the structs of the
    spread fragments, recursively (decidable) -/
def aliasRustOk (c : Ctx) (op : ROperation) : Bool :=
  rustOkSelsN c op.sels && EnumSpec.nodup (rustNamesF c op.sels) &&
  (objSpreadss c.s op.sels).all (rustSideA c c.q.fragments.length)

/-- **losslessness at the top level** (generic environment) -/
theorem top_losslessA (e : Env) (c : Ctx) (op : ROperation) (ht : AliasFragOp c op = true) (hnd : fragNamesOk c = true)
    (hk : aliasKeysOk c op = true) (hr : aliasRustOk c op = true) (he : TopEnvA e c op) (hS : SerdeFuel.EnvOKS e)
    (j : Json) (v : Val) (hc : conformsOpN c op j = true) (hd : Serde.de e (.path "ResponseData") j = .ok v) :
    Serde.ser e (.path "ResponseData") v =
      .ok (normJson (canonSelN (centA c c.q.fragments.length) c.s c.q c.o.skipNone op.sels j)) := by
  obtain ⟨_, _, hsels⟩ := aliasFragOp_parts ht
  simp only [aliasKeysOk, Bool.and_eq_true, List.all_eq_true] at hk
  simp only [aliasRustOk, Bool.and_eq_true, List.all_eq_true] at hr
  obtain ⟨⟨hko, hkeys⟩, hsub⟩ := hk
  obtain ⟨⟨hros, hrn⟩, hrsub⟩ := hr
  have hfa : ∀ p' g', fragOkA c.s c.q c.o c.q.fragments.length p' g' = true →
      (FragEnvA e c c.q.fragments.length g' ∧
        (fragSideA c c.q.fragments.length g' = true ∧ rustSideA c c.q.fragments.length g' = true)) →
      FragAccA e c (wholeA c c.q.fragments.length) (KNa c c.q.fragments.length) g' :=
    fun p' g' h1 h2 => fragAccA e c hnd _ p' g' h1 h2.1 h2.2.1
  have hfrt : ∀ p' g', fragOkA c.s c.q c.o c.q.fragments.length p' g' = true →
      (FragEnvA e c c.q.fragments.length g' ∧
        (fragSideA c c.q.fragments.length g' = true ∧ rustSideA c c.q.fragments.length g' = true)) →
      FragRT e c (exN c.q c.q.fragments.length) (centA c c.q.fragments.length) (KNa c c.q.fragments.length) g' :=
    fun p' g' h1 h2 => fragRTA e c hnd _ p' g' h1 h2.1 h2.2.1 h2.2.2 _ (Nat.le_refl _)
  obtain ⟨N, hN⟩ := bodyA_lossless e c _ (wholeA c c.q.fragments.length) (KNa c c.q.fragments.length) _
    (exN c.q c.q.fragments.length) (centA c c.q.fragments.length) (fragOkA_spec c.s c.q c.o _) hfa hfrt
    (fun g hg => exN_fragOkAny hg _) (c.cs.camel op.name) "ResponseData" op.objectId op.sels hsels
    (bodyEnvN_and (P := fun g' => fragSideA c c.q.fragments.length g' = true ∧
        rustSideA c c.q.fragments.length g' = true) he.root (fun g' hg' => ⟨hsub g' hg', hrsub g' hg'⟩))
    hko hkeys hros hrn
  rw [de_top, ← SerdeFuel.dePath_fuel_indep he.ok false "ResponseData" j (max N (deFuel e j))
    (Nat.le_max_right _ _)] at hd
  have hser := hN false _ (max N (SerdeFuel.serFuel e v)) (Nat.le_max_left _ _) (Nat.le_max_left _ _) j v hc hd
  rw [← SerdeFuel.ser_fuel_indep hS (.path "ResponseData") v (max N (SerdeFuel.serFuel e v)) (Nat.le_max_right _ _)]
  rw [show serTy e (max N (SerdeFuel.serFuel e v)) (.path "ResponseData") v =
    serPath e (max N (SerdeFuel.serFuel e v)) "ResponseData" v from rfl, hser]
  rfl

/-- **`aliasfrag_lossless`.**  A conforming response that was read is written back as `normJson (canonSelN … j)`. -/
theorem aliasfrag_lossless (c : Ctx) (opIdx : Nat) (op : ROperation) (items : List Item)
    (hop : c.q.operations[opIdx]? = some op) (ht : AliasFragOp c op = true) (hnd : fragNamesOk c = true)
    (hk : aliasKeysOk c op = true) (hr : aliasRustOk c op = true)
    (hgen : responseForQuery c opIdx = .ok items) (hok : moduleOk c items = true)
    (j : Json) (hc : conformsOpN c op j = true) (v : Val)
    (hd : Serde.de (moduleEnv c items) (.path "ResponseData") j = .ok v) :
    Serde.ser (moduleEnv c items) (.path "ResponseData") v =
      .ok (normJson (canonSelN (centA c c.q.fragments.length) c.s c.q c.o.skipNone op.sels j)) :=
  top_losslessA (moduleEnv c items) c op ht hnd hk hr
    (topEnvA_of_module hop ht hgen hok) (aliasfrag_module_envOK hop ht hgen hok).2 j v hc hd

/-- **`aliasfrag_roundtrip`**: both in one statement -/
theorem aliasfrag_roundtrip (c : Ctx) (opIdx : Nat) (op : ROperation) (items : List Item)
    (hop : c.q.operations[opIdx]? = some op) (ht : AliasFragOp c op = true) (hnd : fragNamesOk c = true)
    (hk : aliasKeysOk c op = true) (hr : aliasRustOk c op = true)
    (hgen : responseForQuery c opIdx = .ok items) (hok : moduleOk c items = true)
    (j : Json) (hc : conformsOpN c op j = true) :
    Serde.roundtrip (moduleEnv c items) (.path "ResponseData") j =
      .ok (normJson (canonSelN (centA c c.q.fragments.length) c.s c.q c.o.skipNone op.sels j)) := by
  obtain ⟨v, hv⟩ := aliasfrag_accepts c opIdx op items hop ht hnd hk hgen hok j hc
  unfold Serde.roundtrip
  rw [hv]
  exact aliasfrag_lossless c opIdx op items hop ht hnd hk hr hgen hok j hc v hv

end C01AF
end GqlVerif
