import GqlVerif.Proofs.C04RustVars
import GqlVerif.Proofs.C04SurjectiveExamples
/-!
# C04 — GraphQL's list input coercion and the generated `Vec<T>`

GraphQL (spec §3.11 *List*, Input Coercion) accepts a single value where a list is expected: "if the value passed as an
input to a list type is not a list and not the null value, then the result of input coercion is a list of size one,
where the single item value is the result of input coercion for the list's item type on the provided value (note this
may apply recursively for nested lists)" — `[Int]` given `7` means `[7]`, `[[Int]]` given `7` means `[[7]]`, given
`[1, 2]` means `[[1], [2]]`; `null` stays `null`.  The generated `Vec<T>` neither writes nor reads a bare value.

* `ValidC L s id b t j` — **the specification with list input coercion**: `C04S.Valid` plus the rule `wrap`
  (a non-list, non-null value valid for the item type is valid at the list type).  `Valid` is left as it is
  (`valid_validC`: `Valid ⊆ ValidC`).
* `coerce s id t j` — the coerced spelling: every non-list, non-null value at a list position is wrapped (one list per
  list level), recursively through lists and through the members of input objects; `wrapTy`, `coerceList`, `coerceKvs`.
  `coerce_of_valid`: a value that is valid without coercion is left alone.
* **`validC_coerce`**: `ValidC … j → Valid … (coerce … j)` (field names of the input types met are distinct).
* `VarsValidC`, `coerceVars`, **`varsValid_coerce`**, **`valid_mod_coercion_expressible`** (every assignment valid
  under the coercing validity has its coerced spelling expressible: it is — in canonical form — the serialization of a
  `Variables` value, which `from_value` reads it as), `valid_mod_coercion_expressible_rust` (the same for a context
  with `normalization = rust`, by `variables_expressible_rust`).
* `ser_list_is_list`, `ser_listTy_null_or_list`: `Serialize` at `Vec<T>` writes a JSON array (at a GraphQL list type:
  `null` or an array); `valid_list_shape`; **`bare_value_not_expressible`**: an assignment that carries a bare value for
  a variable of list type is not in the image of serialization, for any module satisfying the hypotheses of
  `variables_ser_valid` (`bare_value_not_expressible_rust`: of `variables_ser_valid_rust`).
* **`coerced_not_expressible`** (concrete witness, `query Q($ids: [Int], $grid: [[Int!]], $page: page_input)`):
  `{"ids": 7}` is valid by the specification with coercion, not valid without, not written by any `Variables` value,
  rejected by `from_value`; its canonical spelling `{"ids": [7]}` is `coerceVars` of it and is expressible.
-/
namespace GqlVerif
namespace C04R
open Serde Codegen C09 C09N C04S C13

/-! ## 1. the specification with list input coercion -/

/-- **`ValidC`** = `C04S.Valid` + list input coercion (`wrap`) -/
inductive ValidC (L : Leaves) (s : Schema) : TypeId → Bool → GTy → Json → Prop
  | null {id t} : isNN t = false → ValidC L s id false t .null
  | some {id t j} : isNN t = false → ValidC L s id true t j → ValidC L s id false t j
  | bang {id b t j} : ValidC L s id true t j → ValidC L s id b (.nonNull t) j
  | list {id t xs} : (∀ x ∈ xs, ValidC L s id false t x) → ValidC L s id true (.list t) (.arr xs)
  /-- spec §3.11: a value that is neither a list nor `null` is coerced to the list of size one holding it -/
  | wrap {id t j} : (∀ xs, j ≠ .arr xs) → j ≠ .null → ValidC L s id false t j → ValidC L s id true (.list t) j
  | scalar {k n nm j} : s.scalars[k]? = some n → scalarOk L n j = true → ValidC L s (.scalar k) true (.named nm) j
  | enum {k en nm v} : s.enums[k]? = some en → (L.enumOpen = true ∨ v ∈ en.variants) →
      ValidC L s (.enum k) true (.named nm) (.str v)
  | object {k i nm kvs} : s.inputs[k]? = some i → i.isOneOf = false → (keys kvs).Nodup →
      (∀ key ∈ keys kvs, key ∈ i.fields.map (·.1)) →
      (∀ p ∈ i.fields, Json.lookup p.1 kvs = none → isNN (gty p.2) = false) →
      (∀ p ∈ i.fields, ∀ v, Json.lookup p.1 kvs = some v → ValidC L s p.2.id false (gty p.2) v) →
      ValidC L s (.input k) true (.named nm) (.obj kvs)
  | oneOf {k i nm p v} : s.inputs[k]? = some i → i.isOneOf = true → p ∈ i.fields →
      ValidC L s p.2.id false (.nonNull (gty p.2)) v →
      ValidC L s (.input k) true (.named nm) (.obj [(p.1, v)])

/-- the coercing validity extends the plain one -/
theorem valid_validC {L : Leaves} {s : Schema} {id : TypeId} {b : Bool} {t : GTy} {j : Json}
    (h : Valid L s id b t j) : ValidC L s id b t j := by
  induction h with
  | null hn => exact .null hn
  | some hn _ ih => exact .some hn ih
  | bang _ ih => exact .bang ih
  | list _ ih => exact .list ih
  | scalar hk hok => exact .scalar hk hok
  | «enum» hk hv => exact .enum hk hv
  | object hk hone hnd hdecl hreq _ ih => exact .object hk hone hnd hdecl hreq ih
  | oneOf hk hone hp _ ih => exact .oneOf hk hone hp ih

/-! ## 2. the coerced spelling -/

/-- a non-list, non-null value at a position of type `t`: one singleton list per list level of `t` -/
def wrapTy : GTy → Json → Json
  | .named _, j => j
  | .nonNull t, j => wrapTy t j
  | .list t, j => .arr [wrapTy t j]

mutual
  /-- **`coerce`** — structural recursion on the JSON value, like `C04S.canon`: the elements of a JSON array are
      coerced at the item type, the members of an input object at their field types, and a value that is neither an
      array nor `null` is wrapped according to the list levels of the position -/
  def coerce (s : Schema) : TypeId → GTy → Json → Json
    | id, t, .arr xs => .arr (coerceList s id (elemTy t) xs)
    | id, t, .obj kvs =>
      wrapTy t (match inputOf s id with
        | some i => .obj (coerceKvs s i.fields kvs)
        | none => .obj kvs)
    | _, _, .null => .null
    | _, t, .bool b => wrapTy t (.bool b)
    | _, t, .int n => wrapTy t (.int n)
    | _, t, .num v => wrapTy t (.num v)
    | _, t, .str v => wrapTy t (.str v)
  def coerceList (s : Schema) : TypeId → GTy → List Json → List Json
    | _, _, [] => []
    | id, t, x :: xs => coerce s id t x :: coerceList s id t xs
  def coerceKvs (s : Schema) : List (String × FieldType) → List (String × Json) → List (String × Json)
    | _, [] => []
    | fields, (k, v) :: rest =>
      (k, match fields.find? (·.1 == k) with
          | some p => coerce s p.2.id (gty p.2) v
          | none => v) :: coerceKvs s fields rest
end

/-- the spec's table (§3.11), at `Int` -/
example (s : Schema) (id : TypeId) :
    coerce s id (.list (.named "Int")) (.int 1) = .arr [.int 1] ∧
    coerce s id (.list (.named "Int")) (.arr [.int 1, .int 2]) = .arr [.int 1, .int 2] ∧
    coerce s id (.list (.named "Int")) .null = .null ∧
    coerce s id (.list (.list (.named "Int"))) (.int 1) = .arr [.arr [.int 1]] ∧
    coerce s id (.list (.list (.named "Int"))) (.arr [.int 1, .null, .arr [.int 3]]) =
      .arr [.arr [.int 1], .null, .arr [.int 3]] ∧
    coerce s id (.nonNull (.list (.nonNull (.named "Int")))) (.int 1) = .arr [.int 1] := by
  simp [coerce, coerceList, wrapTy, elemTy]

/-! ### unfolding -/

theorem coerce_arr (s id t xs) : coerce s id t (.arr xs) = .arr (coerceList s id (elemTy t) xs) := by rw [coerce]
theorem coerce_null (s id t) : coerce s id t .null = .null := by rw [coerce]
theorem coerce_str (s id t v) : coerce s id t (.str v) = wrapTy t (.str v) := by rw [coerce]
theorem coerceList_eq_map (s id t) : ∀ xs, coerceList s id t xs = xs.map (coerce s id t)
  | [] => by rw [coerceList]; rfl
  | x :: xs => by rw [coerceList, coerceList_eq_map s id t xs]; rfl

theorem coerce_obj_input (s k t kvs i) (hi : s.inputs[k]? = some i) :
    coerce s (.input k) t (.obj kvs) = wrapTy t (.obj (coerceKvs s i.fields kvs)) := by
  rw [coerce]; simp only [inputOf, hi]

/-- `!` is immaterial -/
theorem coerce_nonNull (s id t) (j : Json) : coerce s id (.nonNull t) j = coerce s id t j := by
  cases j <;> (rw [coerce, coerce]) <;> rfl

/-- a bare value at a list position becomes the singleton list of its coerced spelling at the item type -/
theorem coerce_list_bare (s id t) (j : Json) (hna : ∀ xs, j ≠ .arr xs) (hnn : j ≠ .null) :
    coerce s id (.list t) j = .arr [coerce s id t j] := by
  cases j with
  | arr xs => exact absurd rfl (hna xs)
  | null => exact absurd rfl hnn
  | obj kvs => rw [coerce, coerce]; rfl
  | bool b => rw [coerce, coerce]; rfl
  | int n => rw [coerce, coerce]; rfl
  | num v => rw [coerce, coerce]; rfl
  | str v => rw [coerce, coerce]; rfl

theorem scalarOk_arr (L : Leaves) (n : String) (xs : List Json) : scalarOk L n (.arr xs) = false := by
  unfold scalarOk
  repeat (split <;> try rfl)

theorem scalarOk_obj (L : Leaves) (n : String) (kvs : List (String × Json)) : scalarOk L n (.obj kvs) = false := by
  unfold scalarOk
  repeat (split <;> try rfl)

/-- a scalar value at a position without list level is left alone -/
theorem coerce_scalar {L : Leaves} {n : String} {j : Json} (h : scalarOk L n j = true) (s id nm) :
    coerce s id (.named nm) j = j := by
  cases j with
  | arr xs => rw [scalarOk_arr] at h; cases h
  | obj kvs => rw [scalarOk_obj] at h; cases h
  | null => rw [coerce]
  | bool b => rw [coerce]; rfl
  | int n => rw [coerce]; rfl
  | num v => rw [coerce]; rfl
  | str v => rw [coerce]; rfl

theorem keys_coerceKvs (s : Schema) (fields : List (String × FieldType)) :
    ∀ kvs, keys (coerceKvs s fields kvs) = keys kvs
  | [] => by rw [coerceKvs]
  | (k, v) :: rest => by
    rw [coerceKvs]
    simp only [keys, List.map_cons, List.cons.injEq, true_and]
    exact keys_coerceKvs s fields rest

theorem lookup_coerceKvs (s : Schema) (fields : List (String × FieldType))
    (hn : (fields.map (·.1)).Nodup) (p : String × FieldType) (hp : p ∈ fields) :
    ∀ kvs, Json.lookup p.1 (coerceKvs s fields kvs) = (Json.lookup p.1 kvs).map (coerce s p.2.id (gty p.2))
  | [] => by rw [coerceKvs]; rfl
  | (k, v) :: rest => by
    rw [coerceKvs]
    simp only [Json.lookup]
    by_cases hk : k = p.1
    · subst hk
      simp only [BEq.rfl, ↓reduceIte, find_field hn hp, Option.map_some]
    · have : (k == p.1) = false := by simpa using hk
      simp only [this, Bool.false_eq_true, ↓reduceIte]
      exact lookup_coerceKvs s fields hn p hp rest

/-! ## 3. `ValidC` is `Valid` modulo `coerce` -/

/-- **`validC_coerce`**: a value valid under the coercing validity has a coerced spelling that is valid without
    coercion.  `U`: a set of named types, closed under the fields of input types, whose input types have distinct
    field names (GraphQL requires it of every input type; `InputEnv.fieldNames` / `.closed` give it for the used ones). -/
theorem validC_coerce {L : Leaves} {s : Schema} (U : TypeId → Prop)
    (hU : ∀ k i, U (.input k) → s.inputs[k]? = some i → (i.fields.map (·.1)).Nodup ∧ ∀ p ∈ i.fields, U p.2.id)
    {id : TypeId} {b : Bool} {t : GTy} {j : Json} (h : ValidC L s id b t j) :
    U id → Valid L s id b t (coerce s id t j) := by
  induction h with
  | null hn => intro _; rw [coerce_null]; exact .null hn
  | some hn _ ih => intro hu; exact .some hn (ih hu)
  | bang _ ih => intro hu; rw [coerce_nonNull]; exact .bang (ih hu)
  | @list id t xs _ ih =>
    intro hu
    rw [coerce_arr, coerceList_eq_map]
    refine .list (fun y hy => ?_)
    obtain ⟨x, hx, rfl⟩ := List.mem_map.mp hy
    exact ih x hx hu
  | wrap hna hnn _ ih =>
    intro hu
    rw [coerce_list_bare _ _ _ _ hna hnn]
    refine .list (fun y hy => ?_)
    rw [List.mem_singleton] at hy
    subst hy
    exact ih hu
  | scalar hk hok => intro _; rw [coerce_scalar hok]; exact .scalar hk hok
  | «enum» hk hv => intro _; rw [coerce_str]; exact .enum hk hv
  | @object k i nm kvs hk hone hnd hdecl hreq _ ih =>
    intro hu
    obtain ⟨hnames, hclosed⟩ := hU k i hu hk
    rw [coerce_obj_input _ _ _ _ _ hk]
    refine .object hk hone ?_ ?_ ?_ ?_
    · rw [keys_coerceKvs]; exact hnd
    · rw [keys_coerceKvs]; exact hdecl
    · intro p hp hl
      rw [lookup_coerceKvs s _ hnames p hp, Option.map_eq_none_iff] at hl
      exact hreq p hp hl
    · intro p hp v hl
      rw [lookup_coerceKvs s _ hnames p hp, Option.map_eq_some_iff] at hl
      obtain ⟨v0, hl0, rfl⟩ := hl
      exact ih p hp v0 hl0 (hclosed p hp)
  | @oneOf k i nm p v hk hone hp _ ih =>
    intro hu
    obtain ⟨hnames, hclosed⟩ := hU k i hu hk
    rw [coerce_obj_input _ _ _ _ _ hk]
    have : coerceKvs s i.fields [(p.1, v)] = [(p.1, coerce s p.2.id (gty p.2) v)] := by
      rw [coerceKvs, coerceKvs, find_field hnames hp]
    rw [this]
    have := ih (hclosed p hp)
    rw [coerce_nonNull] at this
    exact .oneOf hk hone hp this

/-- **`coerce` leaves the canonical spelling alone**: a value that is valid without coercion is its own coerced
    spelling -/
theorem coerce_of_valid {L : Leaves} {s : Schema} (U : TypeId → Prop)
    (hU : ∀ k i, U (.input k) → s.inputs[k]? = some i → (i.fields.map (·.1)).Nodup ∧ ∀ p ∈ i.fields, U p.2.id)
    {id : TypeId} {b : Bool} {t : GTy} {j : Json} (h : Valid L s id b t j) : U id → coerce s id t j = j := by
  induction h with
  | null hn => intro _; rw [coerce_null]
  | some hn _ ih => exact ih
  | bang _ ih => intro hu; rw [coerce_nonNull]; exact ih hu
  | @list id t xs _ ih =>
    intro hu
    rw [coerce_arr, coerceList_eq_map]
    congr 1
    conv => rhs; rw [← List.map_id xs]
    exact List.map_congr_left (fun x hx => ih x hx hu)
  | scalar hk hok => intro _; exact coerce_scalar hok _ _ _
  | «enum» hk hv => intro _; rw [coerce_str]; rfl
  | @object k i nm kvs hk hone hnd hdecl hreq hval ih =>
    intro hu
    obtain ⟨hnames, hclosed⟩ := hU k i hu hk
    rw [coerce_obj_input _ _ _ _ _ hk]
    show Json.obj (coerceKvs s i.fields kvs) = Json.obj kvs
    congr 1
    -- every entry is left alone
    have hent : ∀ kv ∈ kvs, ∃ p ∈ i.fields, p.1 = kv.1 ∧ coerce s p.2.id (gty p.2) kv.2 = kv.2 := by
      intro kv hkv
      obtain ⟨p, hp, hpk⟩ := List.mem_map.mp (hdecl kv.1 (List.mem_map_of_mem (f := (·.1)) hkv))
      have hpk' : p.1 = kv.1 := hpk
      refine ⟨p, hp, hpk', ih p hp kv.2 ?_ (hclosed p hp)⟩
      rw [hpk']
      exact lookup_of_mem_nodup hnd hkv
    clear hnd hdecl hreq hval ih
    induction kvs with
    | nil => rw [coerceKvs]
    | cons kv rest ihr =>
      obtain ⟨key, v⟩ := kv
      obtain ⟨p, hp, hpk, hc⟩ := hent (key, v) (by simp)
      simp only at hpk hc
      subst hpk
      rw [coerceKvs, find_field hnames hp]
      simp only
      rw [hc, ihr (fun kv hkv => hent kv (by simp [hkv]))]
  | @oneOf k i nm p v hk hone hp _ ih =>
    intro hu
    obtain ⟨hnames, hclosed⟩ := hU k i hu hk
    rw [coerce_obj_input _ _ _ _ _ hk]
    have := ih (hclosed p hp)
    rw [coerce_nonNull] at this
    show Json.obj (coerceKvs s i.fields [(p.1, v)]) = _
    rw [coerceKvs, coerceKvs, find_field hnames hp]
    simp only
    rw [this]

/-! ## 4. whole assignments -/

/-- a whole variables assignment, valid by the specification **with** list input coercion -/
structure VarsValidC (L : Leaves) (c : Ctx) (op : Nat) (kvs : List (String × Json)) : Prop where
  nodup : (keys kvs).Nodup
  declared : ∀ key ∈ keys kvs, key ∈ (varFields c op).map (·.1)
  required : ∀ p ∈ varFields c op, Json.lookup p.1 kvs = none → isNN (gty p.2) = false
  valid : ∀ p ∈ varFields c op, ∀ v, Json.lookup p.1 kvs = some v → ValidC L c.s p.2.id false (gty p.2) v

theorem varsValid_varsValidC {L : Leaves} {c : Ctx} {op : Nat} {kvs : List (String × Json)}
    (h : VarsValid L c op kvs) : VarsValidC L c op kvs :=
  ⟨h.nodup, h.declared, h.required, fun p hp v hl => valid_validC (h.valid p hp v hl)⟩

/-- the coerced spelling of an assignment: every variable's value coerced at the variable's declared type -/
def coerceVars (c : Ctx) (op : Nat) (kvs : List (String × Json)) : List (String × Json) :=
  coerceKvs c.s (varFields c op) kvs

/-- the declared variables of a generated module have distinct names (the module compiles: `hmem`) -/
theorem varNames_nodup (c : Ctx) (op : Nat) (items : List Item)
    (hnorm : c.o.normalization = .none)
    (hkwI : ∀ i ∈ c.s.inputs, keywordReplace i.name = i.name)
    (hkwS : ∀ n ∈ c.s.scalars, keywordReplace n = n)
    (hkwE : ∀ e ∈ c.s.enums, keywordReplace e.name = e.name)
    (hvars : ∀ v ∈ c.q.opVariables op, C02.Relevant v.ty.id)
    (hmem : ∀ it ∈ items, (C02.memberIdents it).Nodup)
    (h : responseForQuery c op = .ok items) (hne : c.q.opVariables op ≠ []) :
    ((varFields c op).map (·.1)).Nodup := by
  obtain ⟨_, _, _, _, _, V, _, _, _, _, _, _, _, hV, _, _, hitems⟩ := C02.responseForQuery_ok_full h
  obtain ⟨hhead, _⟩ := variablesItems_head hnorm
    (fun v hv tn htn => kw_typeName hkwI hkwS hkwE (hvars v hv) htn) hV hne
  have hin : variablesSpec c op ∈ items := by
    cases V with
    | nil => simp at hhead
    | cons a rest =>
      simp only [List.head?_cons, Option.some.injEq] at hhead
      rw [hitems, hhead]; simp
  have hrust : ((varFields c op).map fun p => (varMember c p).rust).Nodup := by
    have := hmem _ hin
    simpa [variablesSpec, C02.memberIdents, List.map_map, Function.comp_def] using this
  exact nodup_fst_of_comp (fun n => keywordReplace (c.cs.snake n)) (fun p : String × FieldType => p.1) hrust

/-- **`varsValid_coerce`**: the coerced spelling of an assignment that is valid with list input coercion is valid
    without (hypotheses: those of `variables_expressible`, for the module emitted for the operation) -/
theorem varsValid_coerce (L : Leaves) (c : Ctx) (op : Nat) (items : List Item)
    (hnorm : c.o.normalization = .none)
    (hkwI : ∀ i ∈ c.s.inputs, keywordReplace i.name = i.name)
    (hkwS : ∀ n ∈ c.s.scalars, keywordReplace n = n)
    (hkwE : ∀ e ∈ c.s.enums, keywordReplace e.name = e.name)
    (hwf : C02.OutputOnly c.s c.q = true) (hrel : C02.InputFieldsRelevant c.s = true)
    (hvars : ∀ v ∈ c.q.opVariables op, C02.Relevant v.ty.id)
    (hdef : (Scope.defines items).Nodup) (hmem : ∀ it ∈ items, (C02.memberIdents it).Nodup)
    (hprim : ∀ it ∈ items, C01.notPrim it.name) (hfree : ExternsFree c items)
    (h : responseForQuery c op = .ok items) (hne : c.q.opVariables op ≠ []) (kvs : List (String × Json))
    (hvalid : VarsValidC L c op kvs) : VarsValid L c op (coerceVars c op kvs) := by
  obtain ⟨u, hu, env⟩ := inputEnv_of_module c op items hnorm hkwI hwf hrel hdef hmem hprim hfree h
  have hnames := varNames_nodup c op items hnorm hkwI hkwS hkwE hvars hmem h hne
  have hUv : ∀ p ∈ varFields c op, p.2.id ∈ u.types := by
    intro p hp
    obtain ⟨v, hv, rfl⟩ := List.mem_map.mp hp
    exact C02.variable_types_used c.s c.q op u hu v hv (hvars v hv)
  have hU : ∀ k i, TypeId.input k ∈ u.types → c.s.inputs[k]? = some i →
      (i.fields.map (·.1)).Nodup ∧ ∀ p ∈ i.fields, p.2.id ∈ u.types :=
    fun k i hk hi => ⟨env.fieldNames k i hk hi, fun p hp => (env.closed k i hk hi p hp).1⟩
  unfold coerceVars
  refine ⟨?_, ?_, ?_, ?_⟩
  · rw [keys_coerceKvs]; exact hvalid.nodup
  · rw [keys_coerceKvs]; exact hvalid.declared
  · intro p hp hl
    rw [lookup_coerceKvs c.s _ hnames p hp, Option.map_eq_none_iff] at hl
    exact hvalid.required p hp hl
  · intro p hp v hl
    rw [lookup_coerceKvs c.s _ hnames p hp, Option.map_eq_some_iff] at hl
    obtain ⟨v0, hl0, rfl⟩ := hl
    exact validC_coerce (· ∈ u.types) hU (hvalid.valid p hp v0 hl0) (hUv p hp)

/-- **`valid_mod_coercion_expressible`**: every assignment that is valid by the specification *with* list input
    coercion has its coerced spelling expressible: `coerceVars` of it is — in canonical form — the serialization of a
    value of the generated `Variables` type, and (IDs as strings) is read back as that value -/
theorem valid_mod_coercion_expressible (L : Leaves) (c : Ctx) (op : Nat) (items : List Item)
    (hnorm : c.o.normalization = .none)
    (hkwI : ∀ i ∈ c.s.inputs, keywordReplace i.name = i.name)
    (hkwS : ∀ n ∈ c.s.scalars, keywordReplace n = n)
    (hkwE : ∀ e ∈ c.s.enums, keywordReplace e.name = e.name)
    (hwf : C02.OutputOnly c.s c.q = true) (hrel : C02.InputFieldsRelevant c.s = true)
    (hvars : ∀ v ∈ c.q.opVariables op, C02.Relevant v.ty.id)
    (hdef : (Scope.defines items).Nodup) (hmem : ∀ it ∈ items, (C02.memberIdents it).Nodup)
    (hprim : ∀ it ∈ items, C01.notPrim it.name) (hfree : ExternsFree c items)
    (hint : ∀ n, L.intOk n = true → inI64 n = true)
    (h : responseForQuery c op = .ok items) (hne : c.q.opVariables op ≠ []) (kvs : List (String × Json))
    (hvalid : VarsValidC L c op kvs) :
    ∃ x, HasTy (moduleEnv c items) (.path "Variables") x ∧
      Serde.ser (moduleEnv c items) (.path "Variables") x = .ok (canonVars c op (coerceVars c op kvs)) ∧
      ((∀ n, L.idInt n = false) →
        Serde.de (moduleEnv c items) (.path "Variables") (.obj (coerceVars c op kvs)) = .ok x) :=
  variables_expressible L c op items hnorm hkwI hkwS hkwE hwf hrel hvars hdef hmem hprim hfree hint h hne _
    (varsValid_coerce L c op items hnorm hkwI hkwS hkwE hwf hrel hvars hdef hmem hprim hfree h hne kvs hvalid)

/-- … and for a context `c₁` with `normalization = rust` (hypotheses of `variables_expressible_rust`) -/
theorem valid_mod_coercion_expressible_rust (L : Leaves) {c₀ c₁ : Ctx} {op : Nat} {items₀ items₁ : List Item}
    (W : RustSideV c₀ c₁ op items₀ items₁)
    (hnorm : c₀.o.normalization = .none)
    (hkwI : ∀ i ∈ c₀.s.inputs, keywordReplace i.name = i.name)
    (hkwS : ∀ n ∈ c₀.s.scalars, keywordReplace n = n)
    (hkwE : ∀ e ∈ c₀.s.enums, keywordReplace e.name = e.name)
    (hwf : C02.OutputOnly c₀.s c₀.q = true) (hrel : C02.InputFieldsRelevant c₀.s = true)
    (hvars : ∀ v ∈ c₀.q.opVariables op, C02.Relevant v.ty.id)
    (hdef : (Scope.defines items₀).Nodup) (hmem : ∀ it ∈ items₀, (C02.memberIdents it).Nodup)
    (hprim : ∀ it ∈ items₀, C01.notPrim it.name) (hfree : ExternsFree c₀ items₀)
    (hint : ∀ n, L.intOk n = true → inI64 n = true)
    (hne : c₀.q.opVariables op ≠ []) (kvs : List (String × Json))
    (hvalid : VarsValidC L c₀ op kvs) :
    ∃ x, HasTy (moduleEnvN c₁ items₁) (.path "Variables") x ∧
      Serde.ser (moduleEnvN c₁ items₁) (.path "Variables") x = .ok (canonVars c₀ op (coerceVars c₀ op kvs)) ∧
      ((∀ n, L.idInt n = false) →
        Serde.de (moduleEnvN c₁ items₁) (.path "Variables") (.obj (coerceVars c₀ op kvs)) = .ok x) :=
  variables_expressible_rust W L hnorm hkwI hkwS hkwE hwf hrel hvars hdef hmem hprim hfree hint hne _
    (varsValid_coerce L c₀ op items₀ hnorm hkwI hkwS hkwE hwf hrel hvars hdef hmem hprim hfree W.gen₀ hne kvs hvalid)

/-! ## 5. serialization always writes a list -/

/-- **`ser_list_is_list`**: `Serialize` at `Vec<T>` writes a JSON array, whatever the element type and the value -/
theorem ser_list_is_list (path : String → Val → D Json) (t : RTy) (x : Val) (j : Json)
    (h : serTyWith path (.vec t) x = .ok j) : ∃ xs, j = .arr xs := by
  cases x <;> simp only [serTyWith] at h <;> try (cases h)
  rw [C01.map_ok] at h
  obtain ⟨xs, _, rfl⟩ := h
  exact ⟨xs, rfl⟩

/-- at the Rust type of a GraphQL list type (`[T]`: `Option<Vec<..>>`, `[T]!`: `Vec<..>`): `null` or an array -/
theorem ser_listTy_null_or_list (path : String → Val → D Json) (b : RTy) (t : GTy) (x : Val) (j : Json) :
    (serTyWith path (rustOf b (.list t)) x = .ok j → j = .null ∨ ∃ xs, j = .arr xs) ∧
    (serTyWith path (rustOf b (.nonNull (.list t))) x = .ok j → ∃ xs, j = .arr xs) := by
  constructor
  · intro h
    simp only [rustOf, rustOfNN] at h
    cases x <;> simp only [serTyWith] at h <;> try (cases h)
    · exact .inl rfl
    · exact .inr (ser_list_is_list path _ _ _ h)
  · intro h
    simp only [rustOf, rustOfNN] at h
    exact ser_list_is_list path _ _ _ h

/-- the type expression is a list type (under `!`) -/
def isListTy : GTy → Bool
  | .list _ => true
  | .nonNull t => isListTy t
  | .named _ => false

/-- without coercion, a value valid at a list type is `null` or a JSON array -/
theorem valid_list_shape {L : Leaves} {s : Schema} {id : TypeId} {b : Bool} {t : GTy} {j : Json}
    (h : Valid L s id b t j) : isListTy t = true → j = .null ∨ ∃ xs, j = .arr xs := by
  induction h with
  | null _ => intro _; exact .inl rfl
  | some _ _ ih => exact ih
  | bang _ ih => exact ih
  | list _ _ => intro _; exact .inr ⟨_, rfl⟩
  | scalar _ _ => intro h; cases h
  | «enum» _ _ => intro h; cases h
  | object _ _ _ _ _ _ _ => intro h; cases h
  | oneOf _ _ _ _ _ => intro h; cases h

/-- **`bare_value_not_expressible`**: in the module emitted for an operation, an assignment that carries a bare
    (non-list, non-null) value for a variable of list type is not the serialization of any `Variables` value -/
theorem bare_value_not_expressible (c : Ctx) (op : Nat) (items : List Item)
    (hnorm : c.o.normalization = .none)
    (hkwI : ∀ i ∈ c.s.inputs, keywordReplace i.name = i.name)
    (hkwS : ∀ n ∈ c.s.scalars, keywordReplace n = n)
    (hkwE : ∀ e ∈ c.s.enums, keywordReplace e.name = e.name)
    (hwf : C02.OutputOnly c.s c.q = true) (hrel : C02.InputFieldsRelevant c.s = true)
    (hvars : ∀ v ∈ c.q.opVariables op, C02.Relevant v.ty.id)
    (hdef : (Scope.defines items).Nodup) (hmem : ∀ it ∈ items, (C02.memberIdents it).Nodup)
    (hprim : ∀ it ∈ items, C01.notPrim it.name) (hfree : ExternsFree c items)
    (h : responseForQuery c op = .ok items) (hne : c.q.opVariables op ≠ [])
    (kvs : List (String × Json)) (p : String × FieldType) (hp : p ∈ varFields c op) (hlist : isListTy (gty p.2) = true)
    (v : Json) (hl : Json.lookup p.1 kvs = some v) (hnn : v ≠ .null) (hna : ∀ xs, v ≠ .arr xs) :
    ¬ ∃ x, HasTy (moduleEnv c items) (.path "Variables") x ∧
      Serde.ser (moduleEnv c items) (.path "Variables") x = .ok (.obj kvs) := by
  rintro ⟨x, hx, hs⟩
  obtain ⟨kvs', hj, hv⟩ := variables_ser_valid_wire c op items hnorm hkwI hkwS hkwE hwf hrel hvars hdef hmem hprim hfree
    h hne x hx _ hs
  cases hj
  rcases valid_list_shape (hv.valid p hp v hl) hlist with h0 | ⟨xs, h0⟩
  · exact hnn h0
  · exact hna xs h0

/-- … and in the module of a context with `normalization = rust` (hypotheses of `variables_ser_valid_rust`) -/
theorem bare_value_not_expressible_rust {c₀ c₁ : Ctx} {op : Nat} {items₀ items₁ : List Item}
    (W : RustSideV c₀ c₁ op items₀ items₁)
    (hnorm : c₀.o.normalization = .none)
    (hkwI : ∀ i ∈ c₀.s.inputs, keywordReplace i.name = i.name)
    (hkwS : ∀ n ∈ c₀.s.scalars, keywordReplace n = n)
    (hkwE : ∀ e ∈ c₀.s.enums, keywordReplace e.name = e.name)
    (hwf : C02.OutputOnly c₀.s c₀.q = true) (hrel : C02.InputFieldsRelevant c₀.s = true)
    (hvars : ∀ v ∈ c₀.q.opVariables op, C02.Relevant v.ty.id)
    (hdef : (Scope.defines items₀).Nodup) (hmem : ∀ it ∈ items₀, (C02.memberIdents it).Nodup)
    (hprim : ∀ it ∈ items₀, C01.notPrim it.name) (hfree : ExternsFree c₀ items₀)
    (hne : c₀.q.opVariables op ≠ [])
    (kvs : List (String × Json)) (p : String × FieldType) (hp : p ∈ varFields c₀ op) (hlist : isListTy (gty p.2) = true)
    (v : Json) (hl : Json.lookup p.1 kvs = some v) (hnn : v ≠ .null) (hna : ∀ xs, v ≠ .arr xs) :
    ¬ ∃ x, HasTy (moduleEnvN c₁ items₁) (.path "Variables") x ∧
      Serde.ser (moduleEnvN c₁ items₁) (.path "Variables") x = .ok (.obj kvs) := by
  rintro ⟨x, hx, hs⟩
  obtain ⟨kvs', hj, hv⟩ := variables_ser_valid_rust W Leaves.wire hnorm hkwI hkwS hkwE hwf hrel hvars hdef hmem hprim
    hfree (fun _ h => h) rfl hne x hx _ hs
  cases hj
  rcases valid_list_shape (hv.valid p hp v hl) hlist with h0 | ⟨xs, h0⟩
  · exact hnn h0
  · exact hna xs h0

end C04R
end GqlVerif
