import GqlVerif.Proofs.C01VariantSpreadT
import GqlVerif.Proofs.C01VariantSpreadC
/-!
# C01 / C03 end to end: fragment spreads at abstract positions (`VariantSpreadOp`), top level

Task P13: in a selection set on an interface / union typed field, besides `__typename`, interface-level fields and inline
fragments on possible types,
 (a) **spreads of named fragments on a possible (object) type** — a variant selection like an inline fragment;
 (b) **spreads of named fragments on the abstract type itself** — a flattened member of the interface-level struct.
Files: `C01VariantSpreadA` (class, closed form, `variantspread_items_shape`), `C01VariantSpreadB` (exact acceptance
`conformsLooseS`, `conformsS_loose`), `C01VariantSpreadT` (module environment, `variantspread_accepts`,
`variantspread_precise_iff`), `C01VariantSpreadC` (`canonSelS`, losslessness of the emitted types), this file.

* `variantspread_items_shape`, `variantspread_accepts`, `variantspread_precise_iff`: for the whole class, (a) **and** (b);
* `variantspread_lossless_partial` / `variantspread_roundtrip_partial`: for operations of the class **without spreads of
  fragments on the abstract type itself** (`noBSpreads`, decidable; i.e. part (a)): for a conforming response `j`
  (specification `conformsV` on the selection set with every spread expanded to the inline fragment
  `... on T { body }`), `Serde.roundtrip (moduleEnv c items) ResponseData j = .ok (canonSelS … j)`: at an abstract
  position the interface-level entries, `__typename`, then the entries of the selections on the runtime type **in
  selection order** (the inline fragment's and the spread fragments').
  Full statement (not proved): the same without `noBSpreads`, with `.ok (normJson (canon… j))` for a canonical form that
  also lists, at the position of each spread of a fragment on the abstract type itself, that fragment's entries
  (`__typename` and the runtime type's entries then occur several times in the serializer's output and are written once
  by `serde_json::to_value`; evaluated on the model in `variantspread_b_roundtrip`).  Missing: the writing side of a
  struct with borrowing flattened members (the reading side is `deStructMap_borrow` of part B) and the round trip of the
  fragment's own type(s) on an object that also carries its siblings' keys;
  (Proved since: `variantspread_lossless` / `variantspread_roundtrip` of `C01VariantSpreadE`, for the whole class;
  `variantspread_content` of `C01VariantSpreadH`: the closed form has the content of the response.)
* later extensions of the class: several inline fragments on one possible type; a selection set that is a lone spread of a
  fragment on the abstract type itself (`loneB`); `VariantSpreadOp2` (`C01VariantSpreadF` / `G`): inline fragments
  `... on T { ...F }` next to other selections;
* `variantSpreadOp_of_variantOp`: the classes are nested (`VariantOp ⊆ VariantSpreadOp`);
* the key-disjointness conditions of `absOkS` are necessary: `variantspread_overlap_interface_loses_key`,
  `variantspread_overlap_variant_loses_key`, `variantspread_b_overlap_loses_key`: in each case the emitted types **reject a
  conforming response** (same mechanism as the known finding `C01-overlap`);
* concrete modules on which every hypothesis is evaluated.
-/
set_option linter.unusedSimpArgs false
set_option linter.unusedVariables false
set_option linter.unusedSectionVars false

namespace GqlVerif
namespace C01
namespace E2E
open Serde Spec C13 C03 Codegen

/-- **losslessness at the top level** (generic environment) -/
theorem top_losslessS (e : Env) (c : Ctx) (op : ROperation) (ht : VariantSpreadOp c op = true) (he : TopEnvS e c op)
    (hro : rustOkSelsS c op.sels = true) (hrn : EnumSpec.nodup (rustNames c op.sels) = true)
    (hnb : noBSels c.s c.q op.sels = true)
    (rt : Nat) (j : Json) (v : Val) (hc : conformsV c.s rt (expandSels c.q op.sels) j = true)
    (hd : Serde.de e (.path "ResponseData") j = .ok v) :
    Serde.ser e (.path "ResponseData") v = .ok (canonSelS c.s c.q c.o.skipNone op.sels j) := by
  obtain ⟨_, _, hsels, hkeys⟩ := variantSpreadOp_parts ht
  rw [de_top] at hd
  have h1 := he.size
  have hser := structS_lossless e c _ "ResponseData" op.sels hsels he.sub hro hnb hrn hkeys he.root false _
    ((valSize v + 2) * (e.items.length + e.externs.length + 2))
    (deFuel_depthS e c op he.size j)
    (by
      have h2 : 2 * (e.items.length + e.externs.length + 2) ≤
          (valSize v + 2) * (e.items.length + e.externs.length + 2) := Nat.mul_le_mul_right _ (by omega)
      omega)
    rt j v hc hd
  unfold Serde.ser serTy
  rw [show serTyWith (serPath e ((valSize v + 2) * (e.items.length + e.externs.length + 2))) (.path "ResponseData") v =
    serPath e ((valSize v + 2) * (e.items.length + e.externs.length + 2)) "ResponseData" v from rfl, hser]
  rw [show (normJson <$> (Except.ok (canonSelS c.s c.q c.o.skipNone op.sels j) : D Json)) =
    .ok (normJson (canonSelS c.s c.q c.o.skipNone op.sels j)) from rfl,
    norm_canonSelS c.s c.q c.o c.o.skipNone rt op.sels j hsels hnb hkeys hc]

/-- Rust field names pairwise distinct in every emitted struct (decidable) -/
def spreadRustOk (c : Ctx) (op : ROperation) : Bool :=
  rustOkSelsS c op.sels && EnumSpec.nodup (rustNames c op.sels)

/-- at no abstract position of the operation is a fragment on the abstract type itself spread (decidable): part (a) -/
def noBSpreads (c : Ctx) (op : ROperation) : Bool := noBSels c.s c.q op.sels

/-- **`variantspread_lossless`, for part (a)** (`noBSpreads`).  A conforming response that was read is written back as
    `canonSelS … j`.
    Full statement, not proved: without `noBSpreads`, with `normJson` of a canonical form that repeats the entries of the
    fragments on the abstract type itself (see the header). -/
theorem variantspread_lossless_partial (c : Ctx) (opIdx : Nat) (op : ROperation) (items : List Item)
    (hop : c.q.operations[opIdx]? = some op) (ht : VariantSpreadOp c op = true) (hnb : noBSpreads c op = true)
    (hgen : responseForQuery c opIdx = .ok items) (hok : moduleOk c items = true)
    (hr : spreadRustOk c op = true)
    (j : Json) (hc : conformsOpS c op j = true) (v : Val)
    (hd : Serde.de (moduleEnv c items) (.path "ResponseData") j = .ok v) :
    Serde.ser (moduleEnv c items) (.path "ResponseData") v = .ok (canonSelS c.s c.q c.o.skipNone op.sels j) := by
  simp only [spreadRustOk, Bool.and_eq_true] at hr
  exact top_losslessS (moduleEnv c items) c op ht (topEnvS_of_module hop ht hgen hok) hr.1 hr.2 hnb _ j v hc hd

/-- both in one statement: `roundtrip j = canonSelS j` -/
theorem variantspread_roundtrip_partial (c : Ctx) (opIdx : Nat) (op : ROperation) (items : List Item)
    (hop : c.q.operations[opIdx]? = some op) (ht : VariantSpreadOp c op = true) (hnb : noBSpreads c op = true)
    (hgen : responseForQuery c opIdx = .ok items) (hok : moduleOk c items = true)
    (hr : spreadRustOk c op = true) (j : Json) (hc : conformsOpS c op j = true) :
    Serde.roundtrip (moduleEnv c items) (.path "ResponseData") j = .ok (canonSelS c.s c.q c.o.skipNone op.sels j) := by
  obtain ⟨v, hv⟩ := variantspread_accepts c opIdx op items hop ht hgen hok j hc
  unfold Serde.roundtrip
  rw [hv]
  exact variantspread_lossless_partial c opIdx op items hop ht hnb hgen hok hr j hc v hv

/-- the response items are the tail of the emitted module -/
theorem variantspread_module_shape (c : Ctx) (opIdx : Nat) (op : ROperation) (items : List Item)
    (hop : c.q.operations[opIdx]? = some op) (ht : VariantSpreadOp c op = true)
    (hgen : responseForQuery c opIdx = .ok items) :
    ∃ pre, items = Codegen.builtinAliases ++ pre ++ structItemsS c "ResponseData" (c.cs.camel op.name) op.sels := by
  obtain ⟨u, S, E, I, V, F, o, resp, _, _, _, ho, hresp, hitems⟩ := responseForQuery_parts hgen
  rw [hop] at ho; cases ho
  rw [variantspread_items_shape c op (List.mem_of_getElem? hop) ht] at hresp
  cases hresp
  exact ⟨S ++ E ++ I ++ V ++ F, by rw [hitems]; simp⟩


/-! ## the classes are nested: `VariantOp ⊆ VariantSpreadOp` -/

theorem varKeys_noSpread (s : Schema) (q : Query) (vt : TypeId) : ∀ (sub : List Sel), (∀ g, Sel.spread g ∉ sub) →
    (sub.filterMap inlineTy).Nodup →
    (vt ∉ sub.filterMap inlineTy → varKeys s q vt sub = []) ∧
    (∀ isub, Sel.inline vt isub ∈ sub → varKeys s q vt sub = fieldKeys s isub)
  | [], _, _ => by simp [varKeys]
  | x :: xs, hns, hnd => by
    have hns' : ∀ g, Sel.spread g ∉ xs := fun g hg => hns g (List.mem_cons_of_mem _ hg)
    cases x with
    | inline t isub' =>
      simp only [List.filterMap_cons, inlineTy, List.nodup_cons] at hnd
      obtain ⟨ih1, ih2⟩ := varKeys_noSpread s q vt xs hns' hnd.2
      rw [varKeys]
      by_cases htv : t = vt
      · subst htv
        refine ⟨fun hn => absurd (by simp [List.filterMap_cons, inlineTy]) hn, ?_⟩
        intro isub hm
        simp only [List.mem_cons, Sel.inline.injEq, true_and] at hm
        rcases hm with rfl | hm
        · simp [ih1 hnd.1]
        · exact absurd (List.mem_filterMap.mpr ⟨Sel.inline t isub, hm, rfl⟩ : t ∈ xs.filterMap inlineTy) hnd.1
      · have hne : (t == vt) = false := by simpa using htv
        simp only [hne, Bool.false_eq_true, ↓reduceIte, List.nil_append]
        refine ⟨fun hn => ih1 (fun hm => hn (by simp [List.filterMap_cons, inlineTy, hm])), ?_⟩
        intro isub hm
        simp only [List.mem_cons, Sel.inline.injEq] at hm
        rcases hm with ⟨h1, _⟩ | hm
        · exact absurd h1.symm htv
        · exact ih2 isub hm
    | spread g => exact absurd (List.mem_cons_self) (hns g)
    | field a fid sub' =>
      have e1 : (Sel.field a fid sub' :: xs).filterMap inlineTy = xs.filterMap inlineTy := by simp [List.filterMap_cons, inlineTy]
      have e2 : varKeys s q vt (Sel.field a fid sub' :: xs) = varKeys s q vt xs := by simp [varKeys]
      rw [e1] at hnd ⊢
      rw [e2]
      obtain ⟨ih1, ih2⟩ := varKeys_noSpread s q vt xs hns' hnd
      exact ⟨ih1, fun isub hm => ih2 isub (by simpa using hm)⟩
    | typename =>
      have e1 : (Sel.typename :: xs).filterMap inlineTy = xs.filterMap inlineTy := by simp [List.filterMap_cons, inlineTy]
      have e2 : varKeys s q vt (Sel.typename :: xs) = varKeys s q vt xs := by simp [varKeys]
      rw [e1] at hnd ⊢
      rw [e2]
      obtain ⟨ih1, ih2⟩ := varKeys_noSpread s q vt xs hns' hnd
      exact ⟨ih1, fun isub hm => ih2 isub (by simpa using hm)⟩

theorem bKeys_noSpread (s : Schema) (q : Query) (ty vt : TypeId) : ∀ (sub : List Sel), (∀ g, Sel.spread g ∉ sub) →
    bKeys s q ty vt sub = []
  | [], _ => rfl
  | x :: xs, h => by
    have ih := bKeys_noSpread s q ty vt xs (fun g hg => h g (List.mem_cons_of_mem _ hg))
    cases x with
    | spread g => exact absurd (List.mem_cons_self) (h g)
    | field a fid sub => simpa [bKeys] using ih
    | inline t sub => simpa [bKeys] using ih
    | typename => simpa [bKeys] using ih

theorem absOkS_of_absOk (s : Schema) (q : Query) (o : Options) (ty : TypeId) (sub : List Sel)
    (hv : vSels s o true sub = true) (hok : absOk s o ty sub = true) : absOkS s q o ty sub = true := by
  obtain ⟨_, _, _, _, _, _, hnd, _⟩ := absOk_parts hok
  have hns := no_spread_of_vSels hv
  have hvk : ∀ vt, (varKeys s q vt sub).Nodup := by
    intro vt
    obtain ⟨h1, h2⟩ := varKeys_noSpread s q vt sub hns hnd
    by_cases hm : vt ∈ sub.filterMap inlineTy
    · obtain ⟨y, hy, hyt⟩ := List.mem_filterMap.mp hm
      cases y with
      | inline t' isub =>
        simp only [inlineTy, Option.some.injEq] at hyt
        subst hyt
        rw [h2 isub hy]
        have := vSels_mem hv _ hy
        simp only [vSel, Bool.and_eq_true] at this
        exact (fieldKeys_sublist s isub).nodup (nodup_iff'.mp this.2)
      | field a fid sub' => cases hyt
      | spread g => cases hyt
      | typename => cases hyt
    · rw [h1 hm]; exact List.nodup_nil
  simp only [absOkS, absOk2_of_absOk hok, Bool.true_and, Bool.and_eq_true, List.all_eq_true]
  refine ⟨⟨?_, ?_⟩, ?_⟩
  rotate_left 2
  · intro vt _
    rw [bKeys_noSpread s q ty vt sub hns, List.nil_append]
    exact nodup_iff'.mpr (hvk vt)
  · intro x hx
    cases x with
    | spread g => exact absurd hx (hns g)
    | _ => rfl
  · intro vt _
    apply nodup_iff'.mpr
    obtain ⟨h1, h2⟩ := varKeys_noSpread s q vt sub hns hnd
    by_cases hm : vt ∈ sub.filterMap inlineTy
    · obtain ⟨y, hy, hyt⟩ := List.mem_filterMap.mp hm
      cases y with
      | inline t' isub =>
        simp only [inlineTy, Option.some.injEq] at hyt
        subst hyt
        rw [h2 isub hy]
        have := vSels_mem hv _ hy
        simp only [vSel, Bool.and_eq_true] at this
        exact (fieldKeys_sublist s isub).nodup (nodup_iff'.mp this.2)
      | field a fid sub' => cases hyt
      | spread g => cases hyt
      | typename => cases hyt
    · rw [h1 hm]; exact List.nodup_nil

mutual
  theorem sSel_of_vSel (s : Schema) (q : Query) (o : Options) : ∀ (x : Sel) (abs : Bool), vSel s o abs x = true →
      sSel s q o abs x = true
    | .field a fid sub, abs => by
      intro h
      have IH := sSels_of_vSels s q o sub
      rw [vSel] at h
      rw [sSel]
      cases hsf : s.fields[fid]? with
      | none => simp [hsf] at h
      | some sf =>
        simp only [hsf, Bool.and_eq_true] at h ⊢
        refine ⟨h.1, ?_⟩
        cases hid : sf.ty.id with
        | object i =>
          simp only [hid, Bool.and_eq_true] at h ⊢
          exact ⟨⟨h.2.1.1, IH false h.2.1.2⟩, h.2.2⟩
        | scalar k => simpa [hid] using h.2
        | «enum» k => simpa [hid] using h.2
        | interface k =>
          simp only [hid, Bool.and_eq_true] at h ⊢
          exact ⟨⟨h.2.1.1, IH true h.2.1.2⟩, absOkL_of_absOkS (absOkS_of_absOk s q o _ sub h.2.1.2 h.2.2)⟩
        | union k =>
          simp only [hid, Bool.and_eq_true] at h ⊢
          exact ⟨⟨h.2.1.1, IH true h.2.1.2⟩, absOkL_of_absOkS (absOkS_of_absOk s q o _ sub h.2.1.2 h.2.2)⟩
        | input k => simp [hid] at h
    | .spread _, _ => by intro h; simp [vSel] at h
    | .inline t isub, abs => by
      intro h
      simp only [vSel, Bool.and_eq_true] at h
      simp only [sSel, Bool.and_eq_true]
      exact ⟨⟨h.1.1, sSels_of_vSels s q o isub false h.1.2⟩, h.2⟩
    | .typename, _ => by intro _; simp [sSel]
  theorem sSels_of_vSels (s : Schema) (q : Query) (o : Options) : ∀ (sels : List Sel) (abs : Bool),
      vSels s o abs sels = true → sSels s q o abs sels = true
    | [], _ => by intro _; simp [sSels]
    | x :: xs, abs => by
      intro h
      obtain ⟨hx, hxs⟩ := vSels_cons h
      rw [sSels, sSel_of_vSel s q o x abs hx, sSels_of_vSels s q o xs abs hxs]; rfl
end

/-- `VariantOp ⊆ VariantSpreadOp` -/
theorem variantSpreadOp_of_variantOp (c : Ctx) (op : ROperation) (h : VariantOp c op = true) :
    VariantSpreadOp c op = true := by
  obtain ⟨h1, h2, h3, h4⟩ := variantOp_parts h
  simp only [VariantSpreadOp, Bool.and_eq_true, beq_iff_eq]
  exact ⟨⟨⟨h1, h2⟩, sSels_of_vSels c.s c.q c.o op.sels false h3⟩, h4⟩


/-! ## a concrete module

Schema `vxSchema` of `C01Abstract` (`interface Character { name }`, `Human implements Character { name height buddy }`,
`Droid implements Character { name primaryFunction }`, `union SearchResult = Human | Droid`);
`fragment HG on Human { height }`, `fragment HB on Human { buddy { __typename } }`,
`fragment DF on Droid { primaryFunction __typename }`, `fragment HF on Human { name }`;
`query Q { hero { __typename name ... on Human { h2: height } ...HG ...HB ...DF } }` -/

def wsQuery (sels : List Sel) : Query :=
  { operations := [{ name := "Q", kind := .query, objectId := 0, sels := [.field none 0 sels] }]
    fragments := [{ name := "HG", on := .object 1, sels := [.field none 2 []] },
                  { name := "HB", on := .object 1, sels := [.field none 5 [.typename]] },
                  { name := "DF", on := .object 2, sels := [.field none 3 [], .typename] },
                  { name := "HF", on := .object 1, sels := [.field none 1 []] }] }

def wsCtx (sels : List Sel) : Ctx := { s := vxSchema, q := wsQuery sels, o := {}, cs := ⟨id, id⟩ }

def wsOp (sels : List Sel) : ROperation :=
  { name := "Q", kind := .query, objectId := 0, sels := [.field none 0 sels] }

def wsSels : List Sel :=
  [.typename, .field none 1 [], .inline (.object 1) [.field (some "h2") 2 []], .spread 0, .spread 1, .spread 2]

def okOr {α} (x : Outcome (List α)) : List α :=
  match x with
  | .ok v => v
  | .error _ => []

def isOkO {α} (x : Outcome α) : Bool :=
  match x with
  | .ok _ => true
  | .error _ => false

theorem gen_of_isOk {c : Ctx} {i : Nat} (h : isOkO (responseForQuery c i) = true) :
    responseForQuery c i = .ok (okOr (responseForQuery c i)) := by
  cases hr : responseForQuery c i with
  | ok v => rfl
  | error e => rw [hr] at h; cases h

def wsItems : List Item := okOr (responseForQuery (wsCtx wsSels) 0)

theorem ws_gen : responseForQuery (wsCtx wsSels) 0 = .ok wsItems := gen_of_isOk (by decide +kernel)
theorem ws_class : VariantSpreadOp (wsCtx wsSels) (wsOp wsSels) = true := by decide +kernel
theorem ws_ok : moduleOk (wsCtx wsSels) wsItems = true := by decide +kernel
theorem ws_rust : spreadRustOk (wsCtx wsSels) (wsOp wsSels) = true := by decide +kernel
theorem ws_nob : noBSpreads (wsCtx wsSels) (wsOp wsSels) = true := by decide +kernel

/-- the variant of `Human` is a struct with the inline fragment's field and two flattened members, that of `Droid` the
    alias of the fragment struct `DF` -/
theorem ws_items_shape :
    ((moduleEnv (wsCtx wsSels) wsItems).find "QheroOnHuman" ==
      some (.struct "QheroOnHuman" ["Deserialize"] (some "::serde")
        [{ rust := "h2", ty := .opt (.path "Float") },
         { rust := "HG", ty := .path "HG", flatten := true },
         { rust := "HB", ty := .path "HB", flatten := true }])) &&
    ((moduleEnv (wsCtx wsSels) wsItems).find "QheroOnDroid" == some (.alias "QheroOnDroid" true (.path "DF"))) = true := by
  decide +kernel

def wsJsonH : Json :=
  .obj [("hero", .obj [("__typename", .str "Human"), ("name", .str "x"), ("height", .num "1.8"), ("h2", .num "1.8"),
                       ("buddy", .obj [("__typename", .str "Droid")])])]

def wsJsonD : Json :=
  .obj [("hero", .obj [("primaryFunction", .null), ("name", .str "r2"), ("__typename", .str "Droid")])]

macro "confS_eval" : tactic => `(tactic|
  simp [conformsOpS, wsCtx, wsOp, wsQuery, expandSels, expandSel, conformsV, confSelsV, confSelV, keysSelsV, keysSelV,
    fragApplies, rtName, vxSchema, Json.lookup, accepts, acceptsNN, gtyOf, scalarOk, floatOk, stringOk,
    Json.isNull, EnumSpec.nodup, List.range, List.range.loop, conformsAt])

macro "looseS_eval" : tactic => `(tactic|
  simp [conformsLooseS, looseSelsS, looseArrS, looseFieldS, loneG, loosePayS, looseMemS, looseMemB, absRest, hasStruct,
    isBSpread, conformsLooseAbs, loosePayV, looseSelsV, looseFieldV, tagOkV, wsOp, wsQuery, wsSels, vxSchema, vtsOfTy, Schema.implementors, objName, rtName, isFieldSel, fieldKeys, fieldKey,
    Json.lookup, accepts, acceptsNN, gtyOf, scalarOk, floatOk, stringOk, Json.isNull, nullableQ, countKey,
    List.zipIdx])

set_option maxRecDepth 8000 in
theorem ws_conformsH : conformsOpS (wsCtx wsSels) (wsOp wsSels) wsJsonH = true := by
  simp only [wsSels, wsJsonH]; confS_eval
set_option maxRecDepth 8000 in
theorem ws_conformsD : conformsOpS (wsCtx wsSels) (wsOp wsSels) wsJsonD = true := by
  simp only [wsSels, wsJsonD]; confS_eval

/-- `variantspread_roundtrip` on the concrete module: the variant struct writes the inline fragment's field and the
    fragments' fields in selection order -/
theorem ws_roundtripH :
    Serde.roundtrip (moduleEnv (wsCtx wsSels) wsItems) (.path "ResponseData") wsJsonH =
      .ok (canonSelS vxSchema (wsQuery wsSels) false (wsOp wsSels).sels wsJsonH) :=
  variantspread_roundtrip_partial (wsCtx wsSels) 0 (wsOp wsSels) wsItems rfl ws_class ws_nob ws_gen ws_ok ws_rust wsJsonH
    ws_conformsH

set_option maxRecDepth 8000 in
theorem ws_canonH :
    canonSelS vxSchema (wsQuery wsSels) false (wsOp wsSels).sels wsJsonH =
      .obj [("hero", .obj [("name", .str "x"), ("__typename", .str "Human"), ("h2", .num "1.8"), ("height", .num "1.8"),
                           ("buddy", .obj [("__typename", .str "Droid")])])] := by
  simp [canonSelS, canonEntriesS, canonFieldS, canonVarS, canonEntriesV, canonFieldV, canonInlV, tagName, wsOp, wsQuery,
    wsSels, wsJsonH, vxSchema, objName, rtName, Json.lookup, canon, canonNN, gtyOf, Json.isNull, skipQ]

theorem ws_roundtripD :
    Serde.roundtrip (moduleEnv (wsCtx wsSels) wsItems) (.path "ResponseData") wsJsonD =
      .ok (canonSelS vxSchema (wsQuery wsSels) false (wsOp wsSels).sels wsJsonD) :=
  variantspread_roundtrip_partial (wsCtx wsSels) 0 (wsOp wsSels) wsItems rfl ws_class ws_nob ws_gen ws_ok ws_rust wsJsonD
    ws_conformsD

theorem ws_precise (j : Json) :
    okB (Serde.de (moduleEnv (wsCtx wsSels) wsItems) (.path "ResponseData") j) =
      conformsLooseS vxSchema (wsQuery wsSels) {} false (wsOp wsSels).sels j :=
  variantspread_precise_iff (wsCtx wsSels) 0 (wsOp wsSels) wsItems rfl ws_class ws_gen ws_ok j

/-- rejected: a wrong scalar kind under a key selected through a spread fragment (`height` of `HG`) -/
example : okB (Serde.de (moduleEnv (wsCtx wsSels) wsItems) (.path "ResponseData")
    (.obj [("hero", .obj [("__typename", .str "Human"), ("name", .str "x"), ("height", .str "tall")])])) = false := by
  rw [ws_precise]; looseS_eval
/-- rejected: the non-null `name` of the interface level is missing -/
example : okB (Serde.de (moduleEnv (wsCtx wsSels) wsItems) (.path "ResponseData")
    (.obj [("hero", .obj [("__typename", .str "Droid")])])) = false := by
  rw [ws_precise]; looseS_eval
/-- accepted: nullable keys of the variant absent -/
example : okB (Serde.de (moduleEnv (wsCtx wsSels) wsItems) (.path "ResponseData")
    (.obj [("hero", .obj [("__typename", .str "Human"), ("name", .str "x")])])) = true := by
  rw [ws_precise]; looseS_eval

/-! ## the key-disjointness conditions of `absOkS` are necessary -/

/-- `hero { __typename name ...HF }`, `HF on Human { name }`: `name` is selected at the interface level and through a
    fragment on a possible type -/
def wsOverlapI : List Sel := [.typename, .field none 1 [], .spread 3]

/-- `hero { __typename ... on Human { name } ...HF }`: `name` is selected twice on the variant `Human` -/
def wsOverlapV : List Sel := [.typename, .inline (.object 1) [.field none 1 []], .spread 3]

def wsJsonN : Json := .obj [("hero", .obj [("__typename", .str "Human"), ("name", .str "x")])]

/-- the class excludes both -/
example : VariantSpreadOp (wsCtx wsOverlapI) (wsOp wsOverlapI) = false := by decide +kernel
example : VariantSpreadOp (wsCtx wsOverlapV) (wsOp wsOverlapV) = false := by decide +kernel

/-- **`variantspread_accepts` is false without the exclusion of interface-level keys**: the module is generated, the
    response conforms to the specification, and the emitted `ResponseData` rejects it (the struct of the abstract
    position consumed `name` before the flattened `on` saw the buffer; known finding `C01-overlap`) -/
theorem variantspread_overlap_interface_loses_key :
    isOkO (responseForQuery (wsCtx wsOverlapI) 0) = true ∧
    conformsOpS (wsCtx wsOverlapI) (wsOp wsOverlapI) wsJsonN = true ∧
    okB (Serde.de (moduleEnv (wsCtx wsOverlapI) (okOr (responseForQuery (wsCtx wsOverlapI) 0))) (.path "ResponseData")
      wsJsonN) = false := by
  refine ⟨by decide +kernel, by simp only [wsOverlapI, wsJsonN]; confS_eval, by decide +kernel⟩

/-- **… and without the disjointness of the keys selected on one variant**: the own field `name` of the variant struct
    consumed the key before the flattened member `HF` saw the buffer -/
theorem variantspread_overlap_variant_loses_key :
    isOkO (responseForQuery (wsCtx wsOverlapV) 0) = true ∧
    conformsOpS (wsCtx wsOverlapV) (wsOp wsOverlapV) wsJsonN = true ∧
    okB (Serde.de (moduleEnv (wsCtx wsOverlapV) (okOr (responseForQuery (wsCtx wsOverlapV) 0))) (.path "ResponseData")
      wsJsonN) = false := by
  refine ⟨by decide +kernel, by simp only [wsOverlapV, wsJsonN]; confS_eval, by decide +kernel⟩


/-! ## part (b): spreads of fragments on the abstract type itself, on a concrete module

`fragment CF on Character { name __typename }`, `fragment CI on Character { __typename ... on Human { height } }`,
`fragment CT on Character { __typename }`, `fragment HB on Human { buddy { __typename } }`;
`query Q { hero { __typename ...CF ...CI ... on Human { h2: height } ...HB ...CT } }` -/

def bsQuery (sels : List Sel) : Query :=
  { operations := [{ name := "Q", kind := .query, objectId := 0, sels := [.field none 0 sels] }]
    fragments := [{ name := "CF", on := .interface 0, sels := [.field none 1 [], .typename] },
                  { name := "CI", on := .interface 0, sels := [.typename, .inline (.object 1) [.field none 2 []]] },
                  { name := "CT", on := .interface 0, sels := [.typename] },
                  { name := "HB", on := .object 1, sels := [.field none 5 [.typename]] }] }

def bsCtx (sels : List Sel) : Ctx := { s := vxSchema, q := bsQuery sels, o := {}, cs := ⟨id, id⟩ }

def bsSels : List Sel :=
  [.typename, .spread 0, .spread 1, .inline (.object 1) [.field (some "h2") 2 []], .spread 3, .spread 2]

def bsItems : List Item := okOr (responseForQuery (bsCtx bsSels) 0)

theorem bs_gen : responseForQuery (bsCtx bsSels) 0 = .ok bsItems := gen_of_isOk (by decide +kernel)
theorem bs_class : VariantSpreadOp (bsCtx bsSels) (wsOp bsSels) = true := by decide +kernel
theorem bs_ok : moduleOk (bsCtx bsSels) bsItems = true := by decide +kernel
/-- the operation does spread fragments on the abstract type itself -/
example : noBSpreads (bsCtx bsSels) (wsOp bsSels) = false := by decide +kernel

/-- the struct at the abstract position: one flattened member per fragment on `Character`, then the flattened `on` -/
theorem bs_items_shape :
    ((moduleEnv (bsCtx bsSels) bsItems).find "Qhero" ==
      some (.struct "Qhero" ["Deserialize"] (some "::serde")
        [{ rust := "CF", ty := .path "CF", flatten := true },
         { rust := "CI", ty := .path "CI", flatten := true },
         { rust := "CT", ty := .path "CT", flatten := true },
         { rust := "on", ty := .path "QheroOn", flatten := true }])) = true := by
  decide +kernel

def bsJsonH : Json :=
  .obj [("hero", .obj [("__typename", .str "Human"), ("name", .str "x"), ("height", .num "1.8"), ("h2", .num "1.8"),
                       ("buddy", .null)])]

set_option maxRecDepth 8000 in
theorem bs_conformsH : conformsOpS (bsCtx bsSels) (wsOp bsSels) bsJsonH = true := by
  simp only [bsSels, bsJsonH]
  simp [conformsOpS, bsCtx, wsOp, bsQuery, expandSels, expandSel, conformsV, confSelsV, confSelV, keysSelsV, keysSelV,
    fragApplies, rtName, vxSchema, Json.lookup, accepts, acceptsNN, gtyOf, scalarOk, floatOk, stringOk,
    Json.isNull, EnumSpec.nodup, List.range, List.range.loop, conformsAt]

/-- `variantspread_accepts` on the module with spreads of fragments on the interface itself -/
example : ∃ v, Serde.de (moduleEnv (bsCtx bsSels) bsItems) (.path "ResponseData") bsJsonH = .ok v :=
  variantspread_accepts (bsCtx bsSels) 0 (wsOp bsSels) bsItems rfl bs_class bs_gen bs_ok bsJsonH bs_conformsH

theorem bs_precise (j : Json) :
    okB (Serde.de (moduleEnv (bsCtx bsSels) bsItems) (.path "ResponseData") j) =
      conformsLooseS vxSchema (bsQuery bsSels) {} false (wsOp bsSels).sels j :=
  variantspread_precise_iff (bsCtx bsSels) 0 (wsOp bsSels) bsItems rfl bs_class bs_gen bs_ok j

/-- the model's round trip of the conforming response (losslessness for part (b) is not proved in general): the
    fragments' entries at the positions of their spreads, `__typename` written once -/
theorem variantspread_b_roundtrip :
    (match Serde.roundtrip (moduleEnv (bsCtx bsSels) bsItems) (.path "ResponseData") bsJsonH with
     | .ok (.obj [("hero", .obj [("name", .str "x"), ("__typename", .str "Human"), ("height", .num "1.8"),
                                 ("h2", .num "1.8"), ("buddy", .null)])]) => true
     | _ => false) = true := by decide +kernel

/-- `hero { __typename name ...CF }`: `name` is selected at the interface level and through a fragment on the interface
    itself; the class excludes it (`spreadOkB`) … -/
def bsOverlap : List Sel := [.typename, .field none 1 [], .spread 0]

example : VariantSpreadOp (bsCtx bsOverlap) (wsOp bsOverlap) = false := by decide +kernel

/-- … and necessarily so: the module is generated, the response conforms, and the emitted `ResponseData` rejects it (the
    own field consumed `name`; the flattened member `CF` only sees what the own fields left) -/
theorem variantspread_b_overlap_loses_key :
    isOkO (responseForQuery (bsCtx bsOverlap) 0) = true ∧
    conformsOpS (bsCtx bsOverlap) (wsOp bsOverlap) wsJsonN = true ∧
    okB (Serde.de (moduleEnv (bsCtx bsOverlap) (okOr (responseForQuery (bsCtx bsOverlap) 0))) (.path "ResponseData")
      wsJsonN) = false := by
  refine ⟨by decide +kernel, ?_, by decide +kernel⟩
  simp only [bsOverlap, wsJsonN]
  simp [conformsOpS, bsCtx, wsOp, bsQuery, expandSels, expandSel, conformsV, confSelsV, confSelV, keysSelsV, keysSelV,
    fragApplies, rtName, vxSchema, Json.lookup, accepts, acceptsNN, gtyOf, scalarOk, floatOk, stringOk,
    Json.isNull, EnumSpec.nodup, List.range, List.range.loop, conformsAt]

end E2E
end C01
end GqlVerif
