import GqlVerif.Proofs.C01VariantSpreadB
/-!
# C01 / C03 end to end: fragment spreads at abstract positions (`VariantSpreadOp`), part T: top level, acceptance

* `depthS_sels` — fuel: the depth of the selection tree *through spreads* is below the number of items of the module
  (the response items plus the items of the spread fragments);
* `envSelS_of` / `topEnvS_of_module` — the environment hypotheses of part B hold for the module `responseForQuery` emits
  (the items of every spread fragment are in the module: `FragsIn` / `FragsInB`, from `C02.selected_types_used` and
  `fragment_struct_shape` / `fragment_abs_shape`);
* **`variantspread_accepts`**: `conformsOpS c op j → ∃ v, Serde.de (moduleEnv c items) ResponseData j = .ok v`, where
  `conformsOpS` is the specification `conformsV` on the root selection set with every spread replaced by the inline
  fragment `... on T { body }` (`expandSels`, GraphQL §6.4.3);
* **`variantspread_precise_iff` / `variantspread_precise`** (C03): `Serde.de … j` succeeds **iff**
  `conformsLooseS c.s c.q c.o false op.sels j`.

Hypotheses (decidable): `VariantSpreadOp c op` (part A; it contains the key-disjointness conditions `absOkS`),
`moduleOk c items`.
-/
set_option linter.unusedSimpArgs false
set_option linter.unusedVariables false
set_option linter.unusedSectionVars false

namespace GqlVerif
namespace C01
namespace E2E
open Serde Spec C13 C03 Codegen

/-! ## fuel: depth (through spreads) vs. number of emitted items -/

/-- the items emitted below the selection `x` of a selection set with prefix `pfx` -/
def allItemsS (c : Ctx) (pfx : String) : Sel → List Item
  | .inline t isub => itemsSs c (pfx ++ "On" ++ c.cs.camel (objName c.s t)) isub
  | x => itemsS c pfx x

def inlBonus : Sel → Nat
  | .inline _ _ => 1
  | _ => 0

theorem mem_itemsSs {c : Ctx} {pfx : String} {it : Item} : ∀ {sels : List Sel} {x : Sel}, x ∈ sels →
    it ∈ itemsS c pfx x → it ∈ itemsSs c pfx sels
  | [], _, h, _ => by simp at h
  | y :: ys, x, h, hit => by
    rw [itemsSs, List.mem_append]
    rcases List.mem_cons.mp h with rfl | h'
    · exact .inl hit
    · exact .inr (mem_itemsSs h' hit)

theorem mem_varItems {c : Ctx} {pfx : String} {vt : TypeId} {it : Item} : ∀ {sels : List Sel} {x : Sel}, x ∈ sels →
    it ∈ varItem c pfx vt x → it ∈ varItems c pfx vt sels
  | [], _, h, _ => by simp at h
  | y :: ys, x, h, hit => by
    rw [varItems, List.mem_append]
    rcases List.mem_cons.mp h with rfl | h'
    · exact .inl hit
    · exact .inr (mem_varItems h' hit)

theorem length_itemsSs_ge (c : Ctx) (pfx : String) : ∀ (sels : List Sel) (x : Sel), x ∈ sels →
    (itemsS c pfx x).length ≤ (itemsSs c pfx sels).length
  | [], x, h => by simp at h
  | y :: ys, x, h => by
    rw [itemsSs, List.length_append]
    rcases List.mem_cons.mp h with rfl | h'
    · omega
    · have := length_itemsSs_ge c pfx ys x h'; omega

theorem length_varItems_ge (c : Ctx) (pfx : String) (vt : TypeId) : ∀ (sels : List Sel) (x : Sel), x ∈ sels →
    (varItem c pfx vt x).length ≤ (varItems c pfx vt sels).length
  | [], x, h => by simp at h
  | y :: ys, x, h => by
    rw [varItems, List.length_append]
    rcases List.mem_cons.mp h with rfl | h'
    · omega
    · have := length_varItems_ge c pfx vt ys x h'; omega

theorem depthsF_le_of_forall (q : Query) (B : Nat) : ∀ (sels : List Sel), (∀ x ∈ sels, depthF q x ≤ B) →
    depthsF q sels ≤ B
  | [], _ => by simp [depthsF]
  | x :: xs, h => by
    have := depthsF_le_of_forall q B xs (fun y hy => h y (List.mem_cons_of_mem _ hy))
    have := h x (by simp)
    rw [depthsF]; omega

/-- the variant of an inline fragment has a struct -/
theorem variantHead_length_inline (c : Ctx) (pfx : String) (t : TypeId) (isub : List Sel) (sub : List Sel)
    (hm : Sel.inline t isub ∈ sub) : (variantHead c pfx t sub).length = 1 := by
  have hmine : Sel.inline t isub ∈ mineOf c.q t sub := by
    unfold mineOf
    exact List.mem_filter.mpr ⟨hm, by simp [onVt, selOn]⟩
  unfold variantHead
  split
  · rename_i h; rw [h] at hmine; simp at hmine
  · rfl
  · rfl

/-- the depth of the sub-selection of an abstract position, from the depth of its members -/
theorem depth_abs (c : Ctx) (K : Nat) (pfx : String) (vts : List TypeId) (sub : List Sel)
    (hin : ∀ t ∈ sub.filterMap inlineTy, t ∈ vts)
    (H : ∀ x ∈ sub, depthF c.q x ≤ (allItemsS c pfx x).length + K + 1 + inlBonus x) :
    depthsF c.q sub ≤ (vts.flatMap (fun vt => variantHead c pfx vt sub ++ varItems c pfx vt sub)).length +
      (itemsSs c pfx sub).length + K + 1 := by
  apply depthsF_le_of_forall
  intro x hx
  have hH := H x hx
  cases x with
  | inline t isub =>
    have ht : t ∈ vts := hin t (List.mem_filterMap.mpr ⟨_, hx, rfl⟩)
    have h1 := length_flatMap_ge (fun vt => variantHead c pfx vt sub ++ varItems c pfx vt sub) vts t ht
    have h2 := length_varItems_ge c pfx t sub _ hx
    have h3 := variantHead_length_inline c pfx t isub sub hx
    simp only [allItemsS, inlBonus] at hH
    simp only [varItem, beq_self_eq_true, ↓reduceIte] at h2
    simp only [List.length_append] at h1
    omega
  | field a fid sub' =>
    have h1 := length_itemsSs_ge c pfx sub _ hx
    simp only [allItemsS, inlBonus] at hH
    omega
  | spread g =>
    have h1 := length_itemsSs_ge c pfx sub _ hx
    simp only [allItemsS, inlBonus] at hH
    omega
  | typename =>
    simp only [allItemsS, inlBonus] at hH
    have : (itemsS c pfx Sel.typename).length = 0 := by simp [itemsS]
    omega

mutual
  theorem depthS_sel (c : Ctx) (K : Nat) : ∀ (x : Sel) (pfx : String) (abs : Bool), sSel c.s c.q c.o abs x = true →
      (∀ g ∈ spreadIds x, selsDepth (fragSels c.q g) ≤ K) →
      depthF c.q x ≤ (allItemsS c pfx x).length + K + 1 + inlBonus x
    | .field a fid sub, pfx, abs => by
      intro ht hK
      have IH := depthS_sels c K sub
      rw [spreadIds] at hK
      rw [sSel] at ht
      simp only [allItemsS, inlBonus]
      rw [depthF, itemsS]
      cases hsf : c.s.fields[fid]? with
      | none => simp [hsf] at ht
      | some sf =>
        simp only [hsf, Bool.and_eq_true] at ht ⊢
        obtain ⟨_, hty⟩ := ht
        cases hid : sf.ty.id with
        | scalar k =>
          simp only [hid, Bool.and_eq_true, List.isEmpty_iff] at hty
          rw [hty.2]; simp [depthsF]
        | «enum» k =>
          simp only [hid, Bool.and_eq_true, List.isEmpty_iff] at hty
          rw [hty.2]; simp [depthsF]
        | object i =>
          simp only [hid, Bool.and_eq_true] at hty
          have H := IH (pfx ++ c.cs.camel (a.getD sf.name)) false hty.1.2 hK
          have : depthsF c.q sub ≤ (itemsSs c (pfx ++ c.cs.camel (a.getD sf.name)) sub).length + K + 1 := by
            apply depthsF_le_of_forall
            intro x hx
            have hH := H x hx
            have hxs := sSels_mem hty.1.2 x hx
            have h1 := length_itemsSs_ge c (pfx ++ c.cs.camel (a.getD sf.name)) sub _ hx
            cases x with
            | inline t isub => simp [sSel] at hxs
            | spread g => simp [sSel] at hxs
            | field a' fid' sub' => simp only [allItemsS, inlBonus] at hH; omega
            | typename => simp only [allItemsS, inlBonus] at hH; omega
          simp only [List.length_cons]; omega
        | interface k =>
          simp only [hid, Bool.and_eq_true] at hty
          rcases absOkL_cases hty.2 with ⟨hok, hlg⟩ | ⟨g, rfl, hokB⟩
          · obtain ⟨hok1, _, _⟩ := absOkS_parts hok
            obtain ⟨_, _, _, _, _, hin, _, _⟩ := absOk2_parts hok1
            have := depth_abs c K (pfx ++ c.cs.camel (a.getD sf.name)) _ sub hin
              (IH (pfx ++ c.cs.camel (a.getD sf.name)) true hty.1.2 hK)
            have := renderType_length_pos c (pfx ++ c.cs.camel (a.getD sf.name))
              (fieldsB c (pfx ++ c.cs.camel (a.getD sf.name)) (.interface k) sub)
              (variantsV c (pfx ++ c.cs.camel (a.getD sf.name)) (.interface k) (marks c.q sub))
            simp only [hlg, List.length_append]; omega
          · have := hK g (by simp [spreadIdss, spreadIds])
            simp only [loneG_lone, depthsF, depthF, List.length_cons, List.length_nil]
            omega
        | union k =>
          simp only [hid, Bool.and_eq_true] at hty
          rcases absOkL_cases hty.2 with ⟨hok, hlg⟩ | ⟨g, rfl, hokB⟩
          · obtain ⟨hok1, _, _⟩ := absOkS_parts hok
            obtain ⟨_, _, _, _, _, hin, _, _⟩ := absOk2_parts hok1
            have := depth_abs c K (pfx ++ c.cs.camel (a.getD sf.name)) _ sub hin
              (IH (pfx ++ c.cs.camel (a.getD sf.name)) true hty.1.2 hK)
            have := renderType_length_pos c (pfx ++ c.cs.camel (a.getD sf.name))
              (fieldsB c (pfx ++ c.cs.camel (a.getD sf.name)) (.union k) sub)
              (variantsV c (pfx ++ c.cs.camel (a.getD sf.name)) (.union k) (marks c.q sub))
            simp only [hlg, List.length_append]; omega
          · have := hK g (by simp [spreadIdss, spreadIds])
            simp only [loneG_lone, depthsF, depthF, List.length_cons, List.length_nil]
            omega
        | input k => simp [hid] at hty
    | .spread g, pfx, abs => by
      intro _ hK
      have := hK g (by simp [spreadIds])
      rw [depthF]; omega
    | .inline t isub, pfx, abs => by
      intro ht hK
      simp only [sSel, Bool.and_eq_true] at ht
      rw [spreadIds] at hK
      have H := depthS_sels c K isub (pfx ++ "On" ++ c.cs.camel (objName c.s t)) false ht.1.2 hK
      have : depthsF c.q isub ≤ (itemsSs c (pfx ++ "On" ++ c.cs.camel (objName c.s t)) isub).length + K + 1 := by
        apply depthsF_le_of_forall
        intro x hx
        have hH := H x hx
        have hxs := sSels_mem ht.1.2 x hx
        have h1 := length_itemsSs_ge c (pfx ++ "On" ++ c.cs.camel (objName c.s t)) isub _ hx
        cases x with
        | inline t isub => simp [sSel] at hxs
        | spread g => simp [sSel] at hxs
        | field a' fid' sub' => simp only [allItemsS, inlBonus] at hH; omega
        | typename => simp only [allItemsS, inlBonus] at hH; omega
      simp only [allItemsS, inlBonus]
      rw [depthF]; omega
    | .typename, _, _ => by intro _ _; rw [depthF]; omega
  theorem depthS_sels (c : Ctx) (K : Nat) : ∀ (sels : List Sel) (pfx : String) (abs : Bool),
      sSels c.s c.q c.o abs sels = true → (∀ g ∈ spreadIdss sels, selsDepth (fragSels c.q g) ≤ K) →
      ∀ x ∈ sels, depthF c.q x ≤ (allItemsS c pfx x).length + K + 1 + inlBonus x
    | [], _, _ => by intro _ _ x hx; simp at hx
    | y :: ys, pfx, abs => by
      intro ht hK x hx
      obtain ⟨hy, hys⟩ := sSels_cons ht
      rw [spreadIdss] at hK
      rcases List.mem_cons.mp hx with h | hx'
      · rw [h]; exact depthS_sel c K y pfx abs hy (fun g hg => hK g (by simp [hg]))
      · exact depthS_sels c K ys pfx abs hys (fun g hg => hK g (by simp [hg])) x hx'
end

/-- object level: the depth through spreads is below the number of nested items (plus the bound for the fragments) -/
theorem depthS_obj (c : Ctx) (K : Nat) (sels : List Sel) (pfx : String) (ht : sSels c.s c.q c.o false sels = true)
    (hK : ∀ g ∈ spreadIdss sels, selsDepth (fragSels c.q g) ≤ K) :
    depthsF c.q sels ≤ (itemsSs c pfx sels).length + K + 1 := by
  have H := depthS_sels c K sels pfx false ht hK
  apply depthsF_le_of_forall
  intro x hx
  have hH := H x hx
  have hxs := sSels_mem ht x hx
  have h1 := length_itemsSs_ge c pfx sels _ hx
  cases x with
  | inline t isub => simp [sSel] at hxs
  | spread g => simp [sSel] at hxs
  | field a' fid' sub' => simp only [allItemsS, inlBonus] at hH; omega
  | typename => simp only [allItemsS, inlBonus] at hH; omega

/-- a spread fragment of the class: on an object type (part (a)) or on an abstract type (part (b)) -/
def FragOkAny (s : Schema) (q : Query) (o : Options) (g : Nat) : Prop :=
  (∃ i, fragOk s q o (.object i) g = true) ∨ (∃ ty, absHyp s ty ∧ fragOkB s q o ty g = true)

theorem fragOkAny_of_abs {s : Schema} {q : Query} {o : Options} {ty : TypeId} {sub : List Sel} (hty : absHyp s ty)
    (hok : absOkS s q o ty sub = true) : ∀ g, Sel.spread g ∈ sub → FragOkAny s q o g := by
  intro g hg
  obtain ⟨hok1, hsp, _⟩ := absOkS_parts hok
  obtain ⟨_, _, hobj, _⟩ := absOk2_parts hok1
  rcases hsp g hg with ⟨vt, _, hvt, hfok, _⟩ | ⟨_, hfok, _⟩
  · obtain ⟨i, rfl, _⟩ := hobj vt hvt
    exact .inl ⟨i, hfok⟩
  · exact .inr ⟨ty, hty, hfok⟩

mutual
  /-- every spread of the tree is `fragOk` on an object type or `fragOkB` on an abstract type -/
  theorem fragOk_of_spreadIdS (s : Schema) (q : Query) (o : Options) : ∀ (x : Sel) (abs : Bool),
      sSel s q o abs x = true → ∀ g ∈ spreadIds x, g ∉ (match x with | .spread g' => [g'] | _ => []) →
      FragOkAny s q o g
    | .field a fid sub, abs => by
      intro ht g hg _
      have IH := fragOk_of_spreadIdsS s q o sub
      rw [spreadIds] at hg
      rw [sSel] at ht
      cases hsf : s.fields[fid]? with
      | none => simp [hsf] at ht
      | some sf =>
        simp only [hsf, Bool.and_eq_true] at ht
        obtain ⟨_, hty⟩ := ht
        cases hid : sf.ty.id with
        | scalar k =>
          simp only [hid, Bool.and_eq_true, List.isEmpty_iff] at hty
          rw [hty.2] at hg; simp [spreadIdss] at hg
        | «enum» k =>
          simp only [hid, Bool.and_eq_true, List.isEmpty_iff] at hty
          rw [hty.2] at hg; simp [spreadIdss] at hg
        | object i =>
          simp only [hid, Bool.and_eq_true] at hty
          exact IH false hty.1.2 (fun g' hg' => absurd hg' (no_spread_of_sSels hty.1.2 g')) g hg
        | interface k =>
          simp only [hid, Bool.and_eq_true] at hty
          rcases absOkL_cases hty.2 with ⟨hok, hlg⟩ | ⟨g', rfl, hokB⟩
          · exact IH true hty.1.2 (fragOkAny_of_abs (ty := .interface k) hty.1.1 hok) g hg
          · simp only [spreadIdss, spreadIds, List.append_nil, List.mem_singleton] at hg
            subst hg
            exact .inr ⟨.interface k, hty.1.1, hokB⟩
        | union k =>
          simp only [hid, Bool.and_eq_true] at hty
          rcases absOkL_cases hty.2 with ⟨hok, hlg⟩ | ⟨g', rfl, hokB⟩
          · exact IH true hty.1.2 (fragOkAny_of_abs (ty := .union k) hty.1.1 hok) g hg
          · simp only [spreadIdss, spreadIds, List.append_nil, List.mem_singleton] at hg
            subst hg
            exact .inr ⟨.union k, hty.1.1, hokB⟩
        | input k => simp [hid] at hty
    | .spread g', _ => by
      intro _ g hg hn
      simp only [spreadIds, List.mem_singleton] at hg
      subst hg
      simp at hn
    | .inline t isub, abs => by
      intro ht g hg _
      simp only [sSel, Bool.and_eq_true] at ht
      rw [spreadIds] at hg
      exact fragOk_of_spreadIdsS s q o isub false ht.1.2
        (fun g' hg' => absurd hg' (no_spread_of_sSels ht.1.2 g')) g hg
    | .typename, _ => by intro _ g hg; simp [spreadIds] at hg
  theorem fragOk_of_spreadIdsS (s : Schema) (q : Query) (o : Options) : ∀ (sels : List Sel) (abs : Bool),
      sSels s q o abs sels = true → (∀ g, Sel.spread g ∈ sels → FragOkAny s q o g) →
      ∀ g ∈ spreadIdss sels, FragOkAny s q o g
    | [], _ => by intro _ _ g hg; simp [spreadIdss] at hg
    | x :: xs, abs => by
      intro ht htop g hg
      obtain ⟨hx, hxs⟩ := sSels_cons ht
      rw [spreadIdss, List.mem_append] at hg
      rcases hg with hg | hg
      · cases x with
        | spread g' =>
          simp only [spreadIds, List.mem_singleton] at hg
          subst hg
          exact htop g (by simp)
        | field a fid sub => exact fragOk_of_spreadIdS s q o _ abs hx g hg (by simp)
        | inline t isub => exact fragOk_of_spreadIdS s q o _ abs hx g hg (by simp)
        | typename => simp [spreadIds] at hg
      · exact fragOk_of_spreadIdsS s q o xs abs hxs (fun g' hg' => htop g' (List.mem_cons_of_mem _ hg')) g hg
end

/-! ## the environment of an emitted module -/

theorem variantHead_nil {c : Ctx} {pfx : String} {vt : TypeId} {sub : List Sel} (h : mineOf c.q vt sub = []) :
    variantHead c pfx vt sub = [] := by
  unfold variantHead; rw [h]

theorem variantHead_alias {c : Ctx} {pfx : String} {vt : TypeId} {sub : List Sel} {g : Nat}
    (h : mineOf c.q vt sub = [Sel.spread g]) :
    variantHead c pfx vt sub = [aliasItem (pfx ++ "On" ++ objName c.s vt) (fragName c g) false] := by
  unfold variantHead; rw [h]

theorem variantHead_struct {c : Ctx} {pfx : String} {vt : TypeId} {sub : List Sel} (hm : mineOf c.q vt sub ≠ [])
    (hs : ∀ g, mineOf c.q vt sub ≠ [Sel.spread g]) :
    variantHead c pfx vt sub =
      [.struct (pfx ++ "On" ++ objName c.s vt) c.respDerives c.serdeCrate (varFields c pfx vt sub)] := by
  unfold variantHead
  split
  · rename_i h; exact absurd h hm
  · rename_i g h; exact absurd h (hs g)
  · rfl

theorem varEnv_nil {e : Env} {c : Ctx} {pfx : String} {vt : TypeId} {sub : List Sel} (h : mineOf c.q vt sub = []) :
    VarEnv e c pfx vt sub := by
  unfold VarEnv; rw [h]; trivial

theorem varEnv_alias {e : Env} {c : Ctx} {pfx : String} {vt : TypeId} {sub : List Sel} {g : Nat}
    (h : mineOf c.q vt sub = [Sel.spread g]) (ha : AliasEnv e (pfx ++ "On" ++ objName c.s vt) (fragName c g)) :
    VarEnv e c pfx vt sub := by
  unfold VarEnv; rw [h]; exact ha

theorem varEnv_struct {e : Env} {c : Ctx} {pfx : String} {vt : TypeId} {sub : List Sel} (hm : mineOf c.q vt sub ≠ [])
    (hs : ∀ g, mineOf c.q vt sub ≠ [Sel.spread g])
    (h : StructEnv e (pfx ++ "On" ++ objName c.s vt) (varFields c pfx vt sub)) : VarEnv e c pfx vt sub := by
  unfold VarEnv
  split
  · trivial
  · rename_i g h'; exact absurd h' (hs g)
  · exact h

/-- the items of every fragment on an abstract type that is spread in the operation are in the module -/
def FragsInB (c : Ctx) (items : List Item) (root : List Sel) : Prop :=
  ∀ g ty, C02.Reach c.q root (.spread g) → absHyp c.s ty → fragOkB c.s c.q c.o ty g = true →
    ∀ f, c.q.fragments[g]? = some f → ∀ it ∈ absItemsV c f.name (c.cs.camel f.name) ty f.sels, it ∈ items

section EnvOfS
variable {c : Ctx} {items : List Item} {u : UsedTypes} {root : List Sel} (M : ModFacts c items u root)
  (hfr : FragsIn c items root) (hfrB : FragsInB c items root)
include M hfr hfrB

theorem fragEnvS_of_A (g : Nat) (i : Nat) (hr : C02.Reach c.q root (.spread g))
    (hok : fragOk c.s c.q c.o (.object i) g = true) : FragEnvS (moduleEnv c items) c g := by
  have h := fragEnv_of M hfr g i hr hok
  obtain ⟨f, hf, hon, _⟩ := fragOk_parts hok
  unfold FragEnv at h
  unfold FragEnvS
  rw [hf] at h ⊢
  simpa [hon, TypeId.isAbstract] using h

theorem fragEnvS_of_B (g : Nat) (ty : TypeId) (hty : absHyp c.s ty) (hr : C02.Reach c.q root (.spread g))
    (hok : fragOkB c.s c.q c.o ty g = true) : FragEnvS (moduleEnv c items) c g := by
  obtain ⟨f, hf, hon, _, hv, hokf⟩ := fragOkB_parts hok
  have hin := hfrB g ty hr hty hok f hf
  obtain ⟨_, _, _, hne, _, hinl, _, _⟩ := absOk_parts hokf
  unfold FragEnvS
  rw [hf]
  have hisabs : f.on.isAbstract = true := by
    rw [hon]; cases ty <;> simp_all [absHyp, TypeId.isAbstract]
  rw [hon] at hisabs
  simp only [hon, hisabs, ↓reduceIte]
  refine ⟨absEnv_of M _ _ _ (variantsV_ne_nil c rfl rfl _ f.sels hne) (fun it h => hin it (by simp [absItemsV, h])), ?_⟩
  refine envSelsV_of M f.sels _ true hv (fun x hx it h => hin it ?_) (fun x hx => reach_step_spread hr hf hx)
  cases x with
  | inline t isub =>
    have ht' := hinl t (List.mem_filterMap.mpr ⟨_, hx, rfl⟩)
    have : it ∈ (vtsOfTy c.s ty).flatMap (fun vt => inlItems c (c.cs.camel f.name) vt f.sels) :=
      List.mem_flatMap.mpr ⟨t, ht', mem_inlItems hx h⟩
    simp [absItemsV, this]
  | field a' fid' sub' => simp [absItemsV, mem_itemsVs hx h]
  | spread g => simp [absItemsV, mem_itemsVs hx h]
  | typename => simp [absItemsV, mem_itemsVs hx h]

theorem fragEnvS_of_any (g : Nat) (hr : C02.Reach c.q root (.spread g)) (hok : FragOkAny c.s c.q c.o g) :
    FragEnvS (moduleEnv c items) c g := by
  rcases hok with ⟨i, hok⟩ | ⟨ty, hty, hok⟩
  · exact fragEnvS_of_A M hfr hfrB g i hr hok
  · exact fragEnvS_of_B M hfr hfrB g ty hty hr hok

theorem varEnv_of (pfx : String) (vt : TypeId) (sub : List Sel)
    (hit : ∀ it ∈ variantHead c pfx vt sub, it ∈ items) : VarEnv (moduleEnv c items) c pfx vt sub := by
  by_cases hm : mineOf c.q vt sub = []
  · exact varEnv_nil hm
  · by_cases hs : ∃ g, mineOf c.q vt sub = [Sel.spread g]
    · obtain ⟨g, hg⟩ := hs
      rw [variantHead_alias hg] at hit
      exact varEnv_alias hg (aliasEnv_of M hfr _ _ (hit _ (by simp)))
    · have hs' : ∀ g, mineOf c.q vt sub ≠ [Sel.spread g] := fun g hg => hs ⟨g, hg⟩
      rw [variantHead_struct hm hs'] at hit
      exact varEnv_struct hm hs' (structEnv_of M _ _ (hit _ (by simp)))

mutual
  theorem envSelS_of : ∀ (x : Sel) (pfx : String) (abs : Bool), sSel c.s c.q c.o abs x = true →
      (∀ it ∈ allItemsS c pfx x, it ∈ items) → C02.Reach c.q root x →
      (∀ g, x = .spread g → FragEnvS (moduleEnv c items) c g) → envSelS (moduleEnv c items) c pfx x
    | .field a fid sub, pfx, abs => by
      intro ht hit hr _
      have IH := envSelsS_of sub
      have hdir := M.used _ hr
      rw [sSel] at ht
      simp only [allItemsS] at hit
      rw [itemsS] at hit
      rw [envSelS]
      cases hsf : c.s.fields[fid]? with
      | none => simp [hsf] at ht
      | some sf =>
        simp only [hsf, Bool.and_eq_true] at ht hit ⊢
        have hty := ht.2
        have hused : sf.ty.id ∈ u.types := hdir sf hsf
        cases hid : sf.ty.id with
        | scalar k =>
          simp only [hid] at hused ⊢
          cases hk : c.s.scalars[k]? with
          | none => trivial
          | some sn => exact scalarEnv_of M k sn hk hused
        | «enum» k =>
          simp only [hid] at hused ⊢
          cases hk : c.s.enums[k]? with
          | none => trivial
          | some en => exact enumEnv_of M k en hk hused
        | object i =>
          simp only [hid, Bool.and_eq_true] at hty hit ⊢
          refine ⟨structEnv_of M _ _ (hit _ (by simp)), ?_⟩
          refine IH _ false hty.1.2 (fun x hx it h => hit it ?_) (fun y hy => reach_step hr hy)
            (fun g hg => absurd hg (no_spread_of_sSels hty.1.2 g))
          have hxs := sSels_mem hty.1.2 x hx
          have : it ∈ itemsSs c (pfx ++ c.cs.camel (a.getD sf.name)) sub := by
            cases x with
            | inline t isub => simp [sSel] at hxs
            | spread g => simp [sSel] at hxs
            | field a' fid' sub' => exact mem_itemsSs hx h
            | typename => exact mem_itemsSs hx h
          simp [this]
        | interface k =>
          simp only [hid, Bool.and_eq_true] at hty hit ⊢
          rcases absOkL_cases hty.2 with ⟨hok, hlg⟩ | ⟨g, rfl, hokB⟩
          · simp only [hlg] at hit ⊢
            obtain ⟨hok1, hsp, _⟩ := absOkS_parts hok
            obtain ⟨_, _, hobj, hne, _, hin, _, _⟩ := absOk2_parts hok1
            refine ⟨absEnv_of M _ _ _ (variantsV_ne_nil c rfl rfl _ _ hne) (fun it h => hit it (by simp [h])), ?_, ?_⟩
            · intro vt hvt
              apply varEnv_of M hfr hfrB
              intro it h
              apply hit
              have : it ∈ (vtsOfTy c.s (.interface k)).flatMap (fun vt =>
                  variantHead c (pfx ++ c.cs.camel (a.getD sf.name)) vt sub ++
                    varItems c (pfx ++ c.cs.camel (a.getD sf.name)) vt sub) :=
                List.mem_flatMap.mpr ⟨vt, hvt, List.mem_append_left _ h⟩
              simp [this]
            · refine IH _ true hty.1.2 (fun x hx it h => hit it ?_) (fun y hy => reach_step hr hy) ?_
              · cases x with
                | inline t isub =>
                  have ht' := hin t (List.mem_filterMap.mpr ⟨_, hx, rfl⟩)
                  have : it ∈ (vtsOfTy c.s (.interface k)).flatMap (fun vt =>
                      variantHead c (pfx ++ c.cs.camel (a.getD sf.name)) vt sub ++
                        varItems c (pfx ++ c.cs.camel (a.getD sf.name)) vt sub) :=
                    List.mem_flatMap.mpr ⟨t, ht', List.mem_append_right _
                      (mem_varItems hx (by simpa [varItem, allItemsS] using h))⟩
                  simp [this]
                | field a' fid' sub' => simp [mem_itemsSs hx h]
                | spread g => simp [mem_itemsSs hx h]
                | typename => simp [mem_itemsSs hx h]
              · intro g hg
                exact fragEnvS_of_any M hfr hfrB g (reach_step hr hg) (fragOkAny_of_abs (ty := .interface k) hty.1.1 hok g hg)
          · simp only [loneG_lone] at hit ⊢
            exact ⟨aliasEnv_of M hfr _ _ (hit _ (by simp)),
              fragEnvS_of_B M hfr hfrB g (.interface k) hty.1.1 (reach_step hr (by simp)) hokB⟩
        | union k =>
          simp only [hid, Bool.and_eq_true] at hty hit ⊢
          rcases absOkL_cases hty.2 with ⟨hok, hlg⟩ | ⟨g, rfl, hokB⟩
          · simp only [hlg] at hit ⊢
            obtain ⟨hok1, hsp, _⟩ := absOkS_parts hok
            obtain ⟨_, _, hobj, hne, _, hin, _, _⟩ := absOk2_parts hok1
            refine ⟨absEnv_of M _ _ _ (variantsV_ne_nil c rfl rfl _ _ hne) (fun it h => hit it (by simp [h])), ?_, ?_⟩
            · intro vt hvt
              apply varEnv_of M hfr hfrB
              intro it h
              apply hit
              have : it ∈ (vtsOfTy c.s (.union k)).flatMap (fun vt =>
                  variantHead c (pfx ++ c.cs.camel (a.getD sf.name)) vt sub ++
                    varItems c (pfx ++ c.cs.camel (a.getD sf.name)) vt sub) :=
                List.mem_flatMap.mpr ⟨vt, hvt, List.mem_append_left _ h⟩
              simp [this]
            · refine IH _ true hty.1.2 (fun x hx it h => hit it ?_) (fun y hy => reach_step hr hy) ?_
              · cases x with
                | inline t isub =>
                  have ht' := hin t (List.mem_filterMap.mpr ⟨_, hx, rfl⟩)
                  have : it ∈ (vtsOfTy c.s (.union k)).flatMap (fun vt =>
                      variantHead c (pfx ++ c.cs.camel (a.getD sf.name)) vt sub ++
                        varItems c (pfx ++ c.cs.camel (a.getD sf.name)) vt sub) :=
                    List.mem_flatMap.mpr ⟨t, ht', List.mem_append_right _
                      (mem_varItems hx (by simpa [varItem, allItemsS] using h))⟩
                  simp [this]
                | field a' fid' sub' => simp [mem_itemsSs hx h]
                | spread g => simp [mem_itemsSs hx h]
                | typename => simp [mem_itemsSs hx h]
              · intro g hg
                exact fragEnvS_of_any M hfr hfrB g (reach_step hr hg) (fragOkAny_of_abs (ty := .union k) hty.1.1 hok g hg)
          · simp only [loneG_lone] at hit ⊢
            exact ⟨aliasEnv_of M hfr _ _ (hit _ (by simp)),
              fragEnvS_of_B M hfr hfrB g (.union k) hty.1.1 (reach_step hr (by simp)) hokB⟩
        | input k => simp [hid] at hty
    | .spread g, pfx, abs => by
      intro _ _ _ hf
      rw [envSelS]
      exact hf g rfl
    | .inline t isub, pfx, abs => by
      intro ht hit hr _
      simp only [sSel, Bool.and_eq_true] at ht
      simp only [allItemsS] at hit
      rw [envSelS]
      refine envSelsS_of isub _ false ht.1.2 (fun x hx it h => hit it ?_) (fun y hy => reach_step_inline hr hy)
        (fun g hg => absurd hg (no_spread_of_sSels ht.1.2 g))
      have hxs := sSels_mem ht.1.2 x hx
      cases x with
      | inline t isub => simp [sSel] at hxs
      | spread g => simp [sSel] at hxs
      | field a' fid' sub' => exact mem_itemsSs hx h
      | typename => exact mem_itemsSs hx h
    | .typename, _, _ => by intro _ _ _ _; simp [envSelS]
  theorem envSelsS_of : ∀ (sels : List Sel) (pfx : String) (abs : Bool), sSels c.s c.q c.o abs sels = true →
      (∀ x ∈ sels, ∀ it ∈ allItemsS c pfx x, it ∈ items) → (∀ x ∈ sels, C02.Reach c.q root x) →
      (∀ g, Sel.spread g ∈ sels → FragEnvS (moduleEnv c items) c g) →
      envSelsS (moduleEnv c items) c pfx sels
    | [], _, _ => by intro _ _ _ _; simp [envSelsS]
    | x :: xs, pfx, abs => by
      intro ht hit hr hf
      obtain ⟨hx, hxs⟩ := sSels_cons ht
      rw [envSelsS]
      exact ⟨envSelS_of x pfx abs hx (hit x (by simp)) (hr x (by simp)) (fun g hg => hf g (by simp [hg])),
        envSelsS_of xs pfx abs hxs (fun y hy => hit y (by simp [hy])) (fun y hy => hr y (by simp [hy]))
          (fun g hg => hf g (List.mem_cons_of_mem _ hg))⟩
end

end EnvOfS


/-- the items of a spread fragment on an abstract type: those of an abstract position of `VariantOp` named like the
    fragment -/
theorem fragment_abs_shape (c : Ctx) (hn : c.o.normalization = .none) (ty : TypeId) (g : Nat) (hty : absHyp c.s ty)
    (hok : fragOkB c.s c.q c.o ty g = true) :
    ∃ f, c.q.fragments[g]? = some f ∧
      fragmentItems c g = .ok (absItemsV c f.name (c.cs.camel f.name) ty f.sels) := by
  obtain ⟨f, hf, hon, _, hv, hokf⟩ := fragOkB_parts hok
  refine ⟨f, hf, ?_⟩
  unfold fragmentItems
  simp only [getFragment_of hf, bind, Except.bind]
  have hmem : f ∈ c.q.fragments := List.mem_of_getElem? hf
  have H := (calc_variant c hn (C02.totalSize c.q) (c.s.objects.length + C02.maxUnion c.s)
    (C02.variants_length_le c.s) (calcFuel c.s c.q)).2.1
  rw [hon]
  apply H _ _ _ _ (C02.maxDepth c.q) (C02.frag_depth_le c.q f hmem) _ (calcFuel_Sb c) hty hv hokf
  apply C02.le_foldl_add
  left
  simp only [List.mem_append, List.mem_map]
  exact .inl ⟨f, hmem, rfl⟩

/-! ## top level -/

structure TopEnvS (e : Env) (c : Ctx) (op : ROperation) : Prop where
  root : StructEnv e "ResponseData" (fieldsOfV c (c.cs.camel op.name) op.sels)
  sub : envSelsS e c (c.cs.camel op.name) op.sels
  size : depthsF c.q op.sels ≤ e.items.length

theorem deFuel_depthS (e : Env) (c : Ctx) (op : ROperation) (hsz : depthsF c.q op.sels ≤ e.items.length) (j : Json) :
    2 * depthsF c.q op.sels + 2 ≤ deFuel e j := by
  unfold deFuel
  have hj := jsonSize_pos j
  have h2 : 3 * (e.items.length + e.externs.length + 2) ≤
      (jsonSize j + 2) * (e.items.length + e.externs.length + 2) := Nat.mul_le_mul_right _ (by omega)
  omega

/-- **`ResponseData` accepts exactly `conformsLooseS … false`** (generic environment) -/
theorem top_accepts_iffS (e : Env) (c : Ctx) (op : ROperation) (ht : VariantSpreadOp c op = true) (he : TopEnvS e c op)
    (j : Json) : okB (Serde.de e (.path "ResponseData") j) = conformsLooseS c.s c.q c.o false op.sels j := by
  obtain ⟨_, _, hsels, _⟩ := variantSpreadOp_parts ht
  rw [de_top]
  exact structS_accepts_iff e c _ _ op.sels false hsels he.sub he.root false _ (deFuel_depthS e c op he.size j) j

theorem topEnvS_of_module {c : Ctx} {opIdx : Nat} {op : ROperation} {items : List Item}
    (hop : c.q.operations[opIdx]? = some op) (ht : VariantSpreadOp c op = true)
    (hgen : responseForQuery c opIdx = .ok items) (hok : moduleOk c items = true) :
    TopEnvS (moduleEnv c items) c op := by
  obtain ⟨u, S, E, F, I, V, o, resp, hu, hS, hE, hF, ho, hresp, hitems⟩ := responseForQuery_parts_full hgen
  rw [hop] at ho; cases ho
  obtain ⟨hn, _, hsels, _⟩ := variantSpreadOp_parts ht
  rw [variantspread_items_shape c op (List.mem_of_getElem? hop) ht] at hresp
  cases hresp
  simp only [moduleOk, Bool.and_eq_true, List.all_eq_true, decide_eq_true_eq, List.isEmpty_iff] at hok
  obtain ⟨⟨⟨⟨hnd, hnp⟩, hext⟩, htab⟩, hnoext⟩ := hok
  have hsub : ∀ it ∈ structItemsS c "ResponseData" (c.cs.camel op.name) op.sels, it ∈ items := by
    intro it h; rw [hitems]; simp [h]
  have M : ModFacts c items u op.sels := {
    hn := hn
    nodup := nodup_iff'.mp hnd
    np := hnp
    ext := fun x hx => ⟨(hext x hx).1, fun it hit => by simpa using (hext x hx).2 it hit⟩
    tables := fun n d sp vs ser de hm => by simpa using htab _ hm
    builtin := fun it h => by rw [hitems]; simp [h]
    scalars := fun k n hk hn' hnd' => by
      have := scalarItems_mem hS hk hn' hnd'
      simp only [hn, Normalization.scalarName, Normalization.camelCase] at this
      rw [hitems]; simp [this]
    enums := fun k en hk hen => by
      have := enumItems_mem hE hk hen (by simp [hnoext])
      rw [hitems]; simp [this]
    used := C02.selected_types_used c.s c.q opIdx u hu op hop }
  -- the items of every spread fragment are in the module
  have hfragmem : ∀ g i, C02.Reach c.q op.sels (.spread g) → fragOk c.s c.q c.o (.object i) g = true →
      ∀ f, c.q.fragments[g]? = some f → structItemsV c f.name (c.cs.camel f.name) f.sels ∈ F := by
    intro g i hr hokg f hf
    have hused : g ∈ u.fragments := M.used _ hr
    obtain ⟨its, hits, hfi⟩ := C02.mapM_ok_of_mem hF g ((C02.mem_sortNat _ _).mpr hused)
    obtain ⟨f', hf', hshape⟩ := fragment_struct_shape c hn (.object i) g i rfl hokg
    rw [hf] at hf'; cases hf'
    rw [hshape] at hfi; cases hfi
    exact hits
  have hfragmemB : ∀ g ty, C02.Reach c.q op.sels (.spread g) → absHyp c.s ty → fragOkB c.s c.q c.o ty g = true →
      ∀ f, c.q.fragments[g]? = some f → absItemsV c f.name (c.cs.camel f.name) ty f.sels ∈ F := by
    intro g ty hr hty hokg f hf
    have hused : g ∈ u.fragments := M.used _ hr
    obtain ⟨its, hits, hfi⟩ := C02.mapM_ok_of_mem hF g ((C02.mem_sortNat _ _).mpr hused)
    obtain ⟨f', hf', hshape⟩ := fragment_abs_shape c hn ty g hty hokg
    rw [hf] at hf'; cases hf'
    rw [hshape] at hfi; cases hfi
    exact hits
  have hfr : FragsIn c items op.sels := by
    intro g i hr hokg f hf it hit
    rw [hitems]
    have : it ∈ F.flatten := List.mem_flatten.mpr ⟨_, hfragmem g i hr hokg f hf, hit⟩
    simp [this]
  have hfrB : FragsInB c items op.sels := by
    intro g ty hr hty hokg f hf it hit
    rw [hitems]
    have : it ∈ F.flatten := List.mem_flatten.mpr ⟨_, hfragmemB g ty hr hty hokg f hf, hit⟩
    simp [this]
  have hK : ∀ g, C02.Reach c.q op.sels (.spread g) → FragOkAny c.s c.q c.o g →
      selsDepth (fragSels c.q g) ≤ F.flatten.length := by
    intro g hr hokg
    rcases hokg with ⟨i, hokg⟩ | ⟨ty, hty, hokg⟩
    · obtain ⟨f, hf, _, _, hv, _⟩ := fragOk_parts hokg
      have h1 := length_le_flatten (hfragmem g i hr hokg f hf)
      have h2 := (depthV_sels c f.sels (c.cs.camel f.name) false hv).1 rfl
      have : fragSels c.q g = f.sels := by simp [fragSels, hf]
      rw [this]
      simp only [structItemsV, List.length_cons] at h1
      omega
    · obtain ⟨f, hf, _, _, hv, hokf⟩ := fragOkB_parts hokg
      obtain ⟨_, _, _, _, _, hin, _, _⟩ := absOk_parts hokf
      have h1 := length_le_flatten (hfragmemB g ty hr hty hokg f hf)
      have h2 := (depthV_sels c f.sels (c.cs.camel f.name) true hv).2 _ hin
      have h3 := renderType_length_pos c f.name (fieldsOfV c (c.cs.camel f.name) f.sels)
        (variantsV c (c.cs.camel f.name) ty f.sels)
      have : fragSels c.q g = f.sels := by simp [fragSels, hf]
      rw [this]
      simp only [absItemsV, List.length_append] at h1
      omega
  refine ⟨structEnv_of M _ _ (hsub _ (by simp [structItemsS])), ?_, ?_⟩
  · refine envSelsS_of M hfr hfrB op.sels _ false hsels (fun x hx it h => hsub it ?_) (fun x hx => .here hx)
      (fun g hg => absurd hg (no_spread_of_sSels hsels g))
    have hxs := sSels_mem hsels x hx
    have : it ∈ itemsSs c (c.cs.camel op.name) op.sels := by
      cases x with
      | inline t isub => simp [sSel] at hxs
      | spread g => simp [sSel] at hxs
      | field a' fid' sub' => exact mem_itemsSs hx h
      | typename => exact mem_itemsSs hx h
    simp [structItemsS, this]
  · have hd := depthS_obj c F.flatten.length op.sels (c.cs.camel op.name) hsels (by
      intro g hg
      have hr := reach_spreadIdss c.q op.sels op.sels (fun y hy => .here hy) g hg
      have hokg := fragOk_of_spreadIdsS c.s c.q c.o op.sels false hsels
        (fun g' hg' => absurd hg' (no_spread_of_sSels hsels g')) g hg
      exact hK g hr hokg)
    rw [hitems]
    simp only [moduleEnv, List.length_append, structItemsS, List.length_cons]
    omega

/-- a response conforms to the operation: the response object of the root selection set, every spread read as the
    inline fragment `... on T { body }` (GraphQL §6.4.3 CollectFields treats both alike), executed on the root object
    type (specification `conformsV` of `C01AbstractA`) -/
def conformsOpS (c : Ctx) (op : ROperation) (j : Json) : Bool :=
  conformsV c.s op.objectId (expandSels c.q op.sels) j

/-- **`variantspread_accepts`.**  Every conforming response is accepted by the emitted `ResponseData`. -/
theorem variantspread_accepts (c : Ctx) (opIdx : Nat) (op : ROperation) (items : List Item)
    (hop : c.q.operations[opIdx]? = some op) (ht : VariantSpreadOp c op = true)
    (hgen : responseForQuery c opIdx = .ok items) (hok : moduleOk c items = true)
    (j : Json) (hc : conformsOpS c op j = true) :
    ∃ v, Serde.de (moduleEnv c items) (.path "ResponseData") j = .ok v := by
  have he := topEnvS_of_module hop ht hgen hok
  have := top_accepts_iffS (moduleEnv c items) c op ht he j
  rw [conformsS_loose c.s c.q c.o false _ _ _ (variantSpreadOp_parts ht).2.2.1 hc] at this
  exact (okB_iff _).mp this

/-- **`variantspread_precise` (C03), as an equivalence.**  The emitted `ResponseData` accepts `j` **iff**
    `conformsLooseS … false … j`. -/
theorem variantspread_precise_iff (c : Ctx) (opIdx : Nat) (op : ROperation) (items : List Item)
    (hop : c.q.operations[opIdx]? = some op) (ht : VariantSpreadOp c op = true)
    (hgen : responseForQuery c opIdx = .ok items) (hok : moduleOk c items = true) (j : Json) :
    okB (Serde.de (moduleEnv c items) (.path "ResponseData") j) = conformsLooseS c.s c.q c.o false op.sels j :=
  top_accepts_iffS (moduleEnv c items) c op ht (topEnvS_of_module hop ht hgen hok) j

theorem variantspread_precise (c : Ctx) (opIdx : Nat) (op : ROperation) (items : List Item)
    (hop : c.q.operations[opIdx]? = some op) (ht : VariantSpreadOp c op = true)
    (hgen : responseForQuery c opIdx = .ok items) (hok : moduleOk c items = true) (j : Json) (v : Val)
    (hd : Serde.de (moduleEnv c items) (.path "ResponseData") j = .ok v) :
    conformsLooseS c.s c.q c.o false op.sels j = true := by
  rw [← variantspread_precise_iff c opIdx op items hop ht hgen hok j, hd]; rfl

end E2E
end C01
end GqlVerif
