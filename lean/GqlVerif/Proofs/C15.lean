import GqlVerif.Model.EnvelopeSpec
/-! Helper lemmas for C15 (core Lean only). -/
namespace GqlVerif
namespace Envelope
open Spec

/-! ## nulls and options -/

theorem isNull_iff (j : Json) : isNull j = true ↔ j = .null := by
  cases j <;> simp [isNull]

theorem isNull_false_of_ne {j : Json} (h : j ≠ .null) : isNull j = false := by
  cases j <;> simp_all [isNull]

theorem deOpt_null (f : Json → Option α) : deOpt f .null = some none := by
  simp [deOpt, isNull]

theorem deOpt_of_not_null (f : Json → Option α) {j : Json} (h : isNull j = false) :
    deOpt f j = (f j).map some := by
  simp [deOpt, h]

/-- `de ∘ ser` on an `Option` member, given the payload round trips and is never written as `null` -/
theorem deOpt_serOpt {f : Json → Option α} {g : α → Json} {p : α → Bool} (o : Option α)
    (hnn : ∀ a, isNull (g a) = false) (hrt : ∀ a, p a = true → f (g a) = some a)
    (hp : optAll p o = true) : deOpt f (serOpt g o) = some o := by
  cases o with
  | none => simp [serOpt, deOpt_null]
  | some a =>
    have := hrt a (by simpa [optAll] using hp)
    simp [serOpt, deOpt_of_not_null f (hnn a), this]

/-! ## lists -/

theorem mapOpt_map {f : Json → Option α} {g : α → Json} {p : α → Bool}
    (hrt : ∀ a, p a = true → f (g a) = some a) :
    ∀ (xs : List α), xs.all p = true → mapOpt f (xs.map g) = some xs
  | [], _ => by simp [mapOpt]
  | x :: xs, h => by
    have h' : p x = true ∧ xs.all p = true := by simpa [List.all_cons] using h
    simp [mapOpt, hrt x h'.1, mapOpt_map hrt xs h'.2]

/-! ## objects: occurrences, count, lookup -/

theorem countKey_eq_length (k : String) : ∀ kvs : JMap, countKey k kvs = (occurrences k kvs).length
  | [] => by simp [countKey, occurrences]
  | (k', v) :: rest => by
    have ih := countKey_eq_length k rest
    by_cases h : k' = k
    · simp [countKey, occurrences, h] at ih ⊢; omega
    · simp [countKey, occurrences, h] at ih ⊢; omega

theorem lookup_eq_head? (k : String) : ∀ kvs : JMap, Json.lookup k kvs = (occurrences k kvs).head?
  | [] => by simp [Json.lookup, occurrences]
  | (k', v) :: rest => by
    have ih := lookup_eq_head? k rest
    by_cases h : k' = k
    · simp [Json.lookup, occurrences, h]
    · simp [Json.lookup, occurrences, h] at ih ⊢; exact ih

/-- a key that occurs at most once is read by the derive loop exactly as `lookup` reads it -/
theorem field_of_count_le_one {k : String} {kvs : JMap} (h : countKey k kvs ≤ 1) :
    field k kvs = some (Json.lookup k kvs) := by
  rw [countKey_eq_length] at h
  rw [lookup_eq_head?]
  unfold field
  match hocc : occurrences k kvs with
  | [] => simp
  | [v] => simp
  | _ :: _ :: _ => simp [hocc] at h

/-- a key that occurs twice is a `duplicate field` error -/
theorem field_of_count_ge_two {k : String} {kvs : JMap} (h : 2 ≤ countKey k kvs) : field k kvs = none := by
  rw [countKey_eq_length] at h
  unfold field
  match hocc : occurrences k kvs with
  | [] => simp [hocc] at h
  | [v] => simp [hocc] at h
  | _ :: _ :: _ => rfl

/-! ## maps -/

theorem insert_append_new (k : String) (v : Json) :
    ∀ acc : JMap, hasKey k acc = false → Json.insert k v acc = acc ++ [(k, v)]
  | [], _ => by simp [Json.insert]
  | (k', v') :: rest, h => by
    have h' : ¬ k' = k ∧ hasKey k rest = false := by simpa [hasKey] using h
    simp [Json.insert, h'.1, insert_append_new k v rest h'.2]

theorem hasKey_append (k : String) : ∀ (a b : JMap), hasKey k (a ++ b) = (hasKey k a || hasKey k b)
  | [], b => by simp [hasKey]
  | (k', _) :: rest, b => by simp [hasKey, hasKey_append k rest b, Bool.or_assoc]

theorem foldl_insert_distinct :
    ∀ (kvs acc : JMap), distinctKeys kvs = true → (∀ kv ∈ kvs, hasKey kv.1 acc = false) →
      kvs.foldl (fun acc (kv : String × Json) => Json.insert kv.1 kv.2 acc) acc = acc ++ kvs
  | [], acc, _, _ => by simp
  | (k, v) :: rest, acc, hd, hacc => by
    have hd' : hasKey k rest = false ∧ distinctKeys rest = true := by simpa [distinctKeys] using hd
    have hk : hasKey k acc = false := hacc (k, v) (by simp)
    simp only [List.foldl_cons]
    rw [insert_append_new k v acc hk]
    rw [foldl_insert_distinct rest (acc ++ [(k, v)]) hd'.2]
    · simp
    · intro kv hkv
      rw [hasKey_append]
      have h1 := hacc kv (by simp [hkv])
      have h2 : hasKey kv.1 [(k, v)] = false := by
        have : ¬ k = kv.1 := by
          intro heq
          have : hasKey k rest = true := by
            subst heq
            clear hd hd' hacc hk h1
            induction rest with
            | nil => simp at hkv
            | cons hd tl ih =>
              rcases List.mem_cons.mp hkv with h | h
              · subst h; simp [hasKey]
              · simp [hasKey, ih h]
          simp [this] at hd'
        simp [hasKey, this]
      simp [h1, h2]

/-- an object with distinct member names is kept as it is by the map deserialiser -/
theorem normObj_of_distinct (kvs : JMap) (h : distinctKeys kvs = true) : Json.normObj kvs = kvs := by
  have := foldl_insert_distinct kvs [] h (by intro kv _; simp [hasKey])
  simpa [Json.normObj] using this

theorem deMap_obj (m : JMap) (h : distinctKeys m = true) : deMap (.obj m) = some m := by
  simp [deMap, normObj_of_distinct m h]

/-! ## round trips of the leaf types -/

theorem deI32_int {n : Int} (h : inI32 n = true) : deI32 (.int n) = some n := by
  simp [deI32, h]

theorem deLocation_ser (l : Location) (h : l.wf = true) : deLocation (serLocation l) = some l := by
  have h' : inI32 l.line = true ∧ inI32 l.column = true := by simpa [Location.wf] using h
  simp [serLocation, deLocation, reqMember, field, occurrences, deI32_int h'.1, deI32_int h'.2]

theorem dePathFragment_ser (f : PathFragment) (h : f.wf = true) :
    dePathFragment (serPathFragment f) = some f := by
  cases f with
  | key s => simp [serPathFragment, dePathFragment, deString]
  | index n =>
    have h' : inI32 n = true := by simpa [PathFragment.wf] using h
    simp [serPathFragment, dePathFragment, deString, deI32_int h']

theorem deError_ser (e : Error) (h : e.wf = true) : deError (serError e) = some e := by
  obtain ⟨msg, locs, path, ext⟩ := e
  have h' : optAll (fun ls => ls.all Location.wf) locs = true ∧
      optAll (fun fs => fs.all PathFragment.wf) path = true ∧ optAll distinctKeys ext = true := by
    simpa [Error.wf, and_assoc] using h
  have hl : deOpt (deVec deLocation) (serOpt (fun ls => Json.arr (ls.map serLocation)) locs) = some locs :=
    deOpt_serOpt (p := fun ls => ls.all Location.wf) locs (fun _ => rfl)
      (fun ls hls => by simpa [deVec] using mapOpt_map deLocation_ser ls hls) h'.1
  have hp : deOpt (deVec dePathFragment) (serOpt (fun fs => Json.arr (fs.map serPathFragment)) path) = some path :=
    deOpt_serOpt (p := fun fs => fs.all PathFragment.wf) path (fun _ => rfl)
      (fun fs hfs => by simpa [deVec] using mapOpt_map dePathFragment_ser fs hfs) h'.2.1
  have hx : deOpt deMap (serOpt Json.obj ext) = some ext :=
    deOpt_serOpt (p := distinctKeys) ext (fun _ => rfl) deMap_obj h'.2.2
  simp [serError, deError, reqMember, optMember, field, occurrences, deOptField, deString, hl, hp, hx]

theorem deResponse_ser {δ : Type} (deData : Json → Option δ) (serData : δ → Json) (wfData : δ → Bool)
    (hnn : ∀ d, isNull (serData d) = false) (hrt : ∀ d, wfData d = true → deData (serData d) = some d)
    (r : Response δ) (h : r.wf wfData = true) :
    deResponse deData (serResponse serData r) = some r := by
  obtain ⟨data, errs, ext⟩ := r
  have h' : optAll wfData data = true ∧ optAll (fun es => es.all Error.wf) errs = true ∧
      optAll distinctKeys ext = true := by
    simpa [Response.wf, and_assoc] using h
  have hd : deOpt deData (serOpt serData data) = some data := deOpt_serOpt data hnn hrt h'.1
  have he : deOpt (deVec deError) (serOpt (fun es => Json.arr (es.map serError)) errs) = some errs :=
    deOpt_serOpt (p := fun es => es.all Error.wf) errs (fun _ => rfl)
      (fun es hes => by simpa [deVec] using mapOpt_map deError_ser es hes) h'.2.1
  have hx : deOpt deMap (serOpt Json.obj ext) = some ext :=
    deOpt_serOpt (p := distinctKeys) ext (fun _ => rfl) deMap_obj h'.2.2
  simp [serResponse, deResponse, optMember, field, occurrences, deOptField, hd, he, hx]

/-! ## acceptance of the grammar -/

/-- lifting through a list -/
theorem mapOpt_pres {f : Json → Option α} {p : Json → Bool} {R : α → Json → Prop} :
    ∀ (js : List Json), (∀ v ∈ js, p v = true → ∃ a, f v = some a ∧ R a v) → js.all p = true →
      ∃ as, mapOpt f js = some as ∧ ListPres R as js
  | [], _, _ => ⟨[], by simp [mapOpt], by simp [ListPres]⟩
  | j :: js, hp, h => by
    have h' : p j = true ∧ js.all p = true := by simpa [List.all_cons] using h
    obtain ⟨a, ha, hR⟩ := hp j (by simp) h'.1
    obtain ⟨as, has, hRs⟩ := mapOpt_pres js (fun v hv => hp v (by simp [hv])) h'.2
    exact ⟨a :: as, by simp [mapOpt, ha, has], by simp [ListPres, hR, hRs]⟩

theorem deVec_pres {f : Json → Option α} {p : Json → Bool} {R : α → Json → Prop}
    (hp : ∀ v, p v = true → ∃ a, f v = some a ∧ R a v) (j : Json) (h : specListOf p j = true) :
    ∃ as, deVec f j = some as ∧ ArrPres R as j := by
  cases j with
  | arr js =>
    obtain ⟨as, has, hR⟩ := mapOpt_pres (R := R) js (fun v _ => hp v) (by simpa [specListOf] using h)
    exact ⟨as, by simpa [deVec] using has, js, rfl, hR⟩
  | _ => simp [specListOf] at h

/-- lifting through an optional member of an object -/
theorem optMember_pres {f : Json → Option α} {p : Json → Bool} {R : α → Json → Prop}
    (hp : ∀ v, p v = true → ∃ a, f v = some a ∧ R a v) (k : String) (kvs : JMap)
    (h : optMemberOk k p kvs = true) :
    ∃ o, optMember f k kvs = some o ∧ OptPres R o (Json.lookup k kvs) := by
  unfold optMemberOk at h
  have hc : countKey k kvs ≤ 1 := by
    have := (Bool.and_eq_true _ _).mp h |>.1
    simpa using this
  have hm := (Bool.and_eq_true _ _).mp h |>.2
  unfold optMember
  rw [field_of_count_le_one hc]
  cases hl : Json.lookup k kvs with
  | none => exact ⟨none, by simp [deOptField], by simp [OptPres]⟩
  | some v =>
    rw [hl] at hm
    by_cases hn : isNull v = true
    · have : v = .null := (isNull_iff v).mp hn
      subst this
      exact ⟨none, by simp [deOptField, deOpt_null], by simp [OptPres]⟩
    · have hn' : isNull v = false := by simpa using hn
      have hpv : p v = true := by simpa [hn'] using hm
      obtain ⟨a, ha, hR⟩ := hp v hpv
      refine ⟨some a, by simp [deOptField, deOpt_of_not_null f hn', ha], ?_⟩
      have : v ≠ .null := fun e => by simp [e, isNull] at hn'
      simp [OptPres, this, hR]

/-- lifting through a required member of an object -/
theorem reqMember_pres {f : Json → Option α} {p : Json → Bool}
    (k : String) (kvs : JMap) (h : reqMemberOk k p kvs = true) :
    ∃ v, Json.lookup k kvs = some v ∧ p v = true ∧ reqMember f k kvs = f v := by
  unfold reqMemberOk at h
  have hc : countKey k kvs = 1 := by
    have := (Bool.and_eq_true _ _).mp h |>.1
    simpa using this
  have hm := (Bool.and_eq_true _ _).mp h |>.2
  unfold reqMember
  rw [field_of_count_le_one (by omega)]
  cases hl : Json.lookup k kvs with
  | none => simp [hl] at hm
  | some v => exact ⟨v, rfl, by simpa [hl] using hm, rfl⟩

theorem specInt_de {v : Json} (h : specInt v = true) : ∃ n, v = .int n ∧ deI32 v = some n := by
  cases v with
  | int n => exact ⟨n, rfl, by simpa [specInt, deI32] using h⟩
  | _ => simp [specInt] at h

theorem specString_de {v : Json} (h : specString v = true) : ∃ s, v = .str s ∧ deString v = some s := by
  cases v with
  | str s => exact ⟨s, rfl, rfl⟩
  | _ => simp [specString] at h

theorem specLocation_pres (j : Json) (h : specLocation j = true) :
    ∃ l, deLocation j = some l ∧ LocPres l j := by
  cases j with
  | obj kvs =>
    have h' : reqMemberOk "line" specInt kvs = true ∧ reqMemberOk "column" specInt kvs = true := by
      simpa [specLocation] using h
    obtain ⟨vl, hll, hpl, hrl⟩ := reqMember_pres (f := deI32) "line" kvs h'.1
    obtain ⟨vc, hlc, hpc, hrc⟩ := reqMember_pres (f := deI32) "column" kvs h'.2
    obtain ⟨l, rfl, hdl⟩ := specInt_de hpl
    obtain ⟨c, rfl, hdc⟩ := specInt_de hpc
    exact ⟨⟨l, c⟩, by simp [deLocation, hrl, hrc, hdl, hdc], by simp [LocPres, member, hll, hlc]⟩
  | _ => simp [specLocation] at h

theorem specPathEntry_pres (j : Json) (h : specPathEntry j = true) :
    ∃ f, dePathFragment j = some f ∧ FragPres f j := by
  cases j with
  | str s => exact ⟨.key s, by simp [dePathFragment, deString], by simp [FragPres]⟩
  | int n =>
    have : inI32 n = true := by simpa [specPathEntry, specString, specInt] using h
    exact ⟨.index n, by simp [dePathFragment, deString, deI32, this], by simp [FragPres]⟩
  | _ => simp [specPathEntry, specString, specInt] at h

theorem specObject_pres (j : Json) (h : specObject j = true) : ∃ m, deMap j = some m ∧ MapPres m j := by
  cases j with
  | obj m => exact ⟨m, deMap_obj m (by simpa [specObject] using h), rfl⟩
  | _ => simp [specObject] at h

theorem specError_pres (j : Json) (h : specError j = true) : ∃ e, deError j = some e ∧ ErrorPres e j := by
  cases j with
  | obj kvs =>
    have h' : reqMemberOk "message" specString kvs = true ∧
        optMemberOk "locations" (specListOf specLocation) kvs = true ∧
        optMemberOk "path" (specListOf specPathEntry) kvs = true ∧
        optMemberOk "extensions" specObject kvs = true := by
      simpa [specError, and_assoc] using h
    obtain ⟨vm, hlm, hpm, hrm⟩ := reqMember_pres (f := deString) "message" kvs h'.1
    obtain ⟨msg, rfl, hdm⟩ := specString_de hpm
    obtain ⟨l, hl, hRl⟩ := optMember_pres (f := deVec deLocation) (R := ArrPres LocPres)
      (deVec_pres specLocation_pres) "locations" kvs h'.2.1
    obtain ⟨p, hp, hRp⟩ := optMember_pres (f := deVec dePathFragment) (R := ArrPres FragPres)
      (deVec_pres specPathEntry_pres) "path" kvs h'.2.2.1
    obtain ⟨x, hx, hRx⟩ := optMember_pres (f := deMap) (R := MapPres) specObject_pres "extensions" kvs h'.2.2.2
    exact ⟨⟨msg, l, p, x⟩, by simp [deError, hrm, hdm, hl, hp, hx], by
      simp only [ErrorPres, member]; exact ⟨hlm, hRl, hRp, hRx⟩⟩
  | _ => simp [specError] at h

theorem specBody_pres (j : Json) (h : specBody j = true) :
    ∃ r, deResponseObj j = some r ∧ ResponsePres r j := by
  cases j with
  | obj kvs =>
    have h' : optMemberOk "data" specObject kvs = true ∧
        optMemberOk "errors" (specListOf specError) kvs = true ∧
        optMemberOk "extensions" specObject kvs = true := by
      simpa [specBody, and_assoc] using h
    obtain ⟨d, hd, hRd⟩ := optMember_pres (f := deMap) (R := MapPres) specObject_pres "data" kvs h'.1
    obtain ⟨e, he, hRe⟩ := optMember_pres (f := deVec deError) (R := ArrPres ErrorPres)
      (deVec_pres specError_pres) "errors" kvs h'.2.1
    obtain ⟨x, hx, hRx⟩ := optMember_pres (f := deMap) (R := MapPres) specObject_pres "extensions" kvs h'.2.2
    exact ⟨⟨d, e, x⟩, by simp [deResponseObj, deResponse, hd, he, hx], by
      simp only [ResponsePres, member]; exact ⟨hRd, hRe, hRx⟩⟩
  | _ => simp [specBody] at h

/-! ## decimal numerals -/

theorem digitChar_eq (d : Nat) (h : d < 10) : digitChar d = Nat.digitChar d := by
  match d, h with
  | 0, _ | 1, _ | 2, _ | 3, _ | 4, _ | 5, _ | 6, _ | 7, _ | 8, _ | 9, _ => rfl

theorem natDigits_eq_toDigits (n : Nat) : natDigits n = Nat.toDigits 10 n := by
  induction n using Nat.strongRecOn with
  | _ n ih =>
    rw [natDigits]
    by_cases h : n < 10
    · simp [h, Nat.toDigits_of_lt_base h, digitChar_eq n h]
    · have hq : 0 < n / 10 := by omega
      have hr : n % 10 < 10 := by omega
      have := Nat.toDigits_append_toDigits (b := 10) (n := n / 10) (d := n % 10) (by omega) hq hr
      rw [Nat.toDigits_of_lt_base hr] at this
      have hn : 10 * (n / 10) + n % 10 = n := by omega
      rw [hn] at this
      simp [h, ih (n / 10) (by omega), digitChar_eq _ hr, this]

theorem decimal_eq_toString (n : Int) : decimal n = toString n := by
  cases n with
  | ofNat n => simp [decimal, natDigits_eq_toDigits, toString, Int.repr, Nat.repr]
  | negSucc n => simp [decimal, natDigits_eq_toDigits, toString, Int.repr, Nat.repr]

theorem digitValue_digitChar (d : Nat) (h : d < 10) : (digitChar d).toNat - 48 = d := by
  match d, h with
  | 0, _ | 1, _ | 2, _ | 3, _ | 4, _ | 5, _ | 6, _ | 7, _ | 8, _ | 9, _ => rfl

theorem digitsValue_natDigits (n : Nat) : digitsValue (natDigits n) = n := by
  induction n using Nat.strongRecOn with
  | _ n ih =>
    rw [natDigits]
    by_cases h : n < 10
    · simp [h, digitsValue, digitValue_digitChar n h]
    · have hr : n % 10 < 10 := by omega
      have := ih (n / 10) (by omega)
      simp only [digitsValue] at this
      simp only [h, if_false, digitsValue, List.foldl_append, List.foldl_cons, List.foldl_nil, this,
        digitValue_digitChar _ hr]
      omega

/-! ## join -/

theorem joinWith_eq_intercalate (sep : String) : ∀ xs : List String, joinWith sep xs = String.intercalate sep xs
  | [] => by rw [joinWith, String.intercalate_nil]
  | [x] => by rw [joinWith, String.intercalate_singleton]
  | x :: y :: rest => by
    rw [joinWith, String.intercalate_cons_cons, joinWith_eq_intercalate sep (y :: rest)]

end Envelope
end GqlVerif
