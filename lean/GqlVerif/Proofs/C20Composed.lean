import GqlVerif.Props.C20
/-!
# C20, composed: `graphql-client introspect-schema` from its ARGV-level inputs to its effects

(review finding 12.)  `Props/C20.lean` states `request_shape` over an arbitrary list of name/value pairs and
`refused_header_no_request` without the words "no request" in its conclusion.  Here the pieces of
`Model/Cli.lean` are **composed** into one function of the command line, `introspectMain`, and the property
clauses are stated about that function:

* `introspectMain` — clap's `--header` parsing (`parseHeaderArgs`), then `buildRequest`, then `introspect`.
  It is a composition of existing model functions only (no new behaviour); its result records the exit status,
  **the request handed to `send()`, if any**, and the state of the `--output` file / stdout.
* `introspect_request_shape` — whenever a request is made, it is the POST to the given URL whose header list is
  the two fixed headers, then **exactly the name/value pairs of the `--header` arguments** — each argument split at
  its first colon, both halves stripped of surrounding white space, the name lower-cased by `http` — **in order**,
  then `authorization: Bearer <token>` iff `--authorization` was given; the body is the selected document.
  The relation between an argument and its pair (`HeaderOf`) is written without any helper of the parser
  (`trim`, `splitFirstColon`, `wordCount`, `isWhitespace` do not occur in it).
  ("In order" is the order in which the program *adds* the headers, which is what `Request.headers` records.
  `http::HeaderMap` keeps the values of one name together, so on the wire a custom header that repeats an earlier
  name — `accept`, `content-type`, or an earlier custom name — travels next to that name's first value; the order
  among the values of one name is the order added.)
* `introspect_sends_iff`, `accepted_headers_request` — the converse: exactly when a request is made, and which.
* `refused_header_sends_nothing` — a refused `--header` anywhere in the list: usage error (exit status 2) of the
  *first* refused argument, **no request**, file and stdout untouched, for every server behaviour.
* `http_refused_sends_nothing` — same for a name/value/token `http` refuses (exit status 1, "builder error").
* `main_failure_touches_nothing`, `main_success_iff`, `main_output_written` — the file clauses of C20 on the
  composed function.
* `Strip` / `strip_iff_trim`, `WhiteSpace` / `isWhitespace_iff`, `Refused` / `refused_iff` — the
  helper-free vocabulary, each proved equivalent to the model's helper.

* `JsonText.pretty_parse_roundtrip`, `output_file_reads_back` (second half of the file) — the model has the printer
  (`pretty`) but no reader of JSON text; a reader `JsonText.parseJson` is defined here and
  `parseJson (pretty j) = some (canon j)` is proved for every `j` whose non-integer number tokens are grammatical.
-/
namespace GqlVerif
namespace C20C
open Cli C20

/-! ## helper-free vocabulary -/

/-- Unicode `White_Space` written as the ranges of `PropList.txt` (not as the model's table) -/
def WhiteSpace (c : Char) : Prop :=
  (9 ≤ c.toNat ∧ c.toNat ≤ 13) ∨ c.toNat = 0x20 ∨ c.toNat = 0x85 ∨ c.toNat = 0xA0 ∨ c.toNat = 0x1680 ∨
  (0x2000 ≤ c.toNat ∧ c.toNat ≤ 0x200A) ∨ c.toNat = 0x2028 ∨ c.toNat = 0x2029 ∨ c.toNat = 0x202F ∨
  c.toNat = 0x205F ∨ c.toNat = 0x3000

theorem isWhitespace_iff (c : Char) : isWhitespace c = true ↔ WhiteSpace c := by
  unfold isWhitespace whiteSpaceCodePoints WhiteSpace
  generalize c.toNat = n
  simp only [List.contains_cons, List.contains_nil, Bool.or_false, Bool.or_eq_true, beq_iff_eq]
  omega

theorem isWhitespace_false_iff (c : Char) : isWhitespace c = false ↔ ¬ WhiteSpace c := by
  rw [← isWhitespace_iff]; simp

/-- `t` is `a` without its leading and trailing white space: `a = l ++ t ++ r`, `l` and `r` white space only,
`t` neither starts nor ends with white space -/
def Strip (a t : List Char) : Prop :=
  ∃ l r, a = l ++ t ++ r ∧ (∀ c ∈ l, WhiteSpace c) ∧ (∀ c ∈ r, WhiteSpace c) ∧
    (∀ x, t.head? = some x → ¬ WhiteSpace x) ∧ (∀ x, t.getLast? = some x → ¬ WhiteSpace x)

theorem dropWhile_append_all (p : Char → Bool) (l r : List Char) (h : ∀ c ∈ l, p c = true) :
    (l ++ r).dropWhile p = r.dropWhile p := by
  induction l with
  | nil => rfl
  | cons x xs ih =>
    have hx : p x = true := h x (by simp)
    simp only [List.cons_append, List.dropWhile_cons, hx, ↓reduceIte]
    exact ih (fun c hc => h c (by simp [hc]))

theorem dropWhile_of_head (p : Char → Bool) (t : List Char) (h : ∀ x, t.head? = some x → p x = false) :
    t.dropWhile p = t := by
  cases t with
  | nil => rfl
  | cons x xs => simp [h x rfl]

/-- the decomposition determines `t`: it is what `str::trim` returns -/
theorem strip_iff_trim (a t : List Char) : Strip a t ↔ t = trim a := by
  constructor
  · rintro ⟨l, r, rfl, hl, hr, hh, hlast⟩
    have hl' : ∀ c ∈ l, isWhitespace c = true := fun c hc => (isWhitespace_iff c).mpr (hl c hc)
    have hr' : ∀ c ∈ r, isWhitespace c = true := fun c hc => (isWhitespace_iff c).mpr (hr c hc)
    have hh' : ∀ x, t.head? = some x → isWhitespace x = false :=
      fun x hx => (isWhitespace_false_iff x).mpr (hh x hx)
    have hlast' : ∀ x, t.reverse.head? = some x → isWhitespace x = false := by
      intro x hx; rw [List.head?_reverse] at hx; exact (isWhitespace_false_iff x).mpr (hlast x hx)
    unfold trim trimStart trimEnd
    rw [List.append_assoc, dropWhile_append_all _ _ _ hl']
    cases t with
    | nil =>
      simp only [List.nil_append]
      rw [dropWhile_eq_nil _ _ hr']; rfl
    | cons x xs =>
      have hx : isWhitespace x = false := hh' x rfl
      have h1 : ((x :: xs) ++ r).dropWhile isWhitespace = (x :: xs) ++ r := by
        simp [hx]
      rw [h1, List.reverse_append,
        dropWhile_append_all _ _ _ (fun c hc => hr' c (by simpa using hc)),
        dropWhile_of_head _ _ hlast', List.reverse_reverse]
  · rintro rfl
    obtain ⟨l, r, h, hl, hr, ht⟩ := trim_spec a
    exact ⟨l, r, h, fun c hc => (isWhitespace_iff c).mp (hl c hc), fun c hc => (isWhitespace_iff c).mp (hr c hc),
      fun x hx => (isWhitespace_false_iff x).mp (ht.1 x hx), fun x hx => (isWhitespace_false_iff x).mp (ht.2 x hx)⟩

/-- **the name/value pair a `--header` argument stands for**: split at the *first* colon, both halves
stripped; the name is non-empty and contains no white space.  No function of the parser occurs here. -/
def HeaderOf (h : String) (nv : String × String) : Prop :=
  ∃ a b n v, h.toList = a ++ ':' :: b ∧ ':' ∉ a ∧ Strip a n ∧ Strip b v ∧ n ≠ [] ∧ (∀ c ∈ n, ¬ WhiteSpace c) ∧
    nv = (String.ofList n, String.ofList v)

/-- `Header::from_str` returns `Ok` exactly on the arguments that stand for a pair, and returns that pair -/
theorem parseHeader_iff (h : String) (nv : String × String) : parseHeader h.toList = .ok nv ↔ HeaderOf h nv := by
  obtain ⟨n0, v0⟩ := nv
  rw [header_spec_str]
  constructor
  · rintro ⟨a, b, hs, ha, hn, hv, hne, hall⟩
    exact ⟨a, b, trim a, trim b, hs, ha, (strip_iff_trim _ _).mpr rfl, (strip_iff_trim _ _).mpr rfl, hne,
      fun c hc => (isWhitespace_false_iff c).mp (hall c hc), by rw [hn, hv]⟩
  · rintro ⟨a, b, n, v, hs, ha, hn, hv, hne, hall, heq⟩
    have hn' := (strip_iff_trim _ _).mp hn
    have hv' := (strip_iff_trim _ _).mp hv
    subst hn' hv'
    simp only [Prod.mk.injEq] at heq
    exact ⟨a, b, hs, ha, heq.1, heq.2, hne, fun c hc => (isWhitespace_false_iff c).mpr (hall c hc)⟩

/-- a string `Header::from_str` has a reason to refuse: no colon; only white space before the first colon;
white space inside the stripped name -/
def Refused (s : List Char) : Prop :=
  ':' ∉ s ∨ ∃ a b n, s = a ++ ':' :: b ∧ ':' ∉ a ∧ Strip a n ∧ (n = [] ∨ ∃ c ∈ n, WhiteSpace c)

theorem exists_first_colon (s : List Char) (h : ':' ∈ s) : ∃ a b, s = a ++ ':' :: b ∧ ':' ∉ a := by
  cases hs : splitFirstColon s with
  | none => exact absurd h ((splitFirstColon_none s).mp hs)
  | some ab => exact ⟨ab.1, ab.2, (splitFirstColon_some s ab.1 ab.2).mp hs⟩

/-- refused ⇔ `Header::from_str` returns `Err` ⇔ the argument stands for no pair -/
theorem refused_iff (h : String) :
    (Refused h.toList ↔ ∃ m, parseHeader h.toList = .error m) ∧ (Refused h.toList ↔ ¬ ∃ nv, HeaderOf h nv) := by
  have key : Refused h.toList ↔ ¬ ∃ nv, HeaderOf h nv := by
    constructor
    · rintro hr ⟨nv, a, b, n, v, hs, ha, hn, _, hne, hall, _⟩
      rcases hr with hno | ⟨a', b', n', hs', ha', hn', hbad⟩
      · apply hno; rw [hs]; simp
      · have h1 := (splitFirstColon_some _ a b).mpr ⟨hs, ha⟩
        have h2 := (splitFirstColon_some _ a' b').mpr ⟨hs', ha'⟩
        rw [h1] at h2
        simp only [Option.some.injEq, Prod.mk.injEq] at h2
        obtain ⟨rfl, rfl⟩ := h2
        have : n' = n := ((strip_iff_trim _ _).mp hn').trans ((strip_iff_trim _ _).mp hn).symm
        subst this
        rcases hbad with h0 | ⟨c, hc, hw⟩
        · exact hne h0
        · exact hall c hc hw
    · intro hno
      by_cases hc : ':' ∈ h.toList
      · obtain ⟨a, b, hs, ha⟩ := exists_first_colon _ hc
        refine Or.inr ⟨a, b, trim a, hs, ha, (strip_iff_trim _ _).mpr rfl, ?_⟩
        by_cases hne : trim a = []
        · exact Or.inl hne
        · right
          refine Classical.byContradiction fun hnw => hno ?_
          refine ⟨(String.ofList (trim a), String.ofList (trim b)), a, b, trim a, trim b, hs, ha,
            (strip_iff_trim _ _).mpr rfl, (strip_iff_trim _ _).mpr rfl, hne, ?_, rfl⟩
          intro c hc hw
          exact hnw ⟨c, hc, hw⟩
      · exact Or.inl hc
  refine ⟨?_, key⟩
  rw [key]
  cases hp : parseHeader h.toList with
  | ok nv =>
    constructor
    · intro hno; exact absurd ⟨nv, (parseHeader_iff h nv).mp hp⟩ hno
    · rintro ⟨m, hm⟩; cases hm
  | error m =>
    constructor
    · intro _; exact ⟨m, rfl⟩
    · rintro _ ⟨nv, hnv⟩
      rw [(parseHeader_iff h nv).mpr hnv] at hp; cases hp

example : HeaderOf " X-Name :\tVal:ue " ("X-Name", "Val:ue") := by
  rw [← parseHeader_iff]; decide +kernel
example : Refused "X Name: Value".toList := by
  rw [(refused_iff _).1]
  exact ⟨"Invalid header input. Whitespace not allowed in field name. [X Name: Value]", by decide +kernel⟩

/-- pointwise relation between two lists of the same length -/
inductive All2 {α β : Type} (R : α → β → Prop) : List α → List β → Prop
  | nil : All2 R [] []
  | cons {a b as bs} : R a b → All2 R as bs → All2 R (a :: as) (b :: bs)

theorem All2.length_eq {α β : Type} {R : α → β → Prop} {as : List α} {bs : List β} (h : All2 R as bs) :
    as.length = bs.length := by
  induction h with
  | nil => rfl
  | cons _ _ ih => simp [ih]

/-- clap's loop over the `--header` arguments: `Ok` with the list of pairs, in order, iff every argument stands
for a pair -/
theorem parseHeaderArgs_ok_iff (hs : List String) (nvs : List (String × String)) :
    parseHeaderArgs hs = .ok nvs ↔ All2 HeaderOf hs nvs := by
  induction hs generalizing nvs with
  | nil =>
    constructor
    · intro h; simp only [parseHeaderArgs, Except.ok.injEq] at h; subst h; exact .nil
    · intro h; cases h; rfl
  | cons x xs ih =>
    unfold parseHeaderArgs
    cases hx : parseHeader x.toList with
    | error m =>
      simp only [reduceCtorEq, false_iff]
      intro h
      cases h with
      | cons hR _ => rw [(parseHeader_iff _ _).mpr hR] at hx; cases hx
    | ok nv =>
      simp only []
      cases hrest : parseHeaderArgs xs with
      | error e =>
        simp only [reduceCtorEq, false_iff]
        intro h
        cases h with
        | cons _ hT => rw [(ih _).mpr hT] at hrest; cases hrest
      | ok more =>
        simp only [Except.ok.injEq]
        constructor
        · rintro rfl; exact .cons ((parseHeader_iff _ _).mp hx) ((ih _).mp hrest)
        · intro h
          cases h with
          | cons hR hT =>
            rw [(parseHeader_iff _ _).mpr hR] at hx
            rw [(ih _).mpr hT] at hrest
            cases hx; cases hrest; rfl

/-- clap stops at the **first** refused argument, with its message, exit status 2 -/
theorem parseHeaderArgs_error_iff (hs : List String) (e : Exit) :
    parseHeaderArgs hs = .error e ↔
      ∃ pre h post m, hs = pre ++ h :: post ∧ (∀ x ∈ pre, ∃ nv, HeaderOf x nv) ∧
        parseHeader h.toList = .error m ∧ e = .usage m := by
  induction hs with
  | nil =>
    simp only [parseHeaderArgs, reduceCtorEq, false_iff]
    rintro ⟨pre, h, post, m, heq, _⟩
    cases pre <;> simp at heq
  | cons x xs ih =>
    unfold parseHeaderArgs
    cases hx : parseHeader x.toList with
    | error m =>
      simp only [Except.error.injEq]
      constructor
      · rintro rfl; exact ⟨[], x, xs, m, rfl, by simp, hx, rfl⟩
      · rintro ⟨pre, h, post, m', heq, hpre, hbad, rfl⟩
        cases pre with
        | nil =>
          simp only [List.nil_append, List.cons.injEq] at heq
          obtain ⟨rfl, _⟩ := heq
          rw [hx] at hbad; cases hbad; rfl
        | cons p ps =>
          simp only [List.cons_append, List.cons.injEq] at heq
          obtain ⟨rfl, _⟩ := heq
          obtain ⟨nv, hnv⟩ := hpre x (by simp)
          rw [(parseHeader_iff _ _).mpr hnv] at hx; cases hx
    | ok nv =>
      simp only []
      cases hrest : parseHeaderArgs xs with
      | ok more =>
        simp only [reduceCtorEq, false_iff]
        rintro ⟨pre, h, post, m', heq, hpre, hbad, rfl⟩
        cases pre with
        | nil =>
          simp only [List.nil_append, List.cons.injEq] at heq
          obtain ⟨rfl, _⟩ := heq
          rw [hx] at hbad; cases hbad
        | cons p ps =>
          simp only [List.cons_append, List.cons.injEq] at heq
          obtain ⟨rfl, rfl⟩ := heq
          have := (ih).mpr ⟨ps, h, post, m', rfl, fun y hy => hpre y (by simp [hy]), hbad, rfl⟩
          rw [hrest] at this; cases this
      | error e' =>
        simp only [Except.error.injEq]
        constructor
        · rintro rfl
          obtain ⟨pre, h, post, m, heq, hpre, hbad, he⟩ := ih.mp hrest
          refine ⟨x :: pre, h, post, m, by simp [heq], ?_, hbad, he⟩
          intro y hy
          simp only [List.mem_cons] at hy
          rcases hy with rfl | hy
          · exact ⟨nv, (parseHeader_iff _ _).mp hx⟩
          · exact hpre y hy
        · rintro ⟨pre, h, post, m', heq, hpre, hbad, rfl⟩
          cases pre with
          | nil =>
            simp only [List.nil_append, List.cons.injEq] at heq
            obtain ⟨rfl, _⟩ := heq
            rw [hx] at hbad; cases hbad
          | cons p ps =>
            simp only [List.cons_append, List.cons.injEq] at heq
            obtain ⟨rfl, rfl⟩ := heq
            have := ih.mpr ⟨ps, h, post, m', rfl, fun y hy => hpre y (by simp [hy]), hbad, rfl⟩
            rw [hrest] at this; cases this; rfl

/-! ## the composed command -/

-- (`IntrospectArgs`, `IntrospectRun`, `introspectMain` live in `Model/Cli.lean`: the driver answers whole-run requests with them)

/-- `http` accepts every custom name and value, and the bearer token -/
def HttpOk (nvs : List (String × String)) (auth : Option String) : Prop :=
  (∀ nv ∈ nvs, httpNameOk nv.1.toList = true ∧ httpValueOk nv.2.toList = true) ∧
  (∀ t, auth = some t → httpValueOk t.toList = true)

/-- the header list of the request: fixed, custom (in order, names lower-cased), bearer -/
def wireHeaders (nvs : List (String × String)) (auth : Option String) : List (String × String) :=
  [("content-type", "application/json"), ("accept", "application/json")] ++
    nvs.map (fun nv => (String.ofList (nv.1.toList.map Char.toLower), nv.2)) ++
    (match auth with | some t => [("authorization", "Bearer " ++ t)] | none => [])

/-- the request of a command line whose `--header` arguments stand for `nvs` -/
def wireRequest (loc : String) (nvs : List (String × String)) (auth : Option String) (o u : Bool) : Request :=
  { method := "POST", url := loc, headers := wireHeaders nvs auth,
    body := .obj [("variables", .null), ("query", .str (textOf o u)), ("operationName", .str (specOp o u))] }

theorem buildRequest_ok_iff (loc : String) (hs : List (String × String)) (auth : Option String) (o u : Bool) (r : Request) :
    buildRequest loc hs auth o u = .ok r ↔
      HttpOk hs auth ∧ r = wireRequest loc hs auth o u := by
  have hsel := (doc_select o u).1
  rw [wireRequest, ← (doc_select o u).2.1]
  unfold buildRequest opOf textOf HttpOk wireHeaders
  cases hd : selectDoc o u with
  | none => rw [hd] at hsel; cases hsel
  | some d =>
    obtain ⟨op, file, text⟩ := d
    simp only []
    by_cases hany : (hs.any fun nv => !(httpNameOk nv.1.toList) || !(httpValueOk nv.2.toList)) = true
    · rw [if_pos hany]
      simp only [reduceCtorEq, false_iff]
      rintro ⟨⟨hall, _⟩, _⟩
      simp only [List.any_eq_true, Bool.or_eq_true, Bool.not_eq_true'] at hany
      obtain ⟨nv, hmem, hbad⟩ := hany
      have := hall nv hmem
      rcases hbad with hb | hb
      · rw [this.1] at hb; cases hb
      · rw [this.2] at hb; cases hb
    · rw [if_neg hany]
      have hall : ∀ nv ∈ hs, httpNameOk nv.1.toList = true ∧ httpValueOk nv.2.toList = true := by
        intro nv hmem
        simp only [List.any_eq_true, Bool.or_eq_true, Bool.not_eq_true', not_exists, not_and, not_or] at hany
        have := hany nv hmem
        simpa using this
      cases auth with
      | none =>
        simp only [Except.ok.injEq, requestBody, lowerAscii, List.append_nil]
        constructor
        · rintro rfl; exact ⟨⟨hall, by simp⟩, rfl⟩
        · rintro ⟨_, rfl⟩; rfl
      | some t =>
        simp only []
        by_cases ht : httpValueOk t.toList = true
        · rw [if_pos ht]
          simp only [Except.ok.injEq, requestBody, lowerAscii]
          constructor
          · rintro rfl; exact ⟨⟨hall, by intro t' h; cases h; exact ht⟩, rfl⟩
          · rintro ⟨_, rfl⟩; rfl
        · rw [if_neg ht]
          simp only [reduceCtorEq, false_iff]
          rintro ⟨⟨_, htok⟩, _⟩
          exact ht (htok t rfl)

theorem buildRequest_error (loc : String) (hs : List (String × String)) (auth : Option String) (o u : Bool) (e : Exit)
    (h : buildRequest loc hs auth o u = .error e) : e = .failure "builder error" ∧ ¬ HttpOk hs auth := by
  have hsel := (doc_select o u).1
  constructor
  · unfold buildRequest at h
    cases hd : selectDoc o u with
    | none => rw [hd] at hsel; cases hsel
    | some d =>
      obtain ⟨op, file, text⟩ := d
      rw [hd] at h
      simp only [] at h
      split at h
      · cases h; rfl
      · cases auth with
        | none => cases h
        | some t =>
          simp only [] at h
          split at h
          · cases h
          · cases h; rfl
  · intro hok
    have := (buildRequest_ok_iff loc hs auth o u _).mpr ⟨hok, rfl⟩
    rw [h] at this; cases this

/-! ## property theorems on the composed command -/

/-- **the request, as a function of the command line.**  Whenever `introspect-schema` makes a request, for every
list of `--header` strings, every server behaviour and every initial state:
* every `--header` argument stands for a name/value pair (`HeaderOf`: split at the first colon, stripped), and
  the request carries **exactly those pairs, in the order of the arguments**, names lower-cased, after the two
  fixed headers and before `authorization: Bearer <token>`, which is present iff `--authorization` was given;
* it is a `POST` to the location given, the body is `{variables: null, query, operationName}` of the
  document the two flags select;
* exit status and file/stdout effects are those of `introspect` for that server behaviour. -/
theorem introspect_request_shape (a : IntrospectArgs) (beh : ServerBehaviour) (creatable : Bool) (w : World)
    (r : Request) (h : (introspectMain a beh creatable w).request = some r) :
    ∃ nvs, All2 HeaderOf a.headers nvs ∧ HttpOk nvs a.authorization ∧
      r.method = "POST" ∧ r.url = a.location ∧
      r.headers = [("content-type", "application/json"), ("accept", "application/json")] ++
        nvs.map (fun nv => (String.ofList (nv.1.toList.map Char.toLower), nv.2)) ++
        (match a.authorization with | some t => [("authorization", "Bearer " ++ t)] | none => []) ∧
      r.body = .obj [("variables", .null), ("query", .str (textOf a.isOneOf a.specifyByUrl)),
        ("operationName", .str (specOp a.isOneOf a.specifyByUrl))] ∧
      (introspectMain a beh creatable w).exit = (introspect beh a.output creatable w).1 ∧
      (introspectMain a beh creatable w).world = (introspect beh a.output creatable w).2 := by
  have hrun : ∀ hs r0, parseHeaderArgs a.headers = .ok hs →
      buildRequest a.location hs a.authorization a.isOneOf a.specifyByUrl = .ok r0 →
      introspectMain a beh creatable w =
        { exit := (introspect beh a.output creatable w).1, request := some r0,
          world := (introspect beh a.output creatable w).2 } := by
    intro hs r0 hp hb
    unfold introspectMain
    rw [hp]; simp only []; rw [hb]
  cases hp : parseHeaderArgs a.headers with
  | error e => simp [introspectMain, hp] at h
  | ok hs =>
    cases hb : buildRequest a.location hs a.authorization a.isOneOf a.specifyByUrl with
    | error e => simp [introspectMain, hp, hb] at h
    | ok r0 =>
      rw [hrun hs r0 hp hb] at h ⊢
      simp only [Option.some.injEq] at h
      subst h
      obtain ⟨hok, rfl⟩ := (buildRequest_ok_iff _ _ _ _ _ _).mp hb
      exact ⟨hs, (parseHeaderArgs_ok_iff _ _).mp hp, hok, rfl, rfl, rfl, rfl, rfl, rfl⟩

/-- the converse: the command line decides alone whether a request is made, and which one -/
theorem accepted_headers_request (a : IntrospectArgs) (beh : ServerBehaviour) (creatable : Bool) (w : World)
    (nvs : List (String × String)) (hacc : All2 HeaderOf a.headers nvs) (hok : HttpOk nvs a.authorization) :
    introspectMain a beh creatable w =
      { exit := (introspect beh a.output creatable w).1,
        request := some (wireRequest a.location nvs a.authorization a.isOneOf a.specifyByUrl),
        world := (introspect beh a.output creatable w).2 } := by
  unfold introspectMain
  rw [(parseHeaderArgs_ok_iff _ _).mpr hacc]
  simp only []
  rw [(buildRequest_ok_iff _ _ _ _ _ _).mpr ⟨hok, rfl⟩]

theorem introspect_sends_iff (a : IntrospectArgs) (beh : ServerBehaviour) (creatable : Bool) (w : World) :
    (introspectMain a beh creatable w).request.isSome = true ↔
      ∃ nvs, All2 HeaderOf a.headers nvs ∧ HttpOk nvs a.authorization := by
  constructor
  · intro h
    cases hr : (introspectMain a beh creatable w).request with
    | none => rw [hr] at h; cases h
    | some r =>
      obtain ⟨nvs, h1, h2, _⟩ := introspect_request_shape a beh creatable w r hr
      exact ⟨nvs, h1, h2⟩
  · rintro ⟨nvs, h1, h2⟩
    rw [accepted_headers_request a beh creatable w nvs h1 h2]; rfl

/-- **a refused `--header` sends nothing.**  If any `--header` argument is refused (no colon, empty name, white
space in the name — `Refused`), then for every server behaviour and every initial state the run ends with
clap's usage error (exit status 2) carrying the message of the **first** refused argument, **no request is
made**, and neither the `--output` file nor stdout is touched. -/
theorem refused_header_sends_nothing (a : IntrospectArgs) (beh : ServerBehaviour) (creatable : Bool) (w : World)
    (h : String) (hin : h ∈ a.headers) (hbad : Refused h.toList) :
    ∃ pre h0 post m, a.headers = pre ++ h0 :: post ∧ (∀ x ∈ pre, ¬ Refused x.toList) ∧ Refused h0.toList ∧
      parseHeader h0.toList = .error m ∧
      introspectMain a beh creatable w = { exit := .usage m, request := none, world := w } ∧
      (introspectMain a beh creatable w).exit.code = 2 := by
  obtain ⟨m0, hm0⟩ := (refused_iff h).1.mp hbad
  obtain ⟨m', hm'⟩ := refused_header_no_request a.headers h m0 hm0 hin
  obtain ⟨pre, h0, post, m, heq, hpre, hbad0, he⟩ := (parseHeaderArgs_error_iff _ _).mp hm'
  have hrun : introspectMain a beh creatable w = { exit := .usage m, request := none, world := w } := by
    unfold introspectMain; rw [hm', he]
  refine ⟨pre, h0, post, m, heq, ?_, (refused_iff h0).1.mpr ⟨m, hbad0⟩, hbad0, hrun, by rw [hrun]; rfl⟩
  intro x hx hr
  exact (refused_iff x).2.mp hr (hpre x hx)

/-- all arguments well-formed for clap, but `http` refuses a name, a value or the token: exit status 1
("builder error" out of `send()`), **no request**, nothing touched -/
theorem http_refused_sends_nothing (a : IntrospectArgs) (beh : ServerBehaviour) (creatable : Bool) (w : World)
    (nvs : List (String × String)) (hacc : All2 HeaderOf a.headers nvs) (hbad : ¬ HttpOk nvs a.authorization) :
    introspectMain a beh creatable w = { exit := .failure "builder error", request := none, world := w } := by
  unfold introspectMain
  rw [(parseHeaderArgs_ok_iff _ _).mpr hacc]
  simp only []
  cases hb : buildRequest a.location nvs a.authorization a.isOneOf a.specifyByUrl with
  | error e => rw [(buildRequest_error _ _ _ _ _ _ hb).1]
  | ok r => exact absurd ((buildRequest_ok_iff _ _ _ _ _ _).mp hb).1 hbad

/-- no request ⇒ nothing is touched and the exit status is 1 or 2 -/
theorem no_request_no_effect (a : IntrospectArgs) (beh : ServerBehaviour) (creatable : Bool) (w : World)
    (h : (introspectMain a beh creatable w).request = none) :
    (introspectMain a beh creatable w).world = w ∧
      ((introspectMain a beh creatable w).exit.code = 2 ∨ (introspectMain a beh creatable w).exit.code = 1) := by
  unfold introspectMain at h ⊢
  cases hp : parseHeaderArgs a.headers with
  | error e =>
    obtain ⟨_, _, _, m, _, _, _, rfl⟩ := (parseHeaderArgs_error_iff _ _).mp hp
    exact ⟨rfl, Or.inl rfl⟩
  | ok hs =>
    simp only [hp] at h ⊢
    cases hb : buildRequest a.location hs a.authorization a.isOneOf a.specifyByUrl with
    | error e => rw [(buildRequest_error _ _ _ _ _ _ hb).1]; exact ⟨rfl, Or.inr rfl⟩
    | ok r => simp [hb] at h

/-- **failure ⇒ nothing is touched**, on the composed command: whatever the arguments, the server and the
previous content of the file -/
theorem main_failure_touches_nothing (a : IntrospectArgs) (beh : ServerBehaviour) (creatable : Bool) (w : World)
    (h : (introspectMain a beh creatable w).exit ≠ .success) : (introspectMain a beh creatable w).world = w := by
  cases hr : (introspectMain a beh creatable w).request with
  | none => exact (no_request_no_effect a beh creatable w hr).1
  | some r =>
    obtain ⟨_, _, _, _, _, _, _, he, hw⟩ := introspect_request_shape a beh creatable w r hr
    rw [hw]; rw [he] at h
    exact out_file_safe beh a.output creatable w h

/-- success ⇔ well-formed arguments, a 2xx reply with a JSON body, and a creatable file -/
theorem main_success_iff (a : IntrospectArgs) (beh : ServerBehaviour) (creatable : Bool) (w : World) :
    (introspectMain a beh creatable w).exit = .success ↔
      (∃ nvs, All2 HeaderOf a.headers nvs ∧ HttpOk nvs a.authorization) ∧
      (∃ j, beh = .ok200Json j) ∧ (a.output = true → creatable = true) := by
  constructor
  · intro h
    cases hr : (introspectMain a beh creatable w).request with
    | none =>
      have := (no_request_no_effect a beh creatable w hr).2
      rw [h] at this; simp [Exit.code] at this
    | some r =>
      obtain ⟨nvs, h1, h2, _, _, _, _, he, _⟩ := introspect_request_shape a beh creatable w r hr
      rw [he] at h
      exact ⟨⟨nvs, h1, h2⟩, (success_iff beh a.output creatable w).mp h⟩
  · rintro ⟨⟨nvs, h1, h2⟩, hs⟩
    rw [accepted_headers_request a beh creatable w nvs h1 h2]
    exact (success_iff beh a.output creatable w).mpr hs

/-- success with `--output`: the file holds exactly the pretty-printed reply, stdout is untouched, and one
request was made -/
theorem main_output_written (a : IntrospectArgs) (j : Json) (w : World) (nvs : List (String × String))
    (hacc : All2 HeaderOf a.headers nvs) (hok : HttpOk nvs a.authorization) (hout : a.output = true) :
    (introspectMain a (.ok200Json j) true w).world = { file := some (pretty j), stdout := w.stdout } ∧
    (introspectMain a (.ok200Json j) true w).exit = .success ∧
    (introspectMain a (.ok200Json j) true w).request.isSome = true := by
  rw [accepted_headers_request a _ true w nvs hacc hok, hout, out_file_written]
  exact ⟨rfl, rfl, rfl⟩

/-! ### the hypotheses on a concrete command line -/

def exArgs : IntrospectArgs :=
  { location := "http://127.0.0.1:4000/graphql", output := true, authorization := some "tok",
    headers := [" X-Name :\tVal:ue ", "Accept-Language:de"], isOneOf := true, specifyByUrl := false }

/-- the request of `exArgs`, computed by the model -/
example : ((introspectMain exArgs (.status5xx "boom") true { file := some "old", stdout := "" }).request.map (·.headers)) =
    some [("content-type", "application/json"), ("accept", "application/json"), ("x-name", "Val:ue"),
      ("accept-language", "de"), ("authorization", "Bearer tok")] := by decide +kernel

example : All2 HeaderOf exArgs.headers [("X-Name", "Val:ue"), ("Accept-Language", "de")] := by
  rw [← parseHeaderArgs_ok_iff]; decide +kernel

example : HttpOk [("X-Name", "Val:ue"), ("Accept-Language", "de")] exArgs.authorization := by
  unfold HttpOk; constructor
  · decide +kernel
  · intro t h; cases h; decide +kernel

/-- one bad argument at the end is enough: nothing is sent although the two first arguments are fine -/
example :
    let r := introspectMain { exArgs with headers := exArgs.headers ++ ["X Name: v"] } (.ok200Json .null) true
      { file := some "old", stdout := "" }
    r.exit = .usage "Invalid header input. Whitespace not allowed in field name. [X Name: v]" ∧
      r.request.isNone = true ∧ r.world = { file := some "old", stdout := "" } := by decide +kernel

end C20C

/-! ## `pretty_parse_roundtrip`

`Model/Cli.lean` has the printer (`pretty` = `serde_json::to_string_pretty` of a `serde_json::Value`) but no reader of
JSON text.  To state "what is written is the reply, unchanged" on the *text*, a reader is defined here
(`JsonText.parseJson`, RFC 8259 without surrogate-pair escapes; integer tokens ↦ `Json.int`, other number tokens kept
as text) and `parseJson (pretty j) = some (canon j)` is proved for all `j`.  The reader is new (not tied to
`serde_json`'s parser by the harness): the theorem says the printed text is a JSON text that denotes exactly the
value printed — no member, element, character or digit is lost, merged or re-ordered by printing — under the
grammar written below.  That another JSON reader sees the same value is test-level. -/
namespace JsonText
open Cli

def indentChars (n : Nat) : List Char := List.replicate (2 * n) ' '

def quoteChars (s : String) : List Char := '"' :: (s.toList.flatMap escapeChar ++ ['"'])

mutual
  def prettyChars (ind : Nat) : Json → List Char
    | .null => ['n','u','l','l']
    | .bool b => if b then ['t','r','u','e'] else ['f','a','l','s','e']
    | .int n => (toString n).toList
    | .num t => t.toList
    | .str s => quoteChars s
    | .arr [] => ['[', ']']
    | .arr (x :: xs) => '[' :: '\n' :: (indentChars (ind + 1) ++ prettyChars (ind + 1) x ++ restChars (ind + 1) xs ++ '\n' :: (indentChars ind ++ [']']))
    | .obj [] => ['{', '}']
    | .obj ((k, v) :: kvs) =>
      '{' :: '\n' :: (indentChars (ind + 1) ++ quoteChars k ++ ':' :: ' ' :: (prettyChars (ind + 1) v ++ restKvsChars (ind + 1) kvs ++ '\n' :: (indentChars ind ++ ['}'])))
  def restChars (ind : Nat) : List Json → List Char
    | [] => []
    | x :: xs => ',' :: '\n' :: (indentChars ind ++ prettyChars ind x ++ restChars ind xs)
  def restKvsChars (ind : Nat) : List (String × Json) → List Char
    | [] => []
    | (k, v) :: kvs => ',' :: '\n' :: (indentChars ind ++ quoteChars k ++ ':' :: ' ' :: (prettyChars ind v ++ restKvsChars ind kvs))
end

theorem lit_toList :
    "[\n".toList = ['[', '\n'] ∧ "\n".toList = ['\n'] ∧ "]".toList = [']'] ∧ "{\n".toList = ['{', '\n'] ∧
    "}".toList = ['}'] ∧ ": ".toList = [':', ' '] ∧ ",\n".toList = [',', '\n'] ∧ "  ".toList = [' ', ' '] ∧
    "\"".toList = ['"'] ∧ "[]".toList = ['[', ']'] ∧ "{}".toList = ['{', '}'] ∧ "null".toList = ['n','u','l','l'] ∧
    "true".toList = ['t','r','u','e'] ∧ "false".toList = ['f','a','l','s','e'] := by decide

theorem indentStr_toList (n : Nat) : (indentStr n).toList = indentChars n := by
  induction n with
  | zero => rfl
  | succ n ih =>
    rw [indentStr, String.toList_append, ih, lit_toList.2.2.2.2.2.2.2.1]
    simp only [indentChars, Nat.mul_succ, List.replicate_succ, List.cons_append, List.nil_append]

theorem quoteJson_toList (s : String) : (quoteJson s).toList = quoteChars s := by
  simp [quoteJson, quoteChars, String.toList_append, String.toList_ofList, lit_toList]

mutual
  theorem prettyAt_toList (ind : Nat) : ∀ j : Json, (prettyAt ind j).toList = prettyChars ind j
    | .null => by simp [prettyAt, prettyChars, lit_toList]
    | .bool true => by simp [prettyAt, prettyChars, lit_toList]
    | .bool false => by simp [prettyAt, prettyChars, lit_toList]
    | .int n => by simp [prettyAt, prettyChars]
    | .num t => by simp [prettyAt, prettyChars]
    | .str s => by simp [prettyAt, prettyChars, quoteJson_toList]
    | .arr [] => by simp [prettyAt, prettyChars, lit_toList]
    | .arr (x :: xs) => by
      simp only [prettyAt, prettyChars, String.toList_append, indentStr_toList, prettyAt_toList (ind + 1) x,
        prettyRest_toList (ind + 1) xs, lit_toList]
      simp [List.append_assoc]
    | .obj [] => by simp [prettyAt, prettyChars, lit_toList]
    | .obj ((k, v) :: kvs) => by
      simp only [prettyAt, prettyChars, String.toList_append, indentStr_toList, prettyAt_toList (ind + 1) v,
        prettyRestKvs_toList (ind + 1) kvs, quoteJson_toList, lit_toList]
      simp [List.append_assoc]
  theorem prettyRest_toList (ind : Nat) : ∀ xs : List Json, (prettyRest ind xs).toList = restChars ind xs
    | [] => by simp [prettyRest, restChars]
    | x :: xs => by
      simp only [prettyRest, restChars, String.toList_append, indentStr_toList, prettyAt_toList ind x,
        prettyRest_toList ind xs, lit_toList]
      simp [List.append_assoc]
  theorem prettyRestKvs_toList (ind : Nat) : ∀ kvs : List (String × Json), (prettyRestKvs ind kvs).toList = restKvsChars ind kvs
    | [] => by simp [prettyRestKvs, restKvsChars]
    | (k, v) :: kvs => by
      simp only [prettyRestKvs, restKvsChars, String.toList_append, indentStr_toList, prettyAt_toList ind v,
        prettyRestKvs_toList ind kvs, quoteJson_toList, lit_toList]
      simp [List.append_assoc]
end

/-! ### a reader for JSON text (RFC 8259 subset: no surrogate escapes) -/

def isWs (c : Char) : Bool := c = ' ' || c = '\n' || c = '\r' || c = '\t'

def skipWs : List Char → List Char
  | [] => []
  | c :: cs => if isWs c then skipWs cs else c :: cs

def hexVal (c : Char) : Option Nat :=
  if 48 ≤ c.toNat ∧ c.toNat ≤ 57 then some (c.toNat - 48)
  else if 97 ≤ c.toNat ∧ c.toNat ≤ 102 then some (c.toNat - 87)
  else if 65 ≤ c.toNat ∧ c.toNat ≤ 70 then some (c.toNat - 55)
  else none

/-- `\uXXXX` (surrogates are not supported: `none`) -/
def hex4 (a b c d : Char) : Option Char :=
  match hexVal a, hexVal b, hexVal c, hexVal d with
  | some x, some y, some z, some w =>
    let v := ((x * 16 + y) * 16 + z) * 16 + w
    if 0xD800 ≤ v ∧ v ≤ 0xDFFF then none else some (Char.ofNat v)
  | _, _, _, _ => none

/-- the two-character escapes -/
def unescape1 (e : Char) : Option Char :=
  if e = '"' then some '"' else if e = '\\' then some '\\' else if e = '/' then some '/'
  else if e = 'b' then some (Char.ofNat 8) else if e = 'f' then some (Char.ofNat 12)
  else if e = 'n' then some '\n' else if e = 'r' then some '\r' else if e = 't' then some '\t' else none

/-- the body of a string after the opening quote: (content, text after the closing quote) -/
def readString : List Char → List Char → Option (List Char × List Char)
  | [], _ => none
  | c :: rest, acc =>
    if c = '"' then some (acc.reverse, rest)
    else if c = '\\' then
      match rest with
      | [] => none
      | e :: r =>
        if e = 'u' then
          match r with
          | a :: b :: c' :: d :: r' =>
            match hex4 a b c' d with
            | some v => readString r' (v :: acc)
            | none => none
          | _ => none
        else
          match unescape1 e with
          | some x => readString r (x :: acc)
          | none => none
    else if c.toNat < 32 then none
    else readString rest (c :: acc)

theorem hex_low : ∀ a, a < 2 → ∀ b, b < 16 →
    hex4 '0' '0' (hexDigit a) (hexDigit b) = some (Char.ofNat (a * 16 + b)) := by decide

theorem readString_cons_plain (c : Char) (rest acc : List Char) (h1 : c ≠ '"') (h2 : c ≠ '\\') (h3 : ¬ c.toNat < 32) :
    readString (c :: rest) acc = readString rest (c :: acc) := by
  rw [readString.eq_def]; simp [h1, h2, h3]

theorem readString_esc1 (e x : Char) (rest acc : List Char) (hu : e ≠ 'u') (hx : unescape1 e = some x) :
    readString ('\\' :: e :: rest) acc = readString rest (x :: acc) := by
  rw [readString.eq_def]; simp [hu, hx]

/-- one printed character is read back as itself -/
theorem readString_escape (c : Char) (rest acc : List Char) :
    readString (escapeChar c ++ rest) acc = readString rest (c :: acc) := by
  have hc : c = Char.ofNat c.toNat := (Char.ofNat_toNat c).symm
  unfold escapeChar
  by_cases h1 : c = '"'
  · subst h1; exact readString_esc1 '"' '"' rest acc (by decide) (by decide)
  rw [if_neg h1]
  by_cases h2 : c = '\\'
  · subst h2; exact readString_esc1 '\\' '\\' rest acc (by decide) (by decide)
  rw [if_neg h2]
  by_cases h3 : c.toNat = 8
  · rw [if_pos h3, hc, h3]; exact readString_esc1 'b' _ rest acc (by decide) (by decide)
  rw [if_neg h3]
  by_cases h4 : c.toNat = 9
  · rw [if_pos h4, hc, h4]; exact readString_esc1 't' _ rest acc (by decide) (by decide)
  rw [if_neg h4]
  by_cases h5 : c.toNat = 10
  · rw [if_pos h5, hc, h5]; exact readString_esc1 'n' _ rest acc (by decide) (by decide)
  rw [if_neg h5]
  by_cases h6 : c.toNat = 12
  · rw [if_pos h6, hc, h6]; exact readString_esc1 'f' _ rest acc (by decide) (by decide)
  rw [if_neg h6]
  by_cases h7 : c.toNat = 13
  · rw [if_pos h7, hc, h7]; exact readString_esc1 'r' _ rest acc (by decide) (by decide)
  rw [if_neg h7]
  by_cases h8 : c.toNat < 32
  · rw [if_pos h8]
    have hh := hex_low (c.toNat / 16) (by omega) (c.toNat % 16) (Nat.mod_lt _ (by decide))
    have hv : c.toNat / 16 * 16 + c.toNat % 16 = c.toNat := by omega
    rw [hv, Char.ofNat_toNat] at hh
    simp only [List.cons_append, List.nil_append]
    rw [readString.eq_def]
    simp [hh]
  · rw [if_neg h8]
    exact readString_cons_plain c rest acc h1 h2 h8

theorem readString_escaped (s rest acc : List Char) :
    readString (s.flatMap escapeChar ++ '"' :: rest) acc = some (acc.reverse ++ s, rest) := by
  induction s generalizing acc with
  | nil => rw [List.flatMap_nil, List.nil_append, readString.eq_def]; simp
  | cons c cs ih =>
    rw [List.flatMap_cons, List.append_assoc, readString_escape, ih]
    simp

/-- a printed string (with its quotes) is read back -/
theorem readString_quote (s : String) (rest : List Char) :
    ∃ body, quoteChars s ++ rest = '"' :: body ∧ readString body [] = some (s.toList, rest) := by
  refine ⟨s.toList.flatMap escapeChar ++ '"' :: rest, by simp [quoteChars], ?_⟩
  rw [readString_escaped]; simp

/-! #### numbers -/

/-- the characters a JSON number is made of -/
def numChar (c : Char) : Bool := c.isDigit || c = '-' || c = '+' || c = '.' || c = 'e' || c = 'E'

/-- a canonical decimal numeral (no sign, no leading zero): it is the numeral its own value prints as -/
def natOfTok (ds : List Char) : Option Nat :=
  if Nat.toDigits 10 (Nat.ofDigitChars 10 ds 0) = ds then some (Nat.ofDigitChars 10 ds 0) else none

/-- an integer token: a canonical numeral, or `-` and a canonical non-zero numeral -/
def intOfTok (tok : List Char) : Option Int :=
  if tok.head? = some '-' then
    match natOfTok tok.tail with
    | some n => if n = 0 then none else some (Int.negSucc (n - 1))
    | none => none
  else (natOfTok tok).map Int.ofNat

def digits1 (l : List Char) : Bool := !l.isEmpty && l.all Char.isDigit

/-- the RFC 8259 `number` grammar: `-? int frac? exp?` -/
def numberGrammar (tok : List Char) : Bool :=
  let body := if tok.head? = some '-' then tok.tail else tok
  let mant := body.takeWhile fun c => !(c = 'e' || c = 'E')
  let exp := body.dropWhile fun c => !(c = 'e' || c = 'E')
  let ip := mant.takeWhile (· ≠ '.')
  let fp := mant.dropWhile (· ≠ '.')
  (ip = ['0'] || (digits1 ip && ip.head? ≠ some '0')) && (fp.isEmpty || digits1 fp.tail) &&
  (exp.isEmpty || digits1 (if exp.tail.head? = some '+' ∨ exp.tail.head? = some '-' then exp.tail.tail else exp.tail))

/-- a number token that is kept as text (`Json.num`): grammatical, and not an integer token -/
def numTok (tok : List Char) : Bool :=
  !tok.isEmpty && tok.all numChar && numberGrammar tok && (intOfTok tok).isNone

def readNumber (inp : List Char) : Option (Json × List Char) :=
  let tok := inp.takeWhile numChar
  let rest := inp.dropWhile numChar
  match intOfTok tok with
  | some n => some (.int n, rest)
  | none => if numTok tok then some (.num (String.ofList tok), rest) else none

/-- what may follow a value: nothing, or a character that ends a number -/
def Delim (rest : List Char) : Prop := ∀ c, rest.head? = some c → numChar c = false

theorem takeWhile_append_of (p : Char → Bool) (l r : List Char) (hl : ∀ c ∈ l, p c = true)
    (hr : ∀ c, r.head? = some c → p c = false) : (l ++ r).takeWhile p = l ∧ (l ++ r).dropWhile p = r := by
  induction l with
  | nil =>
    cases r with
    | nil => simp
    | cons x xs => simp [hr x rfl]
  | cons c cs ih =>
    have hc : p c = true := hl c (by simp)
    have := ih (fun x hx => hl x (by simp [hx]))
    simp [hc, this.1, this.2]

theorem toDigits_numChar (n : Nat) : ∀ c ∈ Nat.toDigits 10 n, numChar c = true := by
  intro c hc
  have := Nat.isDigit_of_mem_toDigits (by decide) (by decide) hc
  simp [numChar, this]

theorem natOfTok_toDigits (n : Nat) : natOfTok (Nat.toDigits 10 n) = some n := by
  simp [natOfTok, Nat.ofDigitChars_ten_toDigits]

theorem toDigits_head_ne_minus (n : Nat) : (Nat.toDigits 10 n).head? ≠ some '-' := by
  intro h
  cases hd : Nat.toDigits 10 n with
  | nil => rw [hd] at h; cases h
  | cons c cs =>
    rw [hd] at h
    simp only [List.head?_cons, Option.some.injEq] at h
    have : c ∈ Nat.toDigits 10 n := by rw [hd]; simp
    have := Nat.isDigit_of_mem_toDigits (by decide) (by decide) this
    rw [h] at this
    exact absurd this (by decide)

theorem int_toList (n : Int) :
    (∀ c ∈ (toString n).toList, numChar c = true) ∧ intOfTok (toString n).toList = some n ∧ (toString n).toList ≠ [] := by
  rw [Int.toString_eq_repr]
  cases n with
  | ofNat m =>
    have h : (Int.ofNat m).repr.toList = Nat.toDigits 10 m := by
      show m.repr.toList = _
      exact Nat.toList_repr
    rw [h]
    refine ⟨toDigits_numChar m, ?_, Nat.toDigits_ne_nil⟩
    simp [intOfTok, toDigits_head_ne_minus, natOfTok_toDigits]
  | negSucc m =>
    have h : (Int.negSucc m).repr.toList = '-' :: Nat.toDigits 10 (m + 1) := by
      show ("-" ++ (m + 1).repr).toList = _
      rw [String.toList_append, Nat.toList_repr]; rfl
    rw [h]
    refine ⟨?_, ?_, by simp⟩
    · intro c hc
      simp only [List.mem_cons] at hc
      rcases hc with rfl | hc
      · decide
      · exact toDigits_numChar _ c hc
    · simp [intOfTok, natOfTok_toDigits]

theorem readNumber_int (n : Int) (rest : List Char) (hr : Delim rest) :
    readNumber ((toString n).toList ++ rest) = some (.int n, rest) := by
  obtain ⟨h1, h2, _⟩ := int_toList n
  have := takeWhile_append_of numChar _ rest h1 hr
  simp only [readNumber, this.1, this.2, h2]

theorem readNumber_num (t : String) (rest : List Char) (ht : numTok t.toList = true) (hr : Delim rest) :
    readNumber (t.toList ++ rest) = some (.num t, rest) := by
  have ht' := ht
  simp only [numTok, Bool.and_eq_true, List.all_eq_true, Option.isNone_iff_eq_none] at ht'
  obtain ⟨⟨⟨_, hall⟩, _⟩, hnone⟩ := ht'
  have := takeWhile_append_of numChar _ rest hall hr
  simp only [readNumber, this.1, this.2, hnone, ht, String.ofList_toList, if_true]

/-! #### values -/

mutual
  /-- one JSON value at the head of the input (no leading white space): (value, remaining text) -/
  def readValue : Nat → List Char → Option (Json × List Char)
    | 0, _ => none
    | _ + 1, [] => none
    | fuel + 1, c :: cs =>
      if c = 'n' then (if cs.take 3 = ['u', 'l', 'l'] then some (.null, cs.drop 3) else none)
      else if c = 't' then (if cs.take 3 = ['r', 'u', 'e'] then some (.bool true, cs.drop 3) else none)
      else if c = 'f' then (if cs.take 4 = ['a', 'l', 's', 'e'] then some (.bool false, cs.drop 4) else none)
      else if c = '"' then
        match readString cs [] with
        | some (s, r) => some (.str (String.ofList s), r)
        | none => none
      else if c = '[' then
        if (skipWs cs).head? = some ']' then some (.arr [], (skipWs cs).tail)
        else match readElems fuel (skipWs cs) with
          | some (xs, r) => some (.arr xs, r)
          | none => none
      else if c = '{' then
        if (skipWs cs).head? = some '}' then some (.obj [], (skipWs cs).tail)
        else match readMembers fuel (skipWs cs) with
          | some (kvs, r) => some (.obj kvs, r)
          | none => none
      else readNumber (c :: cs)
  /-- `value (ws , ws value)* ws ]` -/
  def readElems : Nat → List Char → Option (List Json × List Char)
    | 0, _ => none
    | fuel + 1, inp =>
      match readValue fuel inp with
      | none => none
      | some (x, r) =>
        if (skipWs r).head? = some ',' then
          match readElems fuel (skipWs (skipWs r).tail) with
          | some (xs, r') => some (x :: xs, r')
          | none => none
        else if (skipWs r).head? = some ']' then some ([x], (skipWs r).tail)
        else none
  /-- `string ws : ws value (ws , ws string ws : ws value)* ws }` -/
  def readMembers : Nat → List Char → Option (List (String × Json) × List Char)
    | 0, _ => none
    | fuel + 1, inp =>
      if inp.head? = some '"' then
        match readString inp.tail [] with
        | none => none
        | some (k, r) =>
          if (skipWs r).head? = some ':' then
            match readValue fuel (skipWs (skipWs r).tail) with
            | none => none
            | some (v, r') =>
              if (skipWs r').head? = some ',' then
                match readMembers fuel (skipWs (skipWs r').tail) with
                | some (kvs, r'') => some ((String.ofList k, v) :: kvs, r'')
                | none => none
              else if (skipWs r').head? = some '}' then some ([(String.ofList k, v)], (skipWs r').tail)
              else none
          else none
      else none
end

/-- **reading a JSON text**: white space, one value, white space, end of input.  Integer tokens become `Json.int`,
other number tokens are kept as text; object members are kept in the order written. -/
def parseJson (s : String) : Option Json :=
  match readValue (s.length + 1) (skipWs s.toList) with
  | some (j, r) => if skipWs r = [] then some j else none
  | none => none

/-! #### reading back what `prettyAt` prints -/

mutual
  /-- every `Json.num` token of the value is a number token that is kept as text -/
  def numOk : Json → Bool
    | .num t => numTok t.toList
    | .arr xs => numOkList xs
    | .obj kvs => numOkKvs kvs
    | _ => true
  def numOkList : List Json → Bool
    | [] => true
    | x :: xs => numOk x && numOkList xs
  def numOkKvs : List (String × Json) → Bool
    | [] => true
    | (_, v) :: kvs => numOk v && numOkKvs kvs
end

mutual
  def jsize : Json → Nat
    | .arr xs => jsizeList xs + 1
    | .obj kvs => jsizeKvs kvs + 1
    | _ => 1
  def jsizeList : List Json → Nat
    | [] => 0
    | x :: xs => jsize x + 1 + jsizeList xs
  def jsizeKvs : List (String × Json) → Nat
    | [] => 0
    | (_, v) :: kvs => jsize v + 1 + jsizeKvs kvs
end

def elemsChars (ind : Nat) : List Json → List Char
  | [] => []
  | x :: xs => prettyChars ind x ++ restChars ind xs

def membersChars (ind : Nat) : List (String × Json) → List Char
  | [] => []
  | (k, v) :: kvs => quoteChars k ++ ':' :: ' ' :: (prettyChars ind v ++ restKvsChars ind kvs)

theorem skipWs_of_head (r : List Char) (h : ∀ c, r.head? = some c → isWs c = false) : skipWs r = r := by
  cases r with
  | nil => rfl
  | cons c cs => simp [skipWs, h c rfl]

theorem skipWs_append_ws (ws r : List Char) (h : ∀ c ∈ ws, isWs c = true) : skipWs (ws ++ r) = skipWs r := by
  induction ws with
  | nil => rfl
  | cons c cs ih =>
    simp only [List.cons_append, skipWs, h c (by simp), ↓reduceIte]
    exact ih (fun x hx => h x (by simp [hx]))

theorem indent_ws (n : Nat) : ∀ c ∈ indentChars n, isWs c = true := by
  intro c hc
  have := List.eq_of_mem_replicate hc
  subst this; rfl

/-- the text starts with a character that is neither white space nor a closing bracket -/
def Starts (l : List Char) : Prop := ∃ c cs, l = c :: cs ∧ isWs c = false ∧ c ≠ ']' ∧ c ≠ '}'

theorem Starts.skipWs {l : List Char} (h : Starts l) : skipWs l = l := by
  obtain ⟨c, cs, rfl, hw, _⟩ := h
  exact skipWs_of_head _ (fun x hx => by simp at hx; subst hx; exact hw)

theorem numChar_props (c : Char) (h : numChar c = true) :
    isWs c = false ∧ c ≠ ']' ∧ c ≠ '}' ∧ c ≠ 'n' ∧ c ≠ 't' ∧ c ≠ 'f' ∧ c ≠ '"' ∧ c ≠ '[' ∧ c ≠ '{' := by
  refine ⟨?_, ?_, ?_, ?_, ?_, ?_, ?_, ?_, ?_⟩
  · cases hw : isWs c with
    | false => rfl
    | true =>
      simp only [isWs, Bool.or_eq_true, decide_eq_true_eq] at hw
      rcases hw with ((rfl | rfl) | rfl) | rfl <;> exact absurd h (by decide)
  all_goals (rintro rfl; exact absurd h (by decide))

theorem starts_of_numChars (tok rest : List Char) (hne : tok ≠ []) (hall : ∀ c ∈ tok, numChar c = true) :
    Starts (tok ++ rest) := by
  cases tok with
  | nil => exact absurd rfl hne
  | cons c cs =>
    have := numChar_props c (hall c (by simp))
    exact ⟨c, cs ++ rest, rfl, this.1, this.2.1, this.2.2.1⟩

theorem prettyChars_starts (ind : Nat) (j : Json) (rest : List Char) (h : numOk j = true) :
    Starts (prettyChars ind j ++ rest) := by
  cases j with
  | null => exact ⟨'n', _, rfl, by decide, by decide, by decide⟩
  | bool b => cases b <;> exact ⟨_, _, rfl, by decide, by decide, by decide⟩
  | int n =>
    obtain ⟨h1, _, h3⟩ := int_toList n
    exact starts_of_numChars _ rest h3 h1
  | num t =>
    simp only [numOk, numTok, Bool.and_eq_true, List.all_eq_true, Bool.not_eq_true', List.isEmpty_eq_false_iff] at h
    exact starts_of_numChars _ rest h.1.1.1 h.1.1.2
  | str s => exact ⟨'"', _, rfl, by decide, by decide, by decide⟩
  | arr xs => cases xs <;> exact ⟨'[', _, rfl, by decide, by decide, by decide⟩
  | obj kvs =>
    cases kvs with
    | nil => exact ⟨'{', _, rfl, by decide, by decide, by decide⟩
    | cons kv kvs => obtain ⟨k, v⟩ := kv; exact ⟨'{', _, rfl, by decide, by decide, by decide⟩

theorem delim_cons (c : Char) (r : List Char) (h : numChar c = false) : Delim (c :: r) := by
  intro x hx; simp at hx; subst hx; exact h

theorem readValue_number (fuel : Nat) (tok rest : List Char) (hne : tok ≠ []) (hall : ∀ c ∈ tok, numChar c = true) :
    readValue (fuel + 1) (tok ++ rest) = readNumber (tok ++ rest) := by
  cases tok with
  | nil => exact absurd rfl hne
  | cons c cs =>
    obtain ⟨_, _, _, h1, h2, h3, h4, h5, h6⟩ := numChar_props c (hall c (by simp))
    rw [List.cons_append, readValue]
    simp only [h1, h2, h3, h4, h5, h6, ↓reduceIte]

theorem not_numChar_nl : numChar '\n' = false := by decide
theorem not_numChar_comma : numChar ',' = false := by decide

mutual
  theorem readValue_pretty : ∀ (j : Json) (ind fuel : Nat) (rest : List Char), numOk j = true → jsize j ≤ fuel →
      Delim rest → readValue fuel (prettyChars ind j ++ rest) = some (j, rest)
    | .null, ind, fuel, rest, _, hf, _ => by
      obtain ⟨f, rfl⟩ : ∃ f, fuel = f + 1 := ⟨fuel - 1, by simp only [jsize] at hf; omega⟩
      simp [prettyChars, readValue]
    | .bool b, ind, fuel, rest, _, hf, _ => by
      obtain ⟨f, rfl⟩ : ∃ f, fuel = f + 1 := ⟨fuel - 1, by simp only [jsize] at hf; omega⟩
      cases b <;> simp [prettyChars, readValue]
    | .int n, ind, fuel, rest, _, hf, hr => by
      obtain ⟨f, rfl⟩ : ∃ f, fuel = f + 1 := ⟨fuel - 1, by simp only [jsize] at hf; omega⟩
      obtain ⟨h1, _, h3⟩ := int_toList n
      simp only [prettyChars]
      rw [readValue_number f _ rest h3 h1, readNumber_int n rest hr]
    | .num t, ind, fuel, rest, hn, hf, hr => by
      obtain ⟨f, rfl⟩ : ∃ f, fuel = f + 1 := ⟨fuel - 1, by simp only [jsize] at hf; omega⟩
      have hn' : numTok t.toList = true := by simpa [numOk] using hn
      have hn2 := hn'
      simp only [numTok, Bool.and_eq_true, List.all_eq_true, Bool.not_eq_true', List.isEmpty_eq_false_iff] at hn2
      simp only [prettyChars]
      rw [readValue_number f _ rest hn2.1.1.1 hn2.1.1.2, readNumber_num t rest hn' hr]
    | .str s, ind, fuel, rest, _, hf, _ => by
      obtain ⟨f, rfl⟩ : ∃ f, fuel = f + 1 := ⟨fuel - 1, by simp only [jsize] at hf; omega⟩
      obtain ⟨body, hb, hread⟩ := readString_quote s rest
      simp only [prettyChars]
      rw [hb, readValue]
      simp [hread, String.ofList_toList]
    | .arr [], ind, fuel, rest, _, hf, _ => by
      obtain ⟨f, rfl⟩ : ∃ f, fuel = f + 1 := ⟨fuel - 1, by simp only [jsize] at hf; omega⟩
      simp [prettyChars, readValue, skipWs, isWs]
    | .arr (x :: xs), ind, fuel, rest, hn, hf, _ => by
      obtain ⟨f, rfl⟩ : ∃ f, fuel = f + 1 := ⟨fuel - 1, by simp only [jsize] at hf; omega⟩
      have hform : prettyChars ind (.arr (x :: xs)) ++ rest =
          '[' :: (('\n' :: indentChars (ind + 1)) ++ (elemsChars (ind + 1) (x :: xs) ++ '\n' :: (indentChars ind ++ ']' :: rest))) := by
        simp [prettyChars, elemsChars, List.append_assoc]
      have hws : ∀ c ∈ '\n' :: indentChars (ind + 1), isWs c = true := by
        intro c hc
        simp only [List.mem_cons] at hc
        rcases hc with rfl | hc
        · rfl
        · exact indent_ws _ c hc
      have hnx : numOk x = true ∧ numOkList xs = true := by simpa [numOk, numOkList] using hn
      have hst : Starts (elemsChars (ind + 1) (x :: xs) ++ '\n' :: (indentChars ind ++ ']' :: rest)) := by
        simp only [elemsChars, List.append_assoc]
        exact prettyChars_starts _ x _ hnx.1
      have hne : (elemsChars (ind + 1) (x :: xs) ++ '\n' :: (indentChars ind ++ ']' :: rest)).head? ≠ some ']' := by
        obtain ⟨c, cs, hc, _, h2, _⟩ := hst
        rw [hc]; simpa using h2
      rw [hform, readValue]
      simp only [show ('[' : Char) ≠ 'n' by decide, show ('[' : Char) ≠ 't' by decide, show ('[' : Char) ≠ 'f' by decide,
        show ('[' : Char) ≠ '"' by decide, ↓reduceIte]
      rw [skipWs_append_ws _ _ hws, hst.skipWs, if_neg hne,
        readElems_pretty (x :: xs) (ind + 1) f (indentChars ind) rest (by simp) hn
          (by simp only [jsize] at hf; omega) (indent_ws ind)]
    | .obj [], ind, fuel, rest, _, hf, _ => by
      obtain ⟨f, rfl⟩ : ∃ f, fuel = f + 1 := ⟨fuel - 1, by simp only [jsize] at hf; omega⟩
      simp [prettyChars, readValue, skipWs, isWs]
    | .obj ((k, v) :: kvs), ind, fuel, rest, hn, hf, _ => by
      obtain ⟨f, rfl⟩ : ∃ f, fuel = f + 1 := ⟨fuel - 1, by simp only [jsize] at hf; omega⟩
      have hform : prettyChars ind (.obj ((k, v) :: kvs)) ++ rest =
          '{' :: (('\n' :: indentChars (ind + 1)) ++ (membersChars (ind + 1) ((k, v) :: kvs) ++ '\n' :: (indentChars ind ++ '}' :: rest))) := by
        simp [prettyChars, membersChars, List.append_assoc]
      have hws : ∀ c ∈ '\n' :: indentChars (ind + 1), isWs c = true := by
        intro c hc
        simp only [List.mem_cons] at hc
        rcases hc with rfl | hc
        · rfl
        · exact indent_ws _ c hc
      have hst : Starts (membersChars (ind + 1) ((k, v) :: kvs) ++ '\n' :: (indentChars ind ++ '}' :: rest)) :=
        ⟨'"', _, rfl, by decide, by decide, by decide⟩
      have hne : (membersChars (ind + 1) ((k, v) :: kvs) ++ '\n' :: (indentChars ind ++ '}' :: rest)).head? ≠ some '}' := by
        simp [membersChars, quoteChars]
      rw [hform, readValue]
      simp only [show ('{' : Char) ≠ 'n' by decide, show ('{' : Char) ≠ 't' by decide, show ('{' : Char) ≠ 'f' by decide,
        show ('{' : Char) ≠ '"' by decide, show ('{' : Char) ≠ '[' by decide, ↓reduceIte]
      rw [skipWs_append_ws _ _ hws, hst.skipWs, if_neg hne,
        readMembers_pretty ((k, v) :: kvs) (ind + 1) f (indentChars ind) rest (by simp) hn
          (by simp only [jsize] at hf; omega) (indent_ws ind)]
  theorem readElems_pretty : ∀ (l : List Json) (ind fuel : Nat) (ws rest : List Char), l ≠ [] → numOkList l = true →
      jsizeList l ≤ fuel → (∀ c ∈ ws, isWs c = true) →
      readElems fuel (elemsChars ind l ++ '\n' :: (ws ++ ']' :: rest)) = some (l, rest)
    | [], _, _, _, _, h, _, _, _ => absurd rfl h
    | [x], ind, fuel, ws, rest, _, hn, hf, hws => by
      obtain ⟨f, rfl⟩ : ∃ f, fuel = f + 1 := ⟨fuel - 1, by simp only [jsizeList] at hf; omega⟩
      have hnx : numOk x = true := by simpa [numOkList] using hn
      have hws' : ∀ c ∈ '\n' :: ws, isWs c = true := by
        intro c hc
        simp only [List.mem_cons] at hc
        rcases hc with rfl | hc
        · rfl
        · exact hws c hc
      have hsk : skipWs ('\n' :: (ws ++ ']' :: rest)) = ']' :: rest := by
        have := skipWs_append_ws ('\n' :: ws) (']' :: rest) hws'
        rw [List.cons_append] at this
        rw [this]; simp [skipWs, isWs]
      simp only [elemsChars, restChars, List.append_nil]
      rw [readElems, readValue_pretty x ind f _ hnx (by simp only [jsizeList] at hf; omega)
        (delim_cons _ _ not_numChar_nl)]
      simp [hsk]
    | x :: y :: ys, ind, fuel, ws, rest, _, hn, hf, hws => by
      obtain ⟨f, rfl⟩ : ∃ f, fuel = f + 1 := ⟨fuel - 1, by simp only [jsizeList] at hf; omega⟩
      have hnx : numOk x = true ∧ numOkList (y :: ys) = true := by simpa [numOkList] using hn
      have hform : elemsChars ind (x :: y :: ys) ++ '\n' :: (ws ++ ']' :: rest) =
          prettyChars ind x ++ (',' :: (('\n' :: indentChars ind) ++ (elemsChars ind (y :: ys) ++ '\n' :: (ws ++ ']' :: rest)))) := by
        simp [elemsChars, restChars, List.append_assoc]
      have hwsi : ∀ c ∈ '\n' :: indentChars ind, isWs c = true := by
        intro c hc
        simp only [List.mem_cons] at hc
        rcases hc with rfl | hc
        · rfl
        · exact indent_ws _ c hc
      have hst : Starts (elemsChars ind (y :: ys) ++ '\n' :: (ws ++ ']' :: rest)) := by
        simp only [elemsChars, List.append_assoc]
        exact prettyChars_starts _ y _ (by have := hnx.2; simp only [numOkList, Bool.and_eq_true] at this; exact this.1)
      rw [hform, readElems, readValue_pretty x ind f _ hnx.1 (by simp only [jsizeList] at hf ⊢; omega)
        (delim_cons _ _ not_numChar_comma)]
      simp only [skipWs, show isWs ',' = false by decide, Bool.false_eq_true, ↓reduceIte, List.head?_cons, List.tail_cons]
      rw [skipWs_append_ws _ _ hwsi, hst.skipWs,
        readElems_pretty (y :: ys) ind f ws rest (by simp) hnx.2 (by simp only [jsizeList] at hf ⊢; omega) hws]
  theorem readMembers_pretty : ∀ (l : List (String × Json)) (ind fuel : Nat) (ws rest : List Char), l ≠ [] →
      numOk (.obj l) = true → jsizeKvs l ≤ fuel → (∀ c ∈ ws, isWs c = true) →
      readMembers fuel (membersChars ind l ++ '\n' :: (ws ++ '}' :: rest)) = some (l, rest)
    | [], _, _, _, _, h, _, _, _ => absurd rfl h
    | [(k, v)], ind, fuel, ws, rest, _, hn, hf, hws => by
      obtain ⟨f, rfl⟩ : ∃ f, fuel = f + 1 := ⟨fuel - 1, by simp only [jsizeKvs] at hf; omega⟩
      have hnv : numOk v = true := by simpa [numOk, numOkKvs] using hn
      obtain ⟨body, hb, hread⟩ := readString_quote k
        (':' :: ' ' :: (prettyChars ind v ++ '\n' :: (ws ++ '}' :: rest)))
      have hws' : ∀ c ∈ '\n' :: ws, isWs c = true := by
        intro c hc
        simp only [List.mem_cons] at hc
        rcases hc with rfl | hc
        · rfl
        · exact hws c hc
      have hsk : skipWs ('\n' :: (ws ++ '}' :: rest)) = '}' :: rest := by
        have := skipWs_append_ws ('\n' :: ws) ('}' :: rest) hws'
        rw [List.cons_append] at this
        rw [this]; simp [skipWs, isWs]
      have hform : membersChars ind [(k, v)] ++ '\n' :: (ws ++ '}' :: rest) = '"' :: body := by
        rw [← hb]; simp [membersChars, restKvsChars, List.append_assoc]
      have hst := prettyChars_starts ind v ('\n' :: (ws ++ '}' :: rest)) hnv
      rw [hform, readMembers]
      simp only [List.head?_cons, List.tail_cons, ↓reduceIte, hread]
      simp only [skipWs, show isWs ':' = false by decide, show isWs ' ' = true by decide, Bool.false_eq_true,
        ↓reduceIte, List.head?_cons, List.tail_cons]
      rw [hst.skipWs, readValue_pretty v ind f _ hnv (by simp only [jsizeKvs] at hf; omega)
        (delim_cons _ _ not_numChar_nl)]
      simp [hsk, String.ofList_toList]
    | (k, v) :: (k2, v2) :: kvs, ind, fuel, ws, rest, _, hn, hf, hws => by
      obtain ⟨f, rfl⟩ : ∃ f, fuel = f + 1 := ⟨fuel - 1, by simp only [jsizeKvs] at hf; omega⟩
      have hnv : numOk v = true ∧ numOk (.obj ((k2, v2) :: kvs)) = true := by
        simpa [numOk, numOkKvs] using hn
      let tailText := membersChars ind ((k2, v2) :: kvs) ++ '\n' :: (ws ++ '}' :: rest)
      obtain ⟨body, hb, hread⟩ := readString_quote k
        (':' :: ' ' :: (prettyChars ind v ++ (',' :: (('\n' :: indentChars ind) ++ tailText))))
      have hform : membersChars ind ((k, v) :: (k2, v2) :: kvs) ++ '\n' :: (ws ++ '}' :: rest) = '"' :: body := by
        rw [← hb]; simp [membersChars, restKvsChars, tailText, List.append_assoc]
      have hwsi : ∀ c ∈ '\n' :: indentChars ind, isWs c = true := by
        intro c hc
        simp only [List.mem_cons] at hc
        rcases hc with rfl | hc
        · rfl
        · exact indent_ws _ c hc
      have hst := prettyChars_starts ind v (',' :: (('\n' :: indentChars ind) ++ tailText)) hnv.1
      have hst2 : Starts tailText := ⟨'"', _, rfl, by decide, by decide, by decide⟩
      rw [hform, readMembers]
      simp only [List.head?_cons, List.tail_cons, ↓reduceIte, hread]
      simp only [skipWs, show isWs ':' = false by decide, show isWs ' ' = true by decide, Bool.false_eq_true,
        ↓reduceIte, List.head?_cons, List.tail_cons]
      rw [hst.skipWs, readValue_pretty v ind f _ hnv.1 (by simp only [jsizeKvs] at hf ⊢; omega)
        (delim_cons _ _ not_numChar_comma)]
      simp only [skipWs, show isWs ',' = false by decide, Bool.false_eq_true, ↓reduceIte, List.head?_cons, List.tail_cons]
      rw [skipWs_append_ws _ _ hwsi, hst2.skipWs,
        readMembers_pretty ((k2, v2) :: kvs) ind f ws rest (by simp) hnv.2 (by simp only [jsizeKvs] at hf ⊢; omega) hws]
      simp [String.ofList_toList]
end

/-! #### fuel: the text is at least as long as the value is large -/

mutual
  theorem jsize_le_length : ∀ (j : Json) (ind : Nat), numOk j = true → jsize j ≤ (prettyChars ind j).length
    | .null, _, _ => by simp [jsize, prettyChars]
    | .bool b, _, _ => by cases b <;> simp [jsize, prettyChars]
    | .int n, _, _ => by
      have := (int_toList n).2.2
      simp only [jsize, prettyChars]
      exact List.length_pos_iff.mpr this
    | .num t, _, h => by
      have h' : numTok t.toList = true := by simpa [numOk] using h
      simp only [numTok, Bool.and_eq_true, Bool.not_eq_true', List.isEmpty_eq_false_iff] at h'
      simp only [jsize, prettyChars]
      exact List.length_pos_iff.mpr h'.1.1.1
    | .str s, _, _ => by simp [jsize, prettyChars, quoteChars]
    | .arr [], _, _ => by simp [jsize, jsizeList, prettyChars]
    | .arr (x :: xs), ind, h => by
      have hnx : numOk x = true ∧ numOkList xs = true := by simpa [numOk, numOkList] using h
      have h1 := jsize_le_length x (ind + 1) hnx.1
      have h2 := jsizeList_le_length xs (ind + 1) hnx.2
      simp only [jsize, jsizeList, prettyChars, List.length_cons, List.length_append, List.length_nil]
      omega
    | .obj [], _, _ => by simp [jsize, jsizeKvs, prettyChars]
    | .obj ((k, v) :: kvs), ind, h => by
      have hnv : numOk v = true ∧ numOkKvs kvs = true := by simpa [numOk, numOkKvs] using h
      have h1 := jsize_le_length v (ind + 1) hnv.1
      have h2 := jsizeKvs_le_length kvs (ind + 1) hnv.2
      simp only [jsize, jsizeKvs, prettyChars, List.length_cons, List.length_append, List.length_nil]
      omega
  theorem jsizeList_le_length : ∀ (xs : List Json) (ind : Nat), numOkList xs = true →
      jsizeList xs ≤ (restChars ind xs).length
    | [], _, _ => by simp [jsizeList]
    | x :: xs, ind, h => by
      have hnx : numOk x = true ∧ numOkList xs = true := by simpa [numOkList] using h
      have h1 := jsize_le_length x ind hnx.1
      have h2 := jsizeList_le_length xs ind hnx.2
      simp only [jsizeList, restChars, List.length_cons, List.length_append]
      omega
  theorem jsizeKvs_le_length : ∀ (kvs : List (String × Json)) (ind : Nat), numOkKvs kvs = true →
      jsizeKvs kvs ≤ (restKvsChars ind kvs).length
    | [], _, _ => by simp [jsizeKvs]
    | (k, v) :: kvs, ind, h => by
      have hnv : numOk v = true ∧ numOkKvs kvs = true := by simpa [numOkKvs] using h
      have h1 := jsize_le_length v ind hnv.1
      have h2 := jsizeKvs_le_length kvs ind hnv.2
      simp only [jsizeKvs, restKvsChars, List.length_cons, List.length_append]
      omega
end

/-- **what `prettyAt` prints is read back as the value printed**, at every indentation depth -/
theorem parse_prettyAt (j : Json) (ind : Nat) (h : numOk j = true) : parseJson (prettyAt ind j) = some j := by
  have hst := prettyChars_starts ind j [] h
  rw [List.append_nil] at hst
  have hlen : jsize j ≤ (prettyAt ind j).length + 1 := by
    have := jsize_le_length j ind h
    rw [← prettyAt_toList, String.length_toList] at this
    omega
  have hread := readValue_pretty j ind _ [] h hlen (fun c hc => by simp at hc)
  rw [List.append_nil] at hread
  unfold parseJson
  rw [prettyAt_toList, hst.skipWs, hread]
  simp [skipWs]

/-! #### `canon` keeps the number tokens -/

theorem numOkKvs_insertSorted (k : String) (v : Json) (hv : numOk v = true) :
    ∀ acc : List (String × Json), numOkKvs acc = true → numOkKvs (insertSorted k v acc) = true
  | [], _ => by simp [insertSorted, numOkKvs, hv]
  | (k', v') :: rest, h => by
    have h' : numOk v' = true ∧ numOkKvs rest = true := by simpa [numOkKvs] using h
    unfold insertSorted
    split
    · simp [numOkKvs, hv, h'.2]
    · split
      · simp [numOkKvs, hv, h'.1, h'.2]
      · simp [numOkKvs, h'.1, numOkKvs_insertSorted k v hv rest h'.2]

theorem numOkKvs_sortObj (kvs : List (String × Json)) (h : numOkKvs kvs = true) : numOkKvs (sortObj kvs) = true := by
  unfold sortObj
  suffices ∀ acc, numOkKvs acc = true → numOkKvs (kvs.foldl (fun acc kv => insertSorted kv.1 kv.2 acc) acc) = true from
    this [] rfl
  induction kvs with
  | nil => intro acc ha; exact ha
  | cons kv rest ih =>
    obtain ⟨k, v⟩ := kv
    have h' : numOk v = true ∧ numOkKvs rest = true := by simpa [numOkKvs] using h
    intro acc ha
    exact ih h'.2 _ (numOkKvs_insertSorted k v h'.1 acc ha)

mutual
  theorem numOk_canon : ∀ j : Json, numOk j = true → numOk (canon j) = true
    | .null, h | .bool _, h | .int _, h | .num _, h | .str _, h => by simpa [canon] using h
    | .arr xs, h => by
      simp only [canon, numOk] at h ⊢
      exact numOkList_canon xs h
    | .obj kvs, h => by
      simp only [canon, numOk] at h ⊢
      exact numOkKvs_sortObj _ (numOkKvs_canon kvs h)
  theorem numOkList_canon : ∀ xs : List Json, numOkList xs = true → numOkList (canonList xs) = true
    | [], _ => rfl
    | x :: xs, h => by
      have h' : numOk x = true ∧ numOkList xs = true := by simpa [numOkList] using h
      simp [canonList, numOkList, numOk_canon x h'.1, numOkList_canon xs h'.2]
  theorem numOkKvs_canon : ∀ kvs : List (String × Json), numOkKvs kvs = true → numOkKvs (canonKvs kvs) = true
    | [], _ => rfl
    | (k, v) :: kvs, h => by
      have h' : numOk v = true ∧ numOkKvs kvs = true := by simpa [numOkKvs] using h
      simp [canonKvs, numOkKvs, numOk_canon v h'.1, numOkKvs_canon kvs h'.2]
end

/-- **`pretty_parse_roundtrip`**: the text `serde_json::to_string_pretty` writes for a reply is a JSON text whose value
is the reply as `serde_json::Value` holds it (`canon`: members sorted by key, a repeated key keeps its last value):
nothing is lost or altered by printing.  Side condition: every non-integer number token is a grammatical JSON
number (which is what `serde_json` hands over). -/
theorem pretty_parse_roundtrip (j : Json) (h : numOk j = true) : parseJson (pretty j) = some (canon j) :=
  parse_prettyAt (canon j) 0 (numOk_canon j h)


end JsonText

namespace C20C
open Cli C20 JsonText

/-- the side condition on a concrete reply, and the round trip on it -/
example : numOk (.obj [("b", .num "1.5e3"), ("a", .arr [.int (-7), .str "x\ny", .null]), ("b", .bool true)]) = true := by
  decide +kernel

/-- the side condition is needed: a `Json.num` token that is an integer token is read back as `Json.int` -/
example : (match parseJson (pretty (.num "12")) with | some (.int 12) => true | _ => false) = true := by decide +kernel

/-- **success with `--output` ⇒ the file is a JSON text denoting the reply** (as `serde_json::Value` holds it):
composition of `main_output_written` and `pretty_parse_roundtrip` -/
theorem output_file_reads_back (a : IntrospectArgs) (j : Json) (w : World) (nvs : List (String × String))
    (hacc : All2 HeaderOf a.headers nvs) (hok : HttpOk nvs a.authorization) (hout : a.output = true)
    (hnum : numOk j = true) :
    ∃ text, (introspectMain a (.ok200Json j) true w).world.file = some text ∧ parseJson text = some (canon j) := by
  refine ⟨pretty j, ?_, pretty_parse_roundtrip j hnum⟩
  rw [(main_output_written a j w nvs hacc hok hout).1]

end C20C
end GqlVerif
