import GqlVerif.Model.Serde
/-!
# P25 (1/3) — the serde model is monotone in its fuel (no hypothesis on the environment)

The fuel-indexed readers / writers of `Model/Serde.lean` (`dePath`, `deFlat`, `serPath`) return
`.error (.unmodelled "fuel")` (`fuelErr`) at fuel `0` and never catch an error.  Hence, for EVERY environment,
type and payload: a result that is not `fuelErr` is final — every larger fuel gives the same result
(`dePath_mono`, `deFlat_mono`, `deTy_mono`, `serPath_mono`, `serTy_mono`; `…_mono_le` for `fuel ≤ fuel'`).

`Le r r'` (`r` is `fuelErr`, or `r' = r`) is the definedness order; every building block of the model
(`deTyWith`, `deFieldWith`, `deOwnWith`, `deFlatsWith`, `deStructMapWith`, `deStructWith`, `deTaggedWith`,
`serTyWith`, `serFieldsWith`) is monotone in its `path` / `flat` parameter for it.
-/
namespace GqlVerif
namespace SerdeFuel
open Serde

/-- the error the model returns when its fuel is exhausted (`dePath` / `deFlat` / `serPath` at fuel `0`) -/
def fuelErr : DErr := .unmodelled "fuel"

/-- "not the fuel-exhaustion error" -/
def NF {α : Type} (r : D α) : Prop := r ≠ .error fuelErr

/-- definedness order: `r` is the fuel-exhaustion error, or `r'` is `r` -/
def Le {α : Type} (r r' : D α) : Prop := NF r → r' = r

theorem nf_ok {α : Type} (x : α) : NF (.ok x : D α) := by intro h; cases h
theorem nf_pure {α : Type} (x : α) : NF (pure x : D α) := nf_ok x
theorem nf_bad {α : Type} (w : String) : NF (bad w : D α) := by intro h; cases h

theorem nf_error {α : Type} {err : DErr} (h : err ≠ fuelErr) : NF (.error err : D α) := by
  intro h'; cases h'; exact h rfl

theorem nf_map {α β : Type} {g : α → β} {m : D α} : NF (g <$> m) ↔ NF m := by
  cases m with
  | error err =>
    constructor
    · intro h h'; cases h'; exact h rfl
    · intro h h'; cases h'; exact h rfl
  | ok x => exact ⟨fun _ => nf_ok x, fun _ => nf_ok (g x)⟩

theorem nf_of_bind {α β : Type} {m : D α} {f : α → D β} (h : NF (m >>= f)) : NF m := by
  cases m with
  | error err => intro h'; cases h'; exact h rfl
  | ok x => exact nf_ok x

theorem nf_bind {α β : Type} {m : D α} {f : α → D β} (hm : NF m) (hf : ∀ x, m = .ok x → NF (f x)) : NF (m >>= f) := by
  cases m with
  | error err => intro h'; cases h'; exact hm rfl
  | ok x => exact hf x rfl

theorem Le.rfl {α : Type} {r : D α} : Le r r := fun _ => Eq.refl r

theorem Le.of_eq {α : Type} {r r' : D α} (h : r' = r) : Le r r' := fun _ => h

theorem Le.fuelErr {α : Type} {r' : D α} : Le (.error fuelErr) r' := fun h => absurd (Eq.refl _) h

theorem Le.trans {α : Type} {a b c : D α} (h1 : Le a b) (h2 : Le b c) : Le a c := by
  intro ha
  have hb := h1 ha
  rw [← hb]
  exact h2 (hb ▸ ha)

theorem Le.bind {α β : Type} {m m' : D α} {f f' : α → D β} (hm : Le m m') (hf : ∀ x, m = .ok x → Le (f x) (f' x)) :
    Le (m >>= f) (m' >>= f') := by
  intro h
  have h1 := hm (nf_of_bind h)
  subst h1
  cases m' with
  | error err => rfl
  | ok x => exact hf x (Eq.refl _) h

theorem Le.map {α β : Type} (g : α → β) {m m' : D α} (hm : Le m m') : Le (g <$> m) (g <$> m') := by
  intro h
  rw [hm (nf_map.mp h)]

theorem Le.ite {α : Type} {c : Prop} [Decidable c] {a a' b b' : D α} (ha : c → Le a a') (hb : ¬ c → Le b b') :
    Le (if c then a else b) (if c then a' else b') := by
  by_cases hc : c
  · simp only [hc, ↓reduceIte]; exact ha hc
  · simp only [hc, ↓reduceIte]; exact hb hc

theorem Le.mapM {α β : Type} {f f' : α → D β} : ∀ (xs : List α), (∀ x ∈ xs, Le (f x) (f' x)) →
    Le (xs.mapM f) (xs.mapM f')
  | [], _ => Le.rfl
  | x :: xs, h => by
    rw [List.mapM_cons, List.mapM_cons]
    refine Le.bind (h x List.mem_cons_self) (fun y _ => ?_)
    exact Le.bind (Le.mapM xs (fun z hz => h z (List.mem_cons_of_mem _ hz))) (fun _ _ => Le.rfl)

/-! ## the building blocks are monotone -/

section With
variable {path path' : String → Json → D Val} (hp : ∀ p j, Le (path p j) (path' p j))
include hp

theorem deTyWith_le : ∀ (t : RTy) (j : Json), Le (deTyWith path t j) (deTyWith path' t j)
  | .path p, j => by simp only [deTyWith]; exact hp p j
  | .opt t, j => by
    simp only [deTyWith]
    exact Le.ite (fun _ => Le.rfl) (fun _ => Le.map _ (deTyWith_le t j))
  | .box t, j => by simp only [deTyWith]; exact deTyWith_le t j
  | .vec t, j => by
    cases j with
    | arr xs =>
      simp only [deTyWith]
      exact Le.map _ (Le.mapM xs (fun x _ => deTyWith_le t x))
    | _ => exact Le.rfl

theorem deFieldWith_le (f : RField) (j : Json) : Le (deFieldWith path f j) (deFieldWith path' f j) := by
  unfold deFieldWith
  cases f.deserWith with
  | some h => exact Le.rfl
  | none => exact deTyWith_le hp f.ty j

theorem deOwnWith_le : ∀ (fs : List RField) (kvs : List (String × Json)),
    Le (deOwnWith path fs kvs) (deOwnWith path' fs kvs)
  | [], _ => Le.rfl
  | f :: fs, kvs => by
    rw [deOwnWith.eq_2, deOwnWith.eq_2]
    refine Le.bind (deOwnWith_le fs kvs) (fun rest _ => ?_)
    refine Le.ite (fun _ => Le.rfl) (fun _ => Le.ite (fun _ => Le.rfl) (fun _ => ?_))
    cases Json.lookup f.wire kvs with
    | none => exact Le.rfl
    | some j => exact Le.bind (deFieldWith_le hp f j) (fun _ _ => Le.rfl)

theorem deTaggedWith_le (b : Bool) (tag : String) (vs : List RVariant) (kvs : List (String × Json)) :
    Le (deTaggedWith path b tag vs kvs) (deTaggedWith path' b tag vs kvs) := by
  have hpick : ∀ v : RVariant,
      Le (if v.other then (pure (.variant v.name none) : D Val) else
          match v.payload with
          | none => pure (.variant v.name none)
          | some t => (fun x => Val.variant v.name (some x)) <$> deTyWith path t (.obj (kvs.filter (·.1 != tag))))
         (if v.other then (pure (.variant v.name none) : D Val) else
          match v.payload with
          | none => pure (.variant v.name none)
          | some t => (fun x => Val.variant v.name (some x)) <$> deTyWith path' t (.obj (kvs.filter (·.1 != tag)))) := by
    intro v
    refine Le.ite (fun _ => Le.rfl) (fun _ => ?_)
    cases v.payload with
    | none => exact Le.rfl
    | some t => exact Le.map _ (deTyWith_le hp t _)
  unfold deTaggedWith
  split
  · exact Le.rfl
  · simp only []
    split
    · rename_i name _
      cases vs.find? (fun v => !v.other && v.wire == name) with
      | none => exact Le.rfl
      | some v => exact hpick v
    · rename_i n _
      refine Le.ite (fun _ => Le.rfl) (fun _ => Le.ite (fun _ => Le.rfl) (fun _ => ?_))
      cases vs[n.toNat]? with
      | none => exact Le.rfl
      | some v => exact hpick v
    · exact Le.rfl
  · exact Le.rfl

end With

section Flat
variable {flat flat' : RTy → Buf → D (Val × Buf)} (hf : ∀ t buf, Le (flat t buf) (flat' t buf))
include hf

theorem deFlatsWith_le : ∀ (fs : List RField) (buf : Buf), Le (deFlatsWith flat fs buf) (deFlatsWith flat' fs buf)
  | [], _ => Le.rfl
  | f :: fs, buf => by
    rw [deFlatsWith.eq_2, deFlatsWith.eq_2]
    refine Le.ite (fun _ => deFlatsWith_le fs buf) (fun _ => ?_)
    refine Le.bind (hf f.ty buf) (fun r _ => ?_)
    exact Le.bind (deFlatsWith_le fs r.2) (fun _ _ => Le.rfl)

end Flat

theorem deStructMapWith_le {path path' : String → Json → D Val} {flat flat' : RTy → Buf → D (Val × Buf)}
    (hp : ∀ p j, Le (path p j) (path' p j)) (hf : ∀ t buf, Le (flat t buf) (flat' t buf))
    (fields : List RField) (kvs : List (String × Json)) :
    Le (deStructMapWith path flat fields kvs) (deStructMapWith path' flat' fields kvs) := by
  unfold deStructMapWith
  refine Le.bind (deOwnWith_le hp fields kvs) (fun own _ => ?_)
  refine Le.ite (fun _ => ?_) (fun _ => Le.rfl)
  exact Le.bind (deFlatsWith_le hf fields _) (fun _ _ => Le.rfl)

theorem deStructWith_le {path path' : String → Json → D Val} {flat flat' : RTy → Buf → D (Val × Buf)}
    (hp : ∀ p j, Le (path p j) (path' p j)) (hf : ∀ t buf, Le (flat t buf) (flat' t buf))
    (fields : List RField) (j : Json) :
    Le (deStructWith path flat fields j) (deStructWith path' flat' fields j) := by
  unfold deStructWith
  cases j with
  | obj kvs => exact deStructMapWith_le hp hf fields kvs
  | arr xs =>
    simp only []
    refine Le.ite (fun _ => Le.rfl) (fun _ => Le.ite (fun _ => Le.rfl) (fun _ => ?_))
    refine Le.map _ (Le.mapM _ (fun fx _ => ?_))
    exact Le.bind (deFieldWith_le hp fx.1 fx.2) (fun _ _ => Le.rfl)
  | _ => exact Le.rfl

/-! ## `dePath` / `deFlat`: one more unit of fuel refines the result -/

theorem de_succ_le (e : Env) : ∀ (fuel : Nat),
    (∀ b p j, Le (dePath e b fuel p j) (dePath e b (fuel+1) p j)) ∧
    (∀ t buf, Le (deFlat e fuel t buf) (deFlat e (fuel+1) t buf)) := by
  intro fuel
  induction fuel with
  | zero =>
    refine ⟨fun b p j => ?_, fun t buf => ?_⟩
    · rw [dePath]; exact Le.fuelErr
    · rw [deFlat]; exact Le.fuelErr
  | succ n ih =>
    obtain ⟨ihP, ihF⟩ := ih
    refine ⟨fun b p j => ?_, fun t buf => ?_⟩
    · rw [dePath, dePath]
      split
      · exact Le.rfl
      · cases e.find p with
        | none =>
          simp only []
          cases e.externs.find? (·.1 == p) with
          | none => exact Le.rfl
          | some x => exact deTyWith_le (ihP b) x.2 j
        | some it =>
          cases it with
          | alias n' pub t => exact deTyWith_le (ihP b) t j
          | struct n' d sc fields => exact deStructWith_le (ihP b) ihF fields j
          | unitStruct n' d sc => exact Le.rfl
          | tagged n' d sc tag vs =>
            simp only []
            cases j with
            | obj kvs => exact deTaggedWith_le (ihP true) b tag vs kvs
            | _ => exact Le.rfl
          | gqlEnum n' d sp vs ser de => exact Le.rfl
          | oneOf n' d sc vs =>
            simp only []
            split
            · split
              · split
                · exact Le.map _ (deTyWith_le (ihP b) _ _)
                · exact Le.rfl
              · exact Le.rfl
            · exact Le.rfl
          | defaults fns => exact Le.rfl
    · cases t with
      | box t => rw [deFlat, deFlat]; exact ihF t buf
      | opt t => simp only [deFlat]; exact Le.rfl
      | vec t => simp only [deFlat]; exact Le.rfl
      | path p =>
        rw [deFlat, deFlat]
        cases e.find p with
        | none => exact Le.rfl
        | some it =>
          cases it with
          | alias n' pub t => exact ihF t buf
          | struct n' d sc fields =>
            simp only []
            refine Le.ite (fun _ => ?_) (fun _ => ?_)
            · exact Le.bind (deStructMapWith_le (ihP true) ihF fields _) (fun _ _ => Le.rfl)
            · exact Le.bind (deOwnWith_le (ihP true) fields _) (fun _ _ => Le.rfl)
          | tagged n' d sc tag vs =>
            exact Le.bind (deTaggedWith_le (ihP true) true tag vs _) (fun _ _ => Le.rfl)
          | unitStruct n' d sc => exact Le.rfl
          | gqlEnum n' d sp vs ser de => exact Le.rfl
          | oneOf n' d sc vs => exact Le.rfl
          | defaults fns => exact Le.rfl

/-! ## serialization -/

section SerWith
variable {path path' : String → Val → D Json} (hp : ∀ p v, Le (path p v) (path' p v))
include hp

theorem serTyWith_le : ∀ (t : RTy) (v : Val), Le (serTyWith path t v) (serTyWith path' t v)
  | .path p, v => by simp only [serTyWith]; exact hp p v
  | .box t, v => by simp only [serTyWith]; exact serTyWith_le t v
  | .opt t, v => by
    cases v with
    | some x => simp only [serTyWith]; exact serTyWith_le t x
    | _ => exact Le.rfl
  | .vec t, v => by
    cases v with
    | list xs =>
      simp only [serTyWith]
      exact Le.map _ (Le.mapM xs (fun x _ => serTyWith_le t x))
    | _ => exact Le.rfl

theorem serFieldsWith_le : ∀ (fs : List RField) (vals : List (String × Val)),
    Le (serFieldsWith path fs vals) (serFieldsWith path' fs vals)
  | [], _ => Le.rfl
  | f :: fs, vals => by
    rw [serFieldsWith.eq_2, serFieldsWith.eq_2]
    refine Le.bind (serFieldsWith_le fs vals) (fun rest _ => ?_)
    cases vals.find? (·.1 == f.rust) with
    | none => exact Le.rfl
    | some nv =>
      simp only []
      refine Le.ite (fun _ => ?_) (fun _ => Le.ite (fun _ => Le.rfl) (fun _ => ?_))
      · exact Le.bind (serTyWith_le hp f.ty nv.2) (fun _ _ => Le.rfl)
      · exact Le.bind (serTyWith_le hp f.ty nv.2) (fun _ _ => Le.rfl)

end SerWith

theorem ser_succ_le (e : Env) : ∀ (fuel : Nat) (p : String) (v : Val),
    Le (serPath e fuel p v) (serPath e (fuel+1) p v) := by
  intro fuel
  induction fuel with
  | zero => intro p v; rw [serPath]; exact Le.fuelErr
  | succ n ih =>
    intro p v
    rw [serPath, serPath]
    split
    · exact Le.rfl
    · cases e.find p with
      | none =>
        simp only []
        cases e.externs.find? (·.1 == p) with
        | none => exact Le.rfl
        | some x => exact serTyWith_le ih x.2 v
      | some it =>
        cases it with
        | alias n' pub t => exact serTyWith_le ih t v
        | struct n' d sc fields =>
          simp only []
          cases v with
          | record vals => exact Le.map _ (serFieldsWith_le ih fields vals)
          | _ => exact Le.rfl
        | unitStruct n' d sc => exact Le.rfl
        | tagged n' d sc tag vs =>
          simp only []
          cases v with
          | variant name payload =>
            simp only []
            split
            · exact Le.rfl
            · split
              · exact Le.bind (serTyWith_le ih _ _) (fun _ _ => Le.rfl)
              · exact Le.rfl
            · exact Le.rfl
          | _ => exact Le.rfl
        | gqlEnum n' d sp vs ser de => exact Le.rfl
        | oneOf n' d sc vs =>
          simp only []
          split
          · split
            · split
              · exact Le.bind (serTyWith_le ih _ _) (fun _ _ => Le.rfl)
              · exact Le.rfl
            · exact Le.rfl
          · exact Le.rfl
        | defaults fns => exact Le.rfl

/-! ## the monotonicity theorems -/

theorem le_of_succ_le {α : Type} (f : Nat → D α) (h : ∀ n, Le (f n) (f (n+1))) :
    ∀ {n m : Nat}, n ≤ m → Le (f n) (f m) := by
  intro n m hnm
  induction hnm with
  | refl => exact Le.rfl
  | step _ ih => exact Le.trans ih (h _)

/-- **`dePath` is monotone in the fuel** — any environment, named type, payload: a result that is not the
    fuel-exhaustion error is the result at every larger fuel -/
theorem dePath_mono (e : Env) (b : Bool) {fuel fuel' : Nat} (hle : fuel ≤ fuel') (p : String) (j : Json)
    (h : dePath e b fuel p j ≠ .error fuelErr) : dePath e b fuel' p j = dePath e b fuel p j :=
  le_of_succ_le (fun n => dePath e b n p j) (fun n => (de_succ_le e n).1 b p j) hle h

theorem deFlat_mono (e : Env) {fuel fuel' : Nat} (hle : fuel ≤ fuel') (t : RTy) (buf : Buf)
    (h : deFlat e fuel t buf ≠ .error fuelErr) : deFlat e fuel' t buf = deFlat e fuel t buf :=
  le_of_succ_le (fun n => deFlat e n t buf) (fun n => (de_succ_le e n).2 t buf) hle h

theorem dePath_le (e : Env) (b : Bool) {fuel fuel' : Nat} (hle : fuel ≤ fuel') (p : String) (j : Json) :
    Le (dePath e b fuel p j) (dePath e b fuel' p j) :=
  le_of_succ_le (fun n => dePath e b n p j) (fun n => (de_succ_le e n).1 b p j) hle

theorem deFlat_le (e : Env) {fuel fuel' : Nat} (hle : fuel ≤ fuel') (t : RTy) (buf : Buf) :
    Le (deFlat e fuel t buf) (deFlat e fuel' t buf) :=
  le_of_succ_le (fun n => deFlat e n t buf) (fun n => (de_succ_le e n).2 t buf) hle

/-- **`deTy` is monotone in the fuel** -/
theorem deTy_mono (e : Env) (b : Bool) {fuel fuel' : Nat} (hle : fuel ≤ fuel') (t : RTy) (j : Json)
    (h : deTy e b fuel t j ≠ .error fuelErr) : deTy e b fuel' t j = deTy e b fuel t j :=
  deTyWith_le (fun p j => dePath_le e b hle p j) t j h

theorem deStructWith_mono (e : Env) (b : Bool) {fuel fuel' : Nat} (hle : fuel ≤ fuel') (fields : List RField) (j : Json)
    (h : deStructWith (dePath e b fuel) (deFlat e fuel) fields j ≠ .error fuelErr) :
    deStructWith (dePath e b fuel') (deFlat e fuel') fields j = deStructWith (dePath e b fuel) (deFlat e fuel) fields j :=
  deStructWith_le (fun p j => dePath_le e b hle p j) (fun t buf => deFlat_le e hle t buf) fields j h

theorem serPath_le (e : Env) {fuel fuel' : Nat} (hle : fuel ≤ fuel') (p : String) (v : Val) :
    Le (serPath e fuel p v) (serPath e fuel' p v) :=
  le_of_succ_le (fun n => serPath e n p v) (fun n => ser_succ_le e n p v) hle

/-- **`serPath` is monotone in the fuel** -/
theorem serPath_mono (e : Env) {fuel fuel' : Nat} (hle : fuel ≤ fuel') (p : String) (v : Val)
    (h : serPath e fuel p v ≠ .error fuelErr) : serPath e fuel' p v = serPath e fuel p v :=
  serPath_le e hle p v h

/-- **`serTy` is monotone in the fuel** -/
theorem serTy_mono (e : Env) {fuel fuel' : Nat} (hle : fuel ≤ fuel') (t : RTy) (v : Val)
    (h : serTy e fuel t v ≠ .error fuelErr) : serTy e fuel' t v = serTy e fuel t v :=
  serTyWith_le (fun p v => serPath_le e hle p v) t v h

end SerdeFuel
end GqlVerif
