import GqlVerif.Proofs.C01VariantSpreadB
/-!
# C01 end to end: fragment spreads at abstract positions (`VariantSpreadOp`), part C: losslessness of the emitted types

**Scope of this part: operations of the class without spreads of fragments on the abstract type itself** (`noBSels`,
decidable; part (a) of the task).  `canonSelS s q skip sels j` / `canonAbsS s q skip sub j` are the explicit functions
describing the differences C01 allows between a conforming response and `to_value (from_value j)`: as `canonSelV` /
`canonAbsV`; at an abstract position the interface-level entries in selection order, then `__typename` (kept), then — **in
selection order** — the entries of the inline fragment on the type `__typename` names and the entries of every spread
fragment on that type (`canonVarS`).

* `rtStructS` (struct of an object-level selection set), `rtVariantS` (payload of one variant: alias of a fragment
  struct, or struct with own fields and flattened members), `rtTaggedS`, `rtAbsS`;
* `structS_lossless` — by mutual induction over the selection tree (`rtSelS` / `rtSelsS` / `rtInlS`);
* `norm_canonSelS` — the canonical form is a `serde_json::to_value` normal form.

Additional decidable side condition: `rustOkSelsS` — within each struct the Rust field names are pairwise distinct (own
fields; at an abstract position also `on`; in a variant struct the inline fragment's fields and the members
`snake(F)`), and inside every spread fragment (`rustOkFrag`).
-/
set_option linter.unusedSimpArgs false
set_option linter.unusedVariables false
set_option linter.unusedSectionVars false

namespace GqlVerif
namespace C01
namespace E2E
open Serde Spec C13 C03 Codegen

/-! ## the allowed differences, as an explicit function on the JSON value -/

mutual
  def canonFieldS (s : Schema) (q : Query) (skip : Bool) : Sel → Json → Json
    | .field _ fid sub, v =>
      match s.fields[fid]? with
      | none => v
      | some sf =>
        match sf.ty.id with
        | .scalar k => (match s.scalars[k]? with
          | some n => if n = "ID" then canon idCanon (gtyOf sf.ty.quals) v else v
          | none => v)
        | .enum _ => v
        | .input _ => v
        | .object _ => canon (fun j => match j with
            | .obj kvs => .obj (canonEntriesS s q skip sub kvs)
            | j => j) (gtyOf sf.ty.quals) v
        | _ =>
          canon (fun j => match j with
            | .obj kvs => .obj (canonEntriesS s q skip sub kvs ++
                (("__typename", Json.str (tagName kvs)) :: canonVarS s q skip (tagName kvs) sub kvs))
            | j => j) (gtyOf sf.ty.quals) v
    | _, v => v
  def canonEntriesS (s : Schema) (q : Query) (skip : Bool) : List Sel → List (String × Json) → List (String × Json)
    | [], _ => []
    | .field a fid sub :: xs, kvs =>
      (match s.fields[fid]? with
       | none => []
       | some sf =>
         match Json.lookup (a.getD sf.name) kvs with
         | some v =>
           if skip && skipQ sf.ty.quals && v.isNull then []
           else [(a.getD sf.name, canonFieldS s q skip (.field a fid sub) v)]
         | none => if skip && skipQ sf.ty.quals then [] else [(a.getD sf.name, Json.null)]) ++
        canonEntriesS s q skip xs kvs
    | _ :: xs, kvs => canonEntriesS s q skip xs kvs
  /-- the entries of the selections on the type named `n`: the inline fragment's and the spread fragments', in
      selection order -/
  def canonVarS (s : Schema) (q : Query) (skip : Bool) (n : String) : List Sel → List (String × Json) → List (String × Json)
    | [], _ => []
    | .inline t isub :: xs, kvs =>
      (if objName s t == n then canonEntriesS s q skip isub kvs else []) ++ canonVarS s q skip n xs kvs
    | .spread g :: xs, kvs =>
      (match q.fragments[g]? with
       | some f => if objName s f.on == n then canonEntriesV s skip f.sels kvs else []
       | none => []) ++ canonVarS s q skip n xs kvs
    | _ :: xs, kvs => canonVarS s q skip n xs kvs
end

/-- **`canonSelS`**: the differences C01 allows between a conforming response `j` and `to_value (from_value j)` -/
def canonSelS (s : Schema) (q : Query) (skip : Bool) (sels : List Sel) : Json → Json
  | .obj kvs => .obj (canonEntriesS s q skip sels kvs)
  | j => j

/-- … and at an abstract position -/
def canonAbsS (s : Schema) (q : Query) (skip : Bool) (sub : List Sel) : Json → Json
  | .obj kvs => .obj (canonEntriesS s q skip sub kvs ++
      (("__typename", Json.str (tagName kvs)) :: canonVarS s q skip (tagName kvs) sub kvs))
  | j => j

theorem canonLambdaS (s : Schema) (q : Query) (skip : Bool) (sub : List Sel) :
    (fun j => match j with
      | Json.obj kvs => Json.obj (canonEntriesS s q skip sub kvs)
      | j => j) = canonSelS s q skip sub := by
  funext j; cases j <;> rfl

theorem canonLambdaAbsS (s : Schema) (q : Query) (skip : Bool) (sub : List Sel) :
    (fun j => match j with
      | Json.obj kvs => Json.obj (canonEntriesS s q skip sub kvs ++
          (("__typename", Json.str (tagName kvs)) :: canonVarS s q skip (tagName kvs) sub kvs))
      | j => j) = canonAbsS s q skip sub := by
  funext j; cases j <;> rfl

/-- the same, by type instead of by type name -/
def canonVarT (s : Schema) (q : Query) (skip : Bool) (vt : TypeId) : List Sel → List (String × Json) → List (String × Json)
  | [], _ => []
  | .inline t isub :: xs, kvs =>
    (if t == vt then canonEntriesS s q skip isub kvs else []) ++ canonVarT s q skip vt xs kvs
  | .spread g :: xs, kvs =>
    (match q.fragments[g]? with
     | some f => if f.on == vt then canonEntriesV s skip f.sels kvs else []
     | none => []) ++ canonVarT s q skip vt xs kvs
  | _ :: xs, kvs => canonVarT s q skip vt xs kvs

theorem objName_eq_iff (s : Schema) (names : List TypeId) (hnames : (names.map (objName s)).Nodup) {t vt : TypeId}
    (ht : t ∈ names) (hvt : vt ∈ names) : (objName s t == objName s vt) = (t == vt) := by
  by_cases htv : t = vt
  · subst htv; simp
  · have : objName s t ≠ objName s vt := by
      intro heq
      have h1 := find_by_name s names hnames t ht
      have h2 := find_by_name s names hnames vt hvt
      rw [heq, h2] at h1
      exact htv (Option.some.inj h1).symm
    have h3 : (objName s t == objName s vt) = false := by simpa using this
    have h4 : (t == vt) = false := by simpa using htv
    rw [h3, h4]

/-- with pairwise distinct type names, selecting by name is selecting by type -/
theorem canonVarS_eq (s : Schema) (q : Query) (skip : Bool) (vt : TypeId) (kvs : List (String × Json))
    (names : List TypeId) (hnames : (names.map (objName s)).Nodup) (hvt : vt ∈ names) : ∀ (sub : List Sel),
    (∀ t ∈ sub.filterMap (selOn q), t ∈ names) →
    canonVarS s q skip (objName s vt) sub kvs = canonVarT s q skip vt sub kvs
  | [], _ => rfl
  | x :: xs, hin => by
    have ih := canonVarS_eq s q skip vt kvs names hnames hvt xs (fun t ht => hin t (by
      rw [List.filterMap_cons]; cases selOn q x <;> simp [ht]))
    cases x with
    | inline t isub =>
      have ht : t ∈ names := hin t (by simp [List.filterMap_cons, selOn])
      rw [canonVarS, canonVarT, ih, objName_eq_iff s names hnames ht hvt]
    | spread g =>
      rw [canonVarS, canonVarT, ih]
      cases hf : q.fragments[g]? with
      | none => rfl
      | some f =>
        have ht : f.on ∈ names := hin f.on (by simp [List.filterMap_cons, selOn, hf])
        simp only [objName_eq_iff s names hnames ht hvt]
    | field a fid sub => simpa [canonVarS, canonVarT] using ih
    | typename => simpa [canonVarS, canonVarT] using ih

theorem canonVarT_mineOf (s : Schema) (q : Query) (skip : Bool) (vt : TypeId) (kvs : List (String × Json)) :
    ∀ (sub : List Sel), canonVarT s q skip vt (mineOf q vt sub) kvs = canonVarT s q skip vt sub kvs
  | [] => rfl
  | x :: xs => by
    have ih := canonVarT_mineOf s q skip vt kvs xs
    unfold mineOf at ih ⊢
    rw [List.filter_cons]
    cases x with
    | inline t isub =>
      by_cases htv : t = vt
      · subst htv; simp [onVt, selOn, canonVarT, ih]
      · have hne : (t == vt) = false := by simpa using htv
        simp [onVt, selOn, canonVarT, ih, htv, hne]
    | spread g =>
      cases hf : q.fragments[g]? with
      | none => simp [onVt, selOn, canonVarT, ih, hf]
      | some f =>
        by_cases htv : f.on = vt
        · simp [onVt, selOn, canonVarT, ih, hf, htv]
        · have hne : (f.on == vt) = false := by simpa using htv
          simp [onVt, selOn, canonVarT, ih, hf, htv, hne]
    | field a fid sub => simp [onVt, selOn, canonVarT, ih]
    | typename => simp [onVt, selOn, canonVarT, ih]

theorem canonEntriesS_filter (s : Schema) (q : Query) (skip : Bool) (p : String × Json → Bool)
    (kvs : List (String × Json)) : ∀ (sels : List Sel), (∀ k ∈ fieldKeys s sels, ∀ v, p (k, v) = true) →
      canonEntriesS s q skip sels (kvs.filter p) = canonEntriesS s q skip sels kvs
  | [], _ => by simp [canonEntriesS]
  | x :: xs, h => by
    cases x with
    | field a fid sub =>
      rw [canonEntriesS.eq_2, canonEntriesS.eq_2]
      cases hsf : s.fields[fid]? with
      | none =>
        have ih := canonEntriesS_filter s q skip p kvs xs (fun k hk' => h k (by
          simpa [fieldKeys, List.filterMap_cons, fieldKey, hsf] using hk'))
        simp only [ih]
      | some sf =>
        have hk : ∀ v, p (a.getD sf.name, v) = true := h _ (by simp [fieldKeys, fieldKey, hsf, List.filterMap_cons])
        have ih := canonEntriesS_filter s q skip p kvs xs (fun k hk' => h k (by
          simp only [fieldKeys, List.filterMap_cons, fieldKey, hsf, Option.map_some] at hk' ⊢
          exact List.mem_cons_of_mem _ hk'))
        simp only [lookup_filter p _ hk, ih]
    | spread g =>
      have ih := canonEntriesS_filter s q skip p kvs xs (fun k hk' => h k (by simpa [fieldKeys, List.filterMap_cons, fieldKey] using hk'))
      simpa [canonEntriesS] using ih
    | inline t sub =>
      have ih := canonEntriesS_filter s q skip p kvs xs (fun k hk' => h k (by simpa [fieldKeys, List.filterMap_cons, fieldKey] using hk'))
      simpa [canonEntriesS] using ih
    | typename =>
      have ih := canonEntriesS_filter s q skip p kvs xs (fun k hk' => h k (by simpa [fieldKeys, List.filterMap_cons, fieldKey] using hk'))
      simpa [canonEntriesS] using ih

/-- the entries of the variant only depend on the entries under its field keys -/
theorem canonVarT_filter (s : Schema) (q : Query) (skip : Bool) (vt : TypeId) (p : String × Json → Bool)
    (kvs : List (String × Json)) : ∀ (sub : List Sel), (∀ k ∈ varKeys s q vt sub, ∀ v, p (k, v) = true) →
      canonVarT s q skip vt sub (kvs.filter p) = canonVarT s q skip vt sub kvs
  | [], _ => rfl
  | x :: xs, h => by
    cases x with
    | inline t isub =>
      rw [varKeys] at h
      have ih := canonVarT_filter s q skip vt p kvs xs (fun k hk => h k (List.mem_append_right _ hk))
      rw [canonVarT, canonVarT, ih]
      by_cases htv : t = vt
      · subst htv
        simp only [beq_self_eq_true, ↓reduceIte] at h ⊢
        rw [canonEntriesS_filter s q skip p kvs isub (fun k hk => h k (List.mem_append_left _ hk))]
      · have hne : (t == vt) = false := by simpa using htv
        simp [hne]
    | spread g =>
      rw [varKeys] at h
      have ih := canonVarT_filter s q skip vt p kvs xs (fun k hk => h k (List.mem_append_right _ hk))
      rw [canonVarT, canonVarT, ih]
      cases hf : q.fragments[g]? with
      | none => rfl
      | some f =>
        simp only [hf] at h ⊢
        by_cases htv : f.on = vt
        · simp only [htv, beq_self_eq_true, ↓reduceIte] at h ⊢
          rw [canonEntriesV_filter s skip p kvs f.sels (fun k hk => h k (List.mem_append_left _ hk))]
        · have hne : (f.on == vt) = false := by simpa using htv
          simp [hne]
    | field a fid sub =>
      have e1 : varKeys s q vt (Sel.field a fid sub :: xs) = varKeys s q vt xs := by simp [varKeys]
      rw [e1] at h
      have ih := canonVarT_filter s q skip vt p kvs xs h
      simpa [canonVarT] using ih
    | typename =>
      have e1 : varKeys s q vt (Sel.typename :: xs) = varKeys s q vt xs := by simp [varKeys]
      rw [e1] at h
      have ih := canonVarT_filter s q skip vt p kvs xs h
      simpa [canonVarT] using ih

theorem canonEntriesS_nofield (s : Schema) (q : Query) (skip : Bool) (kvs : List (String × Json)) :
    ∀ (sels : List Sel), sels.any isFieldSel = false → canonEntriesS s q skip sels kvs = []
  | [], _ => by simp [canonEntriesS]
  | x :: xs, h => by
    simp only [List.any_cons, Bool.or_eq_false_iff] at h
    have ih := canonEntriesS_nofield s q skip kvs xs h.2
    cases x with
    | field a fid sub => simp [isFieldSel] at h
    | spread g => simpa [canonEntriesS] using ih
    | inline t sub => simpa [canonEntriesS] using ih
    | typename => simpa [canonEntriesS] using ih

/-- the canonical form of the value of the field whose wire name is `f.wire` -/
def fcanonOfS (s : Schema) (q : Query) (skip : Bool) (sels : List Sel) (f : RField) (v : Json) : Json :=
  match sels.find? (fun x => respKey s x == some f.wire) with
  | some x => canonFieldS s q skip x v
  | none => v

theorem expectOut_canonS (c : Ctx) (pfx : String) (abs : Bool) (fc : RField → Json → Json) (kvs : List (String × Json)) :
    ∀ (sels : List Sel), sSels c.s c.q c.o abs sels = true →
      (∀ a fid sub, Sel.field a fid sub ∈ sels → ∀ f, fieldOfSelV c pfx (.field a fid sub) = some f →
        ∀ v, fc f v = canonFieldS c.s c.q c.o.skipNone (.field a fid sub) v) →
      expectOut fc (fieldsOfV c pfx sels) kvs = canonEntriesS c.s c.q c.o.skipNone sels kvs
  | [], _, _ => by simp [fieldsOfV, expectOut, canonEntriesS]
  | x :: xs, ht, hfc => by
    obtain ⟨hx, hxs⟩ := sSels_cons ht
    have ih := expectOut_canonS c pfx abs fc kvs xs hxs (fun a fid sub hm => hfc a fid sub (List.mem_cons_of_mem _ hm))
    cases x with
    | field a fid sub =>
      obtain ⟨sf, ft, hsf, _, hf, _⟩ := fieldOfSelV_s c pfx abs a fid sub hx
      rw [fieldsOfV_cons_field c pfx _ xs _ hf, expectOut_cons, ih, canonEntriesS.eq_2]
      simp only [hsf, fieldOf_wire, fieldOf_skipNone, hfc a fid sub (by simp) _ hf, Bool.and_assoc]
      cases Json.lookup (a.getD sf.name) kvs <;> rfl
    | spread g => rw [fieldsOfV_cons_none c pfx _ xs rfl, ih]; simp [canonEntriesS]
    | inline t sub => rw [fieldsOfV_cons_none c pfx _ xs rfl, ih]; simp [canonEntriesS]
    | typename => rw [fieldsOfV_cons_none c pfx _ xs rfl, ih]; simp [canonEntriesS]

/-! ## Rust field names -/

/-- the Rust field names of the variant struct of `vt` -/
def varRust (c : Ctx) (vt : TypeId) : List Sel → List String
  | [] => []
  | .inline t isub :: xs => (if t == vt then rustNames c isub else []) ++ varRust c vt xs
  | .spread g :: xs =>
    (match c.q.fragments[g]? with
     | some f => if f.on == vt then [c.cs.snake f.name] else []
     | none => []) ++ varRust c vt xs
  | _ :: xs => varRust c vt xs

def vtsOfField (c : Ctx) (fid : Nat) : List TypeId :=
  match c.s.fields[fid]? with
  | some sf => vtsOfTy c.s sf.ty.id
  | none => []

mutual
  /-- within every struct the Rust field names are pairwise distinct: own fields (at an abstract position also `on`),
      the fields of every variant struct, the fields of every spread fragment -/
  def rustOkSelS (c : Ctx) : Sel → Bool
    | .field _ fid sub =>
      EnumSpec.nodup (rustNames c sub ++ (if isAbsField c fid then ["on"] else [])) && rustOkSelsS c sub &&
      (vtsOfField c fid).all (fun vt => EnumSpec.nodup (varRust c vt sub))
    | .inline _ isub => rustOkSelsS c isub
    | .spread g => rustOkFrag c g
    | .typename => true
  def rustOkSelsS (c : Ctx) : List Sel → Bool
    | [] => true
    | x :: xs => rustOkSelS c x && rustOkSelsS c xs
end

theorem rustOkSelsS_mem {c : Ctx} : ∀ {sels : List Sel}, rustOkSelsS c sels = true →
    ∀ x ∈ sels, rustOkSelS c x = true
  | [], _, _, hx => by simp at hx
  | y :: ys, h, x, hx => by
    rw [rustOkSelsS, Bool.and_eq_true] at h
    rcases List.mem_cons.mp hx with rfl | hx'
    · exact h.1
    · exact rustOkSelsS_mem h.2 x hx'

theorem rust_fieldsOfS (c : Ctx) (pfx : String) (abs : Bool) : ∀ (sels : List Sel), sSels c.s c.q c.o abs sels = true →
    (fieldsOfV c pfx sels).map (·.rust) = rustNames c sels
  | [], _ => rfl
  | x :: xs, ht => by
    obtain ⟨hx, hxs⟩ := sSels_cons ht
    have ih := rust_fieldsOfS c pfx abs xs hxs
    cases x with
    | field a fid sub =>
      obtain ⟨sf, ft, hsf, _, hf, _⟩ := fieldOfSelV_s c pfx abs a fid sub hx
      rw [fieldsOfV_cons_field c pfx _ xs _ hf, List.map_cons, ih]
      simp [rustNames, List.filterMap_cons, rustName, hsf, fieldOf]
    | spread g =>
      rw [fieldsOfV_cons_none c pfx _ xs rfl, ih]; simp [rustNames, List.filterMap_cons, rustName]
    | inline t sub =>
      rw [fieldsOfV_cons_none c pfx _ xs rfl, ih]; simp [rustNames, List.filterMap_cons, rustName]
    | typename =>
      rw [fieldsOfV_cons_none c pfx _ xs rfl, ih]; simp [rustNames, List.filterMap_cons, rustName]

theorem rust_varFields (c : Ctx) (pfx : String) (vt : TypeId) : ∀ (sub : List Sel), sSels c.s c.q c.o true sub = true →
    (varFields c pfx vt sub).map (·.rust) = varRust c vt sub
  | [], _ => rfl
  | x :: xs, ht => by
    obtain ⟨hx, hxs⟩ := sSels_cons ht
    have ih := rust_varFields c pfx vt xs hxs
    cases x with
    | inline t isub =>
      simp only [sSel, Bool.and_eq_true] at hx
      rw [varFields, varRust, List.map_append, ih]
      split
      · rw [rust_fieldsOfS c _ false isub hx.1.2]
      · rfl
    | spread g =>
      rw [varFields, varRust, List.map_append, ih]
      cases hf : c.q.fragments[g]? with
      | none => rfl
      | some f => simp only []; split <;> simp [memberField]
    | field a fid sub => simpa [varFields, varRust] using ih
    | typename => simpa [varFields, varRust] using ih

theorem mem_fieldsOfS {c : Ctx} {pfx : String} {abs : Bool} {sels : List Sel} {f : RField}
    (hf : f ∈ fieldsOfV c pfx sels) (ht : sSels c.s c.q c.o abs sels = true) :
    ∃ a fid sub sf ft, Sel.field a fid sub ∈ sels ∧ c.s.fields[fid]? = some sf ∧
      fieldOfSelV c pfx (.field a fid sub) = some f ∧
      f = fieldOf c (a.getD sf.name) ft sf.ty.quals sf.deprecation ∧ wfQuals sf.ty.quals = true := by
  obtain ⟨x, hx, hfx⟩ := List.mem_filterMap.mp hf
  cases x with
  | field a fid sub =>
    obtain ⟨sf, ft, hsf, _, hf', hw⟩ := fieldOfSelV_s c pfx abs a fid sub (sSels_mem ht _ hx)
    rw [hf'] at hfx
    exact ⟨a, fid, sub, sf, ft, hx, hsf, by rw [hf', hfx], (Option.some.inj hfx).symm, hw⟩
  | spread g => cases hfx
  | inline t sub => cases hfx
  | typename => cases hfx

/-! ## no spread of a fragment on the abstract type itself (part (a) of the class) -/

/-- no spread of a fragment on `ty` itself in the selection set -/
def noBAt (q : Query) (ty : TypeId) (sub : List Sel) : Bool := !(sub.any (isBSpread q ty))

/-- a lone spread of a fragment on the abstract type itself is one -/
theorem noBAt_lone_false {s : Schema} {q : Query} {o : Options} {ty : TypeId} {g : Nat}
    (h : fragOkB s q o ty g = true) : noBAt q ty [Sel.spread g] = false := by
  obtain ⟨f, hf, hon, _⟩ := fragOkB_parts h
  simp [noBAt, isBSpread, hf, hon]

mutual
  /-- at no abstract position below is a fragment on the abstract type itself spread -/
  def noBSel (s : Schema) (q : Query) : Sel → Bool
    | .field _ fid sub =>
      (match s.fields[fid]? with
       | some sf => !sf.ty.id.isAbstract || noBAt q sf.ty.id sub
       | none => true) && noBSels s q sub
    | .inline _ isub => noBSels s q isub
    | _ => true
  def noBSels (s : Schema) (q : Query) : List Sel → Bool
    | [] => true
    | x :: xs => noBSel s q x && noBSels s q xs
end

theorem noBSels_mem {s : Schema} {q : Query} : ∀ {sels : List Sel}, noBSels s q sels = true →
    ∀ x ∈ sels, noBSel s q x = true
  | [], _, _, hx => by simp at hx
  | y :: ys, h, x, hx => by
    rw [noBSels, Bool.and_eq_true] at h
    rcases List.mem_cons.mp hx with rfl | hx'
    · exact h.1
    · exact noBSels_mem h.2 x hx'

theorem fieldsB_noB (c : Ctx) (pfx : String) (ty : TypeId) : ∀ (sub : List Sel), noBAt c.q ty sub = true →
    fieldsB c pfx ty sub = fieldsOfV c pfx sub
  | [], _ => rfl
  | x :: xs, h => by
    simp only [noBAt, List.any_cons, Bool.not_or, Bool.and_eq_true, Bool.not_eq_true'] at h
    have ih := fieldsB_noB c pfx ty xs (by simp [noBAt, h.2])
    unfold fieldsB fieldsOfV at ih ⊢
    rw [List.filterMap_cons, List.filterMap_cons, ih]
    cases x with
    | spread g =>
      have h1 := h.1
      cases hf : c.q.fragments[g]? with
      | none => simp [fieldOfSelB, hf, fieldOfSelV]
      | some f =>
        simp only [isBSpread, hf] at h1
        simp [fieldOfSelB, hf, h1, fieldOfSelV]
    | field a fid sub => rfl
    | inline t sub => rfl
    | typename => rfl

theorem hasStruct_noB {q : Query} {ty : TypeId} {sub : List Sel} (h : noBAt q ty sub = true) :
    hasStruct q ty sub = sub.any isFieldSel := by
  simp only [noBAt, Bool.not_eq_true'] at h
  simp [hasStruct, h]

/-- without such spreads every spread is on a possible type -/
theorem spread_onA {s : Schema} {q : Query} {o : Options} {ty : TypeId} {sub : List Sel}
    (hty : absHyp s ty) (hok : absOkS s q o ty sub = true) (hnb : noBAt q ty sub = true) :
    ∀ g, Sel.spread g ∈ sub → ∃ vt f, vt ∈ vtsOfTy s ty ∧ fragOk s q o vt g = true ∧ q.fragments[g]? = some f ∧
      f.on = vt ∧ ∀ k ∈ fieldKeys s f.sels, k ∉ respKeys s sub := by
  intro g hg
  obtain ⟨_, hsp, _⟩ := absOkS_parts hok
  rcases hsp g hg with h | ⟨f, _, hf, hon, _⟩
  · exact h
  · exfalso
    simp only [noBAt, Bool.not_eq_true', List.any_eq_false] at hnb
    have := hnb _ hg
    simp [isBSpread, hf, hon] at this

/-! ## round trips -/

section RTS
variable (e : Env) (c : Ctx)

def RTSelS (pfx : String) (x : Sel) : Prop :=
  ∀ abs, sSel c.s c.q c.o abs x = true → envSelS e c pfx x → rustOkSelS c x = true → noBSel c.s c.q x = true →
    ∀ f, fieldOfSelV c pfx x = some f →
    ∀ b fd fs, 2 * depthF c.q x + 1 ≤ fd → 2 * depthF c.q x ≤ fs → ∀ v y,
      strictFieldV c.s (expandSel c.q x) v = true → deFieldWith (dePath e b fd) f v = .ok y →
      serTyWith (serPath e fs) f.ty y = .ok (canonFieldS c.s c.q c.o.skipNone x v)

/-- what the round trip of a struct needs of the object it reads: pairwise distinct keys, and under every selected
    field's key a value conforming to the field (spreads below expanded) -/
def FieldsOkS (s : Schema) (q : Query) (sels : List Sel) (kvs : List (String × Json)) : Prop :=
  (kvs.map (·.1)).Nodup ∧
  ∀ a fid sub, Sel.field a fid sub ∈ sels → ∀ sf, s.fields[fid]? = some sf →
    ∀ v, Json.lookup (a.getD sf.name) kvs = some v → strictFieldV s (expandSel q (.field a fid sub)) v = true

theorem fieldsOkS_of_conf {s : Schema} {q : Query} {rt : Nat} {sels : List Sel} {kvs : List (String × Json)}
    (hnd : (kvs.map (·.1)).Nodup) (h : confSelsV s rt (expandSels q sels) kvs = true) : FieldsOkS s q sels kvs := by
  refine ⟨hnd, ?_⟩
  intro a fid sub hm sf hsf v hl
  have := confSelsV_mem h _ (expandSels_mem q hm)
  rw [expandSel, confSelV_field] at this
  rw [expandSel]
  simpa [hsf, hl] using this

/-- round trip of the struct of an object-level selection set, from the round trips of its fields -/
theorem rtStructS (pfx name : String) (sels : List Sel) (H : ∀ x ∈ sels, RTSelS e c pfx x) (abs : Bool)
    (ht : sSels c.s c.q c.o abs sels = true) (henv : envSelsS e c pfx sels)
    (hro : rustOkSelsS c sels = true) (hnbs : noBSels c.s c.q sels = true)
    (hrn : EnumSpec.nodup (rustNames c sels) = true)
    (hkeys : EnumSpec.nodup (respKeys c.s sels) = true)
    (hs : StructEnv e name (fieldsOfV c pfx sels)) (b : Bool) (fd fs : Nat)
    (hfd : 2 * depthsF c.q sels + 2 ≤ fd) (hfs : 2 * depthsF c.q sels + 1 ≤ fs) (kvs : List (String × Json))
    (hok : FieldsOkS c.s c.q sels kvs) (v : Val) (hd : dePath e b fd name (.obj kvs) = .ok v) :
    serPath e fs name v = .ok (.obj (canonEntriesS c.s c.q c.o.skipNone sels kvs)) := by
  obtain ⟨hp, _, n, d, cr, hfind⟩ := hs
  obtain ⟨hnd, hst⟩ := hok
  obtain ⟨fd', rfl⟩ : ∃ k, fd = k + 1 := ⟨fd - 1, by omega⟩
  obtain ⟨fs', rfl⟩ : ∃ k, fs = k + 1 := ⟨fs - 1, by omega⟩
  have hkn := nodup_iff'.mp hkeys
  have key : ∀ f ∈ fieldsOfV c pfx sels, ∀ j, Json.lookup f.wire kvs = some j →
      ∃ a fid sub, Sel.field a fid sub ∈ sels ∧ fieldOfSelV c pfx (.field a fid sub) = some f ∧
        strictFieldV c.s (expandSel c.q (.field a fid sub)) j = true ∧
        fcanonOfS c.s c.q c.o.skipNone sels f j = canonFieldS c.s c.q c.o.skipNone (.field a fid sub) j := by
    intro f hf j hl
    obtain ⟨a, fid, sub, sf, ft, hx, hsf, hfx, rfl, _⟩ := mem_fieldsOfS hf ht
    rw [fieldOf_wire] at hl
    refine ⟨a, fid, sub, hx, hfx, hst a fid sub hx sf hsf j hl, ?_⟩
    unfold fcanonOfS
    rw [fieldOf_wire, find_respKey c.s _ sels hkn _ hx (by simp [respKey, hsf])]
  have hrt := struct_roundtrip_path e b fd' fs' name n d cr (fieldsOfV c pfx sels)
    (fcanonOfS c.s c.q c.o.skipNone sels) kvs hp hfind (plain_fieldsOfV c pfx sels)
    (by rw [rust_fieldsOfS c pfx abs sels ht]; exact nodup_iff'.mp hrn) hnd
    (by
      intro f hf j x hl hdx
      obtain ⟨a, fid, sub, hx, hfx, hst', hfc⟩ := key f hf j hl
      rw [hfc]
      have hdep := depthsF_mem c.q hx
      exact H _ hx abs (sSels_mem ht _ hx) (envSelsS_mem henv _ hx) (rustOkSelsS_mem hro _ hx)
        (noBSels_mem hnbs _ hx) f hfx b fd' fs'
        (by omega) (by omega) j x hst' hdx)
    (by
      intro f hf hskip j x _ hdx
      obtain ⟨a, fid, sub, sf, ft, _, _, _, rfl, _⟩ := mem_fieldsOfS hf ht
      refine field_unit_iff _ _ (.inr ?_) j x hdx
      rw [fieldOf_skipNone, Bool.and_eq_true] at hskip
      exact (isOption_rustOf ft sf.ty.quals).trans (skipQ_nullable hskip.2))
    (by
      intro f hf hdef
      obtain ⟨a, fid, sub, sf, ft, _, _, _, rfl, _⟩ := mem_fieldsOfS hf ht
      have : (decide (ft = "ID") && nullableQ sf.ty.quals) = true := hdef
      rw [Bool.and_eq_true] at this
      exact (isOption_rustOf ft sf.ty.quals).trans this.2)
    v hd
  rw [hrt]
  congr 2
  apply expectOut_canonS c pfx abs _ kvs sels ht
  intro a fid sub hx f hfx v
  obtain ⟨sf, ft, hsf, _, hf', _⟩ := fieldOfSelV_s c pfx abs a fid sub (sSels_mem ht _ hx)
  rw [hf'] at hfx
  cases hfx
  unfold fcanonOfS
  rw [fieldOf_wire, find_respKey c.s _ sels hkn _ hx (by simp [respKey, hsf])]

end RTS


/-! ## the payload of one variant -/

/-- the selections of the inline fragment(s) on `vt` -/
def ownSels (vt : TypeId) : List Sel → List Sel
  | [] => []
  | .inline t isub :: xs => (if t == vt then isub else []) ++ ownSels vt xs
  | _ :: xs => ownSels vt xs

theorem mem_ownSels {vt : TypeId} {x : Sel} : ∀ {sub : List Sel}, x ∈ ownSels vt sub →
    ∃ isub, Sel.inline vt isub ∈ sub ∧ x ∈ isub
  | [], h => by simp [ownSels] at h
  | y :: ys, h => by
    cases y with
    | inline t isub =>
      rw [ownSels, List.mem_append] at h
      rcases h with h | h
      · by_cases htv : t = vt
        · subst htv; simp only [beq_self_eq_true, ↓reduceIte] at h; exact ⟨isub, by simp, h⟩
        · have hne : (t == vt) = false := by simpa using htv
          simp [hne] at h
      · obtain ⟨isub', h1, h2⟩ := mem_ownSels h
        exact ⟨isub', List.mem_cons_of_mem _ h1, h2⟩
    | spread g =>
      have : ownSels vt (Sel.spread g :: ys) = ownSels vt ys := by simp [ownSels]
      rw [this] at h
      obtain ⟨isub', h1, h2⟩ := mem_ownSels h
      exact ⟨isub', List.mem_cons_of_mem _ h1, h2⟩
    | field a fid sub =>
      have : ownSels vt (Sel.field a fid sub :: ys) = ownSels vt ys := by simp [ownSels]
      rw [this] at h
      obtain ⟨isub', h1, h2⟩ := mem_ownSels h
      exact ⟨isub', List.mem_cons_of_mem _ h1, h2⟩
    | typename =>
      have : ownSels vt (Sel.typename :: ys) = ownSels vt ys := by simp [ownSels]
      rw [this] at h
      obtain ⟨isub', h1, h2⟩ := mem_ownSels h
      exact ⟨isub', List.mem_cons_of_mem _ h1, h2⟩

/-- with at most one inline fragment per type -/
theorem ownSels_spec (vt : TypeId) : ∀ (sub : List Sel), (sub.filterMap inlineTy).Nodup →
    (vt ∉ sub.filterMap inlineTy → ownSels vt sub = []) ∧
    (∀ isub, Sel.inline vt isub ∈ sub → ownSels vt sub = isub)
  | [], _ => by simp [ownSels]
  | x :: xs, hnd => by
    cases x with
    | inline t isub' =>
      simp only [List.filterMap_cons, inlineTy, List.nodup_cons] at hnd
      obtain ⟨ih1, ih2⟩ := ownSels_spec vt xs hnd.2
      rw [ownSels]
      by_cases htv : t = vt
      · subst htv
        refine ⟨fun hn => absurd (by simp [List.filterMap_cons, inlineTy]) hn, ?_⟩
        intro isub hm
        simp only [List.mem_cons, Sel.inline.injEq, true_and] at hm
        rcases hm with rfl | hm
        · simp [ih1 hnd.1]
        · exact absurd (List.mem_filterMap.mpr ⟨Sel.inline t isub, hm, rfl⟩ : t ∈ xs.filterMap inlineTy) hnd.1
      · have hne : (t == vt) = false := by simpa using htv
        simp only [hne, Bool.false_eq_true, ↓reduceIte, List.nil_append]
        refine ⟨fun hn => ih1 (fun hm => hn (by simp [List.filterMap_cons, inlineTy, hm])), ?_⟩
        intro isub hm
        simp only [List.mem_cons, Sel.inline.injEq] at hm
        rcases hm with ⟨h1, _⟩ | hm
        · exact absurd h1.symm htv
        · exact ih2 isub hm
    | field a fid sub' =>
      have e1 : (Sel.field a fid sub' :: xs).filterMap inlineTy = xs.filterMap inlineTy := by simp [List.filterMap_cons, inlineTy]
      have e2 : ownSels vt (Sel.field a fid sub' :: xs) = ownSels vt xs := by simp [ownSels]
      rw [e1] at hnd ⊢
      rw [e2]
      obtain ⟨ih1, ih2⟩ := ownSels_spec vt xs hnd
      exact ⟨ih1, fun isub hm => ih2 isub (by simpa using hm)⟩
    | spread g =>
      have e1 : (Sel.spread g :: xs).filterMap inlineTy = xs.filterMap inlineTy := by simp [List.filterMap_cons, inlineTy]
      have e2 : ownSels vt (Sel.spread g :: xs) = ownSels vt xs := by simp [ownSels]
      rw [e1] at hnd ⊢
      rw [e2]
      obtain ⟨ih1, ih2⟩ := ownSels_spec vt xs hnd
      exact ⟨ih1, fun isub hm => ih2 isub (by simpa using hm)⟩
    | typename =>
      have e1 : (Sel.typename :: xs).filterMap inlineTy = xs.filterMap inlineTy := by simp [List.filterMap_cons, inlineTy]
      have e2 : ownSels vt (Sel.typename :: xs) = ownSels vt xs := by simp [ownSels]
      rw [e1] at hnd ⊢
      rw [e2]
      obtain ⟨ih1, ih2⟩ := ownSels_spec vt xs hnd
      exact ⟨ih1, fun isub hm => ih2 isub (by simpa using hm)⟩

theorem fieldsOfV_append (c : Ctx) (pfx : String) (xs ys : List Sel) :
    fieldsOfV c pfx (xs ++ ys) = fieldsOfV c pfx xs ++ fieldsOfV c pfx ys := by
  simp [fieldsOfV]

theorem varOwn_ownSels (c : Ctx) (pfx : String) (vt : TypeId) : ∀ (sub : List Sel),
    varOwn c pfx vt sub = fieldsOfV c (pfx ++ "On" ++ c.cs.camel (objName c.s vt)) (ownSels vt sub)
  | [] => rfl
  | x :: xs => by
    have ih := varOwn_ownSels c pfx vt xs
    cases x with
    | inline t isub =>
      rw [varOwn, ownSels, fieldsOfV_append, ih]
      by_cases htv : t = vt
      · subst htv; simp
      · have hne : (t == vt) = false := by simpa using htv
        simp [hne, fieldsOfV]
    | spread g => simpa [varOwn, ownSels] using ih
    | field a fid sub => simpa [varOwn, ownSels] using ih
    | typename => simpa [varOwn, ownSels] using ih

theorem expectOut_append (fc : RField → Json → Json) (xs ys : List RField) (kvs : List (String × Json)) :
    expectOut fc (xs ++ ys) kvs = expectOut fc xs kvs ++ expectOut fc ys kvs := by
  simp [expectOut]

theorem flatMap_entriesF_plain (fc : RField → Json → Json) (mc : RField → List (String × Json))
    (kvs : List (String × Json)) : ∀ (fs : List RField), plain fs = true →
    fs.flatMap (entriesF fc mc kvs) = expectOut fc fs kvs
  | [], _ => rfl
  | f :: fs, hp => by
    obtain ⟨hf, hp'⟩ := plain_cons hp
    have ih := flatMap_entriesF_plain fc mc kvs fs hp'
    have : f :: fs = [f] ++ fs := rfl
    rw [List.flatMap_cons, ih, this, expectOut_append]
    simp [entriesF, hf]

/-- the entries the variant struct writes are `canonVarT` -/
theorem flatMap_entriesF_var (c : Ctx) (pfx : String) (vt : TypeId) (fc : RField → Json → Json)
    (mc : RField → List (String × Json)) (kvs : List (String × Json)) : ∀ (sub : List Sel),
    sSels c.s c.q c.o true sub = true →
    (∀ t isub, Sel.inline t isub ∈ sub → t = vt → ∀ a fid sub', Sel.field a fid sub' ∈ isub → ∀ f,
      fieldOfSelV c (pfx ++ "On" ++ c.cs.camel (objName c.s vt)) (.field a fid sub') = some f →
      ∀ v, fc f v = canonFieldS c.s c.q c.o.skipNone (.field a fid sub') v) →
    (∀ g fr, Sel.spread g ∈ sub → c.q.fragments[g]? = some fr → fr.on = vt →
      mc (memberField c fr) = canonEntriesV c.s c.o.skipNone fr.sels kvs) →
    (varFields c pfx vt sub).flatMap (entriesF fc mc kvs) = canonVarT c.s c.q c.o.skipNone vt sub kvs
  | [], _, _, _ => rfl
  | x :: xs, ht, hfc, hmc => by
    obtain ⟨hx, hxs⟩ := sSels_cons ht
    have ih := flatMap_entriesF_var c pfx vt fc mc kvs xs hxs
      (fun t isub hm => hfc t isub (List.mem_cons_of_mem _ hm))
      (fun g fr hm => hmc g fr (List.mem_cons_of_mem _ hm))
    cases x with
    | inline t isub =>
      rw [varFields, canonVarT, List.flatMap_append, ih]
      by_cases htv : t = vt
      · subst htv
        simp only [sSel, Bool.and_eq_true] at hx
        simp only [beq_self_eq_true, ↓reduceIte]
        rw [flatMap_entriesF_plain fc mc kvs _ (plain_fieldsOfV c _ isub),
          expectOut_canonS c _ false fc kvs isub hx.1.2 (fun a fid sub' hm f hf v => hfc t isub (by simp) rfl a fid sub' hm f hf v)]
      · have hne : (t == vt) = false := by simpa using htv
        simp [hne]
    | spread g =>
      rw [varFields, canonVarT, List.flatMap_append, ih]
      cases hf : c.q.fragments[g]? with
      | none => rfl
      | some fr =>
        simp only []
        by_cases htv : fr.on = vt
        · simp only [htv, beq_self_eq_true, ↓reduceIte, List.flatMap_cons, List.flatMap_nil, List.append_nil]
          simp only [entriesF, memberField, ↓reduceIte]
          have := hmc g fr (by simp) hf htv
          simp only [memberField] at this
          rw [this]
        · have hne : (fr.on == vt) = false := by simpa using htv
          simp [hne]
    | field a fid sub => simpa [varFields, canonVarT] using ih
    | typename => simpa [varFields, canonVarT] using ih

theorem mem_varFields_flatten {c : Ctx} {pfx : String} {vt : TypeId} : ∀ {sub : List Sel} {g : RField},
    g ∈ varFields c pfx vt sub → g.flatten = true →
    ∃ gid fr, Sel.spread gid ∈ sub ∧ c.q.fragments[gid]? = some fr ∧ fr.on = vt ∧ g = memberField c fr
  | [], g, hg, _ => by simp [varFields] at hg
  | x :: xs, g, hg, hfl => by
    cases x with
    | inline t isub =>
      rw [varFields, List.mem_append] at hg
      rcases hg with hg | hg
      · split at hg
        · have := not_flatten_of_plain (plain_fieldsOfV c _ isub) hg
          rw [this] at hfl; cases hfl
        · simp at hg
      · obtain ⟨gid, fr, h1, h2⟩ := mem_varFields_flatten hg hfl
        exact ⟨gid, fr, List.mem_cons_of_mem _ h1, h2⟩
    | spread gid =>
      rw [varFields, List.mem_append] at hg
      rcases hg with hg | hg
      · cases hf : c.q.fragments[gid]? with
        | none => simp [hf] at hg
        | some fr =>
          simp only [hf] at hg
          by_cases htv : fr.on = vt
          · simp only [htv, beq_self_eq_true, ↓reduceIte, List.mem_singleton] at hg
            exact ⟨gid, fr, by simp, hf, htv, hg⟩
          · have hne : (fr.on == vt) = false := by simpa using htv
            simp [hne] at hg
      · obtain ⟨gid', fr, h1, h2⟩ := mem_varFields_flatten hg hfl
        exact ⟨gid', fr, List.mem_cons_of_mem _ h1, h2⟩
    | field a fid sub =>
      have : varFields c pfx vt (Sel.field a fid sub :: xs) = varFields c pfx vt xs := by simp [varFields]
      rw [this] at hg
      obtain ⟨gid, fr, h1, h2⟩ := mem_varFields_flatten hg hfl
      exact ⟨gid, fr, List.mem_cons_of_mem _ h1, h2⟩
    | typename =>
      have : varFields c pfx vt (Sel.typename :: xs) = varFields c pfx vt xs := by simp [varFields]
      rw [this] at hg
      obtain ⟨gid, fr, h1, h2⟩ := mem_varFields_flatten hg hfl
      exact ⟨gid, fr, List.mem_cons_of_mem _ h1, h2⟩

theorem mem_varFields_of_spread {c : Ctx} {pfx : String} {vt : TypeId} {gid : Nat} {fr : RFragment}
    (hfr : c.q.fragments[gid]? = some fr) (hon : fr.on = vt) : ∀ {sub : List Sel}, Sel.spread gid ∈ sub →
    memberField c fr ∈ varFields c pfx vt sub
  | [], h => by simp at h
  | x :: xs, h => by
    rcases List.mem_cons.mp h with heq | h'
    · subst heq
      rw [varFields]
      simp [hfr, hon]
    · have ih := mem_varFields_of_spread hfr hon (pfx := pfx) h'
      cases x with
      | inline t isub => rw [varFields]; exact List.mem_append_right _ ih
      | spread g => rw [varFields]; exact List.mem_append_right _ ih
      | field a fid sub => simpa [varFields] using ih
      | typename => simpa [varFields] using ih


/-! ### several inline fragments on one type: the concatenation of their bodies -/

theorem mem_ownSels_of {vt : TypeId} {x : Sel} {isub : List Sel} : ∀ {sub : List Sel}, Sel.inline vt isub ∈ sub →
    x ∈ isub → x ∈ ownSels vt sub
  | [], h, _ => by simp at h
  | y :: ys, h, hx => by
    rcases List.mem_cons.mp h with heq | h'
    · subst heq
      rw [ownSels]
      simp [hx]
    · have ih := mem_ownSels_of h' hx
      cases y with
      | inline t isub' => rw [ownSels]; exact List.mem_append_right _ ih
      | spread g => simpa [ownSels] using ih
      | field a fid sub => simpa [ownSels] using ih
      | typename => simpa [ownSels] using ih

theorem ownSels_ind {P : List Sel → Prop} (vt : TypeId) (hnil : P [])
    (happ : ∀ xs ys, P xs → P ys → P (xs ++ ys)) : ∀ (sub : List Sel),
    (∀ isub, Sel.inline vt isub ∈ sub → P isub) → P (ownSels vt sub)
  | [], _ => hnil
  | y :: ys, h => by
    have ih := ownSels_ind vt hnil happ ys (fun isub hm => h isub (List.mem_cons_of_mem _ hm))
    cases y with
    | inline t isub =>
      rw [ownSels]
      by_cases htv : t = vt
      · subst htv
        simp only [beq_self_eq_true, ↓reduceIte]
        exact happ _ _ (h isub (by simp)) ih
      · have hne : (t == vt) = false := by simpa using htv
        simpa [hne] using ih
    | spread g => simpa [ownSels] using ih
    | field a fid sub => simpa [ownSels] using ih
    | typename => simpa [ownSels] using ih

theorem fieldKeys_append (s : Schema) (xs ys : List Sel) : fieldKeys s (xs ++ ys) = fieldKeys s xs ++ fieldKeys s ys := by
  simp [fieldKeys]

theorem fieldKeys_ownSels_sublist (s : Schema) (q : Query) (vt : TypeId) : ∀ (sub : List Sel),
    (fieldKeys s (ownSels vt sub)).Sublist (varKeys s q vt sub)
  | [] => by simp [ownSels, varKeys, fieldKeys]
  | y :: ys => by
    have ih := fieldKeys_ownSels_sublist s q vt ys
    cases y with
    | inline t isub =>
      rw [ownSels, varKeys, fieldKeys_append]
      refine List.Sublist.append ?_ ih
      split <;> simp [fieldKeys]
    | spread g =>
      have e1 : ownSels vt (Sel.spread g :: ys) = ownSels vt ys := by simp [ownSels]
      rw [e1, varKeys]
      exact ih.trans (List.sublist_append_right _ _)
    | field a fid sub => simpa [ownSels, varKeys] using ih
    | typename => simpa [ownSels, varKeys] using ih

theorem sSels_append {s : Schema} {q : Query} {o : Options} {abs : Bool} : ∀ {xs ys : List Sel},
    sSels s q o abs xs = true → sSels s q o abs ys = true → sSels s q o abs (xs ++ ys) = true
  | [], _, _, h => h
  | x :: xs, ys, h1, h2 => by
    obtain ⟨hx, hxs⟩ := sSels_cons h1
    rw [List.cons_append, sSels, hx, sSels_append hxs h2]; rfl

theorem envSelsS_append {e : Env} {c : Ctx} {pfx : String} : ∀ {xs ys : List Sel},
    envSelsS e c pfx xs → envSelsS e c pfx ys → envSelsS e c pfx (xs ++ ys)
  | [], _, _, h => h
  | x :: xs, ys, h1, h2 => by
    rw [envSelsS] at h1
    rw [List.cons_append, envSelsS]
    exact ⟨h1.1, envSelsS_append h1.2 h2⟩

theorem rustOkSelsS_append {c : Ctx} : ∀ {xs ys : List Sel},
    rustOkSelsS c xs = true → rustOkSelsS c ys = true → rustOkSelsS c (xs ++ ys) = true
  | [], _, _, h => h
  | x :: xs, ys, h1, h2 => by
    rw [rustOkSelsS, Bool.and_eq_true] at h1
    rw [List.cons_append, rustOkSelsS, h1.1, rustOkSelsS_append h1.2 h2]; rfl

theorem noBSels_append {s : Schema} {q : Query} : ∀ {xs ys : List Sel},
    noBSels s q xs = true → noBSels s q ys = true → noBSels s q (xs ++ ys) = true
  | [], _, _, h => h
  | x :: xs, ys, h1, h2 => by
    rw [noBSels, Bool.and_eq_true] at h1
    rw [List.cons_append, noBSels, h1.1, noBSels_append h1.2 h2]; rfl

theorem depthsF_append (q : Query) : ∀ (xs ys : List Sel), depthsF q (xs ++ ys) = max (depthsF q xs) (depthsF q ys)
  | [], ys => by simp [depthsF]
  | x :: xs, ys => by
    rw [List.cons_append, depthsF, depthsF, depthsF_append q xs ys]; omega

/-- the canonical form of the value of the own field whose wire name is `f.wire`, found by field key (several inline
    fragments on one type may each select `__typename`) -/
def fcanonOfK (s : Schema) (q : Query) (skip : Bool) (sels : List Sel) (f : RField) (v : Json) : Json :=
  match sels.find? (fun x => fieldKey s x == some f.wire) with
  | some x => canonFieldS s q skip x v
  | none => v

section RTS2
variable (e : Env) (c : Ctx)

/-- round trip of one flattened member (the struct of a spread fragment), read from the whole object (`rtMemberF` with
    the strictness hypothesis on the selected fields only: the payload of a variant does not see `__typename`) -/
theorem rtMemberS (i : Nat) (gid : Nat) (fr : RFragment) (hfr : c.q.fragments[gid]? = some fr)
    (hok : fragOk c.s c.q c.o (.object i) gid = true) (henv : FragEnv e c gid) (hro : rustOkFrag c gid = true)
    (fuel fs : Nat) (hfuel : 2 * selsDepth fr.sels + 1 ≤ fuel) (hfs : 2 * selsDepth fr.sels ≤ fs)
    (kvs : List (String × Json)) (hnd : (kvs.map (·.1)).Nodup) (hst : StrictAt c.s fr.sels kvs)
    (own : List (String × Val))
    (hown : deOwnWith (dePath e true fuel) (fieldsOfV c (c.cs.camel fr.name) fr.sels) kvs = .ok own) :
    serPath e (fs + 1) fr.name (.record own) = .ok (.obj (canonEntriesV c.s c.o.skipNone fr.sels kvs)) := by
  obtain ⟨fr', hfr', _, _, hv, hkeys⟩ := fragOk_parts hok
  rw [hfr] at hfr'; cases hfr'
  unfold FragEnv at henv
  rw [hfr] at henv
  have hsels : fragSels c.q gid = fr.sels := by simp [fragSels, hfr]
  simp only [rustOkFrag, hsels, Bool.and_eq_true] at hro
  obtain ⟨hp, _, n, d, cr, hfind⟩ := henv.1
  have hd : dePath e true (fuel + 1) fr.name (.obj kvs) = .ok (.record own) := by
    rw [dePath_struct e true fuel fr.name n d cr _ hp hfind, deStruct_obj,
      deStructMap_plain _ _ _ _ (plain_fieldsOfV c _ fr.sels), hown]; rfl
  exact rtStructV e c _ _ fr.sels (fun x hx => (rtSelsV e c fr.sels _ x hx).1) false hv henv.2 hro.2 hro.1 hkeys henv.1
    true (fuel + 1) (fs + 1) (by omega) (by omega) kvs ⟨hnd, hst⟩ _ hd

/-- **round trip of the variant struct** (own fields of the inline fragment and flattened fragment members) -/
theorem rtVarStructS (pfx : String) (ty : TypeId) (rt : Nat) (sub : List Sel)
    (HI : ∀ x ∈ ownSels (.object rt) sub, RTSelS e c (pfx ++ "On" ++ c.cs.camel (objName c.s (.object rt))) x)
    (hty : absHyp c.s ty) (ht : sSels c.s c.q c.o true sub = true) (hok : absOkS c.s c.q c.o ty sub = true)
    (henv : envSelsS e c pfx sub) (hro : rustOkSelsS c sub = true) (hnbs : noBSels c.s c.q sub = true)
    (hvt : TypeId.object rt ∈ vtsOfTy c.s ty)
    (hrn : (varRust c (.object rt) sub).Nodup)
    (hs : StructEnv e (pfx ++ "On" ++ objName c.s (.object rt)) (varFields c pfx (.object rt) sub))
    (fd fs : Nat) (hfd : 2 * depthsF c.q sub + 1 ≤ fd) (hfs : 2 * depthsF c.q sub ≤ fs) (hpos : 1 ≤ depthsF c.q sub)
    (kvs : List (String × Json)) (hownok : FieldsOkS c.s c.q (ownSels (.object rt) sub) kvs)
    (hmemok : ∀ g fr, Sel.spread g ∈ sub → c.q.fragments[g]? = some fr → fr.on = .object rt →
      StrictAt c.s fr.sels kvs)
    (x : Val) (hd : dePath e true fd (pfx ++ "On" ++ objName c.s (.object rt)) (.obj kvs) = .ok x) :
    serPath e fs (pfx ++ "On" ++ objName c.s (.object rt)) x =
      .ok (.obj (canonVarT c.s c.q c.o.skipNone (.object rt) sub kvs)) := by
  obtain ⟨hp, _, n, d, cr, hfind⟩ := hs
  obtain ⟨hnd, hst⟩ := hownok
  have hsp := spreadsA_abs hty hok
  obtain ⟨hok1, _, hvk⟩ := absOkS_parts hok
  obtain ⟨fuel, rfl⟩ : ∃ k, fd = k + 2 := ⟨fd - 2, by omega⟩
  obtain ⟨fs', rfl⟩ : ∃ k, fs = k + 2 := ⟨fs - 2, by omega⟩
  have hcnt := countKey_le_one_of_nodup hnd
  have hvne : TypeId.object rt ≠ ty := obj_ne_abs hty rt
  obtain ⟨h1, _, h3, h4⟩ := var_flat_hyps e c pfx ty (.object rt) hvne ⟨rt, rfl⟩ sub ht hsp henv (hvk _ hvt)
  have hrust : ((varFields c pfx (.object rt) sub).map (·.rust)).Nodup := by
    rw [rust_varFields c pfx _ sub ht]; exact hrn
  rw [dePath_struct e true (fuel + 1) _ n d cr _ hp hfind, deStruct_obj] at hd
  obtain ⟨vals, rfl, hownf, hmemf⟩ := deStruct_flat_finds e fuel _ _ kvs hcnt hrust (fun g hg hf => (h1 g hg hf).1) h3 h4 x hd
  -- the own fields: those of the inline fragment on the type
  have hown_eq : (varFields c pfx (.object rt) sub).filter (fun f => !f.flatten) =
      fieldsOfV c (pfx ++ "On" ++ c.cs.camel (objName c.s (.object rt))) (ownSels (.object rt) sub) := by
    rw [varFields_own, varOwn_ownSels]
  have hinl : ∀ isub, Sel.inline (.object rt) isub ∈ sub →
      sSels c.s c.q c.o false isub = true ∧
      envSelsS e c (pfx ++ "On" ++ c.cs.camel (objName c.s (.object rt))) isub ∧
      rustOkSelsS c isub = true ∧
      noBSels c.s c.q isub = true ∧
      depthsF c.q isub + 1 ≤ depthsF c.q sub := by
    intro isub hy
    have hvy := sSels_mem ht _ hy
    simp only [sSel, Bool.and_eq_true] at hvy
    have hey := envSelsS_mem henv _ hy
    rw [envSelS] at hey
    have hry := rustOkSelsS_mem hro _ hy
    rw [rustOkSelS] at hry
    have hny := noBSels_mem hnbs _ hy
    rw [noBSel] at hny
    have hdep := depthsF_mem c.q hy
    rw [depthF] at hdep
    exact ⟨hvy.1.2, hey, hry, hny, by omega⟩
  have hownS := ownSels_ind (P := fun l => sSels c.s c.q c.o false l = true ∧
      envSelsS e c (pfx ++ "On" ++ c.cs.camel (objName c.s (.object rt))) l ∧
      rustOkSelsS c l = true ∧
      noBSels c.s c.q l = true ∧
      depthsF c.q l + 1 ≤ depthsF c.q sub) (.object rt)
    ⟨rfl, trivial, rfl, rfl, by simp only [depthsF]; omega⟩
    (fun xs ys hx hy => ⟨sSels_append hx.1 hy.1, envSelsS_append hx.2.1 hy.2.1, rustOkSelsS_append hx.2.2.1 hy.2.2.1,
      noBSels_append hx.2.2.2.1 hy.2.2.2.1, by rw [depthsF_append]; omega⟩) sub hinl
  obtain ⟨hoS, hoE, hoR, hoN, hoD⟩ := hownS
  have hkn : (fieldKeys c.s (ownSels (.object rt) sub)).Nodup :=
    (fieldKeys_ownSels_sublist c.s c.q (.object rt) sub).nodup (hvk _ hvt)
  -- the members
  have hmemrt : ∀ gid fr, Sel.spread gid ∈ sub → c.q.fragments[gid]? = some fr → fr.on = .object rt →
      ∃ y, vals.find? (·.1 == (memberField c fr).rust) = some ((memberField c fr).rust, y) ∧
        serTyWith (serPath e (fs' + 1)) (memberField c fr).ty y =
          .ok (.obj (canonEntriesV c.s c.o.skipNone fr.sels kvs)) := by
    intro gid fr hm hfr hon
    obtain ⟨fr', hokg, hfr', _⟩ := hsp.onVt hvne hm (by simp [selOn, hfr, hon])
    rw [hfr] at hfr'; cases hfr'
    have henvg : FragEnv e c gid := fragEnv_of_S (envSelsS_mem henv _ hm) hfr hon
    have hrog : rustOkFrag c gid = true := by have := rustOkSelsS_mem hro _ hm; simpa [rustOkSelS] using this
    have hgmem : memberField c fr ∈ varFields c pfx (.object rt) sub := mem_varFields_of_spread hfr hon hm
    obtain ⟨own, hown, hfindg⟩ := hmemf _ hgmem rfl
    rw [(memberFields_member e c gid fr hfr henvg).1] at hown
    refine ⟨_, hfindg, ?_⟩
    have hdep := depthsF_mem c.q hm
    rw [depthF] at hdep
    have hsels : fragSels c.q gid = fr.sels := by simp [fragSels, hfr]
    rw [hsels] at hdep
    exact rtMemberS e c rt gid fr hfr hokg henvg hrog fuel fs' (by omega) (by omega) kvs hnd
      (hmemok gid fr hm hfr hon) own hown
  let mc : RField → List (String × Json) := fun g =>
    match vals.find? (·.1 == g.rust) with
    | some (_, y) => (match serTyWith (serPath e (fs' + 1)) g.ty y with | .ok (.obj o) => o | _ => [])
    | none => []
  have hmc : ∀ gid fr, Sel.spread gid ∈ sub → c.q.fragments[gid]? = some fr → fr.on = .object rt →
      mc (memberField c fr) = canonEntriesV c.s c.o.skipNone fr.sels kvs := by
    intro gid fr hm hfr hon
    obtain ⟨y, hf, hser⟩ := hmemrt gid fr hm hfr hon
    simp only [mc, hf, hser]
  have hfcanon : ∀ a fid sub', Sel.field a fid sub' ∈ ownSels (.object rt) sub → ∀ f,
      fieldOfSelV c (pfx ++ "On" ++ c.cs.camel (objName c.s (.object rt))) (.field a fid sub') = some f →
      ∀ v, fcanonOfK c.s c.q c.o.skipNone (ownSels (.object rt) sub) f v =
        canonFieldS c.s c.q c.o.skipNone (.field a fid sub') v := by
    intro a fid sub' hx f hfx v
    obtain ⟨sf, ft, hsf, _, hf', _⟩ := fieldOfSelV_s c _ false a fid sub' (sSels_mem hoS _ hx)
    rw [hf'] at hfx
    cases hfx
    unfold fcanonOfK
    rw [fieldOf_wire, find_fieldKey c.s _ _ hkn _ hx (by simp [fieldKey, hsf])]
  have hnonfl : ∀ f ∈ varFields c pfx (.object rt) sub, f.flatten = false →
      f ∈ fieldsOfV c (pfx ++ "On" ++ c.cs.camel (objName c.s (.object rt))) (ownSels (.object rt) sub) := by
    intro f hf hfl
    rw [← hown_eq]; exact List.mem_filter.mpr ⟨hf, by simp [hfl]⟩
  rw [serPath_struct e (fs' + 1) _ n d cr _ hfind,
    ser_flat (dePath e true (fuel + 1)) (serPath e (fs' + 1)) (fcanonOfK c.s c.q c.o.skipNone (ownSels (.object rt) sub))
      mc kvs vals (varFields c pfx (.object rt) sub) hownf ?_ ?_ ?_ ?_]
  · rw [flatMap_entriesF_var c pfx (.object rt) _ mc kvs sub ht ?_ hmc]
    · rfl
    · intro t isub hm htv a fid sub' hx f hfx v
      subst htv
      exact hfcanon a fid sub' (mem_ownSels_of hm hx) f hfx v
  · intro f hf hfl j y hl hdx
    obtain ⟨a, fid, sub', sf, ft, hx, hsf, hfx, rfl, _⟩ := mem_fieldsOfS (hnonfl f hf hfl) hoS
    rw [fieldOf_wire] at hl
    rw [hfcanon a fid sub' hx _ hfx j]
    have hdep := depthsF_mem c.q hx
    exact HI _ hx false (sSels_mem hoS _ hx) (envSelsS_mem hoE _ hx) (rustOkSelsS_mem hoR _ hx)
      (noBSels_mem hoN _ hx) _ hfx
      true (fuel + 1) (fs' + 1) (by omega) (by omega) j y (hst a fid sub' hx sf hsf j hl) hdx
  · intro f hf hfl hskip j y _ hdx
    obtain ⟨a, fid, sub', sf, ft, _, _, _, rfl, _⟩ := mem_fieldsOfS (hnonfl f hf hfl) hoS
    refine field_unit_iff _ _ (.inr ?_) j y hdx
    rw [fieldOf_skipNone, Bool.and_eq_true] at hskip
    exact (isOption_rustOf ft sf.ty.quals).trans (skipQ_nullable hskip.2)
  · intro f hf hfl hdef
    obtain ⟨a, fid, sub', sf, ft, _, _, _, rfl, _⟩ := mem_fieldsOfS (hnonfl f hf hfl) hoS
    have : (decide (ft = "ID") && nullableQ sf.ty.quals) = true := hdef
    rw [Bool.and_eq_true] at this
    exact (isOption_rustOf ft sf.ty.quals).trans this.2
  · intro g hg hfl
    obtain ⟨gid, fr, hm, hfr, hon, rfl⟩ := mem_varFields_flatten hg hfl
    obtain ⟨y, hf, hser⟩ := hmemrt gid fr hm hfr hon
    exact ⟨y, hf, by rw [hser, hmc gid fr hm hfr hon]⟩

theorem depthsF_pos_of_mem (q : Query) {sels : List Sel} {x : Sel} (h : x ∈ sels) : 1 ≤ depthsF q sels := by
  have h1 := depthsF_mem q h
  have h2 : 1 ≤ depthF q x := by cases x <;> simp [depthF]
  omega

/-- **round trip of the payload of the variant of the runtime type**: the alias of a fragment struct, or the variant
    struct — written back as `canonVarT` of the entries it read -/
theorem rtVariantS (pfx : String) (ty : TypeId) (rt : Nat) (sub : List Sel)
    (HI : ∀ x ∈ ownSels (.object rt) sub, RTSelS e c (pfx ++ "On" ++ c.cs.camel (objName c.s (.object rt))) x)
    (hty : absHyp c.s ty) (ht : sSels c.s c.q c.o true sub = true) (hok : absOkS c.s c.q c.o ty sub = true)
    (henv : envSelsS e c pfx sub) (hve : VarEnv e c pfx (.object rt) sub) (hro : rustOkSelsS c sub = true)
    (hnbs : noBSels c.s c.q sub = true)
    (hvt : TypeId.object rt ∈ vtsOfTy c.s ty) (hrn : (varRust c (.object rt) sub).Nodup)
    (fd fs : Nat) (hfd : 2 * depthsF c.q sub + 1 ≤ fd) (hfs : 2 * depthsF c.q sub ≤ fs)
    (kvs : List (String × Json)) (hownok : FieldsOkS c.s c.q (ownSels (.object rt) sub) kvs)
    (hmemok : ∀ g fr, Sel.spread g ∈ sub → c.q.fragments[g]? = some fr → fr.on = .object rt →
      StrictAt c.s fr.sels kvs)
    (hne : mineOf c.q (.object rt) sub ≠ [])
    (x : Val) (hd : dePath e true fd (pfx ++ "On" ++ objName c.s (.object rt)) (.obj kvs) = .ok x) :
    serPath e fs (pfx ++ "On" ++ objName c.s (.object rt)) x =
      .ok (.obj (canonVarT c.s c.q c.o.skipNone (.object rt) sub kvs)) := by
  have hsp := spreadsA_abs hty hok
  have hmem : ∀ y ∈ mineOf c.q (.object rt) sub, y ∈ sub ∧ selOn c.q y = some (.object rt) := fun y hy => mem_mineOf hy
  have hpos : 1 ≤ depthsF c.q sub := by
    cases hmm : mineOf c.q (.object rt) sub with
    | nil => exact absurd hmm hne
    | cons y ys => exact depthsF_pos_of_mem c.q (hmem y (by rw [hmm]; simp)).1
  unfold VarEnv at hve
  by_cases hs : ∃ g, mineOf c.q (.object rt) sub = [Sel.spread g]
  · -- the alias of the fragment struct
    obtain ⟨g, hg⟩ := hs
    have hgm := hmem (.spread g) (by rw [hg]; simp)
    obtain ⟨fr, hfok, hfr, hon⟩ := hsp.onVt (obj_ne_abs hty rt) hgm.1 hgm.2
    rw [hg] at hve
    simp only at hve
    obtain ⟨hp, _, n, pub, hfinda⟩ := hve
    have hname : fragName c g = fr.name := by simp [fragName, hfr]
    rw [hname] at hfinda
    obtain ⟨fr', hfr', _, _, hv, hkeys⟩ := fragOk_parts hfok
    rw [hfr] at hfr'; cases hfr'
    have hfe : FragEnv e c g := fragEnv_of_S (envSelsS_mem henv _ hgm.1) hfr hon
    unfold FragEnv at hfe
    rw [hfr] at hfe
    have hrog : rustOkFrag c g = true := by have := rustOkSelsS_mem hro _ hgm.1; simpa [rustOkSelS] using this
    have hsels : fragSels c.q g = fr.sels := by simp [fragSels, hfr]
    simp only [rustOkFrag, hsels, Bool.and_eq_true] at hrog
    have hdep := depthsF_mem c.q hgm.1
    rw [depthF, hsels] at hdep
    obtain ⟨fd', rfl⟩ : ∃ k, fd = k + 1 := ⟨fd - 1, by omega⟩
    obtain ⟨fs', rfl⟩ : ∃ k, fs = k + 2 := ⟨fs - 2, by omega⟩
    have hda : dePath e true (fd' + 1) (pfx ++ "On" ++ objName c.s (.object rt)) (.obj kvs) =
        dePath e true fd' fr.name (.obj kvs) := by
      rw [dePath]; simp only [dePrim_none hp, hfinda, deTyWith]
    rw [hda] at hd
    rw [serPath_alias e _ _ n pub hfinda fs' x]
    rw [rtStructV e c _ _ fr.sels (fun y hy => (rtSelsV e c fr.sels _ y hy).1) false hv hfe.2 hrog.2 hrog.1 hkeys hfe.1
      true fd' (fs' + 1) (by omega) (by omega) kvs ⟨hownok.1, hmemok g fr hgm.1 hfr hon⟩ x hd]
    rw [← canonVarT_mineOf, hg]
    simp [canonVarT, hfr, hon]
  · -- the variant struct
    have hs' : ∀ g, mineOf c.q (.object rt) sub ≠ [Sel.spread g] := fun g hg => hs ⟨g, hg⟩
    have hstruct : StructEnv e (pfx ++ "On" ++ objName c.s (.object rt)) (varFields c pfx (.object rt) sub) := by
      revert hve
      split
      · rename_i h; exact absurd h hne
      · rename_i g h; exact absurd h (hs' g)
      · exact id
    exact rtVarStructS e c pfx ty rt sub HI hty ht hok henv hro hnbs hvt hrn hstruct fd fs hfd hfs hpos kvs hownok hmemok x hd

theorem mem_varKeys {s : Schema} {q : Query} {vt : TypeId} {k : String} : ∀ {sub : List Sel}, k ∈ varKeys s q vt sub →
    (∃ isub, Sel.inline vt isub ∈ sub ∧ k ∈ fieldKeys s isub) ∨
    (∃ g f, Sel.spread g ∈ sub ∧ q.fragments[g]? = some f ∧ f.on = vt ∧ k ∈ fieldKeys s f.sels)
  | [], h => by simp [varKeys] at h
  | x :: xs, h => by
    have lift : ((∃ isub, Sel.inline vt isub ∈ xs ∧ k ∈ fieldKeys s isub) ∨
        (∃ g f, Sel.spread g ∈ xs ∧ q.fragments[g]? = some f ∧ f.on = vt ∧ k ∈ fieldKeys s f.sels)) →
        ((∃ isub, Sel.inline vt isub ∈ x :: xs ∧ k ∈ fieldKeys s isub) ∨
        (∃ g f, Sel.spread g ∈ x :: xs ∧ q.fragments[g]? = some f ∧ f.on = vt ∧ k ∈ fieldKeys s f.sels)) := by
      intro h'
      rcases h' with ⟨isub, h1, h2⟩ | ⟨g, f, h1, h2⟩
      · exact .inl ⟨isub, List.mem_cons_of_mem _ h1, h2⟩
      · exact .inr ⟨g, f, List.mem_cons_of_mem _ h1, h2⟩
    cases x with
    | inline t isub =>
      rw [varKeys, List.mem_append] at h
      rcases h with h | h
      · by_cases htv : t = vt
        · subst htv; simp only [beq_self_eq_true, ↓reduceIte] at h; exact .inl ⟨isub, by simp, h⟩
        · have hne : (t == vt) = false := by simpa using htv
          simp [hne] at h
      · exact lift (mem_varKeys h)
    | spread g =>
      rw [varKeys, List.mem_append] at h
      rcases h with h | h
      · cases hf : q.fragments[g]? with
        | none => simp [hf] at h
        | some f =>
          simp only [hf] at h
          by_cases htv : f.on = vt
          · simp only [htv, beq_self_eq_true, ↓reduceIte] at h
            exact .inr ⟨g, f, by simp, hf, htv, h⟩
          · have hne : (f.on == vt) = false := by simpa using htv
            simp [hne] at h
      · exact lift (mem_varKeys h)
    | field a fid sub =>
      have e1 : varKeys s q vt (Sel.field a fid sub :: xs) = varKeys s q vt xs := by simp [varKeys]
      rw [e1] at h
      exact lift (mem_varKeys h)
    | typename =>
      have e1 : varKeys s q vt (Sel.typename :: xs) = varKeys s q vt xs := by simp [varKeys]
      rw [e1] at h
      exact lift (mem_varKeys h)

/-- no field key selected on a variant is an interface-level response key -/
theorem varKeys_excl {s : Schema} {q : Query} {o : Options} {ty vt : TypeId} {sub : List Sel}
    (hok : absOkS s q o ty sub = true) (hvne : vt ≠ ty) : ∀ k ∈ varKeys s q vt sub, k ∉ respKeys s sub := by
  obtain ⟨hok1, hsp, _⟩ := absOkS_parts hok
  obtain ⟨_, _, _, _, _, _, _, hexcl⟩ := absOk2_parts hok1
  intro k hk
  rcases mem_varKeys hk with ⟨isub, h1, h2⟩ | ⟨g, f, h1, h2, h3, h4⟩
  · exact hexcl _ isub h1 k h2
  · rcases hsp g h1 with ⟨_, f', _, _, hf', _, hkeys⟩ | ⟨f', _, hf', hon', _⟩
    · rw [h2] at hf'; cases hf'
      exact hkeys k h4
    · rw [h2] at hf'; cases hf'
      exact absurd (h3.symm.trans hon') hvne

theorem marks_contains (q : Query) (vt : TypeId) (sub : List Sel) :
    (List.filterMap inlineTy (marks q sub)).contains vt = !(mineOf q vt sub).isEmpty := by
  rw [marks_inlineTy]
  by_cases hm : mineOf q vt sub = []
  · have := (mineOf_nil_iff q _ sub).mp hm
    simp [hm, this]
  · have : vt ∈ sub.filterMap (selOn q) := by
      by_cases hcon : vt ∈ sub.filterMap (selOn q)
      · exact hcon
      · exact absurd ((mineOf_nil_iff q _ sub).mpr hcon) hm
    have h2 : (mineOf q vt sub).isEmpty = false := by simpa using hm
    simp [this, h2]

theorem selOn_mem_vts {s : Schema} {q : Query} {o : Options} {ty : TypeId} {sub : List Sel}
    (hty : absHyp s ty) (hok : absOkS s q o ty sub = true) (hnb : noBAt q ty sub = true) :
    ∀ t ∈ sub.filterMap (selOn q), t ∈ vtsOfTy s ty := by
  obtain ⟨hok1, _, _⟩ := absOkS_parts hok
  have hsp := spread_onA hty hok hnb
  obtain ⟨_, _, _, _, _, hin, _, _⟩ := absOk2_parts hok1
  intro t ht
  obtain ⟨x, hx, hxt⟩ := List.mem_filterMap.mp ht
  cases x with
  | inline t' isub =>
    simp only [selOn, Option.some.injEq] at hxt
    subst hxt
    exact hin _ (List.mem_filterMap.mpr ⟨_, hx, rfl⟩)
  | spread g =>
    obtain ⟨vt, f, hvt, _, hf, hon, _⟩ := hsp g hx
    simp only [selOn, hf, Option.map_some, Option.some.injEq] at hxt
    rw [← hxt, hon]; exact hvt
  | field a fid sub' => cases hxt
  | typename => cases hxt

/-- **round trip of the `__typename`-tagged enum** of an abstract position, read from the entries `kvs.filter q'` of a
    conforming response object (`q'` keeps the tag and every key that is no interface-level response key) -/
theorem rtTaggedS (pfx p : String) (ty : TypeId) (sub : List Sel)
    (HI : ∀ t isub, Sel.inline t isub ∈ sub → ∀ x ∈ isub, RTSelS e c (pfx ++ "On" ++ c.cs.camel (objName c.s t)) x)
    (hty : absHyp c.s ty) (ht : sSels c.s c.q c.o true sub = true) (hok : absOkS c.s c.q c.o ty sub = true)
    (henv : envSelsS e c pfx sub) (hve : ∀ vt ∈ vtsOfTy c.s ty, VarEnv e c pfx vt sub)
    (hro : rustOkSelsS c sub = true) (hrn : ∀ vt ∈ vtsOfTy c.s ty, (varRust c vt sub).Nodup)
    (hnb : noBAt c.q ty sub = true) (hnbs : noBSels c.s c.q sub = true)
    (hs : TaggedEnv e p (variantsV c pfx ty (marks c.q sub)))
    (rt : Nat) (kvs : List (String × Json)) (hnd : (kvs.map (·.1)).Nodup)
    (hconf : confSelsV c.s rt (expandSels c.q sub) kvs = true)
    (htag : Json.lookup "__typename" kvs = some (.str (rtName c.s rt))) (hmem : TypeId.object rt ∈ vtsOfTy c.s ty)
    (q' : String × Json → Bool) (hqt : ∀ v, q' ("__typename", v) = true)
    (hqi : ∀ k, k ∉ respKeys c.s sub → ∀ v, q' (k, v) = true)
    (buffered : Bool) (fd fs : Nat) (hfd : 2 * depthsF c.q sub + 1 ≤ fd) (hfs : 2 * depthsF c.q sub ≤ fs) (r : Val)
    (hd : deTaggedWith (dePath e true fd) buffered "__typename" (variantsV c pfx ty (marks c.q sub)) (kvs.filter q') = .ok r) :
    (∃ payload, r = .variant (rtName c.s rt) payload) ∧
    serPath e (fs + 1) p r = .ok (.obj (("__typename", .str (rtName c.s rt)) ::
      canonVarS c.s c.q c.o.skipNone (rtName c.s rt) sub kvs)) := by
  obtain ⟨hok1, _, _⟩ := absOkS_parts hok
  have hsp := spread_onA hty hok hnb
  obtain ⟨htn, hrk, hobj, _, hvn, hin, hind, hexcl⟩ := absOk2_parts hok1
  obtain ⟨hp, _, n, d, cr, hfind⟩ := hs
  have hcnt := countKey_le_one_of_nodup hnd
  have hl2 : Json.lookup "__typename" (kvs.filter q') = some (.str (rtName c.s rt)) := by
    rw [lookup_filter q' _ hqt]; exact htag
  have hc2 : countKey "__typename" (kvs.filter q') = 1 := by
    rw [countKey_filter q' _ hqt]
    have := countKey_pos_of_lookup htag
    have := hcnt "__typename"
    omega
  obtain ⟨hw1, hw2, hw3⟩ := variantOf_wire c pfx (marks c.q sub) (.object rt)
  have hvmem : variantOf c pfx (marks c.q sub) (.object rt) ∈ variantsV c pfx ty (marks c.q sub) := by
    unfold variantsV
    exact List.mem_append_left _ (List.mem_map_of_mem hmem)
  have hnames : ((vtsOfTy c.s ty).map (objName c.s)).Nodup := by
    unfold variantNames at hvn
    exact (List.nodup_append.mp hvn).1
  have htyn : "__typename" ∈ respKeys c.s sub := List.mem_filterMap.mpr ⟨_, typename_mem htn, rfl⟩
  -- the filter of the payload keeps every key that is no interface-level response key
  have hrest_q : ∀ k, k ∉ respKeys c.s sub → ∀ v,
      ((fun kv : String × Json => kv.1 != "__typename") (k, v) && q' (k, v)) = true := by
    intro k hk v
    have h2 : k ≠ "__typename" := fun heq => hk (heq ▸ htyn)
    simp [hqi k hk v, h2]
  have hcv : canonVarS c.s c.q c.o.skipNone (rtName c.s rt) sub kvs =
      canonVarT c.s c.q c.o.skipNone (.object rt) sub kvs :=
    canonVarS_eq c.s c.q c.o.skipNone (.object rt) kvs _ hnames hmem sub (selOn_mem_vts hty hok hnb)
  have hrt := tagged_roundtrip e fd fs buffered p n d cr "__typename" (variantsV c pfx ty (marks c.q sub)) (kvs.filter q')
    (variantOf c pfx (marks c.q sub) (.object rt)) (fun _ => canonVarS c.s c.q c.o.skipNone (rtName c.s rt) sub kvs) hfind
    (by rw [(variantsV_wire c pfx ty _).1]; exact hvn) (by rw [(variantsV_wire c pfx ty _).2]; exact hvn)
    hvmem hw3 hc2 (by rw [hw1]; exact hl2)
    (by
      intro t hpl x hx
      unfold variantOf at hpl
      rw [marks_contains] at hpl
      split at hpl
      · rename_i hcont
        simp only [Option.some.injEq] at hpl
        subst hpl
        have hne : mineOf c.q (.object rt) sub ≠ [] := by
          intro h; rw [h] at hcont; simp at hcont
        rw [List.filter_filter] at hx
        have hkeep : ∀ k ∈ varKeys c.s c.q (.object rt) sub, ∀ v,
            ((fun kv : String × Json => kv.1 != "__typename") (k, v) && q' (k, v)) = true :=
          fun k hk v => hrest_q k (varKeys_excl hok (obj_ne_abs hty rt) k hk) v
        have hI := rtVariantS e c pfx ty rt sub
          (fun y hy => by obtain ⟨isub, h1, h2⟩ := mem_ownSels hy; exact HI _ isub h1 y h2)
          hty ht hok henv (hve _ hmem) hro hnbs hmem (hrn _ hmem) fd fs hfd hfs
          (kvs.filter (fun kv => (kv.1 != "__typename") && q' kv))
          ⟨(List.filter_sublist.map _).nodup hnd, by
            intro a fid sub' hmf sf hsf v hl
            obtain ⟨isub, hi1, hi2⟩ := mem_ownSels hmf
            have hk : ∀ v, (fun kv : String × Json => (kv.1 != "__typename") && q' kv) (a.getD sf.name, v) = true :=
              fun v => hrest_q _ (hexcl _ isub hi1 _ (List.mem_filterMap.mpr ⟨_, hi2, by simp [fieldKey, hsf]⟩)) v
            rw [lookup_filter _ _ hk] at hl
            have hconf_i : confSelsV c.s rt (expandSels c.q isub) kvs = true := by
              have := confSelsV_mem hconf _ (expandSels_mem c.q hi1)
              simpa [expandSel, confSelV, fragApplies] using this
            exact (fieldsOkS_of_conf hnd hconf_i).2 a fid sub' hi2 sf hsf v hl⟩
          (by
            intro g fr hg hfr hon a fid sub' hmf sf hsf v hl
            obtain ⟨_, fr', _, _, hfr', _, hkeys⟩ := hsp g hg
            rw [hfr] at hfr'; cases hfr'
            have hk : ∀ v, (fun kv : String × Json => (kv.1 != "__typename") && q' kv) (a.getD sf.name, v) = true :=
              fun v => hrest_q _ (hkeys _ (List.mem_filterMap.mpr ⟨_, hmf, by simp [fieldKey, hsf]⟩)) v
            rw [lookup_filter _ _ hk] at hl
            have hconf_g : confSelsV c.s rt fr.sels kvs = true := by
              have := confSelsV_mem hconf _ (expandSels_mem c.q hg)
              simpa [expandSel, hfr, confSelV, hon, fragApplies] using this
            exact strictAt_of_conf hconf_g a fid sub' hmf sf hsf v hl)
          hne x hx
        rw [show serTyWith (serPath e fs) (.path (pfx ++ "On" ++ objName c.s (.object rt))) x =
          serPath e fs (pfx ++ "On" ++ objName c.s (.object rt)) x from rfl, hI,
          canonVarT_filter c.s c.q c.o.skipNone _ _ kvs sub hkeep, hcv]
      · cases hpl)
  obtain ⟨_, hval⟩ := hrt
  obtain ⟨⟨payload, hpv⟩, out, hser, hout, _⟩ := hval r hd
  rw [hw2] at hpv
  refine ⟨⟨payload, hpv⟩, ?_⟩
  rw [hser, hout, hw1]
  congr 3
  -- unit variant: nothing selected on `rt`
  unfold variantOf
  rw [marks_contains]
  split
  · rfl
  · rename_i hcont
    have hm : mineOf c.q (.object rt) sub = [] := by
      cases hmm : mineOf c.q (.object rt) sub with
      | nil => rfl
      | cons y ys => rw [hmm] at hcont; simp at hcont
    simp only [Option.isSome_none, Bool.false_eq_true, ↓reduceIte]
    rw [hcv, ← canonVarT_mineOf, hm]; rfl

/-- what a response object conforming at an abstract position (spreads expanded) looks like -/
theorem abs_conf_factsS {s : Schema} {q : Query} {o : Options} {ty : TypeId} {sub : List Sel} {j : Json}
    (hty : absHyp s ty) (hok : absOk2 s o ty sub = true) (h : conformsAt s ty (expandSels q sub) j = true) :
    ∃ rt kvs, j = .obj kvs ∧ (kvs.map (·.1)).Nodup ∧ confSelsV s rt (expandSels q sub) kvs = true ∧
      Json.lookup "__typename" kvs = some (.str (rtName s rt)) ∧ TypeId.object rt ∈ vtsOfTy s ty := by
  obtain ⟨htn, _, _, _, _, _, _, _⟩ := absOk2_parts hok
  simp only [conformsAt, List.any_eq_true, List.mem_range, Bool.and_eq_true] at h
  obtain ⟨rt, hrt, happ, hc⟩ := h
  cases j with
  | obj kvs =>
    simp only [conformsV, Bool.and_eq_true] at hc
    obtain ⟨⟨hnd, _⟩, hconf⟩ := hc
    refine ⟨rt, kvs, rfl, nodup_iff'.mp hnd, hconf, ?_, mem_vtsOfTy happ hrt hty⟩
    have := confSelsV_mem hconf _ (expandSels_typename q htn)
    simp only [confSelV] at this
    split at this
    · rename_i n hl; rw [hl]; simp only [beq_iff_eq] at this; rw [this]
    · cases this
  | null => simp [conformsV] at hc
  | bool _ => simp [conformsV] at hc
  | int _ => simp [conformsV] at hc
  | num _ => simp [conformsV] at hc
  | str _ => simp [conformsV] at hc
  | arr _ => simp [conformsV] at hc

/-- **round trip of the type(s) emitted at an abstract position** -/
theorem rtAbsS (pfx name : String) (ty : TypeId) (sub : List Sel) (H : ∀ x ∈ sub, RTSelS e c pfx x)
    (HI : ∀ t isub, Sel.inline t isub ∈ sub → ∀ x ∈ isub, RTSelS e c (pfx ++ "On" ++ c.cs.camel (objName c.s t)) x)
    (hty : absHyp c.s ty) (ht : sSels c.s c.q c.o true sub = true) (hok : absOkS c.s c.q c.o ty sub = true)
    (henv : envSelsS e c pfx sub) (hve : ∀ vt ∈ vtsOfTy c.s ty, VarEnv e c pfx vt sub)
    (hro : rustOkSelsS c sub = true) (hrn : EnumSpec.nodup (rustNames c sub ++ ["on"]) = true)
    (hrv : ∀ vt ∈ vtsOfTy c.s ty, (varRust c vt sub).Nodup) (hnb : noBAt c.q ty sub = true)
    (hnbs : noBSels c.s c.q sub = true)
    (hs : AbsEnv e name (fieldsB c pfx ty sub) (variantsV c pfx ty (marks c.q sub))) (b : Bool) (fd fs : Nat)
    (hfd : 2 * depthsF c.q sub + 3 ≤ fd) (hfs : 2 * depthsF c.q sub + 2 ≤ fs) (j : Json) (w : Val)
    (hc : conformsAt c.s ty (expandSels c.q sub) j = true) (hd : dePath e b fd name j = .ok w) :
    serPath e fs name w = .ok (canonAbsS c.s c.q c.o.skipNone sub j) := by
  obtain ⟨hok1, _, _⟩ := absOkS_parts hok
  rw [fieldsB_noB c pfx ty sub hnb] at hs
  obtain ⟨rt, kvs, rfl, hnd, hconf, htag, hmem⟩ := abs_conf_factsS hty hok1 hc
  obtain ⟨htn, hrk, _, _, _, _, _, hexcl⟩ := absOk2_parts hok1
  have hemp := isEmpty_fieldsOfS c pfx true sub ht
  have htagName : tagName kvs = rtName c.s rt := by simp [tagName, htag]
  unfold AbsEnv at hs
  simp only [canonAbsS, htagName]
  cases hF : sub.any isFieldSel
  · -- the tagged enum alone
    rw [hF] at hemp
    simp only [hemp, Bool.not_false, ↓reduceIte] at hs
    obtain ⟨fd', rfl⟩ : ∃ k, fd = k + 1 := ⟨fd - 1, by omega⟩
    obtain ⟨fs', rfl⟩ : ∃ k, fs = k + 1 := ⟨fs - 1, by omega⟩
    rw [dePath_tagged e b fd' name _ _ _ _ _ hs.1 hs.2.2.choose_spec.choose_spec.choose_spec] at hd
    have hkf : kvs = kvs.filter (fun _ => true) := (List.filter_eq_self.mpr (fun _ _ => rfl)).symm
    rw [hkf] at hd
    have := (rtTaggedS e c pfx name ty sub HI hty ht hok henv hve hro hrv hnb hnbs hs rt kvs hnd hconf htag hmem (fun _ => true)
      (fun _ => rfl) (fun _ _ _ => rfl) b fd' fs' (by omega) (by omega) w hd).2
    rw [this, canonEntriesS_nofield c.s c.q _ kvs sub hF]; rfl
  · -- the struct with the interface-level fields and the flattened `on`
    rw [hF] at hemp
    simp only [hemp, Bool.not_true, Bool.false_eq_true, ↓reduceIte] at hs
    obtain ⟨⟨hp, _, n, d, cr, hfind⟩, hsT⟩ := hs
    have hsT' := hsT
    obtain ⟨_, _, n', d', cr', hfind'⟩ := hsT'
    obtain ⟨fd', rfl⟩ : ∃ k, fd = k + 2 := ⟨fd - 2, by omega⟩
    obtain ⟨fs', rfl⟩ : ∃ k, fs = k + 2 := ⟨fs - 2, by omega⟩
    have hpl := plain_fieldsOfV c pfx sub
    have hcnt := countKey_le_one_of_nodup hnd
    rw [dePath_struct e b (fd' + 1) name n d cr _ hp hfind, deStruct_obj,
      deStructMap_on e fd' _ _ (onField name) (name ++ "On") n' d' cr' "__typename" _ kvs hpl rfl rfl hfind'] at hd
    obtain ⟨own, hown, hd⟩ := C02.bind_ok hd
    obtain ⟨r, hr, hd⟩ := C02.bind_ok hd
    simp only [pure, Except.pure, Except.ok.injEq] at hd
    have hall := (deOwn_ok_iff _ kvs hcnt _ own hpl).mp hown
    have hrust : ((fieldsOfV c pfx sub ++ [onField name]).map (·.rust)).Nodup := by
      rw [List.map_append, rust_fieldsOfS c pfx true sub ht]
      exact nodup_iff'.mp hrn
    rw [assemble_on _ (onField name) own r (hall.imp (fun _ _ hh => hh.1)) hrust] at hd
    subst hd
    have hkn := nodup_iff'.mp hrk
    -- own fields
    have hfindown := find_of_all2 (R := fun f x => readField (dePath e b (fd' + 1)) f kvs = .ok x) hall (by
      rw [rust_fieldsOfS c pfx true sub ht]
      exact (List.nodup_append.mp (nodup_iff'.mp hrn)).1)
    have hon_not : "on" ∉ own.map (·.1) := by
      have e1 : own.map (·.1) = (fieldsOfV c pfx sub).map (·.rust) := All2.map_fst (fun _ _ hh => hh.1) hall
      rw [e1, rust_fieldsOfS c pfx true sub ht]
      have := (List.nodup_append.mp (nodup_iff'.mp hrn)).2.2
      intro hm
      exact this _ hm _ (by simp) rfl
    have hs1 : serFieldsWith (serPath e (fs' + 1)) (fieldsOfV c pfx sub) (own ++ [("on", r)]) =
        .ok (expectOut (fcanonOfS c.s c.q c.o.skipNone sub) (fieldsOfV c pfx sub) kvs) := by
      refine ser_of_read (dePath e b (fd' + 1)) _ _ kvs _ _ hpl ?_ ?_ ?_ ?_
      · intro f hf
        obtain ⟨x, hx, hR⟩ := hfindown f hf
        exact ⟨x, by rw [List.find?_append, hx]; rfl, hR⟩
      · intro f hf jv x hl hdx
        obtain ⟨a, fid, sub', sf, ft, hx, hsf, hfx, rfl, _⟩ := mem_fieldsOfS hf ht
        rw [fieldOf_wire] at hl
        have hst : strictFieldV c.s (expandSel c.q (.field a fid sub')) jv = true :=
          (fieldsOkS_of_conf hnd hconf).2 a fid sub' hx sf hsf jv hl
        have hfc : fcanonOfS c.s c.q c.o.skipNone sub (fieldOf c (a.getD sf.name) ft sf.ty.quals sf.deprecation) jv =
            canonFieldS c.s c.q c.o.skipNone (.field a fid sub') jv := by
          unfold fcanonOfS
          rw [fieldOf_wire, find_respKey c.s _ sub hkn _ hx (by simp [respKey, hsf])]
        rw [hfc]
        have hdep := depthsF_mem c.q hx
        exact H _ hx true (sSels_mem ht _ hx) (envSelsS_mem henv _ hx) (rustOkSelsS_mem hro _ hx)
          (noBSels_mem hnbs _ hx) _ hfx b (fd' + 1) (fs' + 1) (by omega) (by omega) jv x hst hdx
      · intro f hf hskip jv x _ hdx
        obtain ⟨a, fid, sub', sf, ft, _, _, _, rfl, _⟩ := mem_fieldsOfS hf ht
        refine field_unit_iff _ _ (.inr ?_) jv x hdx
        rw [fieldOf_skipNone, Bool.and_eq_true] at hskip
        exact (isOption_rustOf ft sf.ty.quals).trans (skipQ_nullable hskip.2)
      · intro f hf hdef
        obtain ⟨a, fid, sub', sf, ft, _, _, _, rfl, _⟩ := mem_fieldsOfS hf ht
        have : (decide (ft = "ID") && nullableQ sf.ty.quals) = true := hdef
        rw [Bool.and_eq_true] at this
        exact (isOption_rustOf ft sf.ty.quals).trans this.2
    -- the flattened tagged enum
    rw [wire_fieldsOfS c pfx true sub ht] at hr
    have hnf := typename_not_fieldKey c.s sub htn hrk
    have hs2 := (rtTaggedS e c pfx (name ++ "On") ty sub HI hty ht hok henv hve hro hrv hnb hnbs hsT rt kvs hnd hconf htag hmem
      (fun kv => !(fieldKeys c.s sub).contains kv.1) (by intro v; simpa using hnf)
      (by
        intro k hk v
        have : k ∉ fieldKeys c.s sub := fun h' => hk (fieldKeys_sub_respKeys c.s sub k h')
        simpa using this)
      true fd' fs' (by omega) (by omega) r hr).2
    rw [serPath_struct e (fs' + 1) name n d cr _ hfind,
      flatten_ser_concat _ _ (fieldsOfV c pfx sub) [] (onField name) "on" r _ _ [] hpl rfl
        (find_append_not_left hon_not) hs1 hs2 rfl]
    rw [expectOut_canonS c pfx true _ kvs sub ht (by
      intro a fid sub' hx f hfx v
      obtain ⟨sf, ft, hsf, _, hf', _⟩ := fieldOfSelV_s c pfx true a fid sub' (sSels_mem ht _ hx)
      rw [hf'] at hfx
      cases hfx
      unfold fcanonOfS
      rw [fieldOf_wire, find_respKey c.s _ sub hkn _ hx (by simp [respKey, hsf])])]
    simp only [List.append_nil]
    rfl

end RTS2

section RTS3
variable (e : Env) (c : Ctx)

theorem vtsOfField_of {c : Ctx} {fid : Nat} {sf : StoredField} (hsf : c.s.fields[fid]? = some sf) :
    vtsOfField c fid = vtsOfTy c.s sf.ty.id := by
  simp [vtsOfField, hsf]

mutual
  theorem rtSelS : ∀ (x : Sel) (pfx : String), RTSelS e c pfx x
    | .field a fid sub, pfx => by
      intro abs ht henv hro hnbx f hf b fd fs hfd hfs v y hst hd
      have IH := rtSelsS sub
      have IHI := rtInlS sub
      rw [depthF] at hfd hfs
      obtain ⟨fd', rfl⟩ : ∃ k, fd = k + 3 := ⟨fd - 3, by omega⟩
      obtain ⟨fs', rfl⟩ : ∃ k, fs = k + 1 := ⟨fs - 1, by omega⟩
      rw [sSel] at ht
      rw [envSelS] at henv
      rw [rustOkSelS, Bool.and_eq_true, Bool.and_eq_true] at hro
      rw [noBSel, Bool.and_eq_true] at hnbx
      simp only [expandSel, strictFieldV] at hst
      rw [canonFieldS]
      cases hsf : c.s.fields[fid]? with
      | none => simp [hsf] at ht
      | some sf =>
        simp only [hsf, Bool.and_eq_true] at ht henv hst hnbx ⊢
        obtain ⟨⟨hw, _⟩, hty⟩ := ht
        have hwf : wf (gtyOf sf.ty.quals) = true := by rw [wf_gtyOf]; exact hw
        rw [isAbsField_of hsf, vtsOfField_of hsf] at hro
        cases hid : sf.ty.id with
        | scalar k =>
          simp only [hid, Bool.and_eq_true] at hty henv hst ⊢
          cases hk : c.s.scalars[k]? with
          | none => simp [hk] at hty
          | some sn =>
            simp only [hk] at henv hst ⊢
            simp only [fieldOfSelV, hsf, leafNameV, hid, hk, Option.some.injEq] at hf
            subst hf
            by_cases hID : sn = "ID"
            · subst hID
              simp only [↓reduceIte]
              exact field_roundtrip_id _ _ (fun s => serPath_prim e fs' "ID" (.str s) (.str s) rfl) _
                (gtyOf sf.ty.quals) (by simp [fieldOf]) rfl hwf v y hd
            · simp only [hID, ↓reduceIte]
              have := field_roundtrip_plain (dePath e b (fd' + 3)) (serPath e (fs' + 1)) _ sn (gtyOf sf.ty.quals) id
                (by simp [fieldOf, hID]) rfl hwf (leaf_scalar_rt e sn henv hID b fd' fs') v y hd
              rwa [(canon_id _).2 v] at this
        | «enum» k =>
          simp only [hid, Bool.and_eq_true] at hty henv hst ⊢
          cases hk : c.s.enums[k]? with
          | none => simp [hk] at hty
          | some en =>
            simp only [hk] at henv hst
            simp only [fieldOfSelV, hsf, leafNameV, hid, hk, Option.some.injEq, Option.map_some] at hf
            subst hf
            obtain ⟨hp, hID, n', d, sp, vs, ser, de, hfind, hwft⟩ := henv
            have := field_roundtrip_plain (dePath e b (fd' + 3)) (serPath e (fs' + 1)) _ en.name (gtyOf sf.ty.quals) id
              (by simp [fieldOf, hID]) rfl hwf
              (leaf_enum_rt e b (fd' + 2) fs' en.name n' d sp vs ser de hp hfind hwft) v y hd
            rwa [(canon_id _).2 v] at this
        | object i =>
          simp only [hid, Bool.and_eq_true] at hty henv hst ⊢
          simp only [fieldOfSelV, hsf, leafNameV, hid, Option.some.injEq] at hf
          subst hf
          obtain ⟨hs, hesub⟩ := henv
          rw [deField_plain _ _ _ _ hs.2.1] at hd
          rw [canonLambdaS]
          simp only [hid, TypeId.isAbstract, Bool.false_eq_true, ↓reduceIte, List.append_nil] at hro
          refine (leaf_roundtrip_on (dePath e b (fd' + 3)) (serPath e (fs' + 1)) _
            (conformsAt c.s (.object i) (expandSels c.q sub)) (canonSelS c.s c.q c.o.skipNone sub) ?_ _ hwf).2 v y hst hd
          intro j w hc hdw
          simp only [conformsAt, List.any_eq_true, List.mem_range, Bool.and_eq_true] at hc
          obtain ⟨rt, _, _, hcv⟩ := hc
          cases j with
          | obj kvs =>
            simp only [conformsV, Bool.and_eq_true] at hcv
            exact rtStructS e c _ _ sub (fun x hx => IH _ x hx) false hty.1.2 hesub hro.1.2 hnbx.2 hro.1.1 hty.2 hs b _ _
              (by omega) (by omega) kvs (fieldsOkS_of_conf (nodup_iff'.mp hcv.1.1) hcv.2) w hdw
          | null => simp [conformsV] at hcv
          | bool _ => simp [conformsV] at hcv
          | int _ => simp [conformsV] at hcv
          | num _ => simp [conformsV] at hcv
          | str _ => simp [conformsV] at hcv
          | arr _ => simp [conformsV] at hcv
        | interface k =>
          simp only [hid, Bool.and_eq_true] at hty henv hst ⊢
          simp only [fieldOfSelV, hsf, leafNameV, hid, Option.some.injEq] at hf
          subst hf
          have hlg : loneG sub = none ∧ absOkS c.s c.q c.o (.interface k) sub = true := by
            rcases absOkL_cases hty.2 with ⟨hok, hlg⟩ | ⟨g, rfl, hokB⟩
            · exact ⟨hlg, hok⟩
            · have := noBAt_lone_false hokB
              simp [hid, TypeId.isAbstract, this] at hnbx
          obtain ⟨hlg, hok⟩ := hlg
          simp only [hlg] at henv
          obtain ⟨hs, hve, hesub⟩ := henv
          have hID : pfx ++ c.cs.camel (a.getD sf.name) ≠ "ID" := by
            unfold AbsEnv at hs; split at hs
            · exact hs.2.1
            · exact hs.1.2.1
          rw [deField_plain _ _ _ _ hID] at hd
          rw [canonLambdaAbsS]
          simp only [hid, TypeId.isAbstract, ↓reduceIte, List.all_eq_true] at hro
          refine (leaf_roundtrip_on (dePath e b (fd' + 3)) (serPath e (fs' + 1)) _
            (conformsAt c.s (.interface k) (expandSels c.q sub)) (canonAbsS c.s c.q c.o.skipNone sub) ?_ _ hwf).2 v y hst hd
          intro j w hc hdw
          exact rtAbsS e c _ _ (.interface k) sub (fun x hx => IH _ x hx) (fun t isub hm x hx => IHI t isub hm _ x hx)
            hty.1.1 hty.1.2 hok hesub hve hro.1.2 hro.1.1 (fun vt hvt => nodup_iff'.mp (hro.2 vt hvt))
            (by simpa [hid, TypeId.isAbstract] using hnbx.1) hnbx.2 hs b _ _
            (by omega) (by omega) j w hc hdw
        | union k =>
          simp only [hid, Bool.and_eq_true] at hty henv hst ⊢
          simp only [fieldOfSelV, hsf, leafNameV, hid, Option.some.injEq] at hf
          subst hf
          have hlg : loneG sub = none ∧ absOkS c.s c.q c.o (.union k) sub = true := by
            rcases absOkL_cases hty.2 with ⟨hok, hlg⟩ | ⟨g, rfl, hokB⟩
            · exact ⟨hlg, hok⟩
            · have := noBAt_lone_false hokB
              simp [hid, TypeId.isAbstract, this] at hnbx
          obtain ⟨hlg, hok⟩ := hlg
          simp only [hlg] at henv
          obtain ⟨hs, hve, hesub⟩ := henv
          have hID : pfx ++ c.cs.camel (a.getD sf.name) ≠ "ID" := by
            unfold AbsEnv at hs; split at hs
            · exact hs.2.1
            · exact hs.1.2.1
          rw [deField_plain _ _ _ _ hID] at hd
          rw [canonLambdaAbsS]
          simp only [hid, TypeId.isAbstract, ↓reduceIte, List.all_eq_true] at hro
          refine (leaf_roundtrip_on (dePath e b (fd' + 3)) (serPath e (fs' + 1)) _
            (conformsAt c.s (.union k) (expandSels c.q sub)) (canonAbsS c.s c.q c.o.skipNone sub) ?_ _ hwf).2 v y hst hd
          intro j w hc hdw
          exact rtAbsS e c _ _ (.union k) sub (fun x hx => IH _ x hx) (fun t isub hm x hx => IHI t isub hm _ x hx)
            hty.1.1 hty.1.2 hok hesub hve hro.1.2 hro.1.1 (fun vt hvt => nodup_iff'.mp (hro.2 vt hvt))
            (by simpa [hid, TypeId.isAbstract] using hnbx.1) hnbx.2 hs b _ _
            (by omega) (by omega) j w hc hdw
        | input k => simp [hid] at hty
    | .spread g, pfx => by intro _ _ _ _ _ f hf; cases hf
    | .inline t isub, pfx => by intro _ _ _ _ _ f hf; cases hf
    | .typename, pfx => by intro _ _ _ _ _ f hf; cases hf
  theorem rtSelsS : ∀ (sels : List Sel) (pfx : String), ∀ x ∈ sels, RTSelS e c pfx x
    | [], _, x, hx => by simp at hx
    | y :: ys, pfx, x, hx => by
      rcases List.mem_cons.mp hx with h | hx'
      · rw [h]; exact rtSelS y pfx
      · exact rtSelsS ys pfx x hx'
  /-- the fields of the bodies of the inline fragments of a selection set -/
  theorem rtInlS : ∀ (sels : List Sel) (t : TypeId) (isub : List Sel), Sel.inline t isub ∈ sels →
      ∀ pfx, ∀ x ∈ isub, RTSelS e c pfx x
    | [], _, _, h => by simp at h
    | y :: ys, t, isub, hm => by
      rcases List.mem_cons.mp hm with heq | hm'
      · cases y with
        | inline t' isub' =>
          cases heq
          exact fun pfx => rtSelsS isub pfx
        | field a fid sub => cases heq
        | spread g => cases heq
        | typename => cases heq
      · exact rtInlS ys t isub hm'
end

/-- **round trip of the struct emitted for an object-level selection set** of the class `VariantSpreadOp` -/
theorem structS_lossless (pfx name : String) (sels : List Sel)
    (ht : sSels c.s c.q c.o false sels = true) (henv : envSelsS e c pfx sels)
    (hro : rustOkSelsS c sels = true) (hnbs : noBSels c.s c.q sels = true)
    (hrn : EnumSpec.nodup (rustNames c sels) = true)
    (hkeys : EnumSpec.nodup (respKeys c.s sels) = true)
    (hs : StructEnv e name (fieldsOfV c pfx sels)) (b : Bool) (fd fs : Nat)
    (hfd : 2 * depthsF c.q sels + 2 ≤ fd) (hfs : 2 * depthsF c.q sels + 1 ≤ fs) (rt : Nat) (j : Json) (v : Val)
    (hc : conformsV c.s rt (expandSels c.q sels) j = true) (hd : dePath e b fd name j = .ok v) :
    serPath e fs name v = .ok (canonSelS c.s c.q c.o.skipNone sels j) := by
  cases j with
  | obj kvs =>
    simp only [conformsV, Bool.and_eq_true] at hc
    exact rtStructS e c pfx name sels (fun x hx => rtSelsS e c sels pfx x hx) false ht henv hro hnbs hrn hkeys hs b fd fs
      hfd hfs kvs (fieldsOkS_of_conf (nodup_iff'.mp hc.1.1) hc.2) v hd
  | null => simp [conformsV] at hc
  | bool _ => simp [conformsV] at hc
  | int _ => simp [conformsV] at hc
  | num _ => simp [conformsV] at hc
  | str _ => simp [conformsV] at hc
  | arr _ => simp [conformsV] at hc

end RTS3


/-! ## `serde_json::to_value` normalisation leaves the canonical form alone -/

theorem canonEntriesS_keys (s : Schema) (q : Query) (skip : Bool) (kvs : List (String × Json)) :
    ∀ sels : List Sel, ((canonEntriesS s q skip sels kvs).map (·.1)).Sublist (fieldKeys s sels)
  | [] => by simp [canonEntriesS, fieldKeys]
  | x :: xs => by
    have ih := canonEntriesS_keys s q skip kvs xs
    cases x with
    | field a fid sub =>
      rw [canonEntriesS.eq_2]
      simp only [fieldKeys, List.filterMap_cons, fieldKey]
      cases hsf : s.fields[fid]? with
      | none => simpa [fieldKeys] using ih
      | some sf =>
        simp only [Option.map_some, List.map_append]
        have : ∀ l : List (String × Json), (l = [] ∨ ∃ v, l = [(a.getD sf.name, v)]) →
            (l.map (·.1) ++ (canonEntriesS s q skip xs kvs).map (·.1)).Sublist
              (a.getD sf.name :: List.filterMap (fieldKey s) xs) := by
          intro l hl
          rcases hl with rfl | ⟨v, rfl⟩
          · exact List.Sublist.cons _ ih
          · exact List.Sublist.cons_cons _ ih
        apply this
        cases Json.lookup (a.getD sf.name) kvs with
        | none => simp only []; split <;> simp
        | some v => simp only []; split <;> simp
    | spread g => simpa [canonEntriesS, fieldKeys, List.filterMap_cons, fieldKey] using ih
    | inline t sub => simpa [canonEntriesS, fieldKeys, List.filterMap_cons, fieldKey] using ih
    | typename => simpa [canonEntriesS, fieldKeys, List.filterMap_cons, fieldKey] using ih

theorem canonVarT_keys (s : Schema) (q : Query) (skip : Bool) (vt : TypeId) (kvs : List (String × Json)) :
    ∀ sub : List Sel, ((canonVarT s q skip vt sub kvs).map (·.1)).Sublist (varKeys s q vt sub)
  | [] => by simp [canonVarT, varKeys]
  | x :: xs => by
    have ih := canonVarT_keys s q skip vt kvs xs
    cases x with
    | inline t isub =>
      rw [canonVarT, varKeys, List.map_append]
      refine List.Sublist.append ?_ ih
      split
      · exact canonEntriesS_keys s q skip kvs isub
      · simp
    | spread g =>
      rw [canonVarT, varKeys, List.map_append]
      refine List.Sublist.append ?_ ih
      cases hf : q.fragments[g]? with
      | none => simp
      | some f =>
        simp only []
        split
        · exact canonEntriesV_keys s skip kvs f.sels
        · simp
    | field a fid sub => simpa [canonVarT, varKeys] using ih
    | typename => simpa [canonVarT, varKeys] using ih

/-- under every selected field's key, a value conforming to the field (spreads below expanded) -/
def StrictAtS (s : Schema) (q : Query) (sels : List Sel) (kvs : List (String × Json)) : Prop :=
  ∀ a fid sub, Sel.field a fid sub ∈ sels → ∀ sf, s.fields[fid]? = some sf →
    ∀ v, Json.lookup (a.getD sf.name) kvs = some v → strictFieldV s (expandSel q (.field a fid sub)) v = true

theorem strictAtS_of_conf {s : Schema} {q : Query} {rt : Nat} {sels : List Sel} {kvs : List (String × Json)}
    (h : confSelsV s rt (expandSels q sels) kvs = true) : StrictAtS s q sels kvs := by
  intro a fid sub hm sf hsf v hl
  have := confSelsV_mem h _ (expandSels_mem q hm)
  rw [expandSel, confSelV_field] at this
  rw [expandSel]
  simpa [hsf, hl] using this

section NormS
variable (s : Schema) (q : Query) (o : Options) (skip : Bool)

theorem canonVarT_norm (rt : Nat) (kvs : List (String × Json)) : ∀ (sub : List Sel),
    (∀ t isub, Sel.inline t isub ∈ sub → t = .object rt →
      ∀ kv ∈ canonEntriesS s q skip isub kvs, normJson kv.2 = kv.2) →
    (∀ g f, Sel.spread g ∈ sub → q.fragments[g]? = some f → f.on = .object rt →
      ∀ kv ∈ canonEntriesV s skip f.sels kvs, normJson kv.2 = kv.2) →
    ∀ kv ∈ canonVarT s q skip (.object rt) sub kvs, normJson kv.2 = kv.2
  | [], _, _ => by simp [canonVarT]
  | x :: xs, hi, hs' => by
    have ih := canonVarT_norm rt kvs xs (fun t isub hm => hi t isub (List.mem_cons_of_mem _ hm))
      (fun g f hm => hs' g f (List.mem_cons_of_mem _ hm))
    cases x with
    | inline t isub =>
      rw [canonVarT]
      intro kv hkv
      rcases List.mem_append.mp hkv with hkv | hkv
      · by_cases htv : t = .object rt
        · simp only [htv, beq_self_eq_true, ↓reduceIte] at hkv
          exact hi t isub (by simp) htv kv hkv
        · have hne : (t == TypeId.object rt) = false := by simpa using htv
          simp [hne] at hkv
      · exact ih kv hkv
    | spread g =>
      rw [canonVarT]
      intro kv hkv
      rcases List.mem_append.mp hkv with hkv | hkv
      · cases hf : q.fragments[g]? with
        | none => simp [hf] at hkv
        | some f =>
          simp only [hf] at hkv
          by_cases htv : f.on = .object rt
          · simp only [htv, beq_self_eq_true, ↓reduceIte] at hkv
            exact hs' g f (by simp) hf htv kv hkv
          · have hne : (f.on == TypeId.object rt) = false := by simpa using htv
            simp [hne] at hkv
      · exact ih kv hkv
    | field a fid sub => simpa [canonVarT] using ih
    | typename => simpa [canonVarT] using ih

/-- the canonical form at an abstract position is a normal form, given that of its parts -/
theorem norm_absS (ty : TypeId) (sub : List Sel)
    (IHe : ∀ kvs, StrictAtS s q sub kvs → ∀ kv ∈ canonEntriesS s q skip sub kvs, normJson kv.2 = kv.2)
    (IHi : ∀ t isub, Sel.inline t isub ∈ sub → ∀ kvs, StrictAtS s q isub kvs →
      ∀ kv ∈ canonEntriesS s q skip isub kvs, normJson kv.2 = kv.2)
    (hty : absHyp s ty) (ht : sSels s q o true sub = true) (hok : absOkS s q o ty sub = true)
    (hnb : noBAt q ty sub = true) (j : Json)
    (hc : conformsAt s ty (expandSels q sub) j = true) : normJson (canonAbsS s q skip sub j) = canonAbsS s q skip sub j := by
  obtain ⟨hok1, _, hvk⟩ := absOkS_parts hok
  have hsp := spread_onA hty hok hnb
  obtain ⟨rt, kvs, rfl, hnd, hconf, htag, hmem⟩ := abs_conf_factsS hty hok1 hc
  obtain ⟨htn, hrk, _, _, hvn, hin, hind, hexcl⟩ := absOk2_parts hok1
  have htagName : tagName kvs = rtName s rt := by simp [tagName, htag]
  have hnames : ((vtsOfTy s ty).map (objName s)).Nodup := by
    unfold variantNames at hvn
    exact (List.nodup_append.mp hvn).1
  have hfk : (fieldKeys s sub).Nodup := (fieldKeys_sublist s sub).nodup (nodup_iff'.mp hrk)
  have hnf := typename_not_fieldKey s sub htn hrk
  have htyn : "__typename" ∈ respKeys s sub := List.mem_filterMap.mpr ⟨_, typename_mem htn, rfl⟩
  simp only [canonAbsS, htagName]
  rw [show rtName s rt = objName s (.object rt) from rfl,
    canonVarS_eq s q skip (.object rt) kvs _ hnames hmem sub (selOn_mem_vts hty hok hnb)]
  apply normJson_obj_fixed
  · have hsub : ((canonEntriesS s q skip sub kvs ++
        (("__typename", Json.str (objName s (.object rt))) :: canonVarT s q skip (.object rt) sub kvs)).map (·.1)).Sublist
        (fieldKeys s sub ++ ("__typename" :: varKeys s q (.object rt) sub)) := by
      simp only [List.map_append, List.map_cons]
      exact (canonEntriesS_keys s q skip kvs sub).append ((canonVarT_keys s q skip _ kvs sub).cons_cons _)
    refine hsub.nodup ?_
    rw [List.nodup_append]
    refine ⟨hfk, ?_, ?_⟩
    · rw [List.nodup_cons]
      exact ⟨fun hm => varKeys_excl hok (obj_ne_abs hty rt) _ hm htyn, hvk _ hmem⟩
    · intro a ha b hb hab
      subst hab
      simp only [List.mem_cons] at hb
      rcases hb with rfl | hb
      · exact hnf ha
      · exact varKeys_excl hok (obj_ne_abs hty rt) _ hb (fieldKeys_sub_respKeys s sub _ ha)
  · intro kv hkv
    simp only [List.mem_append, List.mem_cons] at hkv
    rcases hkv with hkv | rfl | hkv
    · exact IHe kvs (strictAtS_of_conf hconf) kv hkv
    · exact normJson_str _
    · refine canonVarT_norm s q skip rt kvs sub ?_ ?_ kv hkv
      · intro t isub hm htv
        have hconf_i : confSelsV s rt (expandSels q isub) kvs = true := by
          have := confSelsV_mem hconf _ (expandSels_mem q hm)
          simpa [expandSel, confSelV, htv, fragApplies] using this
        exact IHi t isub hm kvs (strictAtS_of_conf hconf_i)
      · intro g f hm hf hon
        obtain ⟨_, f', _, hfok, hf', _, _⟩ := hsp g hm
        rw [hf] at hf'; cases hf'
        obtain ⟨f', hf', _, _, hv, _⟩ := fragOk_parts hfok
        rw [hf] at hf'; cases hf'
        have hconf_g : confSelsV s rt f.sels kvs = true := by
          have := confSelsV_mem hconf _ (expandSels_mem q hm)
          simpa [expandSel, hf, confSelV, hon, fragApplies] using this
        exact normEntriesV s o skip f.sels false kvs hv (strictAt_of_conf hconf_g)

mutual
  theorem normFieldS : ∀ (x : Sel) (abs : Bool) (v : Json), sSel s q o abs x = true → noBSel s q x = true →
      strictFieldV s (expandSel q x) v = true → normJson (canonFieldS s q skip x v) = canonFieldS s q skip x v
    | .field a fid sub, abs, v => by
      intro ht hnbx hst
      rw [noBSel, Bool.and_eq_true] at hnbx
      have IHe := normEntriesS sub
      have IHi := normInlsS sub
      rw [sSel] at ht
      simp only [expandSel, strictFieldV] at hst
      rw [canonFieldS]
      cases hsf : s.fields[fid]? with
      | none => simp [hsf] at ht
      | some sf =>
        simp only [hsf, Bool.and_eq_true] at ht hst hnbx ⊢
        obtain ⟨_, hty⟩ := ht
        cases hid : sf.ty.id with
        | scalar k =>
          simp only [hid] at hst ⊢
          cases hk : s.scalars[k]? with
          | none => simp [hk] at hst
          | some sn =>
            simp only [hk] at hst ⊢
            by_cases hID : sn = "ID"
            · subst hID
              simp only [↓reduceIte]
              exact (norm_canon idOk idCanon norm_idCanon _).2 v (by simpa [scalarOk] using hst)
            · simp only [hID, ↓reduceIte]
              have := (norm_canon (scalarOk sn) id (norm_scalar sn) _).2 v hst
              rwa [(canon_id _).2 v] at this
        | «enum» k =>
          simp only [hid] at hst ⊢
          cases hk : s.enums[k]? with
          | none => simp [hk] at hst
          | some en =>
            simp only [hk] at hst
            have := (norm_canon stringOk id norm_string _).2 v hst
            rwa [(canon_id _).2 v] at this
        | object i =>
          simp only [hid, Bool.and_eq_true] at hty hst ⊢
          rw [canonLambdaS]
          refine (norm_canon (conformsAt s (.object i) (expandSels q sub)) (canonSelS s q skip sub) ?_ _).2 v hst
          intro j hj
          simp only [conformsAt, List.any_eq_true, List.mem_range, Bool.and_eq_true] at hj
          obtain ⟨rt, _, _, hcv⟩ := hj
          cases j with
          | obj kvs =>
            simp only [conformsV, Bool.and_eq_true] at hcv
            rw [canonSelS]
            exact normJson_obj_fixed _
              (((canonEntriesS_keys s q skip kvs sub).trans (fieldKeys_sublist s sub)).nodup (nodup_iff'.mp hty.2))
              (IHe false kvs hty.1.2 hnbx.2 (strictAtS_of_conf hcv.2))
          | null => rfl
          | bool _ => rfl
          | int _ => rfl
          | num _ => rfl
          | str _ => rfl
          | arr _ => simp [conformsV] at hcv
        | interface k =>
          simp only [hid, Bool.and_eq_true] at hty hst ⊢
          have hok : absOkS s q o (.interface k) sub = true := by
            rcases absOkL_cases hty.2 with ⟨hok, _⟩ | ⟨g, rfl, hokB⟩
            · exact hok
            · have := noBAt_lone_false hokB
              simp [hid, TypeId.isAbstract, this] at hnbx
          rw [canonLambdaAbsS]
          exact (norm_canon (conformsAt s (.interface k) (expandSels q sub)) (canonAbsS s q skip sub)
            (norm_absS s q o skip (.interface k) sub (fun kvs h => IHe true kvs hty.1.2 hnbx.2 h) (IHi hty.1.2 hnbx.2) hty.1.1 hty.1.2 hok
              (by simpa [hid, TypeId.isAbstract] using hnbx.1)) _).2 v hst
        | union k =>
          simp only [hid, Bool.and_eq_true] at hty hst ⊢
          have hok : absOkS s q o (.union k) sub = true := by
            rcases absOkL_cases hty.2 with ⟨hok, _⟩ | ⟨g, rfl, hokB⟩
            · exact hok
            · have := noBAt_lone_false hokB
              simp [hid, TypeId.isAbstract, this] at hnbx
          rw [canonLambdaAbsS]
          exact (norm_canon (conformsAt s (.union k) (expandSels q sub)) (canonAbsS s q skip sub)
            (norm_absS s q o skip (.union k) sub (fun kvs h => IHe true kvs hty.1.2 hnbx.2 h) (IHi hty.1.2 hnbx.2) hty.1.1 hty.1.2 hok
              (by simpa [hid, TypeId.isAbstract] using hnbx.1)) _).2 v hst
        | input k => simp [hid] at hty
    | .spread g, _, _ => by
      intro _ _ h
      simp only [expandSel] at h
      cases hf : q.fragments[g]? <;> simp [hf, strictFieldV] at h
    | .inline _ _, _, _ => by intro _ _ h; simp [expandSel, strictFieldV] at h
    | .typename, _, _ => by intro _ _ h; simp [expandSel, strictFieldV] at h
  theorem normEntriesS : ∀ (sels : List Sel) (abs : Bool) (kvs : List (String × Json)),
      sSels s q o abs sels = true → noBSels s q sels = true → StrictAtS s q sels kvs →
      ∀ kv ∈ canonEntriesS s q skip sels kvs, normJson kv.2 = kv.2
    | [], _, _, _, _, _ => by simp [canonEntriesS]
    | x :: xs, abs, kvs, ht, hnbs, hc => by
      obtain ⟨hx, hxs⟩ := sSels_cons ht
      rw [noBSels, Bool.and_eq_true] at hnbs
      have ih := normEntriesS xs abs kvs hxs hnbs.2 (fun a fid sub hm => hc a fid sub (List.mem_cons_of_mem _ hm))
      cases x with
      | field a fid sub =>
        rw [canonEntriesS.eq_2]
        cases hsf : s.fields[fid]? with
        | none => simpa using ih
        | some sf =>
          simp only []
          cases hl : Json.lookup (a.getD sf.name) kvs with
          | none =>
            simp only []
            intro kv hkv
            rw [List.mem_append] at hkv
            rcases hkv with hkv | hkv
            · split at hkv
              · simp at hkv
              · simp only [List.mem_singleton] at hkv; subst hkv; rfl
            · exact ih kv hkv
          | some v =>
            simp only []
            intro kv hkv
            rw [List.mem_append] at hkv
            rcases hkv with hkv | hkv
            · split at hkv
              · simp at hkv
              · simp only [List.mem_singleton] at hkv
                subst hkv
                exact normFieldS _ abs v hx hnbs.1 (hc a fid sub (by simp) sf hsf v hl)
            · exact ih kv hkv
      | spread g => simpa [canonEntriesS] using ih
      | inline t sub => simpa [canonEntriesS] using ih
      | typename => simpa [canonEntriesS] using ih
  theorem normInlsS : ∀ (sels : List Sel), sSels s q o true sels = true → noBSels s q sels = true →
      ∀ t isub, Sel.inline t isub ∈ sels →
      ∀ kvs, StrictAtS s q isub kvs → ∀ kv ∈ canonEntriesS s q skip isub kvs, normJson kv.2 = kv.2
    | [], _, _, _, _, h => by simp at h
    | x :: xs, ht, hnbs, t, isub, hm => by
      obtain ⟨hx, hxs⟩ := sSels_cons ht
      rw [noBSels, Bool.and_eq_true] at hnbs
      rcases List.mem_cons.mp hm with heq | hm'
      · cases x with
        | inline t' isub' =>
          cases heq
          simp only [sSel, Bool.and_eq_true] at hx
          have hn := hnbs.1
          rw [noBSel] at hn
          exact fun kvs h => normEntriesS isub false kvs hx.1.2 hn h
        | field a fid sub => cases heq
        | spread g => cases heq
        | typename => cases heq
      · exact normInlsS xs hxs hnbs.2 t isub hm'
end

end NormS

/-- the canonical form of a conforming response is a `serde_json::to_value` normal form -/
theorem norm_canonSelS (s : Schema) (q : Query) (o : Options) (skip : Bool) (rt : Nat) (sels : List Sel) (j : Json)
    (ht : sSels s q o false sels = true) (hnbs : noBSels s q sels = true)
    (hk : EnumSpec.nodup (respKeys s sels) = true)
    (hj : conformsV s rt (expandSels q sels) j = true) : normJson (canonSelS s q skip sels j) = canonSelS s q skip sels j := by
  cases j with
  | obj kvs =>
    simp only [conformsV, Bool.and_eq_true] at hj
    rw [canonSelS]
    exact normJson_obj_fixed _
      (((canonEntriesS_keys s q skip kvs sels).trans (fieldKeys_sublist s sels)).nodup (nodup_iff'.mp hk))
      (normEntriesS s q o skip sels false kvs ht hnbs (strictAtS_of_conf hj.2))
  | null => rfl
  | bool _ => rfl
  | int _ => rfl
  | num _ => rfl
  | str _ => rfl
  | arr _ => simp [conformsV] at hj

end E2E
end C01
end GqlVerif
