import GqlVerif.Proofs.C01NestedBA
/-!
# `NestedBOp`, part C: exact acceptance (parametric in the fragments' acceptance), after `C01NestedGenXC`

What is new is `looseTagB` / `accAbsB`: at a position with (b)-spreads the struct (own fields + one flattened member per
(b)-spread + flattened `on`) accepts an object iff the own fields accept it, **every (b)-fragment's own type accepts the
entries they left** (`looseMemB` of `VariantSpreadOp`: all flattened members *borrow*, each reads all those entries — the shared
`__typename` is read by each of them and by the tagged enum) and the tagged enum `…On` accepts those entries, its payloads being
those of `NestedGen2Op` (`C01NX.accVariantX`) on the selection set without its (b)-spreads.
-/
set_option linter.unusedSimpArgs false
set_option linter.unusedVariables false
set_option linter.unusedSectionVars false
set_option linter.unnecessarySimpa false

namespace GqlVerif
namespace C01NB
open Serde Spec C13 C03 Codegen C01 C01.E2E C01M C01N C01NA C01NG C01NX

/-! ## the exact acceptance predicate -/

/-- what the type(s) emitted for a selection set of the class on the abstract type `ty` accept -/
def looseTagB (whole : Nat → Bool → Json → Bool) (s : Schema) (q : Query) (o : Options) (b : Bool) (ty : TypeId)
    (sub : List Sel) : Json → Bool
  | .obj kvs =>
    if (C01NG.ownSels sub).isEmpty && (bSels q ty sub).isEmpty then
      tagOkV s o b (vtsOfTy s ty) (payX whole s q o (unB q ty sub)) kvs
    else looseSelsS s q o b (C01NG.ownSels sub) kvs &&
      (looseMemB s q o ty (bSels q ty sub) (restG s sub kvs) &&
        tagOkV s o true (vtsOfTy s ty) (payX whole s q o (unB q ty sub)) (restG s sub kvs))
  | _ => false

/-- … and the field of abstract type -/
def looseAbsB (whole : Nat → Bool → Json → Bool) (s : Schema) (q : Query) (o : Options) (b : Bool) (sf : StoredField)
    (sub : List Sel) (v : Json) : Bool :=
  accepts (looseTagB whole s q o b sf.ty.id sub) (gtyOf sf.ty.quals) v

mutual
  def looseFieldA (whole : Nat → Bool → Json → Bool) (s : Schema) (q : Query) (o : Options) (b : Bool) : Sel → Json → Bool
    | .field a fid sub, v =>
      match s.fields[fid]? with
      | none => false
      | some sf =>
        match sf.ty.id with
        | .object i => (match s.objects[i]? with
          | some _ => accepts (fun j =>
              match sub with
              | [.spread g] => whole g b j      -- type alias of the fragment struct
              | _ => match j with
                | .obj kvs' => looseOwnA whole s q o b sub kvs' && looseMemN whole sub kvs'
                | .arr xs => !sub.any isSpread && looseArrA whole s q o b sub xs
                | _ => false) (gtyOf sf.ty.quals) v
          | none => false)
        | _ => if sSel s q o false (.field a fid sub) then looseFieldS s q o b (.field a fid sub) v
               else looseAbsB whole s q o b sf sub v
    | _, _ => true
  /-- the own fields of the struct (spreads contribute no own field) -/
  def looseOwnA (whole : Nat → Bool → Json → Bool) (s : Schema) (q : Query) (o : Options) (b : Bool) :
      List Sel → List (String × Json) → Bool
    | [], _ => true
    | .field a fid sub :: xs, kvs =>
      (match s.fields[fid]? with
       | none => false
       | some sf =>
         decide (countKey (a.getD sf.name) kvs ≤ 1) &&
         (match Json.lookup (a.getD sf.name) kvs with
          | none => nullableQ sf.ty.quals
          | some v => looseFieldA whole s q o b (.field a fid sub) v)) && looseOwnA whole s q o b xs kvs
    | _ :: xs, kvs => looseOwnA whole s q o b xs kvs
  def looseArrA (whole : Nat → Bool → Json → Bool) (s : Schema) (q : Query) (o : Options) (b : Bool) :
      List Sel → List Json → Bool
    | [], _ => true
    | .field a fid sub :: xs, vs =>
      (match vs with
       | [] => false
       | v :: vs' => looseFieldA whole s q o b (.field a fid sub) v && looseArrA whole s q o b xs vs')
    | _ :: xs, vs => looseArrA whole s q o b xs vs
end

/-- what the type emitted for an object-level selection set of `NestedOp` accepts -/
def conformsLooseA (whole : Nat → Bool → Json → Bool) (s : Schema) (q : Query) (o : Options) (b : Bool) (sels : List Sel)
    (j : Json) : Bool :=
  match sels with
  | [.spread g] => whole g b j
  | _ => match j with
    | .obj kvs' => looseOwnA whole s q o b sels kvs' && looseMemN whole sels kvs'
    | .arr xs => !sels.any isSpread && looseArrA whole s q o b sels xs
    | _ => false

theorem looseLambdaA (whole : Nat → Bool → Json → Bool) (s : Schema) (q : Query) (o : Options) (b : Bool) (sub : List Sel) :
    (fun j =>
      match sub with
      | [.spread g] => whole g b j
      | _ => match j with
        | .obj kvs' => looseOwnA whole s q o b sub kvs' && looseMemN whole sub kvs'
        | .arr xs => !sub.any isSpread && looseArrA whole s q o b sub xs
        | _ => false) = conformsLooseA whole s q o b sub := by
  funext j; unfold conformsLooseA; rfl

theorem conformsLooseA_not_lone {whole : Nat → Bool → Json → Bool} {s : Schema} {q : Query} {o : Options} {b : Bool}
    {sels : List Sel} (h : ∀ g, sels ≠ [Sel.spread g]) (j : Json) :
    conformsLooseA whole s q o b sels j =
      (match j with
       | .obj kvs' => looseOwnA whole s q o b sels kvs' && looseMemN whole sels kvs'
       | .arr xs => !sels.any isSpread && looseArrA whole s q o b sels xs
       | _ => false) := by
  unfold conformsLooseA
  split
  · rename_i g; exact absurd rfl (h g)
  · rfl


/-- the environment of a position of the class -/
def EnvAbsB (fenv : Nat → Prop) (e : Env) (c : Ctx) (name : String) (ty : TypeId) (sub : List Sel) : Prop :=
  AbsEnv e name (fieldsB c name ty sub) (variantsV c name ty (marks c.q (unB c.q ty sub))) ∧
  envSelsS e c name (C01NG.ownSels sub) ∧
  envSelsS e c name (bSels c.q ty sub) ∧
  ∀ vt ∈ vtsOfTy c.s ty, VarEnvX fenv e c name vt (unB c.q ty sub)

mutual
  /-- keys disjoint between a fragment and its siblings at object level, and between the fragments
      selected on one possible type at an abstract position -/
  def keysOkA (KN : String → List String) (c : Ctx) : Sel → Bool
    | .field a fid sub =>
      (match (c.s.fields[fid]?).map (fun sf => sf.ty.id) with
       | some (TypeId.object _) => EnumSpec.nodup (expKeysN KN c sub) && keysOksA KN c sub
       | some ty =>
         if sSel c.s c.q c.o false (.field a fid sub) then true
         else (vtsOfTy c.s ty).all (fun vt => varKeysOk KN c vt (unB c.q ty sub))
       | none => true)
    | _ => true
  def keysOksA (KN : String → List String) (c : Ctx) : List Sel → Bool
    | [] => true
    | x :: xs => keysOkA KN c x && keysOksA KN c xs
end

mutual
  def envSelA (fenv : Nat → Prop) (e : Env) (c : Ctx) (pfx : String) : Sel → Prop
    | .field a fid sub =>
      match c.s.fields[fid]? with
      | none => True
      | some sf =>
        match sf.ty.id with
        | .object _ =>
          (match sub with
           | [.spread g] => AliasEnv e (pfx ++ c.cs.camel (a.getD sf.name)) (fragName c g) ∧ fenv g
           | _ => StructEnv e (pfx ++ c.cs.camel (a.getD sf.name)) (fieldsOfF c (pfx ++ c.cs.camel (a.getD sf.name)) sub) ∧
                  envSelsA fenv e c (pfx ++ c.cs.camel (a.getD sf.name)) sub)
        | ty => if sSel c.s c.q c.o false (.field a fid sub) = true then envSelS e c pfx (.field a fid sub)
                else EnvAbsB fenv e c (pfx ++ c.cs.camel (a.getD sf.name)) ty sub
    | .spread g => fenv g
    | _ => True
  def envSelsA (fenv : Nat → Prop) (e : Env) (c : Ctx) (pfx : String) : List Sel → Prop
    | [] => True
    | x :: xs => envSelA fenv e c pfx x ∧ envSelsA fenv e c pfx xs
end

/-- what the name of an object-level selection set resolves to -/
def BodyEnvA (fenv : Nat → Prop) (e : Env) (c : Ctx) (name pfx : String) (sels : List Sel) : Prop :=
  match sels with
  | [.spread g] => AliasEnv e name (fragName c g) ∧ fenv g
  | _ => StructEnv e name (fieldsOfF c pfx sels) ∧ envSelsA fenv e c pfx sels

/-! ## facts about the emitted fields -/

section Fields
variable {ok : TypeId → Nat → Bool} {c : Ctx} (hok : OkSpec c.q ok)

theorem fieldOfSelV_a (pfx : String) (p : TypeId) (a : Option String) (fid : Nat) (sub : List Sel)
    (ht : aSel ok c.s c.q c.o p (.field a fid sub) = true) :
    ∃ sf ft, c.s.fields[fid]? = some sf ∧ leafNameV c pfx (a.getD sf.name) sf.ty.id = some ft ∧
      fieldOfSelV c pfx (.field a fid sub) = some (fieldOf c (a.getD sf.name) ft sf.ty.quals sf.deprecation) ∧
      wfQuals sf.ty.quals = true := by
  obtain ⟨sf, hsf⟩ := aSel_field_some ht
  by_cases hobj : ∃ i, sf.ty.id = .object i
  · obtain ⟨i, hid⟩ := hobj
    obtain ⟨hw, _, _, _⟩ := aSel_obj hsf hid ht
    exact ⟨sf, pfx ++ c.cs.camel (a.getD sf.name), hsf, by simp [leafNameV, hid], by simp [fieldOfSelV, hsf, leafNameV, hid], hw⟩
  · have hno : ∀ i, sf.ty.id ≠ .object i := fun i h => hobj ⟨i, h⟩
    rcases aSel_nonobj hsf hno ht with hs | ⟨_, hnew⟩
    · exact fieldOfSelV_s c pfx false a fid sub hs
    · obtain ⟨hw, _, hty, _⟩ := absFieldB_parts hnew
      cases hid : sf.ty.id with
      | object i => exact absurd hid (hno i)
      | scalar k => rw [hid] at hty; exact absurd hty (by simp [absHyp])
      | «enum» k => rw [hid] at hty; exact absurd hty (by simp [absHyp])
      | input k => rw [hid] at hty; exact absurd hty (by simp [absHyp])
      | interface k =>
        exact ⟨sf, pfx ++ c.cs.camel (a.getD sf.name), hsf, by simp [leafNameV, hid],
          by simp [fieldOfSelV, hsf, leafNameV, hid], hw⟩
      | union k =>
        exact ⟨sf, pfx ++ c.cs.camel (a.getD sf.name), hsf, by simp [leafNameV, hid],
          by simp [fieldOfSelV, hsf, leafNameV, hid], hw⟩

include hok in
theorem own_fieldsOfA (pfx : String) (p : TypeId) : ∀ (sels : List Sel), aSels ok c.s c.q c.o p sels = true →
    (fieldsOfF c pfx sels).filter (fun f => !f.flatten) = fieldsOfV c pfx sels
  | [], _ => rfl
  | x :: xs, ht => by
    obtain ⟨hx, hxs⟩ := aSels_cons ht
    have ih := own_fieldsOfA pfx p xs hxs
    rw [fieldsOfF_cons, List.filter_append, ih]
    cases x with
    | field a fid sub =>
      obtain ⟨sf, ft, _, _, hf, _⟩ := fieldOfSelV_a pfx p a fid sub hx
      rw [fieldOfSelF_field, hf, fieldsOfV_cons_field c pfx _ xs _ hf]
      simp [fieldOf]
    | spread g =>
      have hokg : ok p g = true := by simpa [aSel] using hx
      obtain ⟨fr, hfr, _⟩ := hok _ _ hokg
      rw [fieldsOfV_cons_none c pfx _ xs rfl]
      simp [fieldOfSelF, hfr, spreadField]
    | inline t sub => simp [aSel] at hx
    | typename => rw [fieldsOfV_cons_none c pfx _ xs rfl]; simp [fieldOfSelF, fieldOfSelV]

include hok in
theorem any_flatten_fieldsOfA (pfx : String) (p : TypeId) : ∀ (sels : List Sel), aSels ok c.s c.q c.o p sels = true →
    (fieldsOfF c pfx sels).any (·.flatten) = sels.any isSpread
  | [], _ => rfl
  | x :: xs, ht => by
    obtain ⟨hx, hxs⟩ := aSels_cons ht
    have ih := any_flatten_fieldsOfA pfx p xs hxs
    rw [fieldsOfF_cons, List.any_append, ih, List.any_cons]
    cases x with
    | field a fid sub =>
      obtain ⟨sf, ft, _, _, hf, _⟩ := fieldOfSelV_a pfx p a fid sub hx
      rw [fieldOfSelF_field, hf]; simp [fieldOf, isSpread]
    | spread g =>
      have hokg : ok p g = true := by simpa [aSel] using hx
      obtain ⟨fr, hfr, _⟩ := hok _ _ hokg
      simp [fieldOfSelF, hfr, spreadField, isSpread]
    | inline t sub => simp [aSel] at hx
    | typename => simp [fieldOfSelF, fieldOfSelV, isSpread]

include hok in
/-- from "the keys of the selection set (through spreads) are pairwise distinct" to the hypotheses of `okB_deStructMapN` -/
theorem flat_hypsA (KN : String → List String) (pfx : String) (p : TypeId) : ∀ (sels : List Sel),
    aSels ok c.s c.q c.o p sels = true → (expKeysN KN c sels).Nodup →
    (∀ g ∈ fieldsOfF c pfx sels, g.flatten = true → ∀ k ∈ kOf KN g, k ∈ expKeysN KN c sels) ∧
    (∀ f ∈ fieldsOfF c pfx sels, f.flatten = false → f.wire ∈ expKeysN KN c sels) ∧
    (∀ g ∈ fieldsOfF c pfx sels, g.flatten = true → ∀ k ∈ kOf KN g,
      k ∉ ((fieldsOfF c pfx sels).filter (fun f => !f.flatten)).map (·.wire)) ∧
    (fieldsOfF c pfx sels).Pairwise (fun g g' => g.flatten = true → g'.flatten = true →
      ∀ k ∈ kOf KN g', k ∉ kOf KN g)
  | [], _, _ => by simp [fieldsOfF]
  | x :: xs, ht, hnd => by
    obtain ⟨hx, hxs⟩ := aSels_cons ht
    cases x with
    | field a fid sub =>
      obtain ⟨sf, ft, hsf, _, hf, _⟩ := fieldOfSelV_a pfx p a fid sub hx
      have hexp : expKeysN KN c (.field a fid sub :: xs) = a.getD sf.name :: expKeysN KN c xs := by
        simp [expKeysN, hsf]
      rw [hexp, List.nodup_cons] at hnd
      obtain ⟨ih1, ih2, ih3, ih4⟩ := flat_hypsA KN pfx p xs hxs hnd.2
      have hfs : fieldsOfF c pfx (.field a fid sub :: xs) =
          fieldOf c (a.getD sf.name) ft sf.ty.quals sf.deprecation :: fieldsOfF c pfx xs := by
        rw [fieldsOfF_cons, fieldOfSelF_field, hf]; rfl
      have hnf : (fieldOf c (a.getD sf.name) ft sf.ty.quals sf.deprecation).flatten = false := rfl
      rw [hfs, hexp]
      refine ⟨?_, ?_, ?_, ?_⟩
      · intro g hg hfl
        rcases List.mem_cons.mp hg with rfl | hg'
        · rw [hnf] at hfl; cases hfl
        · exact fun k hk => List.mem_cons_of_mem _ (ih1 g hg' hfl k hk)
      · intro f hf' hfl
        rcases List.mem_cons.mp hf' with rfl | hf''
        · rw [fieldOf_wire]; simp
        · exact List.mem_cons_of_mem _ (ih2 f hf'' hfl)
      · intro g hg hfl k hk
        rcases List.mem_cons.mp hg with rfl | hg'
        · rw [hnf] at hfl; cases hfl
        · simp only [List.filter_cons, hnf, Bool.not_false, ↓reduceIte, List.map_cons, List.mem_cons, not_or, fieldOf_wire]
          refine ⟨?_, ih3 g hg' hfl k hk⟩
          intro heq
          exact hnd.1 (heq ▸ ih1 g hg' hfl k hk)
      · rw [List.pairwise_cons]
        exact ⟨fun g' _ hfl => (by rw [hnf] at hfl; cases hfl), ih4⟩
    | spread g =>
      have hokg : ok p g = true := by simpa [aSel] using hx
      obtain ⟨fr, hfr, _⟩ := hok _ _ hokg
      have hname : fragName c g = fr.name := by simp [fragName, hfr]
      have hexp : expKeysN KN c (.spread g :: xs) = KN fr.name ++ expKeysN KN c xs := by
        simp [expKeysN, hname]
      rw [hexp, List.nodup_append] at hnd
      obtain ⟨hnd1, hnd2, hdisj⟩ := hnd
      obtain ⟨ih1, ih2, ih3, ih4⟩ := flat_hypsA KN pfx p xs hxs hnd2
      have hfs : fieldsOfF c pfx (.spread g :: xs) = spreadField c fr :: fieldsOfF c pfx xs := by
        rw [fieldsOfF_cons]; simp [fieldOfSelF, hfr]
      have hfl' : (spreadField c fr).flatten = true := rfl
      have hmk : kOf KN (spreadField c fr) = KN fr.name := rfl
      rw [hfs, hexp]
      refine ⟨?_, ?_, ?_, ?_⟩
      · intro g' hg hfl
        rcases List.mem_cons.mp hg with rfl | hg'
        · exact fun k hk => List.mem_append_left _ (hmk ▸ hk)
        · exact fun k hk => List.mem_append_right _ (ih1 g' hg' hfl k hk)
      · intro f hf' hfl
        rcases List.mem_cons.mp hf' with rfl | hf''
        · rw [hfl'] at hfl; cases hfl
        · exact List.mem_append_right _ (ih2 f hf'' hfl)
      · intro g' hg hfl k hk
        simp only [List.filter_cons, hfl', Bool.not_true, Bool.false_eq_true, ↓reduceIte]
        rcases List.mem_cons.mp hg with rfl | hg'
        · rw [hmk] at hk
          intro hmem
          obtain ⟨f, hf', hfw⟩ := List.mem_map.mp hmem
          have hf'' := List.mem_filter.mp hf'
          have := ih2 f hf''.1 (by simpa using hf''.2)
          exact hdisj k hk k (hfw ▸ this) rfl
        · exact ih3 g' hg' hfl k hk
      · rw [List.pairwise_cons]
        refine ⟨?_, ih4⟩
        intro g' hg' _ hfl k hk
        rw [hmk]
        intro hmem
        exact hdisj k hmem k (ih1 g' hg' hfl k hk) rfl
    | inline t sub => simp [aSel] at hx
    | typename =>
      have hexp : expKeysN KN c (.typename :: xs) = expKeysN KN c xs := by simp [expKeysN]
      have hfs : fieldsOfF c pfx (.typename :: xs) = fieldsOfF c pfx xs := by
        rw [fieldsOfF_cons]; simp [fieldOfSelF, fieldOfSelV]
      rw [hexp] at hnd ⊢
      rw [hfs]
      exact flat_hypsA KN pfx p xs hxs hnd

end Fields

theorem envSelsA_mem {fenv : Nat → Prop} {e : Env} {c : Ctx} {pfx : String} : ∀ {sels : List Sel},
    envSelsA fenv e c pfx sels → ∀ x ∈ sels, envSelA fenv e c pfx x
  | [], _, _, hx => by simp at hx
  | y :: ys, h, x, hx => by
    rw [envSelsA] at h
    rcases List.mem_cons.mp hx with rfl | hx'
    · exact h.1
    · exact envSelsA_mem h.2 x hx'

theorem envSelA_spread {fenv : Nat → Prop} {e : Env} {c : Ctx} {pfx : String} {g : Nat} :
    envSelA fenv e c pfx (.spread g) = fenv g := by
  rw [envSelA]

theorem bodyEnvA_not_lone {fenv : Nat → Prop} {e : Env} {c : Ctx} {name pfx : String} {sels : List Sel}
    (hnl : ∀ g, sels ≠ [Sel.spread g]) (h : BodyEnvA fenv e c name pfx sels) :
    StructEnv e name (fieldsOfF c pfx sels) ∧ envSelsA fenv e c pfx sels := by
  unfold BodyEnvA at h
  revert h
  split
  · exact fun _ => absurd rfl (hnl _)
  · exact id

theorem keysOkA_obj {KN : String → List String} {c : Ctx} {a : Option String} {fid : Nat} {sub : List Sel}
    {sf : StoredField} {i : Nat}
    (hsf : c.s.fields[fid]? = some sf) (hid : sf.ty.id = .object i) (h : keysOkA KN c (.field a fid sub) = true) :
    EnumSpec.nodup (expKeysN KN c sub) = true ∧ keysOksA KN c sub = true := by
  rw [keysOkA] at h
  simp only [hsf, hid, Option.map_some, Bool.and_eq_true] at h
  exact h

theorem keysOkA_new {KN : String → List String} {c : Ctx} {a : Option String} {fid : Nat} {sub : List Sel}
    {sf : StoredField} (hsf : c.s.fields[fid]? = some sf) (hno : ∀ i, sf.ty.id ≠ .object i)
    (hs : sSel c.s c.q c.o false (.field a fid sub) = false) (h : keysOkA KN c (.field a fid sub) = true) :
    ∀ vt ∈ vtsOfTy c.s sf.ty.id, varKeysOk KN c vt (unB c.q sf.ty.id sub) = true := by
  rw [keysOkA] at h
  simp only [hsf, Option.map_some] at h
  have h' : (vtsOfTy c.s sf.ty.id).all (fun vt => varKeysOk KN c vt (unB c.q sf.ty.id sub)) = true := by
    cases hid : sf.ty.id with
    | object i => exact absurd hid (hno i)
    | scalar k => simpa only [hid, hs, Bool.false_eq_true, if_false] using h
    | «enum» k => simpa only [hid, hs, Bool.false_eq_true, if_false] using h
    | interface k => simpa only [hid, hs, Bool.false_eq_true, if_false] using h
    | union k => simpa only [hid, hs, Bool.false_eq_true, if_false] using h
    | input k => simpa only [hid, hs, Bool.false_eq_true, if_false] using h
  intro vt hvt
  simp only [List.all_eq_true] at h'
  exact h' vt hvt

theorem envSelA_obj {fenv : Nat → Prop} {e : Env} {c : Ctx} {pfx : String} {a : Option String} {fid : Nat}
    {sub : List Sel} {sf : StoredField}
    {i : Nat} (hsf : c.s.fields[fid]? = some sf) (hid : sf.ty.id = .object i) (h : envSelA fenv e c pfx (.field a fid sub)) :
    BodyEnvA fenv e c (pfx ++ c.cs.camel (a.getD sf.name)) (pfx ++ c.cs.camel (a.getD sf.name)) sub := by
  rw [envSelA] at h
  simp only [hsf, hid] at h
  exact h

theorem envSelA_old {fenv : Nat → Prop} {e : Env} {c : Ctx} {pfx : String} {a : Option String} {fid : Nat}
    {sub : List Sel}
    {sf : StoredField} (hsf : c.s.fields[fid]? = some sf) (hno : ∀ i, sf.ty.id ≠ .object i)
    (hs : sSel c.s c.q c.o false (.field a fid sub) = true)
    (h : envSelA fenv e c pfx (.field a fid sub)) : envSelS e c pfx (.field a fid sub) := by
  rw [envSelA] at h
  simp only [hsf] at h
  cases hid : sf.ty.id with
  | object i => exact absurd hid (hno i)
  | scalar k => simpa only [hid, hs, if_true] using h
  | «enum» k => simpa only [hid, hs, if_true] using h
  | interface k => simpa only [hid, hs, if_true] using h
  | union k => simpa only [hid, hs, if_true] using h
  | input k => simpa only [hid, hs, if_true] using h

theorem envSelA_new {fenv : Nat → Prop} {e : Env} {c : Ctx} {pfx : String} {a : Option String} {fid : Nat}
    {sub : List Sel}
    {sf : StoredField} (hsf : c.s.fields[fid]? = some sf) (hno : ∀ i, sf.ty.id ≠ .object i)
    (hs : sSel c.s c.q c.o false (.field a fid sub) = false)
    (h : envSelA fenv e c pfx (.field a fid sub)) : EnvAbsB fenv e c (pfx ++ c.cs.camel (a.getD sf.name)) sf.ty.id sub := by
  rw [envSelA] at h
  simp only [hsf] at h
  cases hid : sf.ty.id with
  | object i => exact absurd hid (hno i)
  | scalar k => simpa only [hid, hs, Bool.false_eq_true, if_false] using h
  | «enum» k => simpa only [hid, hs, Bool.false_eq_true, if_false] using h
  | interface k => simpa only [hid, hs, Bool.false_eq_true, if_false] using h
  | union k => simpa only [hid, hs, Bool.false_eq_true, if_false] using h
  | input k => simpa only [hid, hs, Bool.false_eq_true, if_false] using h

theorem looseFieldA_old {whole : Nat → Bool → Json → Bool} {s : Schema} {q : Query} {o : Options} {b : Bool}
    {a : Option String} {fid : Nat}
    {sub : List Sel} {sf : StoredField} (hsf : s.fields[fid]? = some sf) (hno : ∀ i, sf.ty.id ≠ .object i)
    (hs : sSel s q o false (.field a fid sub) = true) (v : Json) :
    looseFieldA whole s q o b (.field a fid sub) v = looseFieldS s q o b (.field a fid sub) v := by
  rw [looseFieldA]
  simp only [hsf]
  cases hid : sf.ty.id with
  | object i => exact absurd hid (hno i)
  | scalar k => simp only [hs, if_true]
  | «enum» k => simp only [hs, if_true]
  | interface k => simp only [hs, if_true]
  | union k => simp only [hs, if_true]
  | input k => simp only [hs, if_true]

theorem looseFieldA_new {whole : Nat → Bool → Json → Bool} {s : Schema} {q : Query} {o : Options} {b : Bool}
    {a : Option String} {fid : Nat}
    {sub : List Sel} {sf : StoredField} (hsf : s.fields[fid]? = some sf) (hno : ∀ i, sf.ty.id ≠ .object i)
    (hs : sSel s q o false (.field a fid sub) = false) (v : Json) :
    looseFieldA whole s q o b (.field a fid sub) v = looseAbsB whole s q o b sf sub v := by
  rw [looseFieldA]
  simp only [hsf]
  cases hid : sf.ty.id with
  | object i => exact absurd hid (hno i)
  | scalar k => simp only [hs, Bool.false_eq_true, if_false]
  | «enum» k => simp only [hs, Bool.false_eq_true, if_false]
  | interface k => simp only [hs, Bool.false_eq_true, if_false]
  | union k => simp only [hs, Bool.false_eq_true, if_false]
  | input k => simp only [hs, Bool.false_eq_true, if_false]

theorem exists_uniform {α : Type} (P : α → Nat → Prop) (hmono : ∀ a n m, n ≤ m → P a n → P a m) :
    ∀ (l : List α), (∀ a ∈ l, ∃ n, P a n) → ∃ n, ∀ a ∈ l, P a n
  | [], _ => ⟨0, fun _ h => by simp at h⟩
  | x :: xs, h => by
    obtain ⟨n1, h1⟩ := h x (List.mem_cons_self)
    obtain ⟨n2, h2⟩ := exists_uniform P hmono xs (fun a ha => h a (List.mem_cons_of_mem _ ha))
    refine ⟨max n1 n2, fun a ha => ?_⟩
    rcases List.mem_cons.mp ha with rfl | ha'
    · exact hmono _ _ _ (Nat.le_max_left _ _) h1
    · exact hmono _ _ _ (Nat.le_max_right _ _) (h2 a ha')

/-! ## acceptance, exactly -/

section XLem
variable {e : Env} {c : Ctx} {ok : TypeId → Nat → Bool} {whole : Nat → Bool → Json → Bool} {KN : String → List String}
  {fenv : Nat → Prop}

theorem mem_varSelsOf {ms : List Sel} {x : Sel} (h : x ∈ varSelsOf ms) :
    (∃ g, x = Sel.spread g ∧ g ∈ ms.filterMap spreadId ++ ms.filterMap aliasInl) ∨
      (∃ t isub, Sel.inline t isub ∈ ms ∧ isBody (.inline t isub) = true ∧ x ∈ isub) := by
  unfold varSelsOf at h
  rcases List.mem_append.mp h with h | h
  · obtain ⟨y, hy, hx⟩ := List.mem_flatMap.mp h
    cases y with
    | spread g =>
      simp only [varPartS, List.mem_singleton] at hx
      subst hx
      exact .inl ⟨g, rfl, List.mem_append_left _ (List.mem_filterMap.mpr ⟨_, hy, rfl⟩)⟩
    | inline t isub =>
      simp only [varPartS] at hx
      split at hx
      · rename_i hb; exact .inr ⟨t, isub, hy, hb, hx⟩
      · simp at hx
    | field a fid sub' => simp [varPartS] at hx
    | typename => simp [varPartS] at hx
  · obtain ⟨g, hg, rfl⟩ := List.mem_map.mp h
    exact .inl ⟨g, rfl, List.mem_append_right _ hg⟩

theorem aSels_of_mem {s : Schema} {q : Query} {o : Options} {p : TypeId} : ∀ {sels : List Sel},
    (∀ x ∈ sels, aSel ok s q o p x = true) → aSels ok s q o p sels = true
  | [], _ => rfl
  | x :: xs, h => by
    rw [aSels, h x (List.mem_cons_self), aSels_of_mem (fun y hy => h y (List.mem_cons_of_mem _ hy))]; rfl

theorem envSelsA_of_mem {pfx : String} : ∀ {sels : List Sel},
    (∀ x ∈ sels, envSelA fenv e c pfx x) → envSelsA fenv e c pfx sels
  | [], _ => by simp [envSelsA]
  | x :: xs, h => by
    rw [envSelsA]
    exact ⟨h x (List.mem_cons_self), envSelsA_of_mem (fun y hy => h y (List.mem_cons_of_mem _ hy))⟩

theorem keysOksA_of_mem : ∀ {sels : List Sel}, (∀ x ∈ sels, keysOkA KN c x = true) → keysOksA KN c sels = true
  | [], _ => rfl
  | x :: xs, h => by
    rw [keysOksA, h x (List.mem_cons_self), keysOksA_of_mem (fun y hy => h y (List.mem_cons_of_mem _ hy))]; rfl

/-- what is known of a leaf field -/
theorem leaf_facts {s : Schema} {q : Query} {o : Options} {a : Option String} {fid : Nat} {sub' : List Sel}
    (h : leafSel s q o (.field a fid sub') = true) :
    ∃ sf, s.fields[fid]? = some sf ∧ (∀ i, sf.ty.id ≠ .object i) ∧ sSel s q o false (.field a fid sub') = true := by
  obtain ⟨sf, hsf, _, _, _, hty⟩ := leafSel_field h
  refine ⟨sf, hsf, ?_, ?_⟩
  · intro i hi
    rcases hty with ⟨k, sn, hid, _⟩ | ⟨k, en, hid, _⟩ <;> rw [hid] at hi <;> cases hi
  · simp only [leafSel, Bool.and_eq_true] at h
    have h1 := h.1
    rw [sSel] at h1 ⊢
    exact h1

theorem aSel_leaf {s : Schema} {q : Query} {o : Options} {p : TypeId} {a : Option String} {fid : Nat} {sub' : List Sel}
    (h : leafSel s q o (.field a fid sub') = true) : aSel ok s q o p (.field a fid sub') = true := by
  obtain ⟨sf, hsf, hno, hs⟩ := leaf_facts h
  rw [aSel]
  simp only [hsf]
  cases hid : sf.ty.id with
  | object i => exact absurd hid (hno i)
  | scalar k => simp [hs]
  | «enum» k => simp [hs]
  | interface k => simp [hs]
  | union k => simp [hs]
  | input k => simp [hs]

theorem envSelA_leaf {pfx : String} {a : Option String} {fid : Nat} {sub' : List Sel}
    (h : leafSel c.s c.q c.o (.field a fid sub') = true) (henv : envSelS e c pfx (.field a fid sub')) :
    envSelA fenv e c pfx (.field a fid sub') := by
  obtain ⟨sf, hsf, hno, hs⟩ := leaf_facts h
  rw [envSelA]
  simp only [hsf]
  cases hid : sf.ty.id with
  | object i => exact absurd hid (hno i)
  | scalar k => simpa only [hs, if_true] using henv
  | «enum» k => simpa only [hs, if_true] using henv
  | interface k => simpa only [hs, if_true] using henv
  | union k => simpa only [hs, if_true] using henv
  | input k => simpa only [hs, if_true] using henv

theorem keysOkA_leaf {a : Option String} {fid : Nat} {sub' : List Sel}
    (h : leafSel c.s c.q c.o (.field a fid sub') = true) : keysOkA KN c (.field a fid sub') = true := by
  obtain ⟨sf, hsf, hno, hs⟩ := leaf_facts h
  rw [keysOkA]
  simp only [hsf, Option.map_some]
  cases hid : sf.ty.id with
  | object i => exact absurd hid (hno i)
  | scalar k => simp [hs]
  | «enum» k => simp [hs]
  | interface k => simp [hs]
  | union k => simp [hs]
  | input k => simp [hs]

/-- on a selection set whose fields are leaves, the own fields are those of `VariantSpreadOp` -/
theorem looseOwnA_leaf {s : Schema} {q : Query} {o : Options} (b : Bool) (kvs : List (String × Json)) :
    ∀ (sels : List Sel), (∀ x ∈ sels, leafSel s q o x = true) →
    looseOwnA whole s q o b sels kvs = looseSelsS s q o b (C01NG.ownSels sels) kvs
  | [], _ => by simp [C01NG.ownSels, looseOwnA, looseSelsS]
  | x :: xs, h => by
    have ih := looseOwnA_leaf b kvs xs (fun y hy => h y (List.mem_cons_of_mem _ hy))
    cases x with
    | field a fid sub' =>
      obtain ⟨sf, hsf, hno, hs⟩ := leaf_facts (h _ (List.mem_cons_self))
      rw [C01NG.ownSels_cons_field, looseOwnA.eq_2, looseSelsS.eq_2, ih]
      simp only [hsf]
      cases Json.lookup (a.getD sf.name) kvs with
      | none => rfl
      | some v => simp only [looseFieldA_old hsf hno hs]
    | spread g => rw [C01NG.ownSels_cons_other rfl, ← ih]; simp [looseOwnA]
    | inline t sub' => rw [C01NG.ownSels_cons_other rfl, ← ih]; simp [looseOwnA]
    | typename => rw [C01NG.ownSels_cons_other rfl, ← ih]; simp [looseOwnA]

theorem looseArrA_leaf {s : Schema} {q : Query} {o : Options} (b : Bool) :
    ∀ (sels : List Sel) (vs : List Json), (∀ x ∈ sels, leafSel s q o x = true) →
    looseArrA whole s q o b sels vs = looseArrS s q o b (C01NG.ownSels sels) vs
  | [], _, _ => by simp [C01NG.ownSels, looseArrA, looseArrS]
  | x :: xs, vs, h => by
    have ih := fun vs' => looseArrA_leaf b xs vs' (fun y hy => h y (List.mem_cons_of_mem _ hy))
    cases x with
    | field a fid sub' =>
      obtain ⟨sf, hsf, hno, hs⟩ := leaf_facts (h _ (List.mem_cons_self))
      rw [C01NG.ownSels_cons_field]
      cases vs with
      | nil => simp [looseArrA, looseArrS]
      | cons v vs' => rw [looseArrA.eq_3, looseArrS.eq_3, ih vs', looseFieldA_old hsf hno hs]
    | spread g => rw [C01NG.ownSels_cons_other rfl, ← ih]; simp [looseArrA]
    | inline t sub' => rw [C01NG.ownSels_cons_other rfl, ← ih]; simp [looseArrA]
    | typename => rw [C01NG.ownSels_cons_other rfl, ← ih]; simp [looseArrA]

theorem fieldsOfF_append (c : Ctx) (pfx : String) (l1 l2 : List Sel) :
    fieldsOfF c pfx (l1 ++ l2) = fieldsOfF c pfx l1 ++ fieldsOfF c pfx l2 := by
  unfold fieldsOfF; rw [List.filterMap_append]

/-- the fields of a list of leaf fields do not depend on the prefix -/
theorem fieldsOfF_leafs (pfx pfx' : String) : ∀ (isub : List Sel), (∀ y ∈ isub, isFieldSel y = true) →
    (∀ y ∈ isub, leafSel c.s c.q c.o y = true) → fieldsOfF c pfx isub = fieldsOfV c pfx' isub
  | [], _, _ => rfl
  | y :: ys, hf, hl => by
    have ih := fieldsOfF_leafs pfx pfx' ys (fun z hz => hf z (List.mem_cons_of_mem _ hz))
      (fun z hz => hl z (List.mem_cons_of_mem _ hz))
    cases y with
    | field a fid sub' =>
      obtain ⟨sf, hsf, _, _, _, hty⟩ := leafSel_field (hl _ (List.mem_cons_self))
      rw [fieldsOfF_cons, fieldOfSelF_field, ih]
      unfold fieldsOfV
      rw [List.filterMap_cons]
      rcases hty with ⟨k, sn, hid, hk⟩ | ⟨k, en, hid, hk⟩ <;> simp [fieldOfSelV, hsf, hid, leafNameV, hk]
    | spread g => have := hf _ (List.mem_cons_self); simp [isFieldSel] at this
    | inline t sub' => have := hf _ (List.mem_cons_self); simp [isFieldSel] at this
    | typename => have := hf _ (List.mem_cons_self); simp [isFieldSel] at this

theorem fieldsOfF_spread_kw {g : Nat} {fr : RFragment} (pfx : String) (hfr : c.q.fragments[g]? = some fr)
    (hkw : kwOk c g = true) : fieldsOfF c pfx [Sel.spread g] = [memField c g] := by
  have hname : fragName c g = fr.name := by simp [fragName, hfr]
  simp only [kwOk, beq_iff_eq, hname] at hkw
  simp [fieldsOfF, fieldOfSelF, hfr, spreadField, memField, hname, hkw]

theorem fieldsOfF_varParts (hok : OkSpec c.q ok) (pfx name : String) (i : Nat) : ∀ (ms : List Sel),
    (∀ x ∈ ms, IsMemX ok c.s c.q c.o (.object i) x) → (∀ g ∈ ms.filterMap spreadId, kwOk c g = true) →
    fieldsOfF c pfx (ms.flatMap varPartS) = ms.flatMap (varPartF c name)
  | [], _, _ => rfl
  | x :: rest, hms, hkw => by
    have ih := fieldsOfF_varParts hok pfx name i rest (fun y hy => hms y (List.mem_cons_of_mem _ hy))
      (fun g hg => hkw g (by
        obtain ⟨y, hy, hyg⟩ := List.mem_filterMap.mp hg
        exact List.mem_filterMap.mpr ⟨y, List.mem_cons_of_mem _ hy, hyg⟩))
    rw [List.flatMap_cons, List.flatMap_cons, fieldsOfF_append c, ih]
    congr 1
    rcases hms x (List.mem_cons_self) with (⟨g, rfl, hokg⟩ | ⟨g, rfl, hokg⟩) | ⟨isub, rfl, hb, hlf⟩
    · obtain ⟨fr, hfr, _⟩ := hok _ _ hokg
      simp only [varPartS, varPartF]
      exact fieldsOfF_spread_kw pfx hfr (hkw g (by simp [List.filterMap_cons, spreadId]))
    · simp [varPartS, varPartF, isBody, isFieldSel, fieldsOfF]
    · obtain ⟨_, _, hx', _, hall⟩ := isBody_inline hb
      cases hx'
      simp only [varPartS, varPartF, hb, if_true]
      exact fieldsOfF_leafs pfx _ isub hall hlf

theorem fieldsOfF_aliases (hok : OkSpec c.q ok) (pfx : String) (vt : TypeId) : ∀ (gs : List Nat), (∀ g ∈ gs, ok vt g = true) →
    (∀ g ∈ gs, kwOk c g = true) → fieldsOfF c pfx (gs.map Sel.spread) = gs.map (memField c)
  | [], _, _ => rfl
  | g :: gs, h1, h2 => by
    obtain ⟨fr, hfr, _⟩ := hok _ _ (h1 g (List.mem_cons_self))
    have ih := fieldsOfF_aliases hok pfx vt gs (fun g' hg' => h1 g' (List.mem_cons_of_mem _ hg'))
      (fun g' hg' => h2 g' (List.mem_cons_of_mem _ hg'))
    have h0 := fieldsOfF_spread_kw pfx hfr (h2 g (List.mem_cons_self))
    rw [List.map_cons, List.map_cons, ← ih]
    show fieldsOfF c pfx ([Sel.spread g] ++ gs.map Sel.spread) = _
    rw [fieldsOfF_append c, h0]
    rfl

/-- the fragments selected on a variant are of the class -/
theorem memFrags_okX {s : Schema} {q : Query} {o : Options} {i : Nat} {ms : List Sel}
    (hms : ∀ x ∈ ms, IsMemX ok s q o (.object i) x) {g : Nat}
    (hg : g ∈ ms.filterMap spreadId ++ ms.filterMap aliasInl) : ok (.object i) g = true := by
  rcases List.mem_append.mp hg with hg | hg
  · obtain ⟨x, hx, hxg⟩ := List.mem_filterMap.mp hg
    rcases hms x hx with (⟨g', rfl, hokg⟩ | ⟨g', rfl, hokg⟩) | ⟨isub, rfl, hb, _⟩
    · simp only [spreadId, Option.some.injEq] at hxg; subst hxg; exact hokg
    · simp [spreadId] at hxg
    · simp [spreadId] at hxg
  · obtain ⟨x, hx, hxg⟩ := List.mem_filterMap.mp hg
    rcases hms x hx with (⟨g', rfl, hokg⟩ | ⟨g', rfl, hokg⟩) | ⟨isub, rfl, hb, _⟩
    · simp [aliasInl] at hxg
    · simp only [aliasInl, Option.some.injEq] at hxg; subst hxg; exact hokg
    · obtain ⟨t', hx'⟩ := aliasInl_some hxg
      cases hx'
      simp [isBody, isFieldSel] at hb


end XLem

section AccA
variable (e : Env) (c : Ctx) (ok : TypeId → Nat → Bool) (whole : Nat → Bool → Json → Bool) (KN : String → List String)
  (fenv : Nat → Prop) (hok : OkSpec c.q ok) (hfa : ∀ p g, ok p g = true → fenv g → FragAcc e c whole KN g)

include hok hfa in
/-- the flattened members: struct items, keys, irrelevance of other keys, and what they accept -/
theorem accMemA (pfx : String) (p : TypeId) : ∀ (sels : List Sel), aSels ok c.s c.q c.o p sels = true →
    envSelsA fenv e c pfx sels → ∃ N, ∀ fuel, N ≤ fuel →
    (∀ g ∈ fieldsOfF c pfx sels, g.flatten = true → MemberOkN e g ∧
      (∀ f ∈ memberFields e g, f.flatten = false → f.wire ∈ kOf KN g) ∧
      (∀ L' : List String, (∀ k ∈ L', k ∉ kOf KN g) → ∀ kvs,
        okB (memberVal e fuel g (kvs.filter (fun kv => !L'.contains kv.1))) = okB (memberVal e fuel g kvs))) ∧
    (∀ kvs, ((fieldsOfF c pfx sels).filter (·.flatten)).all (fun g => okB (memberVal e fuel g kvs)) =
      looseMemN whole sels kvs)
  | [], _, _ => ⟨0, fun _ _ => ⟨by simp [fieldsOfF], fun _ => rfl⟩⟩
  | x :: xs, ht, henv => by
    obtain ⟨hx, hxs⟩ := aSels_cons ht
    rw [envSelsA] at henv
    obtain ⟨N, ih⟩ := accMemA pfx p xs hxs henv.2
    cases x with
    | field a fid sub =>
      obtain ⟨sf, ft, _, _, hf, _⟩ := fieldOfSelV_a pfx p a fid sub hx
      refine ⟨N, fun fuel hfuel => ?_⟩
      obtain ⟨i1, i2⟩ := ih fuel hfuel
      have hfs : fieldsOfF c pfx (.field a fid sub :: xs) =
          fieldOf c (a.getD sf.name) ft sf.ty.quals sf.deprecation :: fieldsOfF c pfx xs := by
        rw [fieldsOfF_cons, fieldOfSelF_field, hf]; rfl
      have hnf : (fieldOf c (a.getD sf.name) ft sf.ty.quals sf.deprecation).flatten = false := rfl
      rw [hfs]
      refine ⟨?_, fun kvs => ?_⟩
      · intro g hg hfl
        rcases List.mem_cons.mp hg with rfl | hg'
        · rw [hnf] at hfl; cases hfl
        · exact i1 g hg' hfl
      · simp only [List.filter_cons, hnf, Bool.false_eq_true, ↓reduceIte, i2 kvs, looseMemN]
    | spread g =>
      have hokg : ok p g = true := by simpa [aSel] using hx
      obtain ⟨fr, hfr, _⟩ := hok _ _ hokg
      have hname : fragName c g = fr.name := by simp [fragName, hfr]
      have hfg : fenv g := by have := henv.1; rwa [envSelA] at this
      have fa := hfa p g hokg hfg
      obtain ⟨n, d, cr, G, hnp, hfind, hG⟩ := fa.str
      obtain ⟨Ng, hacc⟩ := fa.acc
      rw [hname] at hnp hfind hG hacc
      have hirr := fa.irr
      rw [hname] at hirr
      have hfs : fieldsOfF c pfx (.spread g :: xs) = spreadField c fr :: fieldsOfF c pfx xs := by
        rw [fieldsOfF_cons]; simp [fieldOfSelF, hfr]
      have hfl' : (spreadField c fr).flatten = true := rfl
      have hmf : memberFields e (spreadField c fr) = G := by
        simp [memberFields, spreadField, hfind]
      have hmv : ∀ fuel kvs, memberVal e fuel (spreadField c fr) kvs = dePath e true (fuel + 1) fr.name (.obj kvs) :=
        fun fuel kvs => memberVal_eq_dePath e fuel _ fr.name n d cr rfl hnp (by rw [hmf]; exact hfind) kvs
      refine ⟨max N Ng, fun fuel hfuel => ?_⟩
      obtain ⟨i1, i2⟩ := ih fuel (by omega)
      rw [hfs]
      refine ⟨?_, fun kvs => ?_⟩
      · intro g' hg hfl
        rcases List.mem_cons.mp hg with rfl | hg'
        · refine ⟨⟨fr.name, n, d, cr, rfl, hnp, by rw [hmf]; exact hfind⟩, ?_, ?_⟩
          · rw [hmf]; exact hG
          · intro L' hL' kvs
            rw [hmv, hmv, hacc (fuel + 1) (by omega), hacc (fuel + 1) (by omega)]
            exact hirr L' hL' true kvs
        · exact i1 g' hg' hfl
      · simp only [List.filter_cons, hfl', ↓reduceIte, List.all_cons, i2 kvs, looseMemN, hmv,
          hacc (fuel + 1) (by omega)]
    | inline t sub => simp [aSel] at hx
    | typename =>
      refine ⟨N, fun fuel hfuel => ?_⟩
      have hfs : fieldsOfF c pfx (.typename :: xs) = fieldsOfF c pfx xs := by
        rw [fieldsOfF_cons]; simp [fieldOfSelF, fieldOfSelV]
      rw [hfs]
      exact ⟨(ih fuel hfuel).1, fun kvs => by rw [(ih fuel hfuel).2 kvs]; rfl⟩

def AccSelA (pfx : String) (x : Sel) : Prop :=
  ∀ p, aSel ok c.s c.q c.o p x = true → envSelA fenv e c pfx x → keysOkA KN c x = true →
    ∀ f, fieldOfSelV c pfx x = some f →
    ∃ N, ∀ b fd, N ≤ fd → ∀ v, okB (deFieldWith (dePath e b fd) f v) = looseFieldA whole c.s c.q c.o b x v

def AccSelsA (pfx : String) (sels : List Sel) : Prop :=
  ∀ p, aSels ok c.s c.q c.o p sels = true → envSelsA fenv e c pfx sels → keysOksA KN c sels = true →
    ∃ N, ∀ b fd, N ≤ fd →
    (∀ kvs, (fieldsOfV c pfx sels).all (fun f => decide (countKey f.wire kvs ≤ 1) &&
        okB (readField (dePath e b fd) f kvs)) = looseOwnA whole c.s c.q c.o b sels kvs) ∧
    (∀ xs, (decide ((fieldsOfV c pfx sels).length ≤ xs.length) &&
        ((fieldsOfV c pfx sels).zip xs).all (fun p => okB (deFieldWith (dePath e b fd) p.1 p.2))) =
          looseArrA whole c.s c.q c.o b sels xs)

include hok hfa in
/-- the struct of an object-level selection set (not a lone spread) accepts exactly `conformsLooseA` -/
theorem accStructA (pfx name : String) (p : TypeId) (sels : List Sel) (H : AccSelsA e c ok whole KN fenv pfx sels)
    (hnl : ∀ g, sels ≠ [Sel.spread g])
    (ht : aSels ok c.s c.q c.o p sels = true) (henv : envSelsA fenv e c pfx sels) (hko : keysOksA KN c sels = true)
    (hkeys : EnumSpec.nodup (expKeysN KN c sels) = true)
    (hs : StructEnv e name (fieldsOfF c pfx sels)) :
    ∃ N, ∀ b fd, N ≤ fd → ∀ j, okB (dePath e b fd name j) = conformsLooseA whole c.s c.q c.o b sels j := by
  obtain ⟨hp, _, n, d, cr, hfind⟩ := hs
  obtain ⟨N0, H0⟩ := H p ht henv hko
  obtain ⟨N1, H1⟩ := accMemA e c ok whole KN fenv hok hfa pfx p sels ht henv
  refine ⟨max N0 N1 + 2, fun b fd hfd j => ?_⟩
  obtain ⟨fd', rfl⟩ : ∃ k, fd = k + 2 := ⟨fd - 2, by omega⟩
  rw [conformsLooseA_not_lone hnl]
  have hown := own_fieldsOfA hok pfx p sels ht
  have hany := any_flatten_fieldsOfA hok pfx p sels ht
  have hpl := plain_fieldsOfV c pfx sels
  obtain ⟨A1, A2⟩ := H0 b (fd' + 1) (by omega)
  rw [dePath_struct e b (fd' + 1) name n d cr _ hp hfind]
  cases hsp : sels.any isSpread
  · -- no spread: a plain struct
    have hplain : fieldsOfF c pfx sels = fieldsOfV c pfx sels := by
      rw [← hown]
      symm
      rw [List.filter_eq_self]
      intro f hf
      rw [hsp] at hany
      have := List.any_eq_false.mp hany f hf
      simpa using this
    rw [hplain]
    cases j with
    | obj kvs =>
      rw [deStruct_obj, deStructMap_plain _ _ _ _ hpl, okB_map, okB_deOwn' _ _ _ hpl, A1]
      simp [looseMemN_nospread whole kvs sels hsp]
    | arr xs =>
      simp only [deStructWith, any_flatten_of_plain hpl, Bool.false_eq_true, ↓reduceIte, Bool.not_false, Bool.true_and]
      rw [← A2 xs]
      by_cases hlen : xs.length < (fieldsOfV c pfx sels).length
      · have : ¬ ((fieldsOfV c pfx sels).length ≤ xs.length) := by omega
        simp [hlen, this, okB, bad]
      · have : (fieldsOfV c pfx sels).length ≤ xs.length := by omega
        simp only [hlen, ↓reduceIte, okB_map, okB_mapM, this, decide_true, Bool.true_and]
        congr 1; funext p
        cases deFieldWith (dePath e b (fd' + 1)) p.1 p.2 <;> rfl
    | null => rfl
    | bool _ => rfl
    | int _ => rfl
    | num _ => rfl
    | str _ => rfl
  · -- flattened members
    rw [hsp] at hany
    obtain ⟨M1, M2⟩ := H1 fd' (by omega)
    obtain ⟨_, _, h3, h4⟩ := flat_hypsA hok KN pfx p sels ht (nodup_iff'.mp hkeys)
    cases j with
    | obj kvs =>
      rw [deStruct_obj, okB_deStructMapN e fd' _ _ kvs (kOf KN) hany (fun g hg hf => (M1 g hg hf).1)
        (fun g hg hf => (M1 g hg hf).2.1) (fun g hg hf k hk hkK => h3 g hg hf k hkK hk)
        (fun g hg hf _ L' hL' => (M1 g hg hf).2.2 L' hL' kvs) h4, hown, okB_deOwn' _ _ _ hpl, A1 kvs, M2 kvs]
    | arr xs => simp only [deStructWith, hany, ↓reduceIte]; rfl
    | null => rfl
    | bool _ => rfl
    | int _ => rfl
    | num _ => rfl
    | str _ => rfl

include hfa in
/-- a lone spread: the alias of the fragment struct accepts what the fragment struct accepts -/
theorem accAliasA (name : String) (p : TypeId) (g : Nat) (hokg : ok p g = true)
    (ha : AliasEnv e name (fragName c g)) (hf : fenv g) :
    ∃ N, ∀ b fd, N ≤ fd → ∀ j, okB (dePath e b fd name j) = whole g b j := by
  obtain ⟨Ng, hacc⟩ := (hfa p g hokg hf).acc
  obtain ⟨hp, _, n, pub, hfind⟩ := ha
  refine ⟨Ng + 1, fun b fd hfd j => ?_⟩
  obtain ⟨fd', rfl⟩ : ∃ k, fd = k + 1 := ⟨fd - 1, by omega⟩
  have : dePath e b (fd' + 1) name j = dePath e b fd' (fragName c g) j := by
    rw [dePath]; simp only [dePrim_none hp, hfind, deTyWith]
  rw [this]
  exact hacc fd' (by omega) b j

theorem pairwise_of_nodup_flatMap {α β : Type} (f : α → List β) : ∀ (l : List α), (l.flatMap f).Nodup →
    l.Pairwise (fun a b => ∀ k ∈ f b, k ∉ f a)
  | [], _ => List.Pairwise.nil
  | a :: l, h => by
    rw [List.flatMap_cons, List.nodup_append] at h
    obtain ⟨_, h2, h3⟩ := h
    rw [List.pairwise_cons]
    refine ⟨fun b hb k hk hka => h3 k hka k (List.mem_flatMap.mpr ⟨b, hb, hk⟩) rfl, pairwise_of_nodup_flatMap f l h2⟩

theorem all_congr_mem {α : Type} {f g : α → Bool} : ∀ {l : List α}, (∀ a ∈ l, f a = g a) → l.all f = l.all g
  | [], _ => rfl
  | a :: l, h => by
    rw [List.all_cons, List.all_cons, h a (List.mem_cons_self), all_congr_mem (fun b hb => h b (List.mem_cons_of_mem _ hb))]

theorem looseMemN_spreads (whole : Nat → Bool → Json → Bool) (kvs : List (String × Json)) : ∀ (gs : List Nat),
    looseMemN whole (gs.map Sel.spread) kvs = gs.all (fun g => whole g true (.obj kvs))
  | [] => rfl
  | g :: gs => by rw [List.map_cons, looseMemN, looseMemN_spreads whole kvs gs, List.all_cons]

/-- **a struct that consists of flattened members for the structs of the fragments `gs`** (a variant struct) accepts an
    object iff every fragment's struct accepts it -/
theorem accMembersA (name : String) (gs : List Nat) (hne : gs ≠ []) (hs : StructEnv e name (gs.map (memField c)))
    (hfa' : ∀ g ∈ gs, FragAcc e c whole KN g) (hkeys : (gs.flatMap (fun g => KN (fragName c g))).Nodup) :
    ∃ N, ∀ b fd, N ≤ fd → ∀ kvs, okB (dePath e b fd name (.obj kvs)) = gs.all (fun g => whole g true (.obj kvs)) := by
  obtain ⟨hp, _, n, d, cr, hfind⟩ := hs
  -- what is known of each member
  have hmem : ∀ g ∈ gs, ∃ n' d' cr' G, notPrim (fragName c g) ∧
      e.find (fragName c g) = some (.struct n' d' cr' G) ∧ memberFields e (memField c g) = G ∧
      (∀ f ∈ G, f.flatten = false → f.wire ∈ KN (fragName c g)) := by
    intro g hg
    obtain ⟨n', d', cr', G, hnp, hf, hG⟩ := (hfa' g hg).str
    exact ⟨n', d', cr', G, hnp, hf, by simp [memberFields, memField, hf], hG⟩
  have hacc : ∃ N, ∀ g ∈ gs, ∀ fd, N ≤ fd → ∀ b j, okB (dePath e b fd (fragName c g) j) = whole g b j := by
    apply exists_uniform (fun g N => ∀ fd, N ≤ fd → ∀ b j, okB (dePath e b fd (fragName c g) j) = whole g b j)
    · intro g n m hnm h fd hfd; exact h fd (by omega)
    · intro g hg; exact (hfa' g hg).acc
  obtain ⟨N, hN⟩ := hacc
  refine ⟨N + 2, fun b fd hfd kvs => ?_⟩
  obtain ⟨fd', rfl⟩ : ∃ k, fd = k + 2 := ⟨fd - 2, by omega⟩
  have hmv : ∀ g ∈ gs, ∀ kvs', memberVal e fd' (memField c g) kvs' = dePath e true (fd' + 1) (fragName c g) (.obj kvs') := by
    intro g hg kvs'
    obtain ⟨n', d', cr', G, hnp, hf, hmf, _⟩ := hmem g hg
    exact memberVal_eq_dePath e fd' _ (fragName c g) n' d' cr' rfl hnp (by rw [hmf]; exact hf) kvs'
  have hany : (gs.map (memField c)).any (·.flatten) = true := by
    cases gs with
    | nil => exact absurd rfl hne
    | cons g gs' => simp [memField]
  have hown0 : (gs.map (memField c)).filter (fun f => !f.flatten) = [] := by
    rw [List.filter_eq_nil_iff]
    intro f hf
    obtain ⟨g, _, rfl⟩ := List.mem_map.mp hf
    simp [memField]
  have hfl0 : (gs.map (memField c)).filter (·.flatten) = gs.map (memField c) := by
    rw [List.filter_eq_self]
    intro f hf
    obtain ⟨g, _, rfl⟩ := List.mem_map.mp hf
    rfl
  rw [dePath_struct e b (fd' + 1) name n d cr _ hp hfind, deStruct_obj,
    okB_deStructMapN e fd' _ _ kvs (kOf KN) hany
      (fun f hf _ => by
        obtain ⟨g, hg, rfl⟩ := List.mem_map.mp hf
        obtain ⟨n', d', cr', G, hnp, hf', hmf, _⟩ := hmem g hg
        exact ⟨fragName c g, n', d', cr', rfl, hnp, by rw [hmf]; exact hf'⟩)
      (fun f hf _ => by
        obtain ⟨g, hg, rfl⟩ := List.mem_map.mp hf
        obtain ⟨n', d', cr', G, hnp, hf', hmf, hG⟩ := hmem g hg
        rw [hmf]; exact hG)
      (fun f hf _ k hk => by rw [hown0] at hk; simp at hk)
      (fun f hf _ _ L' hL' => by
        obtain ⟨g, hg, rfl⟩ := List.mem_map.mp hf
        rw [hmv g hg, hmv g hg, hN g hg (fd' + 1) (by omega), hN g hg (fd' + 1) (by omega)]
        exact (hfa' g hg).irr L' hL' true kvs)
      ((pairwise_of_nodup_flatMap _ gs hkeys).map (memField c) (fun a b h _ _ k hk => h k hk)),
    hown0, hfl0, List.all_map]
  have : okB (deOwnWith (dePath e b (fd' + 1)) [] kvs) = true := by
    rw [okB_deOwn' _ _ [] rfl]; rfl
  rw [this, Bool.true_and]
  apply all_congr_mem
  intro g hg
  simp only [Function.comp]
  rw [hmv g hg, hN g hg (fd' + 1) (by omega)]

omit hfa in
theorem ownSels_cons_field (a : Option String) (fid : Nat) (sub' : List Sel) (xs : List Sel) :
    C01NG.ownSels (Sel.field a fid sub' :: xs) = Sel.field a fid sub' :: C01NG.ownSels xs := by
  simp [C01NG.ownSels, List.filter_cons, isFieldSel]

omit hfa in
theorem ownSels_cons_other {x : Sel} (h : isFieldSel x = false) (xs : List Sel) : C01NG.ownSels (x :: xs) = C01NG.ownSels xs := by
  simp [C01NG.ownSels, List.filter_cons, h]

omit hfa in
theorem fieldsOfV_ownSels (c : Ctx) (pfx : String) : ∀ (sub : List Sel), fieldsOfV c pfx (C01NG.ownSels sub) = fieldsOfV c pfx sub
  | [] => rfl
  | x :: xs => by
    have ih := fieldsOfV_ownSels c pfx xs
    cases x with
    | field a fid sub' =>
      rw [C01NG.ownSels_cons_field]; unfold fieldsOfV at ih ⊢; rw [List.filterMap_cons, List.filterMap_cons, ih]
    | spread g => rw [C01NG.ownSels_cons_other rfl, ih, fieldsOfV_cons_none c pfx _ xs rfl]
    | inline t sub' => rw [C01NG.ownSels_cons_other rfl, ih, fieldsOfV_cons_none c pfx _ xs rfl]
    | typename => rw [C01NG.ownSels_cons_other rfl, ih, fieldsOfV_cons_none c pfx _ xs rfl]

omit hfa in
theorem sSels_ownSels {s : Schema} {q : Query} {o : Options} : ∀ (sub : List Sel),
    (∀ x ∈ sub, leafSel s q o x = true) → sSels s q o true (C01NG.ownSels sub) = true
  | [], _ => by simp [C01NG.ownSels, sSels]
  | x :: xs, h => by
    have ih := sSels_ownSels xs (fun y hy => h y (List.mem_cons_of_mem _ hy))
    cases x with
    | field a fid sub' =>
      rw [C01NG.ownSels_cons_field, sSels, ih, Bool.and_true]
      have := h _ (List.mem_cons_self)
      simp only [leafSel, Bool.and_eq_true] at this
      exact this.1
    | spread g => rw [C01NG.ownSels_cons_other rfl]; exact ih
    | inline t sub' => rw [C01NG.ownSels_cons_other rfl]; exact ih
    | typename => rw [C01NG.ownSels_cons_other rfl]; exact ih

omit hfa in
/-- a leaf field has its struct field -/
theorem fieldOfSelV_leaf {c : Ctx} (pfx : String) {a : Option String} {fid : Nat} {sub' : List Sel}
    (h : leafSel c.s c.q c.o (.field a fid sub') = true) : ∃ f, fieldOfSelV c pfx (.field a fid sub') = some f := by
  obtain ⟨sf, hsf, _, _, _, hty⟩ := leafSel_field h
  rcases hty with ⟨k, sn, hid, hk⟩ | ⟨k, en, hid, hk⟩
  · simp only [fieldOfSelV, hsf, hid, leafNameV, hk, Option.map_some]; exact ⟨_, rfl⟩
  · simp only [fieldOfSelV, hsf, hid, leafNameV, hk, Option.map_some]; exact ⟨_, rfl⟩

omit hfa in
theorem fieldsOfV_isEmpty {c : Ctx} (pfx : String) {sub : List Sel} (h : ∀ x ∈ sub, leafSel c.s c.q c.o x = true) :
    (fieldsOfV c pfx sub).isEmpty = (C01NG.ownSels sub).isEmpty := by
  rw [← fieldsOfV_ownSels]
  cases hown : C01NG.ownSels sub with
  | nil => rfl
  | cons x rest =>
    have hx : x ∈ C01NG.ownSels sub := by rw [hown]; exact List.mem_cons_self
    obtain ⟨hxs, hxf⟩ := List.mem_filter.mp hx
    cases x with
    | field a fid sub' =>
      obtain ⟨f, hf⟩ := fieldOfSelV_leaf pfx (h _ hxs)
      rw [fieldsOfV_cons_field c pfx _ rest f hf]; rfl
    | spread g => simp [isFieldSel] at hxf
    | inline t sub' => simp [isFieldSel] at hxf
    | typename => simp [isFieldSel] at hxf

omit hok hfa in
/-- acceptance of the own fields of a selection set whose fields are leaves -/
theorem accSelsLeafA (pfx : String) (sels : List Sel) (hl : ∀ x ∈ sels, leafSel c.s c.q c.o x = true)
    (henv : envSelsS e c pfx (C01NG.ownSels sels)) : AccSelsA e c ok whole KN fenv pfx sels := by
  intro p _ _ _
  refine ⟨2 * depthsF c.q (C01NG.ownSels sels) + 1, fun b fd hfd => ?_⟩
  obtain ⟨H1, H2⟩ := accSelsS e c (C01NG.ownSels sels) pfx true (sSels_ownSels sels hl) henv b fd hfd
  refine ⟨fun kvs => ?_, fun xs => ?_⟩
  · rw [looseOwnA_leaf b kvs sels hl, ← H1 kvs, fieldsOfV_ownSels]
  · rw [looseArrA_leaf b sels xs hl, ← H2 xs, fieldsOfV_ownSels]

include hok in
omit hfa in
/-- the variant struct of a possible type with an inline fragment with fields, as the struct of the object-level selection
    set `varSels` -/
theorem varSels_facts (name : String) (ty : TypeId) (sub : List Sel) (hsx : SpecialX ok c.s c.q c.o ty sub)
    (i : Nat) (hvt : TypeId.object i ∈ vtsOfTy c.s ty) (hbody : (mineOf c.q (.object i) sub).any isBody = true)
    (hs : StructEnv e (name ++ "On" ++ objName c.s (.object i)) (varFieldsX c name (mineOf c.q (.object i) sub)))
    (henvF : envSelsS e c name (C01NG.ownSels (varSels c.q (.object i) sub)))
    (hfenv : ∀ g ∈ memFrags c.q (.object i) sub, fenv g)
    (hkw : ∀ g ∈ memFrags c.q (.object i) sub, kwOk c g = true) :
    (∀ x ∈ varSels c.q (.object i) sub, leafSel c.s c.q c.o x = true) ∧
      aSels ok c.s c.q c.o (.object i) (varSels c.q (.object i) sub) = true ∧
      envSelsA fenv e c name (varSels c.q (.object i) sub) ∧ keysOksA KN c (varSels c.q (.object i) sub) = true ∧
      (∀ g, varSels c.q (.object i) sub ≠ [Sel.spread g]) ∧
      StructEnv e (name ++ "On" ++ objName c.s (.object i)) (fieldsOfF c name (varSels c.q (.object i) sub)) ∧
      (∀ g ∈ memFrags c.q (.object i) sub, ok (.object i) g = true) ∧
      (∀ x ∈ varSels c.q (.object i) sub, (∃ g, x = Sel.spread g ∧ g ∈ memFrags c.q (.object i) sub) ∨
        (isFieldSel x = true ∧ ∃ t isub, Sel.inline t isub ∈ mineOf c.q (.object i) sub ∧ x ∈ isub)) := by
    have hmineX := hsx.mine hok hvt
    have hmemS : ∀ x ∈ varSels c.q (.object i) sub,
        (∃ g, x = Sel.spread g ∧ g ∈ memFrags c.q (.object i) sub) ∨
          (isFieldSel x = true ∧ leafSel c.s c.q c.o x = true) := by
      intro x hx
      rcases mem_varSelsOf hx with ⟨g, rfl, hg⟩ | ⟨t, isub, hm, hb, hxi⟩
      · exact .inl ⟨g, rfl, hg⟩
      · rcases hmineX _ hm with (⟨g, h0, _⟩ | ⟨g, h0, _⟩) | ⟨isub', h0, _, hlf⟩
        · cases h0
        · cases h0; simp [isBody, isFieldSel] at hb
        · cases h0
          obtain ⟨_, _, hx', _, hall⟩ := isBody_inline hb
          cases hx'
          exact .inr ⟨hall x hxi, hlf x hxi⟩
    have hokm : ∀ g ∈ memFrags c.q (.object i) sub, ok (.object i) g = true :=
      fun g hg => memFrags_okX hmineX hg
    have hleafall : ∀ x ∈ varSels c.q (.object i) sub, leafSel c.s c.q c.o x = true := by
      intro x hx
      rcases hmemS x hx with ⟨g, rfl, _⟩ | ⟨_, hl⟩
      · rfl
      · exact hl
    have ht : aSels ok c.s c.q c.o (.object i) (varSels c.q (.object i) sub) = true := by
      apply aSels_of_mem
      intro x hx
      rcases hmemS x hx with ⟨g, rfl, hg⟩ | ⟨hf, hl⟩
      · simpa [aSel] using hokm g hg
      · cases x with
        | field a fid sub' => exact aSel_leaf hl
        | spread g => simp [isFieldSel] at hf
        | inline t sub' => simp [isFieldSel] at hf
        | typename => simp [isFieldSel] at hf
    have henvA : envSelsA fenv e c name (varSels c.q (.object i) sub) := by
      apply envSelsA_of_mem
      intro x hx
      rcases hmemS x hx with ⟨g, rfl, hg⟩ | ⟨hf, hl⟩
      · rw [envSelA]; exact hfenv g hg
      · cases x with
        | field a fid sub' =>
          exact envSelA_leaf hl
            (envSelsS_mem henvF _ (List.mem_filter.mpr ⟨hx, hf⟩))
        | spread g => simp [isFieldSel] at hf
        | inline t sub' => simp [isFieldSel] at hf
        | typename => simp [isFieldSel] at hf
    have hko : keysOksA KN c (varSels c.q (.object i) sub) = true := by
      apply keysOksA_of_mem
      intro x hx
      rcases hmemS x hx with ⟨g, rfl, hg⟩ | ⟨hf, hl⟩
      · simp [keysOkA]
      · cases x with
        | field a fid sub' => exact keysOkA_leaf hl
        | spread g => simp [isFieldSel] at hf
        | inline t sub' => simp [isFieldSel] at hf
        | typename => simp [isFieldSel] at hf
    -- the struct has an own field
    obtain ⟨y, hyv, hyf⟩ : ∃ y ∈ varSels c.q (.object i) sub, isFieldSel y = true := by
      have hb' := hbody
      simp only [List.any_eq_true] at hb'
      obtain ⟨z, hz, hzb⟩ := hb'
      obtain ⟨t, isub, rfl, hne0, hall⟩ := isBody_inline hzb
      cases isub with
      | nil => exact absurd rfl hne0
      | cons y ys =>
        refine ⟨y, ?_, hall y (by simp)⟩
        unfold varSels varSelsOf
        apply List.mem_append_left
        exact List.mem_flatMap.mpr ⟨_, hz, by simp [varPartS, hzb]⟩
    have hnl : ∀ g, varSels c.q (.object i) sub ≠ [Sel.spread g] := by
      intro g hg
      rw [hg] at hyv
      simp only [List.mem_singleton] at hyv
      subst hyv
      simp [isFieldSel] at hyf
    have hF : fieldsOfF c name (varSels c.q (.object i) sub) = varFieldsX c name (mineOf c.q (.object i) sub) := by
      unfold varSels varSelsOf varFieldsX
      rw [fieldsOfF_append c, fieldsOfF_varParts hok name name i _ hmineX
        (fun g hg => hkw g (List.mem_append_left _ hg)),
        fieldsOfF_aliases hok name (.object i) _
          (fun g hg => hokm g (List.mem_append_right _ hg)) (fun g hg => hkw g (List.mem_append_right _ hg))]
    refine ⟨hleafall, ht, henvA, hko, hnl, by rw [hF]; exact hs, hokm, ?_⟩
    intro x hx
    rcases mem_varSelsOf hx with ⟨g, rfl, hg⟩ | ⟨t, isub, hm, hb, hxi⟩
    · exact .inl ⟨g, rfl, hg⟩
    · obtain ⟨_, _, hx', _, hall⟩ := isBody_inline hb
      cases hx'
      exact .inr ⟨hall x hxi, t, isub, hm, hxi⟩

include hok hfa in
/-- **the payload of the variant of `vt`** accepts exactly `payX` -/
theorem accVariantX (name : String) (ty : TypeId) (sub : List Sel) (hsx : SpecialX ok c.s c.q c.o ty sub)
    (vt : TypeId) (hvt : vt ∈ vtsOfTy c.s ty) (hve : VarEnvX fenv e c name vt sub)
    (hkeys : varKeysOk KN c vt sub = true) :
    ∃ N, ∀ fd, N ≤ fd → ∀ rest,
      pickOk (dePath e true fd) (variantOf c name (marks c.q sub) vt) rest = payX whole c.s c.q c.o sub vt rest := by
  have hsp := hsx.gen.abs
  cases hbody : (mineOf c.q vt sub).any isBody with
  | false =>
    have hmeq := mineOf_unbody hbody
    unfold VarEnvX at hve
    rw [hbody] at hve
    simp only [Bool.false_eq_true, if_false] at hve
    unfold varKeysOk at hkeys
    rw [hbody] at hkeys
    simp only [Bool.false_eq_true, if_false] at hkeys
    obtain ⟨N, hN⟩ := C01NA.accVariantA e c ok whole KN fenv hok hfa name ty (strip (unbody sub)) hsp vt hvt hve
      (nodup_iff'.mp hkeys)
    refine ⟨N, fun fd hfd rest => ?_⟩
    rw [← marks_variantOf_congr c name vt hmeq, hN fd hfd rest]
    unfold payX
    rw [hbody]
    rfl
  | true =>
    obtain ⟨i, rfl, hi⟩ := hsp.obj vt hvt
    unfold VarEnvX at hve
    simp only [hbody, if_true] at hve
    obtain ⟨hs, henvF, hfenv⟩ := hve
    unfold varKeysOk at hkeys
    simp only [hbody, if_true, Bool.and_eq_true, List.all_eq_true] at hkeys
    obtain ⟨hkn, hkw⟩ := hkeys
    obtain ⟨hleafall, ht, henvA, hko, hnl, hsF, hokm, _⟩ := varSels_facts e c ok KN fenv hok name ty sub hsx i hvt hbody hs henvF
      hfenv hkw
    obtain ⟨N, hN⟩ := accStructA e c ok whole KN fenv hok hfa name (name ++ "On" ++ objName c.s (.object i)) (.object i)
      (varSels c.q (.object i) sub) (accSelsLeafA e c ok whole KN fenv name _ hleafall henvF) hnl ht henvA hko hkn
      hsF
    refine ⟨N, fun fd hfd rest => ?_⟩
    have hemp : (mineOf c.q (.object i) sub).isEmpty = false := by
      cases hmm : mineOf c.q (.object i) sub with
      | nil => rw [hmm] at hbody; simp at hbody
      | cons _ _ => rfl
    unfold pickOk variantOf payX
    rw [marks_contains]
    simp only [hemp, Bool.not_false, ↓reduceIte, hbody, Bool.false_eq_true]
    rw [show deTyWith (dePath e true fd) (.path (name ++ "On" ++ objName c.s (.object i))) (.obj rest) =
      dePath e true fd (name ++ "On" ++ objName c.s (.object i)) (.obj rest) from rfl, hN true fd hfd (.obj rest),
      conformsLooseA_not_lone hnl]
    simp only [looseOwnA_leaf true rest _ hleafall]


/-! ## the struct at a position with (b)-spreads -/

theorem fieldOfSelB_field (c : Ctx) (pfx : String) (ty : TypeId) (a : Option String) (fid : Nat) (sub' : List Sel) :
    fieldOfSelB c pfx ty (.field a fid sub') = fieldOfSelV c pfx (.field a fid sub') := rfl

/-- the own (non-flattened) fields of the struct: the interface-level fields -/
theorem fieldsB_filter_own (c : Ctx) (pfx : String) (ty : TypeId) : ∀ (sub : List Sel),
    (fieldsB c pfx ty sub).filter (fun f => !f.flatten) = fieldsOfV c pfx sub
  | [] => rfl
  | x :: xs => by
    have ih := fieldsB_filter_own c pfx ty xs
    have hpl := plain_fieldsOfV c pfx [x]
    rw [fieldsB_cons, List.filter_append, ih]
    cases x with
    | field a fid sub' =>
      rw [fieldOfSelB_field]
      unfold fieldsOfV at hpl ⊢
      rw [List.filterMap_cons]
      cases hfo : fieldOfSelV c pfx (.field a fid sub') with
      | none => simp
      | some f =>
        simp only [List.filterMap_cons, hfo, List.filterMap_nil, plain, List.all_cons, List.all_nil, Bool.and_true] at hpl
        simp [hpl]
    | spread g =>
      rw [fieldsOfV_cons_none c pfx _ xs rfl]
      simp only [fieldOfSelB]
      cases hf : c.q.fragments[g]? with
      | none => simp
      | some f => by_cases hon : f.on = ty <;> simp [hon, spreadField]
    | inline t sub' => rw [fieldsOfV_cons_none c pfx _ xs rfl]; simp [fieldOfSelB, fieldOfSelV]
    | typename => rw [fieldsOfV_cons_none c pfx _ xs rfl]; simp [fieldOfSelB, fieldOfSelV]

/-- the flattened members of the struct: one per (b)-spread -/
theorem fieldsB_filter_fl (c : Ctx) (pfx : String) (ty : TypeId) : ∀ (sub : List Sel),
    (fieldsB c pfx ty sub).filter (·.flatten) = fieldsB c pfx ty (bSels c.q ty sub)
  | [] => rfl
  | x :: xs => by
    have ih := fieldsB_filter_fl c pfx ty xs
    have hpl := plain_fieldsOfV c pfx [x]
    unfold bSels at ih ⊢
    rw [fieldsB_cons, List.filter_append, ih, List.filter_cons]
    cases x with
    | field a fid sub' =>
      rw [fieldOfSelB_field]
      unfold fieldsOfV at hpl
      cases hfo : fieldOfSelV c pfx (.field a fid sub') with
      | none => simp [isBSpread]
      | some f =>
        simp only [List.filterMap_cons, hfo, List.filterMap_nil, plain, List.all_cons, List.all_nil, Bool.and_true] at hpl
        have : f.flatten = false := by simpa using hpl
        simp [isBSpread, this]
    | spread g =>
      cases hf : c.q.fragments[g]? with
      | none => simp [fieldOfSelB, isBSpread, hf]
      | some f =>
        by_cases hon : f.on = ty
        · simp [fieldOfSelB, isBSpread, hf, hon, spreadField, fieldsB_cons]
        · simp [fieldOfSelB, isBSpread, hf, hon]
    | inline t sub' => simp [fieldOfSelB, fieldOfSelV, isBSpread]
    | typename => simp [fieldOfSelB, fieldOfSelV, isBSpread]

theorem isEmpty_of_filters {α : Type} (p : α → Bool) : ∀ (l : List α),
    l.isEmpty = ((l.filter (fun x => !p x)).isEmpty && (l.filter p).isEmpty)
  | [] => rfl
  | x :: xs => by cases hp : p x <;> simp [List.filter_cons, hp]

theorem fieldsB_bSels_isEmpty (c : Ctx) (pfx : String) (ty : TypeId) (sub : List Sel) :
    (fieldsB c pfx ty (bSels c.q ty sub)).isEmpty = (bSels c.q ty sub).isEmpty := by
  cases hl : bSels c.q ty sub with
  | nil => rfl
  | cons x xs =>
    have hx : x ∈ bSels c.q ty sub := by rw [hl]; simp
    obtain ⟨g, f, rfl, hf, hon⟩ := isBSpread_spread (mem_bSels.mp hx).2
    rw [fieldsB_cons]
    simp [fieldOfSelB, hf, hon]

theorem fieldsB_isEmpty {c : Ctx} (pfx : String) (ty : TypeId) {sub : List Sel}
    (h : ∀ x ∈ sub, leafSel c.s c.q c.o x = true) :
    (fieldsB c pfx ty sub).isEmpty = ((C01NG.ownSels sub).isEmpty && (bSels c.q ty sub).isEmpty) := by
  rw [isEmpty_of_filters (·.flatten), fieldsB_filter_own, fieldsB_filter_fl, fieldsOfV_isEmpty pfx h, fieldsB_bSels_isEmpty]

/-- the (b)-spreads are spreads of `VariantSpreadOp` -/
theorem spreadsA_bSels {ok : TypeId → Nat → Bool} {c : Ctx} {ty : TypeId} {sub : List Sel}
    (h : SpecialB ok c.s c.q c.o ty sub) : SpreadsA c ty (bSels c.q ty sub) := by
  intro g hg
  obtain ⟨hm, hb⟩ := mem_bSels.mp hg
  have hbf := h.b g hm hb
  obtain ⟨f, hf, hon, _⟩ := fragOkB_parts hbf.okB
  exact .inr ⟨f, hbf.okB, hf, hon⟩

include hok hfa in
/-- **a field of abstract type of the class**: the tagged enum alone, or the struct (own fields + flattened members of the
    (b)-spreads + flattened `on`) and the tagged enum `…On`, accept exactly `looseTagB` -/
theorem accAbsB (pfx : String) (a : Option String) (fid : Nat) (sub : List Sel) (sf : StoredField)
    (hsf : c.s.fields[fid]? = some sf) (hnew : absFieldB ok c.s c.q c.o sf sub = true)
    (henv : EnvAbsB fenv e c (pfx ++ c.cs.camel (a.getD sf.name)) sf.ty.id sub)
    (hkeys : ∀ vt ∈ vtsOfTy c.s sf.ty.id, varKeysOk KN c vt (unB c.q sf.ty.id sub) = true) :
    ∃ N, ∀ b fd, N ≤ fd → ∀ v,
      okB (deFieldWith (dePath e b fd)
        (fieldOf c (a.getD sf.name) (pfx ++ c.cs.camel (a.getD sf.name)) sf.ty.quals sf.deprecation) v) =
        looseAbsB whole c.s c.q c.o b sf sub v := by
  obtain ⟨hw, _, hty, hsubG⟩ := absFieldB_parts hnew
  have hsb := absSubB_parts hsubG
  have hsg := hsb.x
  have hwf : wf (gtyOf sf.ty.quals) = true := by rw [wf_gtyOf]; exact hw
  obtain ⟨habs, henvF, henvB, hvar⟩ := henv
  generalize hname : pfx ++ c.cs.camel (a.getD sf.name) = name at *
  -- the payloads, uniformly in the fuel
  have hpay : ∃ N, ∀ vt ∈ vtsOfTy c.s sf.ty.id, ∀ fd, N ≤ fd → ∀ rest,
      pickOk (dePath e true fd) (variantOf c name (marks c.q (unB c.q sf.ty.id sub)) vt) rest =
        payX whole c.s c.q c.o (unB c.q sf.ty.id sub) vt rest := by
    apply exists_uniform (fun vt N => ∀ fd, N ≤ fd → ∀ rest,
      pickOk (dePath e true fd) (variantOf c name (marks c.q (unB c.q sf.ty.id sub)) vt) rest =
        payX whole c.s c.q c.o (unB c.q sf.ty.id sub) vt rest)
    · intro vt n m hnm h fd hfd rest
      exact h fd (by omega) rest
    · intro vt hvt
      exact C01NX.accVariantX e c ok whole KN fenv hok hfa _ sf.ty.id _ hsg vt hvt (hvar vt hvt) (hkeys vt hvt)
  obtain ⟨N, hN⟩ := hpay
  have hsS := sSels_ownSels sub hsb.leaf
  have hemp := fieldsB_isEmpty name sf.ty.id hsb.leaf
  unfold AbsEnv at habs
  cases hown : ((C01NG.ownSels sub).isEmpty && (bSels c.q sf.ty.id sub).isEmpty) with
  | true =>
    rw [hown] at hemp
    simp only [hemp, if_true] at habs
    obtain ⟨hp, hID, n, d, cr, hfind⟩ := habs
    refine ⟨N + 1, fun b fd hfd v => ?_⟩
    obtain ⟨fd', rfl⟩ : ∃ k, fd = k + 1 := ⟨fd - 1, by omega⟩
    have hleaf : ∀ j, okB (dePath e b (fd' + 1) name j) = looseTagB whole c.s c.q c.o b sf.ty.id sub j := by
      intro j
      cases j with
      | obj kvs =>
        rw [dePath_tagged e b fd' _ n d cr _ _ hp hfind]
        simp only [looseTagB, hown, if_true]
        exact okB_tagged c _ sf.ty.id (marks c.q (unB c.q sf.ty.id sub)) _ b _ kvs (fun vt hvt => hN vt hvt fd' (by omega) _)
      | arr xs => unfold dePath; simp only [dePrim_none hp, hfind]; rfl
      | null => unfold dePath; simp only [dePrim_none hp, hfind]; rfl
      | bool _ => unfold dePath; simp only [dePrim_none hp, hfind]; rfl
      | int _ => unfold dePath; simp only [dePrim_none hp, hfind]; rfl
      | num _ => unfold dePath; simp only [dePrim_none hp, hfind]; rfl
      | str _ => unfold dePath; simp only [dePrim_none hp, hfind]; rfl
    rw [deField_plain _ _ _ _ hID]
    exact (ok_iff_accepts _ _ (looseTagB whole c.s c.q c.o b sf.ty.id sub) hleaf _ hwf).2 v
  | false =>
    rw [hown] at hemp
    simp only [hemp, Bool.false_eq_true, if_false] at habs
    obtain ⟨⟨hp, hID, n, d, cr, hfind⟩, hpT, _, n', d', cr', hfind'⟩ := habs
    refine ⟨max (max N (2 * depthsF c.q (C01NG.ownSels sub) + 1)) (2 * depthsF c.q (bSels c.q sf.ty.id sub) + 1) + 2,
      fun b fd hfd v => ?_⟩
    obtain ⟨fd', rfl⟩ : ∃ k, fd = k + 2 := ⟨fd - 2, by omega⟩
    obtain ⟨H1, _⟩ := accSelsS e c (C01NG.ownSels sub) name true hsS henvF b (fd' + 1) (by omega)
    have hpl := plain_fieldsOfV c name sub
    have hnfl : ∀ g ∈ fieldsOfV c name sub, g.flatten = false := by
      intro g hg
      have := hpl
      simp only [plain, List.all_eq_true] at this
      simpa using this g hg
    have hflB := fieldsB_filter_fl c name sf.ty.id sub
    have hownB := fieldsB_filter_own c name sf.ty.id sub
    have hany : (fieldsB c name sf.ty.id sub ++ [onField name]).any (·.flatten) = true := by simp [onField]
    have hleaf : ∀ j, okB (dePath e b (fd' + 1 + 1) name j) = looseTagB whole c.s c.q c.o b sf.ty.id sub j := by
      intro j
      rw [dePath_struct e b (fd' + 1) name n d cr _ hp hfind]
      cases j with
      | obj kvs =>
        obtain ⟨hbB, hmB⟩ := accMemB e c name sf.ty.id hty (bSels c.q sf.ty.id sub) (spreadsA_bSels hsb) henvB fd'
          (by omega) (restG c.s sub kvs)
        have hflB2 : (fieldsB c name sf.ty.id (bSels c.q sf.ty.id sub)).filter (·.flatten) =
            fieldsB c name sf.ty.id (bSels c.q sf.ty.id sub) := by
          rw [← hflB, List.filter_filter]; simp
        rw [hflB2] at hmB
        have hb : ∀ g ∈ fieldsB c name sf.ty.id sub ++ [onField name], g.flatten = true → Borrows e g := by
          intro g hg hfl
          rcases List.mem_append.mp hg with hg | hg
          · apply hbB g _ hfl
            rw [← hflB]
            exact List.mem_filter.mpr ⟨hg, hfl⟩
          · simp only [List.mem_singleton] at hg
            subst hg
            exact ⟨name ++ "On", rfl, hpT, .inl ⟨n', d', cr', _, _, hfind'⟩⟩
        have hown' : (fieldsB c name sf.ty.id sub ++ [onField name]).filter (fun f => !f.flatten) = fieldsOfV c name sub := by
          rw [List.filter_append, hownB]; simp [onField]
        have hfl : (fieldsB c name sf.ty.id sub ++ [onField name]).filter (·.flatten) =
            fieldsB c name sf.ty.id (bSels c.q sf.ty.id sub) ++ [onField name] := by
          rw [List.filter_append, hflB]; simp [onField]
        have hrest : kvs.filter (fun kv => !((fieldsOfV c name sub).map (·.wire)).contains kv.1) = restG c.s sub kvs := by
          rw [← fieldsOfV_ownSels, wire_fieldsOfS c name true _ hsS]; rfl
        have H1' := H1 kvs
        rw [fieldsOfV_ownSels] at H1'
        rw [deStruct_obj, deStructMap_borrow e fd' _ _ kvs hany hb, okB_bind2, hown', okB_deOwn' _ _ _ hpl, H1',
          okB_borrowVals, hfl, hrest, List.all_append, hmB]
        simp only [looseTagB, hown, Bool.false_eq_true, if_false, List.all_cons, List.all_nil, Bool.and_true]
        congr 2
        rw [show readB e fd' (onField name) (restG c.s sub kvs) =
          dePath e true (fd' + 1) (name ++ "On") (.obj (restG c.s sub kvs)) from rfl,
          dePath_tagged e true fd' _ n' d' cr' _ _ hpT hfind']
        exact okB_tagged c _ sf.ty.id (marks c.q (unB c.q sf.ty.id sub)) _ true _ _ (fun vt hvt => hN vt hvt fd' (by omega) _)
      | arr xs => simp only [deStructWith, hany, ↓reduceIte]; rfl
      | null => rfl
      | bool _ => rfl
      | int _ => rfl
      | num _ => rfl
      | str _ => rfl
    rw [deField_plain _ _ _ _ hID]
    exact (ok_iff_accepts _ _ (looseTagB whole c.s c.q c.o b sf.ty.id sub) hleaf _ hwf).2 v



mutual
  theorem accSelA : ∀ (x : Sel) (pfx : String), OkSpec c.q ok →
      (∀ p g, ok p g = true → fenv g → FragAcc e c whole KN g) → AccSelA e c ok whole KN fenv pfx x
    | .field a fid sub, pfx => by
      intro hok hfa p ht henv hko f hf
      have IH := accSelsA sub
      obtain ⟨sf, ft, hsf, hleaf, hf', hw⟩ := fieldOfSelV_a pfx p a fid sub ht
      by_cases hobj : ∃ i, sf.ty.id = .object i
      · obtain ⟨i, hid⟩ := hobj
        have hwf : wf (gtyOf sf.ty.quals) = true := by rw [wf_gtyOf]; exact hw
        obtain ⟨_, _, hobjs, hbody⟩ := aSel_obj hsf hid ht
        have henv := envSelA_obj hsf hid henv
        have hko := keysOkA_obj hsf hid hko
        simp only [fieldOfSelV, hsf, leafNameV, hid, Option.some.injEq] at hf
        subst hf
        have hleaf : ∃ N, ∀ b fd, N ≤ fd → ∀ j, okB (dePath e b fd (pfx ++ c.cs.camel (a.getD sf.name)) j) =
            conformsLooseA whole c.s c.q c.o b sub j := by
          by_cases hsp : ∃ g, sub = [Sel.spread g]
          · obtain ⟨g, rfl⟩ := hsp
            unfold BodyEnvA at henv
            simp only at henv
            exact accAliasA e c ok whole KN fenv hfa _ (.object i) g hbody henv.1 henv.2
          · have hnl : ∀ g, sub ≠ [Sel.spread g] := fun g hg => hsp ⟨g, hg⟩
            have henv' := bodyEnvA_not_lone hnl henv
            rw [aBody_not_lone hnl] at hbody
            exact accStructA e c ok whole KN fenv hok hfa _ _ (.object i) sub (IH _ hok hfa) hnl hbody henv'.2 hko.2
              hko.1 henv'.1
        have hID : pfx ++ c.cs.camel (a.getD sf.name) ≠ "ID" := by
          unfold BodyEnvA at henv
          split at henv
          · exact henv.1.2.1
          · exact henv.1.2.1
        obtain ⟨N, hN⟩ := hleaf
        refine ⟨N, fun b fd hfd v => ?_⟩
        rw [looseFieldA]
        simp only [hsf, hid]
        cases hk : c.s.objects[i]? with
        | none => simp [hk] at hobjs
        | some ob =>
          simp only []
          rw [looseLambdaA, deField_plain _ _ _ _ hID]
          exact (ok_iff_accepts _ _ (conformsLooseA whole c.s c.q c.o b sub) (hN b fd hfd) _ hwf).2 v
      · -- scalar / enum / abstract: as in `VariantSpreadOp`
        have hno : ∀ i, sf.ty.id ≠ .object i := fun i h => hobj ⟨i, h⟩
        rcases aSel_nonobj hsf hno ht with hs | ⟨hs, hnew⟩
        · refine ⟨2 * depthF c.q (.field a fid sub) + 1, fun b fd hfd v => ?_⟩
          rw [looseFieldA_old hsf hno hs]
          exact accSelS e c _ pfx false hs (envSelA_old hsf hno hs henv) f hf b fd hfd v
        · have hf'' := hf'
          rw [hf] at hf''
          simp only [Option.some.injEq] at hf''
          subst hf''
          have hft : ft = pfx ++ c.cs.camel (a.getD sf.name) := by
            obtain ⟨_, _, hty, _⟩ := absFieldB_parts hnew
            cases hid : sf.ty.id with
            | object i => exact absurd hid (hno i)
            | scalar k => rw [hid] at hty; exact absurd hty (by simp [absHyp])
            | «enum» k => rw [hid] at hty; exact absurd hty (by simp [absHyp])
            | input k => rw [hid] at hty; exact absurd hty (by simp [absHyp])
            | interface k => simpa [leafNameV, hid] using hleaf.symm
            | union k => simpa [leafNameV, hid] using hleaf.symm
          subst hft
          obtain ⟨N, hN⟩ := accAbsB e c ok whole KN fenv hok hfa pfx a fid sub sf hsf hnew (envSelA_new hsf hno hs henv)
            (keysOkA_new hsf hno hs hko)
          exact ⟨N, fun b fd hfd v => by rw [looseFieldA_new hsf hno hs]; exact hN b fd hfd v⟩
    | .spread g, pfx => by intro _ _ _ _ _ _ f hf; cases hf
    | .inline t sub, pfx => by intro _ _ _ _ _ _ f hf; cases hf
    | .typename, pfx => by intro _ _ _ _ _ _ f hf; cases hf
  theorem accSelsA : ∀ (sels : List Sel) (pfx : String), OkSpec c.q ok →
      (∀ p g, ok p g = true → fenv g → FragAcc e c whole KN g) → AccSelsA e c ok whole KN fenv pfx sels
    | [], pfx => by
      intro _ _ _ _ _ _
      exact ⟨0, fun b fd _ => ⟨fun kvs => by simp [fieldsOfV, looseOwnA], fun xs => by simp [fieldsOfV, looseArrA]⟩⟩
    | x :: xs, pfx => by
      intro hok hfa p ht henv hko
      obtain ⟨hx, hxs⟩ := aSels_cons ht
      rw [envSelsA] at henv
      rw [keysOksA, Bool.and_eq_true] at hko
      obtain ⟨N2, I⟩ := accSelsA xs pfx hok hfa p hxs henv.2 hko.2
      have IX := accSelA x pfx hok hfa p hx henv.1 hko.1
      cases x with
      | field a fid sub =>
        obtain ⟨sf, ft, hsf, _, hf, hw⟩ := fieldOfSelV_a pfx p a fid sub hx
        obtain ⟨N1, IXf⟩ := IX _ hf
        have hfs := fieldsOfV_cons_field c pfx _ xs _ hf
        refine ⟨max N1 N2, fun b fd hfd => ?_⟩
        obtain ⟨I1, I2⟩ := I b fd (by omega)
        have IXf := IXf b fd (by omega)
        refine ⟨fun kvs => ?_, fun vs => ?_⟩
        · rw [hfs, List.all_cons, I1 kvs, looseOwnA.eq_2]
          simp only [hsf, fieldOf_wire, readField]
          cases hl : Json.lookup (a.getD sf.name) kvs with
          | none => simp only [missing_fieldOf]
          | some v => simp only [IXf v]
        · rw [hfs]
          cases vs with
          | nil => rw [looseArrA.eq_2]; simp
          | cons v vs' =>
            rw [looseArrA.eq_3]
            simp only [List.length_cons, List.zip_cons_cons, List.all_cons, IXf v, ← I2 vs',
              Nat.add_le_add_iff_right]
            cases looseFieldA whole c.s c.q c.o b (.field a fid sub) v <;> simp
      | spread g =>
        have hfs := fieldsOfV_cons_none c pfx (.spread g) xs rfl
        refine ⟨N2, fun b fd hfd => ?_⟩
        obtain ⟨I1, I2⟩ := I b fd hfd
        refine ⟨fun kvs => ?_, fun vs => ?_⟩
        · rw [hfs, I1 kvs]; simp [looseOwnA]
        · rw [hfs, I2 vs]; simp [looseArrA]
      | inline t sub => simp [aSel] at hx
      | typename =>
        have hfs := fieldsOfV_cons_none c pfx .typename xs rfl
        refine ⟨N2, fun b fd hfd => ?_⟩
        obtain ⟨I1, I2⟩ := I b fd hfd
        refine ⟨fun kvs => ?_, fun vs => ?_⟩
        · rw [hfs, I1 kvs]; simp [looseOwnA]
        · rw [hfs, I2 vs]; simp [looseArrA]
end

include hok hfa in
/-- **the type emitted for an object-level selection set accepts exactly `conformsLooseA`** (from some fuel on) -/
theorem bodyA_accepts_iff (pfx name : String) (p : TypeId) (sels : List Sel)
    (ht : aBody ok c.s c.q c.o p sels = true) (henv : BodyEnvA fenv e c name pfx sels)
    (hko : keysOksA KN c sels = true) (hkeys : EnumSpec.nodup (expKeysN KN c sels) = true) :
    ∃ N, ∀ b fd, N ≤ fd → ∀ j, okB (dePath e b fd name j) = conformsLooseA whole c.s c.q c.o b sels j := by
  by_cases hsp : ∃ g, sels = [Sel.spread g]
  · obtain ⟨g, rfl⟩ := hsp
    unfold BodyEnvA at henv
    simp only at henv
    exact accAliasA e c ok whole KN fenv hfa _ p g ht henv.1 henv.2
  · have hnl : ∀ g, sels ≠ [Sel.spread g] := fun g hg => hsp ⟨g, hg⟩
    have henv' := bodyEnvA_not_lone hnl henv
    rw [aBody_not_lone hnl] at ht
    exact accStructA e c ok whole KN fenv hok hfa pfx name p sels (accSelsA e c ok whole KN fenv sels pfx hok hfa) hnl ht
      henv'.2 hko hkeys henv'.1

end AccA

end C01NB
end GqlVerif