import GqlVerif.Proofs.C01NestedGenW
/-!
# `NestedGen2Op` (stage 2), part A: class, closed form

`NestedGenOp` (stage 1, `C01NestedGen*`) plus, at a field of interface / union type, **inline fragments with fields of their
own** `... on T { scalar / enum fields }` next to `__typename`, interface-level fields and nested (a)-spreads.  On a possible
type with such an inline fragment the generator emits the struct `…On<T>` with those fields and one flattened member per
fragment selected on `T`; on the others what it emits in `NestedAbsOp`.
-/
set_option linter.unusedSimpArgs false
set_option linter.unusedVariables false
set_option linter.unusedSectionVars false
set_option linter.unnecessarySimpa false

namespace GqlVerif
namespace C01NX
open Serde Spec C13 C03 Codegen C01 C01.E2E C01M C01N C01NA C01NG

/-! ## the class -/

/-- an inline fragment with fields of its own: `... on T { f1 f2 … }` (non-empty, only fields) -/
def isBody : Sel → Bool
  | .inline _ isub => !isub.isEmpty && isub.all isFieldSel
  | _ => false

/-- the selection set without its inline fragments with fields of their own -/
def unbody (sub : List Sel) : List Sel := sub.filter (fun x => !isBody x)

/-- an inline fragment with fields of its own, of the class: on a possible type, scalar / enum fields, none of them keyed
    `__typename` or as an interface-level field of the selection set `sub` (no key is read twice; known finding `C01-overlap`) -/
def bodyOk (s : Schema) (q : Query) (o : Options) (vts : List TypeId) (sub : List Sel) : Sel → Bool
  | .inline t isub => vts.contains t && isub.all (leafSel s q o) &&
      (fieldKeys s isub).all (fun k => !("__typename" :: fieldKeys s (C01NG.ownSels sub)).contains k)
  | _ => true

/-- a selection set on the abstract type `ty` of the general kind (stage 2): without its inline fragments with own fields a
    selection set of stage 1 (`absSubG`: `__typename`, interface-level fields, nested (a)-spreads); and any number of inline
    fragments `... on T { scalar / enum fields }` on possible types -/
def absSubX (ok : TypeId → Nat → Bool) (s : Schema) (q : Query) (o : Options) (ty : TypeId) (sub : List Sel) : Bool :=
  absSubG ok s q o ty (unbody sub) && sub.all (fun x => !isBody x || bodyOk s q o (vtsOfTy s ty) sub x)

/-- a field of interface / union type with a selection set of the general kind -/
def absFieldX (ok : TypeId → Nat → Bool) (s : Schema) (q : Query) (o : Options) (sf : StoredField) (sub : List Sel) : Bool :=
  wfQuals sf.ty.quals && !(sf.deprecation.isSome && o.deprecation == .deny) && absTyOk s sf.ty.id &&
    absSubX ok s q o sf.ty.id sub

mutual
  /-- one selection of an object-level selection set on `parent` -/
  def aSel (ok : TypeId → Nat → Bool) (s : Schema) (q : Query) (o : Options) (parent : TypeId) : Sel → Bool
    | .field a fid sub =>
      match s.fields[fid]? with
      | none => false
      | some sf =>
        match sf.ty.id with
        | .object i =>
          wfQuals sf.ty.quals && !(sf.deprecation.isSome && o.deprecation == .deny) && (s.objects[i]?).isSome &&
            (match sub with
             | [.spread g] => ok (.object i) g
             | _ => aSels ok s q o (.object i) sub)
        | _ => sSel s q o false (.field a fid sub) || absFieldX ok s q o sf sub
    | .typename => true
    | .spread g => ok parent g
    | .inline _ _ => false
  def aSels (ok : TypeId → Nat → Bool) (s : Schema) (q : Query) (o : Options) (parent : TypeId) : List Sel → Bool
    | [] => true
    | x :: xs => aSel ok s q o parent x && aSels ok s q o parent xs
end

def aBody (ok : TypeId → Nat → Bool) (s : Schema) (q : Query) (o : Options) (parent : TypeId) (sels : List Sel) : Bool :=
  match sels with
  | [.spread g] => ok parent g
  | _ => aSels ok s q o parent sels

/-- **the class `NestedGen2Op`** (decidable): `NestedOp`, and nested fragments (`fragOkN`) as variant selections at
    abstract positions -/
def NestedGen2Op (c : Ctx) (op : ROperation) : Bool :=
  c.o.normalization == .none && (c.s.objects[op.objectId]?).isSome &&
  aBody (fragOkN c.s c.q c.o c.q.fragments.length) c.s c.q c.o (.object op.objectId) op.sels

/-! ## closed form -/

/-- what a selection on a variant contributes to the variant struct: a direct spread its flattened member, an inline fragment
    with fields those fields (aliased inline fragments: one member each, appended at the end) -/
def varPartF (c : Ctx) (pfx : String) : Sel → List RField
  | .spread g => [memField c g]
  | .inline t isub =>
    if isBody (.inline t isub) then fieldsOfV c (pfx ++ "On" ++ c.cs.camel (objName c.s t)) isub else []
  | _ => []

/-- the fields of the variant struct, from the selections `ms` on the variant -/
def varFieldsX (c : Ctx) (pfx : String) (ms : List Sel) : List RField :=
  ms.flatMap (varPartF c pfx) ++ (ms.filterMap aliasInl).map (memField c)

/-- the item `…On<T>`: with an inline fragment with fields on `T` the struct of those fields and the flattened members;
    otherwise the item of `NestedAbsOp` -/
def variantHeadX (c : Ctx) (pfx : String) (vt : TypeId) (sub : List Sel) : List Item :=
  if (mineOf c.q vt sub).any isBody then
    [.struct (pfx ++ "On" ++ objName c.s vt) c.respDerives c.serdeCrate (varFieldsX c pfx (mineOf c.q vt sub))]
  else variantHeadA c pfx vt (strip (unbody sub))

/-- the items of an abstract position of the general kind -/
def absItemsX (c : Ctx) (name pfx : String) (ty : TypeId) (sub : List Sel) : List Item :=
  renderType c name (fieldsOfV c pfx sub) (variantsV c pfx ty (marks c.q sub)) ++
    (vtsOfTy c.s ty).flatMap (fun vt => variantHeadX c pfx vt sub)

mutual
  def itemsA (c : Ctx) (pfx : String) : Sel → List Item
    | .field a fid sub =>
      match c.s.fields[fid]? with
      | none => []
      | some sf =>
        match sf.ty.id with
        | .object _ =>
          (match sub with
           | [.spread g] => [aliasItem (pfx ++ c.cs.camel (a.getD sf.name)) (fragName c g) false]
           | _ => .struct (pfx ++ c.cs.camel (a.getD sf.name)) c.respDerives c.serdeCrate
                    (fieldsOfF c (pfx ++ c.cs.camel (a.getD sf.name)) sub) ::
                  itemsAs c (pfx ++ c.cs.camel (a.getD sf.name)) sub)
        | ty =>
          if sSel c.s c.q c.o false (.field a fid sub) then itemsS c pfx (.field a fid sub)
          else absItemsX c (pfx ++ c.cs.camel (a.getD sf.name)) (pfx ++ c.cs.camel (a.getD sf.name)) ty sub
    | _ => []
  def itemsAs (c : Ctx) (pfx : String) : List Sel → List Item
    | [] => []
    | x :: xs => itemsA c pfx x ++ itemsAs c pfx xs
end

/-- **closed form** of the items of an object-level selection set -/
def bodyItemsA (c : Ctx) (name pfx : String) (sels : List Sel) : List Item :=
  match sels with
  | [.spread g] => [aliasItem name (fragName c g) false]
  | _ => .struct name c.respDerives c.serdeCrate (fieldsOfF c pfx sels) :: itemsAs c pfx sels

/-! ## basic facts -/

section Basic
variable {ok : TypeId → Nat → Bool} {s : Schema} {q : Query} {o : Options}

theorem aSels_cons {p : TypeId} {x : Sel} {xs : List Sel}
    (h : aSels ok s q o p (x :: xs) = true) : aSel ok s q o p x = true ∧ aSels ok s q o p xs = true := by
  simpa [aSels] using h

theorem aSels_mem {p : TypeId} : ∀ {sels : List Sel}, aSels ok s q o p sels = true →
    ∀ x ∈ sels, aSel ok s q o p x = true
  | [], _, _, hx => by simp at hx
  | y :: ys, h, x, hx => by
    obtain ⟨h1, h2⟩ := aSels_cons h
    rcases List.mem_cons.mp hx with rfl | hx'
    · exact h1
    · exact aSels_mem h2 x hx'

theorem aBody_not_lone {p : TypeId} {sels : List Sel}
    (h : ∀ g, sels ≠ [Sel.spread g]) : aBody ok s q o p sels = aSels ok s q o p sels := by
  unfold aBody
  split
  · rename_i g; exact absurd rfl (h g)
  · rfl

theorem aBody_lone {p : TypeId} {g : Nat} : aBody ok s q o p [Sel.spread g] = ok p g := rfl

theorem bodyItemsA_not_lone (c : Ctx) (name pfx : String) {sels : List Sel} (h : ∀ g, sels ≠ [Sel.spread g]) :
    bodyItemsA c name pfx sels =
      .struct name c.respDerives c.serdeCrate (fieldsOfF c pfx sels) :: itemsAs c pfx sels := by
  unfold bodyItemsA
  split
  · rename_i g; exact absurd rfl (h g)
  · rfl

theorem aSel_obj {p : TypeId} {a : Option String} {fid : Nat} {sub : List Sel}
    {sf : StoredField} {i : Nat} (hsf : s.fields[fid]? = some sf) (hid : sf.ty.id = .object i)
    (h : aSel ok s q o p (.field a fid sub) = true) :
    wfQuals sf.ty.quals = true ∧ (sf.deprecation.isSome && o.deprecation == .deny) = false ∧
      (s.objects[i]?).isSome = true ∧ aBody ok s q o (.object i) sub = true := by
  rw [aSel] at h
  simp only [hsf, hid, Bool.and_eq_true] at h
  obtain ⟨⟨⟨hw, hdep⟩, hobj⟩, hb⟩ := h
  refine ⟨hw, ?_, hobj, hb⟩
  cases hd : (sf.deprecation.isSome && o.deprecation == .deny) with
  | false => rfl
  | true => simp [hd] at hdep

/-- a field of the class that is not object-typed: a field of `VariantSpreadOp`, or of the new kind -/
theorem aSel_nonobj {p : TypeId} {a : Option String} {fid : Nat} {sub : List Sel}
    {sf : StoredField} (hsf : s.fields[fid]? = some sf) (hno : ∀ i, sf.ty.id ≠ .object i)
    (h : aSel ok s q o p (.field a fid sub) = true) :
    sSel s q o false (.field a fid sub) = true ∨
      (sSel s q o false (.field a fid sub) = false ∧ absFieldX ok s q o sf sub = true) := by
  rw [aSel] at h
  simp only [hsf] at h
  have h' : (sSel s q o false (.field a fid sub) || absFieldX ok s q o sf sub) = true := by
    cases hid : sf.ty.id with
    | object i => exact absurd hid (hno i)
    | scalar k => simpa [hid] using h
    | «enum» k => simpa [hid] using h
    | interface k => simpa [hid] using h
    | union k => simpa [hid] using h
    | input k => simpa [hid] using h
  cases hs : sSel s q o false (.field a fid sub) with
  | true => exact .inl rfl
  | false => rw [hs] at h'; exact .inr ⟨rfl, by simpa using h'⟩

theorem aSel_field_some {p : TypeId} {a : Option String} {fid : Nat} {sub : List Sel}
    (h : aSel ok s q o p (.field a fid sub) = true) : ∃ sf, s.fields[fid]? = some sf := by
  rw [aSel] at h
  cases hsf : s.fields[fid]? with
  | none => simp [hsf] at h
  | some sf => exact ⟨sf, rfl⟩

theorem absFieldX_parts {sf : StoredField} {sub : List Sel} (h : absFieldX ok s q o sf sub = true) :
    wfQuals sf.ty.quals = true ∧ (sf.deprecation.isSome && o.deprecation == .deny) = false ∧
      absHyp s sf.ty.id ∧ absSubX ok s q o sf.ty.id sub = true := by
  simp only [absFieldX, Bool.and_eq_true] at h
  obtain ⟨⟨⟨hw, hdep⟩, hty⟩, hsub⟩ := h
  refine ⟨hw, ?_, absTyOk_absHyp hty, hsub⟩
  cases hd : (sf.deprecation.isSome && o.deprecation == .deny) with
  | false => rfl
  | true => simp [hd] at hdep

end Basic
/-! ## the selection set of a position of the general kind (stage 2) -/

/-- what `absSubX` says, as propositions -/
structure SpecialX (ok : TypeId → Nat → Bool) (s : Schema) (q : Query) (o : Options) (ty : TypeId) (sub : List Sel) :
    Prop where
  gen : SpecialGen ok s q o ty (unbody sub)
  body : ∀ x ∈ sub, isBody x = true → bodyOk s q o (vtsOfTy s ty) sub x = true

theorem absSubX_parts {ok : TypeId → Nat → Bool} {s : Schema} {q : Query} {o : Options} {ty : TypeId} {sub : List Sel}
    (h : absSubX ok s q o ty sub = true) : SpecialX ok s q o ty sub := by
  simp only [absSubX, Bool.and_eq_true, List.all_eq_true] at h
  refine ⟨absSubG_parts h.1, fun x hx hb => ?_⟩
  have := h.2 x hx
  simpa [hb] using this

theorem mem_unbody {sub : List Sel} {x : Sel} : x ∈ unbody sub ↔ x ∈ sub ∧ isBody x = false := by
  simp [unbody, List.mem_filter]

theorem unbody_length_le (sub : List Sel) : (unbody sub).length ≤ sub.length := List.length_filter_le _ _

theorem unbody_eq_self {sub : List Sel} (h : ∀ x ∈ sub, isBody x = false) : unbody sub = sub := by
  unfold unbody
  rw [List.filter_eq_self]
  intro x hx
  simp [h x hx]

theorem isBody_inline {x : Sel} (h : isBody x = true) : ∃ t isub, x = .inline t isub ∧ isub ≠ [] ∧
    ∀ y ∈ isub, isFieldSel y = true := by
  cases x with
  | inline t isub =>
    simp only [isBody, Bool.and_eq_true, Bool.not_eq_true', List.isEmpty_eq_false_iff, List.all_eq_true] at h
    exact ⟨t, isub, rfl, h.1, h.2⟩
  | field a fid sub' => simp [isBody] at h
  | spread g => simp [isBody] at h
  | typename => simp [isBody] at h

theorem SpecialX.ne_nil {ok : TypeId → Nat → Bool} {s : Schema} {q : Query} {o : Options} {ty : TypeId} {sub : List Sel}
    (h : SpecialX ok s q o ty sub) : sub ≠ [] := by
  intro hs
  exact h.gen.ne_nil (by rw [hs]; rfl)

theorem SpecialX.tn {ok : TypeId → Nat → Bool} {s : Schema} {q : Query} {o : Options} {ty : TypeId} {sub : List Sel}
    (h : SpecialX ok s q o ty sub) : sub.any isTypename = true := by
  have := h.gen.tn
  simp only [List.any_eq_true] at this ⊢
  obtain ⟨x, hx, hxt⟩ := this
  exact ⟨x, (mem_unbody.mp hx).1, hxt⟩

/-- every selection is a leaf field or not a field -/
theorem SpecialX.leaf {ok : TypeId → Nat → Bool} {s : Schema} {q : Query} {o : Options} {ty : TypeId} {sub : List Sel}
    (h : SpecialX ok s q o ty sub) : ∀ x ∈ sub, leafSel s q o x = true := by
  intro x hx
  by_cases hb : isBody x = true
  · obtain ⟨t, isub, rfl, _, _⟩ := isBody_inline hb
    rfl
  · exact h.gen.leaf x (mem_unbody.mpr ⟨hx, by simpa using hb⟩)

/-- a selection on the variant `vt` of a position of the general kind -/
def IsMemX (ok : TypeId → Nat → Bool) (s : Schema) (q : Query) (o : Options) (vt : TypeId) (x : Sel) : Prop :=
  IsMem ok vt x ∨ (∃ isub, x = Sel.inline vt isub ∧ isBody x = true ∧ ∀ y ∈ isub, leafSel s q o y = true)

theorem mem_mineOf_iff {q : Query} {vt : TypeId} {sels : List Sel} {x : Sel} :
    x ∈ mineOf q vt sels ↔ x ∈ sels ∧ selOn q x = some vt := by
  unfold mineOf
  rw [List.mem_filter]
  simp [onVt]

theorem SpecialX.mine {ok : TypeId → Nat → Bool} {s : Schema} {q : Query} {o : Options} {ty : TypeId} {sub : List Sel}
    (h : SpecialX ok s q o ty sub) (hok : OkSpec q ok) {vt : TypeId} (hvt : vt ∈ vtsOfTy s ty) :
    ∀ x ∈ mineOf q vt sub, IsMemX ok s q o vt x := by
  intro x hxm
  obtain ⟨hx, hon⟩ := mem_mineOf_iff.mp hxm
  by_cases hb : isBody x = true
  · obtain ⟨t, isub, rfl, _, _⟩ := isBody_inline hb
    simp only [selOn, Option.some.injEq] at hon
    subst hon
    have := h.body _ hx hb
    simp only [bodyOk, Bool.and_eq_true, List.all_eq_true] at this
    exact .inr ⟨isub, rfl, hb, this.1.2⟩
  · have hb' : isBody x = false := by simpa using hb
    have hnf : isFieldSel x = false := by cases x <;> simp_all [selOn, isFieldSel]
    exact .inl (h.gen.abs.mine hok hvt x
      (mem_mineOf_iff.mpr ⟨mem_strip.mpr ⟨mem_unbody.mpr ⟨hx, hb'⟩, hnf⟩, hon⟩))

/-- on a variant without an inline fragment with fields, the selections are those of the stage-1 selection set -/
theorem mineOf_unbody {q : Query} {vt : TypeId} {sub : List Sel} (h : (mineOf q vt sub).any isBody = false) :
    mineOf q vt (strip (unbody sub)) = mineOf q vt sub := by
  unfold mineOf strip unbody
  rw [List.filter_filter, List.filter_filter]
  apply List.filter_congr
  intro x hx
  cases hon : onVt q vt x with
  | false => simp
  | true =>
    have hxm : x ∈ mineOf q vt sub := List.mem_filter.mpr ⟨hx, hon⟩
    have hb : isBody x = false := by
      have := List.any_eq_false.mp h x hxm
      simpa using this
    have hnf : isFieldSel x = false := by
      have : selOn q x = some vt := by simpa [onVt] using hon
      cases x <;> simp_all [selOn, isFieldSel]
    simp [hb, hnf]

theorem marks_variantOf_congr (c : Ctx) (pfx : String) (vt : TypeId) {sub sub' : List Sel}
    (h : mineOf c.q vt sub' = mineOf c.q vt sub) :
    variantOf c pfx (marks c.q sub') vt = variantOf c pfx (marks c.q sub) vt := by
  unfold variantOf
  rw [marks_contains, marks_contains, h]

/-- every spread of such a selection set is of a fragment on a possible type -/
theorem SpecialX.spread {ok : TypeId → Nat → Bool} {s : Schema} {q : Query} {o : Options} {ty : TypeId} {sub : List Sel}
    (h : SpecialX ok s q o ty sub) (hok : OkSpec q ok) (hty : absHyp s ty) {g : Nat} (hg : Sel.spread g ∈ sub) :
    ∃ f, q.fragments[g]? = some f ∧ f.on ≠ ty :=
  h.gen.abs.spread hok hty (mem_strip.mpr ⟨mem_unbody.mpr ⟨hg, rfl⟩, rfl⟩)

/-! ## Theorem 1: the items of an abstract position of the general kind -/

section CalcAbs
variable (c : Ctx) (hn : c.o.normalization = .none) (ok : TypeId → Nat → Bool) (hok : OkSpec c.q ok)

include hn hok in
/-- the contributions of the selections on one variant: a flattened member per direct spread, the own fields of the inline
    fragments with fields, one alias item per aliased inline fragment -/
theorem calcVariantSels_X (sname pfx : String) (ty : TypeId) (i : Nat) (hne : TypeId.object i ≠ ty) (B : Nat) :
    ∀ (ms : List Sel) (fuel : Nat), ms.length + B + 2 ≤ fuel → (∀ x ∈ ms, IsMemX ok c.s c.q c.o (.object i) x) →
    (∀ t isub, Sel.inline t isub ∈ ms → isub.length ≤ B) →
    (c.s.objects[i]?).isSome = true →
    calcVariantSels c fuel sname pfx (.object i) (vselsOfS c.q ty ms) =
      .ok (ms.flatMap (varPartF c pfx), [],
        (ms.filterMap aliasInl).map (fun g => aliasItem sname (fragName c g) false))
  | [], fuel, hf, _, _, _ => by
    obtain ⟨f, rfl⟩ : ∃ f, fuel = f + 1 := ⟨fuel - 1, by omega⟩
    rw [show vselsOfS c.q ty [] = [] from rfl, calcVariantSels.eq_2 _ _ _ _ _ (by omega)]; rfl
  | x :: rest, fuel, hf, hms, hB, hi => by
    simp only [List.length_cons] at hf
    obtain ⟨f, rfl⟩ : ∃ f, fuel = f + 1 := ⟨fuel - 1, by omega⟩
    have hR := calcVariantSels_X sname pfx ty i hne B rest f (by omega)
      (fun y hy => hms y (List.mem_cons_of_mem _ hy)) (fun t isub hm => hB t isub (List.mem_cons_of_mem _ hm)) hi
    rcases hms x (List.mem_cons_self) with (⟨g, rfl, hokg⟩ | ⟨g, rfl, hokg⟩) | ⟨isub, rfl, hb, hlf⟩
    · obtain ⟨fr, hfr, hfon, hname, hrec⟩ := hok _ _ hokg
      have hne2 : (fr.on == ty) = false := by rw [hfon]; simpa using hne
      rw [show vselsOfS c.q ty (Sel.spread g :: rest) = .spread g fr :: vselsOfS c.q ty rest from by
        simp [vselsOfS, vselOfS, hfr, hne2, List.filterMap_cons], calcVariantSels.eq_5]
      simp only [hrec, renderField_member c fr hname, bind, Except.bind, pure, Except.pure, hR]
      simp [List.filterMap_cons, varPartF, aliasInl, memField_eq c hfr]
    · obtain ⟨fr, hfr, hfon, hname, hrec⟩ := hok _ _ hokg
      rw [show vselsOfS c.q ty (Sel.inline (.object i) [.spread g] :: rest) =
        .inline (.object i) [.spread g] :: vselsOfS c.q ty rest from rfl, calcVariantSels.eq_3]
      simp only [typeName_obj hi, getFragment_of hfr, hrec, bind, Except.bind, pure, Except.pure, hR]
      simp [List.filterMap_cons, varPartF, isBody, isFieldSel, aliasInl, fragName, hfr]
    · obtain ⟨_, _, hx', hne0, hall⟩ := isBody_inline hb
      cases hx'
      have hnl : ∀ g, isub ≠ [Sel.spread g] := by
        intro g hg
        have := hall (Sel.spread g) (by rw [hg]; simp)
        simp [isFieldSel] at this
      have hlen := hB _ _ (List.mem_cons_self)
      have hfields := calcFields_specialG c hn (pfx ++ "On" ++ c.cs.camel (objName c.s (.object i))) (.object i) isub f
        (by omega) hlf (fun g hg => by have := hall _ hg; simp [isFieldSel] at this)
      have hal : aliasInl (Sel.inline (.object i) isub) = none := by
        unfold aliasInl
        split
        · rename_i g heq; cases heq; exact absurd rfl (hnl _)
        · rfl
      rw [show vselsOfS c.q ty (Sel.inline (.object i) isub :: rest) =
        .inline (.object i) isub :: vselsOfS c.q ty rest from rfl,
        calcVariantSels.eq_4 _ _ _ _ _ _ _ _ (fun g hg => hnl g hg)]
      simp only [typeName_obj hi, bind, Except.bind, pure, Except.pure, hfields, hR]
      simp [List.filterMap_cons, varPartF, hb, hal]

include hok in
theorem pushedAny_X (ty : TypeId) (i : Nat) (hne : TypeId.object i ≠ ty) : ∀ (ms : List Sel),
    (∀ x ∈ ms, IsMemX ok c.s c.q c.o (.object i) x) → ms.any isBody = true →
    pushedAny c.q (.object i) (vselsOfS c.q ty ms) = true
  | [], _, h => by simp at h
  | x :: rest, hms, h => by
    have ih := pushedAny_X ty i hne rest (fun y hy => hms y (List.mem_cons_of_mem _ hy))
    rcases hms x (List.mem_cons_self) with (⟨g, rfl, hokg⟩ | ⟨g, rfl, hokg⟩) | ⟨isub, rfl, hb, hlf⟩
    · obtain ⟨fr, hfr, hfon, _, _⟩ := hok _ _ hokg
      have hne2 : (fr.on == ty) = false := by rw [hfon]; simpa using hne
      rw [show vselsOfS c.q ty (Sel.spread g :: rest) = .spread g fr :: vselsOfS c.q ty rest from by
        simp [vselsOfS, vselOfS, hfr, hne2, List.filterMap_cons]]
      simp [pushedAny]
    · rw [show vselsOfS c.q ty (Sel.inline (.object i) [.spread g] :: rest) =
        .inline (.object i) [.spread g] :: vselsOfS c.q ty rest from rfl]
      have hr : rest.any isBody = true := by simpa [isBody, isFieldSel] using h
      simp [pushedAny, ih hr]
    · obtain ⟨_, _, hx', hne0, hall⟩ := isBody_inline hb
      cases hx'
      rw [show vselsOfS c.q ty (Sel.inline (.object i) isub :: rest) =
        .inline (.object i) isub :: vselsOfS c.q ty rest from rfl]
      have hnl : ∀ g, isub ≠ [Sel.spread g] := by
        intro g hg
        have := hall (Sel.spread g) (by rw [hg]; simp)
        simp [isFieldSel] at this
      have hpush : isub.any (selPushes c.q (.object i)) = true := by
        cases isub with
        | nil => exact absurd rfl hne0
        | cons y ys =>
          have := hall y (by simp)
          cases y <;> simp_all [isFieldSel, selPushes]
      unfold pushedAny
      split
      · exact absurd rfl (hnl _)
      · simp [hpush]

end CalcAbs

section CalcAbs2
variable (c : Ctx) (hn : c.o.normalization = .none) (ok : TypeId → Nat → Bool) (hok : OkSpec c.q ok)

theorem variantHeadX_body {c : Ctx} {pfx : String} {vt : TypeId} {sub : List Sel}
    (h : (mineOf c.q vt sub).any isBody = true) :
    variantHeadX c pfx vt sub =
      [.struct (pfx ++ "On" ++ objName c.s vt) c.respDerives c.serdeCrate (varFieldsX c pfx (mineOf c.q vt sub))] := by
  unfold variantHeadX; rw [if_pos h]

theorem variantHeadX_nobody {c : Ctx} {pfx : String} {vt : TypeId} {sub : List Sel}
    (h : (mineOf c.q vt sub).any isBody = false) :
    variantHeadX c pfx vt sub = variantHeadA c pfx vt (strip (unbody sub)) := by
  unfold variantHeadX; rw [if_neg (by rw [h]; simp)]

include hn hok in
/-- the per-variant loop -/
theorem calcVariants_X (name pfx : String) (ty : TypeId) (sub : List Sel) (hty : absHyp c.s ty)
    (h : SpecialX ok c.s c.q c.o ty sub) (B : Nat) (hB : ∀ t isub, Sel.inline t isub ∈ sub → isub.length ≤ B) :
    ∀ (vts : List TypeId) (fuel : Nat), vts.length + sub.length + B + 5 ≤ fuel →
    (∀ t ∈ vts, t ∈ vtsOfTy c.s ty) →
    calcVariants c fuel name pfx (vselsOfS c.q ty sub) vts =
      .ok (vts.map (variantOf c pfx (marks c.q sub)), vts.flatMap (fun vt => variantHeadX c pfx vt sub))
  | [], fuel, hf, _ => by
    obtain ⟨f, rfl⟩ : ∃ f, fuel = f + 1 := ⟨fuel - 1, by omega⟩
    rw [calcVariants.eq_2 _ _ _ _ _ (by omega)]; rfl
  | vt :: rest, fuel, hf, hsub => by
    simp only [List.length_cons] at hf
    obtain ⟨f, rfl⟩ : ∃ f, fuel = f + 1 := ⟨fuel - 1, by omega⟩
    have hrest := calcVariants_X name pfx ty sub hty h B hB rest f (by omega)
      (fun t ht => hsub t (List.mem_cons_of_mem _ ht))
    have hvt := hsub vt (List.mem_cons_self)
    have hsp := h.gen.abs
    obtain ⟨i, rfl, hi⟩ := hsp.obj vt hvt
    have hvne : TypeId.object i ≠ ty := obj_ne_abs hty i
    rw [calcVariants.eq_3]
    simp only [typeName_obj hi, bind, Except.bind, filter_vselsOfS c.q ty _ hvne]
    have hvo : variantOf c pfx (marks c.q sub) (.object i) =
        if (mineOf c.q (.object i) sub).isEmpty then { name := objName c.s (.object i) }
        else { name := objName c.s (.object i), payload := some (.path (pfx ++ "On" ++ objName c.s (.object i))) } := by
      unfold variantOf; rw [marks_contains]; cases (mineOf c.q (.object i) sub).isEmpty <;> rfl
    rw [List.map_cons, List.flatMap_cons, hvo]
    have hmineX := h.mine hok hvt
    have hmlen : (mineOf c.q (.object i) sub).length ≤ sub.length := List.length_filter_le _ _
    cases hbody : (mineOf c.q (.object i) sub).any isBody with
    | true =>
      -- an inline fragment with fields: the struct
      rw [variantHeadX_body hbody]
      have hsels := calcVariantSels_X c hn ok hok (pfx ++ "On" ++ objName c.s (.object i)) pfx ty i hvne B
        (mineOf c.q (.object i) sub) f (by omega) hmineX
        (fun t isub hm => hB t isub (mem_mineOf hm).1) hi
      have hpush := pushedAny_X c ok hok ty i hvne (mineOf c.q (.object i) sub) hmineX hbody
      have hals := aliasMembers_special c ok hok (pfx ++ "On" ++ objName c.s (.object i)) (.object i)
        ((mineOf c.q (.object i) sub).filterMap aliasInl)
        (fun g' hg' => by
          obtain ⟨x, hx, hxg⟩ := List.mem_filterMap.mp hg'
          rcases hmineX x hx with (⟨g, rfl, hokg⟩ | ⟨g, rfl, hokg⟩) | ⟨isub, rfl, hb, _⟩
          · simp [aliasInl] at hxg
          · simp only [aliasInl, Option.some.injEq] at hxg; subst hxg; exact hokg
          · obtain ⟨g0, hg0⟩ : ∃ g0, isub = [Sel.spread g0] := by
              unfold aliasInl at hxg
              split at hxg
              · rename_i t' g0 heq; cases heq; exact ⟨g0, rfl⟩
              · cases hxg
            subst hg0
            simp [isBody, isFieldSel] at hb)
      revert hsels hpush hbody hals hmineX
      cases hm : mineOf c.q (.object i) sub with
      | nil => intro _ hbody; simp at hbody
      | cons x rest' =>
        intro hmineX hbody hsels hpush hals
        -- not a lone direct spread
        have hnotsingle : ∀ g fr, vselsOfS c.q ty (x :: rest') ≠ [VariantSel.spread g fr] := by
          intro g fr heq
          have hb' := hbody
          simp only [List.any_eq_true] at hb'
          obtain ⟨y, hy, hyb⟩ := hb'
          obtain ⟨t, isub, rfl, _, _⟩ := isBody_inline hyb
          have : VariantSel.inline t isub ∈ vselsOfS c.q ty (x :: rest') :=
            List.mem_filterMap.mpr ⟨_, hy, rfl⟩
          rw [heq] at this
          simp at this
        obtain ⟨v1, vs, hv⟩ : ∃ v1 vs, vselsOfS c.q ty (x :: rest') = v1 :: vs := by
          rcases hmineX x (by simp) with (⟨g', rfl, hokg'⟩ | ⟨g', rfl, _⟩) | ⟨isub, rfl, _, _⟩
          · obtain ⟨fr', hfr', hfon', _, _⟩ := hok _ _ hokg'
            have hne3 : (fr'.on == ty) = false := by rw [hfon']; simpa using hvne
            exact ⟨.spread g' fr', vselsOfS c.q ty rest', by simp [vselsOfS, vselOfS, hfr', hne3, List.filterMap_cons]⟩
          · exact ⟨.inline (.object i) [.spread g'], _, rfl⟩
          · exact ⟨.inline (.object i) isub, _, rfl⟩
        rw [hv] at hsels hpush hnotsingle
        have hsingle : (match v1 :: vs with
            | [VariantSel.spread fid fr] => some (fid, fr)
            | _ => (none : Option (Nat × RFragment))) = none := by
          split
          · rename_i fid fr heq; exact absurd heq (hnotsingle fid fr)
          · rfl
        simp only [hv, hsingle, hsels, hpush, hals, pure, Except.pure, hrest]
        rw [flatten_map_singleton]
        simp [renderType, varFieldsX, hm]
    | false =>
      -- as in `NestedAbsOp`
      rw [variantHeadX_nobody hbody]
      have hmeq := mineOf_unbody hbody
      rw [← hmeq]
      have hmine := hsp.mine hok hvt
      have hmf : memFrags c.q (.object i) (strip (unbody sub)) =
          (mineOf c.q (.object i) (strip (unbody sub))).filterMap spreadId ++
            (mineOf c.q (.object i) (strip (unbody sub))).filterMap aliasInl := rfl
      have hlen := length_members _ hmine
      have hml : (mineOf c.q (.object i) (strip (unbody sub))).length ≤ sub.length := by rw [hmeq]; exact hmlen
      have hsels := calcVariantSels_special c ok hok (pfx ++ "On" ++ objName c.s (.object i)) pfx ty i hvne
        (mineOf c.q (.object i) (strip (unbody sub))) f (by omega) hmine hi
      have hpush := pushedAny_special c ok hok ty i hvne (mineOf c.q (.object i) (strip (unbody sub))) hmine
      have hals := aliasMembers_special c ok hok (pfx ++ "On" ++ objName c.s (.object i)) (.object i)
        ((mineOf c.q (.object i) (strip (unbody sub))).filterMap aliasInl)
        (fun g' hg' => (mem_members hmine (List.mem_append_right _ hg')).1)
      revert hmf hlen hsels hpush hals hmine
      cases hm : mineOf c.q (.object i) (strip (unbody sub)) with
      | nil =>
        intro hmine hmf _ _ _ _
        simp only [show vselsOfS c.q ty [] = [] from rfl, hrest, pure, Except.pure]
        simp [variantHeadA_nil hmf]
      | cons x rest' =>
        intro hmine hmf hlen hsels hpush hals
        cases rest' with
        | nil =>
          rcases hmine x (List.mem_cons_self) with ⟨g, rfl, hokg⟩ | ⟨g, rfl, hokg⟩
          · obtain ⟨fr, hfr, hfon, _, hrec⟩ := hok _ _ hokg
            have hne2 : (fr.on == ty) = false := by rw [hfon]; simpa using hvne
            have hv : vselsOfS c.q ty [Sel.spread g] = [.spread g fr] := by simp [vselsOfS, vselOfS, hfr, hne2]
            have hmf' : memFrags c.q (.object i) (strip (unbody sub)) = [g] := by
              rw [hmf]; simp [List.filterMap_cons, spreadId, aliasInl]
            simp only [hv, hrest, pure, Except.pure, hrec]
            simp [variantHeadA_alias hmf', fragName, hfr]
          · have hv : vselsOfS c.q ty [Sel.inline (.object i) [Sel.spread g]] = [.inline (.object i) [.spread g]] := rfl
            have hmf' : memFrags c.q (.object i) (strip (unbody sub)) = [g] := by
              rw [hmf]; simp [List.filterMap_cons, spreadId, aliasInl]
            rw [hv] at hsels hpush
            simp only [hv, hsels, hpush, hrest, pure, Except.pure]
            simp [List.filterMap_cons, spreadId, aliasInl, variantHeadA_alias hmf']
        | cons y rest'' =>
          have hl2 : 2 ≤ (memFrags c.q (.object i) (strip (unbody sub))).length := by rw [hmf, hlen]; simp
          obtain ⟨v1, v2, vs, hv⟩ : ∃ v1 v2 vs, vselsOfS c.q ty (x :: y :: rest'') = v1 :: v2 :: vs := by
            have h1 : ∀ z, IsMem ok (.object i) z → ∀ l, ∃ v, vselsOfS c.q ty (z :: l) = v :: vselsOfS c.q ty l := by
              intro z hz l
              rcases hz with ⟨g', rfl, hokg'⟩ | ⟨g', rfl, hokg'⟩
              · obtain ⟨fr', hfr', hfon', _, _⟩ := hok _ _ hokg'
                have hne3 : (fr'.on == ty) = false := by rw [hfon']; simpa using hvne
                exact ⟨.spread g' fr', by simp [vselsOfS, vselOfS, hfr', hne3, List.filterMap_cons]⟩
              · exact ⟨.inline (.object i) [.spread g'], rfl⟩
            obtain ⟨v1, e1⟩ := h1 x (hmine x (by simp)) (y :: rest'')
            obtain ⟨v2, e2⟩ := h1 y (hmine y (by simp)) rest''
            exact ⟨v1, v2, _, by rw [e1, e2]⟩
          rw [hv] at hsels hpush
          simp only [hv, hsels, hpush]
          cases hd : (List.filterMap spreadId (x :: y :: rest'')).isEmpty with
          | false =>
            simp only [Bool.not_false, hals, pure, Except.pure, hrest]
            rw [flatten_map_singleton, ← List.map_append, ← hmf, variantHeadA_struct hl2]
            simp [renderType]
          | true =>
            have hdn : List.filterMap spreadId (x :: y :: rest'') = [] := by simpa using hd
            rw [hdn, List.nil_append] at hlen
            revert hals hlen
            cases hal : List.filterMap aliasInl (x :: y :: rest'') with
            | nil => intro hlen _; simp at hlen
            | cons g0 gs0 =>
              cases gs0 with
              | nil => intro hlen _; simp at hlen
              | cons g1 gs1 =>
                intro hlen hals
                simp only [Bool.not_true, List.map_cons, pure, Except.pure, hrest]
                simp only [List.map_cons] at hals
                simp only [hals, pure, Except.pure]
                rw [variantHeadA_struct hl2, hmf, hdn, hal]
                simp [renderType, flatten_map_singleton]

include hn hok in
/-- **the items of an abstract position of the general kind** -/
theorem calcSelection_specialX (name pfx : String) (ty : TypeId) (sub : List Sel) (hty : absHyp c.s ty)
    (h : SpecialX ok c.s c.q c.o ty sub) (B : Nat) (hB : ∀ t isub, Sel.inline t isub ∈ sub → isub.length ≤ B)
    (fuel : Nat) (hf : (vtsOfTy c.s ty).length + sub.length + B + 7 ≤ fuel) :
    calcSelection c fuel name pfx ty sub = .ok (absItemsX c name pfx ty sub) := by
  obtain ⟨f, rfl⟩ : ∃ f, fuel = f + 1 := ⟨fuel - 1, by omega⟩
  have hns : ∀ g, sub = [Sel.spread g] → False := by
    intro g hg
    have := h.tn
    subst hg
    simp [isTypename] at this
  rw [calcSelection.eq_3 _ _ _ _ _ _ hns]
  have hv : variantsOf c.s ty = .ok (some (vtsOfTy c.s ty)) := by
    apply variantsOf_abs
    cases ty <;> simp only [absHyp] at hty ⊢ <;> first | trivial | exact hty
  have hsp : ∀ g, Sel.spread g ∈ sub → ∃ fr, c.q.fragments[g]? = some fr ∧ fr.on ≠ ty :=
    fun g hg => h.spread hok hty hg
  have hfm := filterMapM_variantSelS c.q ty sub (fun g hg => (hsp g hg).imp fun _ hx => hx.1)
  have hvar := calcVariants_X c hn ok hok name pfx ty sub hty h B hB (vtsOfTy c.s ty) f (by omega) (fun _ ht => ht)
  have hfields := calcFields_specialG c hn pfx ty sub f (by omega) h.leaf hsp
  simp only [hv, bind, Except.bind, pure, Except.pure, hfm, hvar, hfields]
  simp [absItemsX, variantsV, otherVariants]

end CalcAbs2

theorem inline_length_le_selsSize {t : TypeId} {isub : List Sel} : ∀ {sub : List Sel}, Sel.inline t isub ∈ sub →
    sub.length + isub.length ≤ selsSize sub
  | [], h => by simp at h
  | x :: xs, h => by
    rw [selsSize.eq_2]
    simp only [List.length_cons]
    rcases List.mem_cons.mp h with rfl | h'
    · rw [selSize.eq_2]
      have := C02.length_le_selsSize xs
      have := C02.length_le_selsSize isub
      omega
    · have := inline_length_le_selsSize h'
      have := C02.selSize_pos x
      omega

/-! ## Theorem 1 for `NestedGen2Op` -/

section CalcA
variable (c : Ctx) (hn : c.o.normalization = .none) (N M : Nat) (ok : TypeId → Nat → Bool) (hok : OkSpec c.q ok)

def A1 (fuel : Nat) : Prop := ∀ name pfx i sels e, selsDepth sels ≤ e → selsSize sels ≤ N →
  C02.Sb N M e ≤ fuel → aBody ok c.s c.q c.o (.object i) sels = true →
  calcSelection c fuel name pfx (.object i) sels = .ok (bodyItemsA c name pfx sels)
def A4 (fuel : Nat) : Prop := ∀ pfx i sels e, selsDepth sels ≤ e → selsSize sels ≤ N →
  C02.Fneed N M e sels.length ≤ fuel → aSels ok c.s c.q c.o (.object i) sels = true →
  calcFields c fuel pfx (.object i) sels = .ok (fieldsOfF c pfx sels, itemsAs c pfx sels)

include hok in
theorem stepA1 (f : Nat) (H4 : A4 c N M ok f) : A1 c N M ok (f + 1) := by
  intro name pfx i sels e hD hS hF ht
  by_cases hsp : ∃ g, sels = [Sel.spread g]
  · obtain ⟨g, rfl⟩ := hsp
    rw [calcSelection.eq_2]
    have hokg : ok (.object i) g = true := ht
    obtain ⟨fr, hfr, _, _, hrec⟩ := hok _ _ hokg
    simp only [getFragment_of hfr, bind, Except.bind, pure, Except.pure, hrec]
    simp [bodyItemsA, fragName, hfr]
  · have hsp' : ∀ g, sels ≠ [Sel.spread g] := fun g hg => hsp ⟨g, hg⟩
    rw [calcSelection.eq_3 _ _ _ _ _ _ (fun g hg => hsp ⟨g, hg⟩)]
    rw [aBody_not_lone hsp'] at ht
    have hv : variantsOf c.s (.object i) = .ok none := rfl
    have hL := C02.length_le_selsSize sels
    have hfields := H4 pfx i sels e hD hS (by
      cases e with
      | zero => simp only [C02.Fneed]; unfold C02.Sb at hF; omega
      | succ e' => simp only [C02.Fneed]; rw [C02.Sb_succ] at hF; omega) ht
    simp only [hv, bind, Except.bind, pure, Except.pure, hfields]
    rw [bodyItemsA_not_lone c name pfx hsp']
    simp [renderType]

theorem itemsA_old (pfx : String) (a : Option String) (fid : Nat) (sub : List Sel) (sf : StoredField)
    (hsf : c.s.fields[fid]? = some sf) (hno : ∀ i, sf.ty.id ≠ .object i)
    (hs : sSel c.s c.q c.o false (.field a fid sub) = true) :
    itemsA c pfx (.field a fid sub) = itemsS c pfx (.field a fid sub) := by
  rw [itemsA]
  simp only [hsf]
  cases hid : sf.ty.id with
  | object i => exact absurd hid (hno i)
  | scalar k => simp [hs]
  | «enum» k => simp [hs]
  | interface k => simp [hs]
  | union k => simp [hs]
  | input k => simp [hs]

theorem itemsA_new (pfx : String) (a : Option String) (fid : Nat) (sub : List Sel) (sf : StoredField)
    (hsf : c.s.fields[fid]? = some sf) (hno : ∀ i, sf.ty.id ≠ .object i)
    (hs : sSel c.s c.q c.o false (.field a fid sub) = false) :
    itemsA c pfx (.field a fid sub) =
      absItemsX c (pfx ++ c.cs.camel (a.getD sf.name)) (pfx ++ c.cs.camel (a.getD sf.name)) sf.ty.id sub := by
  rw [itemsA]
  simp only [hsf]
  cases hid : sf.ty.id with
  | object i => exact absurd hid (hno i)
  | scalar k => simp [hs]
  | «enum» k => simp [hs]
  | interface k => simp [hs]
  | union k => simp [hs]
  | input k => simp [hs]

include hn hok in
theorem stepA4 (hM : ∀ ty vts, variantsOf c.s ty = .ok (some vts) → vts.length ≤ M)
    (f : Nat) (H1 : A1 c N M ok f) (H4 : A4 c N M ok f) : A4 c N M ok (f + 1) := by
  intro pfx i sels e hD hS hF ht
  have H1a := (calc_variantspread c hn N M hM f).2.1
  cases sels with
  | nil => rw [calcFields.eq_2 _ _ _ _ (by omega)]; rfl
  | cons x rest =>
    cases e with
    | zero => have := C02.selsDepth_cons_pos x rest; omega
    | succ e =>
      obtain ⟨hx, hrest⟩ := aSels_cons ht
      rw [selsDepth.eq_2] at hD
      rw [selsSize.eq_2] at hS
      simp only [C02.Fneed, List.length_cons] at hF
      have hR := H4 pfx i rest (e + 1) (by omega) (by omega) (by simp only [C02.Fneed]; omega) hrest
      rw [fieldsOfF_cons, itemsAs]
      cases x with
      | field a fid sub =>
        rw [selDepth.eq_1] at hD
        rw [selSize.eq_1] at hS
        obtain ⟨sf, hsf⟩ := aSel_field_some hx
        by_cases hobj : ∃ j, sf.ty.id = .object j
        · rw [calcFields.eq_3]
          simp only [getField_of hsf, bind, Except.bind]
          obtain ⟨j, hid⟩ := hobj
          obtain ⟨hw, hdep', _, hbody⟩ := aSel_obj hsf hid hx
          have hS' := H1 (pfx ++ c.cs.camel (a.getD sf.name)) (pfx ++ c.cs.camel (a.getD sf.name)) j sub e
            (by omega) (by omega) (by omega) hbody
          simp only [hid, renderField_tree c _ _ _ _ hw hdep', hS', hR, pure, Except.pure]
          have hitems : itemsA c pfx (.field a fid sub) =
              bodyItemsA c (pfx ++ c.cs.camel (a.getD sf.name)) (pfx ++ c.cs.camel (a.getD sf.name)) sub := by
            rw [itemsA]; simp only [hsf, hid]; rfl
          rw [hitems]
          simp [fieldOfSelF, fieldOfSelV, hsf, hid, leafNameV]
        · have hno : ∀ j, sf.ty.id ≠ .object j := fun j h => hobj ⟨j, h⟩
          rcases aSel_nonobj hsf hno hx with hs | ⟨hs, hnew⟩
          · -- a field of `VariantSpreadOp`
            rw [calcFields.eq_3]
            simp only [getField_of hsf, bind, Except.bind]
            rw [itemsA_old c pfx a fid sub sf hsf hno hs]
            rw [sSel] at hs
            simp only [hsf, Bool.and_eq_true] at hs
            obtain ⟨⟨hw, hdep⟩, hty⟩ := hs
            have hdep' : (sf.deprecation.isSome && c.o.deprecation == .deny) = false := by
              cases hd : (sf.deprecation.isSome && c.o.deprecation == .deny) with
              | false => rfl
              | true => simp [hd] at hdep
            cases hid : sf.ty.id with
            | object j => exact absurd hid (hno j)
            | scalar k =>
              simp only [hid, Bool.and_eq_true] at hty
              cases hk : c.s.scalars[k]? with
              | none => simp [hk] at hty
              | some sn =>
                simp only [getScalar_of hk, hn, C02.fieldType_none, renderField_tree c _ _ _ _ hw hdep', hR,
                  pure, Except.pure]
                simp [itemsS, fieldOfSelF, fieldOfSelV, hsf, hid, leafNameV, hk]
            | «enum» k =>
              simp only [hid, Bool.and_eq_true] at hty
              cases hk : c.s.enums[k]? with
              | none => simp [hk] at hty
              | some en =>
                simp only [getEnum_of hk, hn, C02.fieldType_none, renderField_tree c _ _ _ _ hw hdep', hR,
                  pure, Except.pure]
                simp [itemsS, fieldOfSelF, fieldOfSelV, hsf, hid, leafNameV, hk]
            | interface k =>
              simp only [hid, Bool.and_eq_true] at hty
              have hS' := H1a (pfx ++ c.cs.camel (a.getD sf.name)) (pfx ++ c.cs.camel (a.getD sf.name)) (.interface k) sub e
                (by omega) (by omega) (by omega) hty.1.1 hty.1.2 hty.2
              simp only [renderField_tree c _ _ _ _ hw hdep', hS', hR, pure, Except.pure]
              simp [itemsS, fieldOfSelF, fieldOfSelV, hsf, hid, leafNameV, absItemsS, absItemsL]
            | union k =>
              simp only [hid, Bool.and_eq_true] at hty
              have hS' := H1a (pfx ++ c.cs.camel (a.getD sf.name)) (pfx ++ c.cs.camel (a.getD sf.name)) (.union k) sub e
                (by omega) (by omega) (by omega) hty.1.1 hty.1.2 hty.2
              simp only [renderField_tree c _ _ _ _ hw hdep', hS', hR, pure, Except.pure]
              simp [itemsS, fieldOfSelF, fieldOfSelV, hsf, hid, leafNameV, absItemsS, absItemsL]
            | input k => simp [hid] at hty
          · -- a field of abstract type of the new kind
            rw [calcFields.eq_3]
            simp only [getField_of hsf, bind, Except.bind]
            rw [itemsA_new c pfx a fid sub sf hsf hno hs]
            obtain ⟨hw, hdep', hty, hsubA⟩ := absFieldX_parts hnew
            have hsp := absSubX_parts hsubA
            have hvl : (vtsOfTy c.s sf.ty.id).length ≤ M := by
              apply hM sf.ty.id
              apply variantsOf_abs
              revert hty
              cases sf.ty.id <;> simp only [absHyp] <;> intro hty <;> first | trivial | exact hty
            have hsubpos : 1 ≤ selsDepth sub := by
              have := hsp.ne_nil
              cases sub with
              | nil => exact absurd rfl this
              | cons y ys => exact C02.selsDepth_cons_pos y ys
            have hL := C02.length_le_selsSize sub
            have hB : ∀ t isub, Sel.inline t isub ∈ sub → isub.length ≤ N - sub.length := by
              intro t isub hm
              have h1 := inline_length_le_selsSize hm
              omega
            have hfuel : (vtsOfTy c.s sf.ty.id).length + sub.length + (N - sub.length) + 7 ≤ f := by
              obtain ⟨e', rfl⟩ : ∃ e', e = e' + 1 := ⟨e - 1, by omega⟩
              rw [C02.Sb_succ] at hF
              unfold C02.Sb at hF
              omega
            have hS' := calcSelection_specialX c hn ok hok (pfx ++ c.cs.camel (a.getD sf.name))
              (pfx ++ c.cs.camel (a.getD sf.name)) sf.ty.id sub hty hsp (N - sub.length) hB f hfuel
            cases hid : sf.ty.id with
            | object j => exact absurd hid (hno j)
            | scalar k => rw [hid] at hty; exact absurd hty (by simp [absHyp])
            | «enum» k => rw [hid] at hty; exact absurd hty (by simp [absHyp])
            | input k => rw [hid] at hty; exact absurd hty (by simp [absHyp])
            | interface k =>
              rw [hid] at hS'
              simp only [renderField_tree c _ _ _ _ hw hdep', hS', hR, pure, Except.pure]
              simp [fieldOfSelF, fieldOfSelV, hsf, hid, leafNameV]
            | union k =>
              rw [hid] at hS'
              simp only [renderField_tree c _ _ _ _ hw hdep', hS', hR, pure, Except.pure]
              simp [fieldOfSelF, fieldOfSelV, hsf, hid, leafNameV]
      | spread g =>
        rw [calcFields.eq_4]
        have hokg : ok (.object i) g = true := by simpa [aSel] using hx
        obtain ⟨fr, hfr, hon, hname, hrec⟩ := hok _ _ hokg
        have hne : (fr.on != TypeId.object i) = false := by simp [hon]
        simp only [getFragment_of hfr, bind, Except.bind, hR, hne, Bool.false_eq_true, ↓reduceIte,
          hrec, renderField_spread c fr hname, pure, Except.pure]
        simp [fieldOfSelF, hfr, itemsA]
      | inline t sub => simp [aSel] at hx
      | typename =>
        rw [calcFields.eq_5 _ _ _ _ _ _ (by simp) (by simp), hR]
        simp [fieldOfSelF, fieldOfSelV, itemsA]


include hn hok in
theorem calc_nestedabs (hM : ∀ ty vts, variantsOf c.s ty = .ok (some vts) → vts.length ≤ M) :
    ∀ fuel, A1 c N M ok fuel ∧ A4 c N M ok fuel := by
  intro fuel
  induction fuel with
  | zero =>
    refine ⟨?_, ?_⟩
    · intro _ _ _ _ e _ _ h; unfold C02.Sb at h; omega
    · intro _ _ sels e _ _ h; have := C02.Fneed_pos N M e sels.length; omega
  | succ f ih => exact ⟨stepA1 c N M ok hok f ih.2, stepA4 c hn N M ok hok hM f ih.1 ih.2⟩

end CalcA

theorem nestedGen2Op_parts {c : Ctx} {op : ROperation} (h : NestedGen2Op c op = true) :
    c.o.normalization = .none ∧ (c.s.objects[op.objectId]?).isSome = true ∧
      aBody (fragOkN c.s c.q c.o c.q.fragments.length) c.s c.q c.o (.object op.objectId) op.sels = true := by
  simp only [NestedGen2Op, Bool.and_eq_true, beq_iff_eq] at h
  exact ⟨h.1.1, h.1.2, h.2⟩

/-- the items of an object-level selection set of the class (any rank), anywhere in the document -/
theorem bodyA_items_shape (c : Ctx) (hn : c.o.normalization = .none) (r : Nat) (name pfx : String) (i : Nat)
    (sels : List Sel) (hD : selsDepth sels ≤ C02.maxDepth c.q) (hS : selsSize sels ≤ C02.totalSize c.q)
    (ht : aBody (fragOkN c.s c.q c.o r) c.s c.q c.o (.object i) sels = true) :
    calcSelection c (calcFuel c.s c.q) name pfx (.object i) sels = .ok (bodyItemsA c name pfx sels) :=
  (calc_nestedabs c hn (C02.totalSize c.q) (c.s.objects.length + C02.maxUnion c.s) _ (fragOkN_spec c.s c.q c.o r)
    (C02.variants_length_le c.s) (calcFuel c.s c.q)).1 name pfx i sels (C02.maxDepth c.q) hD hS (calcFuel_Sb c) ht

/-- **Theorem 1 (`nestedgen2_items_shape`).**  For an operation of the class `NestedGen2Op` the response items are, in closed
    form, `bodyItemsA`: those of `nested_items_shape`, and at a field of abstract type of the new kind the tagged enum and,
    per selected possible type `T`, the type alias `…On<T> = F` of the (nested) fragment's struct. -/
theorem nestedgen2_items_shape (c : Ctx) (op : ROperation) (hop : op ∈ c.q.operations) (ht : NestedGen2Op c op = true) :
    responseItems c op = .ok (bodyItemsA c "ResponseData" (c.cs.camel op.name) op.sels) := by
  obtain ⟨hn, _, hsels⟩ := nestedGen2Op_parts ht
  apply bodyA_items_shape c hn _ _ _ _ _ (C02.op_depth_le c.q op hop) _ hsels
  apply C02.le_foldl_add
  left
  simp only [List.mem_append, List.mem_map]
  exact .inr ⟨op, hop, rfl⟩

/-! ## `NestedGenOp ⊆ NestedGen2Op`; the closed form agrees -/

theorem absSubG_nobody {ok : TypeId → Nat → Bool} {s : Schema} {q : Query} {o : Options} {ty : TypeId} {sub : List Sel}
    (h : absSubG ok s q o ty sub = true) : ∀ x ∈ sub, isBody x = false := by
  intro x hx
  have hsg := absSubG_parts h
  cases hb : isBody x with
  | false => rfl
  | true =>
    obtain ⟨t, isub, rfl, hne, hall⟩ := isBody_inline hb
    have hm : Sel.inline t isub ∈ strip sub := mem_strip.mpr ⟨hx, rfl⟩
    have := hsg.abs.sel _ hm
    simp only [absSelA] at this
    split at this
    · rename_i g
      have := hall (Sel.spread g) (by simp)
      simp [isFieldSel] at this
    · cases this

theorem absSubX_of_absSubG {ok : TypeId → Nat → Bool} {s : Schema} {q : Query} {o : Options} {ty : TypeId} {sub : List Sel}
    (h : absSubG ok s q o ty sub = true) : absSubX ok s q o ty sub = true := by
  have hnb := absSubG_nobody h
  simp only [absSubX, Bool.and_eq_true, List.all_eq_true]
  refine ⟨by rw [unbody_eq_self hnb]; exact h, fun x hx => by simp [hnb x hx]⟩

theorem absFieldX_of_absFieldG {ok : TypeId → Nat → Bool} {s : Schema} {q : Query} {o : Options} {sf : StoredField}
    {sub : List Sel} (h : absFieldG ok s q o sf sub = true) : absFieldX ok s q o sf sub = true := by
  simp only [absFieldG, Bool.and_eq_true] at h
  simp only [absFieldX, Bool.and_eq_true]
  exact ⟨h.1, absSubX_of_absSubG h.2⟩

theorem mineOf_any_body_false {q : Query} {vt : TypeId} {sub : List Sel} (hnb : ∀ x ∈ sub, isBody x = false) :
    (mineOf q vt sub).any isBody = false := by
  rw [List.any_eq_false]
  intro x hx
  simp [hnb x (mem_mineOf hx).1]

/-- at a position of `NestedGenOp` the closed form is the one of `nestedgen_items_shape` -/
theorem absItemsX_eq_G {ok : TypeId → Nat → Bool} {c : Ctx} {ty : TypeId} {sub : List Sel}
    (h : absSubG ok c.s c.q c.o ty sub = true) (name pfx : String) :
    absItemsX c name pfx ty sub = absItemsG c name pfx ty sub := by
  have hnb := absSubG_nobody h
  unfold absItemsX absItemsG
  congr 1
  · congr 1
    unfold variantsV
    congr 1
    apply List.map_congr_left
    intro vt _
    apply marks_variantOf_congr
    unfold mineOf strip
    rw [List.filter_filter]
    apply List.filter_congr
    intro x _
    cases hon : onVt c.q vt x with
    | false => simp
    | true =>
      have : selOn c.q x = some vt := by simpa [onVt] using hon
      have hnf : isFieldSel x = false := by cases x <;> simp_all [selOn, isFieldSel]
      simp [hnf]
  · apply C01NA.flatMap_congr_mem
    intro vt _
    rw [variantHeadX_nobody (mineOf_any_body_false hnb), unbody_eq_self hnb]

mutual
  theorem aSel_of_G {ok : TypeId → Nat → Bool} (s : Schema) (q : Query) (o : Options) : ∀ (x : Sel) (p : TypeId),
      C01NG.aSel ok s q o p x = true → aSel ok s q o p x = true
    | .field a fid sub, p => by
      intro h
      have IH := aSels_of_G (ok := ok) s q o sub
      obtain ⟨sf, hsf⟩ := C01NG.aSel_field_some h
      by_cases hobj : ∃ i, sf.ty.id = .object i
      · obtain ⟨i, hid⟩ := hobj
        obtain ⟨hw, hdep, ho, hb⟩ := C01NG.aSel_obj hsf hid h
        rw [aSel]
        simp only [hsf, hid, hw, hdep, ho, Bool.not_false, Bool.and_self, Bool.true_and]
        by_cases hsp : ∃ g, sub = [Sel.spread g]
        · obtain ⟨g, rfl⟩ := hsp; exact hb
        · have hnl : ∀ g, sub ≠ [Sel.spread g] := fun g hg => hsp ⟨g, hg⟩
          rw [C01NG.aBody_not_lone hnl] at hb
          split
          · exact absurd rfl (hnl _)
          · exact IH _ hb
      · have hno : ∀ i, sf.ty.id ≠ .object i := fun i h => hobj ⟨i, h⟩
        have hs : (sSel s q o false (.field a fid sub) || absFieldX ok s q o sf sub) = true := by
          rcases C01NG.aSel_nonobj hsf hno h with hs | ⟨_, hnew⟩
          · rw [hs]; rfl
          · rw [absFieldX_of_absFieldG hnew]; simp
        rw [aSel]
        simp only [hsf]
        cases hid : sf.ty.id with
        | object i => exact absurd hid (hno i)
        | scalar k => simpa using hs
        | «enum» k => simpa using hs
        | interface k => simpa using hs
        | union k => simpa using hs
        | input k => simpa using hs
    | .spread g, p => by intro h; rw [C01NG.aSel] at h; rw [aSel]; exact h
    | .inline _ _, _ => by intro h; simp [C01NG.aSel] at h
    | .typename, _ => by intro _; simp [aSel]
  theorem aSels_of_G {ok : TypeId → Nat → Bool} (s : Schema) (q : Query) (o : Options) : ∀ (sels : List Sel) (p : TypeId),
      C01NG.aSels ok s q o p sels = true → aSels ok s q o p sels = true
    | [], _ => by intro _; rfl
    | x :: xs, p => by
      intro h
      obtain ⟨hx, hxs⟩ := C01NG.aSels_cons h
      rw [aSels, aSel_of_G s q o x p hx, aSels_of_G s q o xs p hxs]; rfl
end

theorem aBody_of_G {ok : TypeId → Nat → Bool} {s : Schema} {q : Query} {o : Options} {p : TypeId} {sels : List Sel}
    (h : C01NG.aBody ok s q o p sels = true) : aBody ok s q o p sels = true := by
  by_cases hsp : ∃ g, sels = [Sel.spread g]
  · obtain ⟨g, rfl⟩ := hsp; exact h
  · have hnl : ∀ g, sels ≠ [Sel.spread g] := fun g hg => hsp ⟨g, hg⟩
    rw [C01NG.aBody_not_lone hnl] at h
    rw [aBody_not_lone hnl]
    exact aSels_of_G s q o sels p h

/-- **`NestedGenOp ⊆ NestedGen2Op`** -/
theorem nestedGen2Op_of_nestedGenOp (c : Ctx) (op : ROperation) (h : NestedGenOp c op = true) : NestedGen2Op c op = true := by
  obtain ⟨hn, ho, hb⟩ := nestedGenOp_parts h
  simp only [NestedGen2Op, Bool.and_eq_true, beq_iff_eq]
  exact ⟨⟨hn, ho⟩, aBody_of_G hb⟩

mutual
  theorem itemsA_eq_G {ok : TypeId → Nat → Bool} (c : Ctx) : ∀ (x : Sel) (p : TypeId) (pfx : String),
      C01NG.aSel ok c.s c.q c.o p x = true → itemsA c pfx x = C01NG.itemsA c pfx x
    | .field a fid sub, p, pfx => by
      intro h
      have IH := itemsAs_eq_G (ok := ok) c sub
      obtain ⟨sf, hsf⟩ := C01NG.aSel_field_some h
      by_cases hobj : ∃ i, sf.ty.id = .object i
      · obtain ⟨i, hid⟩ := hobj
        obtain ⟨_, _, _, hb⟩ := C01NG.aSel_obj hsf hid h
        rw [itemsA, C01NG.itemsA]
        simp only [hsf, hid]
        by_cases hsp : ∃ g, sub = [Sel.spread g]
        · obtain ⟨g, rfl⟩ := hsp; rfl
        · have hnl : ∀ g, sub ≠ [Sel.spread g] := fun g hg => hsp ⟨g, hg⟩
          rw [C01NG.aBody_not_lone hnl] at hb
          have e1 := IH (.object i) (pfx ++ c.cs.camel (a.getD sf.name)) hb
          split
          · exact absurd rfl (hnl _)
          · split
            · exact absurd rfl (hnl _)
            · rw [e1]
      · have hno : ∀ i, sf.ty.id ≠ .object i := fun i h => hobj ⟨i, h⟩
        rcases C01NG.aSel_nonobj hsf hno h with hs | ⟨hs, hnew⟩
        · rw [itemsA_old c pfx a fid sub sf hsf hno hs, C01NG.itemsA_old c pfx a fid sub sf hsf hno hs]
        · rw [itemsA_new c pfx a fid sub sf hsf hno hs, C01NG.itemsA_new c pfx a fid sub sf hsf hno hs]
          exact absItemsX_eq_G (C01NG.absFieldG_parts hnew).2.2.2 _ _
    | .spread g, _, _ => by intro _; simp [itemsA, C01NG.itemsA]
    | .inline _ _, _, _ => by intro _; simp [itemsA, C01NG.itemsA]
    | .typename, _, _ => by intro _; simp [itemsA, C01NG.itemsA]
  theorem itemsAs_eq_G {ok : TypeId → Nat → Bool} (c : Ctx) : ∀ (sels : List Sel) (p : TypeId) (pfx : String),
      C01NG.aSels ok c.s c.q c.o p sels = true → itemsAs c pfx sels = C01NG.itemsAs c pfx sels
    | [], _, _ => by intro _; rfl
    | x :: xs, p, pfx => by
      intro h
      obtain ⟨hx, hxs⟩ := C01NG.aSels_cons h
      rw [itemsAs, C01NG.itemsAs, itemsA_eq_G c x p pfx hx, itemsAs_eq_G c xs p pfx hxs]
end

/-- on `NestedGenOp` the closed form is the one of `nestedgen_items_shape` -/
theorem bodyItemsA_eq_G (c : Ctx) (op : ROperation) (h : NestedGenOp c op = true) (name pfx : String) :
    bodyItemsA c name pfx op.sels = C01NG.bodyItemsA c name pfx op.sels := by
  obtain ⟨_, _, hb⟩ := nestedGenOp_parts h
  by_cases hsp : ∃ g, op.sels = [Sel.spread g]
  · obtain ⟨g, hg⟩ := hsp; rw [hg]; rfl
  · have hnl : ∀ g, op.sels ≠ [Sel.spread g] := fun g hg => hsp ⟨g, hg⟩
    rw [C01NG.aBody_not_lone hnl] at hb
    rw [bodyItemsA_not_lone c name pfx hnl, C01NG.bodyItemsA_not_lone c name pfx hnl, itemsAs_eq_G c op.sels _ pfx hb]

end C01NX
end GqlVerif
