import GqlVerif.Proofs.C01NestedAbsI
/-!
# C01 end to end (`NestedAbsOp`), part J: agreement with `C01Nested*` on `NestedOp`

On an operation of `NestedOp` (every field of abstract type is a field of `VariantSpreadOp`):

* the class contains it (`nestedAbsOp_of_nestedOp`, part A), the closed form is the same (`bodyItemsA_eq_M`, part A);
* the specification **is** the same (`C01N.conformsOpN`, used by both developments);
* `conformsLooseA_eq_N` — the exact acceptance predicate is `conformsLooseN`;
* `canonSelA_eq_N` — the canonical form is `canonSelN`;
* `nestedAbsKeysOk_eq_N`, `nestedAbsSideOk_eq_N`, `absTagOk_of_nestedOp` — the side conditions are those of `NestedOp` (the new one is
  vacuous);
* hence `nestedabs_precise_iff` / `nestedabs_roundtrip` restate `nested_precise_iff` / `nested_roundtrip` there
  (`nestedabs_roundtrip_on_nestedOp`).
-/
set_option linter.unusedSimpArgs false
set_option linter.unusedVariables false
set_option linter.unusedSectionVars false
set_option linter.unnecessarySimpa false

namespace GqlVerif
namespace C01NA
open Serde Spec C13 C03 Codegen C01 C01.E2E C01M C01N

section Agree
variable {ok : TypeId → Nat → Bool} {s : Schema} {q : Query} {o : Options}

/-! ## acceptance -/

mutual
  theorem looseFieldA_eq_N (whole : Nat → Bool → Json → Bool) (b : Bool) : ∀ (x : Sel) (p : TypeId) (v : Json),
      nSel ok s q o p x = true → looseFieldA whole s q o b x v = looseFieldN whole s q o b x v
    | .field a fid sub, p, v => by
      intro h
      have IH1 := looseOwnA_eq_N whole b sub
      have IH2 := looseArrA_eq_N whole b sub
      obtain ⟨sf, hsf⟩ := nSel_field_some h
      by_cases hobj : ∃ i, sf.ty.id = .object i
      · obtain ⟨i, hid⟩ := hobj
        obtain ⟨_, _, _, hb⟩ := nSel_obj hsf hid h
        rw [looseFieldA, looseFieldN]
        simp only [hsf, hid]
        by_cases hsp : ∃ g, sub = [Sel.spread g]
        · obtain ⟨g, rfl⟩ := hsp; rfl
        · have hnl : ∀ g, sub ≠ [Sel.spread g] := fun g hg => hsp ⟨g, hg⟩
          rw [nBody_not_lone hnl] at hb
          have e1 : ∀ kvs, looseOwnA whole s q o b sub kvs = looseOwnN whole s q o b sub kvs :=
            fun kvs => IH1 (.object i) kvs hb
          have e2 : ∀ xs, looseArrA whole s q o b sub xs = looseArrN whole s q o b sub xs :=
            fun xs => IH2 (.object i) xs hb
          cases s.objects[i]? with
          | none => rfl
          | some ob =>
            simp only []
            congr 1
            funext j
            cases j <;> simp only [e1, e2]
      · have hno : ∀ i, sf.ty.id ≠ .object i := fun i h => hobj ⟨i, h⟩
        rw [looseFieldA_old hsf hno (nSel_nonobj hsf hno h), looseFieldN_nonobj hsf hno]
    | .spread g, _, _ => by intro _; simp [looseFieldA, looseFieldN]
    | .inline _ _, _, _ => by intro _; simp [looseFieldA, looseFieldN]
    | .typename, _, _ => by intro _; simp [looseFieldA, looseFieldN]
  theorem looseOwnA_eq_N (whole : Nat → Bool → Json → Bool) (b : Bool) : ∀ (sels : List Sel) (p : TypeId)
      (kvs : List (String × Json)), nSels ok s q o p sels = true →
      looseOwnA whole s q o b sels kvs = looseOwnN whole s q o b sels kvs
    | [], _, _ => by intro _; simp [looseOwnA, looseOwnN]
    | x :: xs, p, kvs => by
      intro h
      obtain ⟨hx, hxs⟩ := nSels_cons h
      have ih := looseOwnA_eq_N whole b xs p kvs hxs
      cases x with
      | field a fid sub =>
        rw [looseOwnA.eq_2, looseOwnN.eq_2, ih]
        cases hsf : s.fields[fid]? with
        | none => rfl
        | some sf =>
          simp only []
          cases Json.lookup (a.getD sf.name) kvs with
          | none => rfl
          | some v => simp only [looseFieldA_eq_N whole b (.field a fid sub) p v hx]
      | spread g => simpa [looseOwnA, looseOwnN] using ih
      | inline t sub => simpa [looseOwnA, looseOwnN] using ih
      | typename => simpa [looseOwnA, looseOwnN] using ih
  theorem looseArrA_eq_N (whole : Nat → Bool → Json → Bool) (b : Bool) : ∀ (sels : List Sel) (p : TypeId)
      (vs : List Json), nSels ok s q o p sels = true →
      looseArrA whole s q o b sels vs = looseArrN whole s q o b sels vs
    | [], _, _ => by intro _; simp [looseArrA, looseArrN]
    | x :: xs, p, vs => by
      intro h
      obtain ⟨hx, hxs⟩ := nSels_cons h
      cases x with
      | field a fid sub =>
        cases vs with
        | nil => simp [looseArrA, looseArrN]
        | cons v vs' =>
          rw [looseArrA.eq_3, looseArrN.eq_3, looseFieldA_eq_N whole b (.field a fid sub) p v hx,
            looseArrA_eq_N whole b xs p vs' hxs]
      | spread g => simpa [looseArrA, looseArrN] using looseArrA_eq_N whole b xs p vs hxs
      | inline t sub => simpa [looseArrA, looseArrN] using looseArrA_eq_N whole b xs p vs hxs
      | typename => simpa [looseArrA, looseArrN] using looseArrA_eq_N whole b xs p vs hxs
end

/-- **on `NestedOp` the exact acceptance predicate is the one of `nested_precise_iff`** -/
theorem conformsLooseA_eq_N (whole : Nat → Bool → Json → Bool) (b : Bool) (p : TypeId) (sels : List Sel) (j : Json)
    (h : nBody ok s q o p sels = true) :
    conformsLooseA whole s q o b sels j = conformsLooseN whole s q o b sels j := by
  by_cases hsp : ∃ g, sels = [Sel.spread g]
  · obtain ⟨g, rfl⟩ := hsp; rfl
  · have hnl : ∀ g, sels ≠ [Sel.spread g] := fun g hg => hsp ⟨g, hg⟩
    rw [nBody_not_lone hnl] at h
    rw [conformsLooseA_not_lone hnl, conformsLooseN_not_lone hnl]
    cases j <;> simp only [looseOwnA_eq_N whole b sels p _ h, looseArrA_eq_N whole b sels p _ h]

/-! ## canonical form -/

mutual
  theorem canonFieldA_eq_N (cent : Nat → List (String × Json) → List (String × Json)) : ∀ (x : Sel) (p : TypeId) (v : Json),
      nSel ok s q o p x = true → canonFieldA cent s q o x v = canonFieldN cent s q o.skipNone x v
    | .field a fid sub, p, v => by
      intro h
      have IH := canonEntriesA_eq_N cent sub
      obtain ⟨sf, hsf⟩ := nSel_field_some h
      by_cases hobj : ∃ i, sf.ty.id = .object i
      · obtain ⟨i, hid⟩ := hobj
        obtain ⟨_, _, _, hb⟩ := nSel_obj hsf hid h
        rw [canonFieldA, canonFieldN]
        simp only [hsf, hid]
        by_cases hsp : ∃ g, sub = [Sel.spread g]
        · obtain ⟨g, rfl⟩ := hsp; rfl
        · have hnl : ∀ g, sub ≠ [Sel.spread g] := fun g hg => hsp ⟨g, hg⟩
          rw [nBody_not_lone hnl] at hb
          have e1 : ∀ kvs, canonEntriesA cent s q o sub kvs = canonEntriesN cent s q o.skipNone sub kvs :=
            fun kvs => IH (.object i) kvs hb
          rw [canonLambdaA, canonLambdaN]
          congr 1
          funext j
          rw [canonSelA_not_lone hnl, canonSelN_not_lone hnl]
          cases j <;> simp only [e1]
      · have hno : ∀ i, sf.ty.id ≠ .object i := fun i h => hobj ⟨i, h⟩
        rw [canonFieldA_old hsf hno (nSel_nonobj hsf hno h), canonFieldN_nonobj hsf hno]
    | .spread g, _, _ => by intro _; simp [canonFieldA, canonFieldN]
    | .inline _ _, _, _ => by intro _; simp [canonFieldA, canonFieldN]
    | .typename, _, _ => by intro _; simp [canonFieldA, canonFieldN]
  theorem canonEntriesA_eq_N (cent : Nat → List (String × Json) → List (String × Json)) : ∀ (sels : List Sel) (p : TypeId)
      (kvs : List (String × Json)), nSels ok s q o p sels = true →
      canonEntriesA cent s q o sels kvs = canonEntriesN cent s q o.skipNone sels kvs
    | [], _, _ => by intro _; simp [canonEntriesA, canonEntriesN]
    | x :: xs, p, kvs => by
      intro h
      obtain ⟨hx, hxs⟩ := nSels_cons h
      have ih := canonEntriesA_eq_N cent xs p kvs hxs
      cases x with
      | field a fid sub =>
        rw [canonEntriesA.eq_2, canonEntriesN.eq_2, ih]
        cases hsf : s.fields[fid]? with
        | none => rfl
        | some sf =>
          simp only []
          cases Json.lookup (a.getD sf.name) kvs with
          | none => rfl
          | some v => simp only [canonFieldA_eq_N cent (.field a fid sub) p v hx]
      | spread g => rw [canonEntriesA.eq_3, canonEntriesN.eq_3, ih]
      | inline t sub => simpa [canonEntriesA, canonEntriesN] using ih
      | typename => simpa [canonEntriesA, canonEntriesN] using ih
end

/-- **on `NestedOp` the canonical form is the one of `nested_roundtrip`** -/
theorem canonSelA_eq_N (cent : Nat → List (String × Json) → List (String × Json)) (p : TypeId) (sels : List Sel) (j : Json)
    (h : nBody ok s q o p sels = true) :
    canonSelA cent s q o sels j = canonSelN cent s q o.skipNone sels j := by
  by_cases hsp : ∃ g, sels = [Sel.spread g]
  · obtain ⟨g, rfl⟩ := hsp; rfl
  · have hnl : ∀ g, sels ≠ [Sel.spread g] := fun g hg => hsp ⟨g, hg⟩
    rw [nBody_not_lone hnl] at h
    rw [canonSelA_not_lone hnl, canonSelN_not_lone hnl]
    cases j <;> simp only [canonEntriesA_eq_N cent sels p _ h]

/-! ## side conditions -/

mutual
  theorem aSpreads_eq_N : ∀ (x : Sel) (p : TypeId), nSel ok s q o p x = true → aSpreads s q o x = objSpreads s x
    | .field a fid sub, p => by
      intro h
      have IH := aSpreadss_eq_N sub
      obtain ⟨sf, hsf⟩ := nSel_field_some h
      rw [aSpreads, objSpreads]
      simp only [hsf]
      by_cases hobj : ∃ i, sf.ty.id = .object i
      · obtain ⟨i, hid⟩ := hobj
        obtain ⟨_, _, _, hb⟩ := nSel_obj hsf hid h
        simp only [hid]
        by_cases hsp : ∃ g, sub = [Sel.spread g]
        · obtain ⟨g, rfl⟩ := hsp; simp [aSpreadss, aSpreads, objSpreadss, objSpreads]
        · have hnl : ∀ g, sub ≠ [Sel.spread g] := fun g hg => hsp ⟨g, hg⟩
          rw [nBody_not_lone hnl] at hb
          exact IH _ hb
      · have hno : ∀ i, sf.ty.id ≠ .object i := fun i h => hobj ⟨i, h⟩
        have hs := nSel_nonobj hsf hno h
        cases hid : sf.ty.id with
        | object i => exact absurd hid (hno i)
        | scalar k => simp [hs]
        | «enum» k => simp [hs]
        | interface k => simp [hs]
        | union k => simp [hs]
        | input k => simp [hs]
    | .spread g, _ => by intro _; simp [aSpreads, objSpreads]
    | .inline _ _, _ => by intro _; simp [aSpreads, objSpreads]
    | .typename, _ => by intro _; simp [aSpreads, objSpreads]
  theorem aSpreadss_eq_N : ∀ (sels : List Sel) (p : TypeId), nSels ok s q o p sels = true →
      aSpreadss s q o sels = objSpreadss s sels
    | [], _ => by intro _; rfl
    | x :: xs, p => by
      intro h
      obtain ⟨hx, hxs⟩ := nSels_cons h
      rw [aSpreadss, objSpreadss, aSpreads_eq_N x p hx, aSpreadss_eq_N xs p hxs]
end

mutual
  theorem aPays_nil_N : ∀ (x : Sel) (p : TypeId), nSel ok s q o p x = true → aPays s q o x = []
    | .field a fid sub, p => by
      intro h
      have IH := aPayss_nil_N sub
      obtain ⟨sf, hsf⟩ := nSel_field_some h
      rw [aPays]
      simp only [hsf]
      by_cases hobj : ∃ i, sf.ty.id = .object i
      · obtain ⟨i, hid⟩ := hobj
        obtain ⟨_, _, _, hb⟩ := nSel_obj hsf hid h
        simp only [hid]
        by_cases hsp : ∃ g, sub = [Sel.spread g]
        · obtain ⟨g, rfl⟩ := hsp; simp [aPayss, aPays]
        · have hnl : ∀ g, sub ≠ [Sel.spread g] := fun g hg => hsp ⟨g, hg⟩
          rw [nBody_not_lone hnl] at hb
          exact IH _ hb
      · have hno : ∀ i, sf.ty.id ≠ .object i := fun i h => hobj ⟨i, h⟩
        have hs := nSel_nonobj hsf hno h
        cases hid : sf.ty.id with
        | object i => exact absurd hid (hno i)
        | scalar k => simp [hs]
        | «enum» k => simp [hs]
        | interface k => simp [hs]
        | union k => simp [hs]
        | input k => simp [hs]
    | .spread g, _ => by intro _; simp [aPays]
    | .inline _ _, _ => by intro _; simp [aPays]
    | .typename, _ => by intro _; simp [aPays]
  theorem aPayss_nil_N : ∀ (sels : List Sel) (p : TypeId), nSels ok s q o p sels = true → aPayss s q o sels = []
    | [], _ => by intro _; rfl
    | x :: xs, p => by
      intro h
      obtain ⟨hx, hxs⟩ := nSels_cons h
      rw [aPayss, aPays_nil_N x p hx, aPayss_nil_N xs p hxs]; rfl
end

end Agree

mutual
  theorem sideOkSelA_eq_N {ok : TypeId → Nat → Bool} (KN : String → List String) (c : Ctx) : ∀ (x : Sel) (p : TypeId),
      nSel ok c.s c.q c.o p x = true → sideOkSelA KN c x = rustOkSelN c x
    | .field a fid sub, p => by
      intro h
      have IH := sideOkSelsA_eq_N (ok := ok) KN c sub
      obtain ⟨sf, hsf⟩ := nSel_field_some h
      unfold sideOkSelA rustOkSelN
      simp only [hsf, Option.map_some]
      by_cases hobj : ∃ i, sf.ty.id = .object i
      · obtain ⟨i, hid⟩ := hobj
        obtain ⟨_, _, _, hb⟩ := nSel_obj hsf hid h
        simp only [hid]
        by_cases hsp : ∃ g, sub = [Sel.spread g]
        · obtain ⟨g, rfl⟩ := hsp; rfl
        · have hnl : ∀ g, sub ≠ [Sel.spread g] := fun g hg => hsp ⟨g, hg⟩
          rw [nBody_not_lone hnl] at hb
          have e1 := IH _ hb
          split
          · exact absurd rfl (hnl _)
          · split
            · exact absurd rfl (hnl _)
            · rw [e1]
      · have hno : ∀ i, sf.ty.id ≠ .object i := fun i h => hobj ⟨i, h⟩
        have hs := nSel_nonobj hsf hno h
        cases hid : sf.ty.id with
        | object i => exact absurd hid (hno i)
        | scalar k => simp [hs]
        | «enum» k => simp [hs]
        | interface k => simp [hs]
        | union k => simp [hs]
        | input k => simp [hs]
    | .spread g, _ => by intro _; simp [sideOkSelA, rustOkSelN]
    | .inline _ _, _ => by intro _; simp [sideOkSelA, rustOkSelN]
    | .typename, _ => by intro _; simp [sideOkSelA, rustOkSelN]
  theorem sideOkSelsA_eq_N {ok : TypeId → Nat → Bool} (KN : String → List String) (c : Ctx) : ∀ (sels : List Sel)
      (p : TypeId), nSels ok c.s c.q c.o p sels = true → sideOkSelsA KN c sels = rustOkSelsN c sels
    | [], _ => by intro _; rfl
    | x :: xs, p => by
      intro h
      obtain ⟨hx, hxs⟩ := nSels_cons h
      rw [sideOkSelsA, rustOkSelsN, sideOkSelA_eq_N KN c x p hx, sideOkSelsA_eq_N KN c xs p hxs]
end

mutual
  theorem keysOkA_eq_N {ok : TypeId → Nat → Bool} (KN : String → List String) (c : Ctx) : ∀ (x : Sel) (p : TypeId),
      nSel ok c.s c.q c.o p x = true → keysOkA KN c x = keysOkN KN c x
    | .field a fid sub, p => by
      intro h
      have IH := keysOksA_eq_N (ok := ok) KN c sub
      obtain ⟨sf, hsf⟩ := nSel_field_some h
      rw [keysOkA, keysOkN]
      simp only [hsf, Option.map_some]
      by_cases hobj : ∃ i, sf.ty.id = .object i
      · obtain ⟨i, hid⟩ := hobj
        obtain ⟨_, _, _, hb⟩ := nSel_obj hsf hid h
        simp only [hid]
        by_cases hsp : ∃ g, sub = [Sel.spread g]
        · obtain ⟨g, rfl⟩ := hsp
          simp [keysOksA, keysOkA, keysOksN, keysOkN]
        · have hnl : ∀ g, sub ≠ [Sel.spread g] := fun g hg => hsp ⟨g, hg⟩
          rw [nBody_not_lone hnl] at hb
          rw [IH _ hb]
      · have hno : ∀ i, sf.ty.id ≠ .object i := fun i h => hobj ⟨i, h⟩
        have hs := nSel_nonobj hsf hno h
        cases hid : sf.ty.id with
        | object i => exact absurd hid (hno i)
        | scalar k => simp [hs]
        | «enum» k => simp [hs]
        | interface k => simp [hs]
        | union k => simp [hs]
        | input k => simp [hs]
    | .spread g, _ => by intro _; simp [keysOkA, keysOkN]
    | .inline _ _, _ => by intro _; simp [keysOkA, keysOkN]
    | .typename, _ => by intro _; simp [keysOkA, keysOkN]
  theorem keysOksA_eq_N {ok : TypeId → Nat → Bool} (KN : String → List String) (c : Ctx) : ∀ (sels : List Sel)
      (p : TypeId), nSels ok c.s c.q c.o p sels = true → keysOksA KN c sels = keysOksN KN c sels
    | [], _ => by intro _; rfl
    | x :: xs, p => by
      intro h
      obtain ⟨hx, hxs⟩ := nSels_cons h
      rw [keysOksA, keysOksN, keysOkA_eq_N KN c x p hx, keysOksA_eq_N KN c xs p hxs]
end

/-- a lone spread or not: the spreads / payload fragments / side conditions of a body of `NestedOp` -/
theorem body_agree {c : Ctx} {op : ROperation} (h : NestedOp c op = true) :
    aSpreadss c.s c.q c.o op.sels = objSpreadss c.s op.sels ∧ aPayss c.s c.q c.o op.sels = [] ∧
      (∀ KN, sideOkSelsA KN c op.sels = rustOkSelsN c op.sels) ∧
      ∀ KN, keysOksA KN c op.sels = keysOksN KN c op.sels := by
  obtain ⟨_, _, hb⟩ := nestedOp_parts h
  by_cases hsp : ∃ g, op.sels = [Sel.spread g]
  · obtain ⟨g, hg⟩ := hsp
    rw [hg]
    refine ⟨by simp [aSpreadss, aSpreads, objSpreadss, objSpreads], by simp [aPayss, aPays], fun KN => ?_, fun KN => ?_⟩
    · simp [sideOkSelsA, sideOkSelA, rustOkSelsN, rustOkSelN]
    · simp [keysOksA, keysOkA, keysOksN, keysOkN]
  · have hnl : ∀ g, op.sels ≠ [Sel.spread g] := fun g hg => hsp ⟨g, hg⟩
    rw [nBody_not_lone hnl] at hb
    exact ⟨aSpreadss_eq_N _ _ hb, aPayss_nil_N _ _ hb, fun KN => sideOkSelsA_eq_N KN c _ _ hb,
      fun KN => keysOksA_eq_N KN c _ _ hb⟩

theorem nestedAbsKeysOk_eq_N (c : Ctx) (op : ROperation) (h : NestedOp c op = true) :
    nestedAbsKeysOk c op = nestedKeysOk c op := by
  unfold nestedAbsKeysOk nestedKeysOk
  rw [(body_agree h).1, (body_agree h).2.2.2]

theorem nestedAbsSideOk_eq_N (c : Ctx) (op : ROperation) (h : NestedOp c op = true) :
    nestedAbsSideOk c op = nestedRustOk c op := by
  unfold nestedAbsSideOk nestedRustOk
  rw [(body_agree h).1, (body_agree h).2.2.1]

theorem absTagOk_of_nestedOp (c : Ctx) (op : ROperation) (h : NestedOp c op = true) : absTagOk c op = true := by
  unfold absTagOk
  rw [(body_agree h).2.1]
  rfl

/-- **on `NestedOp`, `nestedabs_roundtrip` is `nested_roundtrip`**: same hypotheses, same specification, same canonical form -/
theorem nestedabs_roundtrip_on_nestedOp (c : Ctx) (opIdx : Nat) (op : ROperation) (items : List Item)
    (hop : c.q.operations[opIdx]? = some op) (ht : NestedOp c op = true) (hnd : fragNamesOk c = true)
    (hk : nestedKeysOk c op = true) (hr : nestedRustOk c op = true)
    (hgen : responseForQuery c opIdx = .ok items) (hok : moduleOk c items = true)
    (j : Json) (hc : conformsOpN c op j = true) :
    Serde.roundtrip (moduleEnv c items) (.path "ResponseData") j =
      .ok (normJson (canonSelN (centN c c.q.fragments.length) c.s c.q c.o.skipNone op.sels j)) := by
  have h := nestedabs_roundtrip c opIdx op items hop (nestedAbsOp_of_nestedOp c op ht) hnd
    (by rw [nestedAbsKeysOk_eq_N c op ht]; exact hk) (absTagOk_of_nestedOp c op ht)
    (by rw [nestedAbsSideOk_eq_N c op ht]; exact hr) hgen hok j hc
  rw [h, canonSelA_eq_N _ _ _ _ (nestedOp_parts ht).2.2]

end C01NA
end GqlVerif
