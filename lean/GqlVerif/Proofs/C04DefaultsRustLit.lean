import GqlVerif.Proofs.C04DefaultsModule
import GqlVerif.Proofs.C04RustVars
/-!
# C04 under `normalization = rust` — default literals, the syntactic half

Two contexts that agree on the schema and on the case functions (`c₁.s = c₀.s`, `c₁.cs = c₀.cs`; in the application
`c₀` has `normalization = none`, `c₁` has `rust`) render the same default value as two literals of the same shape:

* `LitRel N EV l l'` — the two literals have the same shape and the same leaves (booleans, strings, numbers, member
  identifiers — `keyword_replace(snake(field))` in both —, the variant identifiers of `@oneOf` inputs —
  `keyword_replace(camel(field))` in both —, `compile_error!` texts); the constructor names of struct / `@oneOf`
  literals and the enum names of paths are related by `N`, the variant identifiers of a path `Enum::Variant` by
  `EV enumName`;
* `enumOk s id d` — every enum literal of `d` that sits at a position whose named type is an enum names a value of
  that enum (what `ValidC` + `kindOk` say of a valid default: `C04DefaultsRustModule.enumOk_of_validC`).  Needed:
  `enumVariantIdent` is not injective (`type` and `type_` both give `type_`), so for a literal that is not a value of
  the enum nothing relates its two identifiers to the positions of the enum's variants;
* **`valueToLiteral_rename`** — under `NameFacts` (the names the two contexts give to the used input types and enums are
  related by `N`, the identifiers they give to the values of a used enum by `EV`): the two renderers fail with the same
  error or produce `LitRel`-related literals, for every fuel, value, type and qualifier list;
* `valueToLiteral_fail_alike` — with no hypothesis on the default: they succeed together and fail with the same error;
* `hasCompileError_rel` — related literals contain a `compile_error!` together.
-/
namespace GqlVerif
namespace C04DR
open Codegen Serde C04S C04R C13 C04D C09 C09N

/-! ## the relation -/

mutual
  inductive LitRel (N : String → String → Prop) (EV : String → String → String → Prop) : LitExpr → LitExpr → Prop
    | bool (b : Bool) : LitRel N EV (.bool b) (.bool b)
    | str (s : String) : LitRel N EV (.str s) (.str s)
    | int (n : Int) : LitRel N EV (.int n) (.int n)
    | float (t : String) : LitRel N EV (.float t) (.float t)
    | some {l l'} : LitRel N EV l l' → LitRel N EV (.some l) (.some l')
    | none : LitRel N EV .none .none
    | vec {ls ls'} : LitRelList N EV ls ls' → LitRel N EV (.vec ls) (.vec ls')
    | box {l l'} : LitRel N EV l l' → LitRel N EV (.box l) (.box l')
    | struct {n n' fs fs'} : N n n' → LitRelFields N EV fs fs' → LitRel N EV (.struct n fs) (.struct n' fs')
    | path {en en' v v'} : N en en' → EV en v v' → LitRel N EV (.path en v) (.path en' v')
    | variant {en en' v l l'} : N en en' → LitRel N EV l l' → LitRel N EV (.variant en v l) (.variant en' v l')
    | ident (x : String) : LitRel N EV (.ident x) (.ident x)
    | compileError (m : String) : LitRel N EV (.compileError m) (.compileError m)
  inductive LitRelList (N : String → String → Prop) (EV : String → String → String → Prop) :
      List LitExpr → List LitExpr → Prop
    | nil : LitRelList N EV [] []
    | cons {l l' ls ls'} : LitRel N EV l l' → LitRelList N EV ls ls' → LitRelList N EV (l :: ls) (l' :: ls')
  inductive LitRelFields (N : String → String → Prop) (EV : String → String → String → Prop) :
      List (String × LitExpr) → List (String × LitExpr) → Prop
    | nil : LitRelFields N EV [] []
    | cons {k l l' fs fs'} : LitRel N EV l l' → LitRelFields N EV fs fs' →
        LitRelFields N EV ((k, l) :: fs) ((k, l') :: fs')
end

section
variable {N : String → String → Prop} {EV : String → String → String → Prop}

mutual
  /-- related literals contain a `compile_error!` together -/
  theorem hasCompileError_rel : ∀ (l l' : LitExpr), LitRel N EV l l' → l.hasCompileError = l'.hasCompileError
    | .bool _, _, h => by cases h; rfl
    | .str _, _, h => by cases h; rfl
    | .int _, _, h => by cases h; rfl
    | .float _, _, h => by cases h; rfl
    | .some l, _, h => by
      cases h with
      | some h => simp only [LitExpr.hasCompileError]; exact hasCompileError_rel l _ h
    | .none, _, h => by cases h; rfl
    | .vec ls, _, h => by
      cases h with
      | vec h => simp only [LitExpr.hasCompileError]; exact hasCompileErrorList_rel ls _ h
    | .box l, _, h => by
      cases h with
      | box h => simp only [LitExpr.hasCompileError]; exact hasCompileError_rel l _ h
    | .struct _ fs, _, h => by
      cases h with
      | struct _ h => simp only [LitExpr.hasCompileError]; exact hasCompileErrorFields_rel fs _ h
    | .path _ _, _, h => by cases h; rfl
    | .variant _ _ l, _, h => by
      cases h with
      | variant _ h => simp only [LitExpr.hasCompileError]; exact hasCompileError_rel l _ h
    | .ident _, _, h => by cases h; rfl
    | .compileError _, _, h => by cases h; rfl
  theorem hasCompileErrorList_rel : ∀ (ls ls' : List LitExpr), LitRelList N EV ls ls' →
      LitExpr.hasCompileErrorList ls = LitExpr.hasCompileErrorList ls'
    | [], _, h => by cases h; rfl
    | l :: ls, _, h => by
      cases h with
      | cons h1 h2 =>
        simp only [LitExpr.hasCompileErrorList, hasCompileError_rel l _ h1, hasCompileErrorList_rel ls _ h2]
  theorem hasCompileErrorFields_rel : ∀ (fs fs' : List (String × LitExpr)), LitRelFields N EV fs fs' →
      LitExpr.hasCompileErrorFields fs = LitExpr.hasCompileErrorFields fs'
    | [], _, h => by cases h; rfl
    | (k, l) :: fs, _, h => by
      cases h with
      | cons h1 h2 =>
        simp only [LitExpr.hasCompileErrorFields, hasCompileError_rel l _ h1, hasCompileErrorFields_rel fs _ h2]
end

theorem LitRelList.length_eq : ∀ {ls ls' : List LitExpr}, LitRelList N EV ls ls' → ls.length = ls'.length
  | _, _, .nil => rfl
  | _, _, .cons _ t => by simp [LitRelList.length_eq t]

theorem litRel_optWrap (b : Bool) {l l' : LitExpr} (h : LitRel N EV l l') : LitRel N EV (optWrap b l) (optWrap b l') := by
  cases b
  · exact h
  · exact .some h

theorem litRel_singleInner {l l' : LitExpr} (h : LitRel N EV l l') : ∀ q : List Qual,
    LitRel N EV (singleInner l q) (singleInner l' q)
  | [] => h
  | .required :: _ => h
  | [.list] => .vec (.cons (.some h) .nil)
  | .list :: .required :: rest => .vec (.cons (litRel_singleInner h rest) .nil)
  | .list :: .list :: rest => .vec (.cons (.some (litRel_singleInner h (.list :: rest))) .nil)

end

/-! ## `enumOk` -/

mutual
  /-- see the header -/
  def enumOk (s : Schema) : TypeId → Value → Bool
    | id, .enum v =>
      match id.asEnum? with
      | some k =>
        (match s.enums[k]? with
         | some en => decide (v ∈ en.variants)
         | none => true)
      | none => true
    | id, .list xs => enumOkList s id xs
    | id, .obj kvs =>
      match inputOf s id with
      | some i => enumOkKvs s i.fields kvs
      | none => true
    | _, _ => true
  def enumOkList (s : Schema) : TypeId → List Value → Bool
    | _, [] => true
    | id, x :: xs => enumOk s id x && enumOkList s id xs
  def enumOkKvs (s : Schema) : List (String × FieldType) → List (String × Value) → Bool
    | _, [] => true
    | fields, (k, v) :: rest =>
      (match fields.find? (·.1 == k) with
       | some p => enumOk s p.2.id v
       | none => true) && enumOkKvs s fields rest
end

theorem enumOkList_mem {s : Schema} {id : TypeId} : ∀ {ds : List Value} {x : Value}, enumOkList s id ds = true →
    x ∈ ds → enumOk s id x = true
  | [], _, _, h => by simp at h
  | y :: ys, x, hk, h => by
    rw [enumOkList, Bool.and_eq_true] at hk
    rcases List.mem_cons.mp h with h | h
    · subst h; exact hk.1
    · exact enumOkList_mem hk.2 h

theorem enumOkKvs_find {s : Schema} {fields : List (String × FieldType)} (hn : (fields.map (·.1)).Nodup)
    {p : String × FieldType} (hp : p ∈ fields) : ∀ {dk : List (String × Value)} {kv : String × Value},
      enumOkKvs s fields dk = true → dk.find? (·.1 == p.1) = some kv → enumOk s p.2.id kv.2 = true
  | [], _, _, hf => by simp at hf
  | (k, v) :: rest, kv, hk, hf => by
    rw [enumOkKvs, Bool.and_eq_true] at hk
    simp only [List.find?_cons] at hf
    cases hkp : (k == p.1)
    · simp only [hkp] at hf
      exact enumOkKvs_find hn hp hk.2 hf
    · simp only [hkp, Option.some.injEq] at hf
      subst hf
      have : k = p.1 := by simpa using hkp
      subst this
      have := hk.1
      rw [find_field hn hp] at this
      exact this

/-! ## `Outcome` plumbing -/

theorem orel_map {α β} {S : α → α → Prop} {T : β → β → Prop} {x y : Outcome α} {f g : α → β}
    (hxy : ORel S x y) (hfg : ∀ a b, S a b → T (f a) (g b)) : ORel T (f <$> x) (g <$> y) := by
  cases x <;> cases y <;> simp only [ORel] at hxy
  · exact hxy
  · exact hfg _ _ hxy

theorem orel_mapM_list {N EV} {f g : Value → Outcome LitExpr} : ∀ (xs : List Value),
    (∀ x ∈ xs, ORel (LitRel N EV) (f x) (g x)) → ORel (LitRelList N EV) (xs.mapM f) (xs.mapM g)
  | [], _ => ORel.pure .nil
  | x :: xs, h => by
    rw [List.mapM_cons, List.mapM_cons]
    apply ORel.bind (h x (by simp)); intro a b hab
    apply ORel.bind (orel_mapM_list xs (fun y hy => h y (by simp [hy]))); intro as bs habs
    exact ORel.pure (.cons hab habs)

/-! ## the two renderers -/

/-- what relates the names the two contexts use for the types in `U` -/
structure NameFacts (c₀ c₁ : Ctx) (U : TypeId → Prop) (N : String → String → Prop)
    (EV : String → String → String → Prop) : Prop where
  inputs : ∀ k i, U (.input k) → c₀.s.inputs[k]? = some i →
    N (keywordReplace (c₀.o.normalization.inputName c₀.cs i.name))
      (keywordReplace (c₁.o.normalization.inputName c₁.cs i.name))
  enums : ∀ k en, U (.enum k) → c₀.s.enums[k]? = some en →
    N (c₀.o.normalization.enumName c₀.cs en.name) (c₁.o.normalization.enumName c₁.cs en.name) ∧
    ∀ v ∈ en.variants, EV (c₀.o.normalization.enumName c₀.cs en.name)
      (enumVariantIdent c₀.o.normalization c₀.cs v) (enumVariantIdent c₁.o.normalization c₁.cs v)
  closed : ∀ k i, U (.input k) → c₀.s.inputs[k]? = some i → (i.fields.map (·.1)).Nodup ∧ ∀ p ∈ i.fields, U p.2.id

section render
variable {s : Schema} {cs : CaseFns} {q₀ q₁ : Query} {o₀ o₁ : Options}
  {N : String → String → Prop} {EV : String → String → String → Prop}

local notation "C₀" => (Ctx.mk s q₀ o₀ cs)
local notation "C₁" => (Ctx.mk s q₁ o₁ cs)

theorem litRel_boxIfRecursive {l l' : LitExpr} (h : LitRel N EV l l') (ty : TypeId) :
    LitRel N EV (boxIfRecursive C₀ l ty) (boxIfRecursive C₁ l' ty) := by
  rw [boxIfRecursive_eq, boxIfRecursive_eq]
  have : boxed C₁ ty = boxed C₀ ty := rfl
  rw [this]
  cases boxed C₀ ty
  · exact h
  · exact .box h

theorem structFields_rel (lit₀ lit₁ : Value → TypeId → List Qual → Outcome LitExpr) (kvs : List (String × Value)) :
    ∀ fields : List (String × FieldType),
      (∀ p ∈ fields, ∀ kv, kvs.find? (·.1 == p.1) = some kv →
        ORel (LitRel N EV) (lit₀ kv.2 p.2.id p.2.quals) (lit₁ kv.2 p.2.id p.2.quals)) →
      ORel (LitRelFields N EV) (structFields C₀ lit₀ kvs fields) (structFields C₁ lit₁ kvs fields)
  | [], _ => ORel.pure .nil
  | (name, ty) :: rest, h => by
    have ih := structFields_rel lit₀ lit₁ kvs rest (fun p hp => h p (by simp [hp]))
    rw [structFields, structFields]
    cases hf : kvs.find? (·.1 == name) with
    | none =>
      simp only []
      apply ORel.bind (ORel.pure (R := LitRel N EV) .none); intro a b hab
      apply ORel.bind ih; intro as bs habs
      exact ORel.pure (.cons (litRel_boxIfRecursive hab ty.id) habs)
    | some kv =>
      obtain ⟨k, v⟩ := kv
      simp only []
      apply ORel.bind (h (name, ty) (by simp) (k, v) hf); intro a b hab
      apply ORel.bind ih; intro as bs habs
      exact ORel.pure (.cons (litRel_boxIfRecursive hab ty.id) habs)

theorem oneOfVariants_rel (lit₀ lit₁ : Value → TypeId → List Qual → Outcome LitExpr) {ctor₀ ctor₁ : String}
    (hctor : N ctor₀ ctor₁) (kvs : List (String × Value)) :
    ∀ fields : List (String × FieldType),
      (∀ p ∈ fields, ∀ kv, kvs.find? (·.1 == p.1) = some kv →
        ORel (LitRel N EV) (lit₀ kv.2 p.2.id (.required :: p.2.quals)) (lit₁ kv.2 p.2.id (.required :: p.2.quals))) →
      ORel (LitRelList N EV) (oneOfVariants C₀ lit₀ ctor₀ kvs fields) (oneOfVariants C₁ lit₁ ctor₁ kvs fields)
  | [], _ => ORel.pure .nil
  | (name, ty) :: rest, h => by
    have ih := oneOfVariants_rel lit₀ lit₁ hctor kvs rest (fun p hp => h p (by simp [hp]))
    rw [oneOfVariants, oneOfVariants]
    cases hf : kvs.find? (·.1 == name) with
    | none => exact ih
    | some kv =>
      obtain ⟨k, v⟩ := kv
      simp only []
      apply ORel.bind (h (name, ty) (by simp) (k, v) hf); intro a b hab
      apply ORel.bind ih; intro as bs habs
      exact ORel.pure (.cons (.variant hctor (litRel_boxIfRecursive hab ty.id)) habs)

/-- `render_object_literal` in the two contexts -/
theorem objectLiteralWith_rel (lit₀ lit₁ : Value → TypeId → List Qual → Outcome LitExpr) (kvs : List (String × Value))
    (iid : Nat)
    (hctor : ∀ i, s.inputs[iid]? = some i →
      N (keywordReplace (o₀.normalization.inputName cs i.name)) (keywordReplace (o₁.normalization.inputName cs i.name)))
    (h : ∀ i, s.inputs[iid]? = some i → ∀ p ∈ i.fields, ∀ kv, kvs.find? (·.1 == p.1) = some kv → ∀ qs,
      ORel (LitRel N EV) (lit₀ kv.2 p.2.id qs) (lit₁ kv.2 p.2.id qs)) :
    ORel (LitRel N EV) (objectLiteralWith C₀ lit₀ kvs iid) (objectLiteralWith C₁ lit₁ kvs iid) := by
  unfold objectLiteralWith
  cases hi : s.inputs[iid]? with
  | none => simp [Schema.getInput, hi, panic', bind, Except.bind, ORel]
  | some i =>
    have hg : s.getInput iid = .ok i := by simp [Schema.getInput, hi, pure, Except.pure]
    simp only [hg, bind, Except.bind]
    split
    · have := oneOfVariants_rel (s := s) (cs := cs) (q₀ := q₀) (q₁ := q₁) (o₀ := o₀) (o₁ := o₁) lit₀ lit₁ (hctor i hi)
        kvs i.fields (fun p hp kv hkv => h i hi p hp kv hkv _)
      revert this
      generalize oneOfVariants C₀ lit₀ _ kvs i.fields = r₀
      generalize oneOfVariants C₁ lit₁ _ kvs i.fields = r₁
      intro hr
      cases r₀ <;> cases r₁ <;> simp only [ORel] at hr
      · subst hr; exact rfl
      · rename_i vs vs'
        cases hr with
        | nil => exact ORel.pure (.compileError _)
        | cons h1 h2 =>
          cases h2 with
          | nil => exact ORel.pure h1
          | cons _ _ => exact ORel.pure (.compileError _)
    · have := structFields_rel (s := s) (cs := cs) (q₀ := q₀) (q₁ := q₁) (o₀ := o₀) (o₁ := o₁) (N := N) (EV := EV)
        lit₀ lit₁ kvs i.fields (fun p hp kv hkv => h i hi p hp kv hkv _)
      revert this
      generalize structFields C₀ lit₀ kvs i.fields = r₀
      generalize structFields C₁ lit₁ kvs i.fields = r₁
      intro hr
      cases r₀ <;> cases r₁ <;> simp only [ORel] at hr
      · subst hr; exact rfl
      · exact ORel.pure (.struct (hctor i hi) hr)

end render

theorem U_enum_of {U : TypeId → Prop} {ty : TypeId} {k : Nat} (hU : U ty) (h : ty.asEnum? = some k) : U (.enum k) := by
  cases ty <;> simp [TypeId.asEnum?] at h
  subst h; exact hU

theorem U_input_of {U : TypeId → Prop} {ty : TypeId} {k : Nat} (hU : U ty) (h : ty.asInput? = some k) : U (.input k) := by
  cases ty <;> simp [TypeId.asInput?] at h
  subst h; exact hU

/-- **`valueToLiteral_rename`** — see the header -/
theorem valueToLiteral_rename {c₀ c₁ : Ctx} (hs : c₁.s = c₀.s) (hcs : c₁.cs = c₀.cs) {U : TypeId → Prop}
    {N : String → String → Prop} {EV : String → String → String → Prop} (F : NameFacts c₀ c₁ U N EV) :
    ∀ (fuel : Nat) (v : Value) (ty : TypeId) (quals : List Qual), U ty → enumOk c₀.s ty v = true →
      ORel (LitRel N EV) (valueToLiteral c₀ fuel v ty quals) (valueToLiteral c₁ fuel v ty quals) := by
  obtain ⟨s0, q₀, o₀, cs0⟩ := c₀
  obtain ⟨s, q₁, o₁, cs⟩ := c₁
  simp only at hs hcs
  subst hs hcs
  intro fuel
  induction fuel with
  | zero =>
    intro v ty quals _ _
    unfold valueToLiteral
    split
    · exact ORel.pure .none
    · rw [literalInner_zero, literalInner_zero]; exact rfl
  | succ fuel ih =>
    intro v ty quals hU hok
    cases hc : ((stripRequired quals).1 && valueIsNull v)
    case true =>
      unfold valueToLiteral
      simp only [hc, ↓reduceIte]
      exact ORel.pure .none
    case false =>
    rw [valueToLiteral_of_not_null _ _ v ty quals hc, valueToLiteral_of_not_null _ _ v ty quals hc]
    refine orel_map ?_ (fun a b hab => litRel_optWrap _ hab)
    by_cases hl : ∃ xs, v = .list xs
    · obtain ⟨xs, rfl⟩ := hl
      rw [enumOk] at hok
      by_cases hq : ∃ rest, (stripRequired quals).2 = .list :: rest
      · obtain ⟨rest, hq⟩ := hq
        rw [hq, literalInner_list_list, literalInner_list_list]
        exact orel_map (orel_mapM_list xs (fun x hx => ih x ty rest hU (enumOkList_mem hok hx))) (fun a b hab => .vec hab)
      · rw [literalInner_list_other _ fuel xs ty _ (fun rest h => hq ⟨rest, h⟩),
          literalInner_list_other _ fuel xs ty _ (fun rest h => hq ⟨rest, h⟩)]
        exact orel_map (orel_mapM_list xs (fun x hx => ih x ty [] hU (enumOkList_mem hok hx))) (fun a b hab => .vec hab)
    · rw [literalInner_single _ fuel v ty _ (fun xs h => hl ⟨xs, h⟩),
        literalInner_single _ fuel v ty _ (fun xs h => hl ⟨xs, h⟩)]
      refine orel_map ?_ (fun a b hab => litRel_singleInner hab _)
      unfold scalarToLiteral scalarToLiteralWith
      have hsn : scalarNameOf (Ctx.mk s q₁ o₁ cs) ty = scalarNameOf (Ctx.mk s q₀ o₀ cs) ty := rfl
      rw [hsn]
      cases hn : scalarNameOf (Ctx.mk s q₀ o₀ cs) ty with
      | error err => exact rfl
      | ok sn =>
        simp only [bind, Except.bind]
        cases v with
        | list xs => exact absurd ⟨xs, rfl⟩ hl
        | bool b => exact ORel.pure (.bool b)
        | str t => exact ORel.pure (.str t)
        | var n => exact rfl
        | null => exact rfl
        | float t => exact ORel.pure (.float t)
        | int n =>
          simp only []
          split
          · exact ORel.pure (.float _)
          · split
            · exact ORel.pure (.str _)
            · exact ORel.pure (.int _)
        | «enum» en =>
          simp only []
          cases hk : ty.asEnum? with
          | none => exact ORel.pure (.ident en)
          | some k =>
            simp only []
            cases hg : s.getEnum k with
            | error err => exact rfl
            | ok e =>
              have he : s.enums[k]? = some e := C02.getEnum_ok hg
              have hUk := U_enum_of hU hk
              have hmem : en ∈ e.variants := by
                rw [enumOk] at hok
                simpa [hk, he] using hok
              obtain ⟨h1, h2⟩ := F.enums k e hUk he
              exact ORel.pure (.path h1 (h2 en hmem))
        | obj kvs =>
          simp only []
          cases hk : ty.asInput? with
          | none => exact ORel.pure (.compileError _)
          | some iid =>
            simp only []
            have hUk := U_input_of hU hk
            unfold objectLiteral
            refine objectLiteralWith_rel _ _ kvs iid (fun i hi => F.inputs iid i hUk hi) ?_
            intro i hi p hp kv hkv qs
            obtain ⟨hnd, hcl⟩ := F.closed iid i hUk hi
            refine ih kv.2 p.2.id qs (hcl p hp) ?_
            have hid : ty = .input iid := by
              cases ty <;> simp [TypeId.asInput?] at hk
              subst hk; rfl
            subst hid
            rw [enumOk] at hok
            simp only [inputOf, hi] at hok
            exact enumOkKvs_find hnd hp hok hkv

/-- **without any hypothesis on the default**: the two renderers succeed together and fail with the same error
    (both forget to `literalOk`, which does not read the normalization) -/
theorem valueToLiteral_fail_alike {c₀ c₁ : Ctx} (hs : c₁.s = c₀.s) (hr : IdsInRange c₀.s) (fuel : Nat) (v : Value)
    (ty : TypeId) (quals : List Qual) (hty : idInRange c₀.s ty = true) :
    forget (valueToLiteral c₀ fuel v ty quals) = forget (valueToLiteral c₁ fuel v ty quals) := by
  rw [valueToLiteral_literalOk c₀ hr fuel v ty quals hty,
    valueToLiteral_literalOk c₁ (hs ▸ hr) fuel v ty quals (hs ▸ hty), hs]

end C04DR
end GqlVerif
