import GqlVerif.Props.C15
/-!
# C15 — presence is information: empty containers in the envelope are not "nothing"

Corollaries of `error_roundtrip` / `response_roundtrip` for the shapes a "tidy-up" of the serializer most
easily loses (seeded change C15-I: `skip_serializing_if` that also skips an EMPTY extensions map):
an `Error` whose `extensions` is the empty object, whose `path` or `locations` is the empty array, and a
`Response` whose `errors` is the empty array or whose `extensions` is the empty object, all read back
as themselves and therefore never as the value with the member absent.  Injectivity of serialization
on well-formed values is stated once (`serError_injective`), the instances follow.
-/
namespace GqlVerif
namespace C15
open Envelope

/-- serialization of well-formed `Error` values is injective (it has a left inverse) -/
theorem serError_injective (e1 e2 : Error) (h1 : e1.wf = true) (h2 : e2.wf = true)
    (h : serError e1 = serError e2) : e1 = e2 := by
  have r1 := error_roundtrip e1 h1
  have r2 := error_roundtrip e2 h2
  rw [h, r2] at r1
  exact (Option.some.inj r1).symm

/-- serialization of well-formed `Response` values over JSON-object data is injective -/
theorem serResponse_injective (r1 r2 : Response JMap) (h1 : r1.wf distinctKeys = true)
    (h2 : r2.wf distinctKeys = true)
    (h : serResponseObj r1 = serResponseObj r2) : r1 = r2 := by
  have a := response_roundtrip r1 h1
  have b := response_roundtrip r2 h2
  rw [h, b] at a
  exact (Option.some.inj a).symm

/-- `"extensions": {}` on an error is preserved, and is not the same body as an absent member -/
theorem empty_error_extensions_preserved (msg : String) :
    deError (serError { message := msg, locations := none, path := none, extensions := some [] }) =
      some { message := msg, locations := none, path := none, extensions := some [] } ∧
    serError { message := msg, locations := none, path := none, extensions := some [] } ≠
      serError { message := msg, locations := none, path := none, extensions := none } := by
  refine ⟨error_roundtrip _ (by simp [Error.wf, optAll, distinctKeys]), ?_⟩
  intro h
  have := serError_injective _ _ (by simp [Error.wf, optAll, distinctKeys]) (by simp [Error.wf, optAll]) h
  simp at this

/-- `"path": []` and `"locations": []` on an error are preserved -/
theorem empty_error_lists_preserved (msg : String) :
    deError (serError { message := msg, locations := some [], path := some [], extensions := none }) =
      some { message := msg, locations := some [], path := some [], extensions := none } :=
  error_roundtrip _ (by simp [Error.wf, optAll])

/-- `"errors": []` and `"extensions": {}` on a response are preserved -/
theorem empty_response_members_preserved (d : JMap) (hd : distinctKeys d = true) :
    deResponseObj (serResponseObj { data := some d, errors := some [], extensions := some [] }) =
      some { data := some d, errors := some [], extensions := some [] } :=
  response_roundtrip _ (by simp [Response.wf, optAll, distinctKeys, hd])

end C15
end GqlVerif
