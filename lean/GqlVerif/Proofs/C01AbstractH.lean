import GqlVerif.Proofs.C01AbstractG
/-!
# C01 / C03 end to end, step 2 (`FragmentOp`), part C: top level over `Codegen.responseForQuery`

* `depthF_sels` — fuel: the depth of the selection tree *through spreads* is below the number of items of the
  module (the response items plus the items of the spread fragments);
* `envSelF_of` / `fragEnv_of` / `topEnvF_of_module` — the environment hypotheses hold for the module
  `responseForQuery` emits (the struct of every spread fragment is in the module: `FragsIn`, from
  `C02.selected_types_used` and `fragment_struct_shape`);
* **`fragment_accepts`**: `conformsOpF c op j → ∃ v, Serde.de (moduleEnv c items) ResponseData j = .ok v`, where
  `conformsOpF` is the specification `conformsV` on the selection set with every spread replaced by the inline
  fragment `... on T { body }` (`expandSels`);
* **`fragment_precise_iff` / `fragment_precise`** (C03): `Serde.de … j` succeeds **iff**
  `conformsLooseF c.s c.q c.o false op.sels j`.
* `fragment_overlap_loses_key` — the side condition `fragKeysOk` (keys disjoint between a fragment and its siblings)
  is needed (witness on the model, same mechanism as the known finding `C01-overlap`).

Hypotheses (decidable, evaluated on a concrete module at the end): `FragmentOp c op`, `fragKeysOk c op`,
`moduleOk c items`.  `variantOp_of_treeOp`, `fragmentOp_of_variantOp`: the classes are nested
(`TreeOp ⊆ VariantOp ⊆ FragmentOp`).

Losslessness for `FragmentOp` (`fragment_lossless`) is in `C01AbstractI`.  Out of scope: recursive fragments
(`Box`), spreads inside abstract positions / inline fragments, spreads inside fragment bodies, spreads of
fragments on a *different* type than the parent (they become variants).
-/
set_option linter.unusedSimpArgs false
set_option linter.unusedVariables false
set_option linter.unusedSectionVars false
set_option linter.unnecessarySimpa false
namespace GqlVerif
namespace C01
namespace E2E
open Serde Spec C13 C03 Codegen

/-! ## fuel: depth (through spreads) vs. number of emitted items -/

mutual
  /-- the fragments spread anywhere in an object-level selection tree of the class -/
  def spreadIds : Sel → List Nat
    | .field _ _ sub => spreadIdss sub
    | .inline _ sub => spreadIdss sub
    | .spread g => [g]
    | .typename => []
  def spreadIdss : List Sel → List Nat
    | [] => []
    | x :: xs => spreadIds x ++ spreadIdss xs
end

mutual
  theorem reach_spreadIds (q : Query) : ∀ (x : Sel) (root : List Sel), C02.Reach q root x →
      ∀ g ∈ spreadIds x, C02.Reach q root (.spread g)
    | .field a fid sub, root => by
      intro hr g hg
      rw [spreadIds] at hg
      exact reach_spreadIdss q sub root (fun y hy => reach_step hr hy) g hg
    | .inline t sub, root => by
      intro hr g hg
      rw [spreadIds] at hg
      exact reach_spreadIdss q sub root (fun y hy => reach_step_inline hr hy) g hg
    | .spread g', root => by
      intro hr g hg
      simp only [spreadIds, List.mem_singleton] at hg
      subst hg; exact hr
    | .typename, root => by intro _ g hg; simp [spreadIds] at hg
  theorem reach_spreadIdss (q : Query) : ∀ (sels : List Sel) (root : List Sel), (∀ y ∈ sels, C02.Reach q root y) →
      ∀ g ∈ spreadIdss sels, C02.Reach q root (.spread g)
    | [], _ => by intro _ g hg; simp [spreadIdss] at hg
    | x :: xs, root => by
      intro hr g hg
      rw [spreadIdss, List.mem_append] at hg
      rcases hg with hg | hg
      · exact reach_spreadIds q x root (hr x (by simp)) g hg
      · exact reach_spreadIdss q xs root (fun y hy => hr y (by simp [hy])) g hg
end

mutual
  theorem spreadIds_noSpread : ∀ (x : Sel), noSpread x = true → spreadIds x = []
    | .field a fid sub => by intro h; rw [noSpread] at h; rw [spreadIds, spreadIdss_noSpreads sub h]
    | .inline t sub => by intro h; rw [noSpread] at h; rw [spreadIds, spreadIdss_noSpreads sub h]
    | .spread g => by intro h; simp [noSpread] at h
    | .typename => by intro _; rfl
  theorem spreadIdss_noSpreads : ∀ (sels : List Sel), noSpreads sels = true → spreadIdss sels = []
    | [] => by intro _; rfl
    | x :: xs => by
      intro h
      rw [noSpreads, Bool.and_eq_true] at h
      rw [spreadIdss, spreadIds_noSpread x h.1, spreadIdss_noSpreads xs h.2]; rfl
end

mutual
  /-- every spread of the tree is on its (object) parent and satisfies `fragOk` -/
  theorem fragOk_of_spreadIds (s : Schema) (q : Query) (o : Options) : ∀ (x : Sel) (p : Nat),
      fSel s q o (.object p) x = true → ∀ g ∈ spreadIds x, ∃ i, fragOk s q o (.object i) g = true
    | .field a fid sub, p => by
      intro ht g hg
      have IH := fragOk_of_spreadIdss s q o sub
      rw [spreadIds] at hg
      cases hsf : s.fields[fid]? with
      | none => rw [fSel] at ht; simp [hsf] at ht
      | some sf =>
        by_cases hobj : ∃ i, sf.ty.id = .object i
        · obtain ⟨i, hid⟩ := hobj
          rw [fSel] at ht
          simp only [hsf, hid, Bool.and_eq_true] at ht
          have hbody : fBody s q o (.object i) sub = true := ht.2.2
          by_cases hsp : ∃ g', sub = [Sel.spread g']
          · obtain ⟨g', rfl⟩ := hsp
            simp only [spreadIdss, spreadIds, List.append_nil, List.mem_singleton] at hg
            subst hg
            exact ⟨i, hbody⟩
          · rw [fBody_not_lone (fun g' hg' => hsp ⟨g', hg'⟩)] at hbody
            exact IH i hbody g hg
        · have hv := vSel_of_fSel_nonobj ht hsf (fun i h => hobj ⟨i, h⟩)
          have := spreadIds_noSpread _ (noSpread_of_vSel s o _ false hv)
          rw [spreadIds] at this
          rw [this] at hg; simp at hg
    | .spread g', p => by
      intro ht g hg
      simp only [spreadIds, List.mem_singleton] at hg
      subst hg
      exact ⟨p, by simpa [fSel] using ht⟩
    | .inline _ _, _ => by intro ht; simp [fSel] at ht
    | .typename, _ => by intro _ g hg; simp [spreadIds] at hg
  theorem fragOk_of_spreadIdss (s : Schema) (q : Query) (o : Options) : ∀ (sels : List Sel) (p : Nat),
      fSels s q o (.object p) sels = true → ∀ g ∈ spreadIdss sels, ∃ i, fragOk s q o (.object i) g = true
    | [], _ => by intro _ g hg; simp [spreadIdss] at hg
    | x :: xs, p => by
      intro ht g hg
      obtain ⟨hx, hxs⟩ := fSels_cons ht
      rw [spreadIdss, List.mem_append] at hg
      rcases hg with hg | hg
      · exact fragOk_of_spreadIds s q o x p hx g hg
      · exact fragOk_of_spreadIdss s q o xs p hxs g hg
end

theorem mem_itemsFs {c : Ctx} {pfx : String} {it : Item} : ∀ {sels : List Sel} {x : Sel}, x ∈ sels →
    it ∈ itemsF c pfx x → it ∈ itemsFs c pfx sels
  | [], _, h, _ => by simp at h
  | y :: ys, x, h, hit => by
    rw [itemsFs, List.mem_append]
    rcases List.mem_cons.mp h with rfl | h'
    · exact .inl hit
    · exact .inr (mem_itemsFs h' hit)

theorem itemsF_abs_length (c : Ctx) (pfx : String) (a : Option String) (fid : Nat) (sub : List Sel) (sf : StoredField)
    (hsf : c.s.fields[fid]? = some sf) (hno : ∀ i, sf.ty.id ≠ .object i) :
    itemsF c pfx (.field a fid sub) = itemsV c pfx (.field a fid sub) := by
  rw [itemsF, itemsV]
  simp only [hsf]
  cases hid : sf.ty.id <;> first | rfl | exact absurd hid (hno _)

mutual
  theorem depthF_sel (c : Ctx) (K : Nat) : ∀ (x : Sel) (pfx : String) (p : TypeId), fSel c.s c.q c.o p x = true →
      (∀ g ∈ spreadIds x, selsDepth (fragSels c.q g) ≤ K) → depthF c.q x ≤ (itemsF c pfx x).length + K + 1
    | .field a fid sub, pfx, p => by
      intro ht hK
      have IH := depthF_sels c K sub
      obtain ⟨sf, ft, hsf, _, _, _⟩ := fieldOfSelV_f c pfx p a fid sub ht
      rw [spreadIds] at hK
      by_cases hobj : ∃ i, sf.ty.id = .object i
      · obtain ⟨i, hid⟩ := hobj
        rw [fSel] at ht
        simp only [hsf, hid, Bool.and_eq_true] at ht
        rw [depthF, itemsF]
        simp only [hsf, hid]
        by_cases hsp : ∃ g, sub = [Sel.spread g]
        · obtain ⟨g, rfl⟩ := hsp
          have := hK g (by simp [spreadIdss, spreadIds])
          simp only [depthsF, depthF, List.length_cons, List.length_nil]
          omega
        · have hnl : ∀ g, sub ≠ [Sel.spread g] := fun g hg => hsp ⟨g, hg⟩
          have hbody : fBody c.s c.q c.o (.object i) sub = true := ht.2.2
          rw [fBody_not_lone hnl] at hbody
          have := IH (pfx ++ c.cs.camel (a.getD sf.name)) (.object i) hbody hK
          split
          · exact absurd rfl (hnl _)
          · simp only [List.length_cons]; omega
      · have hno : ∀ i, sf.ty.id ≠ .object i := fun i h => hobj ⟨i, h⟩
        have hv := vSel_of_fSel_nonobj ht hsf hno
        rw [itemsF_abs_length c pfx a fid sub sf hsf hno, depthF_noSpread c.q _ (noSpread_of_vSel c.s c.o _ false hv)]
        have := depthV_sel c _ pfx false hv
        simp only [allItems] at this
        omega
    | .spread g, pfx, p => by
      intro _ hK
      have := hK g (by simp [spreadIds])
      rw [depthF]; omega
    | .inline t sub, _, _ => by intro ht; simp [fSel] at ht
    | .typename, _, _ => by intro _ _; simp [depthF]
  theorem depthF_sels (c : Ctx) (K : Nat) : ∀ (sels : List Sel) (pfx : String) (p : TypeId),
      fSels c.s c.q c.o p sels = true → (∀ g ∈ spreadIdss sels, selsDepth (fragSels c.q g) ≤ K) →
      depthsF c.q sels ≤ (itemsFs c pfx sels).length + K + 1
    | [], _, _ => by intro _ _; simp [depthsF]
    | x :: xs, pfx, p => by
      intro ht hK
      obtain ⟨hx, hxs⟩ := fSels_cons ht
      rw [spreadIdss] at hK
      have h1 := depthF_sel c K x pfx p hx (fun g hg => hK g (by simp [hg]))
      have h2 := depthF_sels c K xs pfx p hxs (fun g hg => hK g (by simp [hg]))
      rw [depthsF, itemsFs, List.length_append]
      omega
end


/-! ## the environment of an emitted module -/

theorem reach_step_spread {q : Query} {sels : List Sel} {g : Nat} {f : RFragment} {y : Sel}
    (h : C02.Reach q sels (.spread g)) (hf : q.fragments[g]? = some f) (hy : y ∈ f.sels) : C02.Reach q sels y := by
  generalize hx : Sel.spread g = x at h
  induction h with
  | here hm => subst hx; exact .spread hm hf (.here hy)
  | field hm _ ih => exact .field hm (ih hx)
  | inline hm _ ih => exact .inline hm (ih hx)
  | spread hm hf' _ ih => exact .spread hm hf' (ih hx)

/-- the items of every fragment spread in the operation are in the module -/
def FragsIn (c : Ctx) (items : List Item) (root : List Sel) : Prop :=
  ∀ g i, C02.Reach c.q root (.spread g) → fragOk c.s c.q c.o (.object i) g = true → ∀ f, c.q.fragments[g]? = some f →
    ∀ it ∈ structItemsV c f.name (c.cs.camel f.name) f.sels, it ∈ items

section EnvOfF
variable {c : Ctx} {items : List Item} {u : UsedTypes} {root : List Sel} (M : ModFacts c items u root)
  (hfr : FragsIn c items root)
include M hfr

theorem fragEnv_of (g : Nat) (i : Nat) (hr : C02.Reach c.q root (.spread g))
    (hok : fragOk c.s c.q c.o (.object i) g = true) : FragEnv (moduleEnv c items) c g := by
  obtain ⟨f, hf, _, _, hv, _⟩ := fragOk_parts hok
  unfold FragEnv
  rw [hf]
  have hin := hfr g i hr hok f hf
  refine ⟨structEnv_of M _ _ (hin _ (by simp [structItemsV])), ?_⟩
  exact envSelsV_of M f.sels _ false hv
    (fun x hx it h => hin it (by
      rw [allItems_obj (vSels_mem hv _ hx)] at h
      simp [structItemsV, mem_itemsVs hx h]))
    (fun x hx => reach_step_spread hr hf hx)

theorem aliasEnv_of (name target : String) (hmem : aliasItem name target false ∈ items) :
    AliasEnv (moduleEnv c items) name target := by
  have hn : (aliasItem name target false).name = name := rfl
  have h1 := M.np _ hmem
  have h2 := find_of_mem (customExterns c) M.nodup hmem
  rw [hn] at h1 h2
  refine ⟨h1, ?_, name, true, h2⟩
  have := name_ne_ID M hmem (by intro t h; simp [aliasItem] at h)
  rwa [hn] at this

mutual
  theorem envSelF_of : ∀ (x : Sel) (pfx : String) (p : Nat), fSel c.s c.q c.o (.object p) x = true →
      (∀ it ∈ itemsF c pfx x, it ∈ items) → C02.Reach c.q root x → envSelF (moduleEnv c items) c pfx x
    | .field a fid sub, pfx, p => by
      intro ht hit hr
      have IH := envSelsF_of sub
      obtain ⟨sf, ft, hsf, _, _, _⟩ := fieldOfSelV_f c pfx (.object p) a fid sub ht
      by_cases hobj : ∃ i, sf.ty.id = .object i
      · obtain ⟨i, hid⟩ := hobj
        rw [fSel] at ht
        simp only [hsf, hid, Bool.and_eq_true] at ht
        rw [itemsF] at hit
        rw [envSelF]
        simp only [hsf, hid] at hit ⊢
        by_cases hsp : ∃ g, sub = [Sel.spread g]
        · obtain ⟨g, rfl⟩ := hsp
          simp only at hit ⊢
          have hok : fragOk c.s c.q c.o (.object i) g = true := ht.2.2
          exact ⟨aliasEnv_of M hfr _ _ (hit _ (by simp)),
            fragEnv_of M hfr g i (reach_step hr (by simp)) hok⟩
        · have hnl : ∀ g, sub ≠ [Sel.spread g] := fun g hg => hsp ⟨g, hg⟩
          have hbody : fBody c.s c.q c.o (.object i) sub = true := ht.2.2
          rw [fBody_not_lone hnl] at hbody
          have hit' : ∀ it ∈ (Item.struct (pfx ++ c.cs.camel (a.getD sf.name)) c.respDerives c.serdeCrate
              (fieldsOfF c (pfx ++ c.cs.camel (a.getD sf.name)) sub) ::
              itemsFs c (pfx ++ c.cs.camel (a.getD sf.name)) sub), it ∈ items := by
            revert hit
            split
            · exact absurd rfl (hnl _)
            · exact id
          split
          · exact absurd rfl (hnl _)
          · exact ⟨structEnv_of M _ _ (hit' _ (by simp)),
              IH _ i hbody (fun x hx it h => hit' it (by simp [mem_itemsFs hx h]))
                (fun y hy => reach_step hr hy)⟩
      · have hno : ∀ i, sf.ty.id ≠ .object i := fun i h => hobj ⟨i, h⟩
        have hv := vSel_of_fSel_nonobj ht hsf hno
        rw [itemsF_abs_length c pfx a fid sub sf hsf hno] at hit
        have := envSelV_of M _ pfx false hv (by simpa [allItems] using hit) hr
        rw [envSelF]
        simp only [hsf]
        cases hid : sf.ty.id with
        | object i => exact absurd hid (hno i)
        | scalar k => simpa [hid] using this
        | «enum» k => simpa [hid] using this
        | interface k => simpa [hid] using this
        | union k => simpa [hid] using this
        | input k => simpa [hid] using this
    | .spread g, pfx, p => by
      intro ht _ hr
      have hok : fragOk c.s c.q c.o (.object p) g = true := by simpa [fSel] using ht
      rw [envSelF]
      exact fragEnv_of M hfr g p hr hok
    | .inline _ _, _, _ => by intro ht; simp [fSel] at ht
    | .typename, _, _ => by intro _ _ _; simp [envSelF]
  theorem envSelsF_of : ∀ (sels : List Sel) (pfx : String) (p : Nat), fSels c.s c.q c.o (.object p) sels = true →
      (∀ x ∈ sels, ∀ it ∈ itemsF c pfx x, it ∈ items) → (∀ x ∈ sels, C02.Reach c.q root x) →
      envSelsF (moduleEnv c items) c pfx sels
    | [], _, _ => by intro _ _ _; simp [envSelsF]
    | x :: xs, pfx, p => by
      intro ht hit hr
      obtain ⟨hx, hxs⟩ := fSels_cons ht
      rw [envSelsF]
      exact ⟨envSelF_of x pfx p hx (hit x (by simp)) (hr x (by simp)),
        envSelsF_of xs pfx p hxs (fun y hy => hit y (by simp [hy])) (fun y hy => hr y (by simp [hy]))⟩
end

end EnvOfF


/-! ## top level -/

/-- keys disjoint between every fragment and its siblings, at every level (decidable) -/
def fragKeysOk (c : Ctx) (op : ROperation) : Bool :=
  keysOksF c.s c.q op.sels && EnumSpec.nodup (expKeys c.s c.q op.sels)

structure TopEnvF (e : Env) (c : Ctx) (op : ROperation) : Prop where
  root : BodyEnv e c "ResponseData" (c.cs.camel op.name) op.sels
  size : depthsF c.q op.sels ≤ e.items.length

/-- **`ResponseData` accepts exactly `conformsLooseF … false`** (generic environment) -/
theorem top_accepts_iffF (e : Env) (c : Ctx) (op : ROperation) (ht : FragmentOp c op = true)
    (hk : fragKeysOk c op = true) (he : TopEnvF e c op) (j : Json) :
    okB (Serde.de e (.path "ResponseData") j) = conformsLooseF c.s c.q c.o false op.sels j := by
  obtain ⟨_, _, hsels⟩ := fragmentOp_parts ht
  simp only [fragKeysOk, Bool.and_eq_true] at hk
  rw [de_top]
  refine bodyF_accepts_iff e c _ _ _ op.sels hsels he.root hk.1 hk.2 false _ ?_ j
  have h1 := he.size
  unfold deFuel
  have hj := jsonSize_pos j
  have h2 : 3 * (e.items.length + e.externs.length + 2) ≤
      (jsonSize j + 2) * (e.items.length + e.externs.length + 2) := Nat.mul_le_mul_right _ (by omega)
  omega

theorem length_le_flatten {α} {l : List α} {L : List (List α)} (h : l ∈ L) : l.length ≤ L.flatten.length := by
  induction L with
  | nil => simp at h
  | cons x xs ih =>
    rw [List.flatten_cons, List.length_append]
    rcases List.mem_cons.mp h with rfl | h'
    · omega
    · have := ih h'; omega

theorem responseForQuery_parts_full {c : Ctx} {op : Nat} {items : List Item} (h : responseForQuery c op = .ok items) :
    ∃ u S E F I V o R, allUsedTypes c.s c.q op = .ok u ∧ scalarItems c u = .ok S ∧ enumItems c u = .ok E ∧
      (sortNat u.fragments).mapM (fragmentItems c) = .ok F ∧
      c.q.operations[op]? = some o ∧ responseItems c o = .ok R ∧
      items = builtinAliases ++ S ++ E ++ I ++ V ++ F.flatten ++ R := by
  unfold responseForQuery at h
  obtain ⟨u, hu, h⟩ := C02.bind_ok h
  obtain ⟨S, hS, h⟩ := C02.bind_ok h
  obtain ⟨E, hE, h⟩ := C02.bind_ok h
  obtain ⟨F, hF, h⟩ := C02.bind_ok h
  obtain ⟨I, hI, h⟩ := C02.bind_ok h
  obtain ⟨V, hV, h⟩ := C02.bind_ok h
  obtain ⟨o, ho, h⟩ := C02.bind_ok h
  obtain ⟨R, hR, h⟩ := C02.bind_ok h
  simp only [pure, Except.pure, Except.ok.injEq] at h
  exact ⟨u, S, E, F, I, V, o, R, hu, hS, hE, hF, C02.getOperation_ok ho, hR, h.symm⟩

theorem topEnvF_of_module {c : Ctx} {opIdx : Nat} {op : ROperation} {items : List Item}
    (hop : c.q.operations[opIdx]? = some op) (ht : FragmentOp c op = true)
    (hgen : responseForQuery c opIdx = .ok items) (hok : moduleOk c items = true) :
    TopEnvF (moduleEnv c items) c op := by
  obtain ⟨u, S, E, F, I, V, o, resp, hu, hS, hE, hF, ho, hresp, hitems⟩ := responseForQuery_parts_full hgen
  rw [hop] at ho; cases ho
  obtain ⟨hn, _, hsels⟩ := fragmentOp_parts ht
  rw [fragment_items_shape c op (List.mem_of_getElem? hop) ht] at hresp
  cases hresp
  simp only [moduleOk, Bool.and_eq_true, List.all_eq_true, decide_eq_true_eq, List.isEmpty_iff] at hok
  obtain ⟨⟨⟨⟨hnd, hnp⟩, hext⟩, htab⟩, hnoext⟩ := hok
  have hsub : ∀ it ∈ bodyItemsF c "ResponseData" (c.cs.camel op.name) op.sels, it ∈ items := by
    intro it h; rw [hitems]; simp [h]
  have M : ModFacts c items u op.sels := {
    hn := hn
    nodup := nodup_iff'.mp hnd
    np := hnp
    ext := fun x hx => ⟨(hext x hx).1, fun it hit => by simpa using (hext x hx).2 it hit⟩
    tables := fun n d sp vs ser de hm => by simpa using htab _ hm
    builtin := fun it h => by rw [hitems]; simp [h]
    scalars := fun k n hk hn' hnd' => by
      have := scalarItems_mem hS hk hn' hnd'
      simp only [hn, Normalization.scalarName, Normalization.camelCase] at this
      rw [hitems]; simp [this]
    enums := fun k en hk hen => by
      have := enumItems_mem hE hk hen (by simp [hnoext])
      rw [hitems]; simp [this]
    used := C02.selected_types_used c.s c.q opIdx u hu op hop }
  -- the items of every spread fragment are in the module
  have hfragmem : ∀ g i, C02.Reach c.q op.sels (.spread g) → fragOk c.s c.q c.o (.object i) g = true →
      ∀ f, c.q.fragments[g]? = some f → structItemsV c f.name (c.cs.camel f.name) f.sels ∈ F := by
    intro g i hr hokg f hf
    have hused : g ∈ u.fragments := M.used _ hr
    obtain ⟨its, hits, hfi⟩ := C02.mapM_ok_of_mem hF g ((C02.mem_sortNat _ _).mpr hused)
    obtain ⟨f', hf', hshape⟩ := fragment_struct_shape c hn (.object i) g i rfl hokg
    rw [hf] at hf'; cases hf'
    rw [hshape] at hfi; cases hfi
    exact hits
  have hfr : FragsIn c items op.sels := by
    intro g i hr hokg f hf it hit
    rw [hitems]
    have : it ∈ F.flatten := List.mem_flatten.mpr ⟨_, hfragmem g i hr hokg f hf, hit⟩
    simp [this]
  have hK : ∀ g i, C02.Reach c.q op.sels (.spread g) → fragOk c.s c.q c.o (.object i) g = true →
      selsDepth (fragSels c.q g) ≤ F.flatten.length := by
    intro g i hr hokg
    obtain ⟨f, hf, _, _, hv, _⟩ := fragOk_parts hokg
    have h1 := length_le_flatten (hfragmem g i hr hokg f hf)
    have h2 := (depthV_sels c f.sels (c.cs.camel f.name) false hv).1 rfl
    have : fragSels c.q g = f.sels := by simp [fragSels, hf]
    rw [this]
    simp only [structItemsV, List.length_cons] at h1
    omega
  by_cases hsp : ∃ g, op.sels = [Sel.spread g]
  · obtain ⟨g, hg⟩ := hsp
    have hokg : fragOk c.s c.q c.o (.object op.objectId) g = true := by rw [hg] at hsels; exact hsels
    have hr : C02.Reach c.q op.sels (.spread g) := .here (by rw [hg]; simp)
    refine ⟨?_, ?_⟩
    · unfold BodyEnv
      rw [hg]
      simp only
      refine ⟨aliasEnv_of M hfr _ _ (hsub _ (by rw [hg]; simp [bodyItemsF])), fragEnv_of M hfr g _ hr hokg⟩
    · have := hK g _ hr hokg
      have h4 : builtinAliases.length = 4 := rfl
      rw [hg]
      simp only [depthsF, depthF, hitems, moduleEnv, List.length_append]
      omega
  · have hnl : ∀ g, op.sels ≠ [Sel.spread g] := fun g hg => hsp ⟨g, hg⟩
    have hsels' := hsels
    rw [fBody_not_lone hnl] at hsels'
    have hbody := bodyItemsF_not_lone c "ResponseData" (c.cs.camel op.name) hnl
    rw [hbody] at hsub
    refine ⟨?_, ?_⟩
    · unfold BodyEnv
      split
      · exact absurd (by assumption) (hnl _)
      · exact ⟨structEnv_of M _ _ (hsub _ (by simp)),
          envSelsF_of M hfr op.sels _ op.objectId hsels' (fun x hx it h => hsub it (by simp [mem_itemsFs hx h]))
            (fun x hx => .here hx)⟩
    · have hd := depthF_sels c F.flatten.length op.sels (c.cs.camel op.name) _ hsels' (by
        intro g hg
        have hr := reach_spreadIdss c.q op.sels op.sels (fun y hy => .here hy) g hg
        obtain ⟨i, hokg⟩ := fragOk_of_spreadIdss c.s c.q c.o op.sels _ hsels' g hg
        exact hK g i hr hokg)
      rw [hitems, hbody]
      simp only [moduleEnv, List.length_append, List.length_cons]
      omega


/-- a response conforms to the operation: the response object of the root selection set, every spread read as
    the inline fragment `... on T { body }` (GraphQL §6.4.3), executed on the root object type -/
def conformsOpF (c : Ctx) (op : ROperation) (j : Json) : Bool :=
  conformsV c.s op.objectId (expandSels c.q op.sels) j

/-- **`fragment_accepts`.**  Every conforming response is accepted by the emitted `ResponseData`. -/
theorem fragment_accepts (c : Ctx) (opIdx : Nat) (op : ROperation) (items : List Item)
    (hop : c.q.operations[opIdx]? = some op) (ht : FragmentOp c op = true) (hk : fragKeysOk c op = true)
    (hgen : responseForQuery c opIdx = .ok items) (hok : moduleOk c items = true)
    (j : Json) (hc : conformsOpF c op j = true) :
    ∃ v, Serde.de (moduleEnv c items) (.path "ResponseData") j = .ok v := by
  have he := topEnvF_of_module hop ht hgen hok
  have := top_accepts_iffF (moduleEnv c items) c op ht hk he j
  rw [conformsF_loose c.s c.q c.o false _ _ _ (fragmentOp_parts ht).2.2 hc] at this
  exact (okB_iff _).mp this

/-- **`fragment_precise` (C03), as an equivalence.** -/
theorem fragment_precise_iff (c : Ctx) (opIdx : Nat) (op : ROperation) (items : List Item)
    (hop : c.q.operations[opIdx]? = some op) (ht : FragmentOp c op = true) (hk : fragKeysOk c op = true)
    (hgen : responseForQuery c opIdx = .ok items) (hok : moduleOk c items = true) (j : Json) :
    okB (Serde.de (moduleEnv c items) (.path "ResponseData") j) = conformsLooseF c.s c.q c.o false op.sels j :=
  top_accepts_iffF (moduleEnv c items) c op ht hk (topEnvF_of_module hop ht hgen hok) j

theorem fragment_precise (c : Ctx) (opIdx : Nat) (op : ROperation) (items : List Item)
    (hop : c.q.operations[opIdx]? = some op) (ht : FragmentOp c op = true) (hk : fragKeysOk c op = true)
    (hgen : responseForQuery c opIdx = .ok items) (hok : moduleOk c items = true) (j : Json) (v : Val)
    (hd : Serde.de (moduleEnv c items) (.path "ResponseData") j = .ok v) :
    conformsLooseF c.s c.q c.o false op.sels j = true := by
  rw [← fragment_precise_iff c opIdx op items hop ht hk hgen hok j, hd]; rfl

/-! ## a concrete module

`fragment Basics on Human { name __typename }`, `fragment Size on Human { height }`,
`query Q { me { ...Basics friend { ...Size } ...Size } }` -/

def fxSchema : Schema :=
  { objects := [{ name := "Query", fields := [0], implements := [] },
                { name := "Human", fields := [1, 2, 3], implements := [] }]
    fields := [{ name := "me", ty := { id := .object 1, quals := [] }, parent := .object 0, deprecation := none },
               { name := "name", ty := { id := .scalar 1, quals := [.required] }, parent := .object 1, deprecation := none },
               { name := "height", ty := { id := .scalar 3, quals := [] }, parent := .object 1, deprecation := none },
               { name := "friend", ty := { id := .object 1, quals := [] }, parent := .object 1, deprecation := none }]
    scalars := ["ID", "String", "Int", "Float", "Boolean"] }

def fxOp : ROperation :=
  { name := "Q", kind := .query, objectId := 0,
    sels := [.field none 0 [.spread 0, .field none 3 [.spread 1], .spread 1]] }

def fxQuery : Query :=
  { operations := [fxOp]
    fragments := [{ name := "Basics", on := .object 1, sels := [.field none 1 [], .typename] },
                  { name := "Size", on := .object 1, sels := [.field none 2 []] }] }

def fxCtx : Ctx := { s := fxSchema, q := fxQuery, o := {}, cs := ⟨id, id⟩ }

theorem fx_fragment : FragmentOp fxCtx fxOp = true := by decide +kernel
theorem fx_keys : fragKeysOk fxCtx fxOp = true := by decide +kernel

def fxUsed : UsedTypes := { types := [.scalar 3, .scalar 1, .object 1], fragments := [1, 0] }

theorem fx_used : allUsedTypes fxSchema fxQuery 0 = .ok fxUsed := by rfl

def fxItems : List Item :=
  builtinAliases ++ [] ++ [] ++ [] ++ [.unitStruct "Variables" ["Serialize"] (some "::serde")] ++
    [structItemsV fxCtx "Basics" "Basics" [.field none 1 [], .typename],
     structItemsV fxCtx "Size" "Size" [.field none 2 []]].flatten ++
    bodyItemsF fxCtx "ResponseData" "Q" fxOp.sels

theorem fx_frags : (sortNat fxUsed.fragments).mapM (fragmentItems fxCtx) =
    .ok [structItemsV fxCtx "Basics" "Basics" [.field none 1 [], .typename],
         structItemsV fxCtx "Size" "Size" [.field none 2 []]] := by
  have h0 := fragment_struct_shape fxCtx rfl (.object 1) 0 1 rfl (by decide +kernel)
  have h1 := fragment_struct_shape fxCtx rfl (.object 1) 1 1 rfl (by decide +kernel)
  obtain ⟨f0, hf0, e0⟩ := h0
  obtain ⟨f1, hf1, e1⟩ := h1
  have : f0 = { name := "Basics", on := .object 1, sels := [.field none 1 [], .typename] } := by
    have : fxCtx.q.fragments[0]? = some { name := "Basics", on := .object 1, sels := [.field none 1 [], .typename] } := rfl
    rw [this] at hf0; exact (Option.some.inj hf0).symm
  subst this
  have : f1 = { name := "Size", on := .object 1, sels := [.field none 2 []] } := by
    have : fxCtx.q.fragments[1]? = some { name := "Size", on := .object 1, sels := [.field none 2 []] } := rfl
    rw [this] at hf1; exact (Option.some.inj hf1).symm
  subst this
  have hs : sortNat fxUsed.fragments = [0, 1] := by decide +kernel
  rw [hs]
  simp only [List.mapM_cons, List.mapM_nil, e0, e1, bind, Except.bind, pure, Except.pure]
  rfl

theorem fx_gen : responseForQuery fxCtx 0 = .ok fxItems := by
  have hresp := fragment_items_shape fxCtx fxOp (by simp [fxCtx, fxQuery]) fx_fragment
  unfold responseForQuery
  simp only [show fxCtx.s = fxSchema from rfl, show fxCtx.q = fxQuery from rfl, fx_used, bind, Except.bind]
  rw [show scalarItems fxCtx fxUsed = .ok [] from rfl, show enumItems fxCtx fxUsed = .ok [] from rfl]
  simp only [fx_frags]
  rw [show inputItems fxCtx fxUsed = .ok [] from rfl,
    show variablesItems fxCtx 0 = .ok [.unitStruct "Variables" ["Serialize"] (some "::serde")] from rfl]
  simp only []
  rw [show fxQuery.getOperation 0 = .ok fxOp from rfl]
  simp only [hresp]
  rfl

theorem fx_ok : moduleOk fxCtx fxItems = true := by decide +kernel

def fxJson : Json :=
  .obj [("me", .obj [("name", .str "Luke"), ("height", .num "1.7"), ("friend", .obj [("height", .null)]),
                     ("__typename", .str "Human")])]

theorem fx_conforms : conformsOpF fxCtx fxOp fxJson = true := by
  simp [conformsOpF, expandSels, expandSel, conformsV, confSelsV, confSelV, keysSelsV, keysSelV, fragApplies, rtName,
    fxCtx, fxSchema, fxOp, fxQuery, fxJson, Json.lookup, accepts, acceptsNN, gtyOf, scalarOk, floatOk, stringOk,
    Json.isNull, EnumSpec.nodup, List.range, List.range.loop]

/-- `fragment_accepts` on the concrete module -/
example : ∃ v, Serde.de (moduleEnv fxCtx fxItems) (.path "ResponseData") fxJson = .ok v :=
  fragment_accepts fxCtx 0 fxOp fxItems rfl fx_fragment fx_keys fx_gen fx_ok fxJson fx_conforms

theorem fx_precise (j : Json) :
    okB (Serde.de (moduleEnv fxCtx fxItems) (.path "ResponseData") j) =
      conformsLooseF fxSchema fxQuery {} false fxOp.sels j :=
  fragment_precise_iff fxCtx 0 fxOp fxItems rfl fx_fragment fx_keys fx_gen fx_ok j

macro "looseF_eval" : tactic => `(tactic|
  simp [conformsLooseF, looseOwnF, looseMemF, looseArrF, looseFieldF, conformsLooseV, looseSelsV, looseArrV,
    looseFieldV, fragSels, isSpread, fxSchema, fxOp, fxQuery, Json.lookup, accepts, acceptsNN, gtyOf, scalarOk,
    floatOk, stringOk, Json.isNull, nullableQ, countKey])

/-- rejected: the fragment's non-null `name` is missing -/
example : okB (Serde.de (moduleEnv fxCtx fxItems) (.path "ResponseData")
    (.obj [("me", .obj [("height", .null)])])) = false := by
  rw [fx_precise]; looseF_eval
/-- rejected: a wrong scalar kind inside the aliased fragment struct (`friend { ...Size }`) -/
example : okB (Serde.de (moduleEnv fxCtx fxItems) (.path "ResponseData")
    (.obj [("me", .obj [("name", .str "x"), ("friend", .obj [("height", .str "tall")])])])) = false := by
  rw [fx_precise]; looseF_eval
/-- rejected: a JSON array where the struct has flattened members (`me`) … -/
example : okB (Serde.de (moduleEnv fxCtx fxItems) (.path "ResponseData")
    (.obj [("me", .arr [.null])])) = false := by
  rw [fx_precise]; looseF_eval
/-- … but accepted at the aliased plain fragment struct (`friend`), positionally -/
example : okB (Serde.de (moduleEnv fxCtx fxItems) (.path "ResponseData")
    (.obj [("me", .obj [("name", .str "x"), ("friend", .arr [.null])])])) = true := by
  rw [fx_precise]; looseF_eval

/-- **the disjointness hypothesis `fragKeysOk` is needed**: `me { name ...Basics }` selects `name` both directly
    and through the fragment; the class side condition fails … -/
example : fragKeysOk fxCtx { fxOp with sels := [.field none 0 [.field none 1 [], .spread 0]] } = false := by
  decide +kernel

/-- … and the emitted struct `{ name: String, basics: Basics (flatten) }` rejects the conforming object: the own
    field consumed `name` before the flattened member saw the buffer (same mechanism as `C01-overlap`) -/
theorem fragment_overlap_loses_key :
    Serde.de
      { items := [.struct "Qme" [] none [{ rust := "name", ty := .path "String" },
                                        { rust := "basics", ty := .path "Basics", flatten := true }],
                  .struct "Basics" [] none [{ rust := "name", ty := .path "String" }]] }
      (.path "Qme") (.obj [("name", .str "Luke")]) = .error (.mismatch "missing field name") := by
  rfl


/-! ## the classes are nested: `TreeOp ⊆ VariantOp ⊆ FragmentOp` -/

mutual
  theorem vSel_of_treeSel (s : Schema) (o : Options) : ∀ (x : Sel) (abs : Bool), treeSel s o x = true → vSel s o abs x = true
    | .field a fid sub, abs => by
      intro h
      have IH := vSels_of_treeSels s o sub
      rw [treeSel] at h
      rw [vSel]
      cases hsf : s.fields[fid]? with
      | none => simp [hsf] at h
      | some sf =>
        simp only [hsf, Bool.and_eq_true] at h ⊢
        refine ⟨h.1, ?_⟩
        cases hid : sf.ty.id with
        | object i =>
          simp only [hid, Bool.and_eq_true] at h ⊢
          exact ⟨⟨h.2.1.1, IH false h.2.1.2⟩, h.2.2⟩
        | scalar k => simpa [hid] using h.2
        | «enum» k => simpa [hid] using h.2
        | interface k => simp [hid] at h
        | union k => simp [hid] at h
        | input k => simp [hid] at h
    | .spread _, _ => by intro h; simp [treeSel] at h
    | .inline _ _, _ => by intro h; simp [treeSel] at h
    | .typename, _ => by intro _; simp [vSel]
  theorem vSels_of_treeSels (s : Schema) (o : Options) : ∀ (sels : List Sel) (abs : Bool), treeSels s o sels = true →
      vSels s o abs sels = true
    | [], _ => by intro _; simp [vSels]
    | x :: xs, abs => by
      intro h
      obtain ⟨hx, hxs⟩ := treeSels_cons h
      rw [vSels, vSel_of_treeSel s o x abs hx, vSels_of_treeSels s o xs abs hxs]; rfl
end

theorem variantOp_of_treeOp (c : Ctx) (op : ROperation) (h : TreeOp c op = true) : VariantOp c op = true := by
  obtain ⟨h1, h2, h3, h4⟩ := treeOp_parts h
  simp only [VariantOp, Bool.and_eq_true, beq_iff_eq]
  exact ⟨⟨⟨h1, h2⟩, vSels_of_treeSels c.s c.o op.sels false h3⟩, h4⟩

mutual
  theorem fSel_of_vSel (s : Schema) (q : Query) (o : Options) : ∀ (x : Sel) (p : TypeId), vSel s o false x = true →
      fSel s q o p x = true
    | .field a fid sub, p => by
      intro h
      have IH := fSels_of_vSels s q o sub
      rw [vSel] at h
      rw [fSel]
      cases hsf : s.fields[fid]? with
      | none => simp [hsf] at h
      | some sf =>
        simp only [hsf, Bool.and_eq_true] at h ⊢
        refine ⟨h.1, ?_⟩
        cases hid : sf.ty.id with
        | object i =>
          simp only [hid, Bool.and_eq_true] at h ⊢
          refine ⟨h.2.1.1, ?_⟩
          have hns := noSpreads_of_vSels s o sub false h.2.1.2
          have hf := IH (.object i) h.2.1.2
          split
          · simp [noSpreads, noSpread] at hns
          · exact hf
        | scalar k => simpa [hid] using h.2
        | «enum» k => simpa [hid] using h.2
        | interface k => simpa [hid] using h.2
        | union k => simpa [hid] using h.2
        | input k => simp [hid] at h
    | .spread _, _ => by intro h; simp [vSel] at h
    | .inline _ _, _ => by intro h; simp [vSel] at h
    | .typename, _ => by intro _; simp [fSel]
  theorem fSels_of_vSels (s : Schema) (q : Query) (o : Options) : ∀ (sels : List Sel) (p : TypeId),
      vSels s o false sels = true → fSels s q o p sels = true
    | [], _ => by intro _; simp [fSels]
    | x :: xs, p => by
      intro h
      obtain ⟨hx, hxs⟩ := vSels_cons h
      rw [fSels, fSel_of_vSel s q o x p hx, fSels_of_vSels s q o xs p hxs]; rfl
end

theorem fragmentOp_of_variantOp (c : Ctx) (op : ROperation) (h : VariantOp c op = true) : FragmentOp c op = true := by
  obtain ⟨h1, h2, h3, _⟩ := variantOp_parts h
  simp only [FragmentOp, Bool.and_eq_true, beq_iff_eq]
  refine ⟨⟨h1, h2⟩, ?_⟩
  have hns := noSpreads_of_vSels c.s c.o op.sels false h3
  rw [fBody_not_lone (fun g hg => by rw [hg] at hns; simp [noSpreads, noSpread] at hns)]
  exact fSels_of_vSels c.s c.q c.o op.sels _ h3

end E2E
end C01
end GqlVerif
