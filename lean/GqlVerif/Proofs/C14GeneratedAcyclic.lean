import GqlVerif.Proofs.C14GeneratedDeep
import GqlVerif.Proofs.SerdeFuelCodegen
/-!
# P26 (3/4, part 3) — `EnvOK` of every module emitted for an operation of `TreeOpD`: the last hypothesis discharged

`denied_field_payload_same` carries `EnvOK (moduleEnv c items)` ("the fuel `Serde.de` passes never matters"; decidable
sufficient checks `rankCheck` / `acyclicCheck`).  For the class it is a theorem:

* `collect_frags` — the selection walk of `allUsedTypes` visits no fragment when the selections contain no spread /
  inline fragment, so the fragment part of the module is empty (`tree_no_fragment_items`);
* `plainItem` / `module_plain` — every item of the module is: one of the four built-in aliases, the alias of a custom
  scalar to its extern path, or an item that is no alias whose members (if it is a struct) are not flattened;
* **`tree_module_acyclic`** — under `moduleOk c items` (the decidable side condition of the end-to-end theorems: item
  names pairwise distinct, not Rust primitives, not extern paths …) the environment is `Acyclic` with the explicit rank
  `rankD` (alias names 2, extern paths 1, everything else 0), hence **`tree_module_envOK`** : `EnvOK ∧ EnvOKS`;
* **`denied_field_payload_same'`** — the end-to-end corollary with `TreeOpD`, `responseForQuery = .ok items` and
  `moduleOk c items` as the only hypotheses.
-/
set_option linter.unusedSimpArgs false
set_option linter.unusedSectionVars false

namespace GqlVerif
namespace C14G
open Serde Composed SerdeFuel Codegen C13 C01 C01.E2E

/-! ## no spread ⟹ no fragment visited -/

mutual
  def spreadFree : Sel → Bool
    | .field _ _ sub => spreadFrees sub
    | .typename => true
    | _ => false
  def spreadFrees : List Sel → Bool
    | [] => true
    | x :: xs => spreadFree x && spreadFrees xs
end

mutual
  theorem spreadFree_of_tree (c : Ctx) : ∀ x : Sel, treeSelD c x = true → spreadFree x = true
    | .field a fid sub => by
      intro h
      have IH := spreadFrees_of_tree c sub
      rw [treeSelD] at h
      rw [spreadFree]
      cases hsf : c.s.fields[fid]? with
      | none => simp [hsf] at h
      | some sf =>
        simp only [hsf, Bool.and_eq_true] at h
        have hty := h.2
        cases hid : sf.ty.id with
        | scalar k =>
          simp only [hid, Bool.and_eq_true, List.isEmpty_iff] at hty
          rw [hty.2]; rfl
        | enum k =>
          simp only [hid, Bool.and_eq_true, List.isEmpty_iff] at hty
          rw [hty.2]; rfl
        | object i =>
          simp only [hid, Bool.and_eq_true] at hty
          exact IH hty.1.2
        | interface k => simp [hid] at hty
        | union k => simp [hid] at hty
        | input k => simp [hid] at hty
    | .spread _ => by intro h; simp [treeSelD] at h
    | .inline _ _ => by intro h; simp [treeSelD] at h
    | .typename => by intro _; rfl
  theorem spreadFrees_of_tree (c : Ctx) : ∀ xs : List Sel, treeSelsD c xs = true → spreadFrees xs = true
    | [] => by intro _; rfl
    | x :: xs => by
      intro h
      obtain ⟨hx, hxs⟩ := treeSelsD_cons h
      rw [spreadFrees, spreadFree_of_tree c x hx, spreadFrees_of_tree c xs hxs]; rfl
end

/-- the walk over spread-free selections leaves the visited-fragments list alone -/
theorem collect_frags (s : Schema) (q : Query) : ∀ (fuel : Nat),
    (∀ (x : Sel) (u u' : UsedTypes), spreadFree x = true → collectSel s q fuel u x = .ok u' → u'.fragments = u.fragments) ∧
    (∀ (xs : List Sel) (u u' : UsedTypes), spreadFrees xs = true → xs.foldlM (collectSel s q fuel) u = .ok u' →
      u'.fragments = u.fragments) := by
  intro fuel
  induction fuel with
  | zero =>
    have h1 : ∀ (x : Sel) (u u' : UsedTypes), spreadFree x = true → collectSel s q 0 u x = .ok u' → u'.fragments = u.fragments := by
      intro x u u' _ h
      rw [collectSel] at h
      simp only [pure, Except.pure, Except.ok.injEq] at h
      rw [← h]
    refine ⟨h1, ?_⟩
    intro xs
    induction xs with
    | nil =>
      intro u u' _ h
      simp only [List.foldlM_nil, pure, Except.pure, Except.ok.injEq] at h
      rw [← h]
    | cons x xs ih =>
      intro u u' hs h
      rw [spreadFrees, Bool.and_eq_true] at hs
      rw [List.foldlM_cons] at h
      obtain ⟨u1, hu1, h⟩ := C02.bind_ok h
      rw [ih u1 u' hs.2 h, h1 x u u1 hs.1 hu1]
  | succ f ih =>
    have h1 : ∀ (x : Sel) (u u' : UsedTypes), spreadFree x = true → collectSel s q (f + 1) u x = .ok u' →
        u'.fragments = u.fragments := by
      intro x u u' hs h
      cases x with
      | field a fid sub =>
        rw [spreadFree] at hs
        rw [collectSel] at h
        obtain ⟨fld, _, h⟩ := C02.bind_ok h
        rw [ih.2 sub _ u' hs h]
        simp
      | typename =>
        rw [collectSel] at h
        simp only [pure, Except.pure, Except.ok.injEq] at h
        rw [← h]
      | spread g => simp [spreadFree] at hs
      | inline t sub => simp [spreadFree] at hs
    refine ⟨h1, ?_⟩
    intro xs
    induction xs with
    | nil =>
      intro u u' _ h
      simp only [List.foldlM_nil, pure, Except.pure, Except.ok.injEq] at h
      rw [← h]
    | cons x xs ihx =>
      intro u u' hs h
      rw [spreadFrees, Bool.and_eq_true] at hs
      rw [List.foldlM_cons] at h
      obtain ⟨u1, hu1, h⟩ := C02.bind_ok h
      rw [ihx u1 u' hs.2 h, h1 x u u1 hs.1 hu1]

/-- for an operation of the class no fragment is used -/
theorem tree_no_fragments {c : Ctx} {opIdx : Nat} {op : ROperation} {u : UsedTypes}
    (hop : c.q.operations[opIdx]? = some op) (ht : treeSelsD c op.sels = true)
    (hu : allUsedTypes c.s c.q opIdx = .ok u) : u.fragments = [] := by
  obtain ⟨o, u0, ho, hu0, hv⟩ := C02.allUsedTypes_ok hu
  rw [hop] at ho; cases ho
  have h1 := (collect_frags c.s c.q _).2 op.sels {} u0 (spreadFrees_of_tree c _ ht) hu0
  have h2 := (C02.collectVars_spec c.s _ u0 u hv).1.frags
  rw [h2, h1]

/-! ## every item of the module is "plain" -/

/-- a built-in alias, the alias of a custom scalar to its extern path, or an item that is no alias and has no
    flattened member -/
def plainItem (c : Ctx) : Item → Prop
  | .alias n _ t => Item.alias n false t ∈ builtinAliases ∨
      ∃ x ∈ customExterns c, t = .path x.1
  | .struct _ _ _ fs => ∀ f ∈ fs, f.flatten = false
  | _ => True

theorem inputItem_plain {c : Ctx} {i : StoredInput} {it : Item} (h : inputItem c i = .ok it) : plainItem c it := by
  unfold inputItem at h
  simp only [] at h
  split at h
  · obtain ⟨vs, _, h⟩ := C02.bind_ok h
    simp only [pure, Except.pure, Except.ok.injEq] at h
    subst h; trivial
  · obtain ⟨fs, hfs, h⟩ := C02.bind_ok h
    simp only [pure, Except.pure, Except.ok.injEq] at h
    subst h
    intro f hf
    obtain ⟨x, _, hx⟩ := C02.mapM_ok_mem hfs f hf
    obtain ⟨t, _, hx⟩ := C02.bind_ok hx
    simp only [pure, Except.pure, Except.ok.injEq] at hx
    subst hx; rfl

theorem variablesItems_plain {c : Ctx} {op : Nat} {V : List Item} (h : variablesItems c op = .ok V) :
    ∀ it ∈ V, plainItem c it := by
  unfold variablesItems at h
  simp only [] at h
  split at h
  · simp only [pure, Except.pure, Except.ok.injEq] at h
    subst h
    intro it hit
    simp only [List.mem_singleton] at hit
    subst hit; trivial
  · obtain ⟨fs, hfs, h⟩ := C02.bind_ok h
    obtain ⟨dfl, _, h⟩ := C02.bind_ok h
    simp only [pure, Except.pure, Except.ok.injEq] at h
    subst h
    intro it hit
    simp only [List.mem_cons, List.not_mem_nil, or_false] at hit
    rcases hit with rfl | rfl
    · intro f hf
      obtain ⟨x, _, hx⟩ := C02.mapM_ok_mem hfs f hf
      obtain ⟨t, _, hx⟩ := C02.bind_ok hx
      simp only [pure, Except.pure, Except.ok.injEq] at hx
      subst hx; rfl
    · trivial

mutual
  theorem itemsOfSelD_plain (c : Ctx) : ∀ (x : Sel) (pfx : String), ∀ it ∈ itemsOfSelD c pfx x, plainItem c it
    | .field a fid sub, pfx => by
      intro it hit
      have IH := itemsOfSelsD_plain c sub
      rw [itemsOfSelD] at hit
      cases hsf : c.s.fields[fid]? with
      | none => simp [hsf] at hit
      | some sf =>
        simp only [hsf] at hit
        cases hid : sf.ty.id with
        | object i =>
          simp only [hid, List.mem_cons] at hit
          rcases hit with rfl | hit
          · exact fun f hf => (wire_mem_keptKeys hf).2
          · exact IH _ it hit
        | scalar k => simp [hid] at hit
        | enum k => simp [hid] at hit
        | interface k => simp [hid] at hit
        | union k => simp [hid] at hit
        | input k => simp [hid] at hit
    | .spread _, _ => by intro it hit; simp [itemsOfSelD] at hit
    | .inline _ _, _ => by intro it hit; simp [itemsOfSelD] at hit
    | .typename, _ => by intro it hit; simp [itemsOfSelD] at hit
  theorem itemsOfSelsD_plain (c : Ctx) : ∀ (xs : List Sel) (pfx : String), ∀ it ∈ itemsOfSelsD c pfx xs, plainItem c it
    | [], _ => by intro it hit; simp [itemsOfSelsD] at hit
    | x :: xs, pfx => by
      intro it hit
      rw [itemsOfSelsD, List.mem_append] at hit
      rcases hit with hit | hit
      · exact itemsOfSelD_plain c x pfx it hit
      · exact itemsOfSelsD_plain c xs pfx it hit
end

/-- **every item of the module emitted for an operation of the class is plain** -/
theorem module_plain (c : Ctx) (opIdx : Nat) (op : ROperation) (items : List Item)
    (hop : c.q.operations[opIdx]? = some op) (ht : TreeOpD c op = true)
    (hgen : responseForQuery c opIdx = .ok items) : ∀ it ∈ items, plainItem c it := by
  obtain ⟨hn, hsels, _⟩ := treeOpD_parts ht
  unfold responseForQuery at hgen
  obtain ⟨u, hu, h⟩ := C02.bind_ok hgen
  obtain ⟨S, hS, h⟩ := C02.bind_ok h
  obtain ⟨E, hE, h⟩ := C02.bind_ok h
  obtain ⟨F, hF, h⟩ := C02.bind_ok h
  obtain ⟨I, hI, h⟩ := C02.bind_ok h
  obtain ⟨V, hV, h⟩ := C02.bind_ok h
  obtain ⟨o, ho, h⟩ := C02.bind_ok h
  obtain ⟨R, hR, h⟩ := C02.bind_ok h
  simp only [pure, Except.pure, Except.ok.injEq] at h
  subst h
  have ho' := C02.getOperation_ok ho
  rw [hop] at ho'; cases ho'
  rw [tree_items_shapeD c op (List.mem_of_getElem? hop) ht] at hR
  cases hR
  have hF' : F = [] := by
    rw [tree_no_fragments hop hsels hu] at hF
    simpa [sortNat, pure, Except.pure] using hF.symm
  subst hF'
  intro it hit
  simp only [List.mem_append] at hit
  rcases hit with (((((hit | hit) | hit) | hit) | hit) | hit) | hit
  · -- built-in aliases
    simp only [builtinAliases, List.mem_cons, List.not_mem_nil, or_false] at hit
    rcases hit with rfl | rfl | rfl | rfl <;> exact .inl (by simp [builtinAliases])
  · unfold scalarItems at hS
    obtain ⟨names, hnames, hS⟩ := C02.bind_ok hS
    simp only [pure, Except.pure, Except.ok.injEq] at hS
    subst hS
    obtain ⟨n, hnm, rfl⟩ := List.mem_map.mp hit
    obtain ⟨hnm1, hnm2⟩ := List.mem_filter.mp hnm
    obtain ⟨k, _, hk⟩ := C02.mapM_ok_mem hnames n hnm1
    have hk' := C02.getScalar_ok hk
    right
    refine ⟨((c.o.scalarsModule.getD "super") ++ "::" ++ n, .path "String"), ?_, ?_⟩
    · unfold customExterns
      exact List.mem_map.mpr ⟨n, List.mem_filter.mpr ⟨List.mem_of_getElem? hk', hnm2⟩, rfl⟩
    · simp [hn, Normalization.scalarName, Normalization.camelCase]
  · unfold enumItems at hE
    obtain ⟨es, _, hE⟩ := C02.bind_ok hE
    simp only [pure, Except.pure, Except.ok.injEq] at hE
    subst hE
    obtain ⟨en, _, rfl⟩ := List.mem_map.mp hit
    trivial
  · unfold inputItems at hI
    obtain ⟨x, _, hx⟩ := C02.mapM_ok_mem hI it hit
    exact inputItem_plain hx
  · exact variablesItems_plain hV it hit
  · simp at hit
  · simp only [structItemsD, List.mem_cons] at hit
    rcases hit with rfl | hit
    · exact fun f hf => (wire_mem_keptKeys hf).2
    · exact itemsOfSelsD_plain c _ _ it hit

/-! ## acyclicity -/

/-- the rank: names of alias items 2, extern paths 1, everything else 0 -/
def rankD (c : Ctx) (items : List Item) (p : String) : Nat :=
  if items.any (fun it => match it with | .alias n _ _ => n == p | _ => false) then 2
  else if (customExterns c).any (·.1 == p) then 1 else 0

theorem rankD_of_not_item {c : Ctx} {items : List Item} {p : String} (h : ∀ it ∈ items, it.name ≠ p) :
    rankD c items p ≤ 1 := by
  unfold rankD
  have : items.any (fun it => match it with | .alias n _ _ => n == p | _ => false) = false := by
    rw [List.any_eq_false]
    intro it hit
    have := h it hit
    cases it <;> simp_all [Item.name]
  rw [this]
  simp only [Bool.false_eq_true, ↓reduceIte]
  split <;> omega

/-- **acyclic**, with an explicit rank -/
theorem tree_module_acyclic (c : Ctx) (opIdx : Nat) (op : ROperation) (items : List Item)
    (hop : c.q.operations[opIdx]? = some op) (ht : TreeOpD c op = true)
    (hgen : responseForQuery c opIdx = .ok items) (hok : moduleOk c items = true) :
    Acyclic (moduleEnv c items) (rankD c items) := by
  have hplain := module_plain c opIdx op items hop ht hgen
  simp only [moduleOk, Bool.and_eq_true, List.all_eq_true, decide_eq_true_eq, List.isEmpty_iff] at hok
  obtain ⟨⟨⟨⟨_, hnp⟩, hext⟩, _⟩, _⟩ := hok
  have hprim : ∀ q : String, ¬ notPrim q → ∀ it ∈ items, it.name ≠ q := by
    intro q hq it hit h
    exact hq (h ▸ hnp it hit)
  have hextKey : ∀ x ∈ customExterns c, ∀ it ∈ items, it.name ≠ x.1 := by
    intro x hx it hit
    simpa using (hext x hx).2 it hit
  have hextTy : ∀ x ∈ customExterns c, x.2 = RTy.path "String" := by
    intro x hx
    unfold customExterns at hx
    obtain ⟨n, _, rfl⟩ := List.mem_map.mp hx
    rfl
  refine ⟨fun p n pub t hf => ?_, fun p x hf hx => ?_, fun p n dv sc fields hf f hmem hfl => ?_⟩
  · -- alias
    obtain ⟨hm, hn⟩ := find_spec hf
    simp only [Item.name] at hn
    have hp2 : rankD c items p = 2 := by
      unfold rankD
      have : items.any (fun it => match it with | .alias n _ _ => n == p | _ => false) = true :=
        List.any_eq_true.mpr ⟨_, hm, by simp [hn]⟩
      rw [this]; rfl
    rw [hp2]
    have hle : rankD c items (Scope.leaf t) ≤ 1 := by
      rcases hplain _ hm with hb | ⟨x, hx, rfl⟩
      · apply rankD_of_not_item
        apply hprim
        simp only [builtinAliases, List.mem_cons, Item.alias.injEq, List.not_mem_nil, or_false] at hb
        rcases hb with ⟨_, _, rfl⟩ | ⟨_, _, rfl⟩ | ⟨_, _, rfl⟩ | ⟨_, _, rfl⟩ <;> simp [Scope.leaf, notPrim]
      · exact rankD_of_not_item (hextKey x hx)
    omega
  · -- extern
    have hxm : x ∈ customExterns c := List.mem_of_find?_eq_some hx
    have hxp : x.1 = p := by simpa using List.find?_some hx
    have hl : Scope.leaf x.2 = "String" := by rw [hextTy x hxm]; rfl
    rw [hl]
    have h0 : rankD c items "String" = 0 := by
      unfold rankD
      have h1 : items.any (fun it => match it with | .alias n _ _ => n == "String" | _ => false) = false := by
        rw [List.any_eq_false]
        intro it hit
        have := hprim "String" (by simp [notPrim]) it hit
        cases it <;> simp_all [Item.name]
      have h2 : (customExterns c).any (·.1 == "String") = false := by
        rw [List.any_eq_false]
        intro y hy
        have := (hext y hy).1
        simp only [notPrim] at this
        simpa using this.1
      rw [h1, h2]; rfl
    rw [h0]
    unfold rankD
    have h1 : items.any (fun it => match it with | .alias n _ _ => n == p | _ => false) = false := by
      rw [List.any_eq_false]
      intro it hit
      have : it.name ≠ p := by
        intro h
        have hnone : (moduleEnv c items).find p = none := hf
        unfold Env.find at hnone
        rw [List.find?_eq_none] at hnone
        exact hnone it hit (by simp [h])
      cases it <;> simp_all [Item.name]
    have h2 : (customExterns c).any (·.1 == p) = true := List.any_eq_true.mpr ⟨x, hxm, by simp [hxp]⟩
    rw [h1, h2]
    simp
  · -- no flattened member anywhere
    obtain ⟨hm, _⟩ := find_spec hf
    have := hplain _ hm f hmem
    rw [this] at hfl; cases hfl

/-- **`EnvOK` (and `EnvOKS`) for every module emitted for an operation of the class** -/
theorem tree_module_envOK (c : Ctx) (opIdx : Nat) (op : ROperation) (items : List Item)
    (hop : c.q.operations[opIdx]? = some op) (ht : TreeOpD c op = true)
    (hgen : responseForQuery c opIdx = .ok items) (hok : moduleOk c items = true) :
    EnvOK (moduleEnv c items) ∧ EnvOKS (moduleEnv c items) :=
  module_envOK_of_acyclic hgen (tree_module_acyclic c opIdx op items hop ht hgen hok)

theorem names_of_moduleOk {c : Ctx} {items : List Item} (hok : moduleOk c items = true) :
    EnumSpec.nodup (items.map (·.name)) = true := by
  simp only [moduleOk, Bool.and_eq_true] at hok
  exact hok.1.1.1.1

/-- **C14 end to end, all hypotheses decidable**: for an operation of the class `TreeOpD` and the module emitted for it
    (with the side condition `moduleOk` of the C01 end-to-end theorems), EVERY payload deserializes at `ResponseData`
    exactly as the payload with the denied keys erased at every depth -/
theorem denied_field_payload_same' (c : Ctx) (opIdx : Nat) (op : ROperation) (items : List Item)
    (hop : c.q.operations[opIdx]? = some op) (ht : TreeOpD c op = true)
    (hgen : responseForQuery c opIdx = .ok items) (hok : moduleOk c items = true) (j : Json) :
    Serde.de (moduleEnv c items) (.path "ResponseData") j =
      Serde.de (moduleEnv c items) (.path "ResponseData") (eraseDenied c op j) :=
  denied_field_payload_same c opIdx op items hop ht hgen (names_of_moduleOk hok)
    (tree_module_envOK c opIdx op items hop ht hgen hok).1 j

/-- and it never answers with the fuel error -/
theorem tree_de_never_out_of_fuel (c : Ctx) (opIdx : Nat) (op : ROperation) (items : List Item)
    (hop : c.q.operations[opIdx]? = some op) (ht : TreeOpD c op = true)
    (hgen : responseForQuery c opIdx = .ok items) (hok : moduleOk c items = true) (t : RTy) (j : Json) :
    Serde.de (moduleEnv c items) t j ≠ .error (.unmodelled "fuel") :=
  de_never_out_of_fuel (tree_module_envOK c opIdx op items hop ht hgen hok).1 t j

end C14G
end GqlVerif
