import GqlVerif.Proofs.C01AliasFragS
/-!
# C01 end to end (`AliasFragOp`), part G: serde — what a struct whose flattened members satisfy `MemSpec` reads, by name

The value-level companion of `okB_deStructMapA` (part S); generalizes `deStructN_finds` of `C01NestedG` to flattened members
that are aliases of struct items:

* `deFlatsA_finds` / **`deStructA_finds`** — the record read has, under the Rust name of every own field, what `readField`
  reads from the object, and under the Rust name of every flattened member `g` what `memV` (`dePath` at the member's type,
  buffered content) reads from the object with some entries **whose keys are outside `K g`** filtered out.
-/
set_option linter.unusedSimpArgs false
set_option linter.unusedVariables false
set_option linter.unusedSectionVars false
set_option linter.unnecessarySimpa false

namespace GqlVerif
namespace C01AF
open Serde Spec C13 C03 Codegen C01 C01.E2E C01M C01N

theorem deFlatsA_finds (e : Env) (fuel : Nat) (kvs : List (String × Json)) (K : RField → List String) :
    ∀ (fs : List RField) (L : List String) (buf : Buf) (fl : List (String × Val)),
      present buf = kvs.filter (fun kv => !L.contains kv.1) →
      (∀ g ∈ fs, g.flatten = true → MemberOkA e fuel (K g) g) →
      (∀ g ∈ fs, g.flatten = true → ∀ k ∈ L, k ∉ K g) →
      fs.Pairwise (fun g g' => g.flatten = true → g'.flatten = true → ∀ k ∈ K g', k ∉ K g) →
      (fs.map (·.rust)).Nodup →
      deFlatsWith (deFlat e (fuel + 1)) fs buf = .ok fl →
      (∀ n, n ∉ fs.map (·.rust) → fl.find? (·.1 == n) = none) ∧
      ∀ g ∈ fs, g.flatten = true → ∃ (L' : List String) (x : Val), (∀ k ∈ L', k ∉ K g) ∧
        memV e fuel g (kvs.filter (fun kv => !L'.contains kv.1)) = .ok x ∧
        fl.find? (·.1 == g.rust) = some (g.rust, x)
  | [], _, _, fl, _, _, _, _, _, h => by
    simp only [deFlatsWith, pure, Except.pure, Except.ok.injEq] at h
    subst h; simp
  | g :: fs, L, buf, fl, hbuf, hok, hL, hpw, hnd, h => by
    rw [List.pairwise_cons] at hpw
    simp only [List.map_cons, List.nodup_cons] at hnd
    have hok' : ∀ g' ∈ fs, g'.flatten = true → MemberOkA e fuel (K g') g' :=
      fun g' h' => hok g' (List.mem_cons_of_mem _ h')
    cases hg : g.flatten
    · simp only [deFlatsWith, hg, Bool.not_false, ↓reduceIte] at h
      obtain ⟨ih1, ih2⟩ := deFlatsA_finds e fuel kvs K fs L buf fl hbuf hok'
        (fun g' h' => hL g' (List.mem_cons_of_mem _ h')) hpw.2 hnd.2 h
      refine ⟨fun n hn => ih1 n (fun hm => hn (List.mem_cons_of_mem _ hm)), ?_⟩
      intro g' hg' hfl
      rcases List.mem_cons.mp hg' with rfl | hg''
      · rw [hg] at hfl; cases hfl
      · exact ih2 g' hg'' hfl
    · obtain ⟨q, hty, hspec⟩ := hok g (by simp) hg
      have hmv : ∀ kvs', memV e fuel g kvs' = dePath e true (fuel + 1) q (.obj kvs') := by
        intro kvs'; simp only [memV, hty]
      simp only [deFlatsWith, hg, Bool.not_true, Bool.false_eq_true, ↓reduceIte, hty] at h
      obtain ⟨⟨x, buf'⟩, hflat, h⟩ := C02.bind_ok h
      simp only at h
      obtain ⟨rest, hrest, h⟩ := C02.bind_ok h
      simp only [pure, Except.pure, Except.ok.injEq] at h
      subst h
      -- the member itself, and the buffer it leaves
      have hmem : ∃ (L' : List String), (∀ k ∈ L', k ∉ K g) ∧
          memV e fuel g (kvs.filter (fun kv => !L'.contains kv.1)) = .ok x ∧
          ∃ L2 : List String, present buf' = kvs.filter (fun kv => !L2.contains kv.1) ∧
            ∀ g' ∈ fs, g'.flatten = true → ∀ k ∈ L2, k ∉ K g' := by
        rcases hspec with hb | ⟨W, hWK, ht, hf⟩
        · rw [hb buf, hbuf] at hflat
          obtain ⟨v0, hv0, hp⟩ := C02.bind_ok hflat
          simp only [pure, Except.pure, Except.ok.injEq, Prod.mk.injEq] at hp
          obtain ⟨rfl, rfl⟩ := hp
          exact ⟨L, hL g (by simp) hg, by rw [hmv]; exact hv0, L, hbuf,
            fun g' h' hf' => hL g' (List.mem_cons_of_mem _ h') hf'⟩
        · have hw : ∀ k ∈ W, k ∉ L := fun k hk hkL => hL g (by simp) hg k hkL (hWK k hk)
          rw [ht buf, takeKeys_fst, hbuf, filter_filter_disjoint kvs L W hw, hf kvs] at hflat
          obtain ⟨v0, hv0, hp⟩ := C02.bind_ok hflat
          simp only [pure, Except.pure, Except.ok.injEq, Prod.mk.injEq] at hp
          obtain ⟨rfl, rfl⟩ := hp
          refine ⟨[], by simp, ?_, L ++ W, ?_, ?_⟩
          · rw [filter_not_nil, hmv]; exact hv0
          · rw [takeKeys_snd, hbuf, filter_not_append]
          · intro g' h' hf' k hk hkK
            rcases List.mem_append.mp hk with hk | hk
            · exact hL g' (List.mem_cons_of_mem _ h') hf' k hk hkK
            · exact hpw.1 g' h' hg hf' _ hkK (hWK k hk)
      obtain ⟨L', hL', hval, L2, hbuf2, hL2⟩ := hmem
      obtain ⟨ih1, ih2⟩ := deFlatsA_finds e fuel kvs K fs L2 buf' rest hbuf2 hok' hL2 hpw.2 hnd.2 hrest
      constructor
      · intro n hn
        simp only [List.map_cons, List.mem_cons, not_or] at hn
        have : (g.rust == n) = false := by simpa using fun h => hn.1 h.symm
        simp only [List.find?_cons, this]
        exact ih1 n hn.2
      · intro g' hg' hfl
        rcases List.mem_cons.mp hg' with rfl | hg''
        · exact ⟨L', x, hL', hval, by simp⟩
        · obtain ⟨L'', x', h1, h2, h3⟩ := ih2 g' hg'' hfl
          have hne : g.rust ≠ g'.rust := fun heq => hnd.1 (heq ▸ List.mem_map_of_mem hg'')
          have : (g.rust == g'.rust) = false := by simpa using hne
          exact ⟨L'', x', h1, h2, by simp only [List.find?_cons, this]; exact h3⟩

/-- **what a struct with (or without) flattened members — struct items or aliases of struct items — reads, found again by
    name** -/
theorem deStructA_finds (e : Env) (fuel : Nat) (pathD : String → Json → D Val) (fields : List RField)
    (kvs : List (String × Json)) (K : RField → List String) (hcnt : ∀ k, countKey k kvs ≤ 1)
    (hrust : (fields.map (·.rust)).Nodup)
    (hok : ∀ g ∈ fields, g.flatten = true → MemberOkA e fuel (K g) g)
    (hown : ∀ g ∈ fields, g.flatten = true → ∀ k ∈ (fields.filter (fun f => !f.flatten)).map (·.wire), k ∉ K g)
    (hpw : fields.Pairwise (fun g g' => g.flatten = true → g'.flatten = true → ∀ k ∈ K g', k ∉ K g))
    (v : Val) (hd : deStructMapWith pathD (deFlat e (fuel + 1)) fields kvs = .ok v) :
    ∃ vals, v = .record vals ∧
      (∀ f ∈ fields, f.flatten = false → ∃ x, vals.find? (·.1 == f.rust) = some (f.rust, x) ∧
        readField pathD f kvs = .ok x) ∧
      (∀ g ∈ fields, g.flatten = true → ∃ (L' : List String) (x : Val), (∀ k ∈ L', k ∉ K g) ∧
        memV e fuel g (kvs.filter (fun kv => !L'.contains kv.1)) = .ok x ∧
        vals.find? (·.1 == g.rust) = some (g.rust, x)) := by
  have hownpl : plain (fields.filter (fun f => !f.flatten)) = true := by
    simp only [plain, List.all_eq_true, List.mem_filter]
    intro f hf; exact hf.2
  have hsubl : (fields.filter (fun f => !f.flatten)).Sublist fields := List.filter_sublist
  have hownnd : ((fields.filter (fun f => !f.flatten)).map (·.rust)).Nodup := (hsubl.map _).nodup hrust
  cases hany : fields.any (·.flatten)
  · -- plain
    have hpl : plain fields = true := by
      simp only [plain, List.all_eq_true]
      intro f hf
      have := List.any_eq_false.mp hany f hf
      simpa using this
    rw [deStructMap_plain _ _ _ _ hpl, map_ok] at hd
    obtain ⟨own, hown', rfl⟩ := hd
    have hall := (deOwn_ok_iff pathD kvs hcnt fields own hpl).mp hown'
    refine ⟨own, rfl, fun f hf _ => find_of_all2 (R := fun f x => readField pathD f kvs = .ok x) hall hrust f hf, ?_⟩
    intro g hg hfl
    have := List.any_eq_false.mp hany g hg
    simp [hfl] at this
  · unfold deStructMapWith at hd
    simp only [hany, ↓reduceIte] at hd
    rw [deOwn_filter_flatten pathD kvs fields] at hd
    obtain ⟨own, hown', hd⟩ := C02.bind_ok hd
    obtain ⟨fl, hfl, hd⟩ := C02.bind_ok hd
    simp only [pure, Except.pure, Except.ok.injEq] at hd
    have hall := (deOwn_ok_iff pathD kvs hcnt _ own hownpl).mp hown'
    have hownnames : own.map (·.1) = (fields.filter (fun f => !f.flatten)).map (·.rust) :=
      All2.map_fst (fun _ _ hh => hh.1) hall
    obtain ⟨hfl1, hfl2⟩ := deFlatsA_finds e fuel kvs K fields _ _ fl (by rw [present_map_some]) hok hown hpw
      hrust hfl
    refine ⟨_, hd.symm, ?_, ?_⟩
    · intro f hf hfl'
      rw [find_filterMap_rust _ fields hrust f hf]
      obtain ⟨x, hx, hR⟩ := find_of_all2 (R := fun f x => readField pathD f kvs = .ok x) hall hownnd f
        (List.mem_filter.mpr ⟨hf, by simp [hfl']⟩)
      exact ⟨x, by rw [List.find?_append, hx]; rfl, hR⟩
    · intro g hg hfl'
      rw [find_filterMap_rust _ fields hrust g hg]
      obtain ⟨L', x, h0, h1, h2⟩ := hfl2 g hg hfl'
      refine ⟨L', x, h0, h1, ?_⟩
      have hnone : own.find? (·.1 == g.rust) = none := by
        apply find_none_of_not_mem
        rw [hownnames]
        intro hm
        obtain ⟨f, hf, hfr⟩ := List.mem_map.mp hm
        have hf' := List.mem_filter.mp hf
        have : f = g := eq_of_nodup_rust hrust hf'.1 hg hfr
        subst this
        simp [hfl'] at hf'
      rw [List.find?_append, hnone]
      simpa using h2

end C01AF
end GqlVerif
