import GqlVerif.Proofs.C02Complete
import GqlVerif.Proofs.C02Response
/-!
# C02 (first half) — code generation succeeds on what `resolve` accepts

* **`codegen_succeeds`**: `SchemaWf s`, `SchemaWfGen s`, `QueryWf s q`, `VarsGenOk s q`, `op < q.operations.length`
  ⇒ `Codegen.responseForQuery ⟨s, q, o, cs⟩ op = .ok items` — for **all** options `o` and case functions `cs`
  (no condition on options is needed for success).
* **`generate_succeeds`**: with `resolve s d = .ok q`, `Codegen.generate s cs o text d = .ok ms` with `ms.length` =
  number of operations (CLI mode, no selected operation) or 1 (an operation is selected: derive mode with a
  matching struct name, or `--selected-operation`), as computed by `selectedOps`.
* **`resolve_queryWf`**: `SchemaWf s → resolve s d = .ok q → QueryWf s q` (every field id, type id and fragment id
  of the resolved tree is in range; variables have existing types), and **`varsGenOk_of_doc`**: the condition on
  variables can be checked on the document (`DocVarsOk`), through `resolve_vars` (every resolved variable is the
  resolved form of a variable definition of the document).

Conditions (all decidable `Bool`s), each with a witness that it cannot be dropped (`w_*` at the end; the model
**panics**):
* `SchemaWfGen s`: no output field has an input-object type (`w_input_typed_field`: "field selection on input
  type"); no field / input-field type `T!!` (`w_double_required`); union members are ids in range
  (`w_dangling_variant`); `@oneOf` input fields are nullable (`w_oneof_nonnull`: SDL-expressible, panics with
  "double required annotation").
* `VarsGenOk s q` / `DocVarsOk s d`: no variable of type `T!!` (`w_var_double_required`; not expressible in
  GraphQL syntax, expressible in the AST); the default-value literal passes `literalOk` — it has no `null` at a
  NON-NULL position (`null` at a nullable position is rendered as `None` since the repair of the generator) and
  no variable at any position the code looks at (`w_default_null`, `w_default_var`, `w_default_null_nested`),
  and is nested less than 64 levels (a bound of the model, not of the code).  `docVarsOk_of_plain`: the purely
  syntactic `DocVarsPlain d` (no `T!!`; default literals without `null` / variables anywhere, nesting ≤ 64 — or the
  literal `null` itself for a variable of nullable type; `null` deeper inside a literal is not covered by the
  syntactic condition, which does not look at types: use `DocVarsOk`) implies `DocVarsOk s d` (`literalOk_plain`).

Method: `Ret P r` ("`r` is a success satisfying `P`, or the model ran out of fuel") is proved compositionally for
`allUsedTypes` (`allUsedTypes_ret`: the used set only contains existing types and fragments) and for the four
mutual `calc*` functions at *any* fuel (`calc_ret`, simultaneous induction); the fuel theorems of
`Proofs/C02Closure.lean` (`calcSelection_clean`, `clean_allUsedTypes`) then turn `Ret` into `.ok`.
-/
namespace GqlVerif
namespace C02Gen
open Codegen C02Complete

/-! ## outcomes that are neither a panic nor an error -/

/-- `r` is a success whose value satisfies `P`, or the model ran out of fuel (excluded separately by the
    fuel theorems of `C02Closure`); never `panic`, `error`, `diverge` -/
def Ret {α} (P : α → Prop) (r : Outcome α) : Prop :=
  match r with
  | .ok a => P a
  | .error (.unmodelled _) => True
  | .error _ => False

theorem Ret.ok {α} {P : α → Prop} {a : α} (h : P a) : Ret P (.ok a) := h
theorem Ret.pure {α} {P : α → Prop} {a : α} (h : P a) : Ret P (Pure.pure a : Outcome α) := h
theorem Ret.unmodelled {α} {P : α → Prop} (w : String) : Ret P (.error (.unmodelled w) : Outcome α) := trivial

theorem Ret.bind {α β} {P : α → Prop} {Q : β → Prop} {x : Outcome α} {f : α → Outcome β}
    (hx : Ret P x) (hf : ∀ a, x = .ok a → P a → Ret Q (f a)) : Ret Q (x >>= f) := by
  cases x with
  | ok a => exact hf a rfl hx
  | error e => cases e <;> first | exact hx.elim | trivial

theorem Ret.mono {α} {P Q : α → Prop} {x : Outcome α} (hx : Ret P x) (h : ∀ a, P a → Q a) : Ret Q x := by
  cases x with
  | ok a => exact h a hx
  | error e => cases e <;> first | exact hx.elim | trivial

theorem Ret.map {α β} {P : α → Prop} {Q : β → Prop} {x : Outcome α} {f : α → β}
    (hx : Ret P x) (h : ∀ a, P a → Q (f a)) : Ret Q (f <$> x) := by
  cases x with
  | ok a => exact h a hx
  | error e => cases e <;> first | exact hx.elim | trivial

theorem Ret.true {α} {P : α → Prop} {x : Outcome α} (hx : Ret P x) : Ret (fun _ => True) x := hx.mono (fun _ _ => trivial)

theorem Ret.ok_of_clean {α} {P : α → Prop} {x : Outcome α} (hx : Ret P x) (hc : C02.Clean x) : ∃ a, x = .ok a ∧ P a := by
  cases x with
  | ok a => exact ⟨a, rfl, hx⟩
  | error e => cases e <;> first | exact hx.elim | exact absurd rfl (hc _)

theorem Ret.of_ok {α} {P : α → Prop} {x : Outcome α} {a : α} (h : x = .ok a) (hp : P a) : Ret P x := by
  rw [h]; exact hp

theorem ret_foldlM {α β} {P : β → Prop} (f : β → α → Outcome β) :
    ∀ (l : List α) (b : β), (∀ b x, x ∈ l → P b → Ret P (f b x)) → P b → Ret P (l.foldlM f b)
  | [], b, _, hb => by rw [List.foldlM_nil]; exact hb
  | a :: l, b, h, hb => by
    rw [List.foldlM_cons]
    exact Ret.bind (h b a List.mem_cons_self hb) (fun b' _ hb' =>
      ret_foldlM f l b' (fun b x hx => h b x (List.mem_cons_of_mem _ hx)) hb')

theorem ret_mapM {α β} {Q : β → Prop} (f : α → Outcome β) :
    ∀ (l : List α), (∀ x ∈ l, Ret Q (f x)) → Ret (fun ys => ∀ y ∈ ys, Q y) (l.mapM f)
  | [], _ => by rw [List.mapM_nil]; intro y hy; cases hy
  | a :: l, h => by
    rw [List.mapM_cons]
    refine Ret.bind (h a List.mem_cons_self) (fun b _ hb => ?_)
    refine Ret.bind (ret_mapM f l (fun x hx => h x (List.mem_cons_of_mem _ hx))) (fun bs _ hbs => ?_)
    intro y hy
    rcases List.mem_cons.mp hy with rfl | hy
    · exact hb
    · exact hbs y hy

theorem ret_filterMapM {α β} (f : α → Outcome (Option β)) :
    ∀ (l : List α), (∀ x ∈ l, Ret (fun _ => True) (f x)) → Ret (fun _ => True) (l.filterMapM f)
  | [], _ => by rw [List.filterMapM_nil]; trivial
  | a :: l, h => by
    rw [List.filterMapM_cons]
    refine Ret.bind (h a List.mem_cons_self) (fun o _ _ => ?_)
    have ih := ret_filterMapM f l (fun x hx => h x (List.mem_cons_of_mem _ hx))
    cases o with
    | none => exact ih
    | some b => exact Ret.bind ih (fun _ _ _ => trivial)

/-! ## `decorate_type` -/

/-- no two adjacent `!` (`T!!` is not expressible in GraphQL syntax; the `Schema` record allows it) -/
def qualsOk : List Qual → Bool
  | .required :: .required :: _ => false
  | _ :: rest => qualsOk rest
  | [] => true

theorem qualsOk_cons {q : Qual} {rest : List Qual} (h : qualsOk (q :: rest) = true) :
    qualsOk rest = true ∧ ¬ (q = .required ∧ rest.head? = some .required) := by
  cases q <;> cases rest with
  | nil => simp [qualsOk]
  | cons r rest => cases r <;> simp_all [qualsOk]

theorem decState_ok (base : RTy) : ∀ (quals : List Qual), qualsOk quals = true →
    ∃ t nn, quals.reverse.foldlM decorateStep (base, false) = .ok (t, nn) ∧ (nn = true ↔ quals.head? = some .required)
  | [], _ => ⟨base, false, rfl, by simp⟩
  | q :: rest, h => by
    obtain ⟨hr, hq⟩ := qualsOk_cons h
    obtain ⟨t, nn, ht, hnn⟩ := decState_ok base rest hr
    rw [List.reverse_cons, List.foldlM_append, ht]
    cases q with
    | list =>
      cases nn <;> simp [decorateStep, List.foldlM, bind, Except.bind, pure, Except.pure]
    | required =>
      cases nn with
      | false => simp [decorateStep, List.foldlM, bind, Except.bind, pure, Except.pure]
      | true => exact absurd ⟨rfl, hnn.mp rfl⟩ hq

theorem decorateType_ok (base : RTy) (quals : List Qual) (h : qualsOk quals = true) :
    ∃ t, decorateType base quals = .ok t := by
  obtain ⟨t, nn, ht, _⟩ := decState_ok base quals h
  unfold decorateType
  rw [ht]
  exact ⟨_, rfl⟩

theorem ret_renderField (c : Ctx) (g : Option String) (r ft : String) (quals : List Qual) (fl bx : Bool)
    (dep : Option (Option String)) (h : qualsOk quals = true) :
    Ret (fun _ => True) (renderField c g r ft quals fl bx dep) := by
  obtain ⟨t, ht⟩ := decorateType_ok (.path ft) quals h
  unfold renderField
  rw [ht]
  simp only [bind, Except.bind]
  split <;> trivial


/-! ## well-formedness needed by code generation -/

/-- beyond `SchemaWf`: what `response_for_query` needs of a schema never to panic -/
def SchemaWfGen (s : Schema) : Bool :=
  s.fields.all (fun f => f.ty.id.asInput?.isNone && qualsOk f.ty.quals) &&
  s.unions.all (fun u => u.variants.all (tyOk s)) &&
  s.inputs.all (fun i => i.fields.all (fun p => tyOk s p.2.id && qualsOk p.2.quals &&
    (!i.isOneOf || p.2.quals.head? != some .required)))

structure WfG (s : Schema) : Prop where
  noInput : ∀ f ∈ s.fields, ∀ j, f.ty.id ≠ .input j
  fieldQuals : ∀ f ∈ s.fields, qualsOk f.ty.quals = true
  variants : ∀ u ∈ s.unions, ∀ v ∈ u.variants, tyOk s v = true
  inputTy : ∀ i ∈ s.inputs, ∀ p ∈ i.fields, tyOk s p.2.id = true
  inputQuals : ∀ i ∈ s.inputs, ∀ p ∈ i.fields, qualsOk p.2.quals = true
  oneOf : ∀ i ∈ s.inputs, i.isOneOf = true → ∀ p ∈ i.fields, p.2.quals.head? ≠ some .required

theorem wfG_of {s : Schema} (h : SchemaWfGen s = true) : WfG s := by
  unfold SchemaWfGen at h
  simp only [Bool.and_eq_true, List.all_eq_true, Bool.or_eq_true, Bool.not_eq_true'] at h
  obtain ⟨⟨h1, h2⟩, h3⟩ := h
  refine ⟨?_, fun f hf => (h1 f hf).2, h2, fun i hi p hp => (h3 i hi p hp).1.1, fun i hi p hp => (h3 i hi p hp).1.2, ?_⟩
  · intro f hf j hj
    have := (h1 f hf).1
    rw [hj] at this
    simp [TypeId.asInput?] at this
  · intro i hi ho p hp
    have := (h3 i hi p hp).2
    rw [ho] at this
    simpa using this

mutual
  def selWf (s : Schema) (nf : Nat) : Sel → Bool
    | .field _ fid sub => decide (fid < s.fields.length) && selsWf s nf sub
    | .inline t sub => tyOk s t && selsWf s nf sub
    | .spread fid => decide (fid < nf)
    | .typename => true
  def selsWf (s : Schema) (nf : Nat) : List Sel → Bool
    | [] => true
    | x :: xs => selWf s nf x && selsWf s nf xs
end

/-- the resolved query only refers to existing fields, types and fragments -/
def QueryWf (s : Schema) (q : Query) : Bool :=
  q.fragments.all (fun f => tyOk s f.on && selsWf s q.fragments.length f.sels) &&
  q.operations.all (fun o => tyOk s (.object o.objectId) && selsWf s q.fragments.length o.sels) &&
  q.variables.all (fun v => tyOk s v.ty.id)

theorem selsWf_mem {s : Schema} {nf : Nat} : ∀ {l : List Sel} {x : Sel}, selsWf s nf l = true → x ∈ l → selWf s nf x = true
  | [], _, _, h => by cases h
  | y :: ys, x, hl, h => by
    rw [selsWf] at hl
    simp only [Bool.and_eq_true] at hl
    rcases List.mem_cons.mp h with rfl | h
    · exact hl.1
    · exact selsWf_mem hl.2 h

/-! ## small `ok` lemmas -/

theorem getEnum_some {s : Schema} {i : Nat} (h : i < s.enums.length) : s.getEnum i = .ok s.enums[i] := by
  unfold Schema.getEnum; rw [List.getElem?_eq_getElem h]; rfl
theorem getScalar_some {s : Schema} {i : Nat} (h : i < s.scalars.length) : s.getScalar i = .ok s.scalars[i] := by
  unfold Schema.getScalar; rw [List.getElem?_eq_getElem h]; rfl
theorem getInput_some {s : Schema} {i : Nat} (h : i < s.inputs.length) : s.getInput i = .ok s.inputs[i] := by
  unfold Schema.getInput; rw [List.getElem?_eq_getElem h]; rfl
theorem getFragment_some {q : Query} {i : Nat} (h : i < q.fragments.length) : q.getFragment i = .ok q.fragments[i] := by
  unfold Query.getFragment; rw [List.getElem?_eq_getElem h]; rfl
theorem getOperation_some {q : Query} {i : Nat} (h : i < q.operations.length) : q.getOperation i = .ok q.operations[i] := by
  unfold Query.getOperation; rw [List.getElem?_eq_getElem h]; rfl

theorem typeName_ok {s : Schema} {t : TypeId} (h : tyOk s t = true) : ∃ n, s.typeName t = .ok n := by
  cases t <;> simp only [tyOk, decide_eq_true_eq] at h <;> simp only [Schema.typeName]
  · rw [(getObject_some h).1]; exact ⟨_, rfl⟩
  · rw [getScalar_some h]; exact ⟨_, rfl⟩
  · rw [(getInterface_some h).1]; exact ⟨_, rfl⟩
  · rw [(getUnion_some h).1]; exact ⟨_, rfl⟩
  · rw [getEnum_some h]; exact ⟨_, rfl⟩
  · rw [getInput_some h]; exact ⟨_, rfl⟩

theorem ret_typeName {s : Schema} {t : TypeId} (h : tyOk s t = true) : Ret (fun _ => True) (s.typeName t) := by
  obtain ⟨n, hn⟩ := typeName_ok h
  exact Ret.of_ok hn trivial

theorem ret_getFragment {q : Query} {i : Nat} (h : i < q.fragments.length) :
    Ret (fun f => f ∈ q.fragments) (q.getFragment i) :=
  Ret.of_ok (getFragment_some h) (List.getElem_mem h)

theorem variantsOf_ret {s : Schema} (hg : WfG s) {t : TypeId} (h : tyOk s t = true) :
    Ret (fun o => ∀ vts, o = some vts → ∀ vt ∈ vts, tyOk s vt = true) (variantsOf s t) := by
  cases t with
  | interface iid =>
    simp only [variantsOf]
    refine Ret.pure ?_
    intro vts hv vt hvt
    cases hv
    obtain ⟨oid, hoid, rfl⟩ := List.mem_map.mp hvt
    obtain ⟨o, ho, _⟩ := C06.mem_implementors.mp hoid
    simpa [tyOk] using (List.getElem?_eq_some_iff.mp ho).1
  | union uid =>
    have hlt : uid < s.unions.length := by simpa [tyOk] using h
    simp only [variantsOf, (getUnion_some hlt).1, bind, Except.bind]
    refine Ret.pure ?_
    intro vts hv vt hvt
    cases hv
    exact hg.variants _ (List.getElem_mem hlt) vt hvt
  | object i => exact Ret.pure (fun _ h => by cases h)
  | scalar i => exact Ret.pure (fun _ h => by cases h)
  | «enum» i => exact Ret.pure (fun _ h => by cases h)
  | input i => exact Ret.pure (fun _ h => by cases h)

theorem variantSelOf_ret {s : Schema} {q : Query} {ty : TypeId} {x : Sel} (h : selWf s q.fragments.length x = true) :
    Ret (fun _ => True) (variantSelOf q ty x) := by
  cases x with
  | spread fid =>
    have hlt : fid < q.fragments.length := by simpa [selWf] using h
    simp only [variantSelOf, getFragment_some hlt, bind, Except.bind]
    trivial
  | inline t sub => trivial
  | field a b c => trivial
  | typename => trivial


/-! ## the `calc*` block never panics on a well-formed query (any fuel) -/

section Calc
variable (c : Ctx)

def VWf (vsels : List VariantSel) : Prop :=
  ∀ t sub, VariantSel.inline t sub ∈ vsels → tyOk c.s t = true ∧ selsWf c.s c.q.fragments.length sub = true

abbrev T {α : Type} : α → Prop := fun _ => True

def S1 (fuel : Nat) : Prop := ∀ name pfx ty sels, tyOk c.s ty = true → selsWf c.s c.q.fragments.length sels = true →
  Ret T (calcSelection c fuel name pfx ty sels)
def S2 (fuel : Nat) : Prop := ∀ name pfx vsels vts, VWf c vsels → (∀ vt ∈ vts, tyOk c.s vt = true) →
  Ret T (calcVariants c fuel name pfx vsels vts)
def S3 (fuel : Nat) : Prop := ∀ sname pfx vt mine, VWf c mine → Ret T (calcVariantSels c fuel sname pfx vt mine)
def S4 (fuel : Nat) : Prop := ∀ pfx ty sels, selsWf c.s c.q.fragments.length sels = true →
  Ret T (calcFields c fuel pfx ty sels)

macro "ret_done" : tactic => `(tactic| first | trivial | (split <;> trivial))

theorem gstep4 (hw : Wf c.s) (hg : WfG c.s) (f : Nat) (H1 : S1 c f) (H4 : S4 c f) : S4 c (f + 1) := by
  intro pfx ty sels hsels
  cases sels with
  | nil => rw [calcFields.eq_2 _ _ _ _ (by omega)]; trivial
  | cons x rest =>
    rw [selsWf] at hsels
    simp only [Bool.and_eq_true] at hsels
    have hrest : Ret T (calcFields c f pfx ty rest) := H4 pfx ty rest hsels.2
    have hx := hsels.1
    cases x with
    | field a fid sub =>
      rw [selWf] at hx
      simp only [Bool.and_eq_true, decide_eq_true_eq] at hx
      rw [calcFields.eq_3]
      simp only []
      refine Ret.bind (P := fun sf => sf ∈ c.s.fields) (Ret.of_ok (getField_some hx.1) (List.getElem_mem hx.1)) (fun sf _ hsf => ?_)
      have hty := hw.fieldTy sf hsf
      have hq := hg.fieldQuals sf hsf
      have hni := hg.noInput sf hsf
      have tail : ∀ (x : Option RField × List Item), Ret T (do
          let __x ← (pure x : Outcome _)
          let __x_1 ← calcFields c f pfx ty rest
          pure (__x.fst.toList ++ __x_1.fst, __x.snd ++ __x_1.snd)) :=
        fun x => Ret.bind (P := T) trivial (fun _ _ _ => Ret.bind hrest (fun _ _ _ => trivial))
      cases heq : sf.ty.id with
      | «enum» e =>
        rw [heq] at hty
        simp only []
        refine Ret.bind (P := T) (Ret.of_ok (getEnum_some (by simpa [tyOk] using hty)) trivial) (fun en _ _ => ?_)
        exact Ret.bind (ret_renderField _ _ _ _ _ _ _ _ hq) (fun _ _ _ => tail _)
      | scalar e =>
        rw [heq] at hty
        simp only []
        refine Ret.bind (P := T) (Ret.of_ok (getScalar_some (by simpa [tyOk] using hty)) trivial) (fun en _ _ => ?_)
        exact Ret.bind (ret_renderField _ _ _ _ _ _ _ _ hq) (fun _ _ _ => tail _)
      | input j => exact absurd heq (hni j)
      | object o =>
        rw [heq] at hty
        simp only []
        refine Ret.bind (ret_renderField _ _ _ _ _ _ _ _ hq) (fun _ _ _ => ?_)
        exact Ret.bind (H1 _ _ _ sub hty hx.2) (fun _ _ _ => tail _)
      | interface o =>
        rw [heq] at hty
        simp only []
        refine Ret.bind (ret_renderField _ _ _ _ _ _ _ _ hq) (fun _ _ _ => ?_)
        exact Ret.bind (H1 _ _ _ sub hty hx.2) (fun _ _ _ => tail _)
      | union o =>
        rw [heq] at hty
        simp only []
        refine Ret.bind (ret_renderField _ _ _ _ _ _ _ _ hq) (fun _ _ _ => ?_)
        exact Ret.bind (H1 _ _ _ sub hty hx.2) (fun _ _ _ => tail _)
    | spread g =>
      have hlt : g < c.q.fragments.length := by simpa [selWf] using hx
      rw [calcFields.eq_4]
      refine Ret.bind (ret_getFragment hlt) (fun fr _ _ => ?_)
      refine Ret.bind hrest (fun p _ _ => ?_)
      obtain ⟨fs, items⟩ := p
      simp only []
      by_cases hne : (fr.on != ty) = true
      · rw [if_pos hne]; trivial
      · rw [if_neg hne]
        exact Ret.bind (ret_renderField _ _ _ _ _ _ _ _ (by decide)) (fun _ _ _ => trivial)
    | inline t sub => rw [calcFields.eq_5 _ _ _ _ _ _ (by simp) (by simp)]; exact hrest
    | typename => rw [calcFields.eq_5 _ _ _ _ _ _ (by simp) (by simp)]; exact hrest


theorem ret_getFragment' {q : Query} {i : Nat} (h : i < q.fragments.length) : Ret T (q.getFragment i) :=
  (ret_getFragment h).true

macro "ret_leaf" : tactic => `(tactic| first
  | trivial | assumption
  | exact ret_typeName ‹_› | exact ret_getFragment' ‹_›
  | exact ret_renderField _ _ _ _ _ _ _ _ (by decide))

macro "ret_auto" : tactic => `(tactic|
  repeat' (first | ret_leaf | (refine Ret.bind (P := T) ?_ (fun _ _ _ => ?_)) | split))

theorem gstep3 (f : Nat) (H3 : S3 c f) (H4 : S4 c f) : S3 c (f + 1) := by
  intro sname pfx vt mine hI
  cases mine with
  | nil => rw [calcVariantSels.eq_2 _ _ _ _ _ (by omega)]; trivial
  | cons x rest =>
    have hrest : Ret T (calcVariantSels c f sname pfx vt rest) :=
      H3 sname pfx vt rest (fun t sub hm => hI t sub (List.mem_cons_of_mem _ hm))
    cases x with
    | spread g fr =>
      rw [calcVariantSels.eq_5]
      ret_auto
    | inline t sub =>
      have ⟨ht, hs⟩ := hI t sub (by simp)
      have hsub : ∀ pfx, Ret T (calcFields c f pfx vt sub) := fun pfx => H4 pfx vt sub hs
      by_cases hsp : ∃ g, sub = [Sel.spread g]
      · obtain ⟨g, rfl⟩ := hsp
        have hlt : g < c.q.fragments.length := by
          simpa [selsWf, selWf] using hs
        rw [calcVariantSels.eq_3]
        simp only []
        ret_auto
      · rw [calcVariantSels.eq_4 _ _ _ _ _ _ _ _ (fun g hg => hsp ⟨g, hg⟩)]
        simp only []
        ret_auto
        all_goals exact hsub _

theorem ret_aliasMember (a : Item) : Ret T (aliasMember c a) := by
  unfold aliasMember
  split
  · exact Ret.bind (ret_renderField _ _ _ _ _ _ _ _ (by decide)) (fun _ _ _ => trivial)
  · exact Ret.bind (ret_renderField _ _ _ _ _ _ _ _ (by decide)) (fun _ _ _ => trivial)
  · trivial

theorem gstep2 (f : Nat) (H2 : S2 c f) (H3 : S3 c f) : S2 c (f + 1) := by
  intro name pfx vsels vts hI hvts
  cases vts with
  | nil => rw [calcVariants.eq_2 _ _ _ _ _ (by omega)]; trivial
  | cons vt rest =>
    have hrest : Ret T (calcVariants c f name pfx vsels rest) :=
      H2 name pfx vsels rest hI (fun v hv => hvts v (List.mem_cons_of_mem _ hv))
    have hvt : tyOk c.s vt = true := hvts vt List.mem_cons_self
    have hmine : ∀ sname, Ret T (calcVariantSels c f sname pfx vt (vsels.filter (fun v => v.typeId == vt))) :=
      fun sname => H3 sname pfx vt _ (fun t sub hm => hI t sub (List.mem_filter.mp hm).1)
    rw [calcVariants.eq_3]
    simp only []
    ret_auto
    all_goals first | exact hmine _ | exact (ret_mapM _ _ (fun x _ => ret_aliasMember c x)).true

theorem gstep1 (hg : WfG c.s) (f : Nat) (H2 : S2 c f) (H4 : S4 c f) : S1 c (f + 1) := by
  intro name pfx ty sels hty hsels
  by_cases hsp : ∃ g, sels = [Sel.spread g]
  · obtain ⟨g, rfl⟩ := hsp
    have hlt : g < c.q.fragments.length := by simpa [selsWf, selWf] using hsels
    rw [calcSelection.eq_2]
    ret_auto
  · rw [calcSelection.eq_3 _ _ _ _ _ _ (fun g hg => hsp ⟨g, hg⟩)]
    have hfields : Ret T (calcFields c f pfx ty sels) := H4 pfx ty sels hsels
    simp only []
    refine Ret.bind (variantsOf_ret hg hty) (fun variants _ hv => ?_)
    cases variants with
    | none =>
      simp only []
      ret_auto
    | some vts =>
      simp only []
      refine Ret.bind (P := T) (ret_filterMapM _ _ (fun x hx => variantSelOf_ret (selsWf_mem hsels hx))) (fun vsels hvs _ => ?_)
      have hinl := (C02.variantSels_spec c.q ty sels vsels hvs).2
      have hvar : Ret T (calcVariants c f name pfx vsels vts) := by
        apply H2 name pfx vsels vts _ (hv vts rfl)
        intro t sub hm
        have := selsWf_mem hsels (hinl t sub hm)
        rw [selWf] at this
        simpa using this
      ret_auto

theorem calc_ret (hw : Wf c.s) (hg : WfG c.s) : ∀ fuel, S1 c fuel ∧ S2 c fuel ∧ S3 c fuel ∧ S4 c fuel := by
  intro fuel
  induction fuel with
  | zero =>
    refine ⟨?_, ?_, ?_, ?_⟩
    · intro _ _ _ _ _ _; rw [calcSelection.eq_1]; trivial
    · intro _ _ _ _ _ _; rw [calcVariants.eq_1]; trivial
    · intro _ _ _ _ _; rw [calcVariantSels.eq_1]; trivial
    · intro _ _ _ _; rw [calcFields.eq_1]; trivial
  | succ f ih =>
    obtain ⟨H1, H2, H3, H4⟩ := ih
    exact ⟨gstep1 c hg f H2 H4, gstep2 c f H2 H3, gstep3 c f H3 H4, gstep4 c hw hg f H1 H4⟩

end Calc


/-! ## `all_used_types` -/

/-- the used set only contains existing types and fragments -/
def UOk (s : Schema) (q : Query) (u : UsedTypes) : Prop :=
  (∀ t ∈ u.types, tyOk s t = true) ∧ (∀ g ∈ u.fragments, g < q.fragments.length)

theorem UOk.insert {s : Schema} {q : Query} {u : UsedTypes} {t : TypeId} (hu : UOk s q u) (ht : tyOk s t = true) :
    UOk s q (u.insertType t) := by
  refine ⟨?_, by simpa using hu.2⟩
  intro x hx
  rcases C02.mem_insertType.mp hx with rfl | hx
  · exact ht
  · exact hu.1 x hx

theorem collectSel_ret {s : Schema} {q : Query} (hw : Wf s)
    (hq : ∀ f ∈ q.fragments, selsWf s q.fragments.length f.sels = true) :
    ∀ (fuel : Nat) (u : UsedTypes) (x : Sel), x = x → UOk s q u → selWf s q.fragments.length x = true →
      Ret (UOk s q) (collectSel s q fuel u x) := by
  intro fuel
  induction fuel with
  | zero => intro u x _ hu _; simp only [collectSel]; exact hu
  | succ n ih =>
    intro u x _ hu hx
    have hfold : ∀ (sub : List Sel) (u' : UsedTypes), selsWf s q.fragments.length sub = true → UOk s q u' →
        Ret (UOk s q) (sub.foldlM (collectSel s q n) u') := fun sub u' hsub hu' =>
      ret_foldlM _ sub u' (fun b y hy hb => ih b y rfl hb (selsWf_mem hsub hy)) hu'
    cases x with
    | typename => simp only [collectSel]; exact hu
    | field a fid sub =>
      rw [selWf] at hx
      simp only [Bool.and_eq_true, decide_eq_true_eq] at hx
      rw [collectSel.eq_2]
      refine Ret.bind (P := fun sf => sf ∈ s.fields) (Ret.of_ok (getField_some hx.1) (List.getElem_mem hx.1)) (fun sf _ hsf => ?_)
      exact hfold sub _ hx.2 (hu.insert (hw.fieldTy sf hsf))
    | inline t sub =>
      rw [selWf] at hx
      simp only [Bool.and_eq_true] at hx
      rw [collectSel.eq_3]
      exact hfold sub _ hx.2 (hu.insert hx.1)
    | spread g =>
      have hlt : g < q.fragments.length := by simpa [selWf] using hx
      rw [collectSel.eq_4]
      split
      · exact hu
      · refine Ret.bind (ret_getFragment hlt) (fun fr _ hfr => ?_)
        refine hfold fr.sels _ (hq fr hfr) ⟨hu.1, ?_⟩
        intro g' hg'
        rcases List.mem_cons.mp hg' with rfl | hg'
        · exact hlt
        · exact hu.2 g' hg'

theorem usedInputIds_ret {s : Schema} {q : Query} (hg : WfG s) :
    ∀ (fuel : Nat) (u : UsedTypes) (i : StoredInput), i ∈ s.inputs → UOk s q u → Ret (UOk s q) (usedInputIds s fuel u i) := by
  intro fuel
  induction fuel with
  | zero => intro u i _ hu; simp only [usedInputIds]; exact hu
  | succ n ih =>
    intro u i hi hu
    rw [usedInputIds.eq_2]
    refine ret_foldlM _ _ _ ?_ hu
    rintro b ⟨fname, ty⟩ hmem hb
    have hty := hg.inputTy i hi _ hmem
    simp only [] at hty ⊢
    split
    · rename_i iid heq
      split
      · exact hb
      · rw [heq] at hty
        have hlt : iid < s.inputs.length := by simpa [tyOk] using hty
        rw [getInput_some hlt]
        exact ih _ _ (List.getElem_mem hlt) (hb.insert (by rw [heq]; exact hty))
    · exact hb.insert hty
    · exact hb.insert hty
    · exact hb

theorem allUsedTypes_ret {s : Schema} {q : Query} (hw : Wf s) (hg : WfG s) (hq : QueryWf s q = true)
    {op : Nat} (hop : op < q.operations.length) : Ret (UOk s q) (allUsedTypes s q op) := by
  unfold QueryWf at hq
  simp only [Bool.and_eq_true, List.all_eq_true] at hq
  obtain ⟨⟨hqf, hqo⟩, hqv⟩ := hq
  have hfr : ∀ f ∈ q.fragments, selsWf s q.fragments.length f.sels = true := fun f hf => (hqf f hf).2
  unfold allUsedTypes
  rw [getOperation_some hop]
  simp only [bind, Except.bind]
  change Ret (UOk s q) ((q.operations[op].sels.foldlM (collectSel s q (walkFuel q)) {}) >>= fun u =>
    (q.opVariables op).foldlM (collectVar s) u)
  refine Ret.bind (P := UOk s q) ?_ (fun u _ hu => ?_)
  · refine ret_foldlM _ _ _ (fun b y hy hb => collectSel_ret hw hfr _ b y rfl hb
      (selsWf_mem (hqo _ (List.getElem_mem hop)).2 hy)) ⟨fun t ht => (by cases ht), fun t ht => (by cases ht)⟩
  · refine ret_foldlM _ _ _ ?_ hu
    intro b v hv hb
    have hvty : tyOk s v.ty.id = true := hqv v (List.mem_filter.mp hv).1
    unfold collectVar
    split
    · rename_i iid heq
      rw [heq] at hvty
      have hlt : iid < s.inputs.length := by simpa [tyOk] using hvty
      rw [getInput_some hlt]
      exact usedInputIds_ret hg _ _ _ (List.getElem_mem hlt) (hb.insert (by rw [heq]; exact hvty))
    · exact hb.insert hvty
    · exact hb.insert hvty
    · exact hb


/-! ## the item producers of `response_for_query` -/

theorem filterMapM_total {α β} (f : α → Outcome (Option β)) : ∀ (l : List α), (∀ a ∈ l, ∃ b, f a = .ok b) →
    ∃ bs, l.filterMapM f = .ok bs
  | [], _ => ⟨[], rfl⟩
  | a :: l, h => by
    obtain ⟨b, hb⟩ := h a List.mem_cons_self
    obtain ⟨bs, hbs⟩ := filterMapM_total f l (fun x hx => h x (List.mem_cons_of_mem _ hx))
    rw [List.filterMapM_cons, hb]
    cases b with
    | none => exact ⟨bs, hbs⟩
    | some b => exact ⟨b :: bs, by simp only [hbs, bind, Except.bind]; rfl⟩

theorem scalarItems_ok {c : Ctx} {u : UsedTypes} (hu : UOk c.s c.q u) : ∃ S, scalarItems c u = .ok S := by
  unfold scalarItems
  obtain ⟨names, hn⟩ := mapM_total c.s.getScalar (sortNat (u.types.filterMap TypeId.asScalar?)) (by
    intro id hid
    rw [C02.mem_sortNat, List.mem_filterMap] at hid
    obtain ⟨t, ht, hti⟩ := hid
    have : t = .scalar id := by cases t <;> simp_all [TypeId.asScalar?]
    subst this
    have := hu.1 _ ht
    exact ⟨_, getScalar_some (by simpa [tyOk] using this)⟩)
  simp only [hn, bind, Except.bind]
  exact ⟨_, rfl⟩

theorem enumItems_ok {c : Ctx} {u : UsedTypes} (hu : UOk c.s c.q u) : ∃ E, enumItems c u = .ok E := by
  unfold enumItems
  obtain ⟨es, hn⟩ := mapM_total c.s.getEnum (sortNat (u.types.filterMap TypeId.asEnum?)) (by
    intro id hid
    rw [C02.mem_sortNat, List.mem_filterMap] at hid
    obtain ⟨t, ht, hti⟩ := hid
    have : t = .enum id := by cases t <;> simp_all [TypeId.asEnum?]
    subst this
    have := hu.1 _ ht
    exact ⟨_, getEnum_some (by simpa [tyOk] using this)⟩)
  simp only [hn, bind, Except.bind]
  exact ⟨_, rfl⟩

theorem inputFieldType_ok {c : Ctx} {ty : FieldType} {quals : List Qual} (hty : tyOk c.s ty.id = true)
    (hq : qualsOk quals = true) : ∃ t, inputFieldType c ty quals = .ok t := by
  obtain ⟨tn, htn⟩ := typeName_ok hty
  obtain ⟨t, ht⟩ := decorateType_ok (.path (c.o.normalization.fieldType c.cs tn)) quals hq
  unfold inputFieldType
  simp only [htn, ht, bind, Except.bind]
  exact ⟨_, rfl⟩

theorem ex_bind {α β} {x : Outcome α} {f : α → Outcome β} (hx : ∃ a, x = .ok a)
    (hf : ∀ a, x = .ok a → ∃ b, f a = .ok b) : ∃ b, (x >>= f) = .ok b := by
  obtain ⟨a, ha⟩ := hx
  obtain ⟨b, hb⟩ := hf a ha
  exact ⟨b, by rw [ha]; exact hb⟩

theorem inputItem_ok {c : Ctx} (hg : WfG c.s) {i : StoredInput} (hi : i ∈ c.s.inputs) : ∃ it, inputItem c i = .ok it := by
  rw [inputItem.eq_1]
  split
  · rename_i hone
    refine ex_bind (mapM_total _ _ ?_) (fun _ _ => ⟨_, rfl⟩)
    rintro ⟨fname, ty⟩ hp
    have hq : qualsOk (.required :: ty.quals) = true := by
      have h1 := hg.inputQuals i hi _ hp
      have h2 := hg.oneOf i hi hone _ hp
      simp only [] at h1 h2
      cases hql : ty.quals with
      | nil => rfl
      | cons a rest =>
        rw [hql] at h1 h2
        cases a with
        | required => simp at h2
        | list => simpa [qualsOk] using h1
    exact ex_bind (inputFieldType_ok (c := c) (hg.inputTy i hi _ hp) hq) (fun _ _ => ⟨_, rfl⟩)
  · refine ex_bind (mapM_total _ _ ?_) (fun _ _ => ⟨_, rfl⟩)
    rintro ⟨fname, ty⟩ hp
    exact ex_bind (inputFieldType_ok (c := c) (hg.inputTy i hi _ hp) (hg.inputQuals i hi _ hp)) (fun _ _ => ⟨_, rfl⟩)

theorem inputItems_ok {c : Ctx} (hg : WfG c.s) (u : UsedTypes) : ∃ I, inputItems c u = .ok I := by
  unfold inputItems
  apply mapM_total
  rintro ⟨i, k⟩ hik
  have := (List.mem_filter.mp hik).1
  have hi : i ∈ c.s.inputs := by
    rw [List.mem_zipIdx_iff_getElem?] at this
    exact List.mem_of_getElem? this
  exact inputItem_ok hg hi


/-- conditions on the variables of the resolved query (decidable): no `T!!`, and the default-value literal
    passes `graphql_parser_value_to_literal` (it contains no `null` at a non-null position and no variable where the
    code looks) -/
def VarsGenOk (s : Schema) (q : Query) : Bool :=
  q.variables.all (fun v => qualsOk v.ty.quals &&
    match v.default with
    | none => true
    | some d => (match literalOk s 64 d v.ty.id v.ty.quals with | .ok _ => true | .error _ => false))

theorem variablesItems_ok {c : Ctx} (hq : QueryWf c.s c.q = true) (hv : VarsGenOk c.s c.q = true) (op : Nat) :
    ∃ V, variablesItems c op = .ok V := by
  unfold QueryWf at hq
  simp only [Bool.and_eq_true, List.all_eq_true] at hq
  unfold VarsGenOk at hv
  simp only [Bool.and_eq_true, List.all_eq_true] at hv
  have hvt : ∀ v ∈ c.q.opVariables op, ∃ t, variableType c v = .ok t := by
    intro v hvm
    have hm : v ∈ c.q.variables := (List.mem_filter.mp hvm).1
    obtain ⟨tn, htn⟩ := typeName_ok (hq.2 v hm)
    obtain ⟨t, ht⟩ := decorateType_ok (.path (keywordReplace (c.o.normalization.fieldType c.cs tn))) v.ty.quals (hv v hm).1
    exact ⟨t, by unfold variableType; simp only [htn, bind, Except.bind]; exact ht⟩
  unfold variablesItems
  simp only []
  split
  · exact ⟨_, rfl⟩
  · refine ex_bind (mapM_total _ _ ?_) (fun _ _ => ex_bind (filterMapM_total _ _ ?_) (fun _ _ => ⟨_, rfl⟩))
    · intro v hvm
      exact ex_bind (hvt v hvm) (fun _ _ => ⟨_, rfl⟩)
    · intro v hvm
      have hm : v ∈ c.q.variables := (List.mem_filter.mp hvm).1
      have hd := (hv v hm).2
      split
      · exact ⟨_, rfl⟩
      · rename_i d hdv
        rw [hdv] at hd
        simp only [] at hd
        refine ex_bind (hvt v hvm) (fun _ _ => ex_bind ?_ (fun _ _ => ⟨_, rfl⟩))
        cases hl : literalOk c.s 64 d v.ty.id v.ty.quals with
        | ok u => exact ⟨u, rfl⟩
        | error e => rw [hl] at hd; cases hd

theorem fragmentItems_ok {c : Ctx} (hw : Wf c.s) (hg : WfG c.s) (hq : QueryWf c.s c.q = true) {g : Nat}
    (hlt : g < c.q.fragments.length) : ∃ its, fragmentItems c g = .ok its := by
  have hq' := hq
  unfold QueryWf at hq'
  simp only [Bool.and_eq_true, List.all_eq_true] at hq'
  have hr : Ret T (fragmentItems c g) := by
    unfold fragmentItems
    refine Ret.bind (ret_getFragment hlt) (fun fr _ hfr => ?_)
    exact (calc_ret c hw hg _).1 _ _ _ _ (hq'.1.1 fr hfr).1 (hq'.1.1 fr hfr).2
  obtain ⟨its, h, _⟩ := hr.ok_of_clean (C02.fragmentItems_fuel_sufficient c g)
  exact ⟨its, h⟩

theorem responseItems_ok {c : Ctx} (hw : Wf c.s) (hg : WfG c.s) (hq : QueryWf c.s c.q = true) {o : ROperation}
    (ho : o ∈ c.q.operations) : ∃ its, responseItems c o = .ok its := by
  have hq' := hq
  unfold QueryWf at hq'
  simp only [Bool.and_eq_true, List.all_eq_true] at hq'
  have hr : Ret T (responseItems c o) := by
    unfold responseItems
    exact (calc_ret c hw hg _).1 _ _ _ _ (hq'.1.2 o ho).1 (hq'.1.2 o ho).2
  obtain ⟨its, h, _⟩ := hr.ok_of_clean (C02.responseItems_fuel_sufficient c o ho)
  exact ⟨its, h⟩


/-! ## `response_for_query` and `generate` -/

/-- **`codegen_succeeds`**: on a well-formed schema and a well-formed resolved query whose variables pass
    `VarsGenOk`, `response_for_query` returns a module body for every operation index in range — no `panic`,
    no `error`, no exhausted fuel; whatever the options and case functions. -/
theorem codegen_succeeds {c : Ctx} (hs : SchemaWf c.s = true) (hsg : SchemaWfGen c.s = true)
    (hq : QueryWf c.s c.q = true) (hv : VarsGenOk c.s c.q = true) {op : Nat} (hop : op < c.q.operations.length) :
    ∃ items, responseForQuery c op = .ok items := by
  have hw := wf_of_schemaWf hs
  have hg := wfG_of hsg
  obtain ⟨u, hu, huok⟩ := (allUsedTypes_ret hw hg hq hop).ok_of_clean (C02.clean_allUsedTypes _ _ _)
  unfold responseForQuery
  refine ex_bind ⟨u, hu⟩ (fun u' hu' => ?_)
  rw [hu] at hu'; cases hu'
  refine ex_bind (scalarItems_ok huok) (fun _ _ => ex_bind (enumItems_ok huok) (fun _ _ =>
    ex_bind (mapM_total _ _ ?_) (fun _ _ => ex_bind (inputItems_ok hg u) (fun _ _ =>
    ex_bind (variablesItems_ok hq hv op) (fun _ _ => ex_bind ⟨_, getOperation_some hop⟩ (fun o ho =>
    ex_bind (responseItems_ok hw hg hq ?_) (fun _ _ => ⟨_, rfl⟩)))))))
  · intro g hgm
    rw [C02.mem_sortNat] at hgm
    exact fragmentItems_ok hw hg hq (huok.2 g hgm)
  · exact List.mem_of_getElem? (C02.getOperation_ok ho)

theorem mapM_total_len {α β} (f : α → Outcome β) : ∀ (l : List α), (∀ a ∈ l, ∃ b, f a = .ok b) →
    ∃ bs, l.mapM f = .ok bs ∧ bs.length = l.length
  | [], _ => ⟨[], rfl, rfl⟩
  | a :: l, h => by
    obtain ⟨b, hb⟩ := h a List.mem_cons_self
    obtain ⟨bs, hbs, hl⟩ := mapM_total_len f l (fun x hx => h x (List.mem_cons_of_mem _ hx))
    exact ⟨b :: bs, by rw [List.mapM_cons, hb, hbs]; rfl, by simp [hl]⟩

theorem selectOperation_lt {c : Ctx} {name : String} {i : Nat} (h : selectOperation c name = some i) :
    i < c.q.operations.length := by
  unfold selectOperation at h
  exact (List.findIdx?_eq_some_iff_getElem.mp h).1

/-- one generated module, for an operation of the query -/
theorem generatedModule_ok {c : Ctx} (hs : SchemaWf c.s = true) (hsg : SchemaWfGen c.s = true)
    (hq : QueryWf c.s c.q = true) (hv : VarsGenOk c.s c.q = true) (text : String) {op : ROperation}
    (hop : op ∈ c.q.operations) : ∃ m, generatedModule c text op.name = .ok m := by
  unfold generatedModule
  simp only []
  cases hsel : selectOperation c (c.o.normalization.operation c.cs op.name) with
  | none =>
    unfold selectOperation at hsel
    rw [List.findIdx?_eq_none_iff] at hsel
    have := hsel op hop
    simp at this
  | some i =>
    simp only [pure_bind]
    obtain ⟨items, hi⟩ := codegen_succeeds hs hsg hq hv (selectOperation_lt hsel)
    simp only [hi, bind, Except.bind]
    exact ⟨_, rfl⟩

/-- the operations `generate` emits a module for -/
def selectedOps (c : Ctx) : Option (List Nat) :=
  match c.o.operationName.bind (selectOperation c), c.o.mode with
  | some i, _ => some [i]
  | none, .cli => some (List.range c.q.operations.length)
  | none, .derive => none

/-- **`generate` succeeds**: if `resolve` returns `q` (see `resolve_complete`) and the conditions of
    `codegen_succeeds` hold, `generate` returns one module per operation in CLI mode without a selected
    operation, and exactly one module when `operationName` selects an operation (derive mode with a matching
    struct name, or CLI with `--selected-operation`).  The only remaining failure is derive mode with a
    name matching no operation (`selectedOps = none`), which is the documented error. -/
theorem generate_succeeds {s : Schema} {cs : CaseFns} {o : Options} {text : String} {d : QDoc} {q : Query}
    (hres : Resolve.resolve s d = .ok q) (hs : SchemaWf s = true) (hsg : SchemaWfGen s = true)
    (hq : QueryWf s q = true) (hv : VarsGenOk s q = true) {ops : List Nat}
    (hops : selectedOps { s, q, o, cs } = some ops) :
    ∃ ms, generate s cs o text d = .ok ms ∧ ms.length = ops.length := by
  unfold generate
  simp only [hres, bind, Except.bind]
  have hmods : ∀ i ∈ ops, ∃ m, (do
      let op ← q.getOperation i
      generatedModule { s, q, o, cs } text op.name : Outcome Module) = .ok m := by
    intro i hi
    have hlt : i < q.operations.length := by
      unfold selectedOps at hops
      split at hops
      · rename_i j hj
        cases hops
        simp only [List.mem_singleton] at hi
        subst hi
        cases ho : o.operationName with
        | none => simp [ho] at hj
        | some n =>
          simp only [ho, Option.bind_some] at hj
          exact selectOperation_lt (c := { s, q, o, cs }) hj
      · cases hops; simpa using hi
      · cases hops
    rw [getOperation_some hlt]
    exact generatedModule_ok (c := { s, q, o, cs }) hs hsg hq hv text (List.getElem_mem hlt)
  obtain ⟨ms, hms, hlen⟩ := mapM_total_len _ ops hmods
  unfold selectedOps at hops
  simp only [] at hops
  split at hops
  · rename_i j hj
    cases hops
    simp only [hj]
    exact ⟨ms, hms, hlen⟩
  · rename_i hj hm
    cases hops
    simp only [hj, hm]
    exact ⟨ms, hms, hlen⟩
  · cases hops


/-! ## what `resolve` returns is a well-formed query -/

open C06Sound in
mutual
  theorem corr_selWf {s : Schema} (hw : Wf s) {ff : String → Option Nat} {nf : Nat}
      (hff : ∀ n fid, ff n = some fid → fid < nf) :
      ∀ (x : QSel) (p : TypeId) (r : Sel), Corr s ff p x r → selWf s nf r = true
    | .field a n sub, p, r, hc => by
      cases hc with
      | typename => rfl
      | field _ _ hfid _ hsub =>
        rw [selWf]
        simp only [Bool.and_eq_true, decide_eq_true_eq]
        exact ⟨(List.getElem?_eq_some_iff.mp hfid).1, corrL_selsWf hw hff sub _ _ hsub⟩
    | .inline on sub, p, r, hc => by
      cases hc with
      | inline ht _ hsub =>
        rw [selWf]
        simp only [Bool.and_eq_true]
        exact ⟨hw.names _ _ ht, corrL_selsWf hw hff sub _ _ hsub⟩
    | .spread n, p, r, hc => by
      cases hc with
      | spread h => simpa [selWf] using hff _ _ h
  theorem corrL_selsWf {s : Schema} (hw : Wf s) {ff : String → Option Nat} {nf : Nat}
      (hff : ∀ n fid, ff n = some fid → fid < nf) :
      ∀ (xs : List QSel) (p : TypeId) (rs : List Sel), CorrL s ff p xs rs → selsWf s nf rs = true
    | [], p, rs, hc => by cases hc; rfl
    | x :: xs, p, rs, hc => by
      cases hc with
      | cons hx hxs =>
        rw [selsWf]
        simp only [Bool.and_eq_true]
        exact ⟨corr_selWf hw hff x _ _ hx, corrL_selsWf hw hff xs _ _ hxs⟩
end

/-- where a resolved variable comes from -/
def VarFrom (s : Schema) (d : QDoc) (v : RVariable) : Prop :=
  ∃ kind name vars sels vd, QDef.op kind name vars sels ∈ d ∧ vd ∈ vars ∧ v.name = vd.name ∧
    v.default = vd.default ∧ v.ty.quals = vd.ty.quals ∧ s.findType vd.ty.base = some v.ty.id

theorem resolveVariables_inv {s : Schema} {id : Nat} {vars : List VarDef} {vs : List RVariable}
    (h : Resolve.resolveVariables s id vars = .ok vs) :
    ∀ v ∈ vs, ∃ vd ∈ vars, v.name = vd.name ∧ v.default = vd.default ∧ v.ty.quals = vd.ty.quals ∧
      s.findType vd.ty.base = some v.ty.id := by
  intro v hv
  unfold Resolve.resolveVariables at h
  obtain ⟨vd, hvd, hf⟩ := C02.mapM_ok_mem h v hv
  refine ⟨vd, hvd, ?_⟩
  obtain ⟨ty, hty, hf⟩ := C02.bind_ok hf
  simp only [pure, Except.pure, Except.ok.injEq] at hf
  subst hf
  unfold resolveFieldType at hty
  obtain ⟨t, ht, hty⟩ := C02.bind_ok hty
  simp only [pure, Except.pure, Except.ok.injEq] at hty
  subst hty
  refine ⟨rfl, rfl, rfl, ?_⟩
  unfold Schema.findTypeId at ht
  split at ht
  · rename_i t' ht'
    simp only [pure, Except.pure, Except.ok.injEq] at ht
    subst ht; exact ht'
  · simp [panic'] at ht

open C06Sound in
theorem resolveDef_op_core' {s : Schema} {q q' : Query} {vars sels} {root id}
    (h : (do
        let o ← s.getObject root
        let vs ← Resolve.resolveVariables s id vars
        let rs ← Resolve.resolveObjectSels s { q with variables := q.variables ++ vs } o.name o.fields sels
        match q.operations[id]? with
        | none => panic' "get operation"
        | some op => pure { q with variables := q.variables ++ vs,
                                   operations := q.operations.set id { op with sels := op.sels ++ rs } } : Outcome Query)
        = .ok q') :
    ∃ vs, Resolve.resolveVariables s id vars = .ok vs ∧ q'.variables = q.variables ++ vs := by
  obtain ⟨o, ho, h⟩ := bind_ok h
  obtain ⟨vs, hvs, h⟩ := bind_ok h
  obtain ⟨rs, hrs, h⟩ := bind_ok h
  split at h
  · simp [panic'] at h
  · simp only [pure, Except.pure, Except.ok.injEq] at h
    exact ⟨vs, hvs, by rw [← h]⟩

open C06Sound in
theorem resolveDef_vars {s : Schema} {q q' : Query} {x : QDef} (h : Resolve.resolveDef s q x = .ok q') :
    ∀ v ∈ q'.variables, v ∈ q.variables ∨ ∃ kind name vars sels, x = .op kind name vars sels ∧ ∃ vd ∈ vars,
      v.name = vd.name ∧ v.default = vd.default ∧ v.ty.quals = vd.ty.quals ∧ s.findType vd.ty.base = some v.ty.id := by
  cases x with
  | selset sels => simp [Resolve.resolveDef, panic'] at h
  | frag n on sels =>
    obtain ⟨t, id, f, rs, _, _, _, _, rfl⟩ := resolveDef_frag h
    exact fun v hv => .inl hv
  | op kind name vars sels =>
    obtain ⟨root, o, n, id, vs0, rs0, op0, hroot, ho, rfl, hid, hop, _, _⟩ := resolveDef_op h
    have key : ∃ vs, Resolve.resolveVariables s id vars = .ok vs ∧ q'.variables = q.variables ++ vs := by
      simp only [Resolve.resolveDef] at h
      simp only [pure_bind, hid] at h
      cases kind <;> simp only [Valid.rootOf] at hroot <;> simp only at h
      · simp only [Schema.queryTypeOrPanic, hroot, pure_bind] at h
        exact resolveDef_op_core' (root := root) h
      · simp only [hroot] at h
        exact resolveDef_op_core' (root := root) h
      · simp only [hroot] at h
        exact resolveDef_op_core' (root := root) h
    obtain ⟨vs, hvs, hq'⟩ := key
    intro v hv
    rw [hq', List.mem_append] at hv
    rcases hv with hv | hv
    · exact .inl hv
    · exact .inr ⟨kind, _, vars, sels, rfl, resolveVariables_inv hvs v hv⟩

open C06Sound in
theorem createRoots_vars (s : Schema) : ∀ (d : QDoc) (q q' : Query), Resolve.createRoots s d q = .ok q' →
    q'.variables = q.variables
  | [], q, q', h => by
    simp only [Resolve.createRoots, pure, Except.pure, Except.ok.injEq] at h
    rw [h]
  | x :: rest, q, q', h => by
    obtain ⟨q1, hstep, hrest⟩ := createRoots_cons h
    rw [createRoots_vars s rest q1 q' hrest]
    cases x with
    | selset sels => exact hstep.elim
    | frag n on sels => obtain ⟨t, _, _, rfl⟩ := hstep; rfl
    | op kind name vars sels => obtain ⟨n, root, _, _, _, _, rfl⟩ := hstep; rfl

theorem fold_vars {s : Schema} {d : QDoc} : ∀ (rest : QDoc) (q qF : Query), (∀ x ∈ rest, x ∈ d) →
    rest.foldlM (Resolve.resolveDef s) q = .ok qF → (∀ v ∈ q.variables, VarFrom s d v) →
    ∀ v ∈ qF.variables, VarFrom s d v
  | [], q, qF, _, h, hq => by
    simp only [List.foldlM_nil, pure, Except.pure, Except.ok.injEq] at h
    subst h; exact hq
  | x :: rest, q, qF, hsub, h, hq => by
    rw [List.foldlM_cons] at h
    obtain ⟨q1, hstep, hrest⟩ := C02.bind_ok h
    refine fold_vars rest q1 qF (fun y hy => hsub y (List.mem_cons_of_mem _ hy)) hrest ?_
    intro v hv
    rcases resolveDef_vars hstep v hv with hv | ⟨kind, name, vars, sels, rfl, vd, hvd, h1, h2, h3, h4⟩
    · exact hq v hv
    · exact ⟨kind, name, vars, sels, vd, hsub _ List.mem_cons_self, hvd, h1, h2, h3, h4⟩

/-- every variable of the resolved query is the resolved form of a variable definition of the document -/
theorem resolve_vars {s : Schema} {d : QDoc} {q : Query} (h : Resolve.resolve s d = .ok q) :
    ∀ v ∈ q.variables, VarFrom s d v := by
  obtain ⟨q0, h0, h1, _⟩ := C06Sound.resolve_inv h
  refine fold_vars d q0 q (fun _ hx => hx) h1 ?_
  rw [createRoots_vars s d {} q0 h0]
  intro v hv; cases hv

open C06Sound in
/-- **the query returned by `resolve` is well-formed** (on a well-formed schema) -/
theorem resolve_queryWf {s : Schema} {d : QDoc} {q : Query} (hs : SchemaWf s = true)
    (h : Resolve.resolve s d = .ok q) : QueryWf s q = true := by
  have hw := wf_of_schemaWf hs
  obtain ⟨q0, h0, h1, _⟩ := resolve_inv h
  have hR := resolved_of_phases h0 h1
  have hr := createRoots_ok s d {} q0 h0
  have hon0 : onames q0 = Valid.opNames d := by simpa [onames] using hr.onames
  have hfo := fold_ok s d q0 q h1 hR.fnodup hR.onodup
  have honF : onames q = Valid.opNames d := hfo.onames_eq.trans hon0
  have hff : ∀ n fid, ftff (Valid.fragTable d) n = some fid → fid < q.fragments.length := by
    intro n fid hn
    obtain ⟨e, he, _⟩ := ftff_some hn
    rw [hR.table.len]
    exact (List.getElem?_eq_some_iff.mp he).1
  unfold QueryWf
  simp only [Bool.and_eq_true, List.all_eq_true]
  refine ⟨⟨?_, ?_⟩, ?_⟩
  · intro f hf
    obtain ⟨n, on, sels, _, hty, hc⟩ := frag_inv hR f hf
    exact ⟨hw.names _ _ hty, corrL_selsWf hw hff _ _ _ hc⟩
  · intro o ho
    obtain ⟨vars, sels, _, hroot, hc⟩ := op_inv hR honF o ho
    exact ⟨by simpa [tyOk] using hw.root _ _ hroot, corrL_selsWf hw hff _ _ _ hc⟩
  · intro v hv
    obtain ⟨_, _, _, _, vd, _, _, _, _, _, hty⟩ := resolve_vars h v hv
    exact hw.names _ _ hty

/-- the condition `VarsGenOk`, on the document (decidable): no variable type `T!!`, default literals pass
    `graphql_parser_value_to_literal` -/
def DocVarsOk (s : Schema) (d : QDoc) : Bool :=
  d.all fun
    | .op _ _ vars _ => vars.all (fun vd => qualsOk vd.ty.quals &&
        match vd.default, s.findType vd.ty.base with
        | some dv, some t => (match literalOk s 64 dv t vd.ty.quals with | .ok _ => true | .error _ => false)
        | _, _ => true)
    | _ => true

theorem varsGenOk_of_doc {s : Schema} {d : QDoc} {q : Query} (h : Resolve.resolve s d = .ok q)
    (hd : DocVarsOk s d = true) : VarsGenOk s q = true := by
  unfold VarsGenOk
  rw [List.all_eq_true]
  intro v hv
  obtain ⟨kind, name, vars, sels, vd, hm, hvd, _, hdef, hq, hty⟩ := resolve_vars h v hv
  unfold DocVarsOk at hd
  rw [List.all_eq_true] at hd
  have := hd _ hm
  simp only [List.all_eq_true, Bool.and_eq_true] at this
  have := this vd hvd
  rw [hq, hdef, Bool.and_eq_true]
  refine ⟨this.1, ?_⟩
  have h2 := this.2
  rw [hty] at h2
  cases hdv : vd.default with
  | none => rfl
  | some dv => rw [hdv] at h2; exact h2


/-! ## a syntactic sufficient condition for the default-value clause -/

mutual
  /-- no `null` and no variable anywhere in the literal -/
  def plainVal : Value → Bool
    | .var _ => false
    | .null => false
    | .list xs => plainVals xs
    | .obj kvs => plainKVs kvs
    | _ => true
  def plainVals : List Value → Bool
    | [] => true
    | x :: xs => plainVal x && plainVals xs
  def plainKVs : List (String × Value) → Bool
    | [] => true
    | (_, v) :: kvs => plainVal v && plainKVs kvs
end

mutual
  def valDepth : Value → Nat
    | .list xs => valsDepth xs + 1
    | .obj kvs => kvsDepth kvs + 1
    | _ => 1
  def valsDepth : List Value → Nat
    | [] => 0
    | x :: xs => max (valDepth x) (valsDepth xs)
  def kvsDepth : List (String × Value) → Nat
    | [] => 0
    | (_, v) :: kvs => max (valDepth v) (kvsDepth kvs)
end

theorem plainVals_mem : ∀ {xs : List Value} {x : Value}, plainVals xs = true → x ∈ xs →
    plainVal x = true ∧ valDepth x ≤ valsDepth xs
  | [], _, _, h => by cases h
  | y :: ys, x, hp, h => by
    rw [plainVals] at hp
    rw [valsDepth]
    simp only [Bool.and_eq_true] at hp
    rcases List.mem_cons.mp h with rfl | h
    · exact ⟨hp.1, Nat.le_max_left _ _⟩
    · have := plainVals_mem hp.2 h
      exact ⟨this.1, Nat.le_trans this.2 (Nat.le_max_right _ _)⟩

theorem plainKVs_mem : ∀ {kvs : List (String × Value)} {p : String × Value}, plainKVs kvs = true → p ∈ kvs →
    plainVal p.2 = true ∧ valDepth p.2 ≤ kvsDepth kvs
  | [], _, _, h => by cases h
  | (k, v) :: ys, p, hp, h => by
    rw [plainKVs] at hp
    rw [kvsDepth]
    simp only [Bool.and_eq_true] at hp
    rcases List.mem_cons.mp h with rfl | h
    · exact ⟨hp.1, Nat.le_max_left _ _⟩
    · have := plainKVs_mem hp.2 h
      exact ⟨this.1, Nat.le_trans this.2 (Nat.le_max_right _ _)⟩

theorem forM_ok {α} (f : α → Outcome PUnit) : ∀ (l : List α), (∀ x ∈ l, f x = .ok ()) → l.forM f = .ok ()
  | [], _ => by simp only [List.forM]; rfl
  | a :: l, h => by
    simp only [List.forM, h a List.mem_cons_self, bind, Except.bind]
    exact forM_ok f l (fun x hx => h x (List.mem_cons_of_mem _ hx))

/-- a literal without `null` and without variables, nested less deeply than the fuel, passes
    `graphql_parser_value_to_literal` against any existing type -/
theorem literalOk_plain {s : Schema} (hg : WfG s) : ∀ (fuel : Nat) (v : Value) (ty : TypeId) (quals : List Qual),
    tyOk s ty = true → plainVal v = true → valDepth v ≤ fuel → literalOk s fuel v ty quals = .ok () := by
  intro fuel
  induction fuel with
  | zero =>
    intro v ty quals _ _ hd
    cases v <;> simp [valDepth] at hd
  | succ n ih =>
    intro v ty quals hty hp hd
    cases v with
    | var x => simp [plainVal] at hp
    | null => simp [plainVal] at hp
    | list xs =>
      rw [plainVal] at hp
      rw [valDepth] at hd
      simp only [literalOk]
      apply forM_ok
      intro x hx
      have := plainVals_mem hp hx
      exact ih x ty _ hty this.1 (by omega)
    | obj kvs =>
      rw [plainVal] at hp
      rw [valDepth] at hd
      simp only [literalOk]
      cases ty with
      | input iid =>
        have hlt : iid < s.inputs.length := by simpa [tyOk] using hty
        simp only [TypeId.asInput?, getInput_some hlt, bind, Except.bind]
        apply forM_ok
        rintro ⟨fname, fty⟩ hf
        simp only []
        split
        · rename_i k v hfind
          have hm := List.mem_of_find?_eq_some hfind
          have := plainKVs_mem hp hm
          exact ih v fty.id _ (hg.inputTy _ (List.getElem_mem hlt) _ hf) this.1 (by simp only [] at this; omega)
        · rfl
      | _ => rfl
    | int x => simp [literalOk, pure, Except.pure]
    | float x => simp [literalOk, pure, Except.pure]
    | str x => simp [literalOk, pure, Except.pure]
    | bool x => simp [literalOk, pure, Except.pure]
    | «enum» x => simp [literalOk, pure, Except.pure]

/-- the syntactic form of `DocVarsOk`: variable types without `T!!`, default literals without `null` /
    variables and nested at most 64 levels — or the literal `null` for a variable of nullable type -/
def DocVarsPlain (d : QDoc) : Bool :=
  d.all fun
    | .op _ _ vars _ => vars.all (fun vd => qualsOk vd.ty.quals &&
        match vd.default with
        | some dv => (plainVal dv && decide (valDepth dv ≤ 64)) || (valueIsNull dv && (stripRequired vd.ty.quals).1)
        | none => true)
    | _ => true

theorem docVarsOk_of_plain {s : Schema} (hs : SchemaWf s = true) (hsg : SchemaWfGen s = true) {d : QDoc}
    (h : DocVarsPlain d = true) : DocVarsOk s d = true := by
  have hw := wf_of_schemaWf hs
  have hg := wfG_of hsg
  unfold DocVarsPlain at h
  unfold DocVarsOk
  rw [List.all_eq_true] at h ⊢
  intro x hx
  have := h x hx
  cases x with
  | op k n vars sels =>
    simp only [List.all_eq_true, Bool.and_eq_true] at this ⊢
    intro vd hvd
    refine ⟨(this vd hvd).1, ?_⟩
    have h2 := (this vd hvd).2
    cases hdv : vd.default with
    | none => rfl
    | some dv =>
      cases ht : s.findType vd.ty.base with
      | none => rfl
      | some t =>
        rw [hdv] at h2
        simp only [Bool.or_eq_true, Bool.and_eq_true, decide_eq_true_eq] at h2
        rcases h2 with h2 | h2
        · simp only [literalOk_plain hg 64 dv t vd.ty.quals (hw.names _ _ ht) h2.1 h2.2]
        · cases dv <;> simp only [valueIsNull, Bool.false_eq_true, false_and] at h2
          simp only [literalOk, h2.2, ↓reduceIte, pure, Except.pure]
  | _ => rfl

/-! ## non-vacuity and necessity -/

def isOk {α} : Outcome α → Bool | .ok _ => true | .error _ => false

/-- the C06 example schema (interface, union, three roots) plus input types, an enum and a custom scalar -/
def goodSdl : SdlDoc :=
  C06Sound.exampleSdl ++
  [.scalar "Date", .enum "Kind" ["A", "B"],
   .input "J" [] [("a", .nonNull (.named "Int")), ("k", .named "Kind"), ("d", .list (.named "Date")), ("j", .named "J")],
   .input "One" ["oneOf"] [("x", .named "Int"), ("y", .named "J")]]

/-- the C06 example document plus `query V($j: J = {a: 1, j: {a: 2}}, $o: One, $ks: [Kind!]! = [A]) { pet { ...P } }` -/
def goodDoc : QDoc :=
  C06Sound.exampleDoc ++
  [.op .query (some "V")
    [{ name := "j", ty := .named "J", default := some (.obj [("a", .int 1), ("j", .obj [("a", .int 2)])]) },
     { name := "o", ty := .named "One", default := none },
     { name := "ks", ty := .nonNull (.list (.nonNull (.named "Kind"))), default := some (.list [.enum "A"]) }]
    [.field none "pet" [.spread "P"]]]

/-- all hypotheses hold of a non-trivial instance; three modules are generated in CLI mode, one in derive mode -/
example : (match Sdl.fromSdl goodSdl with
    | .ok s =>
      SchemaWf s && SchemaWfGen s && Valid.validDoc s true goodDoc && Supported s goodDoc && DocVarsOk s goodDoc &&
      DocVarsPlain goodDoc &&
      (match generate s ⟨id, id⟩ {} "" goodDoc with | .ok ms => ms.length == 3 | .error _ => false) &&
      (match generate s ⟨id, id⟩ { mode := .derive, operationName := some "V" } "" goodDoc with
        | .ok ms => ms.length == 1 | .error _ => false)
    | .error _ => false) = true := by decide +kernel

def wSdl : SdlDoc :=
  [.input "I" ["oneOf"] [("a", .nonNull (.named "Int"))],
   .input "J" [] [("a", .nonNull (.named "Int")), ("j", .named "J")],
   .object "Query" [] [{ name := "a", ty := .named "String", directives := [] }]]

/-- on the schema `wSdl`: the document is valid, supported, the schema satisfies `SchemaWf`, `resolve` accepts,
    and `generate` **panics** with `msg` -/
def genPanics (d : QDoc) (msg : String) : Bool :=
  match Sdl.fromSdl wSdl with
  | .ok s => SchemaWf s && Valid.validDoc s true d && Supported s d && isOk (Resolve.resolve s d) &&
      (match generate s ⟨id, id⟩ {} "" d with | .error e => e == .panic msg | .ok _ => false)
  | .error _ => false

/-- `generate` succeeds on the schema `wSdl` -/
def genOk (d : QDoc) : Bool :=
  match Sdl.fromSdl wSdl with
  | .ok s => isOk (generate s ⟨id, id⟩ {} "" d)
  | .error _ => false

/-- `query Q($x: Int! = null) { a }`: `null` at a NON-NULL position still panics — while `query Q($x: Int = null) { a }`
    (a valid default: the type is nullable) is generated since the repair of the generator (`None`), and passes the
    syntactic condition -/
theorem w_default_null :
    genPanics [.op .query (some "Q") [{ name := "x", ty := .nonNull (.named "Int"), default := some .null }]
      [.field none "a" []]] "null as default value" = true ∧
    genOk [.op .query (some "Q") [{ name := "x", ty := .named "Int", default := some .null }] [.field none "a" []]] = true ∧
    DocVarsPlain [.op .query (some "Q") [{ name := "x", ty := .named "Int", default := some .null }]
      [.field none "a" []]] = true := by
  refine ⟨?_, ?_, ?_⟩ <;> decide +kernel

/-- `query Q($x: Int = $y) { a }` -/
theorem w_default_var :
    genPanics [.op .query (some "Q") [{ name := "x", ty := .named "Int", default := some (.var "y") }] [.field none "a" []]]
      "variable in variable" = true := by decide +kernel

/-- `query Q($x: J = {a: null}) { a }` (`a: Int!`: a `null` at a non-null member still panics; at the nullable member
    `j` — `{a: 1, j: null}` — and inside a list of nullable elements — `$y: [Int] = [1, null]` — it is generated;
    a `null` under an unknown key, `{zzz: null}`, is not looked at) -/
theorem w_default_null_nested :
    genPanics [.op .query (some "Q") [{ name := "x", ty := .named "J", default := some (.obj [("a", .null)]) }]
      [.field none "a" []]] "null as default value" = true ∧
    genOk [.op .query (some "Q")
      [{ name := "x", ty := .named "J", default := some (.obj [("a", .int 1), ("j", .null)]) },
       { name := "y", ty := .list (.named "Int"), default := some (.list [.int 1, .null]) }] [.field none "a" []]] = true ∧
    genPanics [.op .query (some "Q")
      [{ name := "y", ty := .list (.nonNull (.named "Int")), default := some (.list [.int 1, .null]) }]
      [.field none "a" []]] "null as default value" = true ∧
    genOk [.op .query (some "Q")
        [{ name := "x", ty := .named "J", default := some (.obj [("zzz", .null)]) }] [.field none "a" []]] = true := by
  refine ⟨?_, ?_, ?_, ?_⟩ <;> decide +kernel

/-- a variable of type `Int!!` (AST only) -/
theorem w_var_double_required :
    genPanics [.op .query (some "Q") [{ name := "x", ty := .nonNull (.nonNull (.named "Int")), default := none }]
      [.field none "a" []]] "double required annotation" = true := by decide +kernel

/-- `input I @oneOf { a: Int! }  query Q($x: I) { a }` — an SDL-expressible schema outside `SchemaWfGen` -/
theorem w_oneof_nonnull :
    genPanics [.op .query (some "Q") [{ name := "x", ty := .named "I", default := none }] [.field none "a" []]]
      "double required annotation" = true ∧
    (match Sdl.fromSdl wSdl with | .ok s => !SchemaWfGen s | .error _ => false) = true := by decide +kernel

/-- hand-made schemas (not obtainable from valid SDL) violating one clause of `SchemaWfGen` each -/
def handSchema (f : StoredField) (variants : List TypeId) : Schema :=
  { objects := [{ name := "Q", fields := [0], implements := [] }],
    fields := [f],
    unions := [{ name := "U", variants := variants }],
    scalars := ["S"],
    inputs := [{ name := "I", fields := [], isOneOf := false }],
    names := [("I", .input 0), ("Q", .object 0), ("S", .scalar 0), ("U", .union 0)],
    queryType := some 0 }

def handPanics (s : Schema) (d : QDoc) (msg : String) : Bool :=
  SchemaWf s && !SchemaWfGen s && Valid.validDoc s true d && Supported s d && isOk (Resolve.resolve s d) &&
    (match generate s ⟨id, id⟩ {} "" d with | .error e => e == .panic msg | .ok _ => false)

/-- a field of input-object type, selected as a leaf -/
theorem w_input_typed_field :
    handPanics (handSchema { name := "f", ty := { id := .input 0, quals := [] }, parent := .object 0, deprecation := none } [])
      [.op .query (some "Q") [] [.field none "f" []]] "field selection on input type" = true := by decide +kernel

/-- a field of type `S!!` -/
theorem w_double_required :
    handPanics (handSchema
        { name := "f", ty := { id := .scalar 0, quals := [.required, .required] }, parent := .object 0, deprecation := none } [])
      [.op .query (some "Q") [] [.field none "f" []]] "double required annotation" = true := by decide +kernel

/-- a union with a member id out of range -/
theorem w_dangling_variant :
    handPanics (handSchema { name := "f", ty := { id := .union 0, quals := [] }, parent := .object 0, deprecation := none }
        [.object 5])
      [.op .query (some "Q") [] [.field none "f" [.field none "__typename" []]]] "Schema::get_object" = true := by
  decide +kernel

end C02Gen
end GqlVerif
