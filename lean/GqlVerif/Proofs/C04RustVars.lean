import GqlVerif.Proofs.C04RustRename
import GqlVerif.Proofs.C01Rust
/-!
# C04 under `normalization = rust`: `variables_expressible_rust`, `variables_ser_valid_rust`

`C04Surjective*.lean` prove, for a context with `normalization = none`, that every valid assignment of the declared
variables is (in canonical form) the serialization of a value of the generated `Variables` type and is read back as it
(`variables_expressible`), and that every such value is written as a valid assignment (`variables_ser_valid`).  This
file transfers both to a context `c₁` with `normalization = rust`, as `C01Rust.lean` does for responses:

* the `none` theorems are applied to `c₀` (`c₀ = noNorm c₁` in the primed forms);
* `C09N.normalization_wire_invariant_of_names` relates the two generated modules (`EnvRen`, `Variables ↔ Variables`);
* `C04R.hasTy_rename` (`C04RustRename.lean`) moves the typed value across: the `Variables` value of `c₀`'s module has
  exactly one counterpart in `c₁`'s module (equal up to the identifiers of enum variants, `sort_order::desc` ↔
  `SortOrder::Desc`), it has type `Variables` there, and `ser_rename` / `de_rename` say it is written to / read from the
  same JSON.

**Environment.**  `C04S.moduleEnv c items` completes a module by `externsFor c`: `String` for every custom scalar under
`<scalars module>::<raw name>` and for every extern enum under its raw name.  A module generated under `rust` refers to
`<scalars module>::<CamelName>` and to the enum under `normalization.fieldType` of its name: `externsForN` /
`moduleEnvN` use these names (`externsForN_none`: under `none` nothing changes).

**Hypotheses** (`RustSideV c₀ c₁ op items₀ items₁` = `C01.E2E.WireSide` at `externsFor c₀` / `externsForN c₁`, i.e. exactly
the hypotheses of `normalization_wire_invariant_of_names`, all decidable on concrete data):
`NormAgree c₀ c₁`, `IdStable c₀ c₁`, both generations succeed, `NamesInjective`, `EnumIdentsInjective`, `FieldsWF` (the
shape condition on the externs is automatic: `RustSideV.mk'`); plus those of the `none` theorem about `c₀` / `items₀`
(`hnorm hkwI hkwS hkwE hwf hrel hvars hdef hmem hprim hfree`, `hint` resp. `hL hopen`).  No new side condition: `ValWF`
of the two modules, which `hasTy_rename` needs, is derived (`valWF_of_generated`) from `hmem` and the fact that string
enums only come from `enumItem` (`ModRel`).
-/
namespace GqlVerif
namespace C04R
open Serde Codegen C09 C09N C04S
open C01.E2E (WireSide noNorm normAgree_noNorm)

/-! ## the environment of a module generated under any normalization -/

/-- what the consumer supplies, **under the names the module refers to** -/
def externsForN (c : Ctx) : List (String × RTy) :=
  (customScalars c.s).map (fun n =>
    ((c.o.scalarsModule.getD "super") ++ "::" ++ c.o.normalization.scalarName c.cs n, RTy.path "String")) ++
  c.o.externEnums.map (fun n => (c.o.normalization.fieldType c.cs n, RTy.path "String"))

def moduleEnvN (c : Ctx) (items : List Item) : Env := { items := items, externs := externsForN c }

theorem externsForN_none {c : Ctx} (h : c.o.normalization = .none) : externsForN c = externsFor c := by
  unfold externsForN externsFor scalarPath
  simp only [h, Normalization.scalarName, Normalization.fieldType, Normalization.camelCase, ite_self]

theorem moduleEnvN_none {c : Ctx} (h : c.o.normalization = .none) (items : List Item) :
    moduleEnvN c items = moduleEnv c items := by
  unfold moduleEnvN moduleEnv; rw [externsForN_none h]

theorem externs_sameShape {c₀ c₁ : Ctx} (hs : c₁.s = c₀.s) (hx : c₁.o.externEnums = c₀.o.externEnums) :
    (externsFor c₀).map (fun x => eraseTy x.2) = (externsForN c₁).map (fun x => eraseTy x.2) := by
  unfold externsFor externsForN
  simp only [hs, hx, List.map_append, List.map_map, Function.comp_def]

/-- the side conditions of `normalization_wire_invariant_of_names` for the two generated modules, read in
    `moduleEnv c₀ items₀` (the environment of the `none` theorems) and `moduleEnvN c₁ items₁` -/
abbrev RustSideV (c₀ c₁ : Ctx) (opIdx : Nat) (items₀ items₁ : List Item) : Prop :=
  WireSide c₀ c₁ opIdx items₀ items₁ (externsFor c₀) (externsForN c₁)

theorem RustSideV.mk' {c₀ c₁ : Ctx} {opIdx : Nat} {items₀ items₁ : List Item} (H : NormAgree c₀ c₁)
    (hid : IdStable c₀ c₁) (h₀ : responseForQuery c₀ opIdx = .ok items₀) (h₁ : responseForQuery c₁ opIdx = .ok items₁)
    (hn : NamesInjective (moduleEnv c₀ items₀) (moduleEnvN c₁ items₁)) (he : EnumIdentsInjective c₀ c₁)
    (hwf : FieldsWF (moduleEnv c₀ items₀)) : RustSideV c₀ c₁ opIdx items₀ items₁ :=
  { agree := H, idStable := hid, gen₀ := h₀, gen₁ := h₁, shape := externs_sameShape H.s H.externEnums, names := hn,
    enums := he, wf := hwf }

/-- the form of the task: `c₀ = { c₁ with o.normalization := none }` -/
theorem RustSideV.of_noNorm {c₁ : Ctx} {opIdx : Nat} {items₀ items₁ : List Item}
    (hid : IdStable (noNorm c₁) c₁) (h₀ : responseForQuery (noNorm c₁) opIdx = .ok items₀)
    (h₁ : responseForQuery c₁ opIdx = .ok items₁)
    (hn : NamesInjective (moduleEnv (noNorm c₁) items₀) (moduleEnvN c₁ items₁))
    (he : EnumIdentsInjective (noNorm c₁) c₁) (hwf : FieldsWF (moduleEnv (noNorm c₁) items₀)) :
    RustSideV (noNorm c₁) c₁ opIdx items₀ items₁ :=
  RustSideV.mk' (normAgree_noNorm c₁) hid h₀ h₁ hn he hwf

/-! ## `ValWF` of two generated modules -/

theorem enumItem_ok (c : Ctx) (en : StoredEnum) : ItemOK (enumItem c en) := by
  simp only [enumItem, ItemOK, List.map_map, Function.comp_def]

theorem itemOK_of_memberIdents {it : Item} (h : (C02.memberIdents it).Nodup) (hne : isEnum it = false) : ItemOK it := by
  cases it <;> simp_all [ItemOK, C02.memberIdents, isEnum]

theorem itemOK_ren {R : String → String → Prop} {it it' : Item} (h : ItemRen R it it') (hne : isEnum it = false)
    (hok : ItemOK it) : ItemOK it' := by
  cases h with
  | struct hn hfs =>
    simp only [ItemOK] at hok ⊢
    rw [← All2.map_eq hfs (f := (·.rust)) (g := (·.rust)) (fun a b hab => hab.rust.symm)]
    exact hok
  | oneOf hn hvs =>
    simp only [ItemOK] at hok ⊢
    rw [← All2.map_eq hvs (f := (·.name)) (g := (·.name)) (fun a b hab => hab.name.symm)]
    exact hok
  | gqlEnum hn hen => simp [isEnum] at hne
  | unitStruct hn => trivial
  | tagged hn hvs => trivial
  | «alias» hn ht => trivial
  | defaults hn => trivial

theorem all2_partner_left {α β} {S : α → β → Prop} : ∀ {l : List α} {l' : List β}, All2 S l l' →
    ∀ a ∈ l, ∃ b, (a, b) ∈ l.zip l' ∧ S a b
  | _, _, .nil, a, h => by cases h
  | _, _, .cons (a := x) (b := y) hab t, a, h => by
    rcases List.mem_cons.mp h with rfl | h
    · exact ⟨y, by simp, hab⟩
    · obtain ⟨b, h1, h3⟩ := all2_partner_left t a h
      exact ⟨b, by simp [h1], h3⟩

/-- both generated modules satisfy `ValWF`: members are distinct in the first (`hmem`: it compiles) hence in the second
    (the renaming keeps member identifiers of structs and `@oneOf` enums); string enums are `enumItem`s -/
theorem valWF_of_generated {c₀ c₁ : Ctx} {items₀ items₁ : List Item} {x₀ x₁ : List (String × RTy)}
    {R : String → String → Prop} (henv : EnvRen R { items := items₀, externs := x₀ } { items := items₁, externs := x₁ })
    (hm : ModRel c₀ c₁ items₀ items₁) (hmem : ∀ it ∈ items₀, (C02.memberIdents it).Nodup) :
    ValWF { items := items₀, externs := x₀ } ∧ ValWF { items := items₁, externs := x₁ } := by
  obtain ⟨_, _, _, _, _, _, _, _, _, _, _, _, _, _, _, _, _, _, hef⟩ := hm
  have hpair : ∀ x ∈ items₀.zip items₁, ItemRen R x.1 x.2 → ItemOK x.1 ∧ ItemOK x.2 := by
    intro x hx hren
    rcases hef x hx with ⟨en, _, hxe⟩ | hne
    · rw [hxe]; exact ⟨enumItem_ok c₀ en, enumItem_ok c₁ en⟩
    · have hx' : (x.1, x.2) ∈ items₀.zip items₁ := hx
      have h1 := itemOK_of_memberIdents (hmem x.1 (List.of_mem_zip hx').1) hne
      exact ⟨h1, itemOK_ren hren hne h1⟩
  constructor
  · intro it hit
    obtain ⟨it', hz, hren⟩ := all2_partner_left henv.items it hit
    exact (hpair (it, it') hz hren).1
  · intro it' hit'
    obtain ⟨it, hz, _, hren⟩ := all2_partner_right henv.items it' hit'
    exact (hpair (it, it') hz hren).2

/-! ## the transfer -/

section Transfer
variable {c₀ c₁ : Ctx} {op : Nat} {items₀ items₁ : List Item} (W : RustSideV c₀ c₁ op items₀ items₁)
include W

/-- what `RustSideV` gives: the two environments are related by the renaming `Corr`, `Variables` corresponds to
    `Variables`, and (with `hmem`) both satisfy `ValWF` -/
theorem RustSideV.env (hmem : ∀ it ∈ items₀, (C02.memberIdents it).Nodup) :
    EnvRen (Corr (moduleEnv c₀ items₀) (moduleEnvN c₁ items₁)) (moduleEnv c₀ items₀) (moduleEnvN c₁ items₁) ∧
    Corr (moduleEnv c₀ items₀) (moduleEnvN c₁ items₁) "Variables" "Variables" ∧
    ValWF (moduleEnv c₀ items₀) ∧ ValWF (moduleEnvN c₁ items₁) := by
  have henv := (normalization_wire_invariant_of_names W.agree W.idStable op W.gen₀ W.gen₁ _ _ W.shape W.names W.enums
    W.wf).1
  have hm := normalization_modRel W.agree W.idStable op
  rw [W.gen₀, W.gen₁] at hm
  have hm' : ModRel c₀ c₁ items₀ items₁ := hm
  have hw := valWF_of_generated henv hm' hmem
  exact ⟨henv, (hm'.corr _ _).1, hw.1, hw.2⟩

/-- **`variables_expressible_rust`.**  `c₁` (normalization `rust`) and `c₀` (normalization `none`) agree otherwise;
    under the side conditions of the wire invariant and of `variables_expressible` for `c₀`: every valid assignment of
    the operation's variables is — in the same canonical form, a function of the schema, the query and `skipNone` only —
    the serialization of a value of the `Variables` type of `c₁`'s module, and is read back as that value. -/
theorem variables_expressible_rust (L : Leaves)
    (hnorm : c₀.o.normalization = .none)
    (hkwI : ∀ i ∈ c₀.s.inputs, keywordReplace i.name = i.name)
    (hkwS : ∀ n ∈ c₀.s.scalars, keywordReplace n = n)
    (hkwE : ∀ e ∈ c₀.s.enums, keywordReplace e.name = e.name)
    (hwf : C02.OutputOnly c₀.s c₀.q = true) (hrel : C02.InputFieldsRelevant c₀.s = true)
    (hvars : ∀ v ∈ c₀.q.opVariables op, C02.Relevant v.ty.id)
    (hdef : (Scope.defines items₀).Nodup) (hmem : ∀ it ∈ items₀, (C02.memberIdents it).Nodup)
    (hprim : ∀ it ∈ items₀, C01.notPrim it.name) (hfree : ExternsFree c₀ items₀)
    (hint : ∀ n, L.intOk n = true → inI64 n = true)
    (hne : c₀.q.opVariables op ≠ []) (kvs : List (String × Json))
    (hvalid : VarsValid L c₀ op kvs) :
    ∃ x, HasTy (moduleEnvN c₁ items₁) (.path "Variables") x ∧
      Serde.ser (moduleEnvN c₁ items₁) (.path "Variables") x = .ok (canonVars c₀ op kvs) ∧
      ((∀ n, L.idInt n = false) → Serde.de (moduleEnvN c₁ items₁) (.path "Variables") (.obj kvs) = .ok x) := by
  obtain ⟨x₀, hx₀, hs₀, hd₀⟩ := variables_expressible L c₀ op items₀ hnorm hkwI hkwS hkwE hwf hrel hvars hdef hmem hprim
    hfree hint W.gen₀ hne kvs hvalid
  obtain ⟨henv, hcorr, hw, hw'⟩ := W.env hmem
  obtain ⟨x₁, hc, hser⟩ := hasTy_rename_ser henv hw hw' (t := .path "Variables") (t' := .path "Variables") hcorr hx₀
  refine ⟨x₁, hc.2.1, (drel_eq_ok hser _).mp hs₀, fun hno => ?_⟩
  have hde := de_rename henv W.wf (t := .path "Variables") (t' := .path "Variables") hcorr (.obj kvs)
  rw [hd₀ hno] at hde
  cases h1 : Serde.de (moduleEnvN c₁ items₁) (.path "Variables") (.obj kvs) with
  | error err => rw [h1] at hde; exact hde.elim
  | ok x₁' => rw [h1] at hde; rw [hc.2.2 x₁' hde]

/-- **`variables_ser_valid_rust`.**  Every value of the `Variables` type of `c₁`'s module is written as a JSON object
    that is a valid variables assignment of the operation (for the wire leaves: `hL`, `hopen`). -/
theorem variables_ser_valid_rust (L : Leaves)
    (hnorm : c₀.o.normalization = .none)
    (hkwI : ∀ i ∈ c₀.s.inputs, keywordReplace i.name = i.name)
    (hkwS : ∀ n ∈ c₀.s.scalars, keywordReplace n = n)
    (hkwE : ∀ e ∈ c₀.s.enums, keywordReplace e.name = e.name)
    (hwf : C02.OutputOnly c₀.s c₀.q = true) (hrel : C02.InputFieldsRelevant c₀.s = true)
    (hvars : ∀ v ∈ c₀.q.opVariables op, C02.Relevant v.ty.id)
    (hdef : (Scope.defines items₀).Nodup) (hmem : ∀ it ∈ items₀, (C02.memberIdents it).Nodup)
    (hprim : ∀ it ∈ items₀, C01.notPrim it.name) (hfree : ExternsFree c₀ items₀)
    (hL : ∀ n, inI64 n = true → L.intOk n = true) (hopen : L.enumOpen = true)
    (hne : c₀.q.opVariables op ≠ [])
    (x : Val) (hx : HasTy (moduleEnvN c₁ items₁) (.path "Variables") x) (j : Json)
    (hs : Serde.ser (moduleEnvN c₁ items₁) (.path "Variables") x = .ok j) :
    ∃ kvs, j = .obj kvs ∧ VarsValid L c₀ op kvs := by
  obtain ⟨henv, hcorr, hw, hw'⟩ := W.env hmem
  obtain ⟨x₀, hx₀, hser⟩ := hasTy_rename_back henv hw hw' (t := .path "Variables") (t' := .path "Variables") hcorr hx
  exact variables_ser_valid L c₀ op items₀ hnorm hkwI hkwS hkwE hwf hrel hvars hdef hmem hprim hfree hL hopen W.gen₀ hne
    x₀ hx₀ j ((drel_eq_ok hser _).mpr hs)

/-- the operation without variables: `struct Variables;` in both modules, written as `null` -/
theorem no_variables_expressible_rust (hdef : (Scope.defines items₀).Nodup)
    (hmem : ∀ it ∈ items₀, (C02.memberIdents it).Nodup) (hnil : c₀.q.opVariables op = []) :
    HasTy (moduleEnvN c₁ items₁) (.path "Variables") .unit ∧
    Serde.ser (moduleEnvN c₁ items₁) (.path "Variables") .unit = .ok .null := by
  obtain ⟨hx₀, hs₀⟩ := no_variables_expressible c₀ op items₀ hdef W.gen₀ hnil
  obtain ⟨henv, hcorr, hw, hw'⟩ := W.env hmem
  obtain ⟨x₁, hc, hser⟩ := hasTy_rename_ser henv hw hw' (t := .path "Variables") (t' := .path "Variables") hcorr hx₀
  have : x₁ = .unit := (hc.2.2 .unit (.plain rfl)).symm
  subst this
  exact ⟨hc.2.1, (drel_eq_ok hser _).mp hs₀⟩

end Transfer

/-! ## the form of the task: a context `c₁` with `normalization = rust`, `c₀ := noNorm c₁`

`(noNorm c₁).s`, `.q`, `.cs`, `.o.skipNone` … are definitionally `c₁`'s: the statements below only mention `c₁`. -/

/-- **`variables_expressible_rust'`** -/
theorem variables_expressible_rust' (L : Leaves) (c₁ : Ctx) (op : Nat) (items₀ items₁ : List Item)
    (W : RustSideV (noNorm c₁) c₁ op items₀ items₁)
    (hkwI : ∀ i ∈ c₁.s.inputs, keywordReplace i.name = i.name)
    (hkwS : ∀ n ∈ c₁.s.scalars, keywordReplace n = n)
    (hkwE : ∀ e ∈ c₁.s.enums, keywordReplace e.name = e.name)
    (hwf : C02.OutputOnly c₁.s c₁.q = true) (hrel : C02.InputFieldsRelevant c₁.s = true)
    (hvars : ∀ v ∈ c₁.q.opVariables op, C02.Relevant v.ty.id)
    (hdef : (Scope.defines items₀).Nodup) (hmem : ∀ it ∈ items₀, (C02.memberIdents it).Nodup)
    (hprim : ∀ it ∈ items₀, C01.notPrim it.name) (hfree : ExternsFree (noNorm c₁) items₀)
    (hint : ∀ n, L.intOk n = true → inI64 n = true)
    (hne : c₁.q.opVariables op ≠ []) (kvs : List (String × Json))
    (hvalid : VarsValid L c₁ op kvs) :
    ∃ x, HasTy (moduleEnvN c₁ items₁) (.path "Variables") x ∧
      Serde.ser (moduleEnvN c₁ items₁) (.path "Variables") x = .ok (canonVars c₁ op kvs) ∧
      ((∀ n, L.idInt n = false) → Serde.de (moduleEnvN c₁ items₁) (.path "Variables") (.obj kvs) = .ok x) :=
  variables_expressible_rust W L rfl hkwI hkwS hkwE hwf hrel hvars hdef hmem hprim hfree hint hne kvs
    ⟨hvalid.nodup, hvalid.declared, hvalid.required, hvalid.valid⟩

/-- **`variables_ser_valid_rust'`** -/
theorem variables_ser_valid_rust' (L : Leaves) (c₁ : Ctx) (op : Nat) (items₀ items₁ : List Item)
    (W : RustSideV (noNorm c₁) c₁ op items₀ items₁)
    (hkwI : ∀ i ∈ c₁.s.inputs, keywordReplace i.name = i.name)
    (hkwS : ∀ n ∈ c₁.s.scalars, keywordReplace n = n)
    (hkwE : ∀ e ∈ c₁.s.enums, keywordReplace e.name = e.name)
    (hwf : C02.OutputOnly c₁.s c₁.q = true) (hrel : C02.InputFieldsRelevant c₁.s = true)
    (hvars : ∀ v ∈ c₁.q.opVariables op, C02.Relevant v.ty.id)
    (hdef : (Scope.defines items₀).Nodup) (hmem : ∀ it ∈ items₀, (C02.memberIdents it).Nodup)
    (hprim : ∀ it ∈ items₀, C01.notPrim it.name) (hfree : ExternsFree (noNorm c₁) items₀)
    (hL : ∀ n, inI64 n = true → L.intOk n = true) (hopen : L.enumOpen = true)
    (hne : c₁.q.opVariables op ≠ [])
    (x : Val) (hx : HasTy (moduleEnvN c₁ items₁) (.path "Variables") x) (j : Json)
    (hs : Serde.ser (moduleEnvN c₁ items₁) (.path "Variables") x = .ok j) :
    ∃ kvs, j = .obj kvs ∧ VarsValid L c₁ op kvs := by
  obtain ⟨kvs, hj, hv⟩ := variables_ser_valid_rust W L rfl hkwI hkwS hkwE hwf hrel hvars hdef hmem hprim hfree hL hopen
    hne x hx j hs
  exact ⟨kvs, hj, ⟨hv.nodup, hv.declared, hv.required, hv.valid⟩⟩

end C04R
end GqlVerif
