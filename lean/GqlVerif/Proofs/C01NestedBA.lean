import GqlVerif.Proofs.C01NestedGenXJ
/-!
# `NestedBOp`, part A: class, closed form

`NestedGen2Op` (`C01NestedGenX*`) plus, at a field of interface / union type, **(b)-spreads** `...G` with `G` a fragment on the
abstract type itself whose body is spread-free and made of `__typename` and interface-level scalar / enum fields (what
`VariantSpreadOp` allows for (b), without inline fragments inside `G`).  The generator emits one flattened member per
(b)-spread in the interface-level struct (`fieldsB`); the variant side is the one of `NestedGen2Op` on the selection set
without its (b)-spreads (`unB`).
-/
set_option linter.unusedSimpArgs false
set_option linter.unusedVariables false
set_option linter.unusedSectionVars false
set_option linter.unnecessarySimpa false

namespace GqlVerif
namespace C01NB
open Serde Spec C13 C03 Codegen C01 C01.E2E C01M C01N C01NA C01NG C01NX

/-! ## the class -/

/-- the selection set without its (b)-spreads (spreads of fragments on the abstract type `ty` itself) -/
def unB (q : Query) (ty : TypeId) (sub : List Sel) : List Sel := sub.filter (fun x => !isBSpread q ty x)

/-- the (b)-spreads of the selection set -/
def bSels (q : Query) (ty : TypeId) (sub : List Sel) : List Sel := sub.filter (isBSpread q ty)

/-- the body of a (b)-fragment of the class: `__typename` and scalar / enum fields, nothing else -/
def bBodyOk (s : Schema) (q : Query) (o : Options) (sels : List Sel) : Bool :=
  sels.all (fun y => (isTypename y || isFieldSel y) && leafSel s q o y)

/-- a (b)-spread of the class: `fragOkB` (as in `VariantSpreadOp`), body `bBodyOk`, and none of its field keys is an
    interface-level field key of the position (`__typename` is shared) -/
def bOk (s : Schema) (q : Query) (o : Options) (ty : TypeId) (sub : List Sel) : Sel → Bool
  | .spread g => !isBSpread q ty (.spread g) ||
      (fragOkB s q o ty g && bBodyOk s q o (fragSels q g) &&
        (fieldKeys s (fragSels q g)).all (fun k => !(fieldKeys s (C01NG.ownSels sub)).contains k))
  | _ => true

/-- a selection set on the abstract type `ty`: without its (b)-spreads a selection set of `NestedGen2Op` (`absSubX`), and any
    number of (b)-spreads -/
def absSubB (ok : TypeId → Nat → Bool) (s : Schema) (q : Query) (o : Options) (ty : TypeId) (sub : List Sel) : Bool :=
  absSubX ok s q o ty (unB q ty sub) && sub.all (bOk s q o ty sub)

/-- a field of interface / union type with a selection set of the general kind -/
def absFieldB (ok : TypeId → Nat → Bool) (s : Schema) (q : Query) (o : Options) (sf : StoredField) (sub : List Sel) : Bool :=
  wfQuals sf.ty.quals && !(sf.deprecation.isSome && o.deprecation == .deny) && absTyOk s sf.ty.id &&
    absSubB ok s q o sf.ty.id sub

mutual
  /-- one selection of an object-level selection set on `parent` -/
  def aSel (ok : TypeId → Nat → Bool) (s : Schema) (q : Query) (o : Options) (parent : TypeId) : Sel → Bool
    | .field a fid sub =>
      match s.fields[fid]? with
      | none => false
      | some sf =>
        match sf.ty.id with
        | .object i =>
          wfQuals sf.ty.quals && !(sf.deprecation.isSome && o.deprecation == .deny) && (s.objects[i]?).isSome &&
            (match sub with
             | [.spread g] => ok (.object i) g
             | _ => aSels ok s q o (.object i) sub)
        | _ => sSel s q o false (.field a fid sub) || absFieldB ok s q o sf sub
    | .typename => true
    | .spread g => ok parent g
    | .inline _ _ => false
  def aSels (ok : TypeId → Nat → Bool) (s : Schema) (q : Query) (o : Options) (parent : TypeId) : List Sel → Bool
    | [] => true
    | x :: xs => aSel ok s q o parent x && aSels ok s q o parent xs
end

def aBody (ok : TypeId → Nat → Bool) (s : Schema) (q : Query) (o : Options) (parent : TypeId) (sels : List Sel) : Bool :=
  match sels with
  | [.spread g] => ok parent g
  | _ => aSels ok s q o parent sels

/-- **the class `NestedBOp`** (decidable) -/
def NestedBOp (c : Ctx) (op : ROperation) : Bool :=
  c.o.normalization == .none && (c.s.objects[op.objectId]?).isSome &&
  aBody (fragOkN c.s c.q c.o c.q.fragments.length) c.s c.q c.o (.object op.objectId) op.sels

/-! ## closed form -/

/-- the items of an abstract position: the struct with the interface-level fields, **one flattened member per (b)-spread**
    and the flattened `on` + the tagged enum `…On` (or the tagged enum alone), then per possible type the item of
    `NestedGen2Op` -/
def absItemsB (c : Ctx) (name pfx : String) (ty : TypeId) (sub : List Sel) : List Item :=
  renderType c name (fieldsB c pfx ty sub) (variantsV c pfx ty (marks c.q (unB c.q ty sub))) ++
    (vtsOfTy c.s ty).flatMap (fun vt => variantHeadX c pfx vt (unB c.q ty sub))

mutual
  def itemsA (c : Ctx) (pfx : String) : Sel → List Item
    | .field a fid sub =>
      match c.s.fields[fid]? with
      | none => []
      | some sf =>
        match sf.ty.id with
        | .object _ =>
          (match sub with
           | [.spread g] => [aliasItem (pfx ++ c.cs.camel (a.getD sf.name)) (fragName c g) false]
           | _ => .struct (pfx ++ c.cs.camel (a.getD sf.name)) c.respDerives c.serdeCrate
                    (fieldsOfF c (pfx ++ c.cs.camel (a.getD sf.name)) sub) ::
                  itemsAs c (pfx ++ c.cs.camel (a.getD sf.name)) sub)
        | ty =>
          if sSel c.s c.q c.o false (.field a fid sub) then itemsS c pfx (.field a fid sub)
          else absItemsB c (pfx ++ c.cs.camel (a.getD sf.name)) (pfx ++ c.cs.camel (a.getD sf.name)) ty sub
    | _ => []
  def itemsAs (c : Ctx) (pfx : String) : List Sel → List Item
    | [] => []
    | x :: xs => itemsA c pfx x ++ itemsAs c pfx xs
end

/-- **closed form** of the items of an object-level selection set -/
def bodyItemsA (c : Ctx) (name pfx : String) (sels : List Sel) : List Item :=
  match sels with
  | [.spread g] => [aliasItem name (fragName c g) false]
  | _ => .struct name c.respDerives c.serdeCrate (fieldsOfF c pfx sels) :: itemsAs c pfx sels

/-! ## basic facts -/

section Basic
variable {ok : TypeId → Nat → Bool} {s : Schema} {q : Query} {o : Options}

theorem aSels_cons {p : TypeId} {x : Sel} {xs : List Sel}
    (h : aSels ok s q o p (x :: xs) = true) : aSel ok s q o p x = true ∧ aSels ok s q o p xs = true := by
  simpa [aSels] using h

theorem aSels_mem {p : TypeId} : ∀ {sels : List Sel}, aSels ok s q o p sels = true →
    ∀ x ∈ sels, aSel ok s q o p x = true
  | [], _, _, hx => by simp at hx
  | y :: ys, h, x, hx => by
    obtain ⟨h1, h2⟩ := aSels_cons h
    rcases List.mem_cons.mp hx with rfl | hx'
    · exact h1
    · exact aSels_mem h2 x hx'

theorem aBody_not_lone {p : TypeId} {sels : List Sel}
    (h : ∀ g, sels ≠ [Sel.spread g]) : aBody ok s q o p sels = aSels ok s q o p sels := by
  unfold aBody
  split
  · rename_i g; exact absurd rfl (h g)
  · rfl

theorem aBody_lone {p : TypeId} {g : Nat} : aBody ok s q o p [Sel.spread g] = ok p g := rfl

theorem bodyItemsA_not_lone (c : Ctx) (name pfx : String) {sels : List Sel} (h : ∀ g, sels ≠ [Sel.spread g]) :
    bodyItemsA c name pfx sels =
      .struct name c.respDerives c.serdeCrate (fieldsOfF c pfx sels) :: itemsAs c pfx sels := by
  unfold bodyItemsA
  split
  · rename_i g; exact absurd rfl (h g)
  · rfl

theorem aSel_obj {p : TypeId} {a : Option String} {fid : Nat} {sub : List Sel}
    {sf : StoredField} {i : Nat} (hsf : s.fields[fid]? = some sf) (hid : sf.ty.id = .object i)
    (h : aSel ok s q o p (.field a fid sub) = true) :
    wfQuals sf.ty.quals = true ∧ (sf.deprecation.isSome && o.deprecation == .deny) = false ∧
      (s.objects[i]?).isSome = true ∧ aBody ok s q o (.object i) sub = true := by
  rw [aSel] at h
  simp only [hsf, hid, Bool.and_eq_true] at h
  obtain ⟨⟨⟨hw, hdep⟩, hobj⟩, hb⟩ := h
  refine ⟨hw, ?_, hobj, hb⟩
  cases hd : (sf.deprecation.isSome && o.deprecation == .deny) with
  | false => rfl
  | true => simp [hd] at hdep

/-- a field of the class that is not object-typed: a field of `VariantSpreadOp`, or of the new kind -/
theorem aSel_nonobj {p : TypeId} {a : Option String} {fid : Nat} {sub : List Sel}
    {sf : StoredField} (hsf : s.fields[fid]? = some sf) (hno : ∀ i, sf.ty.id ≠ .object i)
    (h : aSel ok s q o p (.field a fid sub) = true) :
    sSel s q o false (.field a fid sub) = true ∨
      (sSel s q o false (.field a fid sub) = false ∧ absFieldB ok s q o sf sub = true) := by
  rw [aSel] at h
  simp only [hsf] at h
  have h' : (sSel s q o false (.field a fid sub) || absFieldB ok s q o sf sub) = true := by
    cases hid : sf.ty.id with
    | object i => exact absurd hid (hno i)
    | scalar k => simpa [hid] using h
    | «enum» k => simpa [hid] using h
    | interface k => simpa [hid] using h
    | union k => simpa [hid] using h
    | input k => simpa [hid] using h
  cases hs : sSel s q o false (.field a fid sub) with
  | true => exact .inl rfl
  | false => rw [hs] at h'; exact .inr ⟨rfl, by simpa using h'⟩

theorem aSel_field_some {p : TypeId} {a : Option String} {fid : Nat} {sub : List Sel}
    (h : aSel ok s q o p (.field a fid sub) = true) : ∃ sf, s.fields[fid]? = some sf := by
  rw [aSel] at h
  cases hsf : s.fields[fid]? with
  | none => simp [hsf] at h
  | some sf => exact ⟨sf, rfl⟩

theorem absFieldB_parts {sf : StoredField} {sub : List Sel} (h : absFieldB ok s q o sf sub = true) :
    wfQuals sf.ty.quals = true ∧ (sf.deprecation.isSome && o.deprecation == .deny) = false ∧
      absHyp s sf.ty.id ∧ absSubB ok s q o sf.ty.id sub = true := by
  simp only [absFieldB, Bool.and_eq_true] at h
  obtain ⟨⟨⟨hw, hdep⟩, hty⟩, hsub⟩ := h
  refine ⟨hw, ?_, absTyOk_absHyp hty, hsub⟩
  cases hd : (sf.deprecation.isSome && o.deprecation == .deny) with
  | false => rfl
  | true => simp [hd] at hdep

end Basic
/-! ## the selection set of a position of the class -/

/-- what `bOk` says of a (b)-spread -/
structure BFrag (s : Schema) (q : Query) (o : Options) (ty : TypeId) (sub : List Sel) (g : Nat) : Prop where
  okB : fragOkB s q o ty g = true
  body : bBodyOk s q o (fragSels q g) = true
  keys : ∀ k ∈ fieldKeys s (fragSels q g), k ∉ fieldKeys s (C01NG.ownSels sub)

/-- what `absSubB` says, as propositions -/
structure SpecialB (ok : TypeId → Nat → Bool) (s : Schema) (q : Query) (o : Options) (ty : TypeId) (sub : List Sel) :
    Prop where
  x : SpecialX ok s q o ty (unB q ty sub)
  b : ∀ g, Sel.spread g ∈ sub → isBSpread q ty (.spread g) = true → BFrag s q o ty sub g

theorem absSubB_parts {ok : TypeId → Nat → Bool} {s : Schema} {q : Query} {o : Options} {ty : TypeId} {sub : List Sel}
    (h : absSubB ok s q o ty sub = true) : SpecialB ok s q o ty sub := by
  simp only [absSubB, Bool.and_eq_true, List.all_eq_true] at h
  refine ⟨absSubX_parts h.1, fun g hg hb => ?_⟩
  have := h.2 _ hg
  simp only [bOk, hb, Bool.not_true, Bool.false_or, Bool.and_eq_true, List.all_eq_true, Bool.not_eq_true'] at this
  exact ⟨this.1.1, this.1.2, fun k hk hm => by have := this.2 k hk; simp_all⟩

theorem mem_unB {q : Query} {ty : TypeId} {sub : List Sel} {x : Sel} :
    x ∈ unB q ty sub ↔ x ∈ sub ∧ isBSpread q ty x = false := by
  simp [unB, List.mem_filter]

theorem mem_bSels {q : Query} {ty : TypeId} {sub : List Sel} {x : Sel} :
    x ∈ bSels q ty sub ↔ x ∈ sub ∧ isBSpread q ty x = true := by
  simp [bSels, List.mem_filter]

theorem unB_length_le (q : Query) (ty : TypeId) (sub : List Sel) : (unB q ty sub).length ≤ sub.length :=
  List.length_filter_le _ _

theorem unB_eq_self {q : Query} {ty : TypeId} {sub : List Sel} (h : ∀ x ∈ sub, isBSpread q ty x = false) :
    unB q ty sub = sub := by
  unfold unB
  rw [List.filter_eq_self]
  intro x hx
  simp [h x hx]

theorem isBSpread_spread {q : Query} {ty : TypeId} {x : Sel} (h : isBSpread q ty x = true) :
    ∃ g f, x = .spread g ∧ q.fragments[g]? = some f ∧ f.on = ty := by
  cases x with
  | spread g =>
    simp only [isBSpread] at h
    cases hf : q.fragments[g]? with
    | none => simp [hf] at h
    | some f => simp only [hf, beq_iff_eq] at h; exact ⟨g, f, rfl, hf, h⟩
  | field a fid sub' => simp [isBSpread] at h
  | inline t sub' => simp [isBSpread] at h
  | typename => simp [isBSpread] at h

theorem vselsOfS_unB (q : Query) (ty : TypeId) : ∀ (sub : List Sel), vselsOfS q ty (unB q ty sub) = vselsOfS q ty sub
  | [] => rfl
  | x :: xs => by
    have ih := vselsOfS_unB q ty xs
    unfold vselsOfS unB at ih ⊢
    rw [List.filter_cons]
    cases hb : isBSpread q ty x with
    | false =>
      simp only [Bool.not_false, ↓reduceIte, List.filterMap_cons, ih]
    | true =>
      obtain ⟨g, f, rfl, hf, hon⟩ := isBSpread_spread hb
      simp only [Bool.not_true, Bool.false_eq_true, ↓reduceIte, List.filterMap_cons, ih]
      simp [vselOfS, hf, hon]

theorem SpecialB.ne_nil {ok : TypeId → Nat → Bool} {s : Schema} {q : Query} {o : Options} {ty : TypeId} {sub : List Sel}
    (h : SpecialB ok s q o ty sub) : sub ≠ [] := by
  intro hs
  exact h.x.ne_nil (by rw [hs]; rfl)

theorem SpecialB.tn {ok : TypeId → Nat → Bool} {s : Schema} {q : Query} {o : Options} {ty : TypeId} {sub : List Sel}
    (h : SpecialB ok s q o ty sub) : sub.any isTypename = true := by
  have := h.x.tn
  simp only [List.any_eq_true] at this ⊢
  obtain ⟨x, hx, hxt⟩ := this
  exact ⟨x, (mem_unB.mp hx).1, hxt⟩

theorem SpecialB.leaf {ok : TypeId → Nat → Bool} {s : Schema} {q : Query} {o : Options} {ty : TypeId} {sub : List Sel}
    (h : SpecialB ok s q o ty sub) : ∀ x ∈ sub, leafSel s q o x = true := by
  intro x hx
  cases hb : isBSpread q ty x with
  | true => obtain ⟨g, f, rfl, _, _⟩ := isBSpread_spread hb; rfl
  | false => exact h.x.leaf x (mem_unB.mpr ⟨hx, hb⟩)

/-- every spread of such a selection set: of a fragment on a possible type, or a (b)-spread -/
theorem SpecialB.spread {ok : TypeId → Nat → Bool} {s : Schema} {q : Query} {o : Options} {ty : TypeId} {sub : List Sel}
    (h : SpecialB ok s q o ty sub) (hok : OkSpec q ok) (hty : absHyp s ty) {g : Nat} (hg : Sel.spread g ∈ sub) :
    ∃ f, q.fragments[g]? = some f ∧ (f.on = ty → f.name ≠ "ID" ∧ fragmentIsRecursive q g = false) := by
  cases hb : isBSpread q ty (.spread g) with
  | true =>
    have hbf := h.b g hg hb
    obtain ⟨f, hf, hon, hname, _, _⟩ := fragOkB_parts hbf.okB
    exact ⟨f, hf, fun _ => ⟨hname, not_recursive_of_fragOkB hbf.okB⟩⟩
  | false =>
    obtain ⟨f, hf, hne⟩ := h.x.spread hok hty (mem_unB.mpr ⟨hg, hb⟩)
    exact ⟨f, hf, fun hon => absurd hon hne⟩

/-! ## Theorem 1: the items of an abstract position of the class -/

section CalcAbs
variable (c : Ctx) (hn : c.o.normalization = .none) (ok : TypeId → Nat → Bool) (hok : OkSpec c.q ok)

include hn in
/-- the field loop: the interface-level fields and one flattened member per (b)-spread, no items -/
theorem calcFields_specialB (pfx : String) (ty : TypeId) : ∀ (sub : List Sel) (fuel : Nat), sub.length + 1 ≤ fuel →
    (∀ x ∈ sub, leafSel c.s c.q c.o x = true) →
    (∀ g, Sel.spread g ∈ sub → ∃ f, c.q.fragments[g]? = some f ∧
      (f.on = ty → f.name ≠ "ID" ∧ fragmentIsRecursive c.q g = false)) →
    calcFields c fuel pfx ty sub = .ok (fieldsB c pfx ty sub, [])
  | [], fuel, hf, _, _ => by
    obtain ⟨f, rfl⟩ : ∃ f, fuel = f + 1 := ⟨fuel - 1, by omega⟩
    rw [calcFields.eq_2 _ _ _ _ (by omega)]; rfl
  | x :: xs, fuel, hf, hlf, hsp => by
    simp only [List.length_cons] at hf
    obtain ⟨f, rfl⟩ : ∃ f, fuel = f + 1 := ⟨fuel - 1, by omega⟩
    have ih := calcFields_specialB pfx ty xs f (by omega) (fun y hy => hlf y (List.mem_cons_of_mem _ hy))
      (fun g hg => hsp g (List.mem_cons_of_mem _ hg))
    rw [fieldsB_cons]
    cases x with
    | field a fid sub' =>
      obtain ⟨sf, hsf, hw, hdep', _, hty⟩ := leafSel_field (hlf _ (List.mem_cons_self))
      rw [calcFields.eq_3]
      simp only [getField_of hsf, bind, Except.bind]
      rcases hty with ⟨k, sn, hid, hk⟩ | ⟨k, en, hid, hk⟩
      · simp only [hid, getScalar_of hk, hn, C02.fieldType_none, renderField_tree c _ _ _ _ hw hdep', ih,
          pure, Except.pure]
        simp [fieldOfSelB, fieldOfSelV, hsf, hid, leafNameV, hk]
      · simp only [hid, getEnum_of hk, hn, C02.fieldType_none, renderField_tree c _ _ _ _ hw hdep', ih,
          pure, Except.pure]
        simp [fieldOfSelB, fieldOfSelV, hsf, hid, leafNameV, hk]
    | spread g =>
      obtain ⟨fr, hfr, hb⟩ := hsp g (List.mem_cons_self)
      rw [calcFields.eq_4]
      by_cases hon : fr.on = ty
      · obtain ⟨hname, hrec⟩ := hb hon
        have hne' : (fr.on != ty) = false := by simp [hon]
        simp only [getFragment_of hfr, bind, Except.bind, ih, hne', Bool.false_eq_true, ↓reduceIte, hrec,
          renderField_spread c fr hname, pure, Except.pure]
        simp [fieldOfSelB, hfr, hon]
      · have hne' : (fr.on != ty) = true := by simpa using hon
        simp only [getFragment_of hfr, bind, Except.bind, ih, hne', ↓reduceIte, pure, Except.pure]
        simp [fieldOfSelB, hfr, hon]
    | inline t sub' =>
      rw [calcFields.eq_5 _ _ _ _ _ _ (by simp) (by simp), ih]; simp [fieldOfSelB, fieldOfSelV]
    | typename =>
      rw [calcFields.eq_5 _ _ _ _ _ _ (by simp) (by simp), ih]; simp [fieldOfSelB, fieldOfSelV]

include hn hok in
/-- **the items of an abstract position of the class** -/
theorem calcSelection_specialB (name pfx : String) (ty : TypeId) (sub : List Sel) (hty : absHyp c.s ty)
    (h : SpecialB ok c.s c.q c.o ty sub) (B : Nat) (hB : ∀ t isub, Sel.inline t isub ∈ sub → isub.length ≤ B)
    (fuel : Nat) (hf : (vtsOfTy c.s ty).length + sub.length + B + 7 ≤ fuel) :
    calcSelection c fuel name pfx ty sub = .ok (absItemsB c name pfx ty sub) := by
  obtain ⟨f, rfl⟩ : ∃ f, fuel = f + 1 := ⟨fuel - 1, by omega⟩
  have hns : ∀ g, sub = [Sel.spread g] → False := by
    intro g hg
    have := h.tn
    subst hg
    simp [isTypename] at this
  rw [calcSelection.eq_3 _ _ _ _ _ _ hns]
  have hv : variantsOf c.s ty = .ok (some (vtsOfTy c.s ty)) := by
    apply variantsOf_abs
    cases ty <;> simp only [absHyp] at hty ⊢ <;> first | trivial | exact hty
  have hsp := fun g hg => h.spread hok hty (g := g) hg
  have hfm := filterMapM_variantSelS c.q ty sub (fun g hg => (hsp g hg).imp fun _ hx => hx.1)
  have hul := unB_length_le c.q ty sub
  have hvar := calcVariants_X c hn ok hok name pfx ty (unB c.q ty sub) hty h.x B
    (fun t isub hm => hB t isub (mem_unB.mp hm).1) (vtsOfTy c.s ty) f (by omega) (fun _ ht => ht)
  rw [vselsOfS_unB] at hvar
  have hfields := calcFields_specialB c hn pfx ty sub f (by omega) h.leaf hsp
  simp only [hv, bind, Except.bind, pure, Except.pure, hfm, hvar, hfields]
  simp [absItemsB, variantsV, otherVariants]

end CalcAbs

/-! ## Theorem 1 for `NestedBOp` -/

section CalcA
variable (c : Ctx) (hn : c.o.normalization = .none) (N M : Nat) (ok : TypeId → Nat → Bool) (hok : OkSpec c.q ok)

def A1 (fuel : Nat) : Prop := ∀ name pfx i sels e, selsDepth sels ≤ e → selsSize sels ≤ N →
  C02.Sb N M e ≤ fuel → aBody ok c.s c.q c.o (.object i) sels = true →
  calcSelection c fuel name pfx (.object i) sels = .ok (bodyItemsA c name pfx sels)
def A4 (fuel : Nat) : Prop := ∀ pfx i sels e, selsDepth sels ≤ e → selsSize sels ≤ N →
  C02.Fneed N M e sels.length ≤ fuel → aSels ok c.s c.q c.o (.object i) sels = true →
  calcFields c fuel pfx (.object i) sels = .ok (fieldsOfF c pfx sels, itemsAs c pfx sels)

include hok in
theorem stepA1 (f : Nat) (H4 : A4 c N M ok f) : A1 c N M ok (f + 1) := by
  intro name pfx i sels e hD hS hF ht
  by_cases hsp : ∃ g, sels = [Sel.spread g]
  · obtain ⟨g, rfl⟩ := hsp
    rw [calcSelection.eq_2]
    have hokg : ok (.object i) g = true := ht
    obtain ⟨fr, hfr, _, _, hrec⟩ := hok _ _ hokg
    simp only [getFragment_of hfr, bind, Except.bind, pure, Except.pure, hrec]
    simp [bodyItemsA, fragName, hfr]
  · have hsp' : ∀ g, sels ≠ [Sel.spread g] := fun g hg => hsp ⟨g, hg⟩
    rw [calcSelection.eq_3 _ _ _ _ _ _ (fun g hg => hsp ⟨g, hg⟩)]
    rw [aBody_not_lone hsp'] at ht
    have hv : variantsOf c.s (.object i) = .ok none := rfl
    have hL := C02.length_le_selsSize sels
    have hfields := H4 pfx i sels e hD hS (by
      cases e with
      | zero => simp only [C02.Fneed]; unfold C02.Sb at hF; omega
      | succ e' => simp only [C02.Fneed]; rw [C02.Sb_succ] at hF; omega) ht
    simp only [hv, bind, Except.bind, pure, Except.pure, hfields]
    rw [bodyItemsA_not_lone c name pfx hsp']
    simp [renderType]

theorem itemsA_old (pfx : String) (a : Option String) (fid : Nat) (sub : List Sel) (sf : StoredField)
    (hsf : c.s.fields[fid]? = some sf) (hno : ∀ i, sf.ty.id ≠ .object i)
    (hs : sSel c.s c.q c.o false (.field a fid sub) = true) :
    itemsA c pfx (.field a fid sub) = itemsS c pfx (.field a fid sub) := by
  rw [itemsA]
  simp only [hsf]
  cases hid : sf.ty.id with
  | object i => exact absurd hid (hno i)
  | scalar k => simp [hs]
  | «enum» k => simp [hs]
  | interface k => simp [hs]
  | union k => simp [hs]
  | input k => simp [hs]

theorem itemsA_new (pfx : String) (a : Option String) (fid : Nat) (sub : List Sel) (sf : StoredField)
    (hsf : c.s.fields[fid]? = some sf) (hno : ∀ i, sf.ty.id ≠ .object i)
    (hs : sSel c.s c.q c.o false (.field a fid sub) = false) :
    itemsA c pfx (.field a fid sub) =
      absItemsB c (pfx ++ c.cs.camel (a.getD sf.name)) (pfx ++ c.cs.camel (a.getD sf.name)) sf.ty.id sub := by
  rw [itemsA]
  simp only [hsf]
  cases hid : sf.ty.id with
  | object i => exact absurd hid (hno i)
  | scalar k => simp [hs]
  | «enum» k => simp [hs]
  | interface k => simp [hs]
  | union k => simp [hs]
  | input k => simp [hs]

include hn hok in
theorem stepA4 (hM : ∀ ty vts, variantsOf c.s ty = .ok (some vts) → vts.length ≤ M)
    (f : Nat) (H1 : A1 c N M ok f) (H4 : A4 c N M ok f) : A4 c N M ok (f + 1) := by
  intro pfx i sels e hD hS hF ht
  have H1a := (calc_variantspread c hn N M hM f).2.1
  cases sels with
  | nil => rw [calcFields.eq_2 _ _ _ _ (by omega)]; rfl
  | cons x rest =>
    cases e with
    | zero => have := C02.selsDepth_cons_pos x rest; omega
    | succ e =>
      obtain ⟨hx, hrest⟩ := aSels_cons ht
      rw [selsDepth.eq_2] at hD
      rw [selsSize.eq_2] at hS
      simp only [C02.Fneed, List.length_cons] at hF
      have hR := H4 pfx i rest (e + 1) (by omega) (by omega) (by simp only [C02.Fneed]; omega) hrest
      rw [fieldsOfF_cons, itemsAs]
      cases x with
      | field a fid sub =>
        rw [selDepth.eq_1] at hD
        rw [selSize.eq_1] at hS
        obtain ⟨sf, hsf⟩ := aSel_field_some hx
        by_cases hobj : ∃ j, sf.ty.id = .object j
        · rw [calcFields.eq_3]
          simp only [getField_of hsf, bind, Except.bind]
          obtain ⟨j, hid⟩ := hobj
          obtain ⟨hw, hdep', _, hbody⟩ := aSel_obj hsf hid hx
          have hS' := H1 (pfx ++ c.cs.camel (a.getD sf.name)) (pfx ++ c.cs.camel (a.getD sf.name)) j sub e
            (by omega) (by omega) (by omega) hbody
          simp only [hid, renderField_tree c _ _ _ _ hw hdep', hS', hR, pure, Except.pure]
          have hitems : itemsA c pfx (.field a fid sub) =
              bodyItemsA c (pfx ++ c.cs.camel (a.getD sf.name)) (pfx ++ c.cs.camel (a.getD sf.name)) sub := by
            rw [itemsA]; simp only [hsf, hid]; rfl
          rw [hitems]
          simp [fieldOfSelF, fieldOfSelV, hsf, hid, leafNameV]
        · have hno : ∀ j, sf.ty.id ≠ .object j := fun j h => hobj ⟨j, h⟩
          rcases aSel_nonobj hsf hno hx with hs | ⟨hs, hnew⟩
          · -- a field of `VariantSpreadOp`
            rw [calcFields.eq_3]
            simp only [getField_of hsf, bind, Except.bind]
            rw [itemsA_old c pfx a fid sub sf hsf hno hs]
            rw [sSel] at hs
            simp only [hsf, Bool.and_eq_true] at hs
            obtain ⟨⟨hw, hdep⟩, hty⟩ := hs
            have hdep' : (sf.deprecation.isSome && c.o.deprecation == .deny) = false := by
              cases hd : (sf.deprecation.isSome && c.o.deprecation == .deny) with
              | false => rfl
              | true => simp [hd] at hdep
            cases hid : sf.ty.id with
            | object j => exact absurd hid (hno j)
            | scalar k =>
              simp only [hid, Bool.and_eq_true] at hty
              cases hk : c.s.scalars[k]? with
              | none => simp [hk] at hty
              | some sn =>
                simp only [getScalar_of hk, hn, C02.fieldType_none, renderField_tree c _ _ _ _ hw hdep', hR,
                  pure, Except.pure]
                simp [itemsS, fieldOfSelF, fieldOfSelV, hsf, hid, leafNameV, hk]
            | «enum» k =>
              simp only [hid, Bool.and_eq_true] at hty
              cases hk : c.s.enums[k]? with
              | none => simp [hk] at hty
              | some en =>
                simp only [getEnum_of hk, hn, C02.fieldType_none, renderField_tree c _ _ _ _ hw hdep', hR,
                  pure, Except.pure]
                simp [itemsS, fieldOfSelF, fieldOfSelV, hsf, hid, leafNameV, hk]
            | interface k =>
              simp only [hid, Bool.and_eq_true] at hty
              have hS' := H1a (pfx ++ c.cs.camel (a.getD sf.name)) (pfx ++ c.cs.camel (a.getD sf.name)) (.interface k) sub e
                (by omega) (by omega) (by omega) hty.1.1 hty.1.2 hty.2
              simp only [renderField_tree c _ _ _ _ hw hdep', hS', hR, pure, Except.pure]
              simp [itemsS, fieldOfSelF, fieldOfSelV, hsf, hid, leafNameV, absItemsS, absItemsL]
            | union k =>
              simp only [hid, Bool.and_eq_true] at hty
              have hS' := H1a (pfx ++ c.cs.camel (a.getD sf.name)) (pfx ++ c.cs.camel (a.getD sf.name)) (.union k) sub e
                (by omega) (by omega) (by omega) hty.1.1 hty.1.2 hty.2
              simp only [renderField_tree c _ _ _ _ hw hdep', hS', hR, pure, Except.pure]
              simp [itemsS, fieldOfSelF, fieldOfSelV, hsf, hid, leafNameV, absItemsS, absItemsL]
            | input k => simp [hid] at hty
          · -- a field of abstract type of the new kind
            rw [calcFields.eq_3]
            simp only [getField_of hsf, bind, Except.bind]
            rw [itemsA_new c pfx a fid sub sf hsf hno hs]
            obtain ⟨hw, hdep', hty, hsubA⟩ := absFieldB_parts hnew
            have hsp := absSubB_parts hsubA
            have hvl : (vtsOfTy c.s sf.ty.id).length ≤ M := by
              apply hM sf.ty.id
              apply variantsOf_abs
              revert hty
              cases sf.ty.id <;> simp only [absHyp] <;> intro hty <;> first | trivial | exact hty
            have hsubpos : 1 ≤ selsDepth sub := by
              have := hsp.ne_nil
              cases sub with
              | nil => exact absurd rfl this
              | cons y ys => exact C02.selsDepth_cons_pos y ys
            have hL := C02.length_le_selsSize sub
            have hB : ∀ t isub, Sel.inline t isub ∈ sub → isub.length ≤ N - sub.length := by
              intro t isub hm
              have h1 := inline_length_le_selsSize hm
              omega
            have hfuel : (vtsOfTy c.s sf.ty.id).length + sub.length + (N - sub.length) + 7 ≤ f := by
              obtain ⟨e', rfl⟩ : ∃ e', e = e' + 1 := ⟨e - 1, by omega⟩
              rw [C02.Sb_succ] at hF
              unfold C02.Sb at hF
              omega
            have hS' := calcSelection_specialB c hn ok hok (pfx ++ c.cs.camel (a.getD sf.name))
              (pfx ++ c.cs.camel (a.getD sf.name)) sf.ty.id sub hty hsp (N - sub.length) hB f hfuel
            cases hid : sf.ty.id with
            | object j => exact absurd hid (hno j)
            | scalar k => rw [hid] at hty; exact absurd hty (by simp [absHyp])
            | «enum» k => rw [hid] at hty; exact absurd hty (by simp [absHyp])
            | input k => rw [hid] at hty; exact absurd hty (by simp [absHyp])
            | interface k =>
              rw [hid] at hS'
              simp only [renderField_tree c _ _ _ _ hw hdep', hS', hR, pure, Except.pure]
              simp [fieldOfSelF, fieldOfSelV, hsf, hid, leafNameV]
            | union k =>
              rw [hid] at hS'
              simp only [renderField_tree c _ _ _ _ hw hdep', hS', hR, pure, Except.pure]
              simp [fieldOfSelF, fieldOfSelV, hsf, hid, leafNameV]
      | spread g =>
        rw [calcFields.eq_4]
        have hokg : ok (.object i) g = true := by simpa [aSel] using hx
        obtain ⟨fr, hfr, hon, hname, hrec⟩ := hok _ _ hokg
        have hne : (fr.on != TypeId.object i) = false := by simp [hon]
        simp only [getFragment_of hfr, bind, Except.bind, hR, hne, Bool.false_eq_true, ↓reduceIte,
          hrec, renderField_spread c fr hname, pure, Except.pure]
        simp [fieldOfSelF, hfr, itemsA]
      | inline t sub => simp [aSel] at hx
      | typename =>
        rw [calcFields.eq_5 _ _ _ _ _ _ (by simp) (by simp), hR]
        simp [fieldOfSelF, fieldOfSelV, itemsA]


include hn hok in
theorem calc_nestedabs (hM : ∀ ty vts, variantsOf c.s ty = .ok (some vts) → vts.length ≤ M) :
    ∀ fuel, A1 c N M ok fuel ∧ A4 c N M ok fuel := by
  intro fuel
  induction fuel with
  | zero =>
    refine ⟨?_, ?_⟩
    · intro _ _ _ _ e _ _ h; unfold C02.Sb at h; omega
    · intro _ _ sels e _ _ h; have := C02.Fneed_pos N M e sels.length; omega
  | succ f ih => exact ⟨stepA1 c N M ok hok f ih.2, stepA4 c hn N M ok hok hM f ih.1 ih.2⟩

end CalcA

theorem nestedBOp_parts {c : Ctx} {op : ROperation} (h : NestedBOp c op = true) :
    c.o.normalization = .none ∧ (c.s.objects[op.objectId]?).isSome = true ∧
      aBody (fragOkN c.s c.q c.o c.q.fragments.length) c.s c.q c.o (.object op.objectId) op.sels = true := by
  simp only [NestedBOp, Bool.and_eq_true, beq_iff_eq] at h
  exact ⟨h.1.1, h.1.2, h.2⟩

/-- the items of an object-level selection set of the class (any rank), anywhere in the document -/
theorem bodyA_items_shape (c : Ctx) (hn : c.o.normalization = .none) (r : Nat) (name pfx : String) (i : Nat)
    (sels : List Sel) (hD : selsDepth sels ≤ C02.maxDepth c.q) (hS : selsSize sels ≤ C02.totalSize c.q)
    (ht : aBody (fragOkN c.s c.q c.o r) c.s c.q c.o (.object i) sels = true) :
    calcSelection c (calcFuel c.s c.q) name pfx (.object i) sels = .ok (bodyItemsA c name pfx sels) :=
  (calc_nestedabs c hn (C02.totalSize c.q) (c.s.objects.length + C02.maxUnion c.s) _ (fragOkN_spec c.s c.q c.o r)
    (C02.variants_length_le c.s) (calcFuel c.s c.q)).1 name pfx i sels (C02.maxDepth c.q) hD hS (calcFuel_Sb c) ht

/-- **Theorem 1 (`nestedb_items_shape`).**  For an operation of the class `NestedBOp` the response items are, in closed
    form, `bodyItemsA`: those of `nested_items_shape`, and at a field of abstract type of the new kind the tagged enum and,
    per selected possible type `T`, the type alias `…On<T> = F` of the (nested) fragment's struct. -/
theorem nestedb_items_shape (c : Ctx) (op : ROperation) (hop : op ∈ c.q.operations) (ht : NestedBOp c op = true) :
    responseItems c op = .ok (bodyItemsA c "ResponseData" (c.cs.camel op.name) op.sels) := by
  obtain ⟨hn, _, hsels⟩ := nestedBOp_parts ht
  apply bodyA_items_shape c hn _ _ _ _ _ (C02.op_depth_le c.q op hop) _ hsels
  apply C02.le_foldl_add
  left
  simp only [List.mem_append, List.mem_map]
  exact .inr ⟨op, hop, rfl⟩

end C01NB
end GqlVerif
